import B6.Model.VM
/-!
C21: the layout of the compiled instruction array (`VM.layoutOK` holds for every program).
Part 1: what one `compileExpr` does to the compiler state (`Good`) and that its resolved instructions
match the expression once the targets it enqueued sit at their entry points (`MatchE`).
-/
namespace B6.Lemmas.VMLayout
open B6.Model B6.Model.VM

/-! ### small facts -/

def names (f : Frame) : List String := f.map (·.1)

theorem names_append (a b : Frame) : names (a ++ b) = names a ++ names b := by simp [names]

theorem lookup_isSome_names : ∀ (f : Frame) (s : String), (f.lookup s).isSome = (names f).contains s
  | [], s => by simp [names]
  | (k, v) :: f, s => by
    simp only [List.lookup, names, List.map_cons, List.contains_cons]
    have ih := lookup_isSome_names f s
    cases h : s == k <;> simp [h, names] at ih ⊢
    exact ih

theorem bindParams_spec : ∀ (ps : List String) (n : Nat) (own : List (String × Nat)),
    bindParams ps n = .ok own →
    own.map (·.1) = ps ∧ ps.zip (own.map (·.2)) = own ∧ own.length = ps.length ∧
    (own.map (·.2)).Nodup ∧ (∀ r ∈ own.map (·.2), n ≤ r ∧ r < n + ps.length) ∧ (ps ≠ [] → n + ps.length ≤ maxArgs)
  | [], n, own, h => by
    simp only [bindParams] at h
    injection h with h; subst h
    simp
  | p :: ps, n, own, h => by
    simp only [bindParams] at h
    split at h
    · cases h
    · rename_i hlt
      cases hr : bindParams ps (n + 1) with
      | error e => simp [hr] at h
      | ok rest =>
        simp only [hr] at h
        injection h with h; subst h
        obtain ⟨h1, h2, h3, h4, h5, h6⟩ := bindParams_spec ps (n + 1) rest hr
        refine ⟨by simp [h1], by simp [h2], by simp [h3], ?_, ?_, ?_⟩
        · simp only [List.map_cons, List.nodup_cons]
          refine ⟨?_, h4⟩
          intro hm
          have := (h5 n hm).1
          omega
        · intro r hr'
          simp only [List.map_cons, List.mem_cons] at hr'
          rcases hr' with rfl | hr'
          · simp only [List.length_cons]; omega
          · have := h5 r hr'
            simp only [List.length_cons]; omega
        · intro _
          simp only [List.length_cons]
          by_cases hps : ps = []
          · subst hps; simp at hlt ⊢; omega
          · have := h6 hps; omega

theorem bindParams_ok : ∀ (ps : List String) (n : Nat), n + ps.length ≤ maxArgs ∨ ps = [] →
    ∃ own, bindParams ps n = .ok own
  | [], n, _ => ⟨[], rfl⟩
  | p :: ps, n, h => by
    have h' : n + (ps.length + 1) ≤ maxArgs := by
      rcases h with h | h
      · simpa using h
      · cases h
    have hlt : ¬ n ≥ maxArgs := by omega
    obtain ⟨rest, hr⟩ := bindParams_ok ps (n + 1) (Or.inl (by omega))
    exact ⟨(p, n) :: rest, by simp [bindParams, hlt, hr]⟩

theorem bindParams_err : ∀ (ps : List String) (n : Nat) (e : Fail), bindParams ps n = .error e → e = .error
  | [], n, e, h => by simp [bindParams] at h
  | p :: ps, n, e, h => by
    simp only [bindParams] at h
    split at h
    · injection h with h; exact h.symm
    · cases hr : bindParams ps (n + 1) with
      | error e' => simp [hr] at h; subst h; exact bindParams_err ps (n + 1) e' hr
      | ok rest => simp [hr] at h

mutual
  theorem qbeq_refl : (q : Query) → Query.beq q q = true
    | .keyed _ => by simp [Query.beq]
    | .tagged _ _ => by simp [Query.beq]
    | .typed _ q => by simp [Query.beq, qbeq_refl q]
    | .inter qs => by simp [Query.beq, qbeqs_refl qs]
    | .union qs => by simp [Query.beq, qbeqs_refl qs]
    | .other _ => by simp [Query.beq]
  theorem qbeqs_refl : (qs : List Query) → Query.beqs qs qs = true
    | [] => by simp [Query.beqs]
    | q :: qs => by simp [Query.beqs, qbeq_refl q, qbeqs_refl qs]
end

/-! ### resolveAll -/

theorem resolveAll_append (en : List Nat) : ∀ (a b : List Instr) (r : List Instr),
    resolveAll en (a ++ b) = .ok r ↔ ∃ ra rb, resolveAll en a = .ok ra ∧ resolveAll en b = .ok rb ∧ r = ra ++ rb
  | [], b, r => by simp [resolveAll]
  | i :: a, b, r => by
    simp only [List.cons_append, resolveAll]
    cases hi : resolveInstr en i with
    | error e => simp
    | ok i' =>
      simp only []
      cases hab : resolveAll en (a ++ b) with
      | error e =>
        simp only [reduceCtorEq, false_iff, not_exists, not_and]
        intro ra rb h1 h2
        cases ha : resolveAll en a with
        | error e' => simp [ha] at h1
        | ok ra' =>
          have := (resolveAll_append en a b (ra' ++ rb)).mpr ⟨ra', rb, ha, h2, rfl⟩
          rw [hab] at this; cases this
      | ok rab =>
        obtain ⟨ra, rb, h1, h2, h3⟩ := (resolveAll_append en a b rab).mp hab
        simp only [h1, h2, Except.ok.injEq]
        constructor
        · intro h; exact ⟨i' :: ra, rb, rfl, rfl, by rw [← h, h3]; rfl⟩
        · rintro ⟨ra', rb', e1, e2, e3⟩
          subst e1; subst e2; rw [e3, h3]; rfl

theorem resolveAll_length (en : List Nat) : ∀ (a r : List Instr), resolveAll en a = .ok r → r.length = a.length
  | [], r, h => by simp [resolveAll] at h; subst h; rfl
  | i :: a, r, h => by
    simp only [resolveAll] at h
    cases hi : resolveInstr en i with
    | error e => simp [hi] at h
    | ok i' =>
      cases ha : resolveAll en a with
      | error e => simp [hi, ha] at h
      | ok ra =>
        simp [hi, ha] at h; subst h
        simp [resolveAll_length en a ra ha]

def noLam : Instr → Bool
  | .pushLam _ _ => false
  | .callLam _ _ _ => false
  | _ => true

theorem resolveAll_noLam (en : List Nat) : ∀ (a : List Instr), a.all noLam = true → resolveAll en a = .ok a
  | [], _ => rfl
  | i :: a, h => by
    simp only [List.all_cons, Bool.and_eq_true] at h
    have ih := resolveAll_noLam en a h.2
    cases i <;> simp_all [resolveAll, resolveInstr, noLam]

/-- lambda references of an instruction lie in `[lo, hi)` -/
def lamRef (lo hi : Nat) : Instr → Prop
  | .pushLam t _ => lo ≤ t ∧ t < hi
  | .callLam t _ _ => lo ≤ t ∧ t < hi
  | _ => True

theorem lamRef_mono {lo lo' hi hi' : Nat} (h1 : lo' ≤ lo) (h2 : hi ≤ hi') {i : Instr} (h : lamRef lo hi i) :
    lamRef lo' hi' i := by
  cases i <;> simp_all [lamRef] <;> omega

theorem resolveAll_ok_of_bound (en : List Nat) : ∀ (a : List Instr), (∀ i ∈ a, lamRef 0 en.length i) →
    ∃ r, resolveAll en a = .ok r
  | [], _ => ⟨[], rfl⟩
  | i :: a, h => by
    obtain ⟨r, hr⟩ := resolveAll_ok_of_bound en a (fun j hj => h j (by simp [hj]))
    have hi := h i (by simp)
    cases i <;> simp_all [resolveAll, resolveInstr, lamRef]

theorem takeStores_map : ∀ (rs : List Nat) (is : List Instr),
    takeStores rs.length (rs.map Instr.store ++ is) = some (rs.reverse, is)
  | [], is => by simp [takeStores]
  | r :: rs, is => by
    simp only [List.length_cons, List.map_cons, List.cons_append, takeStores, takeStores_map rs is,
      List.reverse_cons]

theorem takeStores_stores (regs : List Nat) (is : List Instr) :
    takeStores regs.length (regs.reverse.map Instr.store ++ is) = some (regs, is) := by
  have := takeStores_map regs.reverse is
  simpa using this


/-! ### what one `compileExpr` does to the compiler state -/

def sumParams : List Target → Nat
  | [] => 0
  | t :: ts => t.body.numParams + sumParams ts

def sumLams : List Target → Nat
  | [] => 0
  | t :: ts => 1 + t.body.numLambdas + sumLams ts

theorem sumParams_append : ∀ (a b : List Target), sumParams (a ++ b) = sumParams a + sumParams b
  | [], b => by simp [sumParams]
  | t :: a, b => by simp [sumParams, sumParams_append a b]; omega

theorem sumLams_append : ∀ (a b : List Target), sumLams (a ++ b) = sumLams a + sumLams b
  | [], b => by simp [sumLams]
  | t :: a, b => by simp [sumLams, sumLams_append a b]; omega

def wfT (t : Target) : Bool := wfAt (names t.frame) t.body

structure Good (st st' : CState) (is : List Instr) (new : List Target) (np nl : Nat) (wf : Bool) : Prop where
  queue : st'.queue = st.queue ++ new
  nT : st'.nTargets = st.nTargets + new.length
  nA : st'.numArgs + sumParams new = st.numArgs + np
  nL : sumLams new = nl
  le : st.numArgs ≤ maxArgs → st'.numArgs ≤ maxArgs
  wfEq : wf = new.all wfT
  idx : ∀ i ∈ is, lamRef st.nTargets st'.nTargets i

theorem Good.refl (st : CState) : Good st st [] [] 0 0 true :=
  ⟨by simp, by simp, by simp [sumParams], by simp [sumLams], id, by simp, by simp⟩

theorem Good.cast {st st' is new np nl wf np' nl' wf'} (g : Good st st' is new np nl wf)
    (h1 : np = np') (h2 : nl = nl') (h3 : wf = wf') : Good st st' is new np' nl' wf' := by
  subst h1; subst h2; subst h3; exact g

theorem Good.append {st st1 st2 is1 is2 new1 new2 np1 np2 nl1 nl2 wf1 wf2}
    (g1 : Good st st1 is1 new1 np1 nl1 wf1) (g2 : Good st1 st2 is2 new2 np2 nl2 wf2) :
    Good st st2 (is1 ++ is2) (new1 ++ new2) (np1 + np2) (nl1 + nl2) (wf1 && wf2) where
  queue := by rw [g2.queue, g1.queue, List.append_assoc]
  nT := by rw [g2.nT, g1.nT, List.length_append]; omega
  nA := by
    have := g1.nA; have := g2.nA
    rw [sumParams_append]; omega
  nL := by rw [sumLams_append, g1.nL, g2.nL]
  le := fun h => g2.le (g1.le h)
  wfEq := by rw [g1.wfEq, g2.wfEq, List.all_append]
  idx := by
    intro i hi
    have n1 := g1.nT; have n2 := g2.nT
    rcases List.mem_append.mp hi with hi | hi
    · exact lamRef_mono (Nat.le_refl _) (by omega) (g1.idx i hi)
    · exact lamRef_mono (by omega) (Nat.le_refl _) (g2.idx i hi)

theorem Good.snoc {st st' is new np nl wf} (g : Good st st' is new np nl wf) (i : Instr) (hi : noLam i = true) :
    Good st st' (is ++ [i]) new np nl wf where
  queue := g.queue
  nT := g.nT
  nA := g.nA
  nL := g.nL
  le := g.le
  wfEq := g.wfEq
  idx := by
    intro j hj
    rcases List.mem_append.mp hj with hj | hj
    · exact g.idx j hj
    · simp only [List.mem_singleton] at hj; subst hj
      cases j <;> simp_all [lamRef, noLam]

/-- the state after `compileLambda` -/
def afterLam (frame : Frame) (ps : List String) (body : Expr) (own : List (String × Nat)) (st : CState) : CState :=
  { numArgs := st.numArgs + ps.length, nTargets := st.nTargets + 1,
    queue := st.queue ++ [{ body := body, frame := own ++ frame, own := own.map (·.2) }] }

theorem compileLambda_inv {frame : Frame} {ps : List String} {body : Expr} {st st' : CState} {t : Nat}
    (h : compileLambda frame ps body st = .ok (t, st')) :
    ∃ own, bindParams ps st.numArgs = .ok own ∧ t = st.nTargets ∧ st' = afterLam frame ps body own st := by
  unfold compileLambda at h
  cases hb : bindParams ps st.numArgs with
  | error e => simp [hb] at h
  | ok own =>
    simp only [hb] at h
    injection h with h
    injection h with h1 h2
    exact ⟨own, rfl, h1.symm, h2.symm⟩

theorem Good.lam {frame : Frame} {ps : List String} {body : Expr} {own : List (String × Nat)} {st : CState}
    (hb : bindParams ps st.numArgs = .ok own) (i : Instr)
    (hi : lamRef st.nTargets (st.nTargets + 1) i) :
    Good st (afterLam frame ps body own st) [i] [{ body := body, frame := own ++ frame, own := own.map (·.2) }]
      (ps.length + body.numParams) (1 + body.numLambdas) (wfAt (ps ++ names frame) body) where
  queue := rfl
  nT := by simp [afterLam]
  nA := by simp [afterLam, sumParams]; omega
  nL := by simp [sumLams]
  le := by
    intro h
    obtain ⟨_, _, _, _, _, h6⟩ := bindParams_spec ps st.numArgs own hb
    simp only [afterLam]
    by_cases hps : ps = []
    · subst hps; simpa using h
    · exact h6 hps
  wfEq := by
    obtain ⟨h1, _⟩ := bindParams_spec ps st.numArgs own hb
    simp [wfT, names_append, names, h1]
  idx := by
    intro j hj
    simp only [List.mem_singleton] at hj; subst hj
    simpa [afterLam] using hi


/-! ### the instructions of one `compileExpr`, resolved, match the expression -/

def LamCode (code : List Instr) (t : Target) (pc : Nat) : Prop :=
  ∃ is tl, code.drop pc = t.own.reverse.map Instr.store ++ is ∧
    matchExpr code t.frame t.body is = some (.discard :: .ret :: tl)

/-- every target of `new` (numbered from `base`) sits at its entry point -/
def Hyp (code : List Instr) (entries : List Nat) (base : Nat) (new : List Target) : Prop :=
  ∀ j t, new[j]? = some t → ∃ pc, entries[base + j]? = some pc ∧ LamCode code t pc

def MatchE (code : List Instr) (frame : Frame) (e : Expr) (base : Nat) (is : List Instr) (new : List Target) : Prop :=
  ∀ entries ris rest, resolveAll entries is = .ok ris → Hyp code entries base new →
    matchExpr code frame e (ris ++ rest) = some rest

def MatchA (code : List Instr) (frame : Frame) (as : List Expr) (base : Nat) (is : List Instr) (new : List Target) : Prop :=
  ∀ entries ris rest, resolveAll entries is = .ok ris → Hyp code entries base new →
    matchArgs code frame as (ris ++ rest) = some rest

theorem getElem?_lt {α : Type} : ∀ {l : List α} {j : Nat} {a : α}, l[j]? = some a → j < l.length
  | [], j, a, h => by simp at h
  | _ :: l, 0, a, h => by simp
  | _ :: l, j + 1, a, h => by
    simp only [List.getElem?_cons_succ] at h
    have := getElem?_lt h
    simp only [List.length_cons]; omega

theorem Hyp.left {code entries base new1 new2} (h : Hyp code entries base (new1 ++ new2)) :
    Hyp code entries base new1 := by
  intro j t hj
  exact h j t (by rw [List.getElem?_append_left (getElem?_lt hj)]; exact hj)

theorem Hyp.right {code entries base new1 new2} (h : Hyp code entries base (new1 ++ new2)) :
    Hyp code entries (base + new1.length) new2 := by
  intro j t hj
  have := h (new1.length + j) t (by rw [List.getElem?_append_right (by omega)]; simpa using hj)
  simpa [Nat.add_assoc] using this

theorem resolve_pushLam {en : List Nat} {t k : Nat} {ris : List Instr}
    (h : resolveAll en [Instr.pushLam t k] = .ok ris) : ∃ pc, en[t]? = some pc ∧ ris = [.pushLam pc k] := by
  simp only [resolveAll, resolveInstr] at h
  cases he : en[t]? with
  | none => simp [he] at h
  | some pc => simp [he] at h; exact ⟨pc, rfl, h.symm⟩

theorem resolve_callLam {en : List Nat} {t k n : Nat} {ris : List Instr}
    (h : resolveAll en [Instr.callLam t k n] = .ok ris) : ∃ pc, en[t]? = some pc ∧ ris = [.callLam pc k n] := by
  simp only [resolveAll, resolveInstr] at h
  cases he : en[t]? with
  | none => simp [he] at h
  | some pc => simp [he] at h; exact ⟨pc, rfl, h.symm⟩

theorem matchLam_of {code : List Instr} {frame : Frame} {ps : List String} {b : Expr} {n pc : Nat}
    {own : List (String × Nat)} (hb : bindParams ps n = .ok own)
    (hc : LamCode code { body := b, frame := own ++ frame, own := own.map (·.2) } pc) :
    matchLamWith (fun fr js => matchExpr code fr b js) code frame ps pc = true := by
  obtain ⟨h1, h2, h3, h4, h5, h6⟩ := bindParams_spec ps n own hb
  obtain ⟨is, tl, hd, hm⟩ := hc
  simp only at hd hm
  unfold matchLamWith
  have hl : ps.length = (own.map (·.2)).length := by simp [h3]
  rw [hd, hl, takeStores_stores]
  simp only [h2, hm, Bool.and_true, Bool.and_eq_true, List.all_eq_true, decide_eq_true_eq]
  refine ⟨?_, h4⟩
  intro r hr
  have := h5 r hr
  have hps : ps ≠ [] := by
    intro hps; subst hps
    simp at h3; subst h3; simp at hr
  have := h6 hps
  omega

mutual
  theorem compileExpr_good : (e : Expr) → ∀ (frame : Frame) (st st' : CState) (is : List Instr),
      compileExpr frame e st = .ok (is, st') →
      ∃ new, Good st st' is new e.numParams e.numLambdas (wfAt (names frame) e) ∧
        ∀ code, MatchE code frame e st.nTargets is new
    | .sym s, frame, st, st', is, h => by
      simp only [compileExpr] at h
      have hwf := lookup_isSome_names frame s
      cases hl : frame.lookup s with
      | some r =>
        simp only [hl, Except.ok.injEq, Prod.mk.injEq] at h
        obtain ⟨rfl, rfl⟩ := h
        refine ⟨[], (Good.snoc (Good.refl st) (.load r) rfl).cast (by simp [Expr.numParams]) (by simp [Expr.numLambdas])
          (by rw [hl] at hwf; simp only [Option.isSome_some] at hwf; simp only [wfAt, ← hwf, Bool.true_or]), ?_⟩
        intro code entries ris rest hr _
        simp [resolveAll, resolveInstr] at hr
        subst hr
        simp [matchExpr, hl]
      | none =>
        simp only [hl] at h
        cases hb : Builtin.ofName s with
        | none => simp [hb] at h
        | some b =>
          simp only [hb, Except.ok.injEq, Prod.mk.injEq] at h
          obtain ⟨rfl, rfl⟩ := h
          refine ⟨[], (Good.snoc (Good.refl st) (.pushFn b) rfl).cast (by simp [Expr.numParams]) (by simp [Expr.numLambdas])
            (by simp [wfAt, hb]), ?_⟩
          intro code entries ris rest hr _
          simp [resolveAll, resolveInstr] at hr
          subst hr
          simp [matchExpr, hl, hb]
    | .lit l, frame, st, st', is, h => by
      simp only [compileExpr, Except.ok.injEq, Prod.mk.injEq] at h
      obtain ⟨rfl, rfl⟩ := h
      refine ⟨[], (Good.snoc (Good.refl st) (.pushVal l.toVal) rfl).cast (by simp [Expr.numParams]) (by simp [Expr.numLambdas])
        (by simp [wfAt]), ?_⟩
      intro code entries ris rest hr _
      simp [resolveAll, resolveInstr] at hr
      subst hr
      have : litMatches l l.toVal = true := by
        cases l <;> simp [litMatches, Lit.toVal, qbeq_refl]
      simp [matchExpr, this]
    | .lam ps b, frame, st, st', is, h => by
      simp only [compileExpr] at h
      cases hl : compileLambda frame ps b st with
      | error e => simp [hl] at h
      | ok r =>
        obtain ⟨t, st2⟩ := r
        simp only [hl, Except.ok.injEq, Prod.mk.injEq] at h
        obtain ⟨rfl, rfl⟩ := h
        obtain ⟨own, hb, rfl, rfl⟩ := compileLambda_inv hl
        refine ⟨_, (Good.lam hb (.pushLam st.nTargets ps.length) (by simp [lamRef])).cast
          (by simp [Expr.numParams]) (by simp [Expr.numLambdas]) (by simp [wfAt]), ?_⟩
        intro code entries ris rest hr hyp
        obtain ⟨pc, hpc, rfl⟩ := resolve_pushLam hr
        obtain ⟨pc', hpc', hlc⟩ := hyp 0 _ rfl
        simp only [Nat.add_zero] at hpc'
        rw [hpc] at hpc'; injection hpc' with hpc'; subst hpc'
        simp [matchExpr, matchLam_of hb hlc]
    | .call f args p, frame, st, st', is, h => by
      simp only [compileExpr] at h
      cases ha : compileArgs frame args st with
      | error e => simp [ha] at h
      | ok r =>
        obtain ⟨isa, st1⟩ := r
        simp only [ha] at h
        obtain ⟨new1, g1, m1⟩ := compileArgs_good args frame st st1 isa ha
        cases f with
        | sym s =>
          simp only at h
          cases hb : Builtin.ofName s with
          | none => simp [hb] at h
          | some b =>
            simp only [hb, Except.ok.injEq, Prod.mk.injEq] at h
            obtain ⟨rfl, rfl⟩ := h
            refine ⟨new1, (g1.snoc (.callFn b args.length) rfl).cast (by simp [Expr.numParams])
              (by simp [Expr.numLambdas]) (by simp [wfAt, hb]), ?_⟩
            intro code entries ris rest hr hyp
            obtain ⟨ra, rb, h1, h2, rfl⟩ := (resolveAll_append entries _ _ _).mp hr
            simp [resolveAll, resolveInstr] at h2
            subst h2
            have := m1 code entries ra ([Instr.callFn b args.length] ++ rest) h1 hyp
            rw [matchExpr, List.append_assoc, this]
            simp [hb]
        | lit l => simp at h
        | lam ps b =>
          simp only at h
          cases hl : compileLambda frame ps b st1 with
          | error e => simp [hl] at h
          | ok r =>
            obtain ⟨t, st2⟩ := r
            simp only [hl, Except.ok.injEq, Prod.mk.injEq] at h
            obtain ⟨rfl, rfl⟩ := h
            obtain ⟨own, hb, rfl, rfl⟩ := compileLambda_inv hl
            have g2 := Good.lam (frame := frame) (body := b) hb (.callLam st1.nTargets ps.length args.length) (by simp [lamRef])
            refine ⟨_, (g1.append g2).cast (by simp [Expr.numParams]; omega) (by simp [Expr.numLambdas]; omega)
              (by simp [wfAt, Bool.and_comm]), ?_⟩
            intro code entries ris rest hr hyp
            obtain ⟨ra, rb, h1, h2, rfl⟩ := (resolveAll_append entries _ _ _).mp hr
            obtain ⟨pc, hpc, rfl⟩ := resolve_callLam h2
            have hyp2 := hyp.right
            rw [← g1.nT] at hyp2
            obtain ⟨pc', hpc', hlc⟩ := hyp2 0 _ rfl
            simp only [Nat.add_zero] at hpc'
            rw [hpc] at hpc'; injection hpc' with hpc'; subst hpc'
            have := m1 code entries ra ([Instr.callLam pc ps.length args.length] ++ rest) h1 hyp.left
            rw [matchExpr, List.append_assoc, this]
            simp [matchLamAt, matchLam_of hb hlc]
        | call g gargs q =>
          simp only at h
          cases hc : compileExpr frame (.call g gargs q) st1 with
          | error e => simp [hc] at h
          | ok r =>
            obtain ⟨isf, st2⟩ := r
            simp only [hc, Except.ok.injEq, Prod.mk.injEq] at h
            obtain ⟨rfl, rfl⟩ := h
            obtain ⟨new2, g2, m2⟩ := compileExpr_good (.call g gargs q) frame st1 st2 isf hc
            refine ⟨new1 ++ new2, ((g1.append g2).snoc (.callStack args.length) rfl).cast
              (by simp [Expr.numParams]; omega) (by simp [Expr.numLambdas]; omega) (by simp [wfAt]), ?_⟩
            intro code entries ris rest hr hyp
            obtain ⟨rab, rc, h12, h3, rfl⟩ := (resolveAll_append entries _ _ _).mp hr
            obtain ⟨ra, rb, h1, h2, rfl⟩ := (resolveAll_append entries _ _ _).mp h12
            simp [resolveAll, resolveInstr] at h3
            subst h3
            have hyp2 := hyp.right
            rw [← g1.nT] at hyp2
            have e1 := m1 code entries ra (rb ++ ([Instr.callStack args.length] ++ rest)) h1 hyp.left
            have e2 := m2 code entries rb ([Instr.callStack args.length] ++ rest) h2 hyp2
            rw [matchExpr]
            simp only [List.append_assoc]
            rw [e1]
            simp only []
            rw [e2]
            simp
  theorem compileArgs_good : (as : List Expr) → ∀ (frame : Frame) (st st' : CState) (is : List Instr),
      compileArgs frame as st = .ok (is, st') →
      ∃ new, Good st st' is new (Expr.numParamss as) (Expr.numLambdass as) (wfsAt (names frame) as) ∧
        ∀ code, MatchA code frame as st.nTargets is new
    | [], frame, st, st', is, h => by
      simp only [compileArgs, Except.ok.injEq, Prod.mk.injEq] at h
      obtain ⟨rfl, rfl⟩ := h
      refine ⟨[], (Good.refl st).cast (by simp [Expr.numParamss]) (by simp [Expr.numLambdass]) (by simp [wfsAt]), ?_⟩
      intro code entries ris rest hr _
      simp [resolveAll] at hr
      subst hr
      simp [matchArgs]
    | a :: as, frame, st, st', is, h => by
      simp only [compileArgs] at h
      cases ha : compileExpr frame a st with
      | error e => simp [ha] at h
      | ok r =>
        obtain ⟨isa, st1⟩ := r
        simp only [ha] at h
        cases hs : compileArgs frame as st1 with
        | error e => simp [hs] at h
        | ok r =>
          obtain ⟨iss, st2⟩ := r
          simp only [hs, Except.ok.injEq, Prod.mk.injEq] at h
          obtain ⟨rfl, rfl⟩ := h
          obtain ⟨new1, g1, m1⟩ := compileExpr_good a frame st st1 isa ha
          obtain ⟨new2, g2, m2⟩ := compileArgs_good as frame st1 st2 iss hs
          refine ⟨new1 ++ new2, (g1.append g2).cast (by simp [Expr.numParamss]) (by simp [Expr.numLambdass])
            (by simp [wfsAt]), ?_⟩
          intro code entries ris rest hr hyp
          obtain ⟨ra, rb, h1, h2, rfl⟩ := (resolveAll_append entries _ _ _).mp hr
          have hyp2 := hyp.right
          rw [← g1.nT] at hyp2
          have e1 := m1 code entries ra (rb ++ rest) h1 hyp.left
          have e2 := m2 code entries rb rest h2 hyp2
          rw [matchArgs, List.append_assoc, e1]
          exact e2
end

end B6.Lemmas.VMLayout
