import B6.Lemmas.ProtoService
/-!
The simulation invariant of the lock-protocol model (C40): the worlds a caller can see are those of the
reference run over the ghost log, up to worlds that were created but whose creator has not taken effect yet.
-/
namespace B6.Lemmas.ProtoService
open B6.Model.Proto B6.Model.Proto.Service

def pastEval (pc : Pc) : Bool := pc == Pc.upRUnlock || pc == Pc.wlock || pc == Pc.apply
def preApply (pc : Pc) : Bool := pc == Pc.eval || pastEval pc

structure ClientOk (s : State) (c : Client) : Prop where
  phase : phaseOk c = true
  bound : ∀ o, c.obj = some o → o < s.heap.length
  live : ∀ o, c.obj = some o → c.logged = false → ∃ wid rs, c.req = .change wid rs ∧ mfind s.map wid = some o
  snap : ∀ o wid rs w, c.obj = some o → c.logged = false → c.req = .change wid rs → pastEval c.pc = true →
    s.heap[o]? = some w → c.change = evalRules w rs
  dead : ∀ o, c.obj = some o → c.logged = true → preApply c.pc = true → (∃ wid rs, c.req = .change wid rs) →
    ∀ wid, mfind s.map wid ≠ some o

def Rel (s : State) (A : View) (wid : Nat) : Prop :=
  match mfind s.map wid with
  | some o => (∃ w, s.heap[o]? = some w ∧ vfind A wid = some w) ∨
      (vfind A wid = none ∧ s.heap[o]? = some s.base ∧
        ∃ (j : Nat) (c : Client), s.clients[j]? = some c ∧ c.obj = some o ∧ c.logged = false)
  | none => vfind A wid = none

structure Inv (base : World) (v0 : View) (reqs : List Req) (s : State) : Prop where
  hbase : s.base = base
  hreqs : s.clients.map (·.req) = reqs
  cl : ∀ (j : Nat) (c : Client), s.clients[j]? = some c → ClientOk s c
  inj : ∀ w1 w2 o, mfind s.map w1 = some o → mfind s.map w2 = some o → w1 = w2
  mbound : ∀ w o, mfind s.map w = some o → o < s.heap.length
  rel : ∀ wid, Rel s (serialRun base v0 s.log) wid
  perm : s.log.Perm ((s.clients.filter (·.logged)).map (·.req))

/-! ### list lemmas about the logged requests -/

def loggedReqs (cs : List Client) : List Req := (cs.filter (·.logged)).map (·.req)

theorem reqs_set (l : List Client) (i : Nat) (c c' : Client) (h : l[i]? = some c) (hr : c'.req = c.req) :
    (l.set i c').map (·.req) = l.map (·.req) := by
  induction l generalizing i with
  | nil => simp at h
  | cons x rest ih =>
    cases i with
    | zero => simp at h; simp [h, hr]
    | succ i => simp at h; simp [ih i h]

theorem loggedReqs_set_same (l : List Client) (i : Nat) (c c' : Client) (h : l[i]? = some c)
    (hl : c'.logged = c.logged) (hr : c'.req = c.req) : loggedReqs (l.set i c') = loggedReqs l := by
  induction l generalizing i with
  | nil => simp at h
  | cons x rest ih =>
    cases i with
    | zero =>
      simp at h; subst h
      simp only [loggedReqs, List.set_cons_zero, List.filter_cons, hl]
      split <;> simp [hr]
    | succ i =>
      simp at h
      have := ih i h
      simp only [loggedReqs, List.set_cons_succ, List.filter_cons] at this ⊢
      split <;> simp [this]

theorem loggedReqs_set_log (l : List Client) (i : Nat) (c c' : Client) (h : l[i]? = some c)
    (hl : c.logged = false) (hl' : c'.logged = true) :
    (loggedReqs (l.set i c')).Perm (loggedReqs l ++ [c'.req]) := by
  induction l generalizing i with
  | nil => simp at h
  | cons x rest ih =>
    cases i with
    | zero =>
      simp at h; subst h
      simp only [loggedReqs, List.set_cons_zero, List.filter_cons, hl, hl', ↓reduceIte, List.map_cons,
        Bool.false_eq_true]
      exact List.perm_append_comm (l₁ := [c'.req])
    | succ i =>
      simp at h
      have := ih i h
      simp only [loggedReqs, List.set_cons_succ, List.filter_cons] at this ⊢
      split
      · simp only [List.map_cons, List.cons_append]
        exact List.Perm.cons _ this
      · exact this

def flushElem (o : Nat) (c : Client) : Client :=
  if c.obj = some o ∧ c.logged = false then { c with logged := true } else c

theorem flushHolders_eq (cs : List Client) (o : Nat) : flushHolders cs o = cs.map (flushElem o) := rfl

theorem loggedReqs_flush (cs : List Client) (o : Nat) :
    (loggedReqs (flushHolders cs o)).Perm (loggedReqs cs ++ doomed cs o) := by
  induction cs with
  | nil => simp [loggedReqs, flushHolders, doomed]
  | cons x rest ih =>
    simp only [loggedReqs, flushHolders, doomed, List.map_cons, List.filter_cons] at ih ⊢
    by_cases hx : x.obj = some o ∧ x.logged = false
    · have hl : x.logged = false := hx.2
      simp only [hx, and_self, ↓reduceIte, decide_true, List.map_cons, Bool.false_eq_true]
      refine (List.Perm.cons _ ih).trans ?_
      exact (List.perm_middle).symm
    · simp only [hx, ↓reduceIte, decide_false, Bool.false_eq_true]
      split
      · simp only [List.map_cons, List.cons_append]
        exact List.Perm.cons _ ih
      · exact ih

/-! ### moving `ClientOk` and `Rel` between states -/

theorem get_set_cases {l : List Client} {i j : Nat} {c c' cj : Client} (hc : l[i]? = some c)
    (h : (l.set i c')[j]? = some cj) : (j = i ∧ cj = c') ∨ (j ≠ i ∧ l[j]? = some cj) := by
  rw [List.getElem?_set] at h
  by_cases e : i = j
  · have hi : i < l.length := (List.getElem?_eq_some_iff.mp hc).1
    simp [e] at h
    rw [← e] at h
    simp [hi] at h
    exact Or.inl ⟨e.symm, h.symm⟩
  · simp [e] at h
    exact Or.inr ⟨fun x => e x.symm, h⟩

theorem get_set_self {l : List Client} {i : Nat} {c c' : Client} (hc : l[i]? = some c) :
    (l.set i c')[i]? = some c' :=
  List.getElem?_set_self (List.getElem?_eq_some_iff.mp hc).1

theorem get_set_other {l : List Client} {i j : Nat} {c' : Client} (h : j ≠ i) :
    (l.set i c')[j]? = l[j]? := List.getElem?_set_ne (fun e => h e.symm)

theorem ClientOk.congr {s s' : State} {c : Client} (hh : s'.heap = s.heap) (hm : s'.map = s.map)
    (h : ClientOk s c) : ClientOk s' c :=
  ⟨h.phase, by rw [hh]; exact h.bound, by rw [hm]; exact h.live, by rw [hh]; exact h.snap,
    by rw [hm]; exact h.dead⟩

/-- a new world object appended to the heap and mapped: the other clients do not notice -/
theorem ClientOk.grow {s s' : State} {c : Client} (b : World) (wid : Nat)
    (hh : s'.heap = s.heap ++ [b]) (hm : s'.map = s.map ++ [(wid, s.heap.length)])
    (h : ClientOk s c) : ClientOk s' c := by
  refine ⟨h.phase, ?_, ?_, ?_, ?_⟩
  · intro o ho; rw [hh]; have := h.bound o ho; simp; omega
  · intro o ho hl
    obtain ⟨w, rs, hr, hmf⟩ := h.live o ho hl
    exact ⟨w, rs, hr, by rw [hm, mfind_append, hmf]⟩
  · intro o wid' rs w ho hl hr hp hw
    have hb := h.bound o ho
    rw [hh, List.getElem?_append_left hb] at hw
    exact h.snap o wid' rs w ho hl hr hp hw
  · intro o ho hl hp hr wid' hmf
    rw [hm, mfind_append] at hmf
    have hb := h.bound o ho
    split at hmf
    · rename_i x hx; simp at hmf; rw [hmf] at hx; exact h.dead o ho hl hp hr wid' hx
    · split at hmf
      · simp at hmf; omega
      · simp at hmf

theorem phase_find_obj {c : Client} (h : phaseOk c = true) (hpc : c.pc = Pc.find) :
    c.obj = none ∧ c.logged = false := by
  unfold phaseOk at h
  cases hr : c.req <;> simp [hr, hpc] at h <;> simp [h]

theorem phase_mapop_obj {c : Client} (h : phaseOk c = true) (hpc : c.pc = Pc.mapop) :
    c.obj = none ∧ c.logged = false := by
  unfold phaseOk at h
  cases hr : c.req <;> simp [hr, hpc] at h <;> simp [h]

/-- a step that only moves client `i` within its own program -/
theorem inv_local {base : World} {v0 : View} {reqs : List Req} {s : State} (hinv : Inv base v0 reqs s)
    {i : Nat} {c : Client} (hc : s.clients[i]? = some c) (c' : Client)
    (hreq : c'.req = c.req) (hobj : c'.obj = c.obj) (hlog : c'.logged = c.logged) (hph : phaseOk c' = true)
    (hsnap : ∀ o wid rs w, c'.obj = some o → c'.logged = false → c'.req = .change wid rs →
      pastEval c'.pc = true → s.heap[o]? = some w → c'.change = evalRules w rs)
    (hpre : preApply c'.pc = true → preApply c.pc = true)
    (s' : State) (h1 : s'.base = s.base) (h2 : s'.heap = s.heap) (h3 : s'.map = s.map) (h4 : s'.log = s.log)
    (h5 : s'.clients = s.clients.set i c') : Inv base v0 reqs s' := by
  have hci := hinv.cl i c hc
  refine ⟨by rw [h1]; exact hinv.hbase, ?_, ?_, by rw [h3]; exact hinv.inj,
    by rw [h3, h2]; exact hinv.mbound, ?_, ?_⟩
  · rw [h5, reqs_set _ _ _ _ hc hreq]; exact hinv.hreqs
  · intro j cj hj
    rw [h5] at hj
    rcases get_set_cases hc hj with ⟨_, rfl⟩ | ⟨_, hj⟩
    · refine ⟨hph, ?_, ?_, ?_, ?_⟩
      · rw [h2, hobj]; exact hci.bound
      · rw [h3, hobj, hlog, hreq]; exact hci.live
      · rw [h2]; exact hsnap
      · rw [h3, hobj, hlog, hreq]; intro o ho hl hp; exact hci.dead o ho hl (hpre hp)
    · exact (hinv.cl j cj hj).congr h2 h3
  · intro wid
    have := hinv.rel wid
    unfold Rel at this ⊢
    rw [h3, h4, h2, h1]
    split
    · rename_i o ho
      rw [ho] at this
      rcases this with h | ⟨ha, hb, j, cj, hj, hjo, hjl⟩
      · exact Or.inl h
      · refine Or.inr ⟨ha, hb, ?_⟩
        by_cases e : j = i
        · subst e
          rw [hc] at hj; simp at hj; subst hj
          exact ⟨j, c', by rw [h5]; exact get_set_self hc, by rw [hobj]; exact hjo, by rw [hlog]; exact hjl⟩
        · exact ⟨j, cj, by rw [h5, get_set_other e]; exact hj, hjo, hjl⟩
    · rename_i ho
      rw [ho] at this
      exact this
  · rw [h4, h5]
    have := loggedReqs_set_same _ _ _ _ hc hlog hreq
    unfold loggedReqs at this
    rw [this]; exact hinv.perm

/-- `Rel` for a world the step does not concern: same object, same content, same reference entry, and the
witness (if any) is still there -/
theorem rel_keep {s s' : State} {A A' : View} {wid : Nat}
    (hm : mfind s'.map wid = mfind s.map wid) (hA : vfind A' wid = vfind A wid) (hb : s'.base = s.base)
    (hh : ∀ o, mfind s.map wid = some o → s'.heap[o]? = s.heap[o]?)
    (hw : ∀ (o j : Nat) (c : Client), mfind s.map wid = some o → s.clients[j]? = some c → c.obj = some o → c.logged = false →
      ∃ (j' : Nat) (c' : Client), s'.clients[j']? = some c' ∧ c'.obj = some o ∧ c'.logged = false)
    (h : Rel s A wid) : Rel s' A' wid := by
  unfold Rel at h ⊢
  rw [hm, hA, hb]
  split
  · rename_i o ho
    rw [ho] at h
    rw [hh o ho]
    rcases h with h | ⟨ha, hb, j, cj, hj, hjo, hjl⟩
    · exact Or.inl h
    · exact Or.inr ⟨ha, hb, hw o j cj ho hj hjo hjl⟩
  · rename_i ho
    rw [ho] at h
    exact h

/-- witnesses survive an update of client `i` if client `i` held nothing -/
theorem witness_set {s : State} {i : Nat} {c c' : Client} (hc : s.clients[i]? = some c) (hnone : c.obj = none)
    (o j : Nat) (cj : Client) (hj : s.clients[j]? = some cj) (hjo : cj.obj = some o) (hjl : cj.logged = false) :
    ∃ (j' : Nat) (c'' : Client), (s.clients.set i c')[j']? = some c'' ∧ c''.obj = some o ∧ c''.logged = false := by
  by_cases e : j = i
  · subst e; rw [hc] at hj; simp at hj; subst hj; rw [hnone] at hjo; simp at hjo
  · exact ⟨j, cj, by rw [get_set_other e]; exact hj, hjo, hjl⟩

/-- `find` of a query on an existing world -/
theorem inv_find_query_some {base : World} {v0 : View} {reqs : List Req} {s : State} (hinv : Inv base v0 reqs s)
    {i : Nat} {c : Client} (hc : s.clients[i]? = some c) (hpc : c.pc = Pc.find) {wid o : Nat}
    (hreq : c.req = .query wid) (hm : mfind s.map wid = some o) :
    Inv base v0 reqs (setClient { s with log := s.log ++ [c.req] } i { c with pc := .eval, obj := some o, logged := true }) := by
  have hci := hinv.cl i c hc
  obtain ⟨hnone, hunl⟩ := phase_find_obj hci.phase hpc
  refine ⟨hinv.hbase, ?_, ?_, hinv.inj, hinv.mbound, ?_, ?_⟩
  · exact (reqs_set _ _ _ { c with pc := .eval, obj := some o, logged := true } hc rfl).trans hinv.hreqs
  · intro j cj hj
    simp only [setClient] at hj
    rcases get_set_cases hc hj with ⟨_, rfl⟩ | ⟨_, hj⟩
    · refine ⟨by simp [phaseOk, hreq], ?_, ?_, ?_, ?_⟩
      · intro o' ho'; simp at ho'; subst ho'; exact hinv.mbound wid _ hm
      · intro o' _ hl; simp at hl
      · intro o' w rs _ _ hl; simp at hl
      · intro o' _ _ _ hr; simp [hreq] at hr
    · exact ClientOk.congr (s := s) rfl rfl (hinv.cl j cj hj)
  · intro wid'
    simp only [setClient]
    rw [serialRun_append]
    by_cases e : wid' = wid
    · subst e
      have := hinv.rel wid'
      unfold Rel at this ⊢
      simp only [hm] at this ⊢
      rw [hreq, serialStep_query]
      rcases this with ⟨w, hw, ha⟩ | ⟨ha, hb, _⟩
      · exact Or.inl ⟨w, hw, by rw [ha]⟩
      · exact Or.inl ⟨s.base, hb, by rw [ha, hinv.hbase]⟩
    · refine rel_keep (s := s) rfl ?_ rfl (fun _ _ => rfl) ?_ (hinv.rel wid')
      · rw [hreq]; exact serialStep_other _ _ _ _ (by simp [Req.wid?]; exact fun x => e x.symm)
      · intro o' j cj _ hj hjo hjl; exact witness_set hc hnone o' j cj hj hjo hjl
  · simp only [setClient]
    have := loggedReqs_set_log s.clients i c { c with pc := .eval, obj := some o, logged := true } hc hunl rfl
    unfold loggedReqs at this
    exact (List.Perm.append_right _ hinv.perm).trans this.symm

theorem inj_grow {base : World} {v0 : View} {reqs : List Req} {s : State} (hinv : Inv base v0 reqs s) (wid : Nat) :
    ∀ w1 w2 o, mfind (s.map ++ [(wid, s.heap.length)]) w1 = some o →
      mfind (s.map ++ [(wid, s.heap.length)]) w2 = some o → w1 = w2 := by
  intro w1 w2 o h1 h2
  rw [mfind_append] at h1 h2
  split at h1
  · rename_i x1 hx1
    simp at h1; subst h1
    split at h2
    · rename_i x2 hx2; simp at h2; subst h2; exact hinv.inj w1 w2 _ hx1 hx2
    · have := hinv.mbound w1 _ hx1
      split at h2
      · simp at h2; omega
      · simp at h2
  · split at h1
    · rename_i e1
      simp at h1
      split at h2
      · rename_i x2 hx2
        simp at h2
        have := hinv.mbound w2 _ hx2
        omega
      · split at h2
        · rename_i e2; rw [← e1, ← e2]
        · simp at h2
    · simp at h1

theorem mbound_grow {base : World} {v0 : View} {reqs : List Req} {s : State} (hinv : Inv base v0 reqs s)
    (wid : Nat) (b : World) :
    ∀ w o, mfind (s.map ++ [(wid, s.heap.length)]) w = some o → o < (s.heap ++ [b]).length := by
  intro w o h
  rw [mfind_append] at h
  simp
  split at h
  · rename_i x hx; simp at h; subst h; have := hinv.mbound w _ hx; omega
  · split at h
    · simp at h; omega
    · simp at h

/-- `Rel` for the other worlds when a world object is created for `wid` -/
theorem rel_grow_other {base : World} {v0 : View} {reqs : List Req} {s s' : State} (hinv : Inv base v0 reqs s)
    {A A' : View} {wid wid' : Nat} (hne : wid' ≠ wid) (b : World)
    (hb : s'.base = s.base) (hh : s'.heap = s.heap ++ [b]) (hm : s'.map = s.map ++ [(wid, s.heap.length)])
    (_hnone : mfind s.map wid = none)
    (hA : vfind A' wid' = vfind A wid')
    (hw : ∀ (o j : Nat) (c : Client), s.clients[j]? = some c → c.obj = some o → c.logged = false →
      ∃ (j' : Nat) (c' : Client), s'.clients[j']? = some c' ∧ c'.obj = some o ∧ c'.logged = false)
    (h : Rel s A wid') : Rel s' A' wid' := by
  apply rel_keep (s := s) ?_ hA hb ?_ ?_ h
  · rw [hm, mfind_append]
    split
    · rename_i x hx; rw [hx]
    · rename_i hx; rw [hx]; simp; exact fun e => hne e.symm
  · intro o ho
    rw [hh, List.getElem?_append_left (hinv.mbound _ _ ho)]
  · intro o j c _ hj hjo hjl; exact hw o j c hj hjo hjl

/-- `find` of a query on a world that does not exist yet: it is created -/
theorem inv_find_query_none {base : World} {v0 : View} {reqs : List Req} {s : State} (hinv : Inv base v0 reqs s)
    {i : Nat} {c : Client} (hc : s.clients[i]? = some c) (hpc : c.pc = Pc.find) {wid : Nat}
    (hreq : c.req = .query wid) (hm : mfind s.map wid = none) :
    Inv base v0 reqs (setClient { s with heap := s.heap ++ [s.base], map := s.map ++ [(wid, s.heap.length)],
                                         log := s.log ++ [c.req] }
      i { c with pc := .eval, obj := some s.heap.length, logged := true }) := by
  have hci := hinv.cl i c hc
  obtain ⟨hnone, hunl⟩ := phase_find_obj hci.phase hpc
  refine ⟨hinv.hbase, ?_, ?_, inj_grow hinv wid, mbound_grow hinv wid s.base, ?_, ?_⟩
  · exact (reqs_set _ _ _ { c with pc := .eval, obj := some s.heap.length, logged := true } hc rfl).trans hinv.hreqs
  · intro j cj hj
    simp only [setClient] at hj
    rcases get_set_cases hc hj with ⟨_, rfl⟩ | ⟨_, hj⟩
    · refine ⟨by simp [phaseOk, hreq], ?_, ?_, ?_, ?_⟩
      · intro o' ho'; simp at ho'; subst ho'; simp [setClient]
      · intro o' _ hl; simp at hl
      · intro o' w rs _ _ hl; simp at hl
      · intro o' _ _ _ hr; simp [hreq] at hr
    · exact ClientOk.grow (s := s) s.base wid rfl rfl (hinv.cl j cj hj)
  · intro wid'
    simp only [setClient]
    rw [serialRun_append]
    by_cases e : wid' = wid
    · subst e
      have := hinv.rel wid'
      unfold Rel at this ⊢
      simp only [hm] at this
      simp only [mfind_append, hm]
      simp only [↓reduceIte, List.getElem?_concat_length]
      rw [hreq, serialStep_query, this]
      exact Or.inl ⟨s.base, rfl, by rw [hinv.hbase]⟩
    · refine rel_grow_other hinv e s.base rfl rfl rfl hm ?_ ?_ (hinv.rel wid')
      · rw [hreq]; exact serialStep_other _ _ _ _ (by simp [Req.wid?]; exact fun x => e x.symm)
      · intro o' j cj hj hjo hjl; exact witness_set hc hnone o' j cj hj hjo hjl
  · simp only [setClient]
    have := loggedReqs_set_log s.clients i c { c with pc := .eval, obj := some s.heap.length, logged := true } hc hunl rfl
    unfold loggedReqs at this
    exact (List.Perm.append_right _ hinv.perm).trans this.symm

/-- `find` of a change request on a world that does not exist yet -/
theorem inv_find_change_none {base : World} {v0 : View} {reqs : List Req} {s : State} (hinv : Inv base v0 reqs s)
    {i : Nat} {c : Client} (hc : s.clients[i]? = some c) (hpc : c.pc = Pc.find) {wid : Nat} {rs : List Rule}
    (hreq : c.req = .change wid rs) (hm : mfind s.map wid = none) :
    Inv base v0 reqs (setClient { s with heap := s.heap ++ [s.base], map := s.map ++ [(wid, s.heap.length)] }
      i { c with pc := .eval, obj := some s.heap.length }) := by
  have hci := hinv.cl i c hc
  obtain ⟨hnone, hunl⟩ := phase_find_obj hci.phase hpc
  refine ⟨hinv.hbase, ?_, ?_, inj_grow hinv wid, mbound_grow hinv wid s.base, ?_, ?_⟩
  · exact (reqs_set _ _ _ { c with pc := .eval, obj := some s.heap.length } hc rfl).trans hinv.hreqs
  · intro j cj hj
    simp only [setClient] at hj
    rcases get_set_cases hc hj with ⟨_, rfl⟩ | ⟨_, hj⟩
    · refine ⟨by simp [phaseOk, hreq], ?_, ?_, ?_, ?_⟩
      · intro o' ho'; simp at ho'; subst ho'; simp [setClient]
      · intro o' ho' _
        simp at ho'; subst ho'
        exact ⟨wid, rs, hreq, by simp [setClient, mfind_append, hm]⟩
      · intro o' w rs' w' _ _ _ hp; simp [pastEval] at hp
      · intro o' _ hl; simp [hunl] at hl
    · exact ClientOk.grow (s := s) s.base wid rfl rfl (hinv.cl j cj hj)
  · intro wid'
    simp only [setClient]
    by_cases e : wid' = wid
    · subst e
      have := hinv.rel wid'
      unfold Rel at this ⊢
      simp only [hm] at this
      simp only [mfind_append, hm]
      simp only [↓reduceIte, List.getElem?_concat_length]
      refine Or.inr ⟨this, by first | trivial | rfl, i, { c with pc := .eval, obj := some s.heap.length }, get_set_self hc, rfl, hunl⟩
    · refine rel_grow_other hinv e s.base rfl rfl rfl hm rfl ?_ (hinv.rel wid')
      intro o' j cj hj hjo hjl; exact witness_set hc hnone o' j cj hj hjo hjl
  · simp only [setClient]
    have := loggedReqs_set_same s.clients i c { c with pc := .eval, obj := some s.heap.length } hc rfl rfl
    unfold loggedReqs at this
    rw [this]; exact hinv.perm

theorem phase_apply_req {c : Client} (h : phaseOk c = true) (hpc : c.pc = Pc.apply) :
    ∃ wid rs, c.req = .change wid rs := by
  unfold phaseOk at h
  cases hr : c.req <;> simp [hr, hpc] at h
  exact ⟨_, _, rfl⟩

/-- `apply`: the change computed earlier is written into the world object fetched earlier -/
theorem inv_apply {base : World} {v0 : View} {reqs : List Req} (hcf : conflictFree reqs = true) {s : State}
    (hinv : Inv base v0 reqs s) {i : Nat} {c : Client} (hc : s.clients[i]? = some c) (hpc : c.pc = Pc.apply)
    {o : Nat} {w : World} (ho : c.obj = some o) (hw : s.heap[o]? = some w) :
    Inv base v0 reqs (setClient { s with heap := s.heap.set o (applyWrites w c.change),
                                         log := if c.logged then s.log else s.log ++ [c.req] }
      i { c with pc := .wunlock, logged := true }) := by
  have hci := hinv.cl i c hc
  obtain ⟨wid, rs, hreq⟩ := phase_apply_req hci.phase hpc
  have hob : o < s.heap.length := hci.bound o ho
  have hget : ∀ o', (s.heap.set o (applyWrites w c.change))[o']? =
      if o = o' then some (applyWrites w c.change) else s.heap[o']? := by
    intro o'; rw [List.getElem?_set]; simp [hob]
  have hphase : phaseOk { c with pc := Pc.wunlock, logged := true } = true := by
    have := hci.phase
    simp [phaseOk, hreq, hpc] at this ⊢
    exact this
  cases hlg : c.logged
  · -- the change takes effect now
    obtain ⟨wid', rs', hreq', hmap⟩ := hci.live o ho hlg
    rw [hreq] at hreq'
    simp at hreq'
    obtain ⟨rfl, rfl⟩ := hreq'
    have hsn : c.change = evalRules w rs := hci.snap o wid rs w ho hlg hreq (by simp [pastEval, hpc]) hw
    refine ⟨hinv.hbase, ?_, ?_, hinv.inj, ?_, ?_, ?_⟩
    · exact (reqs_set _ _ _ { c with pc := .wunlock, logged := true } hc rfl).trans hinv.hreqs
    · intro j cj hj
      simp only [setClient] at hj
      rcases get_set_cases hc hj with ⟨_, rfl⟩ | ⟨hji, hj⟩
      · refine ⟨hphase, ?_, ?_, ?_, ?_⟩
        · intro o' ho'; simp [setClient]; exact hci.bound o' ho'
        · intro o' _ hl; simp at hl
        · intro o' w' rs' w'' _ hl; simp at hl
        · intro o' _ _ hp; simp [preApply, pastEval] at hp
      · have hcj := hinv.cl j cj hj
        refine ⟨hcj.phase, ?_, hcj.live, ?_, hcj.dead⟩
        · intro o' ho'; simp [setClient]; exact hcj.bound o' ho'
        · intro oj widj rsj w' hoj hlj hrj hpj hwj
          simp only [setClient] at hwj
          rw [hget] at hwj
          by_cases e : o = oj
          · subst e
            simp at hwj
            obtain ⟨w2, r2, hr2, hm2⟩ := hcj.live o hoj hlj
            have hwid : w2 = wid := hinv.inj _ _ _ hm2 hmap
            subst hwid
            rw [hrj] at hr2; simp at hr2
            obtain ⟨rfl, rfl⟩ := hr2
            have hnc : conflicts (.change widj rsj) (.change widj rs) = false := by
              apply conflictFree_get reqs hcf j i _ _ hji
              · rw [← hinv.hreqs, List.getElem?_map, hj]; simp [hrj]
              · rw [← hinv.hreqs, List.getElem?_map, hc]; simp [hreq]
            rw [← hwj, hsn, evalRules_stable hnc]
            exact hcj.snap o widj rsj w hoj hlj hrj hpj hw
          · simp [e] at hwj
            exact hcj.snap oj widj rsj w' hoj hlj hrj hpj hwj
    · intro w' o' hm'; simp [setClient]; exact hinv.mbound w' o' hm'
    · intro wid'
      simp only [setClient, Bool.false_eq_true, ↓reduceIte]
      rw [serialRun_append]
      by_cases e : wid' = wid
      · subst e
        have := hinv.rel wid'
        unfold Rel at this ⊢
        simp only [hmap] at this ⊢
        rw [hget]
        simp only [↓reduceIte]
        rw [hreq, serialStep_change]
        rcases this with ⟨w1, hw1, ha⟩ | ⟨ha, hb, _⟩
        · rw [hw] at hw1; simp at hw1; subst hw1
          exact Or.inl ⟨_, rfl, by rw [ha, hsn]⟩
        · rw [hw] at hb; simp at hb
          exact Or.inl ⟨_, rfl, by rw [ha, hsn, hb, hinv.hbase]⟩
      · refine rel_keep (s := s) rfl ?_ rfl ?_ ?_ (hinv.rel wid')
        · rw [hreq]; exact serialStep_other _ _ _ _ (by simp [Req.wid?]; exact fun x => e x.symm)
        · intro o' ho'
          rw [hget]
          have : ¬ o = o' := fun x => e (hinv.inj _ _ _ (x ▸ ho') hmap)
          simp [this]
        · intro o' j cj ho' hj hjo hjl
          by_cases e2 : j = i
          · subst e2
            rw [hc] at hj; simp at hj; subst hj
            rw [ho] at hjo; simp at hjo; subst hjo
            exact absurd (hinv.inj _ _ _ ho' hmap) e
          · exact ⟨j, cj, by rw [get_set_other e2]; exact hj, hjo, hjl⟩
    · simp only [setClient, Bool.false_eq_true, ↓reduceIte]
      have := loggedReqs_set_log s.clients i c { c with pc := .wunlock, logged := true } hc hlg rfl
      unfold loggedReqs at this
      exact (List.Perm.append_right _ hinv.perm).trans this.symm
  · -- the world object was deleted in the meantime: the writes land on the orphan
    have hdead := hci.dead o ho hlg (by simp [preApply, pastEval, hpc]) ⟨wid, rs, hreq⟩
    refine ⟨hinv.hbase, ?_, ?_, hinv.inj, ?_, ?_, ?_⟩
    · exact (reqs_set _ _ _ { c with pc := .wunlock, logged := true } hc rfl).trans hinv.hreqs
    · intro j cj hj
      simp only [setClient] at hj
      rcases get_set_cases hc hj with ⟨_, rfl⟩ | ⟨hji, hj⟩
      · refine ⟨hphase, ?_, ?_, ?_, ?_⟩
        · intro o' ho'; simp [setClient]; exact hci.bound o' ho'
        · intro o' _ hl; simp at hl
        · intro o' w' rs' w'' _ hl; simp at hl
        · intro o' _ _ hp; simp [preApply, pastEval] at hp
      · have hcj := hinv.cl j cj hj
        refine ⟨hcj.phase, ?_, hcj.live, ?_, hcj.dead⟩
        · intro o' ho'; simp [setClient]; exact hcj.bound o' ho'
        · intro oj widj rsj w' hoj hlj hrj hpj hwj
          simp only [setClient] at hwj
          rw [hget] at hwj
          obtain ⟨w2, r2, _, hm2⟩ := hcj.live oj hoj hlj
          have : ¬ o = oj := fun x => hdead w2 (x ▸ hm2)
          simp [this] at hwj
          exact hcj.snap oj widj rsj w' hoj hlj hrj hpj hwj
    · intro w' o' hm'; simp [setClient]; exact hinv.mbound w' o' hm'
    · intro wid'
      simp only [setClient, ↓reduceIte]
      refine rel_keep (s := s) rfl rfl rfl ?_ ?_ (hinv.rel wid')
      · intro o' ho'
        rw [hget]
        have : ¬ o = o' := fun x => hdead wid' (x ▸ ho')
        simp [this]
      · intro o' j cj ho' hj hjo hjl
        by_cases e2 : j = i
        · subst e2
          rw [hc] at hj; simp at hj; subst hj
          rw [hlg] at hjl; simp at hjl
        · exact ⟨j, cj, by rw [get_set_other e2]; exact hj, hjo, hjl⟩
    · simp only [setClient, ↓reduceIte]
      have := loggedReqs_set_same s.clients i c { c with pc := .wunlock, logged := true } hc (by simp [hlg]) rfl
      unfold loggedReqs at this
      rw [this]; exact hinv.perm

/-- `delete`/`list` that leave map and heap alone (the world does not exist / list-worlds): the request is
logged, the reference view does not change for any world -/
theorem inv_mapop_noop {base : World} {v0 : View} {reqs : List Req} {s : State} (hinv : Inv base v0 reqs s)
    {i : Nat} {c : Client} (hc : s.clients[i]? = some c) (hpc : c.pc = Pc.mapop)
    (hkind : c.req = .list ∨ ∃ wid, c.req = .delete wid ∧ mfind s.map wid = none) :
    Inv base v0 reqs (setClient { s with log := s.log ++ [c.req] } i { c with pc := .done, logged := true }) := by
  have hci := hinv.cl i c hc
  obtain ⟨hnone, hunl⟩ := phase_mapop_obj hci.phase hpc
  refine ⟨hinv.hbase, ?_, ?_, hinv.inj, hinv.mbound, ?_, ?_⟩
  · exact (reqs_set _ _ _ { c with pc := .done, logged := true } hc rfl).trans hinv.hreqs
  · intro j cj hj
    simp only [setClient] at hj
    rcases get_set_cases hc hj with ⟨_, rfl⟩ | ⟨_, hj⟩
    · refine ⟨?_, ?_, ?_, ?_, ?_⟩
      · rcases hkind with h | ⟨wid, h, _⟩ <;> simp [phaseOk, h]
      · intro o' ho'; simp [hnone] at ho'
      · intro o' _ hl; simp at hl
      · intro o' w rs _ _ hl; simp at hl
      · intro o' ho'; simp [hnone] at ho'
    · exact ClientOk.congr (s := s) rfl rfl (hinv.cl j cj hj)
  · intro wid'
    simp only [setClient]
    rw [serialRun_append]
    refine rel_keep (s := s) rfl ?_ rfl (fun _ _ => rfl) ?_ (hinv.rel wid')
    · rcases hkind with h | ⟨wid, h, hm⟩
      · rw [h]; rfl
      · rw [h]
        simp only [serialStep]
        rw [vfind_verase]
        by_cases e : wid' = wid
        · subst e
          have := hinv.rel wid'
          unfold Rel at this
          rw [hm] at this
          simp [this]
        · simp [e]
    · intro o' j cj _ hj hjo hjl; exact witness_set hc hnone o' j cj hj hjo hjl
  · simp only [setClient]
    have := loggedReqs_set_log s.clients i c { c with pc := .done, logged := true } hc hunl rfl
    unfold loggedReqs at this
    exact (List.Perm.append_right _ hinv.perm).trans this.symm

theorem phase_flush {c : Client} {o : Nat} (h : phaseOk c = true) (ho : c.obj = some o) (hl : c.logged = false) :
    phaseOk { c with logged := true } = true ∧ (∃ wid rs, c.req = .change wid rs) ∧ preApply c.pc = true := by
  unfold phaseOk at h
  cases hr : c.req <;> cases hp : c.pc <;> simp [hr, hp, ho, hl] at h <;>
    simp [phaseOk, hr, hp, ho, preApply, pastEval]

theorem flush_get {cs : List Client} {o j : Nat} {cj : Client} (h : (flushHolders cs o)[j]? = some cj) :
    ∃ c0, cs[j]? = some c0 ∧ cj = flushElem o c0 := by
  rw [flushHolders_eq, List.getElem?_map] at h
  cases hc : cs[j]? with
  | none => simp [hc] at h
  | some c0 => simp [hc] at h; exact ⟨c0, rfl, h.symm⟩

theorem doomed_mem {cs : List Client} {o : Nat} {r : Req} (h : r ∈ doomed cs o) :
    ∃ c ∈ cs, c.obj = some o ∧ c.logged = false ∧ c.req = r := by
  unfold doomed at h
  simp only [List.mem_map, List.mem_filter, decide_eq_true_eq] at h
  obtain ⟨c, ⟨hc, h1, h2⟩, hr⟩ := h
  exact ⟨c, hc, h1, h2, hr⟩

/-- `delete` of an existing world: the map entry goes, the object stays as an orphan, and the requests that
still hold it take effect (without any visible effect) just before the deletion -/
theorem inv_delete_some {base : World} {v0 : View} {reqs : List Req} {s : State} (hinv : Inv base v0 reqs s)
    {i : Nat} {c : Client} (hc : s.clients[i]? = some c) (hpc : c.pc = Pc.mapop) {wid o : Nat}
    (hreq : c.req = .delete wid) (hm : mfind s.map wid = some o) :
    Inv base v0 reqs (setClient { s with map := merase s.map wid, clients := flushHolders s.clients o,
                                         log := s.log ++ doomed s.clients o ++ [c.req] }
      i { c with pc := .done, logged := true }) := by
  have hci := hinv.cl i c hc
  obtain ⟨hnone, hunl⟩ := phase_mapop_obj hci.phase hpc
  have hfi : (flushHolders s.clients o)[i]? = some c := by
    rw [flush_getElem? _ _ _ _ hc]; simp [hnone]
  have hmf : ∀ w', mfind (merase s.map wid) w' = if w' = wid then none else mfind s.map w' := mfind_erase s.map wid
  refine ⟨hinv.hbase, ?_, ?_, ?_, ?_, ?_, ?_⟩
  · simp only [setClient]
    rw [reqs_set _ _ _ { c with pc := .done, logged := true } hfi rfl, flushHolders_eq, List.map_map]
    rw [← hinv.hreqs]
    apply List.map_congr_left
    intro x _
    simp only [Function.comp, flushElem]
    split <;> rfl
  · intro j cj hj
    simp only [setClient] at hj
    rcases get_set_cases hfi hj with ⟨_, rfl⟩ | ⟨_, hj⟩
    · refine ⟨by simp [phaseOk, hreq], ?_, ?_, ?_, ?_⟩
      · intro o' ho'; simp [hnone] at ho'
      · intro o' _ hl; simp at hl
      · intro o' w rs _ _ hl; simp at hl
      · intro o' ho'; simp [hnone] at ho'
    · obtain ⟨c0, hc0, rfl⟩ := flush_get hj
      have h0 := hinv.cl j c0 hc0
      unfold flushElem
      split
      · -- flushed
        rename_i hfl
        obtain ⟨hph, hch, hpre⟩ := phase_flush h0.phase hfl.1 hfl.2
        refine ⟨hph, h0.bound, ?_, ?_, ?_⟩
        · intro o' _ hl; simp at hl
        · intro o' w rs _ _ hl; simp at hl
        · intro o' ho' _ _ _ w' hw'
          simp only [setClient] at hw'
          rw [hmf] at hw'
          split at hw'
          · simp at hw'
          · rename_i hne
            have : o' = o := by rw [hfl.1] at ho'; simp at ho'; exact ho'.symm
            subst this
            exact hne (hinv.inj _ _ _ hw' hm)
      · -- not a holder
        rename_i hnf
        refine ⟨h0.phase, h0.bound, ?_, h0.snap, ?_⟩
        · intro o' ho' hl
          obtain ⟨w2, r2, hr2, hm2⟩ := h0.live o' ho' hl
          refine ⟨w2, r2, hr2, ?_⟩
          simp only [setClient]
          rw [hmf]
          have : ¬ w2 = wid := by
            intro e; subst e
            rw [hm] at hm2; simp at hm2; subst hm2
            exact hnf ⟨ho', hl⟩
          simp [this, hm2]
        · intro o' ho' hl hp hr w' hw'
          simp only [setClient] at hw'
          rw [hmf] at hw'
          split at hw'
          · simp at hw'
          · exact h0.dead o' ho' hl hp hr w' hw'
  · intro w1 w2 o' h1 h2
    simp only [setClient] at h1 h2
    rw [hmf] at h1 h2
    split at h1
    · simp at h1
    · split at h2
      · simp at h2
      · exact hinv.inj w1 w2 o' h1 h2
  · intro w' o' h'
    simp only [setClient] at h' ⊢
    rw [hmf] at h'
    split at h'
    · simp at h'
    · exact hinv.mbound w' o' h'
  · intro wid'
    simp only [setClient]
    have hdoomed : ∀ r ∈ doomed s.clients o, Req.wid? r = some wid := by
      intro r hr
      obtain ⟨cd, hcd, hdo, hdl, hdr⟩ := doomed_mem hr
      obtain ⟨jd, hjd⟩ := List.getElem?_of_mem hcd
      obtain ⟨w2, r2, hr2, hm2⟩ := (hinv.cl jd cd hjd).live o hdo hdl
      rw [← hdr, hr2]
      simp [Req.wid?]
      exact hinv.inj _ _ _ hm2 hm
    have hA : vfind (serialRun base v0 (s.log ++ doomed s.clients o ++ [c.req])) wid' =
        if wid' = wid then none else vfind (serialRun base v0 s.log) wid' := by
      rw [List.append_assoc, serialRun_append', hreq]
      exact serialRun_doomed base _ _ wid wid' hdoomed
    by_cases e : wid' = wid
    · subst e
      unfold Rel
      simp only [hmf, ↓reduceIte]
      rw [hA]; simp
    · have hrel := hinv.rel wid'
      unfold Rel at hrel ⊢
      simp only [hmf, e, ↓reduceIte]
      rw [hA]; simp only [e, ↓reduceIte]
      split
      · rename_i o' ho'
        rw [ho'] at hrel
        rcases hrel with h | ⟨ha, hb, j, cj, hj, hjo, hjl⟩
        · exact Or.inl h
        · refine Or.inr ⟨ha, hb, ?_⟩
          have hoo : o' ≠ o := fun x => e (hinv.inj _ _ _ (x ▸ ho') hm)
          have hji : j ≠ i := by
            intro x; subst x; rw [hc] at hj; simp at hj; subst hj; rw [hnone] at hjo; simp at hjo
          refine ⟨j, cj, ?_, hjo, hjl⟩
          rw [get_set_other hji, flush_getElem? _ _ _ _ hj]
          have : ¬ (cj.obj = some o ∧ cj.logged = false) := by
            intro ⟨x, _⟩; rw [hjo] at x; simp at x; exact hoo x
          simp [this]
      · rename_i ho'
        rw [ho'] at hrel
        exact hrel
  · simp only [setClient]
    have h1 := loggedReqs_flush s.clients o
    have h2 := loggedReqs_set_log (flushHolders s.clients o) i c { c with pc := .done, logged := true } hfi hunl rfl
    unfold loggedReqs at h1 h2
    refine List.Perm.trans ?_ h2.symm
    apply List.Perm.append_right
    exact (List.Perm.append_right _ hinv.perm).trans h1.symm

/-- `find` of a change request on an existing world -/
theorem inv_find_change_some {base : World} {v0 : View} {reqs : List Req} {s : State} (hinv : Inv base v0 reqs s)
    {i : Nat} {c : Client} (hc : s.clients[i]? = some c) (hpc : c.pc = Pc.find) {wid o : Nat} {rs : List Rule}
    (hreq : c.req = .change wid rs) (hm : mfind s.map wid = some o) :
    Inv base v0 reqs (setClient s i { c with pc := .eval, obj := some o }) := by
  have hci := hinv.cl i c hc
  obtain ⟨hnone, hunl⟩ := phase_find_obj hci.phase hpc
  refine ⟨hinv.hbase, ?_, ?_, hinv.inj, hinv.mbound, ?_, ?_⟩
  · exact (reqs_set _ _ _ { c with pc := .eval, obj := some o } hc rfl).trans hinv.hreqs
  · intro j cj hj
    simp only [setClient] at hj
    rcases get_set_cases hc hj with ⟨_, rfl⟩ | ⟨_, hj⟩
    · refine ⟨by simp [phaseOk, hreq], ?_, ?_, ?_, ?_⟩
      · intro o' ho'; simp at ho'; subst ho'; exact hinv.mbound wid _ hm
      · intro o' ho' _
        simp at ho'; subst ho'
        exact ⟨wid, rs, hreq, hm⟩
      · intro o' w rs' w' _ _ _ hp; simp [pastEval] at hp
      · intro o' _ hl; simp [hunl] at hl
    · exact ClientOk.congr (s := s) rfl rfl (hinv.cl j cj hj)
  · intro wid'
    simp only [setClient]
    refine rel_keep (s := s) rfl rfl rfl (fun _ _ => rfl) ?_ (hinv.rel wid')
    intro o' j cj _ hj hjo hjl; exact witness_set hc hnone o' j cj hj hjo hjl
  · simp only [setClient]
    have := loggedReqs_set_same s.clients i c { c with pc := .eval, obj := some o } hc rfl rfl
    unfold loggedReqs at this
    rw [this]; exact hinv.perm

/-! ### every step preserves the invariant -/

theorem inv_step {base : World} {v0 : View} {reqs : List Req} (hcf : conflictFree reqs = true) (pref : Bool)
    (s s' : State) (hinv : Inv base v0 reqs s) (hs : s' ∈ step pref s) : Inv base v0 reqs s' := by
  obtain ⟨i, c, hc, hs⟩ := mem_forWorkers.mp hs
  have hci := hinv.cl i c hc
  have hph := hci.phase
  unfold clientStep at hs
  cases hpc : c.pc <;> simp only [hpc] at hs
  · -- rlock
    simp only [mem_guard] at hs
    obtain ⟨_, rfl⟩ := hs
    refine inv_local hinv hc { c with pc := .find } rfl rfl rfl ?_ ?_ ?_ _ rfl rfl rfl rfl rfl
    · unfold phaseOk at hph ⊢; cases hr : c.req <;> simp [hr, hpc] at hph ⊢ <;> exact hph
    · intro o wid rs w _ _ _ hp; simp [pastEval] at hp
    · intro hp; simp [preApply, pastEval] at hp
  · -- find
    cases hreq : c.req <;> simp only [hreq] at hs
    · split at hs
      · rename_i o ho
        simp at hs; subst hs
        have := inv_find_query_some hinv hc hpc hreq ho
        rw [hreq] at this; exact this
      · rename_i ho
        simp at hs; subst hs
        have := inv_find_query_none hinv hc hpc hreq ho
        rw [hreq] at this; exact this
    · rename_i wid rs
      split at hs
      · rename_i o ho
        simp at hs; subst hs
        have := inv_find_change_some hinv hc hpc hreq ho
        rw [hreq] at this; exact this
      · rename_i ho
        simp at hs; subst hs
        have := inv_find_change_none hinv hc hpc hreq ho
        rw [hreq] at this; exact this
    · simp at hs
    · simp at hs
  · -- eval
    split at hs
    · rename_i wid _ hreq
      simp at hs; subst hs
      refine inv_local hinv hc { c with pc := .finalRUnlock } rfl rfl rfl ?_ ?_ ?_ _ rfl rfl rfl rfl rfl
      · unfold phaseOk at hph ⊢; simp [hreq, hpc] at hph ⊢; exact hph
      · intro o wid rs w _ _ _ hp; simp [pastEval] at hp
      · intro hp; simp [preApply, pastEval] at hp
    · rename_i wid rs o hreq ho
      split at hs
      · rename_i w hw
        simp at hs; subst hs
        refine inv_local hinv hc { c with pc := .upRUnlock, change := evalRules w rs } rfl rfl rfl ?_ ?_ ?_ _ rfl rfl rfl rfl rfl
        · unfold phaseOk at hph ⊢; simp [hreq, hpc] at hph ⊢; exact hph
        · intro o' wid' rs' w' ho' _ hr' _ hw'
          simp at ho' hr' ⊢
          rw [ho] at ho'; simp at ho'; subst ho'
          rw [hreq] at hr'; simp at hr'
          rw [hw] at hw'; simp at hw'
          rw [← hr'.2, hw']
        · intro _; simp [preApply, hpc]
      · simp at hs
    · simp at hs
  · -- upRUnlock
    simp at hs; subst hs
    refine inv_local hinv hc { c with pc := .wlock } rfl rfl rfl ?_ ?_ ?_ _ rfl rfl rfl rfl rfl
    · unfold phaseOk at hph ⊢; cases hr : c.req <;> simp [hr, hpc] at hph ⊢ <;> exact hph
    · intro o wid rs w ho hl hr _ hw; exact hci.snap o wid rs w ho hl hr (by simp [pastEval, hpc]) hw
    · intro _; simp [preApply, pastEval, hpc]
  · -- wlock
    simp only [mem_guard] at hs
    obtain ⟨_, rfl⟩ := hs
    refine inv_local hinv hc { c with pc := .apply } rfl rfl rfl ?_ ?_ ?_ _ rfl rfl rfl rfl rfl
    · unfold phaseOk at hph ⊢; cases hr : c.req <;> simp [hr, hpc] at hph ⊢ <;> exact hph
    · intro o wid rs w ho hl hr _ hw; exact hci.snap o wid rs w ho hl hr (by simp [pastEval, hpc]) hw
    · intro _; simp [preApply, pastEval, hpc]
  · -- apply
    split at hs
    · rename_i o ho
      split at hs
      · rename_i w hw
        simp at hs; subst hs
        exact inv_apply hcf hinv hc hpc ho hw
      · simp at hs
    · simp at hs
  · -- wunlock
    simp at hs; subst hs
    refine inv_local hinv hc { c with pc := .rlock2 } rfl rfl rfl ?_ ?_ ?_ _ rfl rfl rfl rfl rfl
    · unfold phaseOk at hph ⊢; cases hr : c.req <;> simp [hr, hpc] at hph ⊢ <;> exact hph
    · intro o wid rs w _ _ _ hp; simp [pastEval] at hp
    · intro hp; simp [preApply, pastEval] at hp
  · -- rlock2
    simp only [mem_guard] at hs
    obtain ⟨_, rfl⟩ := hs
    refine inv_local hinv hc { c with pc := .finalRUnlock } rfl rfl rfl ?_ ?_ ?_ _ rfl rfl rfl rfl rfl
    · unfold phaseOk at hph ⊢; cases hr : c.req <;> simp [hr, hpc] at hph ⊢ <;> exact hph
    · intro o wid rs w _ _ _ hp; simp [pastEval] at hp
    · intro hp; simp [preApply, pastEval] at hp
  · -- finalRUnlock
    simp at hs; subst hs
    refine inv_local hinv hc { c with pc := .done } rfl rfl rfl ?_ ?_ ?_ _ rfl rfl rfl rfl rfl
    · unfold phaseOk at hph ⊢; cases hr : c.req <;> simp [hr, hpc] at hph ⊢ <;> exact hph
    · intro o wid rs w _ _ _ hp; simp [pastEval] at hp
    · intro hp; simp [preApply, pastEval] at hp
  · -- mapop
    cases hreq : c.req <;> simp only [hreq] at hs
    · simp at hs
    · simp at hs
    · rename_i wid
      split at hs
      · rename_i o ho
        simp at hs; subst hs
        have := inv_delete_some hinv hc hpc hreq ho
        rw [hreq] at this
        simpa [List.append_assoc] using this
      · rename_i ho
        simp at hs; subst hs
        have := inv_mapop_noop hinv hc hpc (Or.inr ⟨wid, hreq, ho⟩)
        rw [hreq] at this; exact this
    · simp at hs; subst hs
      have := inv_mapop_noop hinv hc hpc (Or.inl hreq)
      rw [hreq] at this; exact this
  · -- done
    simp at hs

end B6.Lemmas.ProtoService

namespace B6.Lemmas.ProtoService
open B6.Model.Proto B6.Model.Proto.Service

/-! ### the initial state -/

theorem initMap_range (v : View) : ∀ (start w o : Nat), mfind (initMap v start) w = some o →
    start ≤ o ∧ o < start + v.length := by
  induction v with
  | nil => intro start w o h; simp [initMap, mfind] at h
  | cons p rest ih =>
    intro start w o h
    obtain ⟨wid, x⟩ := p
    simp only [initMap, mfind] at h
    split at h
    · simp at h; subst h; simp
    · have := ih (start + 1) w o h
      simp; omega

theorem initMap_inj (v : View) : ∀ (start w1 w2 o : Nat), mfind (initMap v start) w1 = some o →
    mfind (initMap v start) w2 = some o → w1 = w2 := by
  induction v with
  | nil => intro start w1 w2 o h; simp [initMap, mfind] at h
  | cons p rest ih =>
    intro start w1 w2 o h1 h2
    obtain ⟨wid, x⟩ := p
    simp only [initMap, mfind] at h1 h2
    split at h1
    · rename_i e1
      simp at h1; subst h1
      split at h2
      · rename_i e2; rw [← e1, ← e2]
      · have := initMap_range rest (start + 1) w2 start h2; omega
    · split at h2
      · simp at h2; subst h2
        have := initMap_range rest (start + 1) w1 start h1; omega
      · exact ih (start + 1) w1 w2 o h1 h2

theorem initMap_rel (v : View) : ∀ (start wid : Nat),
    match mfind (initMap v start) wid with
    | some o => start ≤ o ∧ ∃ w, (v.map (·.2))[o - start]? = some w ∧ vfind v wid = some w
    | none => vfind v wid = none := by
  induction v with
  | nil => intro start wid; simp [initMap, mfind, vfind]
  | cons p rest ih =>
    intro start wid
    obtain ⟨i, x⟩ := p
    simp only [initMap, mfind, vfind]
    by_cases e : i = wid
    · simp [e]
    · simp only [e, ↓reduceIte]
      have := ih (start + 1) wid
      split
      · rename_i o ho
        rw [ho] at this
        obtain ⟨hle, w, hw, hv⟩ := this
        refine ⟨by omega, w, ?_, hv⟩
        have : o - start = (o - (start + 1)) + 1 := by omega
        rw [this]; simpa using hw
      · rename_i ho
        rw [ho] at this
        exact this

theorem inv_init (base : World) (v0 : View) (reqs : List Req) : Inv base v0 reqs (init base v0 reqs) := by
  refine ⟨rfl, ?_, ?_, ?_, ?_, ?_, ?_⟩
  · simp [init, Function.comp_def]
  · intro j c hj
    simp only [init, List.getElem?_map] at hj
    cases hr : reqs[j]? with
    | none => simp [hr] at hj
    | some r =>
      simp [hr] at hj; subst hj
      refine ⟨?_, ?_, ?_, ?_, ?_⟩
      · cases r <;> simp [phaseOk, startPc]
      · intro o ho; simp at ho
      · intro o ho; simp at ho
      · intro o _ _ _ ho; simp at ho
      · intro o ho; simp at ho
  · exact initMap_inj v0 0
  · intro w o h
    have := initMap_range v0 0 w o h
    simp [init]; omega
  · intro wid
    have := initMap_rel v0 0 wid
    unfold Rel
    simp only [init, serialRun, List.foldl_nil]
    split
    · rename_i o ho
      rw [ho] at this
      obtain ⟨_, w, hw, hv⟩ := this
      exact Or.inl ⟨w, by simpa using hw, hv⟩
    · rename_i ho
      rw [ho] at this
      exact this
  · simp only [init, List.filter_map]
    have : List.filter ((fun c : Client => c.logged) ∘ fun r => ({ req := r, pc := startPc r } : Client)) reqs = [] := by
      apply List.filter_eq_nil_iff.mpr
      intro r _; simp
    rw [this]; simp

end B6.Lemmas.ProtoService
