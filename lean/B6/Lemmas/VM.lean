import B6.Model.VM
/-!
Helper lemmas for C21 (`vm_first_order`, `stack_shape`).
-/
namespace B6.Lemmas.VM
open B6.Model B6.Model.VM

/-! ### first-order values: what a lambda-free program can compute -/

mutual
  def FO : Val → Bool
    | .int _ => true
    | .str _ => true
    | .query _ => true
    | .other _ _ => true
    | .pair a b => FO a && FO b
    | .builtin _ => true
    | .closure _ _ _ => false
    | .lam _ _ => false
    | .part f args snap => FO f && FOs args && snap.isEmpty && vmCallable f
  def FOs : List Val → Bool
    | [] => true
    | v :: vs => FO v && FOs vs
end

theorem FOs_append : ∀ (as bs : List Val), FOs (as ++ bs) = (FOs as && FOs bs)
  | [], bs => by simp [FOs]
  | a :: as, bs => by simp [FOs, FOs_append as bs, Bool.and_assoc]

theorem splitArgs_frame (x : Val) (args S : List Val) :
    splitArgs (x :: (args.reverse ++ S)) args.length = some (args, S) := by
  simp [splitArgs]


theorem convert_shape {t : Ty} {v c : Val} (h : convert t v = .ok c) :
    c = v ∨ c = .builtin .matchq ∨ ∃ s, c = .str s := by
  unfold convert at h
  split at h <;> first
    | (injection h with h; subst h; simp)
    | (split at h <;> first | (injection h with h; subst h; simp) | cases h)
    | cases h

theorem convert_FO {t : Ty} {v c : Val} (h : convert t v = .ok c) (hv : FO v = true) : FO c = true := by
  rcases convert_shape h with rfl | rfl | ⟨s, rfl⟩ <;> simp [FO, hv]

theorem convertAll_FO : ∀ {ts : List Ty} {vs cs : List Val}, convertAll ts vs = .ok cs → FOs vs = true → FOs cs = true
  | [], [], cs, h, _ => by simp [convertAll] at h; subst h; simp [FOs]
  | [], _ :: _, _, h, _ => by simp [convertAll] at h
  | _ :: _, [], _, h, _ => by simp [convertAll] at h
  | t :: ts, v :: vs, cs, h, hv => by
    simp only [convertAll, bind, Except.bind] at h
    cases hc : convert t v with
    | error e => simp [hc] at h
    | ok c =>
      cases hcs : convertAll ts vs with
      | error e => simp [hc, hcs] at h
      | ok cs' =>
        simp [hc, hcs, pure, Except.pure] at h
        subst h
        simp [FOs] at hv ⊢
        exact ⟨convert_FO hc hv.1, convertAll_FO hcs hv.2⟩


theorem step_value_FO {b : Builtin} {cs : List Val} {v : Val} (h : b.step cs = .value v)
    (hcs : FOs cs = true) : FO v = true := by
  unfold Builtin.step at h
  split at h <;> (try split at h) <;> (try cases h) <;> simp_all [FOs, FO]

theorem step_tail_FO {b : Builtin} {cs : List Val} {g : Val} {xs : List Val} (h : b.step cs = .tail g xs)
    (hcs : FOs cs = true) : FO g = true ∧ FOs xs = true := by
  unfold Builtin.step at h
  split at h <;> (try split at h) <;> (try cases h) <;> simp_all [FOs, FO]


theorem callable_arity : ∀ (f : Val), FO f = true → vmCallable f = true → ∃ m, f.arity = some m
  | .builtin b, _, _ => ⟨b.arity, rfl⟩
  | .part g bs snap, h, _ => by
    simp [FO] at h
    obtain ⟨m, hm⟩ := callable_arity g h.1.1.1 h.2
    exact ⟨m - bs.length, by simp [Val.arity, hm]⟩
  | .lam _ _, h, _ => by simp [FO] at h
  | .int _, _, h | .str _, _, h | .query _, _, h | .other _ _, _, h | .pair _ _, _, h
  | .closure _ _ _, _, h => by simp [vmCallable] at h

theorem FO_callable_iff (f : Val) (h : FO f = true) : f.isCallable = vmCallable f := by
  cases f <;> simp_all [Val.isCallable, vmCallable, FO]

theorem convert_callable {v c : Val} (h : convert .callable v = .ok c) (hv : FO v = true) : vmCallable c = true := by
  cases v <;> simp [convert, Val.isCallable] at h <;> (try subst h) <;> simp_all [vmCallable, FO]

theorem convert_func {n : Nat} {v c : Val} (h : convert (.func n) v = .ok c) (hv : FO v = true) : vmCallable c = true := by
  have h' : (if (v.isCallable && v.arity == some n) = true then Except.ok v else Except.error Fail.error) = Except.ok c := by
    rw [← h]; cases v <;> rfl
  split at h'
  · rename_i hcond
    injection h' with h'
    subst h'
    simp only [Bool.and_eq_true] at hcond
    rw [FO_callable_iff _ hv] at hcond
    exact hcond.1
  · cases h'

theorem convertAll_cons_ok {t : Ty} {ts : List Ty} {v : Val} {vs cs : List Val}
    (h : convertAll (t :: ts) (v :: vs) = .ok cs) :
    ∃ c cs', convert t v = .ok c ∧ convertAll ts vs = .ok cs' ∧ cs = c :: cs' := by
  simp only [convertAll, bind, Except.bind] at h
  cases hc : convert t v with
  | error e => simp [hc] at h
  | ok c =>
    cases hcs : convertAll ts vs with
    | error e => simp [hc, hcs] at h
    | ok cs' =>
      simp [hc, hcs, pure, Except.pure] at h
      exact ⟨c, cs', rfl, rfl, h.symm⟩

theorem step_tail_callable {b : Builtin} {args cs : List Val} {g : Val} {xs : List Val}
    (hc : convertAll (b.paramsAt args.length) args = .ok cs) (hargs : FOs args = true) (h : b.step cs = .tail g xs) :
    vmCallable g = true := by
  have key : ∀ t ts, b.paramsAt args.length = t :: ts → (t = .callable ∨ ∃ n, t = .func n) →
      ∀ c cs', cs = c :: cs' → vmCallable c = true := by
    intro t ts hp ht c cs' hcs
    rw [hp] at hc
    cases args with
    | nil => simp [convertAll] at hc
    | cons a as =>
      obtain ⟨c', cs'', h1, _, h3⟩ := convertAll_cons_ok hc
      rw [hcs] at h3
      injection h3 with h3 _
      subst h3
      simp only [FOs, Bool.and_eq_true] at hargs
      rcases ht with rfl | ⟨n, rfl⟩
      · exact convert_callable h1 hargs.1
      · exact convert_func h1 hargs.1
  unfold Builtin.step at h
  split at h <;> (try split at h) <;> (try cases h) <;>
    first
    | exact key _ _ rfl (Or.inl rfl) _ _ rfl
    | exact key _ _ rfl (Or.inr ⟨_, rfl⟩) _ _ rfl


/-- what `callFromStack` must do for the VM to agree with `applyFn`: consume the frame and the
arguments, leave the result, keep the (empty) register file -/
def liftRes (S : List Val) : Res Val → Res St
  | .ok v => .ok ⟨v :: S, []⟩
  | .error e => .error e

/-- Lemma A: on first-order function values the three `CallFromStack` methods compute `applyFn` -/
theorem call_agrees (code : List Instr) : ∀ (fuel : Nat) (f : Val) (args S : List Val),
    FO f = true → vmCallable f = true → FOs args = true →
    callFromStack code fuel f args.length ⟨.int args.length :: (args.reverse ++ S), []⟩
      = liftRes S (applyFn fuel f args)
    ∧ (∀ v, applyFn fuel f args = .ok v → FO v = true) := by
  intro fuel
  induction fuel with
  | zero => intro f args S _ _ _; simp [callFromStack, applyFn, liftRes]
  | succ fuel ih =>
    intro f args S hf hcall hargs
    cases f with
    | int _ | str _ | query _ | other _ _ | pair _ _ | closure _ _ _ => simp [vmCallable] at hcall
    | lam _ _ => simp [FO] at hf
    | builtin b =>
      simp only [callFromStack, applyFn, splitArgs_frame, List.cons_append]
      by_cases h1 : args.length > b.want args.length
      · simp [h1, liftRes]
      · simp only [h1, if_false]
        by_cases h2 : args.length = b.want args.length
        · have h2' : (args.length == b.want args.length) = true := by simpa using h2
          simp only [h2', if_true]
          cases hc : convertAll (b.paramsAt args.length) args with
          | error e => simp [liftRes]
          | ok cs =>
            have hcs := convertAll_FO hc hargs
            cases hs : b.step cs with
            | value v =>
              simp only [hs, liftRes]
              exact ⟨trivial, fun v' hv' => by injection hv' with hv'; subst hv'; exact step_value_FO hs hcs⟩
            | fail => simp only [hs, liftRes]; exact ⟨trivial, fun v' hv' => by cases hv'⟩
            | tail g xs =>
              obtain ⟨hg, hxs⟩ := step_tail_FO hs hcs
              have hgc := step_tail_callable hc hargs hs
              obtain ⟨ih1, ih2⟩ := ih g xs (.int args.length :: (args.reverse ++ S)) hg hgc hxs
              simp only [hs, ih1]
              cases happ : applyFn fuel g xs with
              | error e => simp only [liftRes]; exact ⟨trivial, fun v' hv' => by cases hv'⟩
              | ok v =>
                simp only [liftRes]
                exact ⟨trivial, fun v' hv' => by injection hv' with hv'; subst hv'; exact ih2 _ happ⟩
        · have h3 : (args.length == b.want args.length) = false := by simpa using h2
          simp only [h3, Bool.false_eq_true, if_false, liftRes]
          refine ⟨trivial, ?_⟩
          intro v hv; injection hv with hv; subst hv
          simp [FO, hargs, vmCallable]
    | part g bs snap =>
      simp only [FO, Bool.and_eq_true, List.isEmpty_iff] at hf
      obtain ⟨⟨⟨hg, hbs⟩, hsnap⟩, hgc⟩ := hf
      subst hsnap
      obtain ⟨m, hm⟩ := callable_arity g hg hgc
      simp only [callFromStack, applyFn, hm]
      by_cases h1 : args.length + bs.length = m
      · simp only [h1, beq_self_eq_true, if_true]
        have hlen : ¬ (bs.reverse ++ (args.reverse ++ S)).length < m := by
          simp only [List.length_append, List.length_reverse]; omega
        simp only [hlen, if_false]
        have hab : FOs (args ++ bs) = true := by simp [FOs_append, hargs, hbs]
        obtain ⟨ih1, ih2⟩ := ih g (args ++ bs) S hg hgc hab
        have e1 : bs.reverse ++ (args.reverse ++ S) = (args ++ bs).reverse ++ S := by simp
        have e2 : (args ++ bs).length = m := by simp [h1]
        have e3 : ((args.length : Int) + (bs.length : Int)) = (((args ++ bs).length : Nat) : Int) := by simp
        rw [e1, e3, ← e2, ih1]
        cases happ : applyFn fuel g (args ++ bs) with
        | error e => simp [liftRes]
        | ok v => simp only [liftRes]; exact ⟨trivial, fun v' hv' => by injection hv' with hv'; subst hv'; exact ih2 _ happ⟩
      · have h1' : (args.length + bs.length == m) = false := by simpa using h1
        simp only [h1', Bool.false_eq_true, if_false]
        by_cases h2 : args.length + bs.length < m
        · simp only [h2, if_true, splitArgs_frame, liftRes]
          refine ⟨trivial, ?_⟩
          intro v hv; injection hv with hv; subst hv
          simp only [FO, hargs, hg, hbs, hgc, hcall, List.isEmpty_nil, Bool.and_self]
        · simp [h2, liftRes]


/-! ### Lemma B: compiled lambda-free expressions compute `evalWith` -/

/-- the contract between the VM's `CallFromStack` and the interpreter's function application, at
some fuel level (Lemma A instantiates it) -/
def Agree (call : Val → Nat → St → Res St) (app : Val → List Val → Res Val) : Prop :=
  ∀ (f : Val) (args S : List Val), FO f = true → vmCallable f = true → FOs args = true →
    call f args.length ⟨.int args.length :: (args.reverse ++ S), []⟩ = liftRes S (app f args)
    ∧ (∀ v, app f args = .ok v → FO v = true)

def isLamFree : Instr → Bool
  | .pushLam _ _ => false
  | .callLam _ _ _ => false
  | _ => true

def ExprOK (call : Val → Nat → St → Res St) (app : Val → List Val → Res Val) (e : Expr) (st : CState) : Prop :=
  (wfAt [] e = true → ∃ is, compileExpr [] e st = .ok (is, st) ∧ is.all isLamFree = true ∧
      (∀ post S, execList call (is ++ post) ⟨S, []⟩ =
          match evalWith app [] e with
          | .ok v => execList call post ⟨v :: S, []⟩
          | .error err => .error err) ∧
      (∀ v, evalWith app [] e = .ok v → FO v = true))
  ∧ (wfAt [] e = false → compileExpr [] e st = .error .error)

def ArgsOK (call : Val → Nat → St → Res St) (app : Val → List Val → Res Val) (as : List Expr) (st : CState) : Prop :=
  (wfsAt [] as = true → ∃ is, compileArgs [] as st = .ok (is, st) ∧ is.all isLamFree = true ∧
      (∀ post S, execList call (is ++ post) ⟨S, []⟩ =
          match evalArgs app [] as with
          | .ok vs => execList call post ⟨vs.reverse ++ S, []⟩
          | .error err => .error err) ∧
      (∀ vs, evalArgs app [] as = .ok vs → FOs vs = true ∧ vs.length = as.length))
  ∧ (wfsAt [] as = false → compileArgs [] as st = .error .error)

theorem FO_litToVal (l : Lit) : FO l.toVal = true := by cases l <;> simp [Lit.toVal, FO]

theorem lookup_nil (s : String) : (([] : List (String × Nat)).lookup s) = none := rfl
theorem lookup_nil' (s : String) : (([] : Env).lookup s) = none := rfl

mutual
  theorem expr_agrees {call : Val → Nat → St → Res St} {app : Val → List Val → Res Val} (H : Agree call app) :
      (e : Expr) → e.lambdaFree = true → (st : CState) → ExprOK call app e st
    | .sym s, _, st => by
      unfold ExprOK
      simp only [wfAt, compileExpr, evalWith, lookup_nil, lookup_nil', List.contains_nil, Bool.false_or]
      cases hb : Builtin.ofName s with
      | none => simp
      | some b =>
        simp only [Option.isSome_some, forall_const]
        refine ⟨⟨[.pushFn b], rfl, by simp [isLamFree], ?_, ?_⟩, by simp⟩
        · intro post S; simp [execList]
        · intro v hv; injection hv with hv; subst hv; simp [FO]
    | .lit l, _, st => by
      unfold ExprOK
      simp only [wfAt, compileExpr, evalWith]
      refine ⟨fun _ => ⟨[.pushVal l.toVal], rfl, by simp [isLamFree], ?_, ?_⟩, by simp⟩
      · intro post S; simp [execList]
      · intro v hv; injection hv with hv; subst hv; exact FO_litToVal l
    | .lam ps b, h, st => by simp [Expr.lambdaFree] at h
    | .call (.sym s) args p, h, st => by
      simp only [Expr.lambdaFree, Bool.and_eq_true] at h
      have iha := args_agrees H args h.2 st
      unfold ExprOK
      unfold ArgsOK at iha
      simp only [wfAt, compileExpr, evalWith]
      cases hw : wfsAt [] args with
      | false =>
        simp only [Bool.false_and, Bool.false_eq_true, false_implies, true_and, forall_const]
        rw [iha.2 hw]
      | true =>
        obtain ⟨isa, hca, hlf, hexec, hfo⟩ := iha.1 hw
        simp only [hca, Bool.true_and]
        cases hb : Builtin.ofName s with
        | none => simp
        | some b =>
          simp only [Option.isSome_some, forall_const]
          refine ⟨⟨isa ++ [.callFn b args.length], rfl, by simp [hlf, isLamFree], ?_, ?_⟩, by simp⟩
          · intro post S
            rw [List.append_assoc, hexec]
            cases hev : evalArgs app [] args with
            | error err => simp
            | ok vs =>
              obtain ⟨hvs, hlen⟩ := hfo vs hev
              simp only [List.singleton_append, execList]
              have := (H (.builtin b) vs S (by simp [FO]) (by simp [vmCallable]) hvs).1
              rw [hlen] at this
              rw [this]
              cases app (.builtin b) vs <;> simp [liftRes]
          · intro v hv
            cases hev : evalArgs app [] args with
            | error err => simp [hev] at hv
            | ok vs =>
              simp only [hev] at hv
              exact (H (.builtin b) vs [] (by simp [FO]) (by simp [vmCallable]) (hfo vs hev).1).2 v hv
    | .call (.lit l) args p, h, st => by
      simp only [Expr.lambdaFree, Bool.and_eq_true] at h
      have iha := args_agrees H args h.2 st
      unfold ExprOK
      unfold ArgsOK at iha
      simp only [wfAt, compileExpr, Bool.and_false, Bool.false_eq_true, false_implies, true_and, forall_const]
      cases hw : wfsAt [] args with
      | false => rw [iha.2 hw]
      | true =>
        obtain ⟨isa, hca, _⟩ := iha.1 hw
        simp [hca]
    | .call (.lam ps b) args p, h, st => by simp [Expr.lambdaFree] at h
    | .call (.call g gargs q) args p, h, st => by
      simp only [Expr.lambdaFree, Bool.and_eq_true] at h
      have iha := args_agrees H args h.2 st
      have ihf := expr_agrees H (.call g gargs q) (by simp [Expr.lambdaFree, h.1]) st
      unfold ExprOK
      unfold ArgsOK at iha
      unfold ExprOK at ihf
      simp only [wfAt, compileExpr, evalWith] at ihf ⊢
      cases hw : wfsAt [] args with
      | false =>
        simp only [Bool.false_and, Bool.false_eq_true, false_implies, true_and, forall_const]
        rw [iha.2 hw]
      | true =>
        obtain ⟨isa, hca, hlf, hexec, hfo⟩ := iha.1 hw
        simp only [hca, Bool.true_and]
        constructor
        · intro hwf
          obtain ⟨isf, hcf, hlff, hexecf, hfof⟩ := ihf.1 hwf
          simp only [hcf]
          refine ⟨isa ++ isf ++ [.callStack args.length], rfl, by simp [hlf, hlff, isLamFree], ?_, ?_⟩
          · intro post S
            rw [List.append_assoc, List.append_assoc, hexec]
            cases hev : evalArgs app [] args with
            | error err => simp
            | ok vs =>
              obtain ⟨hvs, hlen⟩ := hfo vs hev
              simp only []
              rw [hexecf]
              cases hef : evalWith app [] (.call g gargs q) with
              | error err => simp [evalWith] at hef ⊢; simp [hef]
              | ok fv =>
                have hfv := hfof fv hef
                simp only [evalWith] at hef
                simp only [hef, List.singleton_append, execList, FO_callable_iff fv hfv]
                cases hcl : vmCallable fv with
                | false => simp
                | true =>
                  simp only [if_true]
                  have := (H fv vs S hfv hcl hvs).1
                  rw [hlen] at this
                  rw [this]
                  cases app fv vs <;> simp [liftRes]
          · intro v hv
            cases hev : evalArgs app [] args with
            | error err => simp [hev] at hv
            | ok vs =>
              simp only [hev] at hv
              cases hef : evalWith app [] (.call g gargs q) with
              | error err => simp only [evalWith] at hef; simp [hef] at hv
              | ok fv =>
                have hfv := hfof fv hef
                simp only [evalWith] at hef
                simp only [hef, FO_callable_iff fv hfv] at hv
                cases hcl : vmCallable fv with
                | false => simp [hcl] at hv
                | true =>
                  simp only [hcl, if_true] at hv
                  exact (H fv vs [] hfv hcl (hfo vs hev).1).2 v hv
        · intro hwf
          rw [ihf.2 hwf]
  theorem args_agrees {call : Val → Nat → St → Res St} {app : Val → List Val → Res Val} (H : Agree call app) :
      (as : List Expr) → Expr.lambdaFrees as = true → (st : CState) → ArgsOK call app as st
    | [], _, st => by
      unfold ArgsOK
      simp only [wfsAt, compileArgs, evalArgs]
      refine ⟨fun _ => ⟨[], rfl, rfl, ?_, ?_⟩, by simp⟩
      · intro post S; simp
      · intro vs hvs; injection hvs with hvs; subst hvs; simp [FOs]
    | a :: as, h, st => by
      simp only [Expr.lambdaFrees, Bool.and_eq_true] at h
      have iha := expr_agrees H a h.1 st
      have ihas := args_agrees H as h.2 st
      unfold ArgsOK
      unfold ExprOK at iha
      unfold ArgsOK at ihas
      simp only [wfsAt, compileArgs, evalArgs]
      cases hwa : wfAt [] a with
      | false =>
        simp only [Bool.false_and, Bool.false_eq_true, false_implies, true_and, forall_const]
        rw [iha.2 hwa]
      | true =>
        obtain ⟨isa, hca, hlfa, hexa, hfoa⟩ := iha.1 hwa
        simp only [hca, Bool.true_and]
        constructor
        · intro hws
          obtain ⟨iss, hcs, hlfs, hexs, hfos⟩ := ihas.1 hws
          simp only [hcs]
          refine ⟨isa ++ iss, rfl, by simp [hlfa, hlfs], ?_, ?_⟩
          · intro post S
            rw [List.append_assoc, hexa]
            cases hea : evalWith app [] a with
            | error err => simp
            | ok v =>
              simp only []
              rw [hexs]
              cases hes : evalArgs app [] as with
              | error err => simp
              | ok vs => simp
          · intro vs hvs
            cases hea : evalWith app [] a with
            | error err => simp [hea] at hvs
            | ok v =>
              cases hes : evalArgs app [] as with
              | error err => simp [hea, hes] at hvs
              | ok vs' =>
                simp only [hea, hes] at hvs
                injection hvs with hvs; subst hvs
                obtain ⟨h1, h2⟩ := hfos vs' hes
                simp [FOs, hfoa v hea, h1, h2]
        · intro hws
          rw [ihas.2 hws]
end

end B6.Lemmas.VM
