import B6.Model.Pbf
/-!
Helper lemmas for C27 (`B6/Props/C27.lean`): delta coding, the per-block string table, tag / role / member
encodings and their decodings, the dense-node group, and the writer invariant.
-/
namespace B6.Lemmas.Pbf
open B6.Model.Pbf

theorem deltaDec_deltaEnc (l : Int64) (xs : List Int64) : deltaDec l (deltaEnc l xs) = xs := by
  induction xs generalizing l with
  | nil => rfl
  | cons x xs ih => simp [deltaEnc, deltaDec, Int64.sub_add_cancel, ih]

theorem getElem?_append_some {α} {T : List α} {i : Nat} {x : α} (X : List α) (h : T[i]? = some x) :
    (T ++ X)[i]? = some x := by
  have hi : i < T.length := (List.getElem?_eq_some_iff.mp h).1
  rw [List.getElem?_append_left hi]; exact h

theorem indexOf_some {s : Str} {S : List Str} {i : Nat} (h : indexOf s S = some i) : S[i]? = some s := by
  induction S generalizing i with
  | nil => simp [indexOf] at h
  | cons x xs ih =>
    simp only [indexOf] at h
    split at h
    · cases h; simp [*]
    · cases hx : indexOf s xs with
      | none => simp [hx] at h
      | some j => simp [hx] at h; subst h; simpa using ih hx

theorem lookup_spec (S : List Str) (s : Str) :
    (∃ X, (lookup S s).2 = S ++ X) ∧ ("" :: (lookup S s).2)[(lookup S s).1]? = some s ∧ (lookup S s).1 ≠ 0 := by
  unfold lookup
  cases h : indexOf s S with
  | some i => exact ⟨⟨[], by simp⟩, by simpa using indexOf_some h, by simp⟩
  | none => exact ⟨⟨[s], rfl⟩, by simp, by simp⟩

theorem add_sub_cancel_left' (a b : Int64) : a + (b - a) = b := by
  rw [Int64.add_comm, Int64.sub_add_cancel]

inductive All2 {α β : Type} (R : α → β → Prop) : List α → List β → Prop
  | nil : All2 R [] []
  | cons {a b as bs} : R a b → All2 R as bs → All2 R (a :: as) (b :: bs)

theorem All2.append {α β : Type} {R : α → β → Prop} {as bs as' bs'} (h : All2 R as bs) (h' : All2 R as' bs') :
    All2 R (as ++ as') (bs ++ bs') := by
  induction h with
  | nil => exact h'
  | cons h _ ih => exact .cons h ih

theorem All2.imp {α β : Type} {R R' : α → β → Prop} {as bs} (f : ∀ a b, R a b → R' a b) (h : All2 R as bs) :
    All2 R' as bs := by
  induction h with
  | nil => exact .nil
  | cons h _ ih => exact .cons (f _ _ h) ih

def PairOK (T : List Str) (p : Nat × Nat) (t : Tag) : Prop :=
  T[p.1]? = some t.key ∧ T[p.2]? = some t.value ∧ p.1 ≠ 0

def PairsOK (T : List Str) (ps : List (Nat × Nat)) (ts : List Tag) : Prop := All2 (PairOK T) ps ts

theorem PairOK.mono {T p t} (X : List Str) (h : PairOK T p t) : PairOK (T ++ X) p t :=
  ⟨getElem?_append_some X h.1, getElem?_append_some X h.2.1, h.2.2⟩

theorem PairsOK.mono {T ps ts} (X : List Str) (h : PairsOK T ps ts) : PairsOK (T ++ X) ps ts := by
  exact All2.imp (fun _ _ h => h.mono X) h

theorem encTags_spec (S : List Str) (tags : List Tag) :
    ∃ X, (encTags S tags).2 = S ++ X ∧ PairsOK ("" :: (encTags S tags).2) (encTags S tags).1 tags := by
  induction tags generalizing S with
  | nil => exact ⟨[], by simp [encTags], All2.nil⟩
  | cons t ts ih =>
    obtain ⟨⟨X1, h1⟩, hk, hk0⟩ := lookup_spec S t.key
    obtain ⟨⟨X2, h2⟩, hv, _⟩ := lookup_spec (lookup S t.key).2 t.value
    obtain ⟨X3, h3, hps⟩ := ih (lookup (lookup S t.key).2 t.value).2
    simp only [encTags]
    refine ⟨X1 ++ X2 ++ X3, ?_, ?_⟩
    · rw [h3, h2, h1]; simp
    · refine All2.cons ⟨?_, ?_, hk0⟩ hps
      · rw [h3, h2]
        have := getElem?_append_some (X2 ++ X3) hk
        simpa using this
      · rw [h3]
        have := getElem?_append_some X3 hv
        simpa using this

theorem fillTagsGo_of_pairsOK {T ps ts} (h : PairsOK T ps ts) :
    fillTagsGo T (ps.map (·.1)) (ps.map (·.2)) = .ok ts := by
  induction h with
  | nil => rfl
  | cons h _ ih =>
    simp only [List.map_cons, fillTagsGo, h.1, h.2.1, ih]
    rfl

theorem fillTags_of_pairsOK {T ps ts} (h : PairsOK T ps ts) :
    fillTags T (ps.map (·.1)) (ps.map (·.2)) = .ok ts := by
  simp [fillTags, fillTagsGo_of_pairsOK h]

theorem takeTags_of_pairsOK {T ps ts} (rest : List Nat) (h : PairsOK T ps ts) :
    takeTags T (kvOf ps ++ 0 :: rest) = .ok (ts, rest) := by
  induction h with
  | nil => simp [kvOf, takeTags]
  | @cons p t ps ts h _ ih =>
    obtain ⟨k, v⟩ := p
    have hk : k ≠ 0 := h.2.2
    obtain ⟨k', rfl⟩ : ∃ k', k = k' + 1 := ⟨k - 1, by omega⟩
    have h1 := h.1; have h2 := h.2.1
    simp only [] at h1 h2
    simp only [kvOf, List.cons_append, takeTags, h1, h2, ih]
    rfl

/-! ### roles and members -/

def RolesOK (T : List Str) (rs : List Nat) (ms : List Member) : Prop :=
  All2 (fun r (m : Member) => T[r]? = some m.role) rs ms

theorem RolesOK.mono {T rs ms} (X : List Str) (h : RolesOK T rs ms) : RolesOK (T ++ X) rs ms :=
  All2.imp (fun _ _ h => getElem?_append_some X h) h

theorem encRoles_spec (S : List Str) (ms : List Member) :
    ∃ X, (encRoles S ms).2 = S ++ X ∧ RolesOK ("" :: (encRoles S ms).2) (encRoles S ms).1 ms := by
  induction ms generalizing S with
  | nil => exact ⟨[], by simp [encRoles], All2.nil⟩
  | cons m ms ih =>
    obtain ⟨⟨X1, h1⟩, hr, _⟩ := lookup_spec S m.role
    obtain ⟨X2, h2, hrs⟩ := ih (lookup S m.role).2
    simp only [encRoles]
    refine ⟨X1 ++ X2, ?_, ?_⟩
    · rw [h2, h1]; simp
    · refine All2.cons ?_ hrs
      rw [h2]
      have := getElem?_append_some X2 hr
      simpa using this

theorem memberType?_typeCode (t : MType) : memberType? (typeCode t) = some t := by
  cases t <;> rfl

theorem fillMembers_of_rolesOK {T rs ms} (l : Int64) (h : RolesOK T rs ms) :
    fillMembers T l (deltaEnc l (ms.map (·.id))) (ms.map (typeCode ·.type)) rs = .ok ms := by
  induction h generalizing l with
  | nil => rfl
  | @cons r m rs ms h _ ih =>
    simp only [List.map_cons, deltaEnc, fillMembers, memberType?_typeCode, h, Int64.sub_add_cancel, ih]
    rfl

theorem All2.length_eq {α β : Type} {R : α → β → Prop} {as bs} (h : All2 R as bs) : as.length = bs.length := by
  induction h with
  | nil => rfl
  | cons _ _ ih => simp [ih]

theorem deltaEnc_length (l : Int64) (xs : List Int64) : (deltaEnc l xs).length = xs.length := by
  induction xs generalizing l with
  | nil => rfl
  | cons x xs ih => simp [deltaEnc, ih]

/-! ### ways and relations as encoded by the writer decode under every extension of the string table -/

/-- `pw` reads as `e` in every block whose string table extends `T` -/
def WayOK (T : List Str) (pw : PWay) (e : Element) : Prop :=
  ∀ (X : List Str) (b : Block), b.strings = T ++ X → fillWay {} b pw = .ok e

def RelOK (T : List Str) (pr : PRel) (e : Element) : Prop :=
  ∀ (X : List Str) (b : Block), b.strings = T ++ X → fillRelation {} b pr = .ok e

theorem WayOK.mono {T pw e} (Y : List Str) (h : WayOK T pw e) : WayOK (T ++ Y) pw e :=
  fun X b hb => h (Y ++ X) b (by rw [hb, List.append_assoc])

theorem RelOK.mono {T pr e} (Y : List Str) (h : RelOK T pr e) : RelOK (T ++ Y) pr e :=
  fun X b hb => h (Y ++ X) b (by rw [hb, List.append_assoc])

theorem wayOK_of_pairsOK {T ps tags} (id : Int64) (nodes : List Int64) (h : PairsOK T ps tags) :
    WayOK T { id := id, refs := deltaEnc 0 nodes, keys := ps.map (·.1), vals := ps.map (·.2) } (.way id nodes tags) := by
  intro X b hb
  simp [fillWay, tagsOrSkip, hb, fillTags_of_pairsOK (h.mono X), deltaDec_deltaEnc]
  rfl

theorem relOK_of_ok {T rs ps tags} (id : Int64) (ms : List Member) (hr : RolesOK T rs ms) (h : PairsOK T ps tags) :
    RelOK T { id := id, memids := deltaEnc 0 (ms.map (·.id)), types := ms.map (typeCode ·.type), roles := rs,
              keys := ps.map (·.1), vals := ps.map (·.2) } (.relation id ms tags) := by
  intro X b hb
  have hl : rs.length = ms.length := All2.length_eq hr
  simp [fillRelation, tagsOrSkip, hb, fillTags_of_pairsOK (h.mono X), deltaEnc_length, hl,
    fillMembers_of_rolesOK 0 (hr.mono X)]
  rfl

theorem emitEach_of_all2 {α : Type} {f : α → Except Fail Element} {xs es}
    (h : All2 (fun x e => f x = .ok e) xs es) : emitEach f xs = ⟨es, none⟩ := by
  induction h with
  | nil => rfl
  | cons h _ ih => simp [emitEach, h, ih, Res.cons]

/-! ### the dense group -/

/-- a node as the writer sees it after the string lookups: coordinates in granularity units, tag index pairs -/
structure INode where
  id : Int64
  qlat : Int64
  qlon : Int64
  ps : List (Nat × Nat)
  tags : List Tag

def seg (n : INode) : List Nat := kvOf n.ps ++ [0]

/-- the dense arrays for a run of nodes, front to back, starting from the delta bases `lid llat llon` -/
def encDense (lid llat llon : Int64) : List INode → Dense
  | [] => {}
  | n :: ns =>
    let d := encDense n.id n.qlat n.qlon ns
    { id := (n.id - lid) :: d.id, lat := (n.qlat - llat) :: d.lat, lon := (n.qlon - llon) :: d.lon,
      keysVals := seg n ++ d.keysVals }

def lastOf (lid llat llon : Int64) : List INode → Int64 × Int64 × Int64
  | [] => (lid, llat, llon)
  | n :: ns => lastOf n.id n.qlat n.qlon ns

theorem encDense_snoc (lid llat llon : Int64) (ns : List INode) (n : INode) :
    encDense lid llat llon (ns ++ [n]) =
      { id := (encDense lid llat llon ns).id ++ [n.id - (lastOf lid llat llon ns).1],
        lat := (encDense lid llat llon ns).lat ++ [n.qlat - (lastOf lid llat llon ns).2.1],
        lon := (encDense lid llat llon ns).lon ++ [n.qlon - (lastOf lid llat llon ns).2.2],
        keysVals := (encDense lid llat llon ns).keysVals ++ seg n } := by
  induction ns generalizing lid llat llon with
  | nil => simp [encDense, lastOf]
  | cons m ms ih => simp [encDense, lastOf, ih]

theorem lastOf_snoc (lid llat llon : Int64) (ns : List INode) (n : INode) :
    lastOf lid llat llon (ns ++ [n]) = (n.id, n.qlat, n.qlon) := by
  induction ns generalizing lid llat llon with
  | nil => rfl
  | cons m ms ih => simp [lastOf, ih]

theorem encDense_keysVals (lid llat llon : Int64) (ns : List INode) :
    (encDense lid llat llon ns).keysVals = (ns.map seg).flatten := by
  induction ns generalizing lid llat llon with
  | nil => rfl
  | cons m ms ih => simp [encDense, ih]

theorem encDense_id_length (lid llat llon : Int64) (ns : List INode) :
    (encDense lid llat llon ns).id.length = ns.length := by
  induction ns generalizing lid llat llon with
  | nil => rfl
  | cons m ms ih => simp [encDense, ih]

def nodeOf (b : Block) (n : INode) : Element :=
  .node n.id (decodeAngle n.qlat b.latOffset b.granularity) (decodeAngle n.qlon b.lonOffset b.granularity) n.tags

theorem readDense_encDense (b : Block) (lid llat llon : Int64) (ns : List INode)
    (h : ∀ n ∈ ns, PairsOK b.strings n.ps n.tags) :
    readDense {} b lid llat llon (encDense lid llat llon ns).id (encDense lid llat llon ns).lat
      (encDense lid llat llon ns).lon (encDense lid llat llon ns).keysVals = ⟨ns.map (nodeOf b), none⟩ := by
  induction ns generalizing lid llat llon with
  | nil => rfl
  | cons n ns ih =>
    have hn : PairsOK b.strings n.ps n.tags := h n (by simp)
    have ih' := ih n.id n.qlat n.qlon (fun m hm => h m (by simp [hm]))
    simp only [encDense, readDense, seg, List.append_assoc, List.singleton_append,
      takeTags_of_pairsOK _ hn, Int64.sub_add_cancel]
    simp [ih', Res.cons, nodeOf]

/-- `dense_tags_aligned`, on the index level -/
theorem restAfter_segs (T : List Str) (ns : List INode) (h : ∀ n ∈ ns, PairsOK T n.ps n.tags) (k : Nat)
    (hk : k ≤ ns.length) :
    restAfter T k (ns.map seg).flatten = .ok ((ns.drop k).map seg).flatten := by
  induction k generalizing ns with
  | zero => rfl
  | succ k ih =>
    match ns, hk with
    | n :: ns, hk =>
      have hn : PairsOK T n.ps n.tags := h n (by simp)
      simp only [List.map_cons, List.flatten_cons, seg, List.append_assoc, List.singleton_append, restAfter,
        takeTags_of_pairsOK _ hn, List.drop_succ_cons]
      exact ih ns (fun m hm => h m (by simp [hm])) (by simpa using hk)

/-! ### sequencing of reader results -/

theorem andThen_ok (xs : List Element) (k : Unit → Res) :
    Res.andThen ⟨xs, none⟩ k = ⟨xs ++ (k ()).out, (k ()).fail⟩ := rfl

theorem andThen_eq_ok {r : Res} {k : Unit → Res} {d : List Element} (h : r.andThen k = ⟨d, none⟩) :
    r.fail = none ∧ (k ()).fail = none ∧ d = r.out ++ (k ()).out := by
  obtain ⟨o, f⟩ := r
  cases f with
  | some e => simp [Res.andThen] at h
  | none =>
    simp only [Res.andThen, Res.mk.injEq] at h
    exact ⟨rfl, h.2, h.1.symm⟩

theorem res_eta (r : Res) : r = ⟨r.out, r.fail⟩ := rfl

theorem readAll_snoc {bs : List Block} {d : List Element} (b : Block) (h : readAll {} bs = ⟨d, none⟩) :
    readAll {} (bs ++ [b]) = ⟨d ++ (readBlock {} b).out, (readBlock {} b).fail⟩ := by
  induction bs generalizing d with
  | nil =>
    simp only [readAll, Res.mk.injEq] at h
    simp [readAll, Res.andThen, ← h.1]
    cases (readBlock {} b).fail <;> simp
  | cons b0 bs ih =>
    simp only [readAll] at h
    obtain ⟨h0, h1, hd⟩ := andThen_eq_ok h
    have ih' := ih (d := (readAll {} bs).out) (by rw [← h1])
    simp only [List.cons_append, readAll]
    rw [res_eta (readBlock {} b0), h0, andThen_ok, ih', hd]
    simp

/-- the blocks of a file that reads without failure, read one by one -/
theorem readAll_chunks {bs : List Block} {d : List Element} (h : readAll {} bs = ⟨d, none⟩) :
    (bs.map fun b => (readBlock {} b).out).flatten = d ∧ ∀ b ∈ bs, (readBlock {} b).fail = none := by
  induction bs generalizing d with
  | nil => simp only [readAll, Res.mk.injEq] at h; simp [← h.1]
  | cons b0 bs ih =>
    simp only [readAll] at h
    obtain ⟨h0, h1, hd⟩ := andThen_eq_ok h
    obtain ⟨ih1, ih2⟩ := ih (d := (readAll {} bs).out) (by rw [← h1])
    refine ⟨by simp [ih1, hd], ?_⟩
    intro b hb
    rcases List.mem_cons.mp hb with rfl | hb
    · exact h0
    · exact ih2 b hb

/-! ### the writer invariant -/

def nodeOfW (n : INode) : Element :=
  .node n.id (decodeAngle n.qlat 0 defaultGranularity) (decodeAngle n.qlon 0 defaultGranularity) n.tags

/-- every dense group of the block is the encoding of a run of nodes whose tag indices are non-zero and
resolve in the block's string table -/
def AlignedBlock (b : Block) : Prop :=
  ∀ g ∈ b.groups, ∀ d, g.dense = some d →
    ∃ ns : List INode, d = encDense 0 0 0 ns ∧ ∀ n ∈ ns, PairsOK b.strings n.ps n.tags

/-- what the group being assembled will read as -/
def Pending (w : Writer) (d2 : List Element) : Prop :=
  match w.state with
  | .new => d2 = []
  | .dense => ∃ ns : List INode, w.dense = encDense 0 0 0 ns ∧ (w.lastID, w.lastLat, w.lastLon) = lastOf 0 0 0 ns ∧
      (∀ n ∈ ns, PairsOK ("" :: w.strings) n.ps n.tags) ∧ d2 = ns.map nodeOfW
  | .ways => All2 (WayOK ("" :: w.strings)) w.waysRev.reverse d2
  | .rels => All2 (RelOK ("" :: w.strings)) w.relsRev.reverse d2

def Inv (w : Writer) (done : List Element) : Prop :=
  ∃ d1 d2, readAll {} w.out = ⟨d1, none⟩ ∧ Pending w d2 ∧ done = d1 ++ d2 ∧ ∀ b ∈ w.out, AlignedBlock b

theorem readBlock_single (b : Block) (g : Group) (hg : b.groups = [g]) :
    readBlock {} b = ⟨(readGroup {} b g).out, (readGroup {} b g).fail⟩ := by
  simp only [readBlock, hg, readGroups, Res.andThen]
  cases (readGroup {} b g).fail <;> simp

theorem pending_read {w : Writer} {d2 : List Element} (h : Pending w d2) (hs : w.state ≠ .new) :
    readBlock {} w.block = ⟨d2, none⟩ := by
  rw [readBlock_single w.block w.group rfl]
  unfold Pending at h
  cases hst : w.state with
  | new => exact absurd hst hs
  | dense =>
    rw [hst] at h
    obtain ⟨ns, hd, _, hok, rfl⟩ := h
    have := readDense_encDense w.block 0 0 0 ns hok
    simp only [readGroup, Writer.group, hst, emitEach, andThen_ok, hd, this]
    simp [Res.andThen, nodeOf, nodeOfW, Writer.block]
  | ways =>
    rw [hst] at h
    have := emitEach_of_all2 (f := fillWay {} w.block) (All2.imp (fun pw e (hw : WayOK _ pw e) => hw [] w.block (by simp [Writer.block])) h)
    simp [readGroup, Writer.group, hst, emitEach, Res.andThen, this]
  | rels =>
    rw [hst] at h
    have := emitEach_of_all2 (f := fillRelation {} w.block) (All2.imp (fun pr e (hw : RelOK _ pr e) => hw [] w.block (by simp [Writer.block])) h)
    simp [readGroup, Writer.group, hst, emitEach, Res.andThen, this]

theorem pending_aligned {w : Writer} {d2 : List Element} (h : Pending w d2) : AlignedBlock w.block := by
  intro g hg d hd
  simp only [Writer.block, List.mem_singleton] at hg
  subst hg
  unfold Pending at h
  cases hst : w.state with
  | dense =>
    rw [hst] at h
    obtain ⟨ns, hd', _, hok, _⟩ := h
    simp only [Writer.group, hst, Option.some.injEq] at hd
    exact ⟨ns, by rw [← hd, hd'], hok⟩
  | new => simp [Writer.group, hst] at hd
  | ways => simp [Writer.group, hst] at hd
  | rels => simp [Writer.group, hst] at hd

/-- `Flush` keeps the invariant, leaves the writer in state `new` with an empty string table, and
everything written so far is in the blocks -/
theorem flush_inv {w : Writer} {done : List Element} (h : Inv w done) :
    readAll {} w.flush.out = ⟨done, none⟩ ∧ w.flush.state = .new ∧ w.flush.strings = [] ∧
    w.flush.waysRev = [] ∧ w.flush.relsRev = [] ∧ (∀ b ∈ w.flush.out, AlignedBlock b) := by
  obtain ⟨d1, d2, hr, hp, rfl, ha⟩ := h
  cases hst : w.state with
  | new =>
    have : d2 = [] := by simpa [Pending, hst] using hp
    subst this
    simp [Writer.flush, hst, Writer.out] at *
    exact ⟨hr, ha⟩
  | dense | ways | rels =>
    all_goals
      have hb := pending_read hp (by simp [hst])
      have hal := pending_aligned hp
      have := readAll_snoc w.block hr
      rw [hb] at this
      simp only [Writer.flush, hst, Writer.out, List.reverse_cons] at *
      refine ⟨this, by trivial, by trivial, by trivial, by trivial, ?_⟩
      intro b hb'
      rcases List.mem_append.mp hb' with hb' | hb'
      · exact ha b hb'
      · simp only [List.mem_singleton] at hb'; subst hb'; exact hal

theorem flush_Inv {w : Writer} {done : List Element} (h : Inv w done) : Inv w.flush done := by
  obtain ⟨h1, h2, _, _, _, h6⟩ := flush_inv h
  exact ⟨done, [], h1, by simp [Pending, h2], by simp, h6⟩

/-! ### one `Write…` call -/

def enterDense (w : Writer) : Writer :=
  if w.state = .dense then w else
    { w.flush with state := .dense, idRev := [], latRev := [], lonRev := [], kvRev := [],
                   lastID := 0, lastLat := 0, lastLon := 0 }

def appendNode (w : Writer) (id lat lon : Int64) (tags : List Tag) : Writer :=
  let dLat := encodeAngle lat 0 defaultGranularity - w.lastLat
  let dLon := encodeAngle lon 0 defaultGranularity - w.lastLon
  { w with
    idRev := (id - w.lastID) :: w.idRev, latRev := dLat :: w.latRev, lonRev := dLon :: w.lonRev,
    kvRev := 0 :: ((kvOf (encTags w.strings tags).1).reverse ++ w.kvRev),
    lastID := id, lastLat := w.lastLat + dLat, lastLon := w.lastLon + dLon, strings := (encTags w.strings tags).2 }

theorem writeNode_eq (w : Writer) (id lat lon : Int64) (tags : List Tag) :
    w.writeNode id lat lon tags =
      if (appendNode (enterDense w) id lat lon tags).idRev.length ≥ elementsPerGroup
      then (appendNode (enterDense w) id lat lon tags).flush else appendNode (enterDense w) id lat lon tags := rfl

theorem enterDense_Inv {w : Writer} {done : List Element} (h : Inv w done) :
    Inv (enterDense w) done ∧ (enterDense w).state = .dense := by
  unfold enterDense
  split
  · exact ⟨h, by assumption⟩
  · obtain ⟨h1, _, _, _, _, h6⟩ := flush_inv h
    refine ⟨⟨done, [], ?_, ?_, by simp, ?_⟩, rfl⟩
    · simpa [Writer.out] using h1
    · exact ⟨[], rfl, rfl, by simp, rfl⟩
    · simpa [Writer.out] using h6

theorem appendNode_Inv {w : Writer} {done : List Element} (h : Inv w done) (hs : w.state = .dense)
    (id lat lon : Int64) (tags : List Tag) :
    Inv (appendNode w id lat lon tags) (done ++ [quantise (.node id lat lon tags)]) := by
  obtain ⟨d1, d2, hr, hp, rfl, ha⟩ := h
  simp only [Pending, hs] at hp
  obtain ⟨ns, hd, hl, hok, rfl⟩ := hp
  obtain ⟨X, hX, hps⟩ := encTags_spec w.strings tags
  let n : INode := ⟨id, encodeAngle lat 0 defaultGranularity, encodeAngle lon 0 defaultGranularity,
    (encTags w.strings tags).1, tags⟩
  refine ⟨d1, ns.map nodeOfW ++ [nodeOfW n], hr, ?_, by simp [nodeOfW, quantise, quantCoord, n], ha⟩
  have hst : (appendNode w id lat lon tags).state = .dense := hs
  simp only [Pending, hst]
  refine ⟨ns ++ [n], ?_, ?_, ?_, by simp⟩
  · rw [encDense_snoc, ← hd, ← hl]
    simp [appendNode, Writer.dense, seg, n]
  · rw [lastOf_snoc]
    simp [appendNode, add_sub_cancel_left', n]
  · intro m hm
    rcases List.mem_append.mp hm with hm | hm
    · have := (hok m hm).mono X
      simpa [appendNode, hX] using this
    · simp only [List.mem_singleton] at hm
      subst hm
      exact hps

theorem writeNode_Inv {w : Writer} {done : List Element} (h : Inv w done) (id lat lon : Int64) (tags : List Tag) :
    Inv (w.writeNode id lat lon tags) (done ++ [quantise (.node id lat lon tags)]) := by
  obtain ⟨h1, h2⟩ := enterDense_Inv h
  have h3 := appendNode_Inv h1 h2 id lat lon tags
  rw [writeNode_eq]
  split
  · exact flush_Inv h3
  · exact h3

def enterWays (w : Writer) : Writer :=
  if w.state = .ways then w else { w.flush with state := .ways, waysRev := [] }

def appendWay (w : Writer) (id : Int64) (nodes : List Int64) (tags : List Tag) : Writer :=
  { w with
    waysRev := { id := id, refs := deltaEnc 0 nodes, keys := (encTags w.strings tags).1.map (·.1),
                 vals := (encTags w.strings tags).1.map (·.2) } :: w.waysRev,
    strings := (encTags w.strings tags).2 }

theorem writeWay_eq (w : Writer) (id : Int64) (nodes : List Int64) (tags : List Tag) :
    w.writeWay id nodes tags =
      if (appendWay (enterWays w) id nodes tags).waysRev.length ≥ elementsPerGroup
      then (appendWay (enterWays w) id nodes tags).flush else appendWay (enterWays w) id nodes tags := rfl

theorem enterWays_Inv {w : Writer} {done : List Element} (h : Inv w done) :
    Inv (enterWays w) done ∧ (enterWays w).state = .ways := by
  unfold enterWays
  split
  · exact ⟨h, by assumption⟩
  · obtain ⟨h1, _, _, _, _, h6⟩ := flush_inv h
    refine ⟨⟨done, [], ?_, ?_, by simp, ?_⟩, rfl⟩
    · simpa [Writer.out] using h1
    · simp only [Pending]; exact All2.nil
    · simpa [Writer.out] using h6

theorem appendWay_Inv {w : Writer} {done : List Element} (h : Inv w done) (hs : w.state = .ways)
    (id : Int64) (nodes : List Int64) (tags : List Tag) :
    Inv (appendWay w id nodes tags) (done ++ [quantise (.way id nodes tags)]) := by
  obtain ⟨d1, d2, hr, hp, rfl, ha⟩ := h
  simp only [Pending, hs] at hp
  obtain ⟨X, hX, hps⟩ := encTags_spec w.strings tags
  refine ⟨d1, d2 ++ [.way id nodes tags], hr, ?_, by simp [quantise], ha⟩
  have hst : (appendWay w id nodes tags).state = .ways := hs
  simp only [Pending, hst]
  simp only [appendWay, List.reverse_cons]
  refine All2.append ?_ (All2.cons (wayOK_of_pairsOK id nodes hps) All2.nil)
  have := All2.imp (fun _ _ (hw : WayOK _ _ _) => hw.mono X) hp
  simpa [hX] using this

theorem writeWay_Inv {w : Writer} {done : List Element} (h : Inv w done) (id : Int64) (nodes : List Int64)
    (tags : List Tag) : Inv (w.writeWay id nodes tags) (done ++ [quantise (.way id nodes tags)]) := by
  obtain ⟨h1, h2⟩ := enterWays_Inv h
  have h3 := appendWay_Inv h1 h2 id nodes tags
  rw [writeWay_eq]
  split
  · exact flush_Inv h3
  · exact h3

def enterRels (w : Writer) : Writer :=
  if w.state = .rels then w else { w.flush with state := .rels, relsRev := [] }

def appendRel (w : Writer) (id : Int64) (members : List Member) (tags : List Tag) : Writer :=
  let S1 := (encRoles w.strings members).2
  { w with
    relsRev := { id := id, memids := deltaEnc 0 (members.map (·.id)), types := members.map (typeCode ·.type),
                 roles := (encRoles w.strings members).1, keys := (encTags S1 tags).1.map (·.1),
                 vals := (encTags S1 tags).1.map (·.2) } :: w.relsRev,
    strings := (encTags S1 tags).2 }

theorem writeRelation_eq (w : Writer) (id : Int64) (members : List Member) (tags : List Tag) :
    w.writeRelation id members tags =
      if (appendRel (enterRels w) id members tags).relsRev.length ≥ elementsPerGroup
      then (appendRel (enterRels w) id members tags).flush else appendRel (enterRels w) id members tags := rfl

theorem enterRels_Inv {w : Writer} {done : List Element} (h : Inv w done) :
    Inv (enterRels w) done ∧ (enterRels w).state = .rels := by
  unfold enterRels
  split
  · exact ⟨h, by assumption⟩
  · obtain ⟨h1, _, _, _, _, h6⟩ := flush_inv h
    refine ⟨⟨done, [], ?_, ?_, by simp, ?_⟩, rfl⟩
    · simpa [Writer.out] using h1
    · simp only [Pending]; exact All2.nil
    · simpa [Writer.out] using h6

theorem appendRel_Inv {w : Writer} {done : List Element} (h : Inv w done) (hs : w.state = .rels)
    (id : Int64) (members : List Member) (tags : List Tag) :
    Inv (appendRel w id members tags) (done ++ [quantise (.relation id members tags)]) := by
  obtain ⟨d1, d2, hr, hp, rfl, ha⟩ := h
  simp only [Pending, hs] at hp
  obtain ⟨X1, hX1, hrs⟩ := encRoles_spec w.strings members
  obtain ⟨X2, hX2, hps⟩ := encTags_spec (encRoles w.strings members).2 tags
  refine ⟨d1, d2 ++ [.relation id members tags], hr, ?_, by simp [quantise], ha⟩
  have hst : (appendRel w id members tags).state = .rels := hs
  simp only [Pending, hst]
  simp only [appendRel, List.reverse_cons]
  refine All2.append ?_ (All2.cons (relOK_of_ok id members ?_ hps) All2.nil)
  · have := All2.imp (fun _ _ (hw : RelOK _ _ _) => hw.mono (X1 ++ X2)) hp
    rw [hX2, hX1]
    simpa using this
  · have := hrs.mono X2
    simpa [hX2] using this

theorem writeRelation_Inv {w : Writer} {done : List Element} (h : Inv w done) (id : Int64) (members : List Member)
    (tags : List Tag) : Inv (w.writeRelation id members tags) (done ++ [quantise (.relation id members tags)]) := by
  obtain ⟨h1, h2⟩ := enterRels_Inv h
  have h3 := appendRel_Inv h1 h2 id members tags
  rw [writeRelation_eq]
  split
  · exact flush_Inv h3
  · exact h3

theorem write_Inv {w : Writer} {done : List Element} (h : Inv w done) (e : Element) :
    Inv (w.write e) (done ++ [quantise e]) := by
  cases e with
  | node id lat lon tags => exact writeNode_Inv h id lat lon tags
  | way id nodes tags => exact writeWay_Inv h id nodes tags
  | relation id members tags => exact writeRelation_Inv h id members tags

theorem foldl_Inv {w : Writer} {done : List Element} (h : Inv w done) (es : List Element) :
    Inv (es.foldl Writer.write w) (done ++ es.map quantise) := by
  induction es generalizing w done with
  | nil => simpa using h
  | cons e es ih =>
    have := ih (write_Inv h e)
    simpa using this

theorem init_Inv : Inv {} [] := ⟨[], [], rfl, rfl, rfl, by simp [Writer.out]⟩

/-- the file written for `es`: reads back as `es.map quantise`, and every block is aligned -/
theorem writeAll_spec (es : List Element) :
    readAll {} (writeAll es) = ⟨es.map quantise, none⟩ ∧ ∀ b ∈ writeAll es, AlignedBlock b := by
  have h := flush_inv (foldl_Inv init_Inv es)
  simp only [List.nil_append] at h
  exact ⟨h.1, h.2.2.2.2.2⟩

/-! ### coordinates -/

theorem tdiv100 (x : Int) : (0 ≤ x ∧ (x.tdiv 100) * 100 ≤ x ∧ x < (x.tdiv 100) * 100 + 100) ∨ (x ≤ (x.tdiv 100) * 100 ∧ (x.tdiv 100) * 100 - 100 < x ∧ x < 0) := by
  by_cases hx : 0 ≤ x
  · left
    rw [Int.tdiv_eq_ediv_of_nonneg hx]
    omega
  · right
    have h : x = -(-x) := by omega
    have h2 : (0:Int) ≤ -x := by omega
    rw [h, Int.neg_tdiv, Int.tdiv_eq_ediv_of_nonneg h2]
    omega

theorem quantCoord_toInt (n : Int64) : (quantCoord n).toInt = 100 * (n.toInt.tdiv 100) := by
  have hlo := Int64.le_toInt n
  have hhi := Int64.toInt_lt n
  have h100 : (100 : Int64).toInt = 100 := by decide
  unfold quantCoord decodeAngle encodeAngle defaultGranularity
  rw [Int64.sub_zero, Int64.zero_add, Int64.toInt_mul, Int64.toInt_div, h100]
  have hb : ∀ y : Int, -2^63 ≤ y → y < 2^63 → y.bmod (2^64) = y := by
    intro y h1 h2
    exact Int.bmod_eq_of_le (m := 2^64) (by omega) (by omega)
  rcases tdiv100 n.toInt with h | h
  · rw [hb (n.toInt.tdiv 100) (by omega) (by omega), hb _ (by omega) (by omega)]
  · rw [hb (n.toInt.tdiv 100) (by omega) (by omega), hb _ (by omega) (by omega)]

theorem quantCoord_within_step (n : Int64) : ((quantCoord n).toInt - n.toInt).natAbs < 100 := by
  rw [quantCoord_toInt]
  rcases tdiv100 n.toInt with h | h <;> omega

/-! ### the order across goroutines -/

theorem shuffle_single {α : Type} {ss : List (List α)} {glob : List α} (k0 : Nat)
    (h : Shuffle ss glob) (hothers : ∀ k s, k ≠ k0 → ss[k]? = some s → s = []) :
    glob = (ss[k0]?).getD [] := by
  induction h with
  | @nil ss hall =>
    cases hk : ss[k0]? with
    | none => rfl
    | some s => simp [hall s (List.mem_of_getElem? hk)]
  | @cons ss k x rest out hk _ ih =>
    have hk0 : k = k0 := by
      by_cases hne : k = k0
      · exact hne
      · have := hothers k _ hne hk
        cases this
    subst hk0
    have hlt : k < ss.length := (List.getElem?_eq_some_iff.mp hk).1
    have := ih (by
      intro k' s hne hs
      rw [List.getElem?_set_ne (Ne.symm hne)] at hs
      exact hothers k' s hne hs)
    rw [this, hk]
    simp [List.getElem?_set_self hlt]

def streamOf (bs : List Block) (assign : List Nat) (k : Nat) : List Element :=
  ((bs.zip assign).filter (fun p => p.2 == k)).flatMap (fun p => (readBlock {} p.1).out)

theorem readCores_get (bs : List Block) (assign : List Nat) (g k : Nat) :
    (readCores {} bs assign g)[k]? = if k < g then some (streamOf bs assign k) else none := by
  unfold readCores streamOf
  by_cases h : k < g
  · simp [h]
  · simp [h]

theorem streamOf_all (bs : List Block) (assign : List Nat) (k : Nat) (hlen : assign.length = bs.length)
    (hall : ∀ a ∈ assign, a = k) :
    streamOf bs assign k = (bs.map fun b => (readBlock {} b).out).flatten := by
  unfold streamOf
  induction bs generalizing assign with
  | nil => simp
  | cons b bs ih =>
    cases assign with
    | nil => simp at hlen
    | cons a as =>
      have ha : a = k := hall a (by simp)
      have := ih as (by simpa using hlen) (fun x hx => hall x (by simp [hx]))
      simp [ha, this]

theorem total_order_of_single (es : List Element) (g : Nat) (assign : List Nat) (glob : List Element)
    (hlen : assign.length = (writeAll es).length) (hlt : ∀ a ∈ assign, a < g)
    (hc : crossBlockClass g (writeAll es).length = false)
    (hchunks : ((writeAll es).map fun b => (readBlock {} b).out).flatten = es.map quantise)
    (h : Shuffle (readCores {} (writeAll es) assign g) glob) : glob = es.map quantise := by
  generalize hbs : writeAll es = bs at *
  simp only [crossBlockClass, Bool.and_eq_false_iff, decide_eq_false_iff_not, Nat.not_lt] at hc
  rcases hc with hg | hb
  · -- at most one goroutine
    have hg' : g = 0 ∨ g = 1 := by omega
    rcases hg' with rfl | rfl
    · have hassign : assign = [] := by
        cases assign with
        | nil => rfl
        | cons a as => exact absurd (hlt a (by simp)) (by omega)
      subst hassign
      have hbs0 : bs = [] := by simpa using hlen.symm
      subst hbs0
      have hglob := shuffle_single 0 h (by intro k s _ hs; simp [readCores] at hs)
      have hq : es.map quantise = [] := by rw [← hchunks]; rfl
      rw [hq]
      simpa [readCores] using hglob
    · have hall : ∀ a ∈ assign, a = 0 := fun a ha => by have := hlt a ha; omega
      have := shuffle_single 0 h (by
        intro k s hk hs
        rw [readCores_get] at hs
        have : ¬ k < 1 := by omega
        simp [this] at hs)
      rw [this, readCores_get]
      simp [streamOf_all bs assign 0 hlen hall, hchunks]
  · -- at most one block
    match bs, hlen, hb with
    | [], hlen, _ =>
      have := shuffle_single 0 h (by
        intro k s _ hs
        rw [readCores_get] at hs
        split at hs
        · simp [streamOf] at hs; first | exact hs | exact hs.symm
        · cases hs)
      rw [this, readCores_get]
      simp only [List.map_nil, List.flatten_nil] at hchunks
      rw [← hchunks]
      split <;> simp [streamOf]
    | [b], hlen, _ =>
      match assign, hlen with
      | [a], _ =>
        have ha : a < g := hlt a (by simp)
        have := shuffle_single a h (by
          intro k s hk hs
          rw [readCores_get] at hs
          split at hs
          · have hne : (a == k) = false := by simpa using (Ne.symm hk)
            simp [streamOf, hne] at hs; first | exact hs | exact hs.symm
          · cases hs)
        rw [this, readCores_get]
        simp only [List.map_cons, List.map_nil, List.flatten_cons, List.flatten_nil, List.append_nil] at hchunks
        simp [ha, streamOf, hchunks]
    | _ :: _ :: _, _, hb => simp at hb

end B6.Lemmas.Pbf
