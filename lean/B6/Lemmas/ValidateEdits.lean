import B6.Lemmas.Validate
/-!
C37: an accepted `BasicMutableWorld.AddFeature` keeps every feature valid (`edits_valid`).
-/
namespace B6.Lemmas.ValidateEdits
open B6.Model.Validate B6.Lemmas.Validate

theorem find_put (w : World) (f : Feat) (id : Id) :
    find (put w f) id = if id = f.id then some f else find w id := by
  induction w with
  | nil =>
    simp only [put, find, List.find?_cons, List.find?_nil]
    by_cases h : id = f.id
    · simp [h]
    · have : ¬ f.id = id := fun e => h e.symm
      simp [h, this]
  | cons a l ih =>
    simp only [put]
    by_cases ha : a.id = f.id
    · simp only [ha, ↓reduceIte, find, List.find?_cons]
      by_cases h : id = f.id
      · simp [h]
      · have h1 : ¬ f.id = id := fun e => h e.symm
        have h2 : ¬ a.id = id := fun e => h (by rw [← e, ha])
        simp [h, h1, h2]
    · simp only [ha, ↓reduceIte]
      unfold find at ih ⊢
      rw [List.find?_cons, List.find?_cons]
      by_cases h2 : a.id = id
      · have : ¬ id = f.id := fun e => ha (by rw [h2, e])
        simp [h2, this]
      · simp only [h2, decide_false, Bool.false_eq_true]
        exact ih

theorem locOf_put (w : World) (f : Feat) (id : Id) (h : id ≠ f.id) : locOf (put w f) id = locOf w id := by
  unfold locOf; rw [find_put]; simp [h]

theorem mem_put {w : World} (hu : Uniq w) {f g : Feat} (hg : g ∈ put w f) : g = f ∨ (g ∈ w ∧ g.id ≠ f.id) := by
  induction w with
  | nil => simp only [put, List.mem_singleton] at hg; exact Or.inl hg
  | cons a l ih =>
    unfold Uniq at hu
    simp only [List.map_cons, List.nodup_cons] at hu
    simp only [put] at hg
    by_cases ha : a.id = f.id
    · simp only [ha, ↓reduceIte] at hg
      rcases List.mem_cons.mp hg with h | h
      · exact Or.inl h
      · refine Or.inr ⟨List.mem_cons_of_mem _ h, ?_⟩
        intro e
        exact hu.1 (List.mem_map.mpr ⟨g, h, by rw [e, ha]⟩)
    · simp only [ha, ↓reduceIte] at hg
      rcases List.mem_cons.mp hg with h | h
      · subst h; exact Or.inr ⟨List.mem_cons_self, ha⟩
      · rcases ih hu.2 h with h | ⟨h1, h2⟩
        · exact Or.inl h
        · exact Or.inr ⟨List.mem_cons_of_mem _ h1, h2⟩

/-- same constructor -/
def sameCtor (g f : Feat) : Bool :=
  match g.geo, f.geo with
  | .point _, .point _ => true
  | .path _, .path _ => true
  | .area _, .area _ => true
  | .other _, .other _ => true
  | _, _ => false

theorem pathSlots_put {w : World} {f : Feat} {refs : List Id} (h : f.id ∉ refs) :
    pathSlots (put w f) refs = pathSlots w refs := by
  unfold pathSlots
  induction refs with
  | nil => rfl
  | cons t ts ih =>
    have ht : t ≠ f.id := fun e => h (by rw [e]; exact List.mem_cons_self)
    have hts : f.id ∉ ts := fun e => h (List.mem_cons_of_mem _ e)
    simp only [List.mapM_cons, locOf_put w f t ht, ih hts]

/-- accepted by `ValidateFeature` (clockwise paths rejected) ⇒ valid -/
theorem validate_valid {O : Oracle} {w : World} {g g' : Feat} (h : validateFeature O false w g = some (true, g')) :
    valid O w g = true := by
  unfold validateFeature at h
  cases hgeo : g.geo with
  | point k => simp [valid, hgeo]
  | other r => simp [valid, hgeo]
  | path refs =>
    simp only [hgeo] at h
    cases hvp : validatePath O w refs with
    | invalid => simp [hvp] at h
    | clockwise => simp [hvp] at h
    | ok =>
      unfold validatePath at hvp
      split at hvp
      · cases hvp
      · rename_i hlen
        split at hvp
        · cases hvp
        · rename_i slots hs
          simp only [valid, hgeo, hs]
          by_cases hc : closedRefs refs = true
          · simp only [hc, ↓reduceIte] at hvp
            split at hvp
            · cases hvp
            · split at hvp
              · cases hvp
              · rename_i h1 h2
                have h1' : O.loopValid slots.dropLast = true := by simpa using h1
                have h2' : O.ccw slots.dropLast = true := by simpa using h2
                simp [h1', h2']; omega
          · simp [hc]; omega
  | area polys =>
    simp only [hgeo] at h
    cases hva : validateArea w polys with
    | none => simp [hva] at h
    | some b =>
      simp only [hva] at h
      injection h with h; injection h with hb _; subst hb
      simp only [valid, hgeo, List.all_eq_true]
      intro pid hpid
      unfold validateArea at hva
      -- reuse the characterisation of a successful path list
      have : ∀ (ids : List Id), validatePaths w ids = some true → ∀ pid ∈ ids, areaPathOk w pid = true := by
        intro ids
        induction ids with
        | nil => intro _ p hp; cases hp
        | cons a ids ih =>
          intro hh p hp
          simp only [validatePaths] at hh
          split at hh
          · rename_i i refs hf
            cases hpa : pathForArea w refs with
            | none => simp [hpa] at hh
            | some b =>
              cases b with
              | false => simp [hpa] at hh
              | true =>
                simp only [hpa] at hh
                rcases List.mem_cons.mp hp with rfl | hp
                · unfold pathForArea at hpa
                  split at hpa
                  · cases hpa
                  · rename_i hlen
                    split at hpa
                    · rename_i x y hx hy
                      split at hpa
                      · rename_i u v hu hv
                        injection hpa with hpa
                        have : u = v := by simpa using hpa
                        simp [areaPathOk, hf, hx, hy, hu, hv, this]; omega
                      · cases hpa
                    · cases hpa
                · exact ih hh p hp
          · cases hh
          · cases hh
      exact this _ hva pid hpid

/-- the set computed by `referrers` is closed under "references a member" (an executable check) -/
def closedSet (w : World) (id : Id) (S : List Id) : Bool := (directRefs w id S).all fun s => decide (s ∈ S)

theorem not_in_closed {w : World} {id : Id} {S : List Id} (hc : closedSet w id S = true) {g : Feat} (hg : g ∈ w)
    (hn : g.id ∉ S) : ∀ t ∈ refsOf g, t ≠ id ∧ t ∉ S := by
  intro t ht
  have hall := List.all_eq_true.mp hc
  by_cases h1 : t = id ∨ t ∈ S
  · exfalso
    apply hn
    have : g.id ∈ directRefs w id S := by
      simp only [directRefs, List.mem_map, List.mem_filter]
      refine ⟨g, ⟨hg, List.any_eq_true.mpr ⟨t, ht, ?_⟩⟩, rfl⟩
      rcases h1 with h1 | h1 <;> simp [h1]
    simpa using hall g.id this
  · exact ⟨fun e => h1 (Or.inl e), fun e => h1 (Or.inr e)⟩

theorem fold_validate {O : Oracle} {w' : World} : ∀ (rs : List Feat) (acc : Option Bool),
    rs.foldl (fun acc g => match acc with
          | some true => (validateFeature O false w' g).map (·.1)
          | other => other) acc = some true →
    acc = some true ∧ ∀ g ∈ rs, (validateFeature O false w' g).map (·.1) = some true := by
  intro rs
  induction rs with
  | nil => intro acc h; exact ⟨h, by intro g hg; cases hg⟩
  | cons a rs ih =>
    intro acc h
    simp only [List.foldl_cons] at h
    obtain ⟨h1, h2⟩ := ih _ h
    cases acc with
    | none => simp at h1
    | some b =>
      cases b with
      | false => simp at h1
      | true =>
        simp only at h1
        refine ⟨rfl, ?_⟩
        intro g hg
        rcases List.mem_cons.mp hg with rfl | hg
        · exact h1
        · exact h2 g hg

theorem pathSlots_some {w : World} : ∀ {refs : List Id} {slots : List Nat}, pathSlots w refs = some slots →
    ∀ t ∈ refs, ∃ k, locOf w t = some k := by
  intro refs
  induction refs with
  | nil => intro _ _ t ht; cases ht
  | cons a as ih =>
    intro slots h t ht
    unfold pathSlots at h
    simp only [List.mapM_cons] at h
    cases ha : locOf w a with
    | none => simp [ha] at h
    | some k =>
      rcases List.mem_cons.mp ht with rfl | ht
      · exact ⟨k, ha⟩
      · simp only [ha, Option.pure_def, Option.bind_eq_bind, Option.bind_some] at h
        cases hr : List.mapM (locOf w) as with
        | none => simp [hr] at h
        | some r => exact ih (slots := r) hr t ht

theorem locOf_some {w : World} {t : Id} {k : Nat} (h : locOf w t = some k) :
    t.1 = 9 ∨ ∃ g, find w t = some g ∧ g.geo = .point (some k) := by
  rw [locOf_eq] at h
  by_cases hi : t.1 = 9
  · exact Or.inl hi
  · refine Or.inr ?_
    simp only [hi, ↓reduceIte] at h
    cases hf : find w t with
    | none => simp [hf] at h
    | some g =>
      simp only [hf, Option.bind_some, pointLoc] at h
      refine ⟨g, rfl, ?_⟩
      cases hg : g.geo with
      | point l => simp only [hg] at h; rw [h]
      | path r => simp [hg] at h
      | area r => simp [hg] at h
      | other r => simp [hg] at h

/-- an element read by a validation exists: it is an inline point or a feature of the world -/
def Ex (w : World) (t : Id) : Prop := t.1 = 9 ∨ (find w t).isSome = true

theorem areaPathOk_put {w : World} {f : Feat} {pid : Id} (hpid : pid ≠ f.id)
    (hends : ∀ i refs, find w pid = some ⟨i, .path refs⟩ →
      (∀ a, refs.head? = some a → a ≠ f.id) ∧ (∀ b, refs.getLast? = some b → b ≠ f.id))
    (h : areaPathOk w pid = true) : areaPathOk (put w f) pid = true := by
  unfold areaPathOk at h ⊢
  rw [find_put]
  simp only [hpid, ↓reduceIte]
  cases hf : find w pid with
  | none => simp [hf] at h
  | some p =>
    obtain ⟨i, g⟩ := p
    cases g with
    | point l => simp [hf] at h
    | area l => simp [hf] at h
    | other l => simp [hf] at h
    | path refs =>
      simp only [hf] at h ⊢
      obtain ⟨he1, he2⟩ := hends i refs hf
      cases hh : refs.head? with
      | none => simp [hh] at h
      | some a =>
        cases hl : refs.getLast? with
        | none => simp [hh, hl] at h
        | some b =>
          simp only [hh, hl] at h ⊢
          rw [locOf_put w f a (he1 a hh), locOf_put w f b (he2 b hl)]
          exact h

theorem valid_put {O : Oracle} {w : World} {f g : Feat}
    (hp : ∀ refs, g.geo = .path refs → f.id ∉ refs)
    (ha : ∀ polys, g.geo = .area polys → ∀ pid ∈ polys.flatten, pid ≠ f.id ∧
      ∀ i refs, find w pid = some ⟨i, .path refs⟩ →
        (∀ a, refs.head? = some a → a ≠ f.id) ∧ (∀ b, refs.getLast? = some b → b ≠ f.id))
    (h : valid O w g = true) : valid O (put w f) g = true := by
  unfold valid at h ⊢
  cases hg : g.geo with
  | point l => rfl
  | other l => rfl
  | path refs =>
    simp only [hg] at h ⊢
    rw [pathSlots_put (hp refs hg)]
    exact h
  | area polys =>
    simp only [hg, List.all_eq_true] at h ⊢
    intro pid hpid
    obtain ⟨h1, h2⟩ := ha polys hg pid hpid
    exact areaPathOk_put h1 h2 (h pid hpid)

theorem head_mem {refs : List Id} {a : Id} (h : refs.head? = some a) : a ∈ refs := by
  cases refs with
  | nil => cases h
  | cons x xs => simp only [List.head?_cons, Option.some.injEq] at h; subst h; exact List.mem_cons_self

theorem last_mem {refs : List Id} {b : Id} (h : refs.getLast? = some b) : b ∈ refs :=
  List.mem_of_getLast? h

/-- what a feature that is valid in `w` reads exists in `w` -/
theorem valid_reads_exist {O : Oracle} {w : World} {g : Feat} (h : valid O w g = true) :
    (∀ refs, g.geo = .path refs → ∀ t ∈ refs, Ex w t) ∧
    (∀ polys, g.geo = .area polys → ∀ pid ∈ polys.flatten, (find w pid).isSome = true ∧
      ∀ i refs, find w pid = some ⟨i, .path refs⟩ →
        (∀ a, refs.head? = some a → Ex w a) ∧ (∀ b, refs.getLast? = some b → Ex w b)) := by
  unfold valid at h
  constructor
  · intro refs hg t ht
    simp only [hg, Bool.and_eq_true] at h
    cases hs : pathSlots w refs with
    | none => simp [hs] at h
    | some slots =>
      obtain ⟨k, hk⟩ := pathSlots_some hs t ht
      rcases locOf_some hk with hinl | ⟨g', hg', _⟩
      · exact Or.inl hinl
      · exact Or.inr (by simp [hg'])
  · intro polys hg pid hpid
    simp only [hg, List.all_eq_true] at h
    have hp := h pid hpid
    unfold areaPathOk at hp
    cases hf : find w pid with
    | none => simp [hf] at hp
    | some p =>
      refine ⟨by simp, ?_⟩
      intro i refs he
      injection he with he; subst he
      simp only [hf] at hp
      constructor
      · intro a hh
        cases hl : refs.getLast? with
        | none => simp [hh, hl] at hp
        | some b =>
          simp only [hh, hl, Bool.and_eq_true] at hp
          cases hla : locOf w a with
          | none => simp [hla] at hp
          | some x =>
            rcases locOf_some hla with hinl | ⟨g', hg', _⟩
            · exact Or.inl hinl
            · exact Or.inr (by simp [hg'])
      · intro b hl
        cases hh : refs.head? with
        | none => simp [hh] at hp
        | some a =>
          simp only [hh, hl, Bool.and_eq_true] at hp
          cases hla : locOf w a with
          | none => simp [hla] at hp
          | some x =>
            cases hlb : locOf w b with
            | none => simp [hla, hlb] at hp
            | some y =>
              rcases locOf_some hlb with hinl | ⟨g', hg', _⟩
              · exact Or.inl hinl
              · exact Or.inr (by simp [hg'])

theorem closure_closed (w : World) (id : Id) : ∀ (k : Nat) (S R : List Id),
    closure w id k S = some R → closedSet w id R = true := by
  intro k
  induction k with
  | zero => intro S R h; simp [closure] at h
  | succ k ih =>
    intro S R h
    simp only [closure] at h
    split at h
    · rename_i hnew
      injection h with h; subst h
      simp only [closedSet, List.all_eq_true, decide_eq_true_eq]
      intro s hs
      rw [List.isEmpty_iff] at hnew
      have : s ∉ (directRefs w id S).filter (fun s => decide (s ∉ S)) := by rw [hnew]; simp
      simpa [hs] using this
    · exact ih _ _ h

theorem edits_valid (O : Oracle) (w w' : World) (f : Feat) (hu : Uniq w)
    (hv : ∀ g ∈ w, valid O w g = true)
    (hk : ∀ g ∈ w, g.id = f.id → sameCtor g f = true) (hfid : f.id.1 ≠ 9)
    (h : addFeature O w f = .ok w') : ∀ g ∈ w', valid O w' g = true := by
  unfold addFeature at h
  cases hvf : validateFeature O false w f with
  | none => simp [hvf] at h
  | some p =>
    obtain ⟨b, f0⟩ := p
    cases b with
    | false => simp [hvf] at h
    | true =>
      simp only [hvf] at h
      -- the new feature is valid in the new world
      have hfw : valid O w f = true := validate_valid hvf
      have hctor_of_find : ∀ g, find w f.id = some g → sameCtor g f = true := by
        intro g hg; obtain ⟨h1, h2⟩ := find_some_mem hg; exact hk g h1 h2
      have hfnew : valid O (put w f) f = true := by
        apply valid_put _ _ hfw
        · intro refs hg hin
          have hr := (valid_reads_exist hfw).1 refs hg
          unfold valid at hfw
          simp only [hg, Bool.and_eq_true] at hfw
          cases hs : pathSlots w refs with
          | none => simp [hs] at hfw
          | some slots =>
            obtain ⟨k, hk'⟩ := pathSlots_some hs f.id hin
            rcases locOf_some hk' with hinl | ⟨g', hg', hgeo'⟩
            · exact absurd hinl hfid
            · have := hctor_of_find g' hg'
              simp [sameCtor, hgeo', hg] at this
        · intro polys hg pid hpid
          have hr := (valid_reads_exist hfw).2 polys hg pid hpid
          unfold valid at hfw
          simp only [hg, List.all_eq_true] at hfw
          have hp := hfw pid hpid
          unfold areaPathOk at hp
          constructor
          · intro e
            subst e
            cases hf : find w f.id with
            | none => simp [hf] at hp
            | some p =>
              obtain ⟨i, gg⟩ := p
              cases gg with
              | path refs => have := hctor_of_find _ hf; simp [sameCtor, hg] at this
              | point l => simp [hf] at hp
              | area l => simp [hf] at hp
              | other l => simp [hf] at hp
          · intro i refs hfind
            simp only [hfind] at hp
            constructor
            · intro a hh e
              subst e
              cases hl : refs.getLast? with
              | none => simp [hh, hl] at hp
              | some b =>
                simp only [hh, hl] at hp
                cases hla : locOf w f.id with
                | none => simp [hla] at hp
                | some x =>
                  rcases locOf_some hla with hinl | ⟨g', hg', hgeo'⟩
                  · exact absurd hinl hfid
                  · have := hctor_of_find g' hg'
                    simp [sameCtor, hgeo', hg] at this
            · intro b hl e
              subst e
              cases hh : refs.head? with
              | none => simp [hh] at hp
              | some a =>
                simp only [hh, hl] at hp
                cases hla : locOf w a with
                | none => simp [hla] at hp
                | some x =>
                  cases hlb : locOf w f.id with
                  | none => simp [hla, hlb] at hp
                  | some y =>
                    rcases locOf_some hlb with hinl | ⟨g', hg', hgeo'⟩
                    · exact absurd hinl hfid
                    · have := hctor_of_find g' hg'
                      simp [sameCtor, hgeo', hg] at this
      by_cases hex : (find w f.id).isSome = true
      · simp only [hex, ↓reduceIte] at h
        cases hr : referrers w f.id with
        | none => simp [hr] at h
        | some R =>
        have hcl : closedSet w f.id R = true := closure_closed w f.id _ _ R hr
        simp only [hr] at h
        split at h
        · cases h
        · cases h
        · rename_i hfold
          injection h with h; subst h
          have hall := (fold_validate _ _ hfold).2
          intro g hg
          rcases mem_put hu hg with rfl | ⟨hgw, hgid⟩
          · exact hfnew
          · by_cases hin : g.id ∈ R
            · have hfind : find (put w f) g.id = some g := by
                rw [find_put]; simp only [hgid, ↓reduceIte]; exact find_of_mem hu hgw
              have hmem : g ∈ (R).filterMap (find (put w f)) :=
                List.mem_filterMap.mpr ⟨g.id, hin, hfind⟩
              have := hall g hmem
              cases hvg : validateFeature O false (put w f) g with
              | none => simp [hvg] at this
              | some p =>
                obtain ⟨b, g'⟩ := p
                simp only [hvg, Option.map_some, Option.some.injEq] at this
                subst this
                exact validate_valid hvg
            · have hreads := not_in_closed hcl hgw hin
              apply valid_put _ _ (hv g hgw)
              · intro refs hgeo hmem
                exact (hreads f.id (by simp [refsOf, hgeo, hmem, isInline, hfid])).1 rfl
              · intro polys hgeo pid hpid
                have hr := hreads pid (by simp only [refsOf, hgeo]; exact hpid)
                refine ⟨hr.1, ?_⟩
                intro i refs hfind
                obtain ⟨hpm, hpi⟩ := find_some_mem hfind
                simp only at hpi
                have hreads2 := not_in_closed hcl hpm (by simp only; rw [hpi]; exact hr.2)
                constructor
                · intro a hh
                  by_cases hai : a.1 = 9
                  · intro e; exact hfid (by rw [← e]; exact hai)
                  · exact (hreads2 a (by simp only [refsOf]; exact List.mem_filter.mpr ⟨head_mem hh, by simp [isInline, hai]⟩)).1
                · intro b hl
                  by_cases hai : b.1 = 9
                  · intro e; exact hfid (by rw [← e]; exact hai)
                  · exact (hreads2 b (by simp only [refsOf]; exact List.mem_filter.mpr ⟨last_mem hl, by simp [isInline, hai]⟩)).1
      · simp only [hex, Bool.false_eq_true, ↓reduceIte] at h
        injection h with h; subst h
        have hnone : find w f.id = none := by
          cases hf : find w f.id with
          | none => rfl
          | some g => simp [hf] at hex
        have hne : ∀ t, (find w t).isSome = true → t ≠ f.id := by
          intro t ht e; subst e; rw [hnone] at ht; cases ht
        have hne' : ∀ t, Ex w t → t ≠ f.id := by
          intro t ht
          rcases ht with ht | ht
          · intro e; exact hfid (by rw [← e]; exact ht)
          · exact hne t ht
        intro g hg
        rcases mem_put hu hg with rfl | ⟨hgw, hgid⟩
        · exact hfnew
        · have hr := valid_reads_exist (hv g hgw)
          apply valid_put _ _ (hv g hgw)
          · intro refs hgeo hmem
            exact hne' f.id (hr.1 refs hgeo f.id hmem) rfl
          · intro polys hgeo pid hpid
            obtain ⟨h1, h2⟩ := hr.2 polys hgeo pid hpid
            refine ⟨hne pid h1, ?_⟩
            intro i refs hfind
            obtain ⟨h3, h4⟩ := h2 i refs hfind
            exact ⟨fun a hh => hne' a (h3 a hh), fun b hl => hne' b (h4 b hl)⟩

/-- the same for any re-validated referrer set that is closed under "references a member" — the
shape of `MutableOverlayWorld.AddFeature`, whose referrers come from the world's own `FindReferences` -/
theorem edits_valid_with (O : Oracle) (w w' : World) (f : Feat) (R : List Id) (hu : Uniq w)
    (hv : ∀ g ∈ w, valid O w g = true)
    (hk : ∀ g ∈ w, g.id = f.id → sameCtor g f = true) (hfid : f.id.1 ≠ 9)
    (hcl : closedSet w f.id R = true)
    (h : addFeatureWith O w f R = .ok w') : ∀ g ∈ w', valid O w' g = true := by
  unfold addFeatureWith at h
  cases hvf : validateFeature O false w f with
  | none => simp [hvf] at h
  | some p =>
    obtain ⟨b, f0⟩ := p
    cases b with
    | false => simp [hvf] at h
    | true =>
      simp only [hvf] at h
      -- the new feature is valid in the new world
      have hfw : valid O w f = true := validate_valid hvf
      have hctor_of_find : ∀ g, find w f.id = some g → sameCtor g f = true := by
        intro g hg; obtain ⟨h1, h2⟩ := find_some_mem hg; exact hk g h1 h2
      have hfnew : valid O (put w f) f = true := by
        apply valid_put _ _ hfw
        · intro refs hg hin
          have hr := (valid_reads_exist hfw).1 refs hg
          unfold valid at hfw
          simp only [hg, Bool.and_eq_true] at hfw
          cases hs : pathSlots w refs with
          | none => simp [hs] at hfw
          | some slots =>
            obtain ⟨k, hk'⟩ := pathSlots_some hs f.id hin
            rcases locOf_some hk' with hinl | ⟨g', hg', hgeo'⟩
            · exact absurd hinl hfid
            · have := hctor_of_find g' hg'
              simp [sameCtor, hgeo', hg] at this
        · intro polys hg pid hpid
          have hr := (valid_reads_exist hfw).2 polys hg pid hpid
          unfold valid at hfw
          simp only [hg, List.all_eq_true] at hfw
          have hp := hfw pid hpid
          unfold areaPathOk at hp
          constructor
          · intro e
            subst e
            cases hf : find w f.id with
            | none => simp [hf] at hp
            | some p =>
              obtain ⟨i, gg⟩ := p
              cases gg with
              | path refs => have := hctor_of_find _ hf; simp [sameCtor, hg] at this
              | point l => simp [hf] at hp
              | area l => simp [hf] at hp
              | other l => simp [hf] at hp
          · intro i refs hfind
            simp only [hfind] at hp
            constructor
            · intro a hh e
              subst e
              cases hl : refs.getLast? with
              | none => simp [hh, hl] at hp
              | some b =>
                simp only [hh, hl] at hp
                cases hla : locOf w f.id with
                | none => simp [hla] at hp
                | some x =>
                  rcases locOf_some hla with hinl | ⟨g', hg', hgeo'⟩
                  · exact absurd hinl hfid
                  · have := hctor_of_find g' hg'
                    simp [sameCtor, hgeo', hg] at this
            · intro b hl e
              subst e
              cases hh : refs.head? with
              | none => simp [hh] at hp
              | some a =>
                simp only [hh, hl] at hp
                cases hla : locOf w a with
                | none => simp [hla] at hp
                | some x =>
                  cases hlb : locOf w f.id with
                  | none => simp [hla, hlb] at hp
                  | some y =>
                    rcases locOf_some hlb with hinl | ⟨g', hg', hgeo'⟩
                    · exact absurd hinl hfid
                    · have := hctor_of_find g' hg'
                      simp [sameCtor, hgeo', hg] at this
      split at h
      · cases h
      · cases h
      · rename_i hfold
        injection h with h; subst h
        have hall := (fold_validate _ _ hfold).2
        intro g hg
        rcases mem_put hu hg with rfl | ⟨hgw, hgid⟩
        · exact hfnew
        · by_cases hin : g.id ∈ R
          · have hfind : find (put w f) g.id = some g := by
              rw [find_put]; simp only [hgid, ↓reduceIte]; exact find_of_mem hu hgw
            have hmem : g ∈ (R).filterMap (find (put w f)) :=
              List.mem_filterMap.mpr ⟨g.id, hin, hfind⟩
            have := hall g hmem
            cases hvg : validateFeature O false (put w f) g with
            | none => simp [hvg] at this
            | some p =>
              obtain ⟨b, g'⟩ := p
              simp only [hvg, Option.map_some, Option.some.injEq] at this
              subst this
              exact validate_valid hvg
          · have hreads := not_in_closed hcl hgw hin
            apply valid_put _ _ (hv g hgw)
            · intro refs hgeo hmem
              exact (hreads f.id (by simp [refsOf, hgeo, hmem, isInline, hfid])).1 rfl
            · intro polys hgeo pid hpid
              have hr := hreads pid (by simp only [refsOf, hgeo]; exact hpid)
              refine ⟨hr.1, ?_⟩
              intro i refs hfind
              obtain ⟨hpm, hpi⟩ := find_some_mem hfind
              simp only at hpi
              have hreads2 := not_in_closed hcl hpm (by simp only; rw [hpi]; exact hr.2)
              constructor
              · intro a hh
                by_cases hai : a.1 = 9
                · intro e; exact hfid (by rw [← e]; exact hai)
                · exact (hreads2 a (by simp only [refsOf]; exact List.mem_filter.mpr ⟨head_mem hh, by simp [isInline, hai]⟩)).1
              · intro b hl
                by_cases hai : b.1 = 9
                · intro e; exact hfid (by rw [← e]; exact hai)
                · exact (hreads2 b (by simp only [refsOf]; exact List.mem_filter.mpr ⟨last_mem hl, by simp [isInline, hai]⟩)).1

end B6.Lemmas.ValidateEdits
