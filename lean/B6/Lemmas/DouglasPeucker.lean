import B6.Model.DouglasPeucker
/-!
Helper lemmas for C34 (core Lean only): facts about the scan loop, the glue between the index view
(`points[b]`, `points[b+1 : e-1]`) and the slice view (`seg` with `points = pre ++ seg ++ post`), and the
stack-invariant lemma `core` that the theorems of `Props/C34.lean` are read off from.
-/
namespace B6.Lemmas.DouglasPeucker
open B6.Model.DouglasPeucker

variable {P D : Type}

/-- the index a scan returns is the initial one, or lies in the scanned range -/
theorem scanFrom_range (m : Metric P D) (a b : P) (l : List P) :
    ∀ (i : Nat) (mx : D) (mi : Nat),
      (scanFrom m a b l i mx mi).2 = mi ∨
      (i ≤ (scanFrom m a b l i mx mi).2 ∧ (scanFrom m a b l i mx mi).2 < i + l.length) := by
  induction l with
  | nil => intro i mx mi; left; rfl
  | cons p ps ih =>
    intro i mx mi
    simp only [scanFrom, List.length_cons]
    split
    · rcases ih (i + 1) (m.dist a b p) i with h | h
      · right; omega
      · right; omega
    · rcases ih (i + 1) mx mi with h | h
      · left; exact h
      · right; omega

/-- Go's `maxi` when the scan is run on absolute indices `i + k` instead of slice-relative `i`:
`0` ("nothing selected") stays `0`, a selected index is shifted. -/
def shift (k x : Nat) : Nat := if x = 0 then 0 else x + k

theorem scanFrom_shift (m : Metric P D) (a b : P) (k : Nat) (l : List P) :
    ∀ (i : Nat) (mx : D) (mi : Nat), 0 < i →
      scanFrom m a b l (i + k) mx (shift k mi) =
        ((scanFrom m a b l i mx mi).1, shift k (scanFrom m a b l i mx mi).2) := by
  induction l with
  | nil => intro i mx mi _; rfl
  | cons p ps ih =>
    intro i mx mi hi
    simp only [scanFrom]
    split
    · have h := ih (i + 1) (m.dist a b p) i (by omega)
      have e1 : shift k i = i + k := by simp [shift]; omega
      rw [e1] at h
      have e2 : i + 1 + k = i + k + 1 := by omega
      rw [e2] at h
      exact h
    · have h := ih (i + 1) mx mi (by omega)
      have e2 : i + 1 + k = i + k + 1 := by omega
      rw [e2] at h
      exact h

theorem shift_pos (k x : Nat) : decide (0 < shift k x) = decide (0 < x) := by
  unfold shift
  split
  · next h => subst h; rfl
  · next h =>
    have h1 : 0 < x + k := by omega
    have h2 : 0 < x := by omega
    simp [h1, h2]

/-! ### glue: index view vs slice view -/

theorem getElem?_pre (pre seg post : List P) (a : P) (h : seg.head? = some a) :
    (pre ++ seg ++ post)[pre.length]? = some a := by
  cases seg with
  | nil => simp at h
  | cons x xs =>
    simp at h
    subst h
    simp [List.append_assoc]

theorem getElem?_last (pre seg post : List P) (z : P) (h : seg.getLast? = some z) :
    (pre ++ seg ++ post)[pre.length + seg.length - 1]? = some z := by
  have hne : seg ≠ [] := by intro e; subst e; simp at h
  have hl : 0 < seg.length := List.length_pos_iff.mpr hne
  rw [List.getLast?_eq_getElem?] at h
  rw [List.append_assoc, List.getElem?_append_right (by omega)]
  rw [List.getElem?_append_left (by omega)]
  have : pre.length + seg.length - 1 - pre.length = seg.length - 1 := by omega
  rw [this]; exact h

theorem slice_interior (pre post : List P) (a : P) (rest : List P) :
    slice (pre ++ (a :: rest) ++ post) (pre.length + 1) (pre.length + (a :: rest).length - 1)
      = rest.dropLast := by
  unfold slice
  have h1 : (pre ++ (a :: rest) ++ post).drop (pre.length + 1) = rest ++ post := by
    have : pre ++ (a :: rest) ++ post = (pre ++ [a]) ++ (rest ++ post) := by simp
    rw [this, List.drop_append]
    simp
  rw [h1]
  have h2 : pre.length + (a :: rest).length - 1 - (pre.length + 1) = rest.length - 1 := by
    simp only [List.length_cons]; omega
  rw [h2, List.take_append_of_le_length (by omega), List.dropLast_eq_take]

/-- the loop's scan of interval `[b, b+|seg|)` is the reference's scan of the slice, shifted by `b` -/
theorem iterScan_eq (m : Metric P D) (pre seg post : List P) (hne : seg ≠ []) :
    iterScan m (pre ++ seg ++ post) pre.length (pre.length + seg.length)
      = some ((refScan m seg).1, shift pre.length (refScan m seg).2) := by
  cases seg with
  | nil => exact absurd rfl hne
  | cons a rest =>
    cases hr : rest.getLast? with
    | none =>
      have : rest = [] := by simpa using hr
      subst this
      have hc : ¬ (pre.length + 1 < pre.length + [a].length - 1) := by
        simp only [List.length_cons, List.length_nil]; omega
      simp only [iterScan, hc, if_false, refScan, List.getLast?_nil, shift, if_true]
    | some z =>
      have hrne : rest ≠ [] := by intro e; subst e; simp at hr
      have hrl : 0 < rest.length := List.length_pos_iff.mpr hrne
      by_cases h2 : rest.length = 1
      · -- two points: no interior
        have hd : rest.dropLast = [] := by
          apply List.eq_nil_of_length_eq_zero; simp [h2]
        have hc : ¬ (pre.length + 1 < pre.length + (a :: rest).length - 1) := by
          simp only [List.length_cons]; omega
        simp only [iterScan, hc, if_false, refScan, hr, hd, scanFrom, shift, if_true]
      · have hc : pre.length + 1 < pre.length + (a :: rest).length - 1 := by
          simp only [List.length_cons]; omega
        have ha : (pre ++ (a :: rest) ++ post)[pre.length]? = some a :=
          getElem?_pre pre (a :: rest) post a (by simp)
        have hz : (pre ++ (a :: rest) ++ post)[pre.length + (a :: rest).length - 1]? = some z := by
          apply getElem?_last
          cases rest with
          | nil => exact absurd rfl hrne
          | cons r rs => simpa [List.getLast?_cons_cons] using hr
        simp only [iterScan, hc, if_true, ha, hz, slice_interior, refScan, hr]
        have hs := scanFrom_shift m a z pre.length rest.dropLast 1 m.zero 0 (by omega)
        have e0 : shift pre.length 0 = 0 := by simp [shift]
        rw [e0, Nat.add_comm 1 pre.length] at hs
        rw [hs]

/-- facts about the reference scan of a non-empty slice: a selected index is interior -/
theorem refScan_range (m : Metric P D) (seg : List P) :
    (refScan m seg).2 = 0 ∨ (1 ≤ (refScan m seg).2 ∧ (refScan m seg).2 + 2 ≤ seg.length) := by
  cases seg with
  | nil => left; rfl
  | cons a rest =>
    simp only [refScan]
    cases hr : rest.getLast? with
    | none => left; rfl
    | some z =>
      simp only []
      rcases scanFrom_range m a z rest.dropLast 1 m.zero 0 with h | h
      · left; exact h
      · right
        simp only [List.length_dropLast, List.length_cons] at h ⊢
        omega

/-- What one stack entry `[b, b+n)` stands for.  `L` = the points the loop emits while that entry and
everything it pushes is worked off (`c` iterations); the reference on the same slice returns `L` followed
by the slice's last point. -/
structure Entry (m : Metric P D) (eps : D) (pts seg : List P) (b : Nat) (L : List P) (z : P) (c : Nat) : Prop where
  last : seg.getLast? = some z
  ref : ∀ f, seg.length ≤ f → refF m eps f seg = .ok (L ++ [z])
  cost : c + 1 ≤ 2 * seg.length
  loop : ∀ f st out, loopF m pts eps (f + c) ((b, b + seg.length) :: st) out = loopF m pts eps f st (out ++ L)
  head : L.head? = seg.head?
  sub : 2 ≤ seg.length → L.Sublist seg.dropLast
  one : seg.length = 1 → L = seg

/-- **Stack invariant.** Every stack entry `[b, b+|seg|)` of the loop (with `points = pre ++ seg ++ post`,
`b = |pre|`) is worked off in at most `2·|seg| − 1` iterations, leaves the rest of the stack untouched, and
appends to the output exactly what the recursive reference returns for `seg`, minus its last point. -/
theorem core (m : Metric P D) (eps : D) :
    ∀ (n : Nat) (seg pre post : List P), seg.length = n → seg ≠ [] →
      ∃ (L : List P) (z : P) (c : Nat), Entry m eps (pre ++ seg ++ post) seg pre.length L z c := by
  intro n
  induction n using Nat.strongRecOn with
  | _ n ih =>
    intro seg pre post hn hne
    have hpos : 0 < seg.length := List.length_pos_iff.mpr hne
    obtain ⟨a, ha⟩ : ∃ a, seg.head? = some a := by
      cases seg with
      | nil => exact absurd rfl hne
      | cons x xs => exact ⟨x, rfl⟩
    obtain ⟨z, hz⟩ : ∃ z, seg.getLast? = some z := by
      cases h : seg.getLast? with
      | none => exact absurd (List.getLast?_eq_none_iff.mp h) hne
      | some z => exact ⟨z, rfl⟩
    have hscan := iterScan_eq m pre seg post hne
    by_cases hsplit : (0 < (refScan m seg).2 && m.gt (refScan m seg).1 eps) = true
    · -- split at k = maxi
      have hk0 : 0 < (refScan m seg).2 := by
        simp only [Bool.and_eq_true, decide_eq_true_eq] at hsplit; exact hsplit.1
      have hkr : 1 ≤ (refScan m seg).2 ∧ (refScan m seg).2 + 2 ≤ seg.length := by
        rcases refScan_range m seg with h | h
        · omega
        · exact h
      generalize hk : (refScan m seg).2 = k at *
      have hl1 : (seg.take k).length = k := by rw [List.length_take]; omega
      have hl2 : (seg.drop k).length = n - k := by rw [List.length_drop]; omega
      have hne1 : seg.take k ≠ [] := by
        intro e; rw [e] at hl1; simp at hl1; omega
      have hne2 : seg.drop k ≠ [] := by
        intro e; rw [e] at hl2; simp at hl2; omega
      obtain ⟨L1, z1, c1, E1⟩ := ih k (by omega) (seg.take k) pre (seg.drop k ++ post) hl1 hne1
      obtain ⟨L2, z2, c2, E2⟩ := ih (n - k) (by omega) (seg.drop k) (pre ++ seg.take k) post hl2 hne2
      have hp1 : pre ++ seg.take k ++ (seg.drop k ++ post) = pre ++ seg ++ post := by
        rw [List.append_assoc pre, ← List.append_assoc (seg.take k), List.take_append_drop,
          List.append_assoc]
      have hp2 : pre ++ seg.take k ++ seg.drop k ++ post = pre ++ seg ++ post := by
        rw [List.append_assoc pre, List.take_append_drop]
      rw [hp1] at E1
      rw [hp2] at E2
      have hz2 : z2 = z := by
        have := E2.last
        rw [List.getLast?_drop] at this
        have hlt : ¬ seg.length ≤ k := by omega
        simp only [hlt, if_false] at this
        rw [hz] at this
        exact (Option.some.inj this).symm
      subst hz2
      have hL1ne : L1 ≠ [] := by
        intro e
        have := E1.head
        rw [e, List.head?_take] at this
        have hk' : k ≠ 0 := by omega
        simp only [hk', if_false, ha] at this
        cases this
      refine ⟨L1 ++ L2, z2, c1 + c2 + 1, ?_⟩
      constructor
      · exact hz
      · intro f hf
        cases f with
        | zero => omega
        | succ f =>
          have r1 := E1.ref f (by omega)
          have r2 := E2.ref f (by omega)
          simp only [refF, hk, hsplit, if_true, r1, r2]
          simp
      · have := E1.cost; have := E2.cost; omega
      · intro f st out
        have e1 : f + (c1 + c2 + 1) = (f + c2 + c1) + 1 := by omega
        rw [e1]
        simp only [loopF, hscan]
        have hs' : (0 < shift pre.length k && m.gt (refScan m seg).1 eps) = true := by
          rw [shift_pos]; exact hsplit
        simp only [hs', if_true]
        have hsh : shift pre.length k = pre.length + k := by
          unfold shift
          have hk' : k ≠ 0 := by omega
          simp only [hk', if_false]; omega
        rw [hsh]
        have l1 := E1.loop (f + c2) ((pre.length + k, pre.length + seg.length) :: st) out
        rw [hl1] at l1
        rw [l1]
        have l2 := E2.loop f st (out ++ L1)
        simp only [List.length_append, hl1, hl2] at l2
        have e2 : pre.length + k + (n - k) = pre.length + seg.length := by omega
        rw [e2] at l2
        rw [l2]; simp only [List.append_assoc]
      · have := E1.head
        rw [List.head?_take] at this
        have hk' : k ≠ 0 := by omega
        simp only [hk', if_false] at this
        cases L1 with
        | nil => exact absurd rfl hL1ne
        | cons x xs => simpa using this
      · intro _
        have s1 : L1.Sublist (seg.take k) := by
          by_cases hk1 : k = 1
          · have := E1.one (by omega); rw [this]; exact List.Sublist.refl _
          · exact (E1.sub (by omega)).trans (List.dropLast_sublist _)
        have s2 : L2.Sublist (seg.drop k).dropLast := E2.sub (by omega)
        have hd : seg.dropLast = seg.take k ++ (seg.drop k).dropLast := by
          rw [← List.dropLast_append_of_ne_nil hne2, List.take_append_drop]
        rw [hd]
        exact List.Sublist.append s1 s2
      · intro h1; omega
    · -- leaf: emit points[b]
      refine ⟨[a], z, 1, ?_⟩
      have hb : (pre ++ seg ++ post)[pre.length]? = some a := getElem?_pre pre seg post a ha
      constructor
      · exact hz
      · intro f hf
        cases f with
        | zero => omega
        | succ f =>
          simp only [refF, hsplit, ha, hz]
          simp
      · omega
      · intro f st out
        have hs' : ¬ (0 < shift pre.length (refScan m seg).2 && m.gt (refScan m seg).1 eps) = true := by
          rw [shift_pos]; exact hsplit
        simp only [loopF, hscan, hs', hb]
        simp
      · simp [ha]
      · intro h2
        cases seg with
        | nil => exact absurd rfl hne
        | cons x xs =>
          simp at ha; subst ha
          cases xs with
          | nil => simp at h2
          | cons y ys => simp [List.dropLast]
      · intro h1
        cases seg with
        | nil => exact absurd rfl hne
        | cons x xs =>
          simp at ha; subst ha
          cases xs with
          | nil => rfl
          | cons y ys => simp at h1

end B6.Lemmas.DouglasPeucker
