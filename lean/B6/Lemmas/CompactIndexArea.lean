import B6.Lemmas.CompactIndexRecords
/-!
# C01 lemmas, part 3: the area record

The writer flattens the polygons of an area and records where each one starts (`bounds`, `refStarts`); the
reader cuts the flat list at those boundaries (`splitAt`).  Three geometry encodings: path references only,
explicit loops only, mixed.
-/
namespace B6.Model.CompactIndex
open B6.Model.Varint B6.Model.Records
open B6.Model.Bits (combineTypeNs splitTypeNs)

/-! ## boundaries -/

theorem splitAt_bounds {α : Type} : ∀ (ls : List (List α)) (pre : List α), ls ≠ [] →
    splitAt (pre ++ ls.flatten) pre.length (bounds pre.length ls) = ls := by
  intro ls
  induction ls with
  | nil => intro pre h; exact absurd rfl h
  | cons l rest ih =>
    intro pre _
    cases rest with
    | nil => simp [bounds, splitAt]
    | cons l' rest' =>
      have hih := ih (pre ++ l) (by simp)
      simp only [bounds, splitAt, List.flatten_cons]
      congr 1
      · simp
      · simp only [List.length_append, List.flatten_cons, List.append_assoc] at hih
        exact hih

theorem refStarts_pos {α : Type} : ∀ (ls : List (List α)) (s : Nat), 0 < s →
    refStarts s ls = match ls with
      | [] => []
      | _ :: _ => s :: bounds s ls := by
  intro ls
  induction ls with
  | nil => intro s _; rfl
  | cons l rest ih =>
    intro s hs
    simp only [refStarts, hs, if_true]
    have := ih (s + l.length) (by omega)
    cases rest with
    | nil => simp [refStarts, bounds]
    | cons l' rest' => simp only [this, bounds, List.singleton_append]

/-- with a non-empty first polygon the recorded starts are exactly the boundaries -/
theorem refStarts_zero {α : Type} (l : List α) (rest : List (List α)) (hl : l ≠ []) :
    refStarts 0 (l :: rest) = bounds 0 (l :: rest) := by
  have hpos : 0 < l.length := List.length_pos_iff.mpr hl
  simp only [refStarts, Nat.lt_irrefl, if_false, List.nil_append, Nat.zero_add]
  rw [refStarts_pos rest l.length hpos]
  cases rest with
  | nil => simp [bounds]
  | cons l' rest' => simp [bounds]

theorem bounds_le {α : Type} : ∀ (ls : List (List α)) (s : Nat), ∀ b ∈ bounds s ls, b ≤ s + ls.flatten.length := by
  intro ls
  induction ls with
  | nil => intro s b hb; simp [bounds] at hb
  | cons l rest ih =>
    intro s b hb
    cases rest with
    | nil => simp [bounds] at hb
    | cons l' rest' =>
      simp only [bounds, List.mem_cons] at hb
      rcases hb with rfl | hb
      · simp only [List.flatten_cons, List.length_append]; omega
      · have := ih (s + l.length) b hb
        simp only [List.flatten_cons, List.length_append] at this ⊢
        omega

theorem map_ofNat_toNat (xs : List Nat) (h : ∀ x ∈ xs, x < 2 ^ 64) :
    (xs.map (BitVec.ofNat 64)).map (·.toNat) = xs := by
  induction xs with
  | nil => rfl
  | cons x xs ih =>
    have hx := h x (by simp)
    simp only [List.map_cons, BitVec.toNat_ofNat, Nat.mod_eq_of_lt hx]
    rw [ih (fun y hy => h y (by simp [hy]))]

/-- the loops of an explicit polygon survive flattening and cutting -/
theorem splitLoops_polygonLL (ls : List (List LatLng)) (hne : ls ≠ []) (hsz : ls.flatten.length < 2 ^ 64) :
    splitLoops ((polygonLL ls).loops.map (·.toNat)) (polygonLL ls).points = ls := by
  simp only [polygonLL, splitLoops]
  rw [map_ofNat_toNat _ (fun b hb => by have := bounds_le ls 0 b hb; omega)]
  simpa using splitAt_bounds ls [] hne

/-! ## references of a polygon -/

theorem refsOf_back (c : Ctx) (hc : CtxOK c) (ids : List FID) (hids : ∀ id ∈ ids, id.typ < 8) (rs : List Reference)
    (h : refsOf c ids = .ok rs) : rs.mapM (unRef c.nt) = some ids := by
  refine mapM_inverse_except _ _ ids rs ?_ h
  intro id hid r hr
  rw [orPanic_ok] at hr
  exact unRef_mkRef c.nt hc.nt.small id (hids id hid) r hr

theorem mapM_except_length {α β ε : Type} (f : α → Except ε β) :
    ∀ (xs : List α) (ys : List β), xs.mapM f = .ok ys → ys.length = xs.length := by
  intro xs
  induction xs with
  | nil => intro ys h; simp [List.mapM_nil, pure, Except.pure] at h; subst h; rfl
  | cons x xs ih =>
    intro ys h
    rw [List.mapM_cons] at h
    cases hx : f x with
    | error e => simp [hx, bind, Except.bind] at h
    | ok y =>
      cases hxs : xs.mapM f with
      | error e => simp [hx, hxs, bind, Except.bind] at h
      | ok ys' =>
        simp [hx, hxs, bind, Except.bind, pure, Except.pure] at h
        subst h
        simp [ih ys' hxs]

/-! ## the three geometry encodings -/

/-- what the round trip needs of one polygon: a non-empty list of ids whose types fit, or loops of a size a
Go slice can have -/
def polyOK : Poly → Prop
  | .paths ids => ids ≠ [] ∧ ∀ id ∈ ids, id.typ < 8
  | .loops ls => ls.flatten.length < 2 ^ 64

theorem canon_loops (ls : List (List LatLng)) (hsz : ls.flatten.length < 2 ^ 64) (hv : polygonValid (polygonLL ls) = true) :
    Poly.loops (splitLoops ((polygonLL ls).loops.map (·.toNat)) (polygonLL ls).points) = Poly.loops ls := by
  have hne : ls ≠ [] := by
    intro h; subst h
    simp [polygonValid, polygonLL] at hv
  rw [splitLoops_polygonLL ls hne hsz]

theorem latlngs_case : ∀ (ps : List Poly), (∀ p ∈ ps, (pathsOf p).isSome = false) → (∀ p ∈ ps, polyOK p) →
    ((((ps.filterMap loopsOf).map polygonLL).filter polygonValid).map fun q =>
      Poly.loops (splitLoops (q.loops.map (·.toNat)) q.points)) = canonPolys ps := by
  intro ps
  induction ps with
  | nil => intro _ _; rfl
  | cons p ps ih =>
    intro hall hok
    have ih' := ih (fun q hq => hall q (by simp [hq])) (fun q hq => hok q (by simp [hq]))
    cases p with
    | paths ids => have := hall (.paths ids) (by simp); simp [pathsOf] at this
    | loops ls =>
      have hsz : ls.flatten.length < 2 ^ 64 := hok (.loops ls) (by simp)
      simp only [List.filterMap_cons, loopsOf, List.map_cons, List.filter_cons, canonPolys]
      by_cases hv : polygonValid (polygonLL ls) = true
      · have hv' : decide (2 < ls.flatten.length) = true := by simpa [polygonValid, polygonLL] using hv
        simp only [hv, if_true, List.map_cons, hv', canon_loops ls hsz hv]
        congr 1
      · have hv' : decide (2 < ls.flatten.length) = false := by
          simpa [polygonValid, polygonLL] using hv
        simp only [hv, Bool.false_eq_true, if_false, hv']
        exact ih'

theorem paths_only : ∀ (ps : List Poly), (∀ p ∈ ps, (loopsOf p).isSome = false) →
    (ps.filterMap pathsOf).map Poly.paths = ps ∧ canonPolys ps = ps := by
  intro ps
  induction ps with
  | nil => intro _; exact ⟨rfl, rfl⟩
  | cons p ps ih =>
    intro hall
    have ⟨h1, h2⟩ := ih (fun q hq => hall q (by simp [hq]))
    cases p with
    | loops ls => have := hall (.loops ls) (by simp); simp [loopsOf] at this
    | paths ids =>
      refine ⟨by simp [pathsOf, h1], ?_⟩
      have : canonPolys (Poly.paths ids :: ps) = Poly.paths ids :: canonPolys ps := by
        simp [canonPolys]
      rw [this, h2]

theorem mixed_case (c : Ctx) (hc : CtxOK c) : ∀ (ps : List Poly) (qs : List (Option PolygonMixed)),
    (∀ p ∈ ps, polyOK p) → ps.mapM (mixedF c) = .ok qs →
    (qs.filterMap id).mapM (mixedD c.nt) = some (canonPolys ps) ∧ ∀ q ∈ qs.filterMap id, q.canonical = true := by
  intro ps
  induction ps with
  | nil =>
    intro qs _ h
    simp [List.mapM_nil, pure, Except.pure] at h
    subst h
    exact ⟨rfl, by simp⟩
  | cons p ps ih =>
    intro qs hok h
    rw [List.mapM_cons] at h
    cases hp : mixedF c p with
    | error e => simp [hp, bind, Except.bind] at h
    | ok q =>
      cases hps : ps.mapM (mixedF c) with
      | error e => simp [hp, hps, bind, Except.bind] at h
      | ok qs' =>
        simp [hp, hps, bind, Except.bind, pure, Except.pure] at h
        subst h
        have ⟨ih1, ih2⟩ := ih qs' (fun x hx => hok x (by simp [hx])) hps
        cases p with
        | paths ids =>
          have ⟨hne, htyp⟩ : ids ≠ [] ∧ ∀ id ∈ ids, id.typ < 8 := hok (.paths ids) (by simp)
          simp only [mixedF] at hp
          cases hrs : refsOf c ids with
          | error e => simp [hrs, bind, Except.bind] at hp
          | ok rs =>
            simp [hrs, bind, Except.bind, pure, Except.pure] at hp
            subst hp
            have hlen := mapM_except_length _ ids rs hrs
            have hrne : rs.isEmpty = false := by
              cases rs with
              | nil => simp at hlen; exact absurd (List.eq_nil_of_length_eq_zero hlen.symm) hne
              | cons r rs => rfl
            have hback := refsOf_back c hc ids htyp rs hrs
            have hkeep : canonPolys (Poly.paths ids :: ps) = Poly.paths ids :: canonPolys ps := by simp [canonPolys]
            constructor
            · simp only [List.filterMap_cons, id, List.mapM_cons, mixedD, hrne, Bool.false_eq_true, if_false,
                polyOfRefs, hback, Option.map_some, ih1, hkeep]
              rfl
            · intro q hq
              simp only [List.filterMap_cons, id, List.mem_cons] at hq
              rcases hq with rfl | hq
              · simp [PolygonMixed.canonical]
              · exact ih2 q hq
        | loops ls =>
          have hsz : ls.flatten.length < 2 ^ 64 := hok (.loops ls) (by simp)
          simp only [mixedF, pure, Except.pure, Except.ok.injEq] at hp
          by_cases hv : polygonValid (polygonLL ls) = true
          · simp only [hv, if_true] at hp
            subst hp
            have hv' : decide (2 < ls.flatten.length) = true := by simpa [polygonValid, polygonLL] using hv
            have hkeep : canonPolys (Poly.loops ls :: ps) = Poly.loops ls :: canonPolys ps := by
              simp only [canonPolys, List.filter_cons, hv', if_true]
            constructor
            · simp only [List.filterMap_cons, id, List.mapM_cons, mixedD, List.isEmpty_nil, if_true,
                canon_loops ls hsz hv, ih1, hkeep]
              rfl
            · intro q hq
              simp only [List.filterMap_cons, id, List.mem_cons] at hq
              rcases hq with rfl | hq
              · simp [PolygonMixed.canonical]
              · exact ih2 q hq
          · simp only [hv, Bool.false_eq_true, if_false] at hp
            subst hp
            have hv' : decide (2 < ls.flatten.length) = false := by simpa [polygonValid, polygonLL] using hv
            have hdrop : canonPolys (Poly.loops ls :: ps) = canonPolys ps := by
              simp only [canonPolys, List.filter_cons, hv', Bool.false_eq_true, if_false]
            constructor
            · simp only [List.filterMap_cons, id, hdrop]
              exact ih1
            · intro q hq
              simp only [List.filterMap_cons, id] at hq
              exact ih2 q hq

/-- **the geometry of an area**: path ids / explicit loops / both, whatever the mixture -/
theorem areaGeometry_roundtrip (c : Ctx) (hc : CtxOK c) (a : Feature) (hok : ∀ p ∈ a.polys, polyOK p)
    (hsize : (a.polys.filterMap pathsOf).flatten.length < 2 ^ 64)
    (g : AreaGeometry) (h : areaGeometry c a = .ok g) :
    polysOfGeometry c.nt g = some (canonPolys a.polys) ∧ g.canonical = true := by
  unfold areaGeometry at h
  simp only at h
  split at h
  · -- mixed
    rename_i hrl
    cases hqs : a.polys.mapM (mixedF c) with
    | error e => simp [hqs, bind, Except.bind] at h
    | ok qs =>
      simp [hqs, bind, Except.bind, pure, Except.pure] at h
      subst h
      have ⟨h1, h2⟩ := mixed_case c hc a.polys qs hok hqs
      refine ⟨?_, by
        simp only [AreaGeometry.canonical, List.all_eq_true]
        exact h2⟩
      simp only [polysOfGeometry]
      exact h1
  · split at h
    · -- references only
      rename_i hrl hr
      have hl : (a.polys.any fun p => (loopsOf p).isSome) = false := by
        cases hh : (a.polys.any fun p => (loopsOf p).isSome) with
        | false => rfl
        | true => simp [hr, hh] at hrl
      have hall : ∀ p ∈ a.polys, (loopsOf p).isSome = false := by
        intro p hp
        cases hh : (loopsOf p).isSome with
        | false => rfl
        | true =>
          have : (a.polys.any fun p => (loopsOf p).isSome) = true := List.any_eq_true.mpr ⟨p, hp, hh⟩
          simp [this] at hl
      have ⟨hmap, hcanon⟩ := paths_only a.polys hall
      cases hrs : refsOf c (a.polys.filterMap pathsOf).flatten with
      | error e => simp [hrs, bind, Except.bind] at h
      | ok rs =>
        simp [hrs, bind, Except.bind, pure, Except.pure] at h
        subst h
        refine ⟨?_, rfl⟩
        -- the id lists are non-empty and their types fit
        have hlists : ∀ ids ∈ a.polys.filterMap pathsOf, ids ≠ [] ∧ ∀ id ∈ ids, id.typ < 8 := by
          intro ids hids
          simp only [List.mem_filterMap] at hids
          obtain ⟨p, hp, hpi⟩ := hids
          cases p with
          | loops ls => simp [pathsOf] at hpi
          | paths ids' =>
            simp only [pathsOf, Option.some.injEq] at hpi
            subst hpi
            exact hok _ hp
        have htyp : ∀ id ∈ (a.polys.filterMap pathsOf).flatten, id.typ < 8 := by
          intro id hid
          simp only [List.mem_flatten] at hid
          obtain ⟨ids, hids, hid⟩ := hid
          exact (hlists ids hids).2 id hid
        have hback := refsOf_back c hc _ htyp rs hrs
        -- there is at least one polygon
        obtain ⟨p0, hp0, hp0s⟩ := List.any_eq_true.mp hr
        cases hil : a.polys.filterMap pathsOf with
        | nil =>
          exfalso
          cases p0 with
          | loops ls => simp [pathsOf] at hp0s
          | paths ids =>
            have : ids ∈ a.polys.filterMap pathsOf := List.mem_filterMap.mpr ⟨_, hp0, rfl⟩
            simp [hil] at this
        | cons l rest =>
          have hl1 : l ≠ [] := (hlists l (by simp [hil])).1
          have hstarts : refStarts 0 (l :: rest) = bounds 0 (l :: rest) := refStarts_zero l rest hl1
          have hsz : ∀ b ∈ bounds 0 (l :: rest), b < 2 ^ 64 := by
            intro b hb
            have := bounds_le (l :: rest) 0 b hb
            rw [hil] at hsize
            omega
          simp only [polysOfGeometry, hil] at hback ⊢
          rw [hback]
          simp only [Option.map_some, hstarts, map_ofNat_toNat _ hsz]
          have := splitAt_bounds (l :: rest) [] (by simp)
          simp only [List.nil_append, List.length_nil] at this
          rw [this, ← hil, hmap, hcanon]
    · -- explicit loops only
      rename_i hrl hr
      simp only [pure, Except.pure, Except.ok.injEq] at h
      subst h
      have hall : ∀ p ∈ a.polys, (pathsOf p).isSome = false := by
        intro p hp
        cases hh : (pathsOf p).isSome with
        | false => rfl
        | true =>
          have : (a.polys.any fun p => (pathsOf p).isSome) = true := List.any_eq_true.mpr ⟨p, hp, hh⟩
          simp [this] at hr
      refine ⟨?_, rfl⟩
      simp only [polysOfGeometry]
      rw [latlngs_case a.polys hall hok]

/-- the area block header differs from the OSM namespaces in the area entry only, which no field of the area
record is marshalled against -/
theorem area_dec_header (c : Ctx) (n : Nat) : Area.dec (blockHeader c 2 n) = Area.dec c.osm := rfl

theorem area_record_roundtrip (c : Ctx) (hc : CtxOK c) (fs : List Feature) (g : Feature)
    (hvals : ∀ t ∈ g.tags, t.val.plain = true) (hok : ∀ p ∈ g.polys, polyOK p)
    (hsize : (g.polys.filterMap pathsOf).flatten.length < 2 ^ 64) (data : Bytes)
    (h : areaRecord c fs g = .ok data) (n : Nat) (id : FID) (hid : id.typ = 2) :
    decodeFeature c.strs c.nt (blockHeader c 2 n) id data =
      some { id := id, tags := g.tags, polys := canonPolys g.polys } := by
  unfold areaRecord at h
  cases hts : toCompactTags c g with
  | none => simp [hts, bind, Except.bind] at h
  | some ts =>
    cases hg : areaGeometry c g with
    | error e => simp [hts, hg, bind, Except.bind] at h
    | ok geo =>
      cases hrels : refsOf c (relationsOfMember fs g.id) with
      | error e => simp [hts, hg, hrels, bind, Except.bind] at h
      | ok rels =>
        simp only [hts, hg, hrels, orPanic_some, bind, Except.bind, orPanic_ok] at h
        unfold Area.marshal at h
        split at h
        · rename_i hAok
          simp only [Option.some.injEq] at h
          subst h
          have hAok' := hAok
          simp only [Area.ok, Bool.and_eq_true] at hAok'
          have ⟨hpolys, hgcanon⟩ := areaGeometry_roundtrip c hc g hok hsize geo hg
          have hcanon := toCompactTags_canonical c g ts hts
          have hrt := rt_area c.osm ⟨ts, geo, rels⟩ hAok hcanon hgcanon []
          simp only [List.append_nil] at hrt
          have htags := allTags_roundtrip_plain c hc.strs g hvals ts hts hAok'.1.1 0#16
            (geo.enc (tnPath c.osm) ++ References.enc (tnRelation c.osm) rels)
          unfold decodeFeature
          simp only [hid, area_dec_header, hrt, Option.bind_eq_bind, Option.bind_some]
          simp only [Area.enc, List.append_assoc] at htags ⊢
          rw [htags]
          simp only [Option.bind_some, hpolys]
          rfl
        · simp at h

end B6.Model.CompactIndex
