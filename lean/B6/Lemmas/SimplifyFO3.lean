import B6.Lemmas.SimplifyFO2
import B6.Lemmas.EvalGuards
/-!
C22 `simplify_preserves_lambda_free`, part 3: query building, the induction over `Simplify` on lambda-free
programs (`simplifyBoth_sim`: both the returned tree and the argument tree simulate the input), and
ill-formed closed lambda-free expressions evaluate to an error.
-/
namespace B6.Lemmas.SimplifyFO
open B6.Model B6.Model.Simplify B6.Lemmas.InterpFuel

/-! ### query building; the induction over `Simplify` -/

theorem asStrings_inv : ∀ (args : List Expr) (ss : List String), asStrings args = some ss →
    args = ss.map (fun s => Expr.lit (.str s))
  | [], ss, h => by simp [asStrings] at h; subst h; rfl
  | a :: as, ss, h => by
    cases a with
    | lit l =>
      cases l with
      | str s =>
        simp only [asStrings, Option.map_eq_some_iff] at h
        obtain ⟨rest, hr, rfl⟩ := h
        simp [asStrings_inv as rest hr]
      | int _ => simp [asStrings] at h
      | query _ => simp [asStrings] at h
      | other _ _ => simp [asStrings] at h
    | sym _ => simp [asStrings] at h
    | call _ _ _ => simp [asStrings] at h
    | lam _ _ => simp [asStrings] at h

/-- a call that evaluates, with any fuel ≥ 1, to the query `q` -/
theorem esim_of_value {e : Expr} {q : Query} (h0 : evalWith (applyFn 0) [] e = .error .fuel)
    (h : ∀ k, evalWith (applyFn (k + 1)) [] e = .ok (.query q)) : ESim (.lit (.query q)) e := by
  intro n hne
  cases n with
  | zero => exact absurd h0 hne
  | succ k =>
    rw [h k]
    simp only [evalWith, Lit.toVal, ResSim]
    exact .query rfl

theorem ESim.build {s : String} {args : List Expr} {q : Query} (p : Bool) (h : buildQuery s args = some q) :
    ESim (.lit (.query (simplifyQuery q))) (.call (.sym s) args p) := by
  refine ESim.trans (ESim.litq q) ?_
  unfold buildQuery at h
  split at h
  · rename_i hs
    split at h
    · rename_i a b
      simp only [Bool.or_eq_true, beq_iff_eq] at hs
      rcases hs with rfl | rfl
      · simp only [beq_self_eq_true, if_true, Option.some.injEq] at h
        subst h
        exact esim_of_value rfl (fun _ => rfl)
      · have : ("or" == "and") = false := by decide
        simp only [this, Bool.false_eq_true, if_false, Option.some.injEq] at h
        subst h
        exact esim_of_value rfl (fun _ => rfl)
    · cases h
  · split at h
    · rename_i hs
      simp only [beq_iff_eq] at hs
      subst hs
      split at h
      · rename_i t q0
        simp only [Option.some.injEq] at h
        subst h
        exact esim_of_value rfl (fun _ => rfl)
      · cases h
    · split at h
      · rename_i hs
        simp only [beq_iff_eq] at hs
        subst hs
        cases ha : asStrings args with
        | none => simp [ha] at h
        | some ss =>
          simp only [ha] at h
          split at h
          · rename_i k heq
            simp only [Option.some.injEq] at heq h
            subst heq; subst h
            rw [asStrings_inv args _ ha]
            exact esim_of_value rfl (fun _ => rfl)
          · cases h
      · split at h
        · rename_i hs
          simp only [beq_iff_eq] at hs
          subst hs
          cases ha : asStrings args with
          | none => simp [ha] at h
          | some ss =>
            simp only [ha] at h
            split at h
            · rename_i k v heq
              simp only [Option.some.injEq] at heq h
              subst heq; subst h
              rw [asStrings_inv args _ ha]
              exact esim_of_value rfl (fun _ => rfl)
            · cases h
        · cases h

theorem variadicName_name (b : Builtin) : variadicName b.name = b.variadic.isSome := by
  cases b <;> decide

theorem ofName_name {s : String} {b : Builtin} (h : Builtin.ofName s = some b) : b.name = s := by
  have := List.find?_some (by simpa [Builtin.ofName] using h)
  simpa using this

/-- what the guard of the no-argument rewrite knows about the symbol -/
theorem tableArgcV_pos {s : String} {n : Nat} (h : tableArgcV s = some n) (hn : n > 0) :
    ∃ b, Builtin.ofName s = some b ∧ b.variadic = none ∧ b.arity > 0 := by
  unfold tableArgcV argcOf at h
  cases hc : tableCount s with
  | none => simp [hc] at h
  | some m =>
    simp only [hc, Option.map_some, Option.some.injEq] at h
    cases hvn : variadicName s with
    | true => simp [hvn] at h; omega
    | false =>
      simp only [hvn, Bool.false_eq_true, if_false] at h
      subst h
      simp only [variadicName, Bool.or_eq_false_iff, beq_eq_false_iff_ne, ne_eq] at hvn
      have hc' : tableArgc s = some m := by simpa [tableCount, hvn.1, hvn.2] using hc
      unfold tableArgc at hc'
      cases hb : Builtin.ofName s with
      | none => simp [hb] at hc'
      | some b =>
        simp only [hb, Option.map_some, Option.some.injEq] at hc'
        refine ⟨b, rfl, ?_, by omega⟩
        have h1 := variadicName_name b
        rw [ofName_name hb] at h1
        have h2 : variadicName s = false := by simp [variadicName, hvn.1, hvn.2]
        rw [h2] at h1
        cases hvv : b.variadic with
        | none => rfl
        | some t => simp [hvv] at h1

theorem simpArgs_sim (simp : Expr → Option (Expr × Expr))
    (hs : ∀ e s m, e.lambdaFree = true → simp e = some (s, m) → ESim s e ∧ ESim m e) :
    ∀ (as as' : List Expr), Expr.lambdaFrees as = true → simpArgsWith simp as = some as' → ESims as' as
  | [], as', _, h => by
    simp [simpArgsWith] at h; subst h; exact ESims.nil
  | a :: as, as', hl, h => by
    simp only [Expr.lambdaFrees, Bool.and_eq_true] at hl
    simp only [simpArgsWith] at h
    cases h1 : simp a with
    | none => simp [h1] at h
    | some r =>
      obtain ⟨a', ma⟩ := r
      cases h2 : simpArgsWith simp as with
      | none => simp [h1, h2] at h
      | some rest =>
        simp [h1, h2] at h
        subst h
        exact ESims.cons (hs a a' ma hl.1 h1).1 (simpArgs_sim simp hs as rest hl.2 h2)

theorem simplifyBoth_sim : ∀ (fuel : Nat) (e s m : Expr), e.lambdaFree = true →
    simplifyBoth tableArgcV fuel e = some (s, m) → ESim s e ∧ ESim m e
  | 0, _, _, _, _, h => by simp [simplifyBoth] at h
  | fuel + 1, e, s, m, hl, h => by
    have ih := simplifyBoth_sim fuel
    cases e with
    | sym x => simp [simplifyBoth] at h; obtain ⟨rfl, rfl⟩ := h; exact ⟨ESim.sym x, ESim.sym x⟩
    | lit l =>
      cases l with
      | query q => simp [simplifyBoth] at h; obtain ⟨rfl, rfl⟩ := h; exact ⟨ESim.litq q, ESim.lit _⟩
      | int i => simp [simplifyBoth] at h; obtain ⟨rfl, rfl⟩ := h; exact ⟨ESim.lit _, ESim.lit _⟩
      | str i => simp [simplifyBoth] at h; obtain ⟨rfl, rfl⟩ := h; exact ⟨ESim.lit _, ESim.lit _⟩
      | other k t => simp [simplifyBoth] at h; obtain ⟨rfl, rfl⟩ := h; exact ⟨ESim.lit _, ESim.lit _⟩
    | lam ps b => simp [Expr.lambdaFree] at hl
    | call f args p =>
      simp only [Expr.lambdaFree, Bool.and_eq_true] at hl
      simp only [simplifyBoth, simpCall] at h
      cases h1 : simplifyBoth tableArgcV fuel f with
      | none => simp [h1] at h
      | some r =>
        obtain ⟨f', mf⟩ := r
        cases h2 : simpArgsWith (simplifyBoth tableArgcV fuel) args with
        | none => simp [h1, h2] at h
        | some args' =>
          simp only [h1, h2, Option.map_eq_some_iff] at h
          obtain ⟨s', hp, hs⟩ := h
          injection hs with hs1 hs2
          subst hs1; subst hs2
          obtain ⟨hf1, hf2⟩ := ih f f' mf hl.1 h1
          have ha := simpArgs_sim _ ih args args' hl.2 h2
          have hlf := B6.Lemmas.EvalGuards.simplifyBoth_lambdaFree tableArgcV fuel f f' mf hl.1 h1
          refine ⟨?_, ESim.call p p hf2 ha⟩
          have hF : ESim (pickFunction tableArgcV f f' mf) f := by
            unfold pickFunction
            split
            · exact hf1
            · split
              · exact hf1
              · exact hf2
            · exact hf1
          have hFl := B6.Lemmas.EvalGuards.pickFunction_lambdaFree tableArgcV f f' mf hlf.1 hlf.2
          generalize pickFunction tableArgcV f f' mf = F at hp hF hFl
          have hcall : ESim (.call F args' p) (.call f args p) := ESim.call p p hF ha
          unfold postCall at hp
          split at hp
          · -- [], .sym s
            rename_i x
            split at hp
            · rename_i n hn
              split at hp
              · rename_i hpos
                injection hp with hp; subst hp
                obtain ⟨b, hb, hv, ha⟩ := tableArgcV_pos hn hpos
                exact ESim.trans (ESim.noarg p hb hv ha) hcall
              · injection hp with hp; subst hp; exact hcall
            · injection hp with hp; subst hp; exact hcall
          · simp [Expr.lambdaFree] at hFl
          · rename_i x _
            split at hp
            · rename_i q hq
              injection hp with hp; subst hp
              exact ESim.trans (ESim.build p hq) hcall
            · injection hp with hp; subst hp; exact hcall
          · injection hp with hp; subst hp; exact hcall

/-! a closed lambda-free expression that is not statically well-formed evaluates to an error -/
mutual
  theorem illformed_error (app : Val → List Val → Res Val) : (e : Expr) → e.lambdaFree = true →
      wfAt [] e = false → ∃ err, evalWith app [] e = .error err
    | .sym s, _, hw => by
      simp only [wfAt, List.contains_nil, Bool.false_or] at hw
      cases hb : Builtin.ofName s with
      | none => exact ⟨.error, by simp [evalWith, hb]⟩
      | some b => simp [hb] at hw
    | .lit _, _, hw => by simp [wfAt] at hw
    | .lam _ _, hl, _ => by simp [Expr.lambdaFree] at hl
    | .call f args p, hl, hw => by
      simp only [Expr.lambdaFree, Bool.and_eq_true] at hl
      rw [evalWith_call_nil]
      cases ha : evalArgs app [] args with
      | error e => exact ⟨e, rfl⟩
      | ok vs =>
        simp only
        cases hwa : wfsAt [] args with
        | false =>
          obtain ⟨err, he⟩ := illformeds_error app args hl.2 hwa
          rw [he] at ha; cases ha
        | true =>
          simp only [wfAt, hwa, Bool.true_and] at hw
          cases f with
          | sym s =>
            simp only at hw
            cases hb : Builtin.ofName s with
            | none => exact ⟨.error, by simp [evalWith, hb]⟩
            | some b => simp [hb] at hw
          | lit l => exact ⟨.error, by cases l <;> simp [evalWith, Lit.toVal, Val.isCallable]⟩
          | lam _ _ => simp [Expr.lambdaFree] at hl
          | call g gargs q =>
            obtain ⟨err, he⟩ := illformed_error app (.call g gargs q) hl.1 hw
            exact ⟨err, by rw [he]⟩
  theorem illformeds_error (app : Val → List Val → Res Val) : (as : List Expr) → Expr.lambdaFrees as = true →
      wfsAt [] as = false → ∃ err, evalArgs app [] as = .error err
    | [], _, hw => by simp [wfsAt] at hw
    | a :: as, hl, hw => by
      simp only [Expr.lambdaFrees, Bool.and_eq_true] at hl
      rw [evalArgs]
      cases hwa : wfAt [] a with
      | false =>
        obtain ⟨err, he⟩ := illformed_error app a hl.1 hwa
        exact ⟨err, by rw [he]⟩
      | true =>
        simp only [wfsAt, hwa, Bool.true_and] at hw
        obtain ⟨err, he⟩ := illformeds_error app as hl.2 hw
        cases evalWith app [] a with
        | error e => exact ⟨e, rfl⟩
        | ok v => exact ⟨err, by simp [he]⟩
end

end B6.Lemmas.SimplifyFO
