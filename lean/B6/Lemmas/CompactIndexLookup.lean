import B6.Lemmas.CompactIndexArea
/-!
# C01 lemmas, part 4: routing a lookup to its block and entry

`FindFeatureByID` walks the blocks of the id's type whose header namespace is the encoded namespace of the id and
asks each map for the id.  If exactly one block routes and the id occurs once in it, the lookup returns that
entry — whatever else the index holds.
-/
namespace B6.Model.CompactIndex
open B6.Model.Varint B6.Model.Records
open B6.Model.Containers (Entry)

theorem find?_unique {α : Type} (p : α → Bool) : ∀ (l : List α) (a : α), a ∈ l → p a = true →
    (∀ b ∈ l, p b = true → b = a) → l.find? p = some a := by
  intro l
  induction l with
  | nil => intro a h; simp at h
  | cons x xs ih =>
    intro a hmem hp huniq
    by_cases hx : p x = true
    · have := huniq x (by simp) hx
      subst this
      simp [hx]
    · have hne : a ≠ x := by
        intro h; subst h; exact hx hp
      have hmem' : a ∈ xs := by
        rcases List.mem_cons.mp hmem with h | h
        · exact absurd h hne
        · exact h
      simp only [List.find?_cons, hx]
      exact ih a hmem' hp (fun b hb hpb => huniq b (by simp [hb]) hpb)

/-- what a block must hold for the reader to return entry `e` for feature `id` -/
structure Holds (b : Block) (id : FID) (e : Entry) : Prop where
  mem : e ∈ b.entries
  id_eq : e.id = id.val
  unique : ∀ e' ∈ b.entries, e'.id = id.val → e' = e
  /-- points: not a references-only record; other types: the `NoTag` entry; areas: not empty -/
  tag : if id.typ = 0 then e.tag ≠ 2#64 else e.tag = 0#64
  nonempty : id.typ = 2 → e.data ≠ []

theorem lookup_of_block (ix : Index) (id : FID) (n : Nat) (hn : nsEncode ix.nt id.ns = some n) (b : Block) (e : Entry)
    (hroute : (ix.blocks.filter fun b' => b'.typ == id.typ && nssGet b'.hdr id.typ == ns16 n) = [b])
    (h : Holds b id e) : lookup ix id = some (b, e) := by
  have hff : findFirst b.entries id.val = some e := by
    unfold findFirst
    exact find?_unique _ b.entries e h.mem (by simp [h.id_eq]) (fun e' he' hp => h.unique e' he' (by simpa using hp))
  have htag := h.tag
  -- what the per-block step of `FindFeatureByID` returns for `b`
  have hstep : lookupIn b id = some (b, e) := by
    unfold lookupIn
    by_cases h0 : id.typ = 0
    · simp only [h0, if_true] at htag
      simp [h0, hff, htag]
    · simp only [h0, if_false] at htag
      have hfft : findFirstWithTag b.entries id.val 0#64 = some e := by
        unfold findFirstWithTag
        exact find?_unique _ b.entries e h.mem (by simp [h.id_eq, htag])
          (fun e' he' hp => h.unique e' he' (by
            simp only [Bool.and_eq_true, beq_iff_eq] at hp
            exact hp.1))
      by_cases h2 : id.typ = 2
      · have hne := h.nonempty h2
        simp [h2, hfft, hne]
      · split
        · rename_i heq; exact absurd heq h0
        · rename_i heq; exact absurd heq h2
        · simp [hfft]
  unfold lookup blocksFor
  simp only [hn, hroute, List.findSome?_cons, List.findSome?_nil]
  rw [hstep]

/-- **index level, given the routing**: the answer of `FindFeatureByID` is the reader's view of that entry -/
theorem find_of_block (ix : Index) (id : FID) (n : Nat) (hn : nsEncode ix.nt id.ns = some n) (b : Block) (e : Entry)
    (hroute : (ix.blocks.filter fun b' => b'.typ == id.typ && nssGet b'.hdr id.typ == ns16 n) = [b])
    (h : Holds b id e) : find ix id = some (decodeFeature ix.strs ix.nt b.hdr id e.data) := by
  unfold find
  rw [lookup_of_block ix id n hn b e hroute h]
  rfl

end B6.Model.CompactIndex
