import B6.Lemmas.CompactIndexValues
/-!
# C01 lemmas, part 2: what the reader makes of the record the writer produced (one theorem per feature type)

Writer: `pathRecord` / `areaRecord` / `relationRecord` / the `PointTag` scratch entry (`Tags.enc 0`), marshalled
against `c.osm` (for relations: the header of the destination block).  Reader: `decodeFeature` with the header
of the block the record was found in.  The primaries agree because the block header differs from the OSM
namespaces only in the block's own type, which no record uses for a field other than a relation's relations.
-/
namespace B6.Model.CompactIndex
open B6.Model.Varint B6.Model.Records
open B6.Model.Bits (combineTypeNs splitTypeNs)

@[simp] theorem orPanic_some {α : Type} (w : String) (a : α) : orPanic w (some a) = .ok a := rfl
@[simp] theorem orPanic_none {α : Type} (w : String) : orPanic w (none : Option α) = .error (.panic w) := rfl

theorem orPanic_ok {α : Type} (w : String) (o : Option α) (a : α) : orPanic w o = .ok a ↔ o = some a := by
  cases o <;> simp [orPanic]

/-- `mapM` in `Except` whose element function inverts (in `Option`) -/
theorem mapM_inverse_except {α β ε : Type} (f : α → Except ε β) (g : β → Option α) :
    ∀ (xs : List α) (ys : List β), (∀ x ∈ xs, ∀ y, f x = .ok y → g y = some x) →
      xs.mapM f = .ok ys → ys.mapM g = some xs := by
  intro xs
  induction xs with
  | nil => intro ys _ h; simp [List.mapM_nil, pure, Except.pure] at h; subst h; simp
  | cons x xs ih =>
    intro ys hinv h
    rw [List.mapM_cons] at h
    cases hx : f x with
    | error e => simp [hx, bind, Except.bind] at h
    | ok y =>
      cases hxs : xs.mapM f with
      | error e => simp [hx, hxs, bind, Except.bind] at h
      | ok ys' =>
        simp [hx, hxs, bind, Except.bind, pure, Except.pure] at h
        subst h
        have h1 := hinv x (by simp) y hx
        have h2 := ih ys' (fun x' hx' => hinv x' (by simp [hx'])) hxs
        simp [List.mapM_cons, h1, h2]

theorem mapM_forall_except {α β ε : Type} (f : α → Except ε β) (P : β → Prop) :
    ∀ (xs : List α) (ys : List β), (∀ x ∈ xs, ∀ y, f x = .ok y → P y) → xs.mapM f = .ok ys → ∀ y ∈ ys, P y := by
  intro xs
  induction xs with
  | nil => intro ys _ h; simp [List.mapM_nil, pure, Except.pure] at h; subst h; simp
  | cons x xs ih =>
    intro ys hP h
    rw [List.mapM_cons] at h
    cases hx : f x with
    | error e => simp [hx, bind, Except.bind] at h
    | ok y =>
      cases hxs : xs.mapM f with
      | error e => simp [hx, hxs, bind, Except.bind] at h
      | ok ys' =>
        simp [hx, hxs, bind, Except.bind, pure, Except.pure] at h
        subst h
        intro y' hy'
        rcases List.mem_cons.mp hy' with rfl | hy'
        · exact hP x (by simp) _ hx
        · exact ih ys' (fun x' hx' => hP x' (by simp [hx'])) hxs y' hy'

/-- the reader's primary for path tags is the writer's -/
theorem osm_point (c : Ctx) (hc : CtxOK c) :
    ∃ n, nsEncode c.nt nsOsmNode = some n ∧ combineTypeNs 0#64 (ns16 n) = tnPoint c.osm := by
  have h := hc.osm
  unfold osmNamespaces at h
  cases hn : nsEncode c.nt nsOsmNode with
  | none => simp [hn] at h
  | some n =>
    cases hw : nsEncode c.nt nsOsmWay with
    | none => simp [hn, hw] at h
    | some w =>
      cases hr : nsEncode c.nt nsOsmRel with
      | none => simp [hn, hw, hr] at h
      | some r =>
        simp [hn, hw, hr] at h
        refine ⟨n, rfl, ?_⟩
        rw [← h]
        rfl

/-! ## points -/

/-- every point record starts with the point's tags (`CombinePointAndPath`, `CombinePointAndReferences` copy the
`PointTag` entry first), and that is all `newPhysicalFeatureFromTagged` reads -/
theorem point_record_roundtrip (c : Ctx) (hs : c.strs.length ≤ 2 ^ 64) (f : Feature)
    (hvals : ∀ t ∈ f.tags, t.val.plain = true) (ts : List Tag) (h : toCompactTags c f = some ts)
    (hok : Tags.ok ts = true) (rest : Bytes) (hdr : Namespaces) (id : FID) (hid : id.typ = 0) :
    decodeFeature c.strs c.nt hdr id (Tags.enc 0#16 ts ++ rest) = some { id := id, tags := f.tags } := by
  unfold decodeFeature
  simp only [hid, allTags_roundtrip_plain c hs f hvals ts h hok 0#16 rest, Option.map_some]

/-! ## paths -/

theorem path_record_roundtrip (c : Ctx) (hc : CtxOK c) (fs : List Feature) (g : Feature)
    (hvals : ∀ t ∈ g.tags, t.val.ok = true) (data : Bytes) (h : pathRecord c fs g = .ok data)
    (hdr : Namespaces) (id : FID) (hid : id.typ = 1) :
    decodeFeature c.strs c.nt hdr id data = some { id := id, tags := g.tags } := by
  unfold pathRecord at h
  cases hts : toCompactTags c g with
  | none => simp [hts, bind, Except.bind] at h
  | some ts =>
    cases hareas : refsOf c (areasOfPath fs g.id) with
    | error e => simp [hts, hareas, bind, Except.bind] at h
    | ok areas =>
      cases hrels : refsOf c (relationsOfMember fs g.id) with
      | error e => simp [hts, hareas, hrels, bind, Except.bind] at h
      | ok rels =>
        simp only [hts, hareas, hrels, orPanic_some, bind, Except.bind, orPanic_ok] at h
        unfold Path.marshal at h
        split at h
        · rename_i hok
          simp only [Option.some.injEq] at h
          subst h
          simp only [Path.ok, Bool.and_eq_true] at hok
          obtain ⟨n, hn, htn⟩ := osm_point c hc
          unfold decodeFeature
          simp only [hid, hn, htn, Path.enc, List.append_assoc, Option.bind_eq_bind, Option.bind_some,
            allTags_roundtrip c hc g hvals ts hts hok.1.1 (tnPoint c.osm)]
          rfl
        · simp at h

/-! ## relations -/

/-- the member list of a relation is marshalled with primary = the path namespace of the header -/
theorem memberPrimary_path (n : Namespaces) : memberPrimary n 1#64 = some (tnPath n) := by
  simp [memberPrimary, Namespaces.forType, tnPath]

theorem relation_record_roundtrip (c : Ctx) (hc : CtxOK c) (fs : List Feature) (g : Feature)
    (hvals : ∀ t ∈ g.tags, t.val.plain = true) (hms : ∀ m ∈ g.members, m.id.typ < 4) (data : Bytes)
    (h : relationRecord c fs g = .ok data) (n : Nat) (hn : nsEncode c.nt g.id.ns = some n) (id : FID) (hid : id.typ = 3) :
    decodeFeature c.strs c.nt (blockHeader c 3 n) id data = some { id := id, tags := g.tags, members := g.members } := by
  unfold relationRecord at h
  cases hts : toCompactTags c g with
  | none => simp [hts, bind, Except.bind] at h
  | some ts =>
    generalize hF : (fun (m : FMember) => (do
        let ref ← orPanic "member namespace" (mkRef c.nt m.id)
        let role ← orPanic "role" (strId c.strs m.role)
        pure (⟨BitVec.ofNat 64 m.id.typ, BitVec.ofNat 64 role, ref⟩ : Member) : Except BuildError Member)) = F at h
    cases hmem : g.members.mapM F with
    | error e => simp [hts, hmem, bind, Except.bind] at h
    | ok ms =>
      cases hrels : refsOf c (relationsOfMember fs g.id) with
      | error e => simp [hts, hmem, hrels, bind, Except.bind] at h
      | ok rels =>
        simp only [hts, hmem, hrels, hn, orPanic_some, bind, Except.bind, orPanic_ok] at h
        unfold Relation.marshal at h
        rw [memberPrimary_path] at h
        simp only at h
        split at h
        · rename_i hok
          simp only [Option.some.injEq] at h
          subst h
          have hok' := hok
          simp only [Relation.ok, Bool.and_eq_true] at hok'
          have hcanon := toCompactTags_canonical c g ts hts
          -- every member built by `F` has a type that fits and reads back
          have hFspec : ∀ m ∈ g.members, ∀ y, F m = .ok y →
              y.typeOk = true ∧ (do
                let role ← c.strs[y.role.toNat]?
                let mid ← unRef c.nt y.id
                pure (⟨role, mid⟩ : FMember)) = some m := by
            intro m hm y hy
            subst hF
            cases hr : mkRef c.nt m.id with
            | none => simp [hr, bind, Except.bind] at hy
            | some ref =>
              cases hs : strId c.strs m.role with
              | none => simp [hr, hs, bind, Except.bind] at hy
              | some role =>
                simp [hr, hs, bind, Except.bind, pure, Except.pure] at hy
                subst hy
                have ht := hms m hm
                refine ⟨by simp [Member.typeOk]; omega, ?_⟩
                have hl := strs_lookup c.strs hc.strs m.role role hs
                simp only [hl, unRef_mkRef c.nt hc.nt.small m.id (by omega) ref hr, Option.bind_eq_bind, Option.bind_some]
                rfl
          have htype : ∀ y ∈ ms, y.typeOk = true :=
            mapM_forall_except F (fun y => y.typeOk = true) g.members ms (fun m hm y hy => (hFspec m hm y hy).1) hmem
          have hback := mapM_inverse_except F (fun (y : Member) => (do
                let role ← c.strs[y.role.toNat]?
                let mid ← unRef c.nt y.id
                pure (⟨role, mid⟩ : FMember))) g.members ms (fun m hm y hy => (hFspec m hm y hy).2) hmem
          have hrt := rt_relationWith (tnPath (blockHeader c 3 n)) (blockHeader c 3 n) ⟨ts, ms, rels⟩ hok hcanon []
          simp only [List.append_nil] at hrt
          unfold decodeFeature
          simp only [hid, Relation.dec, memberPrimary_path, hrt, Option.bind_eq_bind, Option.bind_some]
          have htags := allTags_roundtrip_plain c hc.strs g hvals ts hts hok'.1.1 0#16
            (Members.enc (tnPath (blockHeader c 3 n)) ms ++ References.enc (tnRelation (blockHeader c 3 n)) rels)
          simp only [Relation.enc, List.append_assoc] at htags ⊢
          rw [htags]
          simp only [Option.bind_eq_bind] at hback
          simp only [Option.bind_some, hback]
          rfl
        · simp at h

end B6.Model.CompactIndex
