import B6.Model.Osm
/-!
Helper lemmas for C29 (`B6/Props/C29.lean`): the ID sets collected in the first pass, the key mapping
table, `modifyOrAdd`, and the multipolygon assembly loop.
-/
namespace B6.Lemmas.Osm
open B6.Model.Pbf (Element Tag Member MType Fail)
open B6.Model.Osm

theorem u_inj {a b : Int64} (h : u a = u b) : a = b := by
  unfold u at h
  cases a; cases b; simp_all

/-! ### the ID sets -/

theorem collect_areaWays {es : List Element} {s : Sets} (h : collect es = .ok s) (x : UInt64) :
    x ∈ s.areaWays ↔ ∃ id nodes tags, Element.way id nodes tags ∈ es ∧ wayClosed? nodes = some true ∧ u id = x := by
  induction es generalizing s with
  | nil => simp only [collect, Except.ok.injEq] at h; subst h; simp
  | cons e es ih =>
    cases e with
    | node id lat lon tags =>
      simp only [collect] at h
      rw [ih h]
      simp
    | way id nodes tags =>
      simp only [collect] at h
      cases hc : wayClosed? nodes with
      | none => simp [hc] at h
      | some c =>
        simp only [hc] at h
        cases hs : collect es with
        | error e => simp [hs, Except.map] at h
        | ok s' =>
          simp only [hs, Except.map, Except.ok.injEq] at h
          subst h
          have ih' := ih hs
          cases c with
          | true =>
            simp only [if_true, List.mem_cons, ih']
            constructor
            · rintro (rfl | ⟨i, n, t, hm, hcl, hu⟩)
              · exact ⟨id, nodes, tags, by simp, hc, rfl⟩
              · exact ⟨i, n, t, by simp [hm], hcl, hu⟩
            · rintro ⟨i, n, t, hm, hcl, hu⟩
              rcases hm with heq | hm
              · cases heq; exact Or.inl hu.symm
              · exact Or.inr ⟨i, n, t, hm, hcl, hu⟩
          | false =>
            simp only [Bool.false_eq_true, if_false, ih']
            constructor
            · rintro ⟨i, n, t, hm, hcl, hu⟩
              exact ⟨i, n, t, by simp [hm], hcl, hu⟩
            · rintro ⟨i, n, t, hm, hcl, hu⟩
              rcases List.mem_cons.mp hm with heq | hm
              · cases heq; rw [hc] at hcl; cases hcl
              · exact ⟨i, n, t, hm, hcl, hu⟩
    | relation id members tags =>
      simp only [collect] at h
      cases hs : collect es with
      | error e => simp [hs, Except.map] at h
      | ok s' =>
        simp only [hs, Except.map, Except.ok.injEq] at h
        subst h
        have ih' := ih hs
        have : (if isRelationArea tags = true then { s' with areaRels := u id :: s'.areaRels } else s').areaWays = s'.areaWays := by
          split <;> rfl
        rw [this, ih']
        simp

theorem collect_areaRels {es : List Element} {s : Sets} (h : collect es = .ok s) (x : UInt64) :
    x ∈ s.areaRels ↔ ∃ id members tags, Element.relation id members tags ∈ es ∧ isRelationArea tags = true ∧ u id = x := by
  induction es generalizing s with
  | nil => simp only [collect, Except.ok.injEq] at h; subst h; simp
  | cons e es ih =>
    cases e with
    | node id lat lon tags =>
      simp only [collect] at h
      rw [ih h]
      simp
    | way id nodes tags =>
      simp only [collect] at h
      cases hc : wayClosed? nodes with
      | none => simp [hc] at h
      | some c =>
        simp only [hc] at h
        cases hs : collect es with
        | error e => simp [hs, Except.map] at h
        | ok s' =>
          simp only [hs, Except.map, Except.ok.injEq] at h
          subst h
          have ih' := ih hs
          have : (if c = true then { s' with areaWays := u id :: s'.areaWays } else s').areaRels = s'.areaRels := by
            split <;> rfl
          rw [this, ih']
          simp
    | relation id members tags =>
      simp only [collect] at h
      cases hs : collect es with
      | error e => simp [hs, Except.map] at h
      | ok s' =>
        simp only [hs, Except.map, Except.ok.injEq] at h
        subst h
        have ih' := ih hs
        cases ha : isRelationArea tags with
        | true =>
          simp only [if_true, List.mem_cons, ih']
          constructor
          · rintro (rfl | ⟨i, n, t, hm, hcl, hu⟩)
            · exact ⟨id, members, tags, by simp, ha, rfl⟩
            · exact ⟨i, n, t, by simp [hm], hcl, hu⟩
          · rintro ⟨i, n, t, hm, hcl, hu⟩
            rcases hm with heq | hm
            · cases heq; exact Or.inl hu.symm
            · exact Or.inr ⟨i, n, t, hm, hcl, hu⟩
        | false =>
          simp only [Bool.false_eq_true, if_false, ih']
          constructor
          · rintro ⟨i, n, t, hm, hcl, hu⟩
            exact ⟨i, n, t, by simp [hm], hcl, hu⟩
          · rintro ⟨i, n, t, hm, hcl, hu⟩
            rcases List.mem_cons.mp hm with heq | hm
            · cases heq; rw [ha] at hcl; cases hcl
            · exact ⟨i, n, t, hm, hcl, hu⟩

/-- `collect` fails exactly when some way has no nodes -/
theorem collect_ok_iff (es : List Element) :
    (∃ s, collect es = .ok s) ↔ ∀ id nodes tags, Element.way id nodes tags ∈ es → nodes ≠ [] := by
  induction es with
  | nil => simp [collect]
  | cons e es ih =>
    cases e with
    | node id lat lon tags => simp [collect, ih]
    | way id nodes tags =>
      simp only [collect]
      cases nodes with
      | nil =>
        constructor
        · rintro ⟨s, hs⟩; simp [wayClosed?] at hs
        · intro h; exact absurd rfl (h id [] tags (by simp))
      | cons n ns =>
        simp only [wayClosed?]
        constructor
        · rintro ⟨s, hs⟩
          cases hc : collect es with
          | error e => simp [hc, Except.map] at hs
          | ok s' =>
            have := ih.mp ⟨s', hc⟩
            intro i nd t hm
            rcases List.mem_cons.mp hm with heq | hm
            · cases heq; simp
            · exact this i nd t hm
        · intro h
          obtain ⟨s', hs'⟩ := ih.mpr (fun i nd t hm => h i nd t (by simp [hm]))
          rw [hs']; exact ⟨_, rfl⟩
    | relation id members tags =>
      simp only [collect]
      constructor
      · rintro ⟨s, hs⟩
        cases hc : collect es with
        | error e => simp [hc, Except.map] at hs
        | ok s' =>
          have := ih.mp ⟨s', hc⟩
          intro i nd t hm
          rcases List.mem_cons.mp hm with heq | hm
          · cases heq
          · exact this i nd t hm
      · intro h
        obtain ⟨s', hs'⟩ := ih.mpr (fun i nd t hm => h i nd t (by simp [hm]))
        rw [hs']; exact ⟨_, rfl⟩

/-! ### the key mapping -/

/-- the OSM keys that become searchable `#key` tokens -/
def hashKeys : List String := ["amenity", "barrier", "boundary", "bridge", "building", "highway", "landuse", "leisure",
  "natural", "network", "place", "railway", "route", "shop", "tourism", "water", "waterway"]

/-- the OSM keys that become searchable `@key` tokens -/
def atKeys : List String := ["fhrs:id", "wikidata", "wikipedia"]

theorem table_eq :
    osmTagMapping = hashKeys.map (fun k => (k, "#" ++ k)) ++ atKeys.map (fun k => (k, "@" ++ k)) := by
  decide

theorem lookupKey_map_append (k : String) (f : String → String) (ks : List String) (rest : List (String × String)) :
    lookupKey k (ks.map (fun a => (a, f a)) ++ rest) = if k ∈ ks then some (f k) else lookupKey k rest := by
  induction ks with
  | nil => simp
  | cons a ks ih =>
    simp only [List.map_cons, List.cons_append, lookupKey, ih, List.mem_cons]
    by_cases h : a = k
    · subst h; simp
    · have h' : ¬ k = a := fun e => h e.symm
      simp [h, h']

theorem keyForOSMKey_spec (k : String) :
    keyForOSMKey k = if k ∈ hashKeys then "#" ++ k else if k ∈ atKeys then "@" ++ k
      else if k = "point" ∨ k = "path" then "osm:" ++ k else k := by
  unfold keyForOSMKey
  rw [table_eq, lookupKey_map_append]
  by_cases h1 : k ∈ hashKeys
  · simp [h1]
  · have := lookupKey_map_append k (fun k => "@" ++ k) atKeys []
    simp only [List.append_nil] at this
    rw [if_neg h1, if_neg h1, this]
    by_cases h2 : k ∈ atKeys
    · simp [h2]
    · simp only [h2, if_false, lookupKey]

/-- no OSM key lands on one of the two geometry keys -/
theorem keyForOSMKey_not_reserved (k : String) : keyForOSMKey k ≠ "point" ∧ keyForOSMKey k ≠ "path" := by
  rw [keyForOSMKey_spec]
  have hh : ∀ a ∈ hashKeys, "#" ++ a ≠ "point" ∧ "#" ++ a ≠ "path" := by decide
  have ha : ∀ a ∈ atKeys, "@" ++ a ≠ "point" ∧ "@" ++ a ≠ "path" := by decide
  by_cases h1 : k ∈ hashKeys
  · simpa [h1] using hh k h1
  · by_cases h2 : k ∈ atKeys
    · simpa [h1, h2] using ha k h2
    · by_cases h3 : k = "point" ∨ k = "path"
      · rcases h3 with rfl | rfl <;> decide
      · simp only [h1, h2, h3, if_false]
        exact ⟨fun h => h3 (Or.inl h), fun h => h3 (Or.inr h)⟩

/-! ### `modifyOrAdd` and the geometry tags -/

theorem modifyOrAdd_any_ne (k k' : String) (v : Value) (ts : List FTag) (h : k ≠ k') :
    (modifyOrAdd k v ts).any (fun t => t.key = k') = ts.any (fun t => t.key = k') := by
  induction ts with
  | nil => simp [modifyOrAdd, h]
  | cons t ts ih =>
    simp only [modifyOrAdd]
    split
    · rename_i hk
      simp [hk, h]
    · simp [ih]

theorem modifyOrAdd_find (k : String) (v : Value) (ts : List FTag) :
    (modifyOrAdd k v ts).find? (fun t => t.key = k) = some ⟨k, v⟩ := by
  induction ts with
  | nil => simp [modifyOrAdd]
  | cons t ts ih =>
    simp only [modifyOrAdd]
    split
    · simp
    · rename_i hk
      simp [hk, ih]

/-- every tag is kept, except that the first one with key `k` (if any) gets the new value -/
theorem modifyOrAdd_keeps (k : String) (v : Value) (ts : List FTag) (t : FTag) (ht : t ∈ ts) (hk : t.key ≠ k) :
    t ∈ modifyOrAdd k v ts := by
  induction ts with
  | nil => cases ht
  | cons a ts ih =>
    simp only [modifyOrAdd]
    rcases List.mem_cons.mp ht with rfl | ht
    · simp [hk]
    · split
      · exact List.mem_cons_of_mem _ ht
      · exact List.mem_cons_of_mem _ (ih ht)

/-! ### the multipolygon loop -/

/-- the IDs of the way members, in order -/
def wayIds (ms : List Member) : List Int64 := (ms.filter (fun m => m.type = .way)).map (·.id)

theorem assemble_some {aw : List UInt64} {P : List (List Int64)} {L : List Int64} {ms : List Member}
    {R : List (List Int64)} (h : assemble aw P L ms = some R) :
    R.flatten = P.flatten ++ L ++ wayIds ms ∧ ((∀ p ∈ P, p ≠ []) → ∀ p ∈ R, p ≠ []) ∧
    (∀ m ∈ ms, m.type = .way → aw.contains (u m.id) = true) := by
  induction ms generalizing P L with
  | nil =>
    simp only [assemble, Option.some.injEq] at h
    subst h
    refine ⟨?_, ?_, by simp⟩
    · cases L <;> simp [wayIds]
    · intro hP p hp
      cases L with
      | nil => exact hP p (by simpa using hp)
      | cons a l =>
        simp only [List.isEmpty_cons, Bool.false_eq_true, if_false, List.mem_append, List.mem_singleton] at hp
        rcases hp with hp | rfl
        · exact hP p hp
        · simp
  | cons m ms ih =>
    simp only [assemble] at h
    by_cases hw : m.type = .way
    · simp only [hw, if_true] at h
      by_cases hc : aw.contains (u m.id) = true
      · simp only [hc, if_true] at h
        by_cases ho : (m.role = "outer" ∨ m.role = "") ∧ ¬ L.isEmpty = true
        · simp only [ho, and_self, if_true] at h
          obtain ⟨h1, h2, h3⟩ := ih h
          refine ⟨?_, ?_, ?_⟩
          · simp [h1, wayIds, hw]
          · intro hP
            apply h2
            intro p hp
            rcases List.mem_append.mp hp with hp | hp
            · exact hP p hp
            · simp only [List.mem_singleton] at hp
              subst hp
              intro hnil
              exact ho.2 (by simp [hnil])
          · intro m' hm'
            rcases List.mem_cons.mp hm' with rfl | hm'
            · exact fun _ => hc
            · exact h3 m' hm'
        · simp only [ho, if_false] at h
          obtain ⟨h1, h2, h3⟩ := ih h
          refine ⟨by simp [h1, wayIds, hw], h2, ?_⟩
          intro m' hm'
          rcases List.mem_cons.mp hm' with rfl | hm'
          · exact fun _ => hc
          · exact h3 m' hm'
      · rw [if_neg hc] at h; cases h
    · simp only [hw, if_false] at h
      obtain ⟨h1, h2, h3⟩ := ih h
      refine ⟨by simp [h1, wayIds, hw], h2, ?_⟩
      intro m' hm'
      rcases List.mem_cons.mp hm' with rfl | hm'
      · exact fun hway => absurd hway hw
      · exact h3 m' hm'

theorem assemble_none {aw : List UInt64} {P : List (List Int64)} {L : List Int64} {ms : List Member} :
    assemble aw P L ms = none ↔ ∃ m ∈ ms, m.type = .way ∧ aw.contains (u m.id) = false := by
  induction ms generalizing P L with
  | nil => simp [assemble]
  | cons m ms ih =>
    simp only [assemble]
    by_cases hw : m.type = .way
    · by_cases hc : aw.contains (u m.id) = true
      · simp only [hw, hc, if_true, ih, List.mem_cons, exists_eq_or_imp]
        simp [hc]
      · simp only [hw, hc, if_true, Bool.false_eq_true, if_false, true_iff]
        exact ⟨m, by simp, hw, by simpa using hc⟩
    · simp only [hw, if_false, ih, List.mem_cons, exists_eq_or_imp]
      simp [hw]

/-! ### where the polygons are cut -/

/-- a way member with role `outer` or no role starts a new polygon -/
def isOuter (m : Member) : Bool := m.role = "outer" ∨ m.role = ""

/-- the way members cut before every outer member -/
def cut : List Member → List (List Member)
  | [] => []
  | [m] => [[m]]
  | m :: m' :: ms =>
    if isOuter m' then [m] :: cut (m' :: ms)
    else match cut (m' :: ms) with
      | p :: ps => (m :: p) :: ps
      | [] => [[m]]

def ids (ps : List (List Member)) : List (List Int64) := ps.map (·.map (·.id))

/-- the polygons so far, the open loop `L`, and the cut of what is still to come -/
def join (L : List Int64) (W : List Member) : List (List Int64) :=
  match cut W, W with
  | p :: ps, w :: _ =>
    if L.isEmpty then ids (p :: ps) else if isOuter w then L :: ids (p :: ps) else (L ++ p.map (·.id)) :: ids ps
  | _, _ => if L.isEmpty then [] else [L]

theorem cut_cons_ne (m : Member) (ms : List Member) : ∃ p ps, cut (m :: ms) = (m :: p) :: ps := by
  induction ms generalizing m with
  | nil => exact ⟨[], [], rfl⟩
  | cons m' ms ih =>
    simp only [cut]
    split
    · exact ⟨[], _, rfl⟩
    · obtain ⟨p, ps, h⟩ := ih m'
      rw [h]
      exact ⟨_, _, rfl⟩

theorem isOuter_iff (m : Member) : (m.role = "outer" ∨ m.role = "") ↔ isOuter m = true := by simp [isOuter]

theorem assemble_ways (aw : List UInt64) (W : List Member) (hw : ∀ m ∈ W, m.type = .way ∧ aw.contains (u m.id) = true)
    (P : List (List Int64)) (L : List Int64) :
    assemble aw P L W = some (P ++ join L W) := by
  induction W generalizing P L with
  | nil => cases L <;> simp [assemble, join, cut]
  | cons m W ih =>
    have hm := hw m (by simp)
    have ih' := ih (fun x hx => hw x (by simp [hx]))
    simp only [assemble, hm.1, hm.2, if_true, isOuter_iff]
    rw [ih']
    congr 1
    cases W with
    | nil =>
      by_cases ho : isOuter m = true <;> cases L <;> simp [join, cut, ids, ho]
    | cons m' W' =>
      obtain ⟨p, ps, hp⟩ := cut_cons_ne m' W'
      by_cases ho' : isOuter m' = true
      · have hc : cut (m :: m' :: W') = [m] :: (m' :: p) :: ps := by simp [cut, ho', hp]
        by_cases ho : isOuter m = true <;> cases L <;> simp [join, ids, ho, ho', hc, hp]
      · have hc : cut (m :: m' :: W') = (m :: m' :: p) :: ps := by simp [cut, ho', hp]
        by_cases ho : isOuter m = true <;> cases L <;> simp [join, ids, ho, ho', hc, hp]

theorem assemble_filter (aw : List UInt64) (P : List (List Int64)) (L : List Int64) (ms : List Member) :
    assemble aw P L ms = assemble aw P L (ms.filter (fun m => m.type = .way)) := by
  induction ms generalizing P L with
  | nil => rfl
  | cons m ms ih =>
    by_cases hw : m.type = .way
    · simp only [hw, decide_true, List.filter_cons_of_pos, assemble, if_true]
      split <;> simp [ih]
    · simp only [hw, decide_false, Bool.false_eq_true, not_false_eq_true, List.filter_cons_of_neg, assemble, if_false]
      exact ih _ _

theorem join_nil (W : List Member) : join [] W = ids (cut W) := by
  unfold join
  cases W with
  | nil => simp [cut, ids]
  | cons w W =>
    obtain ⟨p, ps, hp⟩ := cut_cons_ne w W
    simp [hp]

/-- when every way member is a closed way of the input, the polygons are the way members cut before every
outer (or role-less) member -/
theorem assemble_cut (aw : List UInt64) (ms : List Member)
    (h : ∀ m ∈ ms, m.type = .way → aw.contains (u m.id) = true) :
    assemble aw [] [] ms = some (ids (cut (ms.filter (fun m => m.type = .way)))) := by
  rw [assemble_filter, assemble_ways aw _ (fun m hm => by
    have := List.mem_filter.mp hm
    exact ⟨by simpa using this.2, h m this.1 (by simpa using this.2)⟩)]
  simp [join_nil]

/-- every part of a cut is non-empty, only its first element can be an outer member — except for the
very first part, which starts with whatever comes first — and the parts concatenate to the list -/
theorem cut_spec (W : List Member) :
    (cut W).flatten = W ∧ (∀ p ∈ cut W, p ≠ [] ∧ ∀ m ∈ p.tail, isOuter m = false) ∧
    (∀ p ∈ (cut W).tail, ∃ m t, p = m :: t ∧ isOuter m = true) := by
  induction W with
  | nil => simp [cut]
  | cons m W ih =>
    cases W with
    | nil => simp [cut]
    | cons m' W' =>
      obtain ⟨p, ps, hp⟩ := cut_cons_ne m' W'
      obtain ⟨ih1, ih2, ih3⟩ := ih
      rw [hp] at ih1 ih2 ih3
      by_cases ho' : isOuter m' = true
      · have hc : cut (m :: m' :: W') = [m] :: (m' :: p) :: ps := by simp [cut, ho', hp]
        rw [hc]
        refine ⟨by simpa using ih1, ?_, ?_⟩
        · intro q hq
          rcases List.mem_cons.mp hq with rfl | hq
          · simp
          · exact ih2 q hq
        · intro q hq
          simp only [List.tail_cons] at hq
          rcases List.mem_cons.mp hq with rfl | hq
          · exact ⟨m', p, rfl, ho'⟩
          · exact ih3 q (by simpa using hq)
      · have hc : cut (m :: m' :: W') = (m :: m' :: p) :: ps := by simp [cut, ho', hp]
        rw [hc]
        refine ⟨by simpa using ih1, ?_, ?_⟩
        · intro q hq
          rcases List.mem_cons.mp hq with rfl | hq
          · refine ⟨by simp, ?_⟩
            intro x hx
            simp only [List.tail_cons] at hx
            rcases List.mem_cons.mp hx with rfl | hx
            · simpa using ho'
            · exact (ih2 (m' :: p) (by simp)).2 x (by simpa using hx)
          · exact ih2 q (by simp [hq])
        · intro q hq
          exact ih3 q (by simpa using hq)


end B6.Lemmas.Osm
