import B6.Model.Mutable
import B6.Spec.World
/-!
Helper lemmas for C12 / C13 / C14 about `B6.Model.Mutable` (core Lean only).
-/
namespace B6.Model.Mutable

/-! ## association maps -/
namespace AMap
variable {α : Type} {β : Type} [DecidableEq α]

@[simp] theorem get_nil (k : α) : get ([] : List (α × β)) k = none := rfl

theorem get_cons (k' : α) (v : β) (r : List (α × β)) (k : α) :
    get ((k', v) :: r) k = if k' = k then some v else get r k := rfl

theorem get_erase (m : List (α × β)) (k k' : α) :
    get (erase m k) k' = if k' = k then none else get m k' := by
  induction m with
  | nil => simp [erase]
  | cons e r ih =>
    obtain ⟨a, b⟩ := e
    unfold erase at ih ⊢
    by_cases hak : a = k
    · subst hak
      simp only [List.filter, ne_eq, not_true_eq_false, decide_false]
      rw [ih, get_cons]
      by_cases h : k' = a
      · subst h; simp
      · have : ¬ a = k' := fun h' => h h'.symm
        simp [h, this]
    · simp only [List.filter, ne_eq, hak, not_false_eq_true, decide_true]
      rw [get_cons, get_cons, ih]
      by_cases h : a = k'
      · subst h; simp [hak]
      · simp [h]

theorem get_set (m : List (α × β)) (k : α) (v : β) (k' : α) :
    get (set m k v) k' = if k' = k then some v else get m k' := by
  unfold set
  rw [get_cons, get_erase]
  by_cases h : k = k'
  · subst h; simp
  · have : ¬ k' = k := fun h' => h h'.symm
    simp [h, this]

theorem get_set_self (m : List (α × β)) (k : α) (v : β) : get (set m k v) k = some v := by
  simp [get_set]

theorem contains_eq (m : List (α × β)) (k : α) : contains m k = (get m k).isSome := rfl

theorem mem_keys_iff (m : List (α × β)) (k : α) : k ∈ keys m ↔ (get m k).isSome = true := by
  induction m with
  | nil => simp [keys]
  | cons e r ih =>
    obtain ⟨a, b⟩ := e
    simp only [keys, List.map_cons, List.mem_cons, get_cons] at ih ⊢
    by_cases h : a = k
    · subst h; simp
    · have : ¬ k = a := fun h' => h h'.symm
      simp [h, this, ih]

theorem get_some_mem {m : List (α × β)} {k : α} {v : β} (h : get m k = some v) : (k, v) ∈ m := by
  induction m with
  | nil => simp at h
  | cons e r ih =>
    obtain ⟨a, b⟩ := e
    rw [get_cons] at h
    by_cases hak : a = k
    · subst hak; simp at h; subst h; simp
    · simp [hak] at h; exact List.mem_cons_of_mem _ (ih h)

end AMap

/-! ## tags -/

theorem get_tagSet (ts : List Tag) (t : Tag) (k : Key) :
    AMap.get (tagSet ts t) k = if k = t.1 then some t.2 else AMap.get ts k := by
  induction ts with
  | nil =>
    obtain ⟨a, b⟩ := t
    simp only [tagSet, AMap.get_cons, AMap.get_nil]
    by_cases h : a = k
    · subst h; simp
    · have : ¬ k = a := fun h' => h h'.symm
      simp [h, this]
  | cons e r ih =>
    obtain ⟨a, b⟩ := e
    simp only [tagSet]
    by_cases h : a = t.1
    · simp only [h, ↓reduceIte, AMap.get_cons]
      by_cases hk : t.1 = k
      · simp [hk]
      · have : ¬ k = t.1 := fun h' => hk h'.symm
        simp [hk, this]
    · simp only [h, ↓reduceIte, AMap.get_cons, ih]
      by_cases hk : a = k
      · subst hk; simp [h]
      · simp [hk]

theorem get_tagRemove (ts : List Tag) (k k' : Key) :
    AMap.get (tagRemove ts k) k' = if k' = k then none else AMap.get ts k' :=
  AMap.get_erase ts k k'

/-- `TokenForTag` yields a token exactly for the searchable keys -/
theorem tokenForTag_isSome (t : Tag) : (tokenForTag t).isSome = indexedKey t.1 := by
  unfold tokenForTag indexedKey
  split <;> simp_all

theorem tokenForTag_none_of_plain {t : Tag} (h : indexedKey t.1 = false) : tokenForTag t = none := by
  have := tokenForTag_isSome t
  rw [h] at this
  simpa using this

/-! ## modifications -/

theorem get_filterMap_mods (mods : Mods) (orig : List Tag) (k : Key) :
    AMap.get (orig.filterMap (modExisting mods)) k =
    match AMap.get mods k with
    | some (.set v) => if (AMap.get orig k).isSome then some v else none
    | some .del => none
    | none => AMap.get orig k := by
  induction orig with
  | nil => cases h : AMap.get mods k with
    | none => simp
    | some m => cases m <;> simp
  | cons e r ih =>
    obtain ⟨a, b⟩ := e
    simp only [List.filterMap_cons, modExisting]
    by_cases hak : a = k
    · subst hak
      cases h : AMap.get mods a with
      | none => simp [AMap.get_cons]
      | some m =>
        cases m with
        | set v => simp [AMap.get_cons]
        | del =>
          simp only [ih, h]
    · cases h : AMap.get mods a with
      | none =>
        simp only [AMap.get_cons, hak, ↓reduceIte, ih]
      | some m =>
        cases m with
        | set v => simp only [AMap.get_cons, hak, ↓reduceIte, ih]
        | del => simp only [ih, AMap.get_cons, hak, ↓reduceIte]

theorem get_filterMap_new (mods mods' : Mods) (orig : List Tag) (k : Key) :
    AMap.get (mods'.filterMap (modNew mods orig)) k =
    if (AMap.get mods' k).isSome then
      match AMap.get mods k with
      | some (.set v) => if (AMap.get orig k).isNone then some v else none
      | _ => none
    else none := by
  induction mods' with
  | nil => simp
  | cons e r ih =>
    obtain ⟨a, b⟩ := e
    simp only [List.filterMap_cons, modNew]
    by_cases hak : a = k
    · subst hak
      simp only [AMap.get_cons, ↓reduceIte, Option.isSome_some]
      cases h : AMap.get mods a with
      | none => simp only [ih, h]; split <;> rfl
      | some m =>
        cases m with
        | del => simp only [ih, h]; split <;> rfl
        | set v =>
          by_cases ho : (AMap.get orig a).isNone
          · simp [ho, AMap.get_cons]
          · simp only [ho, Bool.false_eq_true, ↓reduceIte, ih, h]; split <;> rfl
    · simp only [AMap.get_cons, hak, ↓reduceIte]
      cases h : AMap.get mods a with
      | none => simp only [ih]
      | some m =>
        cases m with
        | del => simp only [ih]
        | set v =>
          by_cases ho : (AMap.get orig a).isNone
          · simp only [ho, ↓reduceIte, AMap.get_cons, hak, ih]
          · simp only [ho, Bool.false_eq_true, ↓reduceIte, ih]

theorem get_append (a b : List Tag) (k : Key) :
    AMap.get (a ++ b) k = (AMap.get a k).or (AMap.get b k) := by
  induction a with
  | nil => simp
  | cons e r ih =>
    obtain ⟨x, y⟩ := e
    simp only [List.cons_append, AMap.get_cons]
    by_cases h : x = k
    · simp [h]
    · simp [h, ih]

/-- reading a tag through `modifyTags` = the recorded modification if there is one, else the original -/
theorem get_applyMods (mods : Mods) (orig : List Tag) (k : Key) :
    AMap.get (applyMods mods orig) k = modLookup (AMap.get mods k) (AMap.get orig k) := by
  unfold applyMods
  rw [get_append, get_filterMap_mods, get_filterMap_new]
  cases h : AMap.get mods k with
  | none => simp [modLookup]
  | some m =>
    cases m with
    | del => simp [modLookup]
    | set v =>
      cases ho : AMap.get orig k with
      | none => simp [modLookup]
      | some x => simp [modLookup]

theorem applyMods_nil (orig : List Tag) : applyMods [] orig = orig := by
  unfold applyMods
  simp only [List.filterMap_nil, List.append_nil]
  induction orig with
  | nil => rfl
  | cons e r ih => simp [List.filterMap_cons, modExisting, ih]

theorem modsOf_set (mods : List (Id × Mods)) (id : Id) (m : Mods) (id' : Id) :
    modsOf (AMap.set mods id m) id' = if id' = id then m else modsOf mods id' := by
  unfold modsOf
  rw [AMap.get_set]
  by_cases h : id' = id <;> simp [h]

theorem modsOf_erase (mods : List (Id × Mods)) (id id' : Id) :
    modsOf (AMap.erase mods id) id' = if id' = id then [] else modsOf mods id' := by
  unfold modsOf
  rw [AMap.get_erase]
  by_cases h : id' = id <;> simp [h]

theorem modsOf_modsSet (mods : List (Id × Mods)) (id : Id) (k : Key) (m : Mod) (id' : Id) :
    modsOf (modsSet mods id k m) id' =
      if id' = id then AMap.set (modsOf mods id) k m else modsOf mods id' := by
  unfold modsSet
  rw [modsOf_set]

end B6.Model.Mutable

/-! ## the per-feature map spec -/
namespace B6.Spec.World
open B6.Model.Mutable

theorem tagOf_addFeature (w : World) (id : Id) (tags : List Tag) (id' : Id) (k : Key) :
    tagOf (addFeature w id tags) id' k = if id' = id then some (AMap.get tags k) else tagOf w id' k := by
  unfold tagOf find addFeature
  rw [AMap.get_set]
  by_cases h : id' = id <;> simp [h]

theorem tagOf_addTag (w : World) (id : Id) (t : Tag) (id' : Id) (k : Key) :
    tagOf (addTag w id t) id' k =
      if id' = id then (tagOf w id k).map (fun o => if k = t.1 then some t.2 else o) else tagOf w id' k := by
  unfold addTag
  cases h : find w id with
  | none =>
    by_cases hid : id' = id
    · subst hid; simp [tagOf, h]
    · simp [hid]
  | some m =>
    simp only [tagOf, find] at h ⊢
    rw [AMap.get_set]
    by_cases hid : id' = id
    · subst hid; simp [h, AMap.get_set]
    · simp [hid]

theorem tagOf_removeTag (w : World) (id : Id) (key : Key) (id' : Id) (k : Key) :
    tagOf (removeTag w id key) id' k =
      if id' = id then (tagOf w id k).map (fun o => if k = key then none else o) else tagOf w id' k := by
  unfold removeTag
  cases h : find w id with
  | none =>
    by_cases hid : id' = id
    · subst hid; simp [tagOf, h]
    · simp [hid]
  | some m =>
    simp only [tagOf, find] at h ⊢
    rw [AMap.get_set]
    by_cases hid : id' = id
    · subst hid; simp [h, AMap.get_erase]
    · simp [hid]

end B6.Spec.World

namespace B6.Model.Mutable

/-! ## reading tags through a view -/

/-- the value of tag `k` of feature `id` as the world shows it: `none` = no such feature -/
def tagOf (v : View) (id : Id) (k : Key) : Option (Option Val) :=
  (v.find id).map (fun fv => AMap.get fv.f.tags k)

/-- ids are consistent: the feature found under an id carries that id -/
def View.IdsOK (v : View) : Prop := ∀ id fv, v.find id = some fv → fv.f.id = id

def Layer.FeatsId (l : Layer) : Prop := ∀ id f, AMap.get l.feats id = some f → f.id = id

theorem find_view (b : View) (ll : Id → Option Pt) (l : Layer) : (l.view b ll).find = l.find b := rfl

theorem find_overlay {b : View} {l : Layer} {id : Id} {f : Feature} (h : AMap.get l.feats id = some f) :
    l.find b id = some ⟨f, resolve (l.loc b) f.geom⟩ := by
  unfold Layer.find; rw [h]

theorem find_base {b : View} {l : Layer} {id : Id} (h : AMap.get l.feats id = none) :
    l.find b id = (b.find id).map (l.wrap id) := by
  unfold Layer.find; rw [h]

theorem tagOf_overlay {b : View} {ll : Id → Option Pt} {l : Layer} {id : Id} {f : Feature}
    (h : AMap.get l.feats id = some f) (k : Key) :
    tagOf (l.view b ll) id k = some (AMap.get f.tags k) := by
  simp [tagOf, find_view, find_overlay h]

theorem tagOf_base {b : View} {ll : Id → Option Pt} {l : Layer} {id : Id}
    (h : AMap.get l.feats id = none) (k : Key) :
    tagOf (l.view b ll) id k = (tagOf b id k).map (modLookup (AMap.get (modsOf l.mods id) k)) := by
  simp only [tagOf, find_view, find_base h, Option.map_map]
  congr 1
  funext fv
  simp [Layer.wrap, get_applyMods]

theorem view_idsOK {b : View} {l : Layer} (hb : b.IdsOK) (hl : l.FeatsId) (ll : Id → Option Pt) :
    (l.view b ll).IdsOK := by
  intro id fv h
  rw [find_view] at h
  cases hf : AMap.get l.feats id with
  | some f =>
    rw [find_overlay hf] at h
    cases h
    exact hl id f hf
  | none =>
    rw [find_base hf] at h
    cases hb' : b.find id with
    | none => simp [hb'] at h
    | some fv0 =>
      simp [hb'] at h
      subst h
      exact hb id fv0 hb'

/-- `tagOf` of a layered view, in terms of the layer's tables -/
def layerTag (feats : List (Id × Feature)) (mods : List (Id × Mods)) (b : View) (id : Id) (k : Key) :
    Option (Option Val) :=
  match AMap.get feats id with
  | some f => some (AMap.get f.tags k)
  | none => (tagOf b id k).map (modLookup (AMap.get (modsOf mods id) k))

theorem tagOf_view (b : View) (ll : Id → Option Pt) (l : Layer) (id : Id) (k : Key) :
    tagOf (l.view b ll) id k = layerTag l.feats l.mods b id k := by
  unfold layerTag
  cases h : AMap.get l.feats id with
  | some f => simp [tagOf_overlay h]
  | none => simp [tagOf_base h]

theorem layerTag_some {feats : List (Id × Feature)} {mods : List (Id × Mods)} {b : View} {id : Id} {f : Feature}
    (h : AMap.get feats id = some f) (k : Key) : layerTag feats mods b id k = some (AMap.get f.tags k) := by
  simp [layerTag, h]

theorem layerTag_none {feats : List (Id × Feature)} {mods : List (Id × Mods)} {b : View} {id : Id}
    (h : AMap.get feats id = none) (k : Key) :
    layerTag feats mods b id k = (tagOf b id k).map (modLookup (AMap.get (modsOf mods id) k)) := by
  simp [layerTag, h]

theorem layerTag_congr {feats feats' : List (Id × Feature)} {mods mods' : List (Id × Mods)} {b : View} {id : Id}
    (hf : AMap.get feats' id = AMap.get feats id) (hm : modsOf mods' id = modsOf mods id) (k : Key) :
    layerTag feats' mods' b id k = layerTag feats mods b id k := by
  simp [layerTag, hf, hm]

/-! ## `AddTag` / `RemoveTag` on tags -/

theorem addTag_error {b : View} {l : Layer} {id : Id} {tag : Tag} {e : Err}
    (h : l.addTag b id tag = .error e) : l.find b id = none := by
  unfold Layer.addTag at h
  cases hf : AMap.get l.feats id with
  | some f => simp [hf] at h
  | none =>
    simp only [hf] at h
    cases hv : l.find b id with
    | none => rfl
    | some fv =>
      simp only [hv] at h
      split at h <;> cases h

theorem tagOf_addTag_ok {b : View} {l l' : Layer} {id : Id} {tag : Tag}
    (hb : b.IdsOK) (hl : l.FeatsId) (h : l.addTag b id tag = .ok l') (ll ll' : Id → Option Pt)
    (id' : Id) (k : Key) :
    tagOf (l'.view b ll') id' k =
      if id' = id then (tagOf (l.view b ll) id k).map (fun o => if k = tag.1 then some tag.2 else o)
      else tagOf (l.view b ll) id' k := by
  unfold Layer.addTag at h
  simp only [tagOf_view]
  cases hf : AMap.get l.feats id with
  | some f =>
    simp only [hf, Except.ok.injEq] at h
    subst h
    by_cases hid : id' = id
    · subst hid
      rw [layerTag_some (AMap.get_set_self _ _ _), layerTag_some hf]
      simp [get_tagSet]
    · simp only [hid, ↓reduceIte]
      apply layerTag_congr
      · simp [AMap.get_set, hid]
      · rfl
  | none =>
    simp only [hf] at h
    cases hv : l.find b id with
    | none => simp [hv] at h
    | some fv =>
      simp only [hv] at h
      have hfid : fv.f.id = id := view_idsOK hb hl ll id fv (by rw [find_view]; exact hv)
      have hcur : layerTag l.feats l.mods b id k = some (AMap.get fv.f.tags k) := by
        rw [← tagOf_view b ll]; simp [tagOf, find_view, hv]
      by_cases hix : copyOnAdd fv.f tag.1 = true
      · simp only [hix, ↓reduceIte, Except.ok.injEq] at h
        subst h
        by_cases hid : id' = id
        · subst hid
          have : AMap.get (Layer.adopt l { fv.f with tags := tagSet fv.f.tags tag }).feats id'
              = some { fv.f with tags := tagSet fv.f.tags tag } := by
            simp [Layer.adopt, hfid, AMap.get_set]
          rw [layerTag_some this, hcur]
          simp [get_tagSet]
        · simp only [hid, ↓reduceIte]
          apply layerTag_congr
          · simp [Layer.adopt, hfid, AMap.get_set, hid]
          · simp [Layer.adopt, hfid, modsOf_erase, hid]
      · simp only [hix, Bool.false_eq_true, ↓reduceIte, Except.ok.injEq] at h
        subst h
        by_cases hid : id' = id
        · subst hid
          rw [layerTag_none hf, layerTag_none hf]
          simp only [modsOf_modsSet, ↓reduceIte, AMap.get_set, Option.map_map]
          congr 1
          funext o
          by_cases hk : k = tag.1 <;> simp [hk, modLookup]
        · simp only [hid, ↓reduceIte]
          apply layerTag_congr
          · rfl
          · simp [modsOf_modsSet, hid]

theorem featsId_adopt {l : Layer} {f : Feature} (hl : l.FeatsId) : (l.adopt f).FeatsId := by
  intro id g hg
  simp only [Layer.adopt, AMap.get_set] at hg
  by_cases h : id = f.id
  · simp [h] at hg; subst hg; exact h.symm
  · simp [h] at hg; exact hl id g hg

theorem featsId_addTag {b : View} {l l' : Layer} {id : Id} {tag : Tag}
    (hl : l.FeatsId) (h : l.addTag b id tag = .ok l') : l'.FeatsId := by
  unfold Layer.addTag at h
  cases hf : AMap.get l.feats id with
  | some f =>
    simp only [hf, Except.ok.injEq] at h
    subst h
    intro id' g hg
    simp only [AMap.get_set] at hg
    by_cases hid : id' = id
    · simp [hid] at hg; subst hg; simp [hid, hl id f hf]
    · simp [hid] at hg; exact hl id' g hg
  | none =>
    simp only [hf] at h
    cases hv : l.find b id with
    | none => simp [hv] at h
    | some fv =>
      simp only [hv] at h
      split at h
      · cases h; exact featsId_adopt hl
      · cases h; exact hl

theorem removeTag_error {b : View} {l : Layer} {id : Id} {key : Key} {e : Err}
    (h : l.removeTag b id key = .error e) : l.find b id = none := by
  unfold Layer.removeTag at h
  cases hf : AMap.get l.feats id with
  | some f => simp [hf] at h
  | none =>
    simp only [hf] at h
    cases hv : l.find b id with
    | none => rfl
    | some fv =>
      simp only [hv] at h
      split at h
      · cases h
      · split at h <;> cases h

theorem tagOf_removeTag_ok {b : View} {l l' : Layer} {id : Id} {key : Key}
    (hb : b.IdsOK) (hl : l.FeatsId) (h : l.removeTag b id key = .ok l') (ll ll' : Id → Option Pt)
    (id' : Id) (k : Key) :
    tagOf (l'.view b ll') id' k =
      if id' = id then (tagOf (l.view b ll) id k).map (fun o => if k = key then none else o)
      else tagOf (l.view b ll) id' k := by
  unfold Layer.removeTag at h
  simp only [tagOf_view]
  cases hf : AMap.get l.feats id with
  | some f =>
    simp only [hf, Except.ok.injEq] at h
    subst h
    by_cases hid : id' = id
    · subst hid
      rw [layerTag_some (AMap.get_set_self _ _ _), layerTag_some hf]
      simp [get_tagRemove]
    · simp only [hid, ↓reduceIte]
      apply layerTag_congr
      · simp [AMap.get_set, hid]
      · rfl
  | none =>
    simp only [hf] at h
    cases hv : l.find b id with
    | none => simp [hv] at h
    | some fv =>
      simp only [hv] at h
      have hfid : fv.f.id = id := view_idsOK hb hl ll id fv (by rw [find_view]; exact hv)
      have hcur : layerTag l.feats l.mods b id k = some (AMap.get fv.f.tags k) := by
        rw [← tagOf_view b ll]; simp [tagOf, find_view, hv]
      cases hg : AMap.get fv.f.tags key with
      | none =>
        simp only [hg, Except.ok.injEq] at h
        subst h
        by_cases hid : id' = id
        · subst hid
          rw [hcur]
          by_cases hk : k = key
          · subst hk; simp [hg]
          · simp [hk]
        · simp [hid]
      | some old =>
        simp only [hg] at h
        by_cases hix : copyOnRemove fv.f key = true
        · simp only [hix, ↓reduceIte, Except.ok.injEq] at h
          subst h
          by_cases hid : id' = id
          · subst hid
            have : AMap.get (Layer.adopt l { fv.f with tags := tagRemove fv.f.tags key }).feats id'
                = some { fv.f with tags := tagRemove fv.f.tags key } := by
              simp [Layer.adopt, hfid, AMap.get_set]
            rw [layerTag_some this, hcur]
            simp [get_tagRemove]
          · simp only [hid, ↓reduceIte]
            apply layerTag_congr
            · simp [Layer.adopt, hfid, AMap.get_set, hid]
            · simp [Layer.adopt, hfid, modsOf_erase, hid]
        · simp only [hix, Bool.false_eq_true, ↓reduceIte, Except.ok.injEq] at h
          subst h
          by_cases hid : id' = id
          · subst hid
            rw [layerTag_none hf, layerTag_none hf]
            simp only [modsOf_modsSet, ↓reduceIte, AMap.get_set, Option.map_map]
            congr 1
            funext o
            by_cases hk : k = key <;> simp [hk, modLookup]
          · simp only [hid, ↓reduceIte]
            apply layerTag_congr
            · rfl
            · simp [modsOf_modsSet, hid]

theorem featsId_removeTag {b : View} {l l' : Layer} {id : Id} {key : Key}
    (hl : l.FeatsId) (h : l.removeTag b id key = .ok l') : l'.FeatsId := by
  unfold Layer.removeTag at h
  cases hf : AMap.get l.feats id with
  | some f =>
    simp only [hf, Except.ok.injEq] at h
    subst h
    intro id' g hg
    simp only [AMap.get_set] at hg
    by_cases hid : id' = id
    · simp [hid] at hg; subst hg; simp [hid, hl id f hf]
    · simp [hid] at hg; exact hl id' g hg
  | none =>
    simp only [hf] at h
    cases hv : l.find b id with
    | none => simp [hv] at h
    | some fv =>
      simp only [hv] at h
      split at h
      · cases h; exact hl
      · split at h
        · cases h; exact featsId_adopt hl
        · cases h; exact hl

/-! ## Observational equality of layers (C13) -/

/-- two states of a world object that every read treats alike -/
structure Layer.Same (l l' : Layer) : Prop where
  feats : ∀ id, AMap.get l'.feats id = AMap.get l.feats id
  mods : l'.mods = l.mods
  index : l'.index = l.index
  refs : l'.refs = l.refs
  alias : l'.aliasLive = l.aliasLive

theorem Layer.Same.rfl' (l : Layer) : l.Same l := ⟨fun _ => rfl, rfl, rfl, rfl, rfl⟩

theorem Layer.Same.loc {l l' : Layer} (h : l.Same l') (b : View) : l'.loc b = l.loc b := by
  funext id; simp [Layer.loc, h.feats]

theorem Layer.Same.wrap {l l' : Layer} (h : l.Same l') : l'.wrap = l.wrap := by
  funext id fv; simp [Layer.wrap, h.mods]

theorem Layer.Same.find {l l' : Layer} (h : l.Same l') (b : View) : l'.find b = l.find b := by
  funext id; simp [Layer.find, h.feats, h.loc, h.wrap]

theorem Layer.Same.hitFV {l l' : Layer} (h : l.Same l') (b : View) (ll : Id → Option Pt) :
    l'.hitFV b ll = l.hitFV b ll := by
  funext id; simp [Layer.hitFV, h.feats, h.loc, h.wrap, h.alias]

theorem Layer.Same.search {l l' : Layer} (h : l.Same l') (b : View) : l'.search b = l.search b := by
  funext t; simp [Layer.search, h.index, AMap.contains, h.feats]

theorem Layer.Same.refsOf {l l' : Layer} (h : l.Same l') (b : View) : l'.refsOf b = l.refsOf b := by
  funext id; simp [Layer.refsOf, h.refs, AMap.contains, h.feats, h.find]

theorem Layer.Same.mem_ids {l l' : Layer} (h : l.Same l') (b : View) (id : Id) :
    id ∈ l'.ids b ↔ id ∈ l.ids b := by
  simp [Layer.ids, AMap.mem_keys_iff, AMap.contains, h.feats]

theorem restore_putTmp_same (l : Layer) (f : Feature) :
    l.Same ((l.putTmp f).restore f.id (AMap.get l.feats f.id)) := by
  cases he : AMap.get l.feats f.id with
  | some e =>
    refine ⟨fun id => ?_, rfl, rfl, rfl, rfl⟩
    simp only [Layer.restore, Layer.putTmp, AMap.get_set]
    by_cases h : id = f.id
    · simp [h, he]
    · simp [h]
  | none =>
    refine ⟨fun id => ?_, rfl, rfl, rfl, rfl⟩
    simp only [Layer.restore, Layer.putTmp, AMap.get_set, AMap.get_erase]
    by_cases h : id = f.id
    · simp [h, he]
    · simp [h]

theorem checkReferrers_same (b : View) (o : Oracle) (l : Layer) (f : Feature) (rs : List FV) :
    l.Same (l.checkReferrers b o f rs).1 := restore_putTmp_same l f

/-! ## `AddFeature` on tags -/

theorem copy_fold (nid : Id) (rs : List FV) (acc : Layer × List Feature) :
    let res := rs.foldl (copyStep nid) acc
    (res.1.mods = acc.1.mods ∧ res.1.index = acc.1.index ∧ res.1.refs = acc.1.refs ∧
      res.1.aliasLive = acc.1.aliasLive) ∧
    (∀ id g, AMap.get acc.1.feats id = some g → AMap.get res.1.feats id = some g) ∧
    (∀ id g, AMap.get res.1.feats id = some g → AMap.get acc.1.feats id = some g ∨
      (AMap.get acc.1.feats id = none ∧ id ≠ nid ∧ ∃ r ∈ rs, r.f = g ∧ g.id = id)) := by
  induction rs generalizing acc with
  | nil => simp
  | cons r rest ih =>
    simp only [List.foldl_cons]
    have ih' := ih (copyStep nid acc r)
    by_cases hc : (AMap.contains acc.1.feats r.f.id || r.f.id == nid) = true
    · have hstep : copyStep nid acc r = acc := by simp [copyStep, hc]
      rw [hstep] at ih' ⊢
      refine ⟨ih'.1, ih'.2.1, fun id g hg => ?_⟩
      rcases ih'.2.2 id g hg with h | ⟨h1, h2, r', hr', h3⟩
      · exact Or.inl h
      · exact Or.inr ⟨h1, h2, r', List.mem_cons_of_mem _ hr', h3⟩
    · have hstep : copyStep nid acc r =
          ({ acc.1 with feats := AMap.set acc.1.feats r.f.id r.f }, acc.2 ++ [r.f]) := by
        simp [copyStep, hc]
      simp only [Bool.or_eq_true, not_or, Bool.not_eq_true, beq_eq_false_iff_ne] at hc
      have hnone : AMap.get acc.1.feats r.f.id = none := by
        have := hc.1; simp [AMap.contains] at this; exact this
      rw [hstep] at ih' ⊢
      refine ⟨ih'.1, fun id g hg => ?_, fun id g hg => ?_⟩
      · apply ih'.2.1
        simp only [AMap.get_set]
        by_cases h : id = r.f.id
        · subst h; rw [hnone] at hg; cases hg
        · simp [h, hg]
      · rcases ih'.2.2 id g hg with h | ⟨h1, h2, r', hr', h3⟩
        · simp only [AMap.get_set] at h
          by_cases hid : id = r.f.id
          · simp [hid] at h
            refine Or.inr ⟨by rw [hid]; exact hnone, by rw [hid]; exact hc.2, r, List.mem_cons_self, h, ?_⟩
            rw [← h]; exact hid.symm
          · simp [hid] at h; exact Or.inl h
        · simp only [AMap.get_set] at h1
          by_cases hid : id = r.f.id
          · simp [hid] at h1
          · simp [hid] at h1
            exact Or.inr ⟨h1, h2, r', List.mem_cons_of_mem _ hr', h3⟩

theorem commit_mods (l : Layer) (f : Feature) (rs : List FV) :
    (l.commit f rs).mods = AMap.erase l.mods f.id := by
  simp [Layer.commit, copyReferrers, (copy_fold f.id rs (l, [])).1.1]

theorem commit_alias (l : Layer) (f : Feature) (rs : List FV) :
    (l.commit f rs).aliasLive = l.aliasLive := by
  simp [Layer.commit, copyReferrers, (copy_fold f.id rs (l, [])).1.2.2.2]

theorem commit_feats (l : Layer) (f : Feature) (rs : List FV) (id : Id) :
    AMap.get (l.commit f rs).feats id =
      if id = f.id then some f else AMap.get (copyReferrers f.id l rs).1.feats id := by
  simp [Layer.commit, AMap.get_set]

theorem tagOf_commit {b : View} {l : Layer} {f : Feature} {rs : List FV}
    (hrs : ∀ r ∈ rs, l.find b r.f.id = some r) (ll ll' : Id → Option Pt) (id' : Id) (k : Key) :
    tagOf ((l.commit f rs).view b ll') id' k =
      if id' = f.id then some (AMap.get f.tags k) else tagOf (l.view b ll) id' k := by
  simp only [tagOf_view]
  by_cases hid : id' = f.id
  · simp only [hid, ↓reduceIte]
    exact layerTag_some (by simp [commit_feats]) k
  · simp only [hid, ↓reduceIte]
    have hc := copy_fold f.id rs (l, [])
    simp only at hc
    cases hg : AMap.get (l.commit f rs).feats id' with
    | none =>
      have hl : AMap.get l.feats id' = none := by
        cases h : AMap.get l.feats id' with
        | none => rfl
        | some g =>
          have := hc.2.1 id' g h
          simp [commit_feats, hid, copyReferrers, this] at hg
      rw [layerTag_none hg, layerTag_none hl, commit_mods, modsOf_erase]
      simp [hid]
    | some g =>
      rw [layerTag_some hg]
      simp only [commit_feats, hid, ↓reduceIte, copyReferrers] at hg
      rcases hc.2.2 id' g hg with h | ⟨h1, _, r, hr, h3, h4⟩
      · rw [layerTag_some h]
      · have hfind := hrs r hr
        rw [h3, h4] at hfind
        rw [← tagOf_view b ll]
        simp only [tagOf, find_view, hfind, Option.map_some]
        rw [h3]

theorem featsId_commit {l : Layer} {f : Feature} {rs : List FV} (hl : l.FeatsId) : (l.commit f rs).FeatsId := by
  intro id g hg
  rw [commit_feats] at hg
  by_cases hid : id = f.id
  · simp [hid] at hg; subst hg; exact hid.symm
  · simp only [hid, ↓reduceIte, copyReferrers] at hg
    rcases (copy_fold f.id rs (l, [])).2.2 id g hg with h | ⟨_, _, r, _, _, h4⟩
    · exact hl id g h
    · exact h4

theorem referrers_find {b : View} {l : Layer} (hb : b.IdsOK) (hl : l.FeatsId) (id : Id) :
    ∀ r ∈ l.referrers b id, l.find b r.f.id = some r := by
  intro r hr
  simp only [Layer.referrers, List.mem_filterMap] at hr
  obtain ⟨x, _, hx⟩ := hr
  have := view_idsOK hb hl (l.loc b) x r (by rw [find_view]; exact hx)
  rw [this]; exact hx

theorem addFeature_eq (b : View) (o : Oracle) (l : Layer) (f : Feature) :
    l.addFeature b o f =
      if !validate (l.view b (l.loc b)) o f then (l, some .invalid)
      else if (l.referrers b f.id).isEmpty then (l.commit f (l.referrers b f.id), none)
      else if (l.checkReferrers b o f (l.referrers b f.id)).2 then
        ((l.checkReferrers b o f (l.referrers b f.id)).1, some .invalid)
      else ((l.checkReferrers b o f (l.referrers b f.id)).1.commit f (l.referrers b f.id), none) := rfl

/-- the layer `AddFeature` leaves behind reads like `l` when it reports an error … -/
theorem addFeature_err_same {b : View} {o : Oracle} {l l' : Layer} {f : Feature} {e : Err}
    (h : l.addFeature b o f = (l', some e)) : l.Same l' := by
  rw [addFeature_eq] at h
  split at h
  · cases h; exact Layer.Same.rfl' l
  · split at h
    · cases h
    · split at h
      · cases h; exact checkReferrers_same b o l f _
      · cases h

/-- … and has exactly `f`'s tags under `f.id`, everything else as before, when it accepts -/
theorem tagOf_addFeature_ok {b : View} {o : Oracle} {l l' : Layer} {f : Feature}
    (hb : b.IdsOK) (hl : l.FeatsId) (h : l.addFeature b o f = (l', none)) (ll ll' : Id → Option Pt)
    (id' : Id) (k : Key) :
    tagOf (l'.view b ll') id' k =
      if id' = f.id then some (AMap.get f.tags k) else tagOf (l.view b ll) id' k := by
  rw [addFeature_eq] at h
  split at h
  · cases h
  · split at h
    · cases h
      exact tagOf_commit (referrers_find hb hl f.id) ll ll' id' k
    · split at h
      · cases h
      · cases h
        have hs := checkReferrers_same b o l f (l.referrers b f.id)
        have hrs : ∀ r ∈ l.referrers b f.id,
            (l.checkReferrers b o f (l.referrers b f.id)).1.find b r.f.id = some r := by
          intro r hr; rw [hs.find]; exact referrers_find hb hl f.id r hr
        rw [tagOf_commit hrs ll ll' id' k]
        by_cases hid : id' = f.id
        · simp [hid]
        · simp only [hid, ↓reduceIte, tagOf, find_view, hs.find]

theorem featsId_same {l l' : Layer} (h : l.Same l') (hl : l.FeatsId) : l'.FeatsId := by
  intro id g hg; rw [h.feats] at hg; exact hl id g hg

theorem featsId_addFeature {b : View} {o : Oracle} {l l' : Layer} {f : Feature} {r : Option Err}
    (hl : l.FeatsId) (h : l.addFeature b o f = (l', r)) : l'.FeatsId := by
  rw [addFeature_eq] at h
  split at h
  · cases h; exact hl
  · split at h
    · cases h; exact featsId_commit hl
    · split at h
      · cases h; exact featsId_same (checkReferrers_same b o l f _) hl
      · cases h; exact featsId_commit (featsId_same (checkReferrers_same b o l f _) hl)

/-! ## Refinement of the per-feature map, operation by operation -/

open B6.Spec.World in
/-- every tag read (and with it existence) of the layered world equals the per-feature map -/
def LRefines (b : View) (l : Layer) (w : B6.Spec.World.World) : Prop :=
  ∀ id k, tagOf (l.view b (l.loc b)) id k = B6.Spec.World.tagOf w id k

/-- tag reads of ids outside `ids` are the same in both layers -/
def Frame (b : View) (l l' : Layer) (ids : List Id) : Prop :=
  ∀ id, id ∉ ids → ∀ k, tagOf (l'.view b (l'.loc b)) id k = tagOf (l.view b (l.loc b)) id k

theorem Frame.refl (b : View) (l : Layer) (ids : List Id) : Frame b l l ids := fun _ _ _ => rfl

theorem Frame.trans {b : View} {l l' l'' : Layer} {ids ids' : List Id}
    (h1 : Frame b l l' ids) (h2 : Frame b l' l'' ids') : Frame b l l'' (ids ++ ids') := by
  intro id hid k
  simp only [List.mem_append, not_or] at hid
  rw [h2 id hid.2 k, h1 id hid.1 k]

theorem Frame.mono {b : View} {l l' : Layer} {ids ids' : List Id} (h : Frame b l l' ids)
    (hsub : ∀ x, x ∈ ids → x ∈ ids') : Frame b l l' ids' :=
  fun id hid k => h id (fun hx => hid (hsub id hx)) k

theorem refines_addTag {b : View} {l l' : Layer} {id : Id} {tag : Tag} {w : B6.Spec.World.World}
    (hb : b.IdsOK) (hl : l.FeatsId) (hr : LRefines b l w) (h : l.addTag b id tag = .ok l') :
    LRefines b l' (B6.Spec.World.addTag w id tag) := by
  intro id' k
  rw [tagOf_addTag_ok hb hl h (l.loc b) (l'.loc b), B6.Spec.World.tagOf_addTag, hr id k, hr id' k]

theorem frame_addTag {b : View} {l l' : Layer} {id : Id} {tag : Tag}
    (hb : b.IdsOK) (hl : l.FeatsId) (h : l.addTag b id tag = .ok l') : Frame b l l' [id] := by
  intro id' hid k
  rw [tagOf_addTag_ok hb hl h (l.loc b) (l'.loc b)]
  simp only [List.mem_singleton] at hid
  simp [hid]

theorem refines_removeTag {b : View} {l l' : Layer} {id : Id} {key : Key} {w : B6.Spec.World.World}
    (hb : b.IdsOK) (hl : l.FeatsId) (hr : LRefines b l w) (h : l.removeTag b id key = .ok l') :
    LRefines b l' (B6.Spec.World.removeTag w id key) := by
  intro id' k
  rw [tagOf_removeTag_ok hb hl h (l.loc b) (l'.loc b), B6.Spec.World.tagOf_removeTag, hr id k, hr id' k]

theorem frame_removeTag {b : View} {l l' : Layer} {id : Id} {key : Key}
    (hb : b.IdsOK) (hl : l.FeatsId) (h : l.removeTag b id key = .ok l') : Frame b l l' [id] := by
  intro id' hid k
  rw [tagOf_removeTag_ok hb hl h (l.loc b) (l'.loc b)]
  simp only [List.mem_singleton] at hid
  simp [hid]

theorem tagOf_same {b : View} {l l' : Layer} (h : l.Same l') (id : Id) (k : Key) :
    tagOf (l'.view b (l'.loc b)) id k = tagOf (l.view b (l.loc b)) id k := by
  simp only [tagOf, find_view, h.find]

theorem refines_addFeature {b : View} {o : Oracle} {l l' : Layer} {f : Feature} {w : B6.Spec.World.World}
    (hb : b.IdsOK) (hl : l.FeatsId) (hr : LRefines b l w) (h : l.addFeature b o f = (l', none)) :
    LRefines b l' (B6.Spec.World.addFeature w f.id f.tags) := by
  intro id' k
  rw [tagOf_addFeature_ok hb hl h (l.loc b) (l'.loc b), B6.Spec.World.tagOf_addFeature, hr id' k]

theorem refines_addFeature_err {b : View} {o : Oracle} {l l' : Layer} {f : Feature} {e : Err}
    {w : B6.Spec.World.World} (hr : LRefines b l w) (h : l.addFeature b o f = (l', some e)) :
    LRefines b l' w := by
  intro id' k
  rw [tagOf_same (addFeature_err_same h), hr id' k]

theorem frame_addFeature {b : View} {o : Oracle} {l l' : Layer} {f : Feature} {r : Option Err}
    (hb : b.IdsOK) (hl : l.FeatsId) (h : l.addFeature b o f = (l', r)) : Frame b l l' [f.id] := by
  intro id' hid k
  simp only [List.mem_singleton] at hid
  cases r with
  | none => rw [tagOf_addFeature_ok hb hl h (l.loc b) (l'.loc b)]; simp [hid]
  | some e => exact tagOf_same (addFeature_err_same h) id' k

/-! ### change lists -/

theorem applyFeatures_spec {b : View} {o : Oracle} (hb : b.IdsOK) (fs : List Feature) :
    ∀ (l l' : Layer) (r : Option Err), l.FeatsId → applyFeatures b o l fs = (l', r) →
      l'.FeatsId ∧ Frame b l l' (fs.map (·.id)) ∧
      (r = none → ∀ w, LRefines b l w → LRefines b l' (fs.foldl (fun w f => B6.Spec.World.addFeature w f.id f.tags) w)) := by
  induction fs with
  | nil =>
    intro l l' r hl h
    simp only [applyFeatures, Prod.mk.injEq] at h
    obtain ⟨rfl, rfl⟩ := h
    exact ⟨hl, Frame.refl _ _ _, fun _ w hw => hw⟩
  | cons f rest ih =>
    intro l l' r hl h
    simp only [applyFeatures] at h
    cases hstep : l.addFeature b o f with
    | mk l1 r1 =>
      rw [hstep] at h
      have hl1 := featsId_addFeature hl hstep
      have hf1 := frame_addFeature hb hl hstep
      cases r1 with
      | none =>
        simp only at h
        obtain ⟨hl', hfr, href⟩ := ih l1 l' r hl1 h
        refine ⟨hl', ?_, fun hr w hw => ?_⟩
        · exact (hf1.trans hfr).mono (by simp)
        · simp only [List.foldl_cons]
          exact href hr _ (refines_addFeature hb hl hw hstep)
      | some e =>
        simp only [Prod.mk.injEq] at h
        obtain ⟨rfl, rfl⟩ := h
        exact ⟨hl1, hf1.mono (by simp), fun hr => by cases hr⟩

theorem applyAddTags_spec {b : View} (hb : b.IdsOK) (ts : List (Id × Tag)) :
    ∀ (l l' : Layer) (r : Option Err), l.FeatsId → applyAddTags b l ts = (l', r) →
      l'.FeatsId ∧ Frame b l l' (ts.map (·.1)) ∧
      (r = none → ∀ w, LRefines b l w → LRefines b l' (ts.foldl (fun w e => B6.Spec.World.addTag w e.1 e.2) w)) := by
  induction ts with
  | nil =>
    intro l l' r hl h
    simp only [applyAddTags, Prod.mk.injEq] at h
    obtain ⟨rfl, rfl⟩ := h
    exact ⟨hl, Frame.refl _ _ _, fun _ w hw => hw⟩
  | cons e rest ih =>
    intro l l' r hl h
    obtain ⟨id, t⟩ := e
    simp only [applyAddTags] at h
    cases hstep : l.addTag b id t with
    | ok l1 =>
      rw [hstep] at h
      simp only at h
      have hl1 := featsId_addTag hl hstep
      have hf1 := frame_addTag hb hl hstep
      obtain ⟨hl', hfr, href⟩ := ih l1 l' r hl1 h
      refine ⟨hl', ?_, fun hr w hw => ?_⟩
      · exact (hf1.trans hfr).mono (by simp)
      · simp only [List.foldl_cons]
        exact href hr _ (refines_addTag hb hl hw hstep)
    | error e =>
      rw [hstep] at h
      simp only [Prod.mk.injEq] at h
      obtain ⟨rfl, rfl⟩ := h
      exact ⟨hl, Frame.refl _ _ _, fun hr => by cases hr⟩

theorem applyRemoveTags_spec {b : View} (hb : b.IdsOK) (ts : List (Id × Key)) :
    ∀ (l l' : Layer) (r : Option Err), l.FeatsId → applyRemoveTags b l ts = (l', r) →
      l'.FeatsId ∧ Frame b l l' (ts.map (·.1)) ∧
      (r = none → ∀ w, LRefines b l w → LRefines b l' (ts.foldl (fun w e => B6.Spec.World.removeTag w e.1 e.2) w)) := by
  induction ts with
  | nil =>
    intro l l' r hl h
    simp only [applyRemoveTags, Prod.mk.injEq] at h
    obtain ⟨rfl, rfl⟩ := h
    exact ⟨hl, Frame.refl _ _ _, fun _ w hw => hw⟩
  | cons e rest ih =>
    intro l l' r hl h
    obtain ⟨id, key⟩ := e
    simp only [applyRemoveTags] at h
    cases hstep : l.removeTag b id key with
    | ok l1 =>
      rw [hstep] at h
      simp only at h
      have hl1 := featsId_removeTag hl hstep
      have hf1 := frame_removeTag hb hl hstep
      obtain ⟨hl', hfr, href⟩ := ih l1 l' r hl1 h
      refine ⟨hl', ?_, fun hr w hw => ?_⟩
      · exact (hf1.trans hfr).mono (by simp)
      · simp only [List.foldl_cons]
        exact href hr _ (refines_removeTag hb hl hw hstep)
    | error e =>
      rw [hstep] at h
      simp only [Prod.mk.injEq] at h
      obtain ⟨rfl, rfl⟩ := h
      exact ⟨hl, Frame.refl _ _ _, fun hr => by cases hr⟩

theorem change_spec {b : View} {o : Oracle} (hb : b.IdsOK) (c : Change) (l l' : Layer) (r : Option Err)
    (hl : l.FeatsId) (h : c.apply b o l = (l', r)) :
    l'.FeatsId ∧ Frame b l l' (B6.Spec.World.changeIds c) ∧
    (r = none → ∀ w, LRefines b l w → LRefines b l' (B6.Spec.World.applyChange w c)) := by
  cases c with
  | addFeatures fs => exact applyFeatures_spec hb fs l l' r hl h
  | addTags ts => exact applyAddTags_spec hb ts l l' r hl h
  | removeTags ts => exact applyRemoveTags_spec hb ts l l' r hl h

theorem applyAll_spec {b : View} {o : Oracle} (hb : b.IdsOK) (cs : List Change) :
    ∀ (l l' : Layer) (r : Option Err), l.FeatsId → applyAll b o l cs = (l', r) →
      l'.FeatsId ∧ Frame b l l' (cs.flatMap B6.Spec.World.changeIds) ∧
      (r = none → ∀ w, LRefines b l w → LRefines b l' (cs.foldl B6.Spec.World.applyChange w)) := by
  induction cs with
  | nil =>
    intro l l' r hl h
    simp only [applyAll, Prod.mk.injEq] at h
    obtain ⟨rfl, rfl⟩ := h
    exact ⟨hl, Frame.refl _ _ _, fun _ w hw => hw⟩
  | cons c rest ih =>
    intro l l' r hl h
    simp only [applyAll] at h
    cases hstep : c.apply b o l with
    | mk l1 r1 =>
      rw [hstep] at h
      obtain ⟨hl1, hf1, href1⟩ := change_spec hb c l l1 r1 hl hstep
      cases r1 with
      | none =>
        simp only at h
        obtain ⟨hl', hfr, href⟩ := ih l1 l' r hl1 h
        refine ⟨hl', ?_, fun hr w hw => ?_⟩
        · exact (hf1.trans hfr).mono (by simp)
        · simp only [List.foldl_cons]
          exact href hr _ (href1 rfl w hw)
      | some e =>
        simp only [Prod.mk.injEq] at h
        obtain ⟨rfl, rfl⟩ := h
        exact ⟨hl1, hf1.mono (fun x hx => by simp; exact Or.inl hx), fun hr => by cases hr⟩

theorem addFeature_ne_partial (b : View) (o : Oracle) (l l' : Layer) (f : Feature) :
    l.addFeature b o f ≠ (l', some .partiallyApplied) := by
  rw [addFeature_eq]
  intro h
  split at h
  · cases h
  · split at h
    · cases h
    · split at h <;> cases h

theorem addTag_ne_partial {b : View} {l : Layer} {id : Id} {t : Tag} :
    l.addTag b id t ≠ .error .partiallyApplied := by
  unfold Layer.addTag
  intro h
  split at h
  · cases h
  · split at h
    · cases h
    · split at h <;> cases h

theorem removeTag_ne_partial {b : View} {l : Layer} {id : Id} {k : Key} :
    l.removeTag b id k ≠ .error .partiallyApplied := by
  unfold Layer.removeTag
  intro h
  split at h
  · cases h
  · split at h
    · cases h
    · split at h
      · cases h
      · split at h <;> cases h

theorem applyFeatures_ne_partial (b : View) (o : Oracle) (fs : List Feature) :
    ∀ (l l' : Layer), applyFeatures b o l fs ≠ (l', some .partiallyApplied) := by
  induction fs with
  | nil => intro l l' h; simp [applyFeatures] at h
  | cons f rest ih =>
    intro l l' h
    simp only [applyFeatures] at h
    cases hstep : l.addFeature b o f with
    | mk l1 r1 =>
      rw [hstep] at h
      cases r1 with
      | none => exact ih l1 l' h
      | some e =>
        simp only [Prod.mk.injEq, Option.some.injEq] at h
        obtain ⟨rfl, rfl⟩ := h
        exact addFeature_ne_partial b o l l1 f hstep

theorem applyAddTags_ne_partial (b : View) (ts : List (Id × Tag)) :
    ∀ (l l' : Layer), applyAddTags b l ts ≠ (l', some .partiallyApplied) := by
  induction ts with
  | nil => intro l l' h; simp [applyAddTags] at h
  | cons e rest ih =>
    intro l l' h
    obtain ⟨id, t⟩ := e
    simp only [applyAddTags] at h
    cases hstep : l.addTag b id t with
    | ok l1 => rw [hstep] at h; exact ih l1 l' h
    | error e =>
      rw [hstep] at h
      simp only [Prod.mk.injEq, Option.some.injEq] at h
      obtain ⟨_, rfl⟩ := h
      exact addTag_ne_partial hstep

theorem applyRemoveTags_ne_partial (b : View) (ts : List (Id × Key)) :
    ∀ (l l' : Layer), applyRemoveTags b l ts ≠ (l', some .partiallyApplied) := by
  induction ts with
  | nil => intro l l' h; simp [applyRemoveTags] at h
  | cons e rest ih =>
    intro l l' h
    obtain ⟨id, k⟩ := e
    simp only [applyRemoveTags] at h
    cases hstep : l.removeTag b id k with
    | ok l1 => rw [hstep] at h; exact ih l1 l' h
    | error e =>
      rw [hstep] at h
      simp only [Prod.mk.injEq, Option.some.injEq] at h
      obtain ⟨_, rfl⟩ := h
      exact removeTag_ne_partial hstep

theorem applyAll_ne_partial (b : View) (o : Oracle) (cs : List Change) :
    ∀ (l l' : Layer), applyAll b o l cs ≠ (l', some .partiallyApplied) := by
  induction cs with
  | nil => intro l l' h; simp [applyAll] at h
  | cons c rest ih =>
    intro l l' h
    simp only [applyAll] at h
    cases hstep : c.apply b o l with
    | mk l1 r1 =>
      rw [hstep] at h
      cases r1 with
      | none => exact ih l1 l' h
      | some e =>
        simp only [Prod.mk.injEq, Option.some.injEq] at h
        obtain ⟨rfl, rfl⟩ := h
        cases c with
        | addFeatures fs => exact applyFeatures_ne_partial b o fs l l1 hstep
        | addTags ts => exact applyAddTags_ne_partial b ts l l1 hstep
        | removeTags ts => exact applyRemoveTags_ne_partial b ts l l1 hstep

theorem mergedApply_cases (b : View) (o : Oracle) (l : Layer) (cs : List Change) :
    (∃ e, e ≠ Err.partiallyApplied ∧ mergedApply b o l cs = (l, some e) ∧
        (applyAll (l.view b (l.loc b)) o Layer.empty cs).2 = some e) ∨
    (∃ l', mergedApply b o l cs = (l', none) ∧ applyAll b o l cs = (l', none)) ∨
    (∃ l' e, mergedApply b o l cs = (l', some .partiallyApplied) ∧ applyAll b o l cs = (l', some e) ∧
        (applyAll (l.view b (l.loc b)) o Layer.empty cs).2 = none) := by
  cases hc : applyAll (l.view b (l.loc b)) o Layer.empty cs with
  | mk lc rc =>
    cases hr : applyAll b o l cs with
    | mk l' r' =>
      cases rc with
      | some e =>
        by_cases hp : e = Err.partiallyApplied
        · subst hp
          exact absurd hc (applyAll_ne_partial _ _ _ _ _)
        · refine Or.inl ⟨e, hp, ?_, rfl⟩
          simp [mergedApply, hc]
      | none =>
        cases r' with
        | none =>
          refine Or.inr (Or.inl ⟨l', ?_, rfl⟩)
          simp [mergedApply, hc, hr]
        | some e =>
          refine Or.inr (Or.inr ⟨l', e, ?_, rfl, rfl⟩)
          simp [mergedApply, hc, hr]

/-! ## Sorted id lists, postings -/

/-- strictly increasing (what the AVL posting lists are, C07) -/
def Sorted (l : List Id) : Prop := l.Pairwise (· < ·)

theorem mem_insertSorted (x y : Id) (l : List Id) : y ∈ insertSorted x l ↔ y = x ∨ y ∈ l := by
  induction l with
  | nil => simp [insertSorted]
  | cons a r ih =>
    simp only [insertSorted]
    by_cases h1 : x < a
    · simp [h1]
    · by_cases h2 : x = a
      · subst h2; simp
      · simp only [h1, h2, ↓reduceIte, List.mem_cons, ih]
        constructor
        · rintro (h | h | h)
          · exact Or.inr (Or.inl h)
          · exact Or.inl h
          · exact Or.inr (Or.inr h)
        · rintro (h | h | h)
          · exact Or.inr (Or.inl h)
          · exact Or.inl h
          · exact Or.inr (Or.inr h)

theorem nat_lt_of_not {x a : Nat} (h1 : ¬ x < a) (h2 : ¬ x = a) : a < x := by omega
theorem nat_lt_irrefl' {x y : Nat} (h1 : x < y) (h2 : y < x) : False := by omega
theorem nat_lt_self {x : Nat} (h : x < x) : False := by omega

theorem sorted_insertSorted (x : Id) (l : List Id) (h : Sorted l) : Sorted (insertSorted x l) := by
  induction l with
  | nil => simp [insertSorted, Sorted]
  | cons a r ih =>
    unfold Sorted at h ih ⊢
    simp only [insertSorted]
    by_cases h1 : x < a
    · simp only [h1, ↓reduceIte]
      refine List.pairwise_cons.2 ⟨fun y hy => ?_, h⟩
      rcases List.mem_cons.1 hy with rfl | hy
      · exact h1
      · exact Nat.lt_trans h1 ((List.pairwise_cons.1 h).1 y hy)
    · by_cases h2 : x = a
      · simp [h2, h]
      · simp only [h1, h2, ↓reduceIte]
        refine List.pairwise_cons.2 ⟨fun y hy => ?_, ih (List.pairwise_cons.1 h).2⟩
        rcases (mem_insertSorted x y r).1 hy with rfl | hy
        · exact nat_lt_of_not h1 h2
        · exact (List.pairwise_cons.1 h).1 y hy

theorem sorted_filter (p : Id → Bool) (l : List Id) (h : Sorted l) : Sorted (l.filter p) :=
  List.Pairwise.filter p h

/-- a strictly increasing list is determined by its members -/
theorem sorted_ext {l1 l2 : List Id} (h1 : Sorted l1) (h2 : Sorted l2) (h : ∀ x, x ∈ l1 ↔ x ∈ l2) : l1 = l2 := by
  induction l1 generalizing l2 with
  | nil =>
    cases l2 with
    | nil => rfl
    | cons b r => exact absurd ((h b).2 List.mem_cons_self) (by simp)
  | cons a r ih =>
    cases l2 with
    | nil => exact absurd ((h a).1 List.mem_cons_self) (by simp)
    | cons b r2 =>
      unfold Sorted at h1 h2
      have ha := List.pairwise_cons.1 h1
      have hb := List.pairwise_cons.1 h2
      have hab : a = b := by
        rcases List.mem_cons.1 ((h a).1 List.mem_cons_self) with e | hm
        · exact e
        · rcases List.mem_cons.1 ((h b).2 List.mem_cons_self) with e | hm2
          · exact e.symm
          · exact absurd (nat_lt_irrefl' (hb.1 a hm) (ha.1 b hm2)) id
      subst hab
      congr 1
      apply ih ha.2 hb.2
      intro x
      constructor
      · intro hx
        rcases List.mem_cons.1 ((h x).1 (List.mem_cons_of_mem _ hx)) with e | hm
        · have := ha.1 x hx; rw [e] at this; exact absurd (nat_lt_self this) id
        · exact hm
      · intro hx
        rcases List.mem_cons.1 ((h x).2 (List.mem_cons_of_mem _ hx)) with e | hm
        · have := hb.1 x hx; rw [e] at this; exact absurd (nat_lt_self this) id
        · exact hm

theorem postings_set (ix : List (Token × List Id)) (t : Token) (l : List Id) (t' : Token) :
    postings (AMap.set ix t l) t' = if t' = t then l else postings ix t' := by
  unfold postings
  rw [AMap.get_set]
  by_cases h : t' = t <;> simp [h]

theorem postings_indexAdd (id : Id) (ts : List Token) :
    ∀ (ix : List (Token × List Id)) (t : Token) (y : Id),
      (y ∈ postings (indexAdd ix id ts) t ↔ (t ∈ ts ∧ y = id) ∨ y ∈ postings ix t) := by
  induction ts with
  | nil => intro ix t y; simp [indexAdd]
  | cons a r ih =>
    intro ix t y
    simp only [indexAdd, List.foldl_cons] at ih ⊢
    rw [ih, postings_set]
    by_cases h : t = a
    · subst h
      simp only [↓reduceIte, mem_insertSorted, List.mem_cons, true_or, true_and]
      constructor
      · rintro (h | h | h)
        · exact Or.inl h.2
        · exact Or.inl h
        · exact Or.inr h
      · rintro (h | h)
        · exact Or.inr (Or.inl h)
        · exact Or.inr (Or.inr h)
    · simp [h]

theorem sorted_indexAdd (id : Id) (ts : List Token) :
    ∀ (ix : List (Token × List Id)), (∀ t, Sorted (postings ix t)) → ∀ t, Sorted (postings (indexAdd ix id ts) t) := by
  induction ts with
  | nil => intro ix h t; simpa [indexAdd] using h t
  | cons a r ih =>
    intro ix h t
    simp only [indexAdd, List.foldl_cons] at ih ⊢
    apply ih
    intro t'
    rw [postings_set]
    by_cases h' : t' = a
    · simp only [h', ↓reduceIte]; exact sorted_insertSorted _ _ (h a)
    · simp only [h', ↓reduceIte]; exact h t'

theorem indexRemove_step_postings (ix : List (Token × List Id)) (id : Id) (a t : Token) :
    postings (indexRemoveStep id ix a) t =
    if t = a then (postings ix a).filter (fun y => decide (y ≠ id)) else postings ix t := by
  unfold indexRemoveStep
  cases h : AMap.get ix a with
  | some l =>
    simp only [postings_set]
    by_cases ht : t = a
    · simp [ht, postings, h]
    · simp [ht]
  | none =>
    by_cases ht : t = a
    · simp [ht, postings, h]
    · simp [ht]

theorem postings_indexRemove (id : Id) (ts : List Token) :
    ∀ (ix : List (Token × List Id)) (t : Token) (y : Id),
      (y ∈ postings (indexRemove ix id ts) t ↔ y ∈ postings ix t ∧ ¬ (t ∈ ts ∧ y = id)) := by
  induction ts with
  | nil => intro ix t y; simp [indexRemove]
  | cons a r ih =>
    intro ix t y
    simp only [indexRemove, List.foldl_cons] at ih ⊢
    rw [ih, indexRemove_step_postings]
    by_cases h : t = a
    · subst h
      simp only [↓reduceIte, List.mem_filter, decide_eq_true_eq, List.mem_cons, true_or, true_and]
      constructor
      · rintro ⟨⟨h1, h2⟩, _⟩; exact ⟨h1, h2⟩
      · rintro ⟨h1, h2⟩; exact ⟨⟨h1, h2⟩, fun h3 => h2 h3.2⟩
    · simp [h]

theorem sorted_indexRemove (id : Id) (ts : List Token) :
    ∀ (ix : List (Token × List Id)), (∀ t, Sorted (postings ix t)) → ∀ t, Sorted (postings (indexRemove ix id ts) t) := by
  induction ts with
  | nil => intro ix h t; simpa [indexRemove] using h t
  | cons a r ih =>
    intro ix h t
    simp only [indexRemove, List.foldl_cons] at ih ⊢
    apply ih
    intro t'
    rw [indexRemove_step_postings]
    by_cases h' : t' = a
    · simp only [h', ↓reduceIte]; exact sorted_filter _ _ (h a)
    · simp only [h', ↓reduceIte]; exact h t'

/-! ## Tokens determine keys (for keys without `=`) -/

/-- the keys the token argument needs: no `=` inside (true of every OSM-style key) -/
def keyOK (k : Key) : Prop := '=' ∉ k.toList

theorem pre_inj (a b x y : List Char) (ha : '=' ∉ a) (hb : '=' ∉ b)
    (h : a ++ '=' :: x = b ++ '=' :: y) : a = b := by
  induction a generalizing b with
  | nil =>
    cases b with
    | nil => rfl
    | cons c b' =>
      simp only [List.nil_append, List.cons_append, List.cons.injEq] at h
      simp only [List.mem_cons, not_or] at hb
      exact absurd h.1 hb.1
  | cons c a' ih =>
    cases b with
    | nil =>
      simp only [List.nil_append, List.cons_append, List.cons.injEq] at h
      simp only [List.mem_cons, not_or] at ha
      exact absurd h.1.symm ha.1
    | cons d b' =>
      simp only [List.cons_append, List.cons.injEq] at h
      simp only [List.mem_cons, not_or] at ha hb
      rw [h.1, ih b' ha.2 hb.2 h.2]

/-- `tokenForTag` on the characters of the key -/
def tokL (l : List Char) (v : String) : Option Token :=
  match l with
  | '#' :: r => some (String.ofList (r ++ '=' :: v.toList))
  | '@' :: r => some (String.ofList r)
  | _ => none

theorem tokenForTag_eq (t : Tag) : tokenForTag t = tokL t.1.toList t.2.str := rfl

theorem tokL_hash (r : List Char) (v : String) : tokL ('#' :: r) v = some (String.ofList (r ++ '=' :: v.toList)) := rfl
theorem tokL_at (r : List Char) (v : String) : tokL ('@' :: r) v = some (String.ofList r) := rfl
theorem tokL_other (c : Char) (r : List Char) (v : String) (h1 : c ≠ '#') (h2 : c ≠ '@') : tokL (c :: r) v = none := by
  unfold tokL
  split
  · rename_i heq; simp only [List.cons.injEq] at heq; exact absurd heq.1 h1
  · rename_i heq; simp only [List.cons.injEq] at heq; exact absurd heq.1 h2
  · rfl

theorem tokL_inj {l1 l2 : List Char} {v1 v2 : String} {tok : Token}
    (h1 : tokL l1 v1 = some tok) (h2 : tokL l2 v2 = some tok) (k1 : '=' ∉ l1) (k2 : '=' ∉ l2) : l1 = l2 := by
  cases l1 with
  | nil => simp [tokL] at h1
  | cons c1 r1 =>
    cases l2 with
    | nil => simp [tokL] at h2
    | cons c2 r2 =>
      simp only [List.mem_cons, not_or] at k1 k2
      by_cases a1 : c1 = '#'
      · subst a1
        rw [tokL_hash] at h1
        by_cases a2 : c2 = '#'
        · subst a2
          rw [tokL_hash] at h2
          have := String.ofList_injective (Option.some.inj (h1.trans h2.symm))
          rw [pre_inj r1 r2 _ _ k1.2 k2.2 this]
        · by_cases b2 : c2 = '@'
          · subst b2
            rw [tokL_at] at h2
            have := String.ofList_injective (Option.some.inj (h1.trans h2.symm))
            exact absurd (by rw [← this]; simp) k2.2
          · rw [tokL_other c2 r2 v2 a2 b2] at h2; cases h2
      · by_cases b1 : c1 = '@'
        · subst b1
          rw [tokL_at] at h1
          by_cases a2 : c2 = '#'
          · subst a2
            rw [tokL_hash] at h2
            have := String.ofList_injective (Option.some.inj (h1.trans h2.symm))
            exact absurd (by rw [this]; simp) k1.2
          · by_cases b2 : c2 = '@'
            · subst b2
              rw [tokL_at] at h2
              have := String.ofList_injective (Option.some.inj (h1.trans h2.symm))
              rw [this]
            · rw [tokL_other c2 r2 v2 a2 b2] at h2; cases h2
        · rw [tokL_other c1 r1 v1 a1 b1] at h1; cases h1

/-- two tags with `=`-free keys that produce the same token have the same key -/
theorem token_key_inj {t1 t2 : Tag} {tok : Token} (h1 : tokenForTag t1 = some tok) (h2 : tokenForTag t2 = some tok)
    (k1 : keyOK t1.1) (k2 : keyOK t2.1) : t1.1 = t2.1 := by
  rw [tokenForTag_eq] at h1 h2
  have := tokL_inj h1 h2 k1 k2
  have e1 : String.ofList t1.1.toList = t1.1 := String.ofList_toList
  have e2 : String.ofList t2.1.toList = t2.1 := String.ofList_toList
  rw [← e1, ← e2, this]

end B6.Model.Mutable
