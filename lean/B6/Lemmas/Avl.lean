import B6.Model.Avl
import B6.Spec.SortedMap
/-!
Helper lemmas for C07: sorted association lists, and what the pieces of the AVL model
(`rotate*`, `*Retrace*`, `ins`, `delMin`, `del`) do to the in-order contents, the heights and the
stored balance factors.
-/
namespace B6.Lemmas.Avl
open B6.Spec

variable {α : Type}

/-! ## sorted association lists -/

namespace SM

theorem insert_append_right (as bs : SortedMap.SMap α) (x : Nat) (xp : α) (k : Nat) (p : α)
    (has : ∀ e ∈ as, e.1 < k) (hx : x < k) :
    SortedMap.insert (as ++ (x, xp) :: bs) k p = as ++ (x, xp) :: SortedMap.insert bs k p := by
  induction as with
  | nil => simp [SortedMap.insert, hx]
  | cons a as ih =>
    obtain ⟨a, ap⟩ := a
    have h1 : a < k := has (a, ap) (by simp)
    have := ih (fun e he => has e (by simp [he]))
    simp [SortedMap.insert, h1, this]

theorem insert_append_left (as bs : SortedMap.SMap α) (x : Nat) (xp : α) (k : Nat) (p : α) (hx : k < x) :
    SortedMap.insert (as ++ (x, xp) :: bs) k p = SortedMap.insert as k p ++ (x, xp) :: bs := by
  induction as with
  | nil =>
    have h1 : ¬ x < k := by omega
    have h2 : ¬ x = k := by omega
    simp [SortedMap.insert, h1, h2]
  | cons a as ih =>
    obtain ⟨a, ap⟩ := a
    by_cases h1 : a < k
    · simp [SortedMap.insert, h1, ih]
    · by_cases h2 : a = k <;> simp [SortedMap.insert, h1, h2]

theorem insert_append_eq (as bs : SortedMap.SMap α) (xp : α) (k : Nat) (p : α) (has : ∀ e ∈ as, e.1 < k) :
    SortedMap.insert (as ++ (k, xp) :: bs) k p = as ++ (k, p) :: bs := by
  induction as with
  | nil => simp [SortedMap.insert]
  | cons a as ih =>
    obtain ⟨a, ap⟩ := a
    have h1 : a < k := has (a, ap) (by simp)
    have := ih (fun e he => has e (by simp [he]))
    simp [SortedMap.insert, h1, this]

theorem erase_of_not_mem (bs : SortedMap.SMap α) (k : Nat) (h : ∀ e ∈ bs, e.1 ≠ k) : SortedMap.erase bs k = bs := by
  induction bs with
  | nil => rfl
  | cons b bs ih =>
    obtain ⟨b, bp⟩ := b
    have h1 : b ≠ k := h (b, bp) (by simp)
    have := ih (fun e he => h e (by simp [he]))
    simp [SortedMap.erase, h1, this]

theorem erase_append_left (as bs : SortedMap.SMap α) (k : Nat) (h : ∀ e ∈ bs, e.1 ≠ k) :
    SortedMap.erase (as ++ bs) k = SortedMap.erase as k ++ bs := by
  induction as with
  | nil => simpa [SortedMap.erase] using erase_of_not_mem bs k h
  | cons a as ih =>
    obtain ⟨a, ap⟩ := a
    by_cases h1 : a = k <;> simp [SortedMap.erase, h1, ih]

theorem erase_append_right (as bs : SortedMap.SMap α) (k : Nat) (h : ∀ e ∈ as, e.1 ≠ k) :
    SortedMap.erase (as ++ bs) k = as ++ SortedMap.erase bs k := by
  induction as with
  | nil => simp
  | cons a as ih =>
    obtain ⟨a, ap⟩ := a
    have h1 : a ≠ k := h (a, ap) (by simp)
    have := ih (fun e he => h e (by simp [he]))
    simp [SortedMap.erase, h1, this]

theorem mem_insert (m : SortedMap.SMap α) (k : Nat) (p : α) (e : Nat × α)
    (h : e ∈ SortedMap.insert m k p) : e = (k, p) ∨ e ∈ m := by
  induction m with
  | nil => simpa [SortedMap.insert] using h
  | cons a m ih =>
    obtain ⟨a, ap⟩ := a
    unfold SortedMap.insert at h
    split at h
    · simp only [List.mem_cons] at h ⊢
      rcases h with h | h
      · exact Or.inr (Or.inl h)
      · rcases ih h with h | h
        · exact Or.inl h
        · exact Or.inr (Or.inr h)
    · split at h
      · simp only [List.mem_cons] at h ⊢
        rcases h with h | h
        · exact Or.inl h
        · exact Or.inr (Or.inr h)
      · simp only [List.mem_cons] at h ⊢
        rcases h with h | h | h
        · exact Or.inl h
        · exact Or.inr (Or.inl h)
        · exact Or.inr (Or.inr h)

theorem keys_insert_subset (m : SortedMap.SMap α) (k : Nat) (p : α) :
    ∀ x ∈ SortedMap.keys (SortedMap.insert m k p), x = k ∨ x ∈ SortedMap.keys m := by
  intro x hx
  simp only [SortedMap.keys, List.mem_map] at hx ⊢
  obtain ⟨e, he, rfl⟩ := hx
  rcases mem_insert m k p e he with rfl | h
  · exact Or.inl rfl
  · exact Or.inr ⟨e, h, rfl⟩

theorem sorted_insert (m : SortedMap.SMap α) (k : Nat) (p : α) (h : SortedMap.Sorted m) : SortedMap.Sorted (SortedMap.insert m k p) := by
  induction m with
  | nil => simp [SortedMap.insert, SortedMap.Sorted, SortedMap.keys]
  | cons a m ih =>
    obtain ⟨a, ap⟩ := a
    simp only [SortedMap.Sorted, SortedMap.keys, List.map_cons, List.pairwise_cons] at h
    obtain ⟨h1, h2⟩ := h
    by_cases c1 : a < k
    · have ih' := ih h2
      simp only [SortedMap.insert, c1, if_true, SortedMap.Sorted, SortedMap.keys, List.map_cons, List.pairwise_cons]
      refine ⟨?_, ih'⟩
      intro x hx
      rcases keys_insert_subset m k p x hx with rfl | hx
      · exact c1
      · exact h1 x hx
    · by_cases c2 : a = k
      · subst c2
        simp only [SortedMap.insert, c1, if_false, if_true, SortedMap.Sorted, SortedMap.keys, List.map_cons, List.pairwise_cons]
        exact ⟨h1, h2⟩
      · simp only [SortedMap.insert, c1, c2, if_false, SortedMap.Sorted, SortedMap.keys, List.map_cons, List.pairwise_cons]
        refine ⟨?_, h1, h2⟩
        intro x hx
        simp only [List.mem_cons] at hx
        rcases hx with rfl | hx
        · omega
        · have := h1 x hx; omega

theorem keys_erase_subset (m : SortedMap.SMap α) (k : Nat) : ∀ x ∈ SortedMap.keys (SortedMap.erase m k), x ∈ SortedMap.keys m := by
  induction m with
  | nil => simp [SortedMap.erase]
  | cons a m ih =>
    obtain ⟨a, ap⟩ := a
    intro x hx
    by_cases h1 : a = k
    · simp [SortedMap.erase, h1, SortedMap.keys] at hx ⊢; exact Or.inr hx
    · simp [SortedMap.erase, h1, SortedMap.keys] at hx ⊢
      rcases hx with hx | hx
      · exact Or.inl hx
      · exact Or.inr (by simpa [SortedMap.keys] using ih x (by simpa [SortedMap.keys] using hx))

theorem sorted_erase (m : SortedMap.SMap α) (k : Nat) (h : SortedMap.Sorted m) : SortedMap.Sorted (SortedMap.erase m k) := by
  induction m with
  | nil => simp [SortedMap.erase, SortedMap.Sorted, SortedMap.keys]
  | cons a m ih =>
    obtain ⟨a, ap⟩ := a
    simp only [SortedMap.Sorted, SortedMap.keys, List.map_cons, List.pairwise_cons] at h
    obtain ⟨h1, h2⟩ := h
    by_cases c1 : a = k
    · simpa [SortedMap.erase, c1, SortedMap.Sorted, SortedMap.keys] using h2
    · simp only [SortedMap.erase, c1, if_false, SortedMap.Sorted, SortedMap.keys, List.map_cons, List.pairwise_cons]
      exact ⟨fun x hx => h1 x (keys_erase_subset m k x hx), ih h2⟩

end SM

open B6.Model.Avl B6.Model.Avl.Tree

/-! ## in-order contents -/

theorem keys_eq (t : Tree α) : keys t = (toList t).map (·.1) := by
  induction t with
  | nil => rfl
  | node l k p b r ihl ihr => simp [keys, toList, ihl, ihr]

theorem bst_iff_sorted (t : Tree α) : Bst t ↔ SortedMap.Sorted (toList t) := by
  induction t with
  | nil => simp [Bst, SortedMap.Sorted, SortedMap.keys, toList]
  | node l k p b r ihl ihr =>
    simp only [Bst, SortedMap.Sorted, SortedMap.keys, toList, List.map_append, List.map_cons,
      List.pairwise_append, List.pairwise_cons, ihl, ihr, keys_eq, List.mem_cons]
    constructor
    · rintro ⟨h1, h2, h3, h4⟩
      refine ⟨h1, ⟨h4, h2⟩, ?_⟩
      intro a ha b hb
      rcases hb with rfl | hb
      · exact h3 a ha
      · have := h3 a ha; have := h4 b hb; omega
    · rintro ⟨h1, ⟨h4, h2⟩, h3⟩
      exact ⟨h1, h2, fun a ha => h3 a ha k (Or.inl rfl), h4⟩

theorem rotateLeft_toList {l : Tree α} {k p c t} (h : rotateLeft l k p c = some t) :
    toList t = toList l ++ (k, p) :: toList c := by
  unfold rotateLeft at h
  split at h
  · simp at h
  · split at h <;> (simp at h; subst h; simp [toList])

theorem rotateRight_toList {c : Tree α} {k p r t} (h : rotateRight c k p r = some t) :
    toList t = toList c ++ (k, p) :: toList r := by
  unfold rotateRight at h
  split at h
  · simp at h
  · split at h <;> (simp at h; subst h; simp [toList])

theorem rotateRightLeft_toList {l : Tree α} {k p c t} (h : rotateRightLeft l k p c = some t) :
    toList t = toList l ++ (k, p) :: toList c := by
  unfold rotateRightLeft at h
  split at h
  · split at h
    · simp at h; subst h; simp [toList]
    · split at h <;> (simp at h; subst h; simp [toList])
  · simp at h

theorem rotateLeftRight_toList {c : Tree α} {k p r t} (h : rotateLeftRight c k p r = some t) :
    toList t = toList c ++ (k, p) :: toList r := by
  unfold rotateLeftRight at h
  split at h
  · split at h
    · simp at h; subst h; simp [toList]
    · split at h <;> (simp at h; subst h; simp [toList])
  · simp at h

theorem insRetraceRight_toList {l : Tree α} {k p b r t g} (h : insRetraceRight l k p b r = some (t, g)) :
    toList t = toList l ++ (k, p) :: toList r := by
  unfold insRetraceRight at h
  split at h
  · split at h
    · rename_i t' ht
      simp at h; obtain ⟨rfl, _⟩ := h
      split at ht
      · exact rotateRightLeft_toList ht
      · exact rotateLeft_toList ht
    · simp at h
  · simp at h; obtain ⟨rfl, _⟩ := h; simp [toList]

theorem insRetraceLeft_toList {l : Tree α} {k p b r t g} (h : insRetraceLeft l k p b r = some (t, g)) :
    toList t = toList l ++ (k, p) :: toList r := by
  unfold insRetraceLeft at h
  split at h
  · split at h
    · rename_i t' ht
      simp at h; obtain ⟨rfl, _⟩ := h
      split at ht
      · exact rotateLeftRight_toList ht
      · exact rotateRight_toList ht
    · simp at h
  · simp at h; obtain ⟨rfl, _⟩ := h; simp [toList]

theorem delRetraceLeft_toList {l : Tree α} {k p b r t g} (h : delRetraceLeft l k p b r = some (t, g)) :
    toList t = toList l ++ (k, p) :: toList r := by
  unfold delRetraceLeft at h
  split at h
  · simp only at h
    split at h
    · rename_i t' ht
      simp at h; obtain ⟨rfl, _⟩ := h
      split at ht
      · exact rotateRightLeft_toList ht
      · exact rotateLeft_toList ht
    · simp at h
  · simp at h; obtain ⟨rfl, _⟩ := h; simp [toList]

theorem delRetraceRight_toList {l : Tree α} {k p b r t g} (h : delRetraceRight l k p b r = some (t, g)) :
    toList t = toList l ++ (k, p) :: toList r := by
  unfold delRetraceRight at h
  split at h
  · simp only at h
    split at h
    · rename_i t' ht
      simp at h; obtain ⟨rfl, _⟩ := h
      split at ht
      · exact rotateLeftRight_toList ht
      · exact rotateRight_toList ht
    · simp at h
  · simp at h; obtain ⟨rfl, _⟩ := h; simp [toList]

theorem mem_keys_of_mem_toList {t : Tree α} {e : Nat × α} (h : e ∈ toList t) : e.1 ∈ keys t := by
  rw [keys_eq]; exact List.mem_map_of_mem h

theorem ins_toList {t : Tree α} {k : Nat} {p : α} {t' : Tree α} {g a : Bool}
    (h : ins t k p = some (t', g, a)) (hb : Bst t) :
    toList t' = SortedMap.insert (toList t) k p := by
  induction t generalizing t' g a with
  | nil =>
    simp [ins] at h; obtain ⟨rfl, _, _⟩ := h
    simp [toList, SortedMap.insert]
  | node l x xp b r ihl ihr =>
    obtain ⟨hbl, hbr, hlt, hgt⟩ := hb
    have hl : ∀ e ∈ toList l, e.1 < x := fun e he => hlt _ (mem_keys_of_mem_toList he)
    unfold ins at h
    split at h
    · rename_i hxk
      split at h
      · simp at h
      · rename_i r' grew added hr
        have ih := ihr hr hbr
        have key : toList l ++ (x, xp) :: toList r' = SortedMap.insert (toList (node l x xp b r)) k p := by
          rw [ih]; simp only [toList]
          exact (SM.insert_append_right _ _ _ _ _ _ (fun e he => by have := hl e he; omega) hxk).symm
        split at h
        · split at h
          · rename_i t2 g2 hrt
            simp at h; obtain ⟨rfl, _, _⟩ := h
            rw [insRetraceRight_toList hrt, key]
          · simp at h
        · simp at h; obtain ⟨rfl, _, _⟩ := h
          simpa [toList] using key
    · rename_i hxk
      split at h
      · rename_i hkx
        split at h
        · simp at h
        · rename_i l' grew added hl'
          have ih := ihl hl' hbl
          have key : toList l' ++ (x, xp) :: toList r = SortedMap.insert (toList (node l x xp b r)) k p := by
            rw [ih]; simp only [toList]
            exact (SM.insert_append_left _ _ _ _ _ _ hkx).symm
          split at h
          · split at h
            · rename_i t2 g2 hrt
              simp at h; obtain ⟨rfl, _, _⟩ := h
              rw [insRetraceLeft_toList hrt, key]
            · simp at h
          · simp at h; obtain ⟨rfl, _, _⟩ := h
            simpa [toList] using key
      · rename_i hkx
        have hxk' : x = k := by omega
        subst hxk'
        simp at h; obtain ⟨rfl, _, _⟩ := h
        simp only [toList]
        exact (SM.insert_append_eq _ _ _ _ _ hl).symm

theorem delMin_toList {t : Tree α} {t' : Tree α} {mk : Nat} {mp : α} {s : Bool}
    (h : delMin t = some (t', mk, mp, s)) : toList t = (mk, mp) :: toList t' := by
  induction t generalizing t' s mk mp with
  | nil => simp [delMin] at h
  | node l x xp b r ihl _ =>
    cases l with
    | nil =>
      simp [delMin] at h; obtain ⟨rfl, rfl, rfl, _⟩ := h
      simp [toList]
    | node ll lk lp lb lr =>
      unfold delMin at h
      split at h
      · simp at h
      · rename_i l' mk' mp' sh hl'
        have ih := ihl hl'
        split at h
        · split at h
          · rename_i t2 s2 hrt
            simp at h; obtain ⟨rfl, rfl, rfl, _⟩ := h
            rw [delRetraceLeft_toList hrt]
            simp only [toList] at ih ⊢
            rw [ih]; simp
          · simp at h
        · simp at h; obtain ⟨rfl, rfl, rfl, _⟩ := h
          simp only [toList] at ih ⊢
          rw [ih]; simp

theorem del_toList {t : Tree α} {k : Nat} {t' : Tree α} {s f : Bool}
    (h : del t k = some (t', s, f)) (hb : Bst t) :
    toList t' = SortedMap.erase (toList t) k := by
  induction t generalizing t' s f with
  | nil =>
    simp [del] at h; obtain ⟨rfl, _, _⟩ := h
    simp [toList, SortedMap.erase]
  | node l x xp b r ihl ihr =>
    obtain ⟨hbl, hbr, hlt, hgt⟩ := hb
    have hl : ∀ e ∈ toList l, e.1 < x := fun e he => hlt _ (mem_keys_of_mem_toList he)
    have hr : ∀ e ∈ toList r, x < e.1 := fun e he => hgt _ (mem_keys_of_mem_toList he)
    unfold del at h
    split at h
    · rename_i hxk
      have key : ∀ r' : Tree α, toList r' = SortedMap.erase (toList r) k →
          toList l ++ (x, xp) :: toList r' = SortedMap.erase (toList (node l x xp b r)) k := by
        intro r' e
        simp only [toList]
        rw [SM.erase_append_right _ _ _ (fun e he => by have := hl e he; omega)]
        have : x ≠ k := by omega
        simp [SortedMap.erase, this, e]
      split at h
      · simp at h
      · rename_i r' sh found hr'
        have ih := ihr hr' hbr
        split at h
        · split at h
          · rename_i t2 s2 hrt
            simp at h; obtain ⟨rfl, _, _⟩ := h
            rw [delRetraceRight_toList hrt, key r' ih]
          · simp at h
        · simp at h; obtain ⟨rfl, _, _⟩ := h
          simpa [toList] using key r' ih
    · rename_i hxk
      split at h
      · rename_i hkx
        have key : ∀ l' : Tree α, toList l' = SortedMap.erase (toList l) k →
            toList l' ++ (x, xp) :: toList r = SortedMap.erase (toList (node l x xp b r)) k := by
          intro l' e
          simp only [toList]
          rw [SM.erase_append_left _ _ _ (by
            intro e he
            simp only [List.mem_cons] at he
            rcases he with rfl | he
            · simp; omega
            · have := hr e he; omega), e]
        split at h
        · simp at h
        · rename_i l' sh found hl'
          have ih := ihl hl' hbl
          split at h
          · split at h
            · rename_i t2 s2 hrt
              simp at h; obtain ⟨rfl, _, _⟩ := h
              rw [delRetraceLeft_toList hrt, key l' ih]
            · simp at h
          · simp at h; obtain ⟨rfl, _, _⟩ := h
            simpa [toList] using key l' ih
      · rename_i hkx
        have hxk' : x = k := by omega
        subst hxk'
        have key : SortedMap.erase (toList (node l x xp b r)) x = toList l ++ toList r := by
          simp only [toList]
          rw [SM.erase_append_right _ _ _ (fun e he => by have := hl e he; omega)]
          simp [SortedMap.erase]
        rw [key]
        split at h
        · split at h
          · simp at h
          · rename_i r' mk mp sh hr'
            have e := delMin_toList hr'
            split at h
            · split at h
              · rename_i t2 s2 hrt
                simp at h; obtain ⟨rfl, _, _⟩ := h
                rw [delRetraceRight_toList hrt, e]
              · simp at h
            · simp at h; obtain ⟨rfl, _, _⟩ := h
              rw [e]; simp [toList]
        · simp at h; obtain ⟨rfl, _, _⟩ := h
          simp [toList]
        · simp at h; obtain ⟨rfl, _, _⟩ := h
          simp [toList]

/-! ## balance factors and heights -/

theorem rotateLeft_bal {l : Tree α} {k : Nat} {p : α} {c : Tree α}
    (hl : Bal l) (hc : Bal c) (hh : height c = height l + 2) (hb : 0 ≤ rootBal c) :
    ∃ t, rotateLeft l k p c = some t ∧ Bal t ∧
      height t = (if rootBal c = 0 then height l + 3 else height l + 2) ∧
      (rootBal c ≠ 0 → rootBal t = 0) := by
  cases c with
  | nil => simp [height] at hh
  | node cl ck cp cb cr =>
    obtain ⟨hcl, hcr, hcb, h1, h2⟩ := hc
    simp only [rootBal] at hb ⊢
    simp only [height] at hh
    by_cases h0 : cb = 0
    · refine ⟨node (node l k p 1 cl) ck cp (-1) cr, by simp [rotateLeft, h0], ?_⟩
      simp only [Bal, height, h0, if_true]
      refine ⟨⟨⟨hl, hcl, ?_, ?_, ?_⟩, hcr, ?_, ?_, ?_⟩, ?_, ?_⟩ <;> first | omega | simp
    · refine ⟨node (node l k p 0 cl) ck cp 0 cr, by simp [rotateLeft, h0], ?_⟩
      simp only [Bal, height, h0, if_false]
      refine ⟨⟨⟨hl, hcl, ?_, ?_, ?_⟩, hcr, ?_, ?_, ?_⟩, ?_, ?_⟩ <;> first | omega | simp

theorem rotateRight_bal {c : Tree α} {k : Nat} {p : α} {r : Tree α}
    (hr : Bal r) (hc : Bal c) (hh : height c = height r + 2) (hb : rootBal c ≤ 0) :
    ∃ t, rotateRight c k p r = some t ∧ Bal t ∧
      height t = (if rootBal c = 0 then height r + 3 else height r + 2) ∧
      (rootBal c ≠ 0 → rootBal t = 0) := by
  cases c with
  | nil => simp [height] at hh
  | node cl ck cp cb cr =>
    obtain ⟨hcl, hcr, hcb, h1, h2⟩ := hc
    simp only [rootBal] at hb ⊢
    simp only [height] at hh
    by_cases h0 : cb = 0
    · refine ⟨node cl ck cp 1 (node cr k p (-1) r), by simp [rotateRight, h0], ?_⟩
      simp only [Bal, height, h0, if_true]
      refine ⟨⟨hcl, ⟨hcr, hr, ?_, ?_, ?_⟩, ?_, ?_, ?_⟩, ?_, ?_⟩ <;> first | omega | simp
    · refine ⟨node cl ck cp 0 (node cr k p 0 r), by simp [rotateRight, h0], ?_⟩
      simp only [Bal, height, h0, if_false]
      refine ⟨⟨hcl, ⟨hcr, hr, ?_, ?_, ?_⟩, ?_, ?_, ?_⟩, ?_, ?_⟩ <;> first | omega | simp

theorem rotateRightLeft_bal {l : Tree α} {k : Nat} {p : α} {c : Tree α}
    (hl : Bal l) (hc : Bal c) (hh : height c = height l + 2) (hb : rootBal c < 0) :
    ∃ t, rotateRightLeft l k p c = some t ∧ Bal t ∧ height t = height l + 2 ∧ rootBal t = 0 := by
  cases c with
  | nil => simp [height] at hh
  | node cl ck cp cb cr =>
    obtain ⟨hcl, hcr, hcb, h1, h2⟩ := hc
    simp only [rootBal] at hb
    cases cl with
    | nil => simp [height] at hcb; omega
    | node nl nk np nb nr =>
      obtain ⟨hnl, hnr, hnb, h3, h4⟩ := hcl
      simp only [height] at hh hcb
      by_cases c1 : nb > 0
      · refine ⟨node (node l k p (-1) nl) nk np 0 (node nr ck cp 0 cr), by simp [rotateRightLeft, c1], ?_⟩
        simp only [Bal, height, rootBal]
        refine ⟨⟨⟨hl, hnl, ?_, ?_, ?_⟩, ⟨hnr, hcr, ?_, ?_, ?_⟩, ?_, ?_, ?_⟩, ?_, ?_⟩ <;> first | omega | simp
      · by_cases c2 : nb = 0
        · refine ⟨node (node l k p 0 nl) nk np 0 (node nr ck cp 0 cr), by simp [rotateRightLeft, c2], ?_⟩
          simp only [Bal, height, rootBal]
          refine ⟨⟨⟨hl, hnl, ?_, ?_, ?_⟩, ⟨hnr, hcr, ?_, ?_, ?_⟩, ?_, ?_, ?_⟩, ?_, ?_⟩ <;> first | omega | simp
        · refine ⟨node (node l k p 0 nl) nk np 0 (node nr ck cp 1 cr), by simp [rotateRightLeft, c1, c2], ?_⟩
          simp only [Bal, height, rootBal]
          refine ⟨⟨⟨hl, hnl, ?_, ?_, ?_⟩, ⟨hnr, hcr, ?_, ?_, ?_⟩, ?_, ?_, ?_⟩, ?_, ?_⟩ <;> first | omega | simp

theorem rotateLeftRight_bal {c : Tree α} {k : Nat} {p : α} {r : Tree α}
    (hr : Bal r) (hc : Bal c) (hh : height c = height r + 2) (hb : 0 < rootBal c) :
    ∃ t, rotateLeftRight c k p r = some t ∧ Bal t ∧ height t = height r + 2 ∧ rootBal t = 0 := by
  cases c with
  | nil => simp [height] at hh
  | node cl ck cp cb cr =>
    obtain ⟨hcl, hcr, hcb, h1, h2⟩ := hc
    simp only [rootBal] at hb
    cases cr with
    | nil => simp [height] at hcb; omega
    | node nl nk np nb nr =>
      obtain ⟨hnl, hnr, hnb, h3, h4⟩ := hcr
      simp only [height] at hh hcb
      by_cases c1 : nb < 0
      · refine ⟨node (node cl ck cp 0 nl) nk np 0 (node nr k p 1 r), by simp [rotateLeftRight, c1], ?_⟩
        simp only [Bal, height, rootBal]
        refine ⟨⟨⟨hcl, hnl, ?_, ?_, ?_⟩, ⟨hnr, hr, ?_, ?_, ?_⟩, ?_, ?_, ?_⟩, ?_, ?_⟩ <;> first | omega | simp
      · by_cases c2 : nb = 0
        · refine ⟨node (node cl ck cp 0 nl) nk np 0 (node nr k p 0 r), by simp [rotateLeftRight, c2], ?_⟩
          simp only [Bal, height, rootBal]
          refine ⟨⟨⟨hcl, hnl, ?_, ?_, ?_⟩, ⟨hnr, hr, ?_, ?_, ?_⟩, ?_, ?_, ?_⟩, ?_, ?_⟩ <;> first | omega | simp
        · refine ⟨node (node cl ck cp (-1) nl) nk np 0 (node nr k p 0 r), by simp [rotateLeftRight, c1, c2], ?_⟩
          simp only [Bal, height, rootBal]
          refine ⟨⟨⟨hcl, hnl, ?_, ?_, ?_⟩, ⟨hnr, hr, ?_, ?_, ?_⟩, ?_, ?_, ?_⟩, ?_, ?_⟩ <;> first | omega | simp

/-- right subtree grew by one level to `r'` -/
theorem insRetraceRight_bal {l : Tree α} {k : Nat} {p : α} {b : Int} {r' : Tree α}
    (hl : Bal l) (hr : Bal r') (h1 : -1 ≤ b) (h2 : b ≤ 1)
    (hb : b = (height r' : Int) - 1 - height l) (hpos : 1 ≤ height r')
    (hnz : 2 ≤ height r' → rootBal r' ≠ 0) :
    ∃ t g, insRetraceRight l k p b r' = some (t, g) ∧ Bal t ∧
      height t = max (height l) (height r' - 1) + 1 + (if g then 1 else 0) ∧
      (g = true → rootBal t ≠ 0) := by
  unfold insRetraceRight
  by_cases c1 : b > 0
  · simp only [c1, if_true]
    have hh : height r' = height l + 2 := by omega
    have hnz' := hnz (by omega)
    by_cases c2 : rootBal r' < 0
    · obtain ⟨t, e, bt, ht, _⟩ := rotateRightLeft_bal (k := k) (p := p) hl hr hh c2
      refine ⟨t, false, by simp [c2, e], bt, ?_, by simp⟩
      simp; omega
    · obtain ⟨t, e, bt, ht, _⟩ := rotateLeft_bal (k := k) (p := p) hl hr hh (by omega)
      refine ⟨t, false, by simp [c2, e], bt, ?_, by simp⟩
      simp [hnz'] at ht
      simp; omega
  · simp only [c1, if_false]
    refine ⟨_, _, rfl, ⟨hl, hr, by omega, by omega, by omega⟩, ?_, ?_⟩
    · simp only [height]
      by_cases c3 : b + 1 = 0
      · simp [c3]; omega
      · simp [c3]; omega
    · simp [rootBal]

/-- left subtree grew by one level to `l'` -/
theorem insRetraceLeft_bal {l' : Tree α} {k : Nat} {p : α} {b : Int} {r : Tree α}
    (hl : Bal l') (hr : Bal r) (h1 : -1 ≤ b) (h2 : b ≤ 1)
    (hb : b = (height r : Int) - ((height l' : Int) - 1)) (hpos : 1 ≤ height l')
    (hnz : 2 ≤ height l' → rootBal l' ≠ 0) :
    ∃ t g, insRetraceLeft l' k p b r = some (t, g) ∧ Bal t ∧
      height t = max (height l' - 1) (height r) + 1 + (if g then 1 else 0) ∧
      (g = true → rootBal t ≠ 0) := by
  unfold insRetraceLeft
  by_cases c1 : b < 0
  · simp only [c1, if_true]
    have hh : height l' = height r + 2 := by omega
    have hnz' := hnz (by omega)
    by_cases c2 : rootBal l' > 0
    · obtain ⟨t, e, bt, ht, _⟩ := rotateLeftRight_bal (k := k) (p := p) hr hl hh c2
      refine ⟨t, false, by simp [c2, e], bt, ?_, by simp⟩
      simp; omega
    · obtain ⟨t, e, bt, ht, _⟩ := rotateRight_bal (k := k) (p := p) hr hl hh (by omega)
      refine ⟨t, false, by simp [c2, e], bt, ?_, by simp⟩
      simp [hnz'] at ht
      simp; omega
  · simp only [c1, if_false]
    refine ⟨_, _, rfl, ⟨hl, hr, by omega, by omega, by omega⟩, ?_, ?_⟩
    · simp only [height]
      by_cases c3 : b - 1 = 0
      · simp [c3]; omega
      · simp [c3]; omega
    · simp [rootBal]

/-- left subtree shrank by one level to `l'` -/
theorem delRetraceLeft_bal {l' : Tree α} {k : Nat} {p : α} {b : Int} {r : Tree α}
    (hl : Bal l') (hr : Bal r) (h1 : -1 ≤ b) (h2 : b ≤ 1)
    (hb : b = (height r : Int) - (height l' + 1)) :
    ∃ t s, delRetraceLeft l' k p b r = some (t, s) ∧ Bal t ∧
      height t + (if s then 1 else 0) = max (height l' + 1) (height r) + 1 := by
  unfold delRetraceLeft
  by_cases c1 : b > 0
  · simp only [c1, if_true]
    have hh : height r = height l' + 2 := by omega
    by_cases c2 : rootBal r < 0
    · obtain ⟨t, e, bt, ht, _⟩ := rotateRightLeft_bal (k := k) (p := p) hl hr hh c2
      have : rootBal r ≠ 0 := by omega
      refine ⟨t, true, by simp [c2, e, this], bt, ?_⟩
      simp; omega
    · obtain ⟨t, e, bt, ht, _⟩ := rotateLeft_bal (k := k) (p := p) hl hr hh (by omega)
      by_cases c3 : rootBal r = 0
      · refine ⟨t, false, by simp [e, c3], bt, ?_⟩
        simp [c3] at ht
        simp; omega
      · refine ⟨t, true, by simp [c2, e, c3], bt, ?_⟩
        simp [c3] at ht
        simp; omega
  · simp only [c1, if_false]
    refine ⟨_, _, rfl, ⟨hl, hr, by omega, by omega, by omega⟩, ?_⟩
    simp only [height]
    by_cases c3 : b + 1 = 1
    · simp [c3]; omega
    · simp [c3]; omega

/-- right subtree shrank by one level to `r'` -/
theorem delRetraceRight_bal {l : Tree α} {k : Nat} {p : α} {b : Int} {r' : Tree α}
    (hl : Bal l) (hr : Bal r') (h1 : -1 ≤ b) (h2 : b ≤ 1)
    (hb : b = ((height r' : Int) + 1) - height l) :
    ∃ t s, delRetraceRight l k p b r' = some (t, s) ∧ Bal t ∧
      height t + (if s then 1 else 0) = max (height l) (height r' + 1) + 1 := by
  unfold delRetraceRight
  by_cases c1 : b < 0
  · simp only [c1, if_true]
    have hh : height l = height r' + 2 := by omega
    by_cases c2 : rootBal l > 0
    · obtain ⟨t, e, bt, ht, _⟩ := rotateLeftRight_bal (k := k) (p := p) hr hl hh c2
      have : rootBal l ≠ 0 := by omega
      refine ⟨t, true, by simp [c2, e, this], bt, ?_⟩
      simp; omega
    · obtain ⟨t, e, bt, ht, _⟩ := rotateRight_bal (k := k) (p := p) hr hl hh (by omega)
      by_cases c3 : rootBal l = 0
      · refine ⟨t, false, by simp [e, c3], bt, ?_⟩
        simp [c3] at ht
        simp; omega
      · refine ⟨t, true, by simp [c2, e, c3], bt, ?_⟩
        simp [c3] at ht
        simp; omega
  · simp only [c1, if_false]
    refine ⟨_, _, rfl, ⟨hl, hr, by omega, by omega, by omega⟩, ?_⟩
    simp only [height]
    by_cases c3 : b - 1 = -1
    · simp [c3]; omega
    · simp [c3]; omega

theorem ins_bal (t : Tree α) (k : Nat) (p : α) (hb : Bal t) :
    ∃ t' g a, ins t k p = some (t', g, a) ∧ Bal t' ∧
      height t' = height t + (if g then 1 else 0) ∧
      (g = true → 2 ≤ height t' → rootBal t' ≠ 0) := by
  induction t with
  | nil =>
    refine ⟨node nil k p 0 nil, true, true, rfl, ?_, ?_, ?_⟩
    · simp [Bal, height]
    · simp [height]
    · simp [height]
  | node l x xp b r ihl ihr =>
    obtain ⟨hl, hr, hbal, h1, h2⟩ := hb
    unfold ins
    by_cases c1 : x < k
    · simp only [c1, if_true]
      obtain ⟨r', g, a, e, br', hr', nz⟩ := ihr hr
      rw [e]
      cases g with
      | true =>
        simp only [if_true] at hr' ⊢
        obtain ⟨t, g2, e2, bt, ht, nz2⟩ := insRetraceRight_bal (k := x) (p := xp) hl br' h1 h2
          (by omega) (by omega) (nz rfl)
        refine ⟨t, g2, a, by simp [e2], bt, ?_, fun hg _ => nz2 hg⟩
        simp only [height]; rw [ht, hr']; simp
      | false =>
        simp at hr'
        refine ⟨node l x xp b r', false, a, by simp, ⟨hl, br', by omega, h1, h2⟩, ?_, by simp⟩
        simp [height, hr']
    · simp only [c1, if_false]
      by_cases c2 : k < x
      · simp only [c2, if_true]
        obtain ⟨l', g, a, e, bl', hl', nz⟩ := ihl hl
        rw [e]
        cases g with
        | true =>
          simp only [if_true] at hl' ⊢
          obtain ⟨t, g2, e2, bt, ht, nz2⟩ := insRetraceLeft_bal (k := x) (p := xp) bl' hr h1 h2
            (by omega) (by omega) (nz rfl)
          refine ⟨t, g2, a, by simp [e2], bt, ?_, fun hg _ => nz2 hg⟩
          simp only [height]; rw [ht, hl']; simp
        | false =>
          simp at hl'
          refine ⟨node l' x xp b r, false, a, by simp, ⟨bl', hr, by omega, h1, h2⟩, ?_, by simp⟩
          simp [height, hl']
      · simp only [c2, if_false]
        exact ⟨_, false, false, rfl, ⟨hl, hr, hbal, h1, h2⟩, by simp [height], by simp⟩

theorem delMin_bal (t : Tree α) (hb : Bal t) (hne : t ≠ nil) :
    ∃ t' mk mp s, delMin t = some (t', mk, mp, s) ∧ Bal t' ∧
      height t' + (if s then 1 else 0) = height t := by
  induction t with
  | nil => exact absurd rfl hne
  | node l x xp b r ihl _ =>
    obtain ⟨hl, hr, hbal, h1, h2⟩ := hb
    cases l with
    | nil =>
      refine ⟨r, x, xp, true, rfl, hr, ?_⟩
      simp [height]
    | node ll lk lp lb lr =>
      obtain ⟨l', mk, mp, s, e, bl', hl'⟩ := ihl hl (by simp)
      unfold delMin
      rw [e]
      cases s with
      | true =>
        simp only [if_true] at hl' ⊢
        obtain ⟨t, s2, e2, bt, ht⟩ := delRetraceLeft_bal (k := x) (p := xp) bl' hr h1 h2 (by omega)
        refine ⟨t, mk, mp, s2, by simp [e2], bt, ?_⟩
        rw [ht]; simp only [height] at hl' ⊢; omega
      | false =>
        simp at hl'
        refine ⟨node l' x xp b r, mk, mp, false, by simp, ⟨bl', hr, by omega, h1, h2⟩, ?_⟩
        simp only [height] at hl' ⊢; simp; omega

theorem del_bal (t : Tree α) (k : Nat) (hb : Bal t) :
    ∃ t' s f, del t k = some (t', s, f) ∧ Bal t' ∧
      height t' + (if s then 1 else 0) = height t := by
  induction t with
  | nil => exact ⟨nil, false, false, rfl, trivial, by simp⟩
  | node l x xp b r ihl ihr =>
    obtain ⟨hl, hr, hbal, h1, h2⟩ := hb
    unfold del
    by_cases c1 : x < k
    · simp only [c1, if_true]
      obtain ⟨r', s, f, e, br', hr'⟩ := ihr hr
      rw [e]
      cases s with
      | true =>
        simp only [if_true] at hr' ⊢
        obtain ⟨t, s2, e2, bt, ht⟩ := delRetraceRight_bal (k := x) (p := xp) hl br' h1 h2 (by omega)
        refine ⟨t, s2, f, by simp [e2], bt, ?_⟩
        rw [ht]; simp only [height]; omega
      | false =>
        simp at hr'
        refine ⟨node l x xp b r', false, f, by simp, ⟨hl, br', by omega, h1, h2⟩, ?_⟩
        simp [height, hr']
    · simp only [c1, if_false]
      by_cases c2 : k < x
      · simp only [c2, if_true]
        obtain ⟨l', s, f, e, bl', hl'⟩ := ihl hl
        rw [e]
        cases s with
        | true =>
          simp only [if_true] at hl' ⊢
          obtain ⟨t, s2, e2, bt, ht⟩ := delRetraceLeft_bal (k := x) (p := xp) bl' hr h1 h2 (by omega)
          refine ⟨t, s2, f, by simp [e2], bt, ?_⟩
          rw [ht]; simp only [height]; omega
        | false =>
          simp at hl'
          refine ⟨node l' x xp b r, false, f, by simp, ⟨bl', hr, by omega, h1, h2⟩, ?_⟩
          simp [height, hl']
      · simp only [c2, if_false]
        cases l with
        | nil =>
          refine ⟨r, true, true, by simp, hr, ?_⟩
          simp [height]
        | node ll lk lp lb lr =>
          cases r with
          | nil =>
            refine ⟨node ll lk lp lb lr, true, true, by simp, hl, ?_⟩
            simp [height]
          | node rl rk rp rb rr =>
            obtain ⟨r', mk, mp, s, e, br', hr'⟩ := delMin_bal _ hr (by simp)
            simp only [e]
            cases s with
            | true =>
              simp only [if_true] at hr' ⊢
              obtain ⟨t, s2, e2, bt, ht⟩ := delRetraceRight_bal (k := mk) (p := mp) hl br' h1 h2 (by omega)
              refine ⟨t, s2, true, by simp [e2], bt, ?_⟩
              rw [ht]; simp only [height] at hr' ⊢; omega
            | false =>
              simp at hr'
              refine ⟨node (node ll lk lp lb lr) mk mp b r', false, true, by simp, ⟨hl, br', by omega, h1, h2⟩, ?_⟩
              simp only [height] at hr' ⊢; simp; omega

/-! ## the `added` / `found` flags and the length counter -/

theorem ins_length {t : Tree α} {k : Nat} {p : α} {t' : Tree α} {g a : Bool}
    (h : ins t k p = some (t', g, a)) :
    (toList t').length = (toList t).length + (if a then 1 else 0) := by
  induction t generalizing t' g a with
  | nil =>
    simp [ins] at h; obtain ⟨rfl, _, rfl⟩ := h
    simp [toList]
  | node l x xp b r ihl ihr =>
    unfold ins at h
    split at h
    · split at h
      · simp at h
      · rename_i r' grew added hr
        have ih := ihr hr
        split at h
        · split at h
          · rename_i t2 g2 hrt
            simp at h; obtain ⟨rfl, _, rfl⟩ := h
            rw [insRetraceRight_toList hrt]; simp [toList, ih]; omega
          · simp at h
        · simp at h; obtain ⟨rfl, _, rfl⟩ := h
          simp [toList, ih]; omega
    · split at h
      · split at h
        · simp at h
        · rename_i l' grew added hl'
          have ih := ihl hl'
          split at h
          · split at h
            · rename_i t2 g2 hrt
              simp at h; obtain ⟨rfl, _, rfl⟩ := h
              rw [insRetraceLeft_toList hrt]; simp [toList, ih]; omega
            · simp at h
          · simp at h; obtain ⟨rfl, _, rfl⟩ := h
            simp [toList, ih]; omega
      · simp at h; obtain ⟨rfl, _, rfl⟩ := h
        simp [toList]

theorem del_length {t : Tree α} {k : Nat} {t' : Tree α} {s f : Bool}
    (h : del t k = some (t', s, f)) :
    (toList t').length + (if f then 1 else 0) = (toList t).length := by
  induction t generalizing t' s f with
  | nil =>
    simp [del] at h; obtain ⟨rfl, _, rfl⟩ := h
    simp [toList]
  | node l x xp b r ihl ihr =>
    unfold del at h
    split at h
    · split at h
      · simp at h
      · rename_i r' sh found hr'
        have ih := ihr hr'
        split at h
        · split at h
          · rename_i t2 s2 hrt
            simp at h; obtain ⟨rfl, _, rfl⟩ := h
            rw [delRetraceRight_toList hrt]; simp [toList]; omega
          · simp at h
        · simp at h; obtain ⟨rfl, _, rfl⟩ := h
          simp [toList]; omega
    · split at h
      · split at h
        · simp at h
        · rename_i l' sh found hl'
          have ih := ihl hl'
          split at h
          · split at h
            · rename_i t2 s2 hrt
              simp at h; obtain ⟨rfl, _, rfl⟩ := h
              rw [delRetraceLeft_toList hrt]; simp [toList]; omega
            · simp at h
          · simp at h; obtain ⟨rfl, _, rfl⟩ := h
            simp [toList]; omega
      · split at h
        · split at h
          · simp at h
          · rename_i r' mk mp sh hr'
            have e := delMin_toList hr'
            split at h
            · split at h
              · rename_i t2 s2 hrt
                simp at h; obtain ⟨rfl, _, rfl⟩ := h
                rw [delRetraceRight_toList hrt]
                simp only [toList] at e ⊢
                simp [e]; omega
              · simp at h
            · simp at h; obtain ⟨rfl, _, rfl⟩ := h
              simp only [toList] at e ⊢
              simp [e]; omega
        · simp at h; obtain ⟨rfl, _, rfl⟩ := h
          simp [toList]; omega
        · simp at h; obtain ⟨rfl, _, rfl⟩ := h
          simp [toList]

namespace SM

theorem length_erase (m : SortedMap.SMap α) (k : Nat) :
    (SortedMap.erase m k).length + (if k ∈ SortedMap.keys m then 1 else 0) = m.length := by
  induction m with
  | nil => simp [SortedMap.erase, SortedMap.keys]
  | cons a m ih =>
    obtain ⟨a, ap⟩ := a
    by_cases h1 : a = k
    · simp [SortedMap.erase, h1, SortedMap.keys]
    · have h2 : ¬ k = a := fun h => h1 h.symm
      simp only [SortedMap.erase, h1, if_false, List.length_cons, SortedMap.keys, List.map_cons,
        List.mem_cons, h2, false_or]
      simp only [SortedMap.keys] at ih
      by_cases hm : k ∈ List.map (fun x => x.fst) m <;> simp [hm] at ih ⊢ <;> omega

end SM

/-- `DeleteKey` reports a removal exactly when the key was there -/
theorem del_found {t : Tree α} {k : Nat} {t' : Tree α} {s f : Bool}
    (h : del t k = some (t', s, f)) (hb : Bst t) : f = true ↔ k ∈ keys t := by
  have h1 := del_length h
  have h2 := SM.length_erase (toList t) k
  rw [← del_toList h hb] at h2
  rw [keys_eq]
  simp only [SortedMap.keys] at h2
  cases f <;> by_cases hm : k ∈ List.map (fun x => x.fst) (toList t) <;> simp [hm] at h1 h2 ⊢ <;> omega

/-! ## the iterator's walks are the sorted-list cursor functions -/

theorem min_eq (t : Tree α) : t.min = (toList t).head? := by
  induction t with
  | nil => rfl
  | node l k p b r ihl _ =>
    simp only [Tree.min, toList, ihl, List.head?_append]
    cases (toList l).head? <;> simp

theorem find_none_of_lt {l : Tree α} {x : Nat} (hl : ∀ e ∈ toList l, e.1 < x) (q : Nat → Bool)
    (hq : ∀ y, y < x → q y = false) : (toList l).find? (fun e => q e.1) = none := by
  rw [List.find?_eq_none]
  intro e he
  simp [hq e.1 (hl e he)]

theorem lowerBound_eq (t : Tree α) (key : Nat) (hb : Bst t) :
    t.lowerBound key = SortedMap.lowerBound (toList t) key := by
  induction t with
  | nil => rfl
  | node l x xp b r ihl ihr =>
    obtain ⟨hbl, hbr, hlt, hgt⟩ := hb
    have hl : ∀ e ∈ toList l, e.1 < x := fun e he => hlt _ (mem_keys_of_mem_toList he)
    simp only [Tree.lowerBound, SortedMap.lowerBound, toList, List.find?_append, List.find?_cons]
    by_cases c1 : x < key
    · have hn : (toList l).find? (fun e => decide (key ≤ e.1)) = none :=
        find_none_of_lt hl (fun y => decide (key ≤ y)) (fun y hy => by simp; omega)
      have : ¬ key ≤ x := by omega
      simp [c1, hn, this, ihr hbr, SortedMap.lowerBound]
    · by_cases c2 : key < x
      · have : key ≤ x := by omega
        simp only [c1, c2, if_false, if_true, ihl hbl, SortedMap.lowerBound, this, decide_true]
        cases (toList l).find? (fun e => decide (key ≤ e.1)) <;> simp
      · have hxk : x = key := by omega
        subst hxk
        have hn : (toList l).find? (fun e => decide (x ≤ e.1)) = none :=
          find_none_of_lt hl (fun y => decide (x ≤ y)) (fun y hy => by simp; omega)
        simp [hn]

theorem succ_eq (t : Tree α) (c : Nat) (hb : Bst t) :
    t.succ c = SortedMap.succ (toList t) (some c) := by
  induction t with
  | nil => rfl
  | node l x xp b r ihl ihr =>
    obtain ⟨hbl, hbr, hlt, hgt⟩ := hb
    have hl : ∀ e ∈ toList l, e.1 < x := fun e he => hlt _ (mem_keys_of_mem_toList he)
    simp only [Tree.succ, SortedMap.succ, toList, List.find?_append, List.find?_cons]
    by_cases c1 : c < x
    · simp only [c1, if_true, ihl hbl, SortedMap.succ, decide_true]
      cases (toList l).find? (fun e => decide (c < e.1)) <;> simp
    · have hn : (toList l).find? (fun e => decide (c < e.1)) = none :=
        find_none_of_lt hl (fun y => decide (c < y)) (fun y hy => by simp; omega)
      simp [c1, hn, ihr hbr, SortedMap.succ]

end B6.Lemmas.Avl
