import B6.Lemmas.RefDfs
/-!
World-level reference queries (basic world, `MutableOverlayWorld`) against `ReachPlus` — C15.
-/
namespace B6.Lemmas.RefOverlay
open B6.Model.RefIndex B6.Spec.Referrers B6.Lemmas.RefIndex B6.Lemmas.RefDfs

theorem hasFeature_iff (fs : List Feature) (id : Id) : hasFeature fs id = true ↔ ∃ f ∈ fs, f.id = id := by
  unfold hasFeature findFeature
  rw [List.find?_isSome]
  simp

theorem refers_has {fs : List Feature} {t s : Id} (h : Refers fs t s) : hasFeature fs s = true := by
  obtain ⟨f, hf, hid, _⟩ := h
  exact (hasFeature_iff fs s).mpr ⟨f, hf, hid⟩

theorem reach_has {fs : List Feature} {id s : Id} (h : ReachPlus fs id s) : hasFeature fs s = true := by
  cases h with
  | direct h => exact refers_has h
  | step _ h => exact refers_has h

theorem mem_dedup (l : List Id) (x : Id) : x ∈ dedup l ↔ x ∈ l := by
  induction l with
  | nil => simp [dedup]
  | cons a l ih =>
    simp only [dedup]
    by_cases h : a ∈ dedup l
    · simp only [h, ↓reduceIte, List.mem_cons]
      constructor
      · intro hx; exact Or.inr (ih.mp hx)
      · rintro (rfl | hx)
        · exact h
        · exact ih.mpr hx
    · simp only [h, ↓reduceIte, List.mem_cons, ih]

theorem nodup_dedup (l : List Id) : (dedup l).Nodup := by
  induction l with
  | nil => simp [dedup]
  | cons a l ih =>
    simp only [dedup]
    by_cases h : a ∈ dedup l
    · simp only [h, ↓reduceIte]; exact ih
    · simp only [h, ↓reduceIte]; exact List.nodup_cons.mpr ⟨h, ih⟩

/-- `basicWorld/BasicMutableWorld.FindReferences`: terminates; each referrer once; exactly the current
(transitive) referrers of the requested types. -/
theorem basicFind_spec {ix : Index} {fs : List Feature} (hi : Inv ix fs) (id : Id) (typed : List Nat) :
    ∃ L, basicFind fs ix id typed = some L ∧ L.Nodup ∧
      ∀ s, s ∈ L ↔ (ReachPlus fs id s ∧ typeOk typed s = true) := by
  obtain ⟨L0, h0, hL0⟩ := findReferences_spec ix id typed
  refine ⟨dedup (L0.filter (hasFeature fs)), by simp [basicFind, h0], nodup_dedup _, ?_⟩
  intro s
  rw [mem_dedup, List.mem_filter, hL0 s, reachE_iff_reachPlus hi]
  constructor
  · rintro ⟨h, _⟩; exact h
  · intro h; exact ⟨h, reach_has h.1⟩

/-! ## the overlay -/

theorem reach_mono {fs fs' : List Feature} (hsub : ∀ f ∈ fs, f ∈ fs') {id s : Id} (h : ReachPlus fs id s) :
    ReachPlus fs' id s := by
  induction h with
  | direct h => obtain ⟨f, hf, h1, h2⟩ := h; exact .direct ⟨f, hsub f hf, h1, h2⟩
  | step _ h ih => obtain ⟨f, hf, h1, h2⟩ := h; exact .step ih ⟨f, hsub f hf, h1, h2⟩

theorem reach_trans {fs : List Feature} {a b c : Id} (h1 : ReachPlus fs a b) (h2 : ReachPlus fs b c) :
    ReachPlus fs a c := by
  induction h2 with
  | direct h => exact .step h1 h
  | step _ h ih => exact .step ih h

theorem fold_collect (ix : Index) (typed : List Nat) : ∀ (bs : List Id) (acc : List Id),
    ∃ L, bs.foldl (collectStep ix typed) (some acc) = some L ∧
      ∀ s, s ∈ L ↔ (s ∈ acc ∨ ∃ b ∈ bs, s = b ∨ (ReachE ix b s ∧ typeOk typed s = true)) := by
  intro bs
  induction bs with
  | nil => intro acc; exact ⟨acc, rfl, by simp⟩
  | cons b bs ih =>
    intro acc
    obtain ⟨rs, hrs, hmem⟩ := findReferences_spec ix b typed
    obtain ⟨L, hL, hLm⟩ := ih (acc ++ b :: rs)
    refine ⟨L, by simp only [List.foldl_cons, collectStep, hrs]; exact hL, ?_⟩
    intro s
    rw [hLm s]
    simp only [List.mem_append, List.mem_cons, hmem s]
    constructor
    · rintro ((h | h | h) | ⟨b', hb', h⟩)
      · exact Or.inl h
      · exact Or.inr ⟨b, Or.inl rfl, Or.inl h⟩
      · exact Or.inr ⟨b, Or.inl rfl, Or.inr h⟩
      · exact Or.inr ⟨b', Or.inr hb', h⟩
    · rintro (h | ⟨b', hb' | hb', h⟩)
      · exact Or.inl (Or.inl h)
      · subst hb'
        rcases h with h | h
        · exact Or.inl (Or.inr (Or.inl h))
        · exact Or.inl (Or.inr (Or.inr h))
      · exact Or.inr ⟨b', hb', h⟩

/-- the copy discipline of `MutableOverlayWorld.AddFeature`: a base feature that references an ID
living in the overlay has itself been copied into the overlay. -/
def UpClosed (o : Overlay) : Prop :=
  ∀ y ∈ o.base, hasFeature o.feats y.id = false → ∀ t ∈ y.refs, hasFeature o.feats t = false

theorem mem_merged (o : Overlay) (g : Feature) :
    g ∈ o.merged ↔ (g ∈ o.feats ∨ (g ∈ o.base ∧ hasFeature o.feats g.id = false)) := by
  simp [Overlay.merged, List.mem_append, List.mem_filter]

/-- base reachability of an unshadowed feature survives in the layered world -/
theorem base_reach_merged {o : Overlay} (hup : UpClosed o) {id s : Id} (h : ReachPlus o.base id s)
    (hs : hasFeature o.feats s = false) : ReachPlus o.merged id s := by
  induction h with
  | direct h =>
    obtain ⟨y, hy, h1, h2⟩ := h
    exact .direct ⟨y, (mem_merged o y).mpr (Or.inr ⟨hy, by rw [h1]; exact hs⟩), h1, h2⟩
  | step _ h ih =>
    obtain ⟨y, hy, h1, h2⟩ := h
    have hy' : hasFeature o.feats y.id = false := by rw [h1]; exact hs
    exact .step (ih (hup y hy hy' _ h2)) ⟨y, (mem_merged o y).mpr (Or.inr ⟨hy, hy'⟩), h1, h2⟩

/-- shape of a referrer in the layered world -/
def Shape (o : Overlay) (id s : Id) : Prop :=
  (hasFeature o.feats s = false ∧ ReachPlus o.base id s) ∨
  (hasFeature o.feats s = true ∧
    (ReachPlus o.feats id s ∨ ∃ b, hasFeature o.feats b = false ∧ ReachPlus o.base id b ∧ ReachPlus o.feats b s))

theorem merged_shape {o : Overlay} (hup : UpClosed o) {id s : Id} (h : ReachPlus o.merged id s) : Shape o id s := by
  induction h with
  | direct h =>
    obtain ⟨y, hy, h1, h2⟩ := h
    rcases (mem_merged o y).mp hy with hy | ⟨hy, hsh⟩
    · exact Or.inr ⟨(hasFeature_iff _ _).mpr ⟨y, hy, h1⟩, Or.inl (.direct ⟨y, hy, h1, h2⟩)⟩
    · exact Or.inl ⟨by rw [← h1]; exact hsh, .direct ⟨y, hy, h1, h2⟩⟩
  | @step t s _ h ih =>
    obtain ⟨y, hy, h1, h2⟩ := h
    rcases (mem_merged o y).mp hy with hy | ⟨hy, hsh⟩
    · have hs : hasFeature o.feats s = true := (hasFeature_iff _ _).mpr ⟨y, hy, h1⟩
      have hedge : Refers o.feats t s := ⟨y, hy, h1, h2⟩
      rcases ih with ⟨ht, hb⟩ | ⟨_, hr | ⟨b, hb1, hb2, hb3⟩⟩
      · exact Or.inr ⟨hs, Or.inr ⟨t, ht, hb, .direct hedge⟩⟩
      · exact Or.inr ⟨hs, Or.inl (.step hr hedge)⟩
      · exact Or.inr ⟨hs, Or.inr ⟨b, hb1, hb2, .step hb3 hedge⟩⟩
    · have ht : hasFeature o.feats t = false := hup y hy hsh t h2
      rcases ih with ⟨_, hb⟩ | ⟨ht', _⟩
      · exact Or.inl ⟨by rw [← h1]; exact hsh, .step hb ⟨y, hy, h1, h2⟩⟩
      · rw [ht] at ht'; cases ht'

/-- `MutableOverlayWorld.FindReferences` (after the repairs): terminates, each referrer once, and
exactly the referrers of `id` among the current features of the layered world — provided the
overlay's index is the inverse of the overlay's features and the copy discipline holds. -/
theorem overlay_find_spec (o : Overlay) (hi : Inv o.ix o.feats) (hup : UpClosed o) (id : Id) (typed : List Nat) :
    ∃ L, o.find id typed = some L ∧ L.Nodup ∧
      ∀ s, s ∈ L ↔ (ReachPlus o.merged id s ∧ typeOk typed s = true) := by
  obtain ⟨B, hB, _, hBm⟩ := basicFind_spec (Inv_fill o.base) id []
  obtain ⟨A, hA, hAm⟩ := fold_collect o.ix typed (B.filter (fun b => !hasFeature o.feats b)) []
  obtain ⟨R, hR, hRm⟩ := findReferences_spec o.ix id typed
  have hcollect : o.collect id typed = some (A ++ R) := by
    simp only [Overlay.collect, baseFind, hB, hA, hR]
  refine ⟨dedup (((A ++ R).filter o.has).filter (typeOk typed)), by simp only [Overlay.find, hcollect], nodup_dedup _, ?_⟩
  intro s
  have hfeats_sub : ∀ f ∈ o.feats, f ∈ o.merged := fun f hf => (mem_merged o f).mpr (Or.inl hf)
  have htypeNil : ∀ x, typeOk [] x = true := by intro x; simp [typeOk]
  -- membership in the collected list
  have hmemB : ∀ b, b ∈ B.filter (fun b => !hasFeature o.feats b) ↔
      (ReachPlus o.base id b ∧ hasFeature o.feats b = false) := by
    intro b
    rw [List.mem_filter, hBm b]
    simp [htypeNil]
  rw [mem_dedup, List.mem_filter, List.mem_filter, List.mem_append, hAm s, hRm s]
  constructor
  · rintro ⟨⟨hc, _⟩, hty⟩
    refine ⟨?_, hty⟩
    rcases hc with (h | ⟨b, hb, h⟩) | h
    · cases h
    · obtain ⟨hbr, hbs⟩ := (hmemB b).mp hb
      have hbm := base_reach_merged hup hbr hbs
      rcases h with h | ⟨h, _⟩
      · subst h; exact hbm
      · exact reach_trans hbm (reach_mono hfeats_sub ((reachE_iff_reachPlus hi b s).mp h))
    · exact reach_mono hfeats_sub ((reachE_iff_reachPlus hi id s).mp h.1)
  · rintro ⟨hr, hty⟩
    have hhas : o.has s = true := by
      have := reach_has hr
      rcases (hasFeature_iff _ _).mp this with ⟨g, hg, hgid⟩
      rcases (mem_merged o g).mp hg with hg | ⟨hg, _⟩
      · simp [Overlay.has, (hasFeature_iff o.feats s).mpr ⟨g, hg, hgid⟩]
      · simp [Overlay.has, (hasFeature_iff o.base s).mpr ⟨g, hg, hgid⟩]
    refine ⟨⟨?_, hhas⟩, hty⟩
    rcases merged_shape hup hr with ⟨hs, hb⟩ | ⟨_, hrf | ⟨b, hb1, hb2, hb3⟩⟩
    · exact Or.inl (Or.inr ⟨s, (hmemB s).mpr ⟨hb, hs⟩, Or.inl rfl⟩)
    · exact Or.inr ⟨(reachE_iff_reachPlus hi id s).mpr hrf, hty⟩
    · exact Or.inl (Or.inr ⟨b, (hmemB b).mpr ⟨hb2, hb1⟩, Or.inr ⟨(reachE_iff_reachPlus hi b s).mpr hb3, hty⟩⟩)

end B6.Lemmas.RefOverlay
