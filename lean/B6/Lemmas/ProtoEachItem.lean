import B6.Model.Proto.EachItem
/-! Invariants of the repaired `EachItem` protocol model (helper lemmas for `Props/C28.lean`). -/
namespace B6.Model.Proto.EachItem
open B6.Model.Proto

theorem mem_step {c : Cfg} {s s' : St} : s' ∈ step c s ↔ s.ret = none ∧
    ( (∃ i, inLoop c s ∧ s.ws[i]? = some W.idle ∧ s' = hand c s i)
    ∨ (inLoop c s ∧ 0 < s.tokens ∧ s' = { s with tokens := s.tokens - 1, stopped := true })
    ∨ (s.closed = false ∧ ¬ inLoop c s ∧ s' = { s with closed := true })
    ∨ (s.closed = true ∧ allExited s ∧ s' = { s with ret := some s.cause })
    ∨ (∃ i w, s.ws[i]? = some w ∧ s' ∈ workerStep c s i w)) := by
  unfold step
  cases hr : s.ret with
  | some r => simp
  | none =>
    simp only [Option.isSome_none, Bool.false_eq_true, ↓reduceIte, List.mem_append, mem_forWorkers, mem_guard, true_and]
    constructor
    · rintro ((((⟨i, w, hw, ⟨hl, rfl⟩, rfl⟩ | h) | h) | h) | h)
      · exact Or.inl ⟨i, hl, hw, rfl⟩
      · exact Or.inr (Or.inl ⟨h.1.1, h.1.2, h.2⟩)
      · exact Or.inr (Or.inr (Or.inl ⟨h.1.1, h.1.2, h.2⟩))
      · exact Or.inr (Or.inr (Or.inr (Or.inl ⟨h.1.1, h.1.2, h.2⟩)))
      · exact Or.inr (Or.inr (Or.inr (Or.inr h)))
    · rintro (⟨i, hl, hw, rfl⟩ | h | h | h | h)
      · exact Or.inl (Or.inl (Or.inl (Or.inl ⟨i, _, hw, ⟨hl, rfl⟩, rfl⟩)))
      · exact Or.inl (Or.inl (Or.inl (Or.inr ⟨⟨h.1, h.2.1⟩, h.2.2⟩)))
      · exact Or.inl (Or.inl (Or.inr ⟨⟨h.1, h.2.1⟩, h.2.2⟩))
      · exact Or.inl (Or.inr ⟨⟨h.1, h.2.1⟩, h.2.2⟩)
      · exact Or.inr h

/-- the invariant behind `eachitem_error_reported` and `eachitem_no_deadlock` -/
structure Inv (c : Cfg) (s : St) : Prop where
  len : s.ws.length = c.g
  /-- an error that was returned by a callback is recorded, or its worker is about to record it -/
  err : s.failed = true → s.cause = true ∨ ∃ i : Nat, s.ws[i]? = some W.failing
  /-- the function returns `cause`, after every worker has left -/
  ret : ∀ r, s.ret = some r → r = s.cause ∧ allExited s
  /-- while the feeder has not seen a cancellation, a worker that has left has left a token behind -/
  tok : s.closed = false → s.stopped = false → (∃ i : Nat, s.ws[i]? = some W.exited) → 0 < s.tokens

theorem inv_init (c : Cfg) : Inv c (init c) := by
  refine ⟨by simp [init], by simp [init], by simp [init], ?_⟩
  rintro - - ⟨i, hi⟩
  simp only [init, List.getElem?_replicate] at hi
  split at hi <;> simp at hi

theorem inv_step {c : Cfg} {s s' : St} (I : Inv c s) (h : s' ∈ step c s) : Inv c s' := by
  obtain ⟨hr, h⟩ := mem_step.mp h
  have hret : ∀ r, s.ret = some r → False := by intro r e; rw [hr] at e; cases e
  rcases h with ⟨i, hl, hw, rfl⟩ | ⟨hl, ht, rfl⟩ | ⟨hc, hl, rfl⟩ | ⟨hc, ha, rfl⟩ | ⟨i, w, hw, h⟩
  · -- the feeder hands a bucket to worker i
    refine ⟨by simp [hand, I.len], ?_, ?_, ?_⟩
    · intro hf
      rcases I.err hf with h | ⟨j, hj⟩
      · exact Or.inl h
      · refine Or.inr ⟨j, ?_⟩
        have : j ≠ i := by rintro rfl; rw [hw] at hj; cases hj
        simp only [hand]; rw [List.getElem?_set_ne (Ne.symm this)]; exact hj
    · intro r e; exact (hret r e).elim
    · intro h1 h2 ⟨j, hj⟩
      simp only [hand] at hj
      rcases getElem?_set_some hj with ⟨_, e⟩ | ⟨_, e⟩
      · split at e <;> cases e
      · exact I.tok h1 h2 ⟨j, e⟩
  · -- the feeder takes the cancel token and leaves the loop
    refine ⟨I.len, I.err, fun r e => (hret r e).elim, ?_⟩
    intro _ h2; simp at h2
  · -- close(buckets)
    refine ⟨I.len, I.err, fun r e => (hret r e).elim, ?_⟩
    intro h1; simp at h1
  · -- return
    refine ⟨I.len, I.err, ?_, I.tok⟩
    intro r e; simp only [Option.some.injEq] at e; exact ⟨e.symm, ha⟩
  · -- a worker step
    cases w with
    | idle =>
      simp only [workerStep, mem_guard] at h
      obtain ⟨hc, rfl⟩ := h
      refine ⟨by simp [I.len], ?_, fun r e => (hret r e).elim, ?_⟩
      · intro hf
        rcases I.err hf with h | ⟨j, hj⟩
        · exact Or.inl h
        · refine Or.inr ⟨j, ?_⟩
          have : j ≠ i := by rintro rfl; rw [hw] at hj; cases hj
          simp only; rw [List.getElem?_set_ne (Ne.symm this)]; exact hj
      · intro h1; simp [hc] at h1
    | busy k j =>
      simp only [workerStep] at h
      split at h
      · -- the callback fails
        simp only [List.mem_singleton] at h; subst h
        refine ⟨by simp [I.len], ?_, fun r e => (hret r e).elim, ?_⟩
        · intro _; exact Or.inr ⟨i, getElem?_set_self' hw⟩
        · intro h1 h2 ⟨j', hj⟩
          rcases getElem?_set_some hj with ⟨_, e⟩ | ⟨_, e⟩
          · cases e
          · exact I.tok h1 h2 ⟨j', e⟩
      · have key : ∀ x, x ≠ W.failing → x ≠ W.exited →
            Inv c { s with ws := s.ws.set i x, calls := s.calls + 1, after := if s.failed then s.after + 1 else s.after } := by
          intro x hx1 hx2
          refine ⟨by simp [I.len], ?_, fun r e => (hret r e).elim, ?_⟩
          · intro hf
            rcases I.err hf with h | ⟨j', hj⟩
            · exact Or.inl h
            · refine Or.inr ⟨j', ?_⟩
              have : j' ≠ i := by rintro rfl; rw [hw] at hj; cases hj
              simp only; rw [List.getElem?_set_ne (Ne.symm this)]; exact hj
          · intro h1 h2 ⟨j', hj⟩
            rcases getElem?_set_some hj with ⟨_, e⟩ | ⟨_, e⟩
            · exact (hx2 e.symm).elim
            · exact I.tok h1 h2 ⟨j', e⟩
        split at h <;> (simp only [List.mem_singleton] at h; subst h)
        · exact key _ (by simp) (by simp)
        · exact key _ (by simp) (by simp)
    | failing =>
      simp only [workerStep, List.mem_singleton] at h; subst h
      refine ⟨by simp [I.len], fun _ => Or.inl rfl, fun r e => (hret r e).elim, ?_⟩
      intro _ _ _; simp
    | exited => simp [workerStep] at h

theorem inv_reachable {c : Cfg} {s : St} (h : Reachable (step c) (init c) s) : Inv c s :=
  Reachable.invariant (Inv c) (inv_init c) (fun _ _ I hm => inv_step I hm) s h

end B6.Model.Proto.EachItem
