import B6.Model.Proto.EachItem
import B6.Lemmas.ProtoMeasure
/-! Invariants of the repaired `EachItem` protocol model (helper lemmas for `Props/C28.lean`). -/
namespace B6.Model.Proto.EachItem
open B6.Model.Proto

theorem mem_step {c : Cfg} {s s' : St} : s' ∈ step c s ↔ s.ret = none ∧
    ( (∃ i, inLoop c s ∧ s.ws[i]? = some W.idle ∧ s' = hand c s i)
    ∨ (inLoop c s ∧ 0 < s.tokens ∧ s' = { s with tokens := s.tokens - 1, stopped := true })
    ∨ (s.closed = false ∧ ¬ inLoop c s ∧ s' = { s with closed := true })
    ∨ (s.closed = true ∧ allExited s ∧ s' = { s with ret := some s.cause })
    ∨ (∃ i w, s.ws[i]? = some w ∧ s' ∈ workerStep c s i w)) := by
  unfold step
  cases hr : s.ret with
  | some r => simp
  | none =>
    simp only [Option.isSome_none, Bool.false_eq_true, ↓reduceIte, List.mem_append, mem_forWorkers, mem_guard, true_and]
    constructor
    · rintro ((((⟨i, w, hw, ⟨hl, rfl⟩, rfl⟩ | h) | h) | h) | h)
      · exact Or.inl ⟨i, hl, hw, rfl⟩
      · exact Or.inr (Or.inl ⟨h.1.1, h.1.2, h.2⟩)
      · exact Or.inr (Or.inr (Or.inl ⟨h.1.1, h.1.2, h.2⟩))
      · exact Or.inr (Or.inr (Or.inr (Or.inl ⟨h.1.1, h.1.2, h.2⟩)))
      · exact Or.inr (Or.inr (Or.inr (Or.inr h)))
    · rintro (⟨i, hl, hw, rfl⟩ | h | h | h | h)
      · exact Or.inl (Or.inl (Or.inl (Or.inl ⟨i, _, hw, ⟨hl, rfl⟩, rfl⟩)))
      · exact Or.inl (Or.inl (Or.inl (Or.inr ⟨⟨h.1, h.2.1⟩, h.2.2⟩)))
      · exact Or.inl (Or.inl (Or.inr ⟨⟨h.1, h.2.1⟩, h.2.2⟩))
      · exact Or.inl (Or.inr ⟨⟨h.1, h.2.1⟩, h.2.2⟩)
      · exact Or.inr h

/-- the invariant behind `eachitem_error_reported` and `eachitem_no_deadlock` -/
structure Inv (c : Cfg) (s : St) : Prop where
  len : s.ws.length = c.g
  /-- an error that was returned by a callback is recorded, or its worker is about to record it -/
  err : s.failed = true → s.cause = true ∨ ∃ i : Nat, s.ws[i]? = some W.failing
  /-- the function returns `cause`, after every worker has left -/
  ret : ∀ r, s.ret = some r → r = s.cause ∧ allExited s
  /-- while the feeder has not seen a cancellation, a worker that has left has left a token behind -/
  tok : s.closed = false → s.stopped = false → (∃ i : Nat, s.ws[i]? = some W.exited) → 0 < s.tokens

theorem inv_init (c : Cfg) : Inv c (init c) := by
  refine ⟨by simp [init], by simp [init], by simp [init], ?_⟩
  rintro - - ⟨i, hi⟩
  simp only [init, List.getElem?_replicate] at hi
  split at hi <;> simp at hi

theorem inv_step {c : Cfg} {s s' : St} (I : Inv c s) (h : s' ∈ step c s) : Inv c s' := by
  obtain ⟨hr, h⟩ := mem_step.mp h
  have hret : ∀ r, s.ret = some r → False := by intro r e; rw [hr] at e; cases e
  rcases h with ⟨i, hl, hw, rfl⟩ | ⟨hl, ht, rfl⟩ | ⟨hc, hl, rfl⟩ | ⟨hc, ha, rfl⟩ | ⟨i, w, hw, h⟩
  · -- the feeder hands a bucket to worker i
    refine ⟨by simp [hand, I.len], ?_, ?_, ?_⟩
    · intro hf
      rcases I.err hf with h | ⟨j, hj⟩
      · exact Or.inl h
      · refine Or.inr ⟨j, ?_⟩
        have : j ≠ i := by rintro rfl; rw [hw] at hj; cases hj
        simp only [hand]; rw [List.getElem?_set_ne (Ne.symm this)]; exact hj
    · intro r e; exact (hret r e).elim
    · intro h1 h2 ⟨j, hj⟩
      simp only [hand] at hj
      rcases getElem?_set_some hj with ⟨_, e⟩ | ⟨_, e⟩
      · split at e <;> cases e
      · exact I.tok h1 h2 ⟨j, e⟩
  · -- the feeder takes the cancel token and leaves the loop
    refine ⟨I.len, I.err, fun r e => (hret r e).elim, ?_⟩
    intro _ h2; simp at h2
  · -- close(buckets)
    refine ⟨I.len, I.err, fun r e => (hret r e).elim, ?_⟩
    intro h1; simp at h1
  · -- return
    refine ⟨I.len, I.err, ?_, I.tok⟩
    intro r e; simp only [Option.some.injEq] at e; exact ⟨e.symm, ha⟩
  · -- a worker step
    cases w with
    | idle =>
      simp only [workerStep, mem_guard] at h
      obtain ⟨hc, rfl⟩ := h
      refine ⟨by simp [I.len], ?_, fun r e => (hret r e).elim, ?_⟩
      · intro hf
        rcases I.err hf with h | ⟨j, hj⟩
        · exact Or.inl h
        · refine Or.inr ⟨j, ?_⟩
          have : j ≠ i := by rintro rfl; rw [hw] at hj; cases hj
          simp only; rw [List.getElem?_set_ne (Ne.symm this)]; exact hj
      · intro h1; simp [hc] at h1
    | busy k j =>
      simp only [workerStep] at h
      split at h
      · -- the callback fails
        simp only [List.mem_singleton] at h; subst h
        refine ⟨by simp [I.len], ?_, fun r e => (hret r e).elim, ?_⟩
        · intro _; exact Or.inr ⟨i, getElem?_set_self' hw⟩
        · intro h1 h2 ⟨j', hj⟩
          rcases getElem?_set_some hj with ⟨_, e⟩ | ⟨_, e⟩
          · cases e
          · exact I.tok h1 h2 ⟨j', e⟩
      · have key : ∀ x, x ≠ W.failing → x ≠ W.exited →
            Inv c { s with ws := s.ws.set i x, calls := s.calls + 1, after := if s.failed then s.after + 1 else s.after } := by
          intro x hx1 hx2
          refine ⟨by simp [I.len], ?_, fun r e => (hret r e).elim, ?_⟩
          · intro hf
            rcases I.err hf with h | ⟨j', hj⟩
            · exact Or.inl h
            · refine Or.inr ⟨j', ?_⟩
              have : j' ≠ i := by rintro rfl; rw [hw] at hj; cases hj
              simp only; rw [List.getElem?_set_ne (Ne.symm this)]; exact hj
          · intro h1 h2 ⟨j', hj⟩
            rcases getElem?_set_some hj with ⟨_, e⟩ | ⟨_, e⟩
            · exact (hx2 e.symm).elim
            · exact I.tok h1 h2 ⟨j', e⟩
        split at h <;> (simp only [List.mem_singleton] at h; subst h)
        · exact key _ (by simp) (by simp)
        · exact key _ (by simp) (by simp)
    | failing =>
      simp only [workerStep, List.mem_singleton] at h; subst h
      refine ⟨by simp [I.len], fun _ => Or.inl rfl, fun r e => (hret r e).elim, ?_⟩
      intro _ _ _; simp
    | exited => simp [workerStep] at h

theorem inv_reachable {c : Cfg} {s : St} (h : Reachable (step c) (init c) s) : Inv c s :=
  Reachable.invariant (Inv c) (inv_init c) (fun _ _ I hm => inv_step I hm) s h

/-! ### a measure that every step decreases -/

def wweight (c : Cfg) : W → Nat
  | .idle => 1
  | .busy k j => (c.size k - j) + 2
  | .failing => 1
  | .exited => 0

/-- `size k + 2` per bucket not yet handed out, the callbacks left (+2) per busy worker, 1 per worker that has not
left, 1 each for the feeder's `break feed`, `close` and `return` -/
def measure (c : Cfg) (s : St) : Nat :=
  pending (fun k => c.size k + 2) c.n s.next + (s.ws.map (wweight c)).sum
    + flag s.stopped + flag s.closed + flag s.ret.isSome

theorem measure_step {c : Cfg} {s s' : St} (h : s' ∈ step c s) : measure c s' < measure c s := by
  obtain ⟨hr, h⟩ := mem_step.mp h
  rcases h with ⟨i, hl, hw, rfl⟩ | ⟨hl, ht, rfl⟩ | ⟨hc, hl, rfl⟩ | ⟨hc, ha, rfl⟩ | ⟨i, w, hw, h⟩
  · -- hand
    have hp := pending_succ (fun k => c.size k + 2) hl.2.2
    have hs := sum_map_set' (wweight c) s.ws i W.idle (if c.size s.next = 0 then W.idle else W.busy s.next 0) hw
    simp only [measure, hand]
    by_cases hz : c.size s.next = 0
    · simp only [hz, ↓reduceIte, wweight] at hs ⊢; omega
    · simp only [hz, ↓reduceIte, wweight] at hs ⊢; omega
  · simp only [measure, hl.2.1, flag]; simp
  · simp only [measure, hc, flag]; simp
  · simp only [measure, hr, flag]; simp
  · have key : ∀ x : W, wweight c x < wweight c w →
        (((s.ws.set i x).map (wweight c)).sum < (s.ws.map (wweight c)).sum) := by
      intro x hx
      have := sum_map_set' (wweight c) s.ws i w x hw
      omega
    cases w with
    | idle =>
      simp only [workerStep, mem_guard] at h; obtain ⟨_, rfl⟩ := h
      have := key W.exited (by simp [wweight])
      simp only [measure]; omega
    | busy k j =>
      simp only [workerStep] at h
      split at h
      · simp only [List.mem_singleton] at h; subst h
        have := key W.failing (by simp [wweight])
        simp only [measure]; omega
      · split at h <;> (simp only [List.mem_singleton] at h; subst h)
        · next hj =>
          have := key (W.busy k (j + 1)) (by simp only [wweight]; omega)
          simp only [measure]; omega
        · have := key W.idle (by simp [wweight])
          simp only [measure]; omega
    | failing =>
      simp only [workerStep, List.mem_singleton] at h; subst h
      have := key W.exited (by simp [wweight])
      simp only [measure]; omega
    | exited => simp [workerStep] at h

end B6.Model.Proto.EachItem
