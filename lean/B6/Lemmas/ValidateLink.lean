import B6.Lemmas.ValidateEdits
import B6.Lemmas.RefWorld
/-!
C37 ↔ C15: the reference skeleton of the validation skeleton; a referrer set that is exactly the
transitive referrers (what C15 proves of `FindReferences`) is closed in the sense `edits_valid_with` needs.
-/
namespace B6.Lemmas.ValidateLink
open B6.Model.Validate B6.Lemmas.Validate B6.Lemmas.ValidateEdits
open B6.Spec.Referrers

/-- the reference skeleton (C15) of a feature of the validation skeleton -/
def toRef (f : Feat) : B6.Model.RefIndex.Feature := ⟨f.id, refsOf f⟩

abbrev view (w : World) : List B6.Model.RefIndex.Feature := w.map toRef

theorem refers_view (w : World) (t s : Id) : Refers (view w) t s ↔ ∃ f ∈ w, f.id = s ∧ t ∈ refsOf f := by
  simp only [Refers, view, List.mem_map]
  constructor
  · rintro ⟨g, ⟨f, hf, rfl⟩, h1, h2⟩; exact ⟨f, hf, h1, h2⟩
  · rintro ⟨f, hf, h1, h2⟩; exact ⟨toRef f, ⟨f, hf, rfl⟩, h1, h2⟩

/-- a set that is exactly the transitive referrers of `id` (what C15 proves of `FindReferences`) is
closed under "references `id` or a member" -/
theorem closed_of_reach (w : World) (id : Id) (R : List Id)
    (hR : ∀ s, s ∈ R ↔ ReachPlus (view w) id s) : closedSet w id R = true := by
  simp only [closedSet, List.all_eq_true, decide_eq_true_eq]
  intro s hs
  simp only [directRefs, List.mem_map, List.mem_filter, List.any_eq_true, Bool.or_eq_true,
    decide_eq_true_eq] at hs
  obtain ⟨f, ⟨hf, t, ht, htt⟩, rfl⟩ := hs
  rw [hR]
  rcases htt with rfl | htt
  · exact .direct ((refers_view w _ _).mpr ⟨f, hf, rfl, ht⟩)
  · exact .step ((hR t).mp htt) ((refers_view w _ _).mpr ⟨f, hf, rfl, ht⟩)

theorem reach_congr {fs fs' : List B6.Model.RefIndex.Feature} (h : ∀ g, g ∈ fs ↔ g ∈ fs') (id s : Id) :
    ReachPlus fs id s ↔ ReachPlus fs' id s :=
  ⟨B6.Lemmas.RefOverlay.reach_mono (fun g hg => (h g).mp hg), B6.Lemmas.RefOverlay.reach_mono (fun g hg => (h g).mpr hg)⟩

end B6.Lemmas.ValidateLink
