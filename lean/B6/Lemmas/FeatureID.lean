import B6.Model.FeatureID
/-! Helper lemmas for C31 (decimal printing/parsing, index/lastIndex, lexicographic order, sorting,
bit packing of postcodes and ONS codes).  Core Lean only. -/
namespace B6.Lemmas.FeatureID
open B6.Model.FeatureID

/-! ## decimal -/

theorem digitsLE_fuel : ∀ (f g n : Nat), n < f → n < g → digitsLE f n = digitsLE g n := by
  intro f
  induction f with
  | zero => intro g n h; omega
  | succ f ih =>
    intro g n hf hg
    cases g with
    | zero => omega
    | succ g =>
      simp only [digitsLE]
      by_cases h0 : n / 10 = 0
      · simp [h0]
      · simp only [h0, ↓reduceIte]
        rw [ih g (n / 10) (by omega) (by omega)]

theorem dec_lt10 (n : Nat) (h : n < 10) : dec n = [48 + n] := by
  have h0 : n / 10 = 0 := by omega
  have hm : n % 10 = n := by omega
  simp [dec, digitsLE, h0, hm]

theorem dec_step (n : Nat) (h : 10 ≤ n) : dec n = dec (n / 10) ++ [48 + n % 10] := by
  have h0 : ¬ n / 10 = 0 := by omega
  have e : digitsLE (n + 1) n = (n % 10) :: digitsLE n (n / 10) := by
    simp only [digitsLE, h0, ↓reduceIte]
  unfold dec
  rw [e, digitsLE_fuel n (n / 10 + 1) (n / 10) (by omega) (by omega)]
  simp

def stepDigit (v c : Nat) : Option Nat :=
  if isDigit c then (if v * 10 + (c - 48) ≥ 2 ^ 64 then none else some (v * 10 + (c - 48))) else none

theorem parseDigits_snoc (s : Bytes) (c a : Nat) :
    parseDigits (s ++ [c]) a = (parseDigits s a).bind (fun v => stepDigit v c) := by
  induction s generalizing a with
  | nil =>
    simp only [List.nil_append, parseDigits, stepDigit, Option.bind]
  | cons x xs ih =>
    simp only [List.cons_append, parseDigits]
    split
    · split
      · rfl
      · exact ih _
    · rfl

theorem parseDigits_dec : ∀ (n : Nat), n < 2 ^ 64 → parseDigits (dec n) 0 = some n := by
  intro n
  induction n using Nat.strongRecOn with
  | _ n ih =>
    intro hn
    by_cases h : n < 10
    · rw [dec_lt10 n h]
      have : isDigit (48 + n) = true := by simp [isDigit]; omega
      simp only [parseDigits, this, ↓reduceIte]
      have h2 : ¬ (0 * 10 + (48 + n - 48) ≥ 2 ^ 64) := by omega
      simp only [h2, ↓reduceIte]
      congr 1; omega
    · rw [dec_step n (by omega), parseDigits_snoc, ih (n / 10) (by omega) (by omega)]
      have : isDigit (48 + n % 10) = true := by simp [isDigit]; omega
      simp only [Option.bind, stepDigit, this, ↓reduceIte]
      have h2 : ¬ (n / 10 * 10 + (48 + n % 10 - 48) ≥ 2 ^ 64) := by omega
      simp only [h2, ↓reduceIte]
      congr 1; omega

theorem dec_ne_nil (n : Nat) : dec n ≠ [] := by
  by_cases h : n < 10
  · rw [dec_lt10 n h]; simp
  · rw [dec_step n (by omega)]; simp

theorem parseUint_dec (n : Nat) (h : n < 2 ^ 64) : parseUint (dec n) = some n := by
  simp [parseUint, dec_ne_nil, parseDigits_dec n h]

theorem dec_digits : ∀ (n : Nat), ∀ c ∈ dec n, 48 ≤ c ∧ c ≤ 57 := by
  intro n
  induction n using Nat.strongRecOn with
  | _ n ih =>
    intro c hc
    by_cases h : n < 10
    · rw [dec_lt10 n h] at hc
      simp at hc; omega
    · rw [dec_step n (by omega)] at hc
      simp only [List.mem_append, List.mem_cons, List.not_mem_nil, or_false] at hc
      rcases hc with hc | hc
      · exact ih (n / 10) (by omega) c hc
      · omega

theorem slash_not_mem_dec (n : Nat) : 47 ∉ dec n := by
  intro h
  have := dec_digits n 47 h
  omega

/-! ## Index / LastIndex and the string form -/

theorem indexOf_append_not_mem (c : Nat) (l r : Bytes) (h : c ∉ l) :
    indexOf c (l ++ c :: r) = some l.length := by
  induction l with
  | nil => simp [indexOf]
  | cons x xs ih =>
    have hx : x ≠ c := by intro e; apply h; simp [e]
    have hxs : c ∉ xs := by intro e; apply h; simp [e]
    simp [indexOf, hx, ih hxs]

theorem lastIndexOf_append_not_mem (c : Nat) (l r : Bytes) (h : c ∉ r) :
    lastIndexOf c (l ++ c :: r) = some l.length := by
  have e : (l ++ c :: r).reverse = r.reverse ++ c :: l.reverse := by simp
  have h' : c ∉ r.reverse := by simpa using h
  simp only [lastIndexOf, e, indexOf_append_not_mem c _ _ h', Option.map, List.length_append,
    List.length_cons, List.length_reverse]
  congr 1; omega

theorem name_no_slash (t : FType) : 47 ∉ t.name := by cases t <;> decide

theorem stripSlash_name (t : FType) (rest : Bytes) : stripSlash (t.name ++ rest) = t.name ++ rest := by
  cases t <;> rfl

theorem ftypeFromString_name (t : FType) : ftypeFromString t.name = t := by cases t <;> decide

theorem fromString_idString (f : FeatureID) (hv : f.value < 2 ^ 64) (ht : f.type ≠ .invalid) :
    fromString (idString f) = f := by
  obtain ⟨t, ns, v⟩ := f
  simp only at hv ht
  have hi : indexOf 47 (t.name ++ 47 :: (ns ++ 47 :: dec v)) = some t.name.length :=
    indexOf_append_not_mem 47 _ _ (name_no_slash t)
  have es : t.name ++ 47 :: (ns ++ 47 :: dec v) = (t.name ++ 47 :: ns) ++ 47 :: dec v := by simp
  have hj : lastIndexOf 47 (t.name ++ 47 :: (ns ++ 47 :: dec v)) = some (t.name.length + 1 + ns.length) := by
    rw [es, lastIndexOf_append_not_mem 47 _ _ (slash_not_mem_dec v)]
    simp; omega
  have hne : ¬ t.name.length = t.name.length + 1 + ns.length := by omega
  have htake : (t.name ++ 47 :: (ns ++ 47 :: dec v)).take t.name.length = t.name :=
    List.take_left' rfl
  have hdrop : (t.name ++ 47 :: (ns ++ 47 :: dec v)).drop (t.name.length + 1 + ns.length + 1) = dec v := by
    have : t.name ++ 47 :: (ns ++ 47 :: dec v) = (t.name ++ 47 :: ns ++ [47]) ++ dec v := by simp
    rw [this]; apply List.drop_left'; simp; omega
  have hmid : ((t.name ++ 47 :: (ns ++ 47 :: dec v)).take (t.name.length + 1 + ns.length)).drop
      (t.name.length + 1) = ns := by
    rw [es, List.take_left' (by simp; omega)]
    have : t.name ++ 47 :: ns = (t.name ++ [47]) ++ ns := by simp
    rw [this]; apply List.drop_left'; simp
  simp only [fromString, idString, stripSlash_name, hi, hj, hne, ↓reduceIte, htake,
    ftypeFromString_name, ht, hdrop, parseUint_dec v hv, hmid]

/-! ## the order -/

theorem lexLt_irrefl (a : Bytes) : lexLt a a = false := by
  induction a with
  | nil => rfl
  | cons x xs ih => simp [lexLt, ih]

theorem lexLt_trans : ∀ (a b c : Bytes), lexLt a b = true → lexLt b c = true → lexLt a c = true := by
  intro a
  induction a with
  | nil =>
    intro b c hab hbc
    cases b with
    | nil => simp [lexLt] at hab
    | cons y ys => cases c with
      | nil => simp [lexLt] at hbc
      | cons z zs => rfl
  | cons x xs ih =>
    intro b c hab hbc
    cases b with
    | nil => simp [lexLt] at hab
    | cons y ys =>
      cases c with
      | nil => simp [lexLt] at hbc
      | cons z zs =>
        simp only [lexLt] at hab hbc ⊢
        by_cases h1 : x < y
        · by_cases h2 : y < z
          · have : x < z := by omega
            simp [this]
          · by_cases h3 : y = z
            · subst h3; simp [h1]
            · simp [h2, h3] at hbc
        · by_cases h1' : x = y
          · subst h1'
            simp only [h1, ↓reduceIte] at hab
            by_cases h2 : x < z
            · simp [h2]
            · by_cases h3 : x = z
              · subst h3
                simp only [h2, ↓reduceIte] at hbc ⊢
                exact ih ys zs hab hbc
              · simp [h2, h3] at hbc
          · simp [h1, h1'] at hab

theorem lexLt_trichotomy : ∀ (a b : Bytes), lexLt a b = true ∨ a = b ∨ lexLt b a = true := by
  intro a
  induction a with
  | nil => intro b; cases b <;> simp [lexLt]
  | cons x xs ih =>
    intro b
    cases b with
    | nil => simp [lexLt]
    | cons y ys =>
      simp only [lexLt]
      by_cases h1 : x < y
      · simp [h1]
      · by_cases h2 : x = y
        · subst h2
          rcases ih ys with h | h | h
          · simp [h]
          · simp [h]
          · simp [h]
        · have : y < x := by omega
          simp [this]

theorem lexLt_asymm (a b : Bytes) (h : lexLt a b = true) : lexLt b a = false := by
  cases hb : lexLt b a with
  | false => rfl
  | true =>
    have := lexLt_trans a b a h hb
    rw [lexLt_irrefl] at this
    exact absurd this (by simp)

theorem toNat_inj (s t : FType) (h : s.toNat = t.toNat) : s = t := by
  cases s <;> cases t <;> first | rfl | (simp [FType.toNat] at h)

theorem less_irrefl (a : FeatureID) : less a a = false := by
  simp [less]

theorem less_trans (a b c : FeatureID) (hab : less a b = true) (hbc : less b c = true) :
    less a c = true := by
  obtain ⟨ta, na, va⟩ := a
  obtain ⟨tb, nb, vb⟩ := b
  obtain ⟨tc, nc, vc⟩ := c
  simp only [less] at hab hbc ⊢
  by_cases h1 : ta = tb
  · subst h1
    by_cases h2 : ta = tc
    · subst h2
      simp only [↓reduceIte] at hab hbc ⊢
      by_cases h3 : na = nb
      · subst h3
        by_cases h4 : na = nc
        · subst h4
          simp only [↓reduceIte, decide_eq_true_eq] at hab hbc ⊢
          omega
        · simp only [↓reduceIte, h4] at hab hbc ⊢
          exact hbc
      · simp only [h3, ↓reduceIte] at hab
        by_cases h4 : nb = nc
        · subst h4
          simp [h3, hab]
        · simp only [h4, ↓reduceIte] at hbc
          have hac := lexLt_trans na nb nc hab hbc
          by_cases h5 : na = nc
          · subst h5
            rw [lexLt_asymm _ _ hab] at hbc
            exact absurd hbc (by simp)
          · simp [h5, hac]
    · simp only [↓reduceIte, h2] at hbc ⊢
      exact hbc
  · simp only [h1, ↓reduceIte, decide_eq_true_eq] at hab
    by_cases h2 : tb = tc
    · subst h2
      simp [h1, hab]
    · simp only [h2, ↓reduceIte, decide_eq_true_eq] at hbc
      have hne : ta ≠ tc := by
        intro e; subst e; omega
      simp only [hne, ↓reduceIte, decide_eq_true_eq]
      omega

theorem less_trichotomy (a b : FeatureID) : less a b = true ∨ a = b ∨ less b a = true := by
  obtain ⟨ta, na, va⟩ := a
  obtain ⟨tb, nb, vb⟩ := b
  simp only [less]
  by_cases h1 : ta = tb
  · subst h1
    by_cases h2 : na = nb
    · subst h2
      simp only [↓reduceIte, decide_eq_true_eq, FeatureID.mk.injEq, true_and]
      omega
    · have h2' : ¬ nb = na := fun e => h2 e.symm
      simp only [↓reduceIte, h2, h2', FeatureID.mk.injEq, true_and, false_and]
      rcases lexLt_trichotomy na nb with h | h | h
      · simp [h]
      · exact absurd h h2
      · simp [h]
  · have h1' : ¬ tb = ta := fun e => h1 e.symm
    have : ta.toNat ≠ tb.toNat := fun e => h1 (toNat_inj _ _ e)
    simp only [h1, h1', ↓reduceIte, decide_eq_true_eq, FeatureID.mk.injEq, false_and]
    omega

/-! ## sorting the namespace table, Encode, the compact key -/

theorem lexLe_total (a b : Bytes) : lexLe a b = true ∨ lexLe b a = true := by
  simp only [lexLe, Bool.not_eq_true']
  rcases lexLt_trichotomy a b with h | h | h
  · left; exact lexLt_asymm _ _ h
  · subst h; left; exact lexLt_irrefl a
  · right; exact lexLt_asymm _ _ h

theorem lexLe_trans (a b c : Bytes) (hab : lexLe a b = true) (hbc : lexLe b c = true) :
    lexLe a c = true := by
  simp only [lexLe, Bool.not_eq_true'] at *
  cases hca : lexLt c a with
  | false => rfl
  | true =>
    rcases lexLt_trichotomy a b with h | h | h
    · have := lexLt_trans c a b hca h
      rw [this] at hbc; exact absurd hbc (by simp)
    · subst h; rw [hca] at hbc; exact absurd hbc (by simp)
    · rw [h] at hab; exact absurd hab (by simp)

def Sorted (l : List Bytes) : Prop := List.Pairwise (fun a b => lexLe a b = true) l

theorem mem_insertNs (x y : Bytes) (l : List Bytes) : y ∈ insertNs x l ↔ y = x ∨ y ∈ l := by
  induction l with
  | nil => simp [insertNs]
  | cons z zs ih =>
    simp only [insertNs]
    split
    · simp
    · simp only [List.mem_cons, ih]
      constructor
      · rintro (h | h | h) <;> simp [h]
      · rintro (h | h | h) <;> simp [h]

theorem sorted_insertNs (x : Bytes) (l : List Bytes) (h : Sorted l) : Sorted (insertNs x l) := by
  induction l with
  | nil => simp [insertNs, Sorted]
  | cons z zs ih =>
    simp only [Sorted, List.pairwise_cons] at h
    obtain ⟨hz, hzs⟩ := h
    simp only [insertNs]
    split
    · rename_i hxz
      simp only [Sorted, List.pairwise_cons]
      refine ⟨?_, hz, hzs⟩
      intro y hy
      simp only [List.mem_cons] at hy
      rcases hy with hy | hy
      · subst hy; exact hxz
      · exact lexLe_trans _ _ _ hxz (hz y hy)
    · rename_i hxz
      have hzx : lexLe z x = true := by
        rcases lexLe_total x z with h | h
        · exact absurd h hxz
        · exact h
      simp only [Sorted, List.pairwise_cons]
      refine ⟨?_, ih hzs⟩
      intro y hy
      rw [mem_insertNs] at hy
      rcases hy with hy | hy
      · subst hy; exact hzx
      · exact hz y hy

theorem sorted_sortNs (l : List Bytes) : Sorted (sortNs l) := by
  induction l with
  | nil => simp [sortNs, Sorted]
  | cons x xs ih => exact sorted_insertNs x _ ih

theorem mem_sortNs (y : Bytes) (l : List Bytes) : y ∈ sortNs l ↔ y ∈ l := by
  induction l with
  | nil => simp [sortNs]
  | cons x xs ih => simp [sortNs, mem_insertNs, ih]

theorem length_insertNs (x : Bytes) (l : List Bytes) : (insertNs x l).length = l.length + 1 := by
  induction l with
  | nil => simp [insertNs]
  | cons z zs ih =>
    simp only [insertNs]
    split
    · simp
    · simp [ih]

theorem length_sortNs (l : List Bytes) : (sortNs l).length = l.length := by
  induction l with
  | nil => simp [sortNs]
  | cons x xs ih => simp [sortNs, length_insertNs, ih]

/-- what `Encode` returns is a position holding that namespace (or the carried-in default) -/
theorem encodeFrom_spec (ns : Bytes) : ∀ (l : List Bytes) (i : Nat) (acc : Option Nat) (e : Nat),
    encodeFrom ns l i acc = some e → acc = some e ∨ ∃ k, l[k]? = some ns ∧ e = (i + k) % 65536 := by
  intro l
  induction l with
  | nil => intro i acc e h; left; simpa [encodeFrom] using h
  | cons x xs ih =>
    intro i acc e h
    simp only [encodeFrom] at h
    rcases ih (i + 1) _ e h with h' | ⟨k, hk, he⟩
    · by_cases hx : x = ns
      · simp only [hx, ↓reduceIte, Option.some.injEq] at h'
        right; exact ⟨0, by simp [hx], by simp [h']⟩
      · simp only [hx, ↓reduceIte] at h'
        left; exact h'
    · right
      refine ⟨k + 1, by simpa using hk, ?_⟩
      rw [he]; congr 1; omega

theorem encodeFrom_isSome (ns : Bytes) : ∀ (l : List Bytes) (i : Nat) (acc : Option Nat),
    (ns ∈ l ∨ acc.isSome) → (encodeFrom ns l i acc).isSome := by
  intro l
  induction l with
  | nil => intro i acc h; rcases h with h | h <;> simp_all [encodeFrom]
  | cons x xs ih =>
    intro i acc h
    simp only [encodeFrom]
    apply ih
    by_cases hx : x = ns
    · right; simp [hx]
    · simp only [hx, ↓reduceIte]
      rcases h with h | h
      · simp only [List.mem_cons] at h
        rcases h with h | h
        · exact absurd h.symm hx
        · left; exact h
      · right; exact h

theorem encode_spec (tbl : List Bytes) (ns : Bytes) (e : Nat) (hlen : tbl.length ≤ 65536)
    (h : encode tbl ns = some e) : tbl[e]? = some ns := by
  rcases encodeFrom_spec ns tbl 0 none e h with h' | ⟨k, hk, he⟩
  · simp at h'
  · have hk' : k < tbl.length := by
      rcases List.getElem?_eq_some_iff.mp hk with ⟨hlt, _⟩; exact hlt
    have : e = k := by omega
    rw [this]; exact hk

/-- in a sorted table a strictly smaller namespace sits at a strictly smaller position -/
theorem sorted_index_lt (tbl : List Bytes) (hs : Sorted tbl) (i j : Nat) (a b : Bytes)
    (hi : tbl[i]? = some a) (hj : tbl[j]? = some b) (hab : lexLt a b = true) : i < j := by
  rcases List.getElem?_eq_some_iff.mp hi with ⟨hil, hia⟩
  rcases List.getElem?_eq_some_iff.mp hj with ⟨hjl, hjb⟩
  by_cases hlt : i < j
  · exact hlt
  · by_cases heq : i = j
    · subst heq
      rw [hia] at hjb; subst hjb
      rw [lexLt_irrefl] at hab; exact absurd hab (by simp)
    · have hji : j < i := by omega
      have := (List.pairwise_iff_getElem.mp hs) j i hjl hil hji
      rw [hia, hjb] at this
      simp only [lexLe, Bool.not_eq_true'] at this
      rw [this] at hab; exact absurd hab (by simp)

theorem typeShift (t : FType) : (t.toNat <<< 13) % 65536 = t.toNat <<< 13 := by
  cases t <;> decide

theorem combine_eq (t : FType) (e : Nat) (he : e < 8192) : combine t e = t.toNat * 8192 + e := by
  have h1 : e % 65536 = e := by omega
  simp only [combine, typeShift, h1]
  rw [← Nat.shiftLeft_add_eq_or_of_lt (by simpa using he), Nat.shiftLeft_eq]

/-! ## postcodes -/

/-- a byte of a normalised postcode: `0`–`9` or `A`–`Z` -/
def pcChar (c : Nat) : Prop := (48 ≤ c ∧ c ≤ 57) ∨ (65 ≤ c ∧ c ≤ 90)

/-- a normalised GB postcode (upper case, no spaces): 5–7 characters of `[0-9A-Z]` -/
def ValidPostcode (p : Bytes) : Prop := 5 ≤ p.length ∧ p.length ≤ 7 ∧ ∀ c ∈ p, pcChar c

def elemVal (c : Nat) : Nat := if c ≤ 57 then c - 48 else c - 55

theorem pcElem_of_pcChar (c : Nat) (h : pcChar c) : pcElem c = some (elemVal c) ∧ elemVal c < 36 := by
  unfold pcChar at h
  unfold pcElem elemVal
  by_cases h1 : 48 ≤ c ∧ c ≤ 57
  · have h2 : c ≤ 57 := h1.2
    rw [if_pos h1, if_pos h2]; exact ⟨rfl, by omega⟩
  · have h3 : 65 ≤ c ∧ c ≤ 90 := by omega
    have h2 : ¬ c ≤ 57 := by omega
    rw [if_neg h1, if_pos h3, if_neg h2]; exact ⟨by congr 1; omega, by omega⟩

theorem toUpper_cons_ascii (c : Nat) (rest : Bytes) (h : c < 128) :
    toUpper (c :: rest) = (if 97 ≤ c ∧ c ≤ 122 then c - 32 else c) :: toUpper rest := by
  conv => lhs; unfold toUpper
  split
  · rename_i heq; simp at heq; omega
  · rename_i heq; simp at heq; omega
  · rename_i heq; simp at heq; obtain ⟨rfl, rfl⟩ := heq; rfl
  · rename_i heq; simp at heq

theorem toUpper_valid (p : Bytes) (h : ∀ c ∈ p, pcChar c) : toUpper p = p := by
  induction p with
  | nil => simp [toUpper]
  | cons c cs ih =>
    have hc : pcChar c := h c (by simp)
    have hcs : ∀ d ∈ cs, pcChar d := fun d hd => h d (by simp [hd])
    unfold pcChar at hc
    rw [toUpper_cons_ascii c cs (by omega), ih hcs]
    have : ¬ (97 ≤ c ∧ c ≤ 122) := by omega
    simp [this]

theorem toUpper_toLower_valid (p : Bytes) (h : ∀ c ∈ p, pcChar c) : toUpper (toLower p) = p := by
  induction p with
  | nil => simp [toLower, toUpper]
  | cons c cs ih =>
    have hc : pcChar c := h c (by simp)
    have hcs : ∀ d ∈ cs, pcChar d := fun d hd => h d (by simp [hd])
    unfold pcChar at hc
    have ih' := ih hcs
    simp only [toLower, List.map_cons] at ih' ⊢
    by_cases hu : 65 ≤ c ∧ c ≤ 90
    · simp only [hu, and_self, ↓reduceIte]
      rw [toUpper_cons_ascii _ _ (by omega), ih']
      have : 97 ≤ c + 32 ∧ c + 32 ≤ 122 := by omega
      simp [this]
    · simp only [hu, ↓reduceIte]
      rw [toUpper_cons_ascii _ _ (by omega), ih']
      have : ¬ (97 ≤ c ∧ c ≤ 122) := by omega
      simp [this]

theorem filter_space_valid (p : Bytes) (h : ∀ c ∈ p, pcChar c) : p.filter (· ≠ 32) = p := by
  apply List.filter_eq_self.mpr
  intro c hc
  have := h c hc
  unfold pcChar at this
  simp; omega

theorem toLower_pcChar (p : Bytes) (h : ∀ c ∈ p, pcChar c) : ∀ c ∈ toLower p, c ≠ 32 := by
  intro c hc
  simp only [toLower, List.mem_map] at hc
  obtain ⟨d, hd, rfl⟩ := hc
  have := h d hd
  unfold pcChar at this
  split <;> omega

/-- the packed elements of a postcode, most significant first -/
def pcVal (p : Bytes) (id : Nat) : Nat := p.foldl (fun a c => a * 64 + elemVal c) id

theorem pcFold_spec : ∀ (cs : Bytes) (first : Bool) (id k : Nat),
    (∀ c ∈ cs, pcChar c) → id < 64 ^ k → k + cs.length ≤ 7 → (first = true → id = 0) →
    pcFold cs first id = some (pcVal cs id) ∧ pcVal cs id < 64 ^ (k + cs.length) := by
  intro cs
  induction cs with
  | nil => intro first id k _ hid _ _; exact ⟨rfl, by simpa [pcVal] using hid⟩
  | cons c cs ih =>
    intro first id k hv hid hk hfirst
    have hc := pcElem_of_pcChar c (hv c (by simp))
    have hcs : ∀ d ∈ cs, pcChar d := fun d hd => hv d (by simp [hd])
    simp only [List.length_cons] at hk
    have hpow : 64 ^ k ≤ 64 ^ 6 := Nat.pow_le_pow_right (by decide) (by omega)
    have h66 : (64 : Nat) ^ 6 = 68719476736 := by decide
    have hstep : (if first = true then id else (id <<< 6) % 2 ^ 64) ||| elemVal c
        = id * 64 + elemVal c := by
      by_cases hf : first = true
      · have := hfirst hf
        simp [hf, this]
      · simp only [hf, Bool.false_eq_true, ↓reduceIte]
        have : (id <<< 6) % 2 ^ 64 = id <<< 6 := by
          rw [Nat.shiftLeft_eq]; apply Nat.mod_eq_of_lt; omega
        rw [this, ← Nat.shiftLeft_add_eq_or_of_lt (by omega : elemVal c < 2 ^ 6), Nat.shiftLeft_eq]
    have hnext : id * 64 + elemVal c < 64 ^ (k + 1) := by
      rw [Nat.pow_succ]; omega
    have := ih false (id * 64 + elemVal c) (k + 1) hcs hnext (by omega) (by simp)
    simp only [pcFold, hc.1, hstep]
    refine ⟨this.1, ?_⟩
    have e : k + 1 + cs.length = k + (cs.length + 1) := by omega
    rw [e] at this
    exact this.2

theorem pcUnfold_spec : ∀ (q : Bytes) (id m : Nat) (acc : Bytes), (∀ c ∈ q.reverse, pcChar c) →
    pcUnfold (q.length + m) (pcVal q.reverse id) acc = pcUnfold m id (q.reverse ++ acc) := by
  intro q
  induction q with
  | nil => intro id m acc _; simp [pcVal]
  | cons c q ih =>
    intro id m acc hv
    have hc : pcChar c := hv c (by simp)
    have hq : ∀ d ∈ q.reverse, pcChar d := fun d hd => hv d (by simp at hd ⊢; simp [hd])
    have hval : pcVal (c :: q).reverse id = pcVal q.reverse id * 64 + elemVal c := by
      simp [pcVal, List.foldl_append]
    have he := (pcElem_of_pcChar c hc).2
    have hand : (pcVal q.reverse id * 64 + elemVal c) &&& 63 = elemVal c := by
      have := Nat.and_two_pow_sub_one_eq_mod (pcVal q.reverse id * 64 + elemVal c) 6
      simp only [Nat.reducePow, Nat.add_one_sub_one] at this
      rw [this]; omega
    have hshr : (pcVal q.reverse id * 64 + elemVal c) >>> 6 = pcVal q.reverse id := by
      rw [Nat.shiftRight_eq_div_pow]; simp only [Nat.reducePow]; omega
    have e : (c :: q).length + m = (q.length + m) + 1 := by simp; omega
    rw [e, hval]
    simp only [pcUnfold, hand, hshr]
    unfold pcChar at hc
    unfold elemVal at he ⊢
    by_cases h57 : c ≤ 57
    · simp only [h57, ↓reduceIte] at he ⊢
      have h10 : c - 48 < 10 := by omega
      have hcc : 48 + (c - 48) = c := by omega
      simp only [h10, ↓reduceIte, hcc]
      rw [ih id m (c :: acc) hq]
      simp
    · simp only [h57, ↓reduceIte] at he ⊢
      have h10 : ¬ c - 55 < 10 := by omega
      have hcc : 65 + (c - 55 - 10) = c := by omega
      simp only [h10, ↓reduceIte, he, hcc]
      rw [ih id m (c :: acc) hq]
      simp

theorem pointID_valid (p : Bytes) (h : ValidPostcode p) :
    pointIDFromGBPostcode p = ⟨.point, nsGBCodePoint, pcVal p 0 * 4 + (p.length - 5)⟩ ∧
    pcVal p 0 < 64 ^ 7 := by
  obtain ⟨h5, h7, hv⟩ := h
  have hf := pcFold_spec p true 0 0 hv (by simp) (by omega) (fun _ => rfl)
  have hlt : pcVal p 0 < 64 ^ 7 := by
    have h1 := hf.2
    have h2 : 64 ^ (0 + p.length) ≤ 64 ^ 7 := Nat.pow_le_pow_right (by decide) (by omega)
    omega
  have h67 : (64 : Nat) ^ 7 = 4398046511104 := by decide
  have hl : ¬ (p.length < 5 ∨ p.length > 7) := by omega
  refine ⟨?_, hlt⟩
  simp only [pointIDFromGBPostcode, filter_space_valid p hv, toUpper_valid p hv, hl, ↓reduceIte, hf.1]
  congr 1
  have : (pcVal p 0 <<< 2) % 2 ^ 64 = pcVal p 0 <<< 2 := by
    rw [Nat.shiftLeft_eq]; apply Nat.mod_eq_of_lt; omega
  rw [this, ← Nat.shiftLeft_add_eq_or_of_lt (by omega : p.length - 5 < 2 ^ 2), Nat.shiftLeft_eq]

theorem pointID_lower (p : Bytes) (h : ValidPostcode p) :
    pointIDFromGBPostcode (toLower p) = pointIDFromGBPostcode p := by
  obtain ⟨h5, h7, hv⟩ := h
  have e1 : (toLower p).filter (· ≠ 32) = toLower p := by
    apply List.filter_eq_self.mpr
    intro c hc
    simpa using toLower_pcChar p hv c hc
  simp only [pointIDFromGBPostcode, e1, toUpper_toLower_valid p hv, filter_space_valid p hv,
    toUpper_valid p hv]

theorem postcode_of_pointID (p : Bytes) (h : ValidPostcode p) :
    postcodeFromPointID (pointIDFromGBPostcode p) = some p := by
  have ⟨hid, hlt⟩ := pointID_valid p h
  obtain ⟨h5, h7, hv⟩ := h
  rw [hid]
  have hand : (pcVal p 0 * 4 + (p.length - 5)) &&& 3 = p.length - 5 := by
    have := Nat.and_two_pow_sub_one_eq_mod (pcVal p 0 * 4 + (p.length - 5)) 2
    simp only [Nat.reducePow, Nat.add_one_sub_one] at this
    rw [this]; omega
  have hshr : (pcVal p 0 * 4 + (p.length - 5)) >>> 2 = pcVal p 0 := by
    rw [Nat.shiftRight_eq_div_pow]; simp only [Nat.reducePow]; omega
  simp only [postcodeFromPointID, ne_eq, not_true_eq_false, ↓reduceIte, hand, hshr]
  have hlen : 5 + (p.length - 5) = p.reverse.length + 0 := by simp; omega
  have := pcUnfold_spec p.reverse 0 0 [] (by simpa using hv)
  rw [List.reverse_reverse] at this
  rw [hlen, this]
  simp [pcUnfold]

/-! ## ONS codes -/

theorem dec_length_le : ∀ (k n : Nat), n < 10 ^ (k + 1) → (dec n).length ≤ k + 1 := by
  intro k
  induction k with
  | zero => intro n h; rw [dec_lt10 n (by simpa using h)]; simp
  | succ k ih =>
    intro n h
    by_cases h10 : n < 10
    · rw [dec_lt10 n h10]; simp
    · rw [dec_step n (by omega)]
      have : n / 10 < 10 ^ (k + 1) := by
        rw [Nat.pow_succ] at h; omega
      have := ih (n / 10) this
      simp; omega

theorem pad8_length (n : Nat) (h : n < 100000000) : (pad8 n).length = 8 := by
  have := dec_length_le 7 n (by simpa using h)
  simp [pad8]; omega

theorem pad8_digits (n : Nat) : ∀ c ∈ pad8 n, 48 ≤ c ∧ c ≤ 57 := by
  intro c hc
  simp only [pad8, List.mem_append, List.mem_replicate] at hc
  rcases hc with hc | hc
  · omega
  · exact dec_digits n c hc

theorem parseDigits_zeros (z : Nat) (s : Bytes) :
    parseDigits (List.replicate z 48 ++ s) 0 = parseDigits s 0 := by
  induction z with
  | zero => simp
  | succ z ih => simp [List.replicate_succ, parseDigits, isDigit, ih]

theorem parseUint_pad8 (n : Nat) (h : n < 100000000) : parseUint (pad8 n) = some n := by
  have hl := pad8_length n h
  have hne : pad8 n ≠ [] := by intro e; rw [e] at hl; simp at hl
  simp only [parseUint, hne, ↓reduceIte]
  simp only [pad8, parseDigits_zeros]
  exact parseDigits_dec n (by omega)

theorem atoi_digits (s : Bytes) (u : Nat) (hs : ∀ c ∈ s, 48 ≤ c ∧ c ≤ 57)
    (hp : parseUint s = some u) (hu : u < 2 ^ 63) : atoi s = some (u : Int) := by
  cases s with
  | nil => simp [parseUint] at hp
  | cons c rest =>
    have hc := hs c (by simp)
    have h1 : ¬ c = 43 := by omega
    have h2 : ¬ c = 45 := by omega
    have h3 : ¬ u ≥ 2 ^ 63 := by omega
    simp only [atoi, h1, h2, or_self, ↓reduceIte, hp, h3]

theorem atoi_dec (n : Nat) (h : n < 2 ^ 63) : atoi (dec n) = some (n : Int) :=
  atoi_digits _ _ (dec_digits n) (parseUint_dec n (by omega)) h

theorem atoi_pad8 (n : Nat) (h : n < 100000000) : atoi (pad8 n) = some (n : Int) :=
  atoi_digits _ _ (pad8_digits n) (parseUint_pad8 n h) (by omega)

/-- letter, year and number of an ONS code as the shell prints them -/
def ValidONS (letter year n : Nat) : Prop :=
  letter < 128 ∧ letter ≠ 47 ∧ 1900 ≤ year ∧ year ≤ 2155 ∧ n < 100000000

def onsValue (letter year n : Nat) : Nat := letter * 2 ^ 40 + (year - 1900) * 2 ^ 32 + n

theorem onsID_eq (letter year n : Nat) (h : ValidONS letter year n) (t : FType) :
    featureIDFromUKONSCode (letter :: pad8 n) (year : Int) t = ⟨t, nsUKONS, onsValue letter year n⟩ := by
  obtain ⟨hl, _, hy1, hy2, hn⟩ := h
  have hlen : ¬ (letter :: pad8 n).length ≠ 9 := by simp [pad8_length n hn]
  simp only [featureIDFromUKONSCode, hlen, ↓reduceIte, atoi_pad8 n hn]
  congr 1
  have e1 : letter % 256 = letter := by omega
  have e2 : (((year : Int) - 1900) % 256).toNat = year - 1900 := by omega
  have e3 : ((n : Int) % (2 ^ 64 : Int)).toNat = n := by
    simp only [Int.reducePow]; omega
  rw [e1, e2, e3]
  have h1 : letter <<< 40 ||| (year - 1900) <<< 32 = (letter * 256 + (year - 1900)) <<< 32 := by
    rw [← Nat.shiftLeft_add_eq_or_of_lt (by rw [Nat.shiftLeft_eq]; simp only [Nat.reducePow]; omega)]
    simp only [Nat.shiftLeft_eq, Nat.reducePow]; omega
  rw [h1, ← Nat.shiftLeft_add_eq_or_of_lt (by simp only [Nat.reducePow]; omega)]
  simp only [Nat.shiftLeft_eq, onsValue, Nat.reducePow]; omega

theorem ons_decode (letter year n : Nat) (h : ValidONS letter year n) (t : FType) :
    ukONSCodeFromFeatureID ⟨t, nsUKONS, onsValue letter year n⟩ = some (letter :: pad8 n, year) := by
  obtain ⟨hl, _, hy1, hy2, hn⟩ := h
  have a255 : ∀ x, x &&& 255 = x % 256 := fun x => by
    have := Nat.and_two_pow_sub_one_eq_mod x 8
    simpa only [Nat.reducePow, Nat.add_one_sub_one] using this
  have a32 : ∀ x, x &&& 4294967295 = x % 4294967296 := fun x => by
    have := Nat.and_two_pow_sub_one_eq_mod x 32
    simpa only [Nat.reducePow, Nat.add_one_sub_one] using this
  simp only [ukONSCodeFromFeatureID, ne_eq, not_true_eq_false, ↓reduceIte, a255, a32,
    Nat.shiftRight_eq_div_pow, onsValue, Nat.reducePow]
  have e1 : (letter * 1099511627776 + (year - 1900) * 4294967296 + n) / 4294967296 % 256 + 1900 = year := by
    omega
  have e2 : (letter * 1099511627776 + (year - 1900) * 4294967296 + n) / 1099511627776 % 256 = letter := by
    omega
  have e3 : (letter * 1099511627776 + (year - 1900) * 4294967296 + n) % 4294967296 = n := by omega
  rw [e1, e2, e3]
  simp [runeString, hl]

theorem splitSlash_no_slash (r : Bytes) (h : 47 ∉ r) : splitSlash r = [r] := by
  induction r with
  | nil => rfl
  | cons c cs ih =>
    have hc : ¬ c = 47 := by intro e; apply h; simp [e]
    have hcs : 47 ∉ cs := by intro e; apply h; simp [e]
    simp [splitSlash, hc, ih hcs]

theorem splitSlash_append (l r : Bytes) (h : 47 ∉ l) :
    splitSlash (l ++ 47 :: r) = l :: splitSlash r := by
  induction l with
  | nil => simp [splitSlash]
  | cons c cs ih =>
    have hc : ¬ c = 47 := by intro e; apply h; simp [e]
    have hcs : 47 ∉ cs := by intro e; apply h; simp [e]
    simp [splitSlash, hc, ih hcs]

end B6.Lemmas.FeatureID
