import B6.Model.GeoJSON
/-! helper lemmas for C32 -/
namespace B6.Lemmas.GeoJSON
open B6.Model.GeoJSON

variable {ν : Type}

theorem mapOpt_map {α β : Type} (f : α → β) (g : β → Option α) (h : ∀ a, g (f a) = some a) :
    ∀ xs : List α, mapOpt g (xs.map f) = some xs
  | [] => rfl
  | a :: as => by simp [mapOpt, h a, mapOpt_map f g h as]

theorem parseCoord_coordJ (c : Coord ν) : parseCoord (coordJ c) = some c := by
  cases c; rfl

theorem parseList_listJ {α : Type} (f : α → CJ ν) (g : CJ ν → Option α) (h : ∀ a, g (f a) = some a)
    (xs : List α) : parseList g (listJ f xs) = some xs := by
  simp [parseList, listJ, mapOpt_map f g h xs]

/-! ## import -/

variable [DecidableEq ν]

/-- the feature `fillFromFeature` builds for an importable, well-shaped GeoJSON feature -/
def mk (f : Feature ν) (i : Nat) : Imported ν :=
  match f.geom with
  | .point c => { ftype := .point, id := i, tags := (pointTag, .point c) :: propTags f.props }
  | .lineString cs => { ftype := .path, id := i, tags := (if cs = [] then [] else [(pathTag, .points cs)]) ++ propTags f.props }
  | .polygon rs => { ftype := .area, id := i, tags := propTags f.props, polygons := [rs.map stripClose] }
  | .multiPolygon ps => { ftype := .area, id := i, tags := propTags f.props, polygons := ps.map (·.map stripClose) }
  | _ => { ftype := .area, id := i, tags := [] }

def imp : List (Feature ν) → Nat → List (Imported ν)
  | [], _ => []
  | f :: fs, k => mk f k :: imp fs (k + 1)

/-- hypotheses of the partial theorem, per feature -/
def Good (f : Feature ν) : Prop :=
  wellShaped f.geom = true ∧ importable f.geom = true ∧ reservedClash f = false ∧ (f.props.map (·.1)).Nodup

theorem mk_id (f : Feature ν) (i : Nat) : (mk f i).id = i := by
  unfold mk; split <;> rfl

theorem fill_good (f : Feature ν) (i : Nat) (h : Good f) : fillFromFeatureRaw f i = .added (mk f i) := by
  obtain ⟨hw, hi, _, _⟩ := h
  unfold fillFromFeatureRaw mk
  cases hg : f.geom with
  | point c => rfl
  | lineString cs => rfl
  | polygon rs =>
    simp only [hg, wellShaped, Bool.not_eq_true'] at hw
    simp [hw]
  | multiPolygon ps =>
    simp only [hg, wellShaped, Bool.not_eq_true'] at hw
    simp [hw]
  | multiPoint cs => simp [hg, importable, expectedGeom] at hi
  | multiLineString ls => simp [hg, importable, expectedGeom] at hi

theorem getTag_propTags (props : List (String × String)) (k : String) :
    getTag (propTags (ν := ν) props) k = (props.find? fun kv => kv.1 == k).map fun kv => TagVal.str kv.2 := by
  induction props with
  | nil => rfl
  | cons kv r ih =>
    unfold getTag propTags at ih ⊢
    simp only [List.map_cons, List.find?_cons]
    by_cases h : kv.1 == k
    · simp [h]
    · simp only [h]; exact ih

theorem getTag_propTags_none (props : List (String × String)) (k : String)
    (h : props.any (fun kv => kv.1 == k) = false) : getTag (propTags (ν := ν) props) k = none := by
  rw [getTag_propTags]
  have : props.find? (fun kv => kv.1 == k) = none := by
    rw [List.find?_eq_none]
    intro x hx
    have := List.any_eq_false.1 h x hx
    simpa using this
  simp [this]

theorem getTag_propTags_mem (props : List (String × String)) (hn : (props.map (·.1)).Nodup)
    (kv : String × String) (hkv : kv ∈ props) : getTag (propTags (ν := ν) props) kv.1 = some (.str kv.2) := by
  rw [getTag_propTags]
  induction props with
  | nil => cases hkv
  | cons x r ih =>
    simp only [List.map_cons, List.nodup_cons] at hn
    simp only [List.find?_cons]
    rcases List.mem_cons.1 hkv with h | h
    · subst h; simp
    · have hne : (x.1 == kv.1) = false := by
        have : x.1 ≠ kv.1 := by
          intro he
          exact hn.1 (he ▸ List.mem_map_of_mem (f := (·.1)) h)
        simpa using this
      simp only [hne]
      exact ih hn.2 h

theorem valid_mk (f : Feature ν) (i : Nat) (h : Good f) : valid (mk f i) = true := by
  obtain ⟨hw, _, hc, _⟩ := h
  unfold valid mk
  cases hg : f.geom with
  | lineString cs =>
    simp only [hg, wellShaped, decide_eq_true_eq] at hw
    simp only [reservedClash, hg] at hc
    have hne : cs ≠ [] := by intro h; subst h; simp at hw
    have hp : f.props.any (fun kv => kv.1 == pointTag) = false := by
      apply List.any_eq_false.2
      intro x hx
      have := List.any_eq_false.1 hc x hx
      simp only [Bool.or_eq_true, not_or] at this
      simpa using this.1
    simp only [hne, if_false, geometryLen]
    have h1 : getTag ((pathTag, TagVal.points cs) :: propTags f.props) pointTag = none := by
      have := getTag_propTags_none (ν := ν) f.props pointTag hp
      unfold getTag at this ⊢
      simp only [List.find?_cons]
      have : ((pathTag, TagVal.points cs).1 == pointTag) = false := by
        show (pathTag == pointTag) = false
        decide
      simp only [this]
      assumption
    have h2 : getTag ((pathTag, TagVal.points cs) :: propTags f.props) pathTag = some (.points cs) := by
      simp [getTag]
    simp only [List.singleton_append, h1, h2]
    simpa using hw
  | point c => rfl
  | polygon rs => rfl
  | multiPolygon ps => rfl
  | multiPoint cs => rfl
  | multiLineString ls => rfl

theorem fillFrom_good : ∀ (fs : List (Feature ν)) (k : Nat), (∀ f ∈ fs, Good (stored f)) →
    fillFrom fs k = some (imp (fs.map stored) k)
  | [], _, _ => rfl
  | f :: fs, k, h => by
    simp only [fillFrom, fillFromFeature, fill_good (stored f) k (h f (by simp)),
      fillFrom_good fs (k + 1) (fun g hg => h g (by simp [hg])), imp, List.map_cons]

theorem applyAll_good : ∀ (fs : List (Feature ν)) (k : Nat), (∀ f ∈ fs, Good f) →
    applyAll (imp fs k) = (imp fs k, true)
  | [], _, _ => rfl
  | f :: fs, k, h => by
    simp only [imp, applyAll, valid_mk f k (h f (by simp)), if_true,
      applyAll_good fs (k + 1) (fun g hg => h g (by simp [hg]))]

theorem imp_length : ∀ (fs : List (Feature ν)) (k : Nat), (imp fs k).length = fs.length
  | [], _ => rfl
  | _ :: fs, k => by simp [imp, imp_length fs (k + 1)]

theorem imp_ids : ∀ (fs : List (Feature ν)) (k : Nat), ∀ y ∈ imp fs k, k ≤ y.id
  | [], _, y, hy => by cases hy
  | f :: fs, k, y, hy => by
    simp only [imp, List.mem_cons] at hy
    rcases hy with h | h
    · subst h; rw [mk_id]; exact Nat.le_refl _
    · have := imp_ids fs (k + 1) y h; omega

theorem filter_none_of_lt (fs : List (Feature ν)) (k i : Nat) (h : i < k) :
    (imp fs k).filter (fun y => y.id == i) = [] := by
  apply List.filter_eq_nil_iff.2
  intro y hy
  have := imp_ids fs k y hy
  simp; omega

theorem findByID_none_of_lt (fs : List (Feature ν)) (k i : Nat) (t : FType) (h : i < k) :
    findByID (imp fs k) t i = none := by
  unfold findByID
  apply List.find?_eq_none.2
  intro y hy
  have := imp_ids fs k y hy
  simp; intro _; omega

theorem faithful_mk (f : Feature ν) (i : Nat) (h : Good f) :
    ∃ t g, expectedGeom f.geom = some (t, g) ∧ (mk f i).ftype = t ∧ observe (mk f i) = g ∧
      ∀ kv ∈ f.props, getTag (mk f i).tags kv.1 = some (.str kv.2) := by
  obtain ⟨hw, hi, hc, hn⟩ := h
  cases hg : f.geom with
  | point c =>
    simp only [reservedClash, hg] at hc
    refine ⟨.point, .point c, rfl, by simp [mk, hg], by simp [mk, hg, observe, getTag], ?_⟩
    intro kv hkv
    have hne : (pointTag == kv.1) = false := by
      have := List.any_eq_false.1 hc kv hkv
      cases hh : (pointTag == kv.1) with
      | false => rfl
      | true => simp only [beq_iff_eq] at hh; simp [← hh] at this
    have := getTag_propTags_mem (ν := ν) f.props hn kv hkv
    simp only [mk, hg]
    unfold getTag at this ⊢
    simp only [List.find?_cons, hne]
    exact this
  | lineString cs =>
    simp only [hg, wellShaped, decide_eq_true_eq] at hw
    simp only [reservedClash, hg] at hc
    have hne : cs ≠ [] := by intro h; subst h; simp at hw
    have hp : f.props.any (fun kv => kv.1 == pointTag) = false := by
      apply List.any_eq_false.2
      intro x hx
      have := List.any_eq_false.1 hc x hx
      simp only [Bool.or_eq_true, not_or] at this
      simpa using this.1
    have h0 : ((pathTag, TagVal.points cs).1 == pointTag) = false := by
      show (pathTag == pointTag) = false
      decide
    have h1 : getTag ((pathTag, TagVal.points cs) :: propTags f.props) pointTag = none := by
      have := getTag_propTags_none (ν := ν) f.props pointTag hp
      unfold getTag at this ⊢
      simp only [List.find?_cons, h0]
      assumption
    have h2 : getTag ((pathTag, TagVal.points cs) :: propTags f.props) pathTag = some (.points cs) := by
      simp [getTag]
    refine ⟨.path, .path cs, rfl, by simp [mk, hg], ?_, ?_⟩
    · simp only [mk, hg, hne, if_false, observe, List.singleton_append, h1, h2]
    · intro kv hkv
      have hne2 : (pathTag == kv.1) = false := by
        have := List.any_eq_false.1 hc kv hkv
        simp only [Bool.or_eq_true, not_or] at this
        cases hh : (pathTag == kv.1) with
        | false => rfl
        | true => simp only [beq_iff_eq] at hh; simp [← hh] at this
      have := getTag_propTags_mem (ν := ν) f.props hn kv hkv
      simp only [mk, hg, hne, if_false, List.singleton_append]
      unfold getTag at this ⊢
      simp only [List.find?_cons, hne2]
      exact this
  | polygon rs =>
    refine ⟨.area, .area [rs.map stripClose], rfl, by simp [mk, hg], by simp [mk, hg, observe], ?_⟩
    intro kv hkv
    simpa [mk, hg] using getTag_propTags_mem (ν := ν) f.props hn kv hkv
  | multiPolygon ps =>
    refine ⟨.area, .area (ps.map (·.map stripClose)), rfl, by simp [mk, hg], by simp [mk, hg, observe], ?_⟩
    intro kv hkv
    simpa [mk, hg] using getTag_propTags_mem (ν := ν) f.props hn kv hkv
  | multiPoint cs => simp [hg, importable, expectedGeom] at hi
  | multiLineString ls => simp [hg, importable, expectedGeom] at hi

theorem findByID_imp : ∀ (fs : List (Feature ν)) (k j : Nat) (hj : j < fs.length) (t : FType),
    (mk fs[j] (k + j)).ftype = t → findByID (imp fs k) t (k + j) = some (mk fs[j] (k + j))
  | [], _, _, hj, _, _ => by simp at hj
  | f :: fs, k, 0, _, t, ht => by
    simp only [List.getElem_cons_zero, Nat.add_zero] at ht ⊢
    simp [findByID, imp, ht, mk_id]
  | f :: fs, k, j + 1, hj, t, ht => by
    simp only [List.getElem_cons_succ] at ht ⊢
    have hj' : j < fs.length := by simpa using hj
    have e : k + (j + 1) = (k + 1) + j := by omega
    rw [e] at ht ⊢
    have ih := findByID_imp fs (k + 1) j hj' t ht
    unfold findByID at ih ⊢
    simp only [imp, List.find?_cons]
    have : ((mk f k).ftype == t && (mk f k).id == k + 1 + j) = false := by
      rw [mk_id]; simp; intro _; omega
    simp only [this]
    exact ih

theorem count_imp : ∀ (fs : List (Feature ν)) (k j : Nat), j < fs.length →
    ((imp fs k).filter fun y => y.id == k + j).length = 1
  | [], _, _, hj => by simp at hj
  | f :: fs, k, 0, _ => by
    simp only [imp, Nat.add_zero, List.filter_cons, mk_id, beq_self_eq_true, if_true, List.length_cons]
    rw [filter_none_of_lt fs (k + 1) k (by omega)]
    rfl
  | f :: fs, k, j + 1, hj => by
    have hj' : j < fs.length := by simpa using hj
    have e : k + (j + 1) = (k + 1) + j := by omega
    rw [e]
    simp only [imp, List.filter_cons, mk_id]
    have : (k == k + 1 + j) = false := by simp; omega
    simp only [this]
    exact count_imp fs (k + 1) j hj'

theorem imp_faithful (fs : List (Feature ν)) (j : Nat) (hj : j < fs.length) (h : ∀ f ∈ fs, Good f) :
    importedFaithfullyRaw (imp fs 0) fs[j] j = true := by
  obtain ⟨t, g, he, ht, ho, hp⟩ := faithful_mk fs[j] j (h _ (List.getElem_mem hj))
  have hf := findByID_imp fs 0 j hj t (by simpa using ht)
  have hc := count_imp fs 0 j hj
  simp only [Nat.zero_add] at hf hc
  unfold importedFaithfullyRaw
  simp only [he, hf, ho, hc, beq_self_eq_true, Bool.true_and, Bool.and_true]
  apply List.all_eq_true.2
  intro kv hkv
  simp [hp kv hkv]

/-! ### stored property keys never clash with the geometry tags -/

theorem storedKey_ne (k : String) : (storedKey k == pointTag) = false ∧ (storedKey k == pathTag) = false := by
  unfold storedKey
  by_cases h1 : k = pointTag
  · subst h1; decide
  · by_cases h2 : k = pathTag
    · subst h2; decide
    · simp [h1, h2]

theorem reservedClash_stored (f : Feature ν) : reservedClash (stored f) = false := by
  unfold reservedClash stored
  cases f.geom <;> simp [List.any_map, Function.comp_def, (storedKey_ne _).1, (storedKey_ne _).2]

theorem good_stored (f : Feature ν) (hw : wellShaped f.geom = true) (hi : importable f.geom = true)
    (hn : (f.props.map fun kv => storedKey kv.1).Nodup) : Good (stored f) := by
  refine ⟨hw, hi, reservedClash_stored f, ?_⟩
  simpa [stored, List.map_map, Function.comp_def] using hn

end B6.Lemmas.GeoJSON
