import B6.Model.Containers
import B6.Lemmas.Varint
/-!
# Lemmas for the L1 containers (kernel-only: propext, Classical.choice, Quot.sound)

* `delta_roundtrip` — delta/zigzag coded sequences.
* `bytearrays_read`, `bytearrays_encode_item` — the `ByteArrays` reader against header ++ data.
* `bytearrays_item` — the writer protocol for ANY order of `WriteItem` calls (invariant `Inv`).
* `scan_entries`, `map_fill_tagged`, `map_find_first`, `map_find_first_with_tag`, `map_iterate` — `Uint64Map`
  under `MapOK` (whose header part, `HeaderOK`, is what C10's `header_roundtrip` proves).
-/
namespace B6.Lemmas.Containers
open B6.Model.Containers B6.Model.Varint B6.Model.Bits

theorem drop_len_add {α : Type} (A B : List α) (n : Nat) : (A ++ B).drop (A.length + n) = B.drop n := by
  induction A with
  | nil => simp
  | cons a A ih => simpa [Nat.succ_add] using ih

/-! ## delta coded sequences -/

theorem delta_step (last v : BitVec 64) :
    last + zigzagDecode (BitVec.ofNat 64 (zigzagEncode (v - last)).toNat) = v := by
  rw [BitVec.ofNat_toNat, BitVec.setWidth_eq, zigzagDecode_zigzagEncode]
  rw [BitVec.add_comm, BitVec.sub_add_cancel]

theorem unmarshalDeltaAux_marshal : ∀ (vs : List (BitVec 64)) (last : BitVec 64) (pre rest : Bytes)
    (acc : List (BitVec 64)),
    unmarshalDeltaAux vs.length (pre ++ marshalDeltaAux last vs ++ rest) pre.length last acc
      = some (acc.reverse ++ vs, ((pre.length + (marshalDeltaAux last vs).length : Nat) : Int)) := by
  intro vs
  induction vs with
  | nil => intro last pre rest acc; simp [unmarshalDeltaAux, marshalDeltaAux]
  | cons v vs ih =>
    intro last pre rest acc
    simp only [List.length_cons, unmarshalDeltaAux, marshalDeltaAux]
    have hi : ¬ ((pre.length : Int) < 0 ∨ (pre.length : Int) >
        ((pre ++ (putUvarint (zigzagEncode (v - last)).toNat ++ marshalDeltaAux v vs) ++ rest).length : Nat)) := by
      simp only [List.length_append]; omega
    rw [if_neg hi]
    have hd : (pre ++ (putUvarint (zigzagEncode (v - last)).toNat ++ marshalDeltaAux v vs) ++ rest).drop
        (pre.length : Int).toNat
        = putUvarint (zigzagEncode (v - last)).toNat ++ (marshalDeltaAux v vs ++ rest) := by
      simp [List.append_assoc]
    rw [hd, uvarintRaw_putUvarint_append _ (zigzagEncode (v - last)).isLt]
    simp only [delta_step]
    have e := ih v (pre ++ putUvarint (zigzagEncode (v - last)).toNat) rest (v :: acc)
    have hb : pre ++ putUvarint (zigzagEncode (v - last)).toNat ++ marshalDeltaAux v vs ++ rest
        = pre ++ (putUvarint (zigzagEncode (v - last)).toNat ++ marshalDeltaAux v vs) ++ rest := by
      simp [List.append_assoc]
    rw [hb] at e
    have hl : ((pre.length : Nat) : Int) + ((putUvarint (zigzagEncode (v - last)).toNat).length : Int)
        = (((pre ++ putUvarint (zigzagEncode (v - last)).toNat).length : Nat) : Int) := by
      simp [List.length_append]
    rw [hl, e]
    simp [List.length_append, Nat.add_assoc]

/-- **delta round trip**: `UnmarshalDeltaCodedUint64(_, len(vs), MarshalDeltaCodedUint64s(vs) ++ rest)`
returns `vs` and the number of bytes written — every `uint64` sequence, wrap-around deltas included. -/
theorem delta_roundtrip (vs : List (BitVec 64)) (rest : Bytes) :
    unmarshalDelta vs.length (marshalDelta vs ++ rest) = some (vs, ((marshalDelta vs).length : Int)) := by
  have := unmarshalDeltaAux_marshal vs 0#64 [] rest []
  simpa [unmarshalDelta, marshalDelta] using this

/-! ## little-endian fixed width -/

theorem readLe32_le32 (n : Nat) (rest : Bytes) : readLe32 (le32 n ++ rest) = some (n % 2 ^ 32) := by
  unfold readLe32 le32
  have hl : (marshalUint64 (n % 2 ^ 32) 4).length = 4 := marshalUint64_length _ _
  have h4 : ¬ ((marshalUint64 (n % 2 ^ 32) 4 ++ rest).length < 4) := by simp [hl]
  rw [if_neg h4]
  have ht : (marshalUint64 (n % 2 ^ 32) 4 ++ rest).take 4 = marshalUint64 (n % 2 ^ 32) 4 := by
    rw [List.take_append_of_le_length (by omega)]; simp [List.take_of_length_le, hl]
  rw [ht, leValue_marshalUint64]
  have : n % 2 ^ 32 < 256 ^ 4 := by have := Nat.mod_lt n (by omega : 2 ^ 32 > 0); omega
  rw [Nat.mod_eq_of_lt this]

theorem le32_length (n : Nat) : (le32 n).length = 4 := marshalUint64_length _ _

theorem uint64Length_mono {p q : Nat} (h : p ≤ q) : uint64Length p ≤ uint64Length q := by
  unfold uint64Length
  repeat' split
  all_goals omega

/-! ## running sums -/

theorem starts_length (res : List Nat) (a : Nat) : (starts res a).length = res.length + 1 := by
  induction res generalizing a with
  | nil => rfl
  | cons r rs ih => simp [starts, ih]

theorem starts_get : ∀ (res : List Nat) (a k : Nat), k ≤ res.length →
    (starts res a)[k]? = some (a + (res.take k).sum) := by
  intro res
  induction res with
  | nil => intro a k hk; have : k = 0 := by simpa using hk
           subst this; simp [starts]
  | cons r rs ih =>
    intro a k hk
    cases k with
    | zero => simp [starts]
    | succ k =>
      simp only [starts, List.getElem?_cons_succ, List.take_succ_cons, List.sum_cons]
      rw [ih (a + r) k (by simpa using hk)]
      simp [Nat.add_assoc]

theorem sum_take_le (res : List Nat) (k : Nat) : (res.take k).sum ≤ res.sum := by
  induction res generalizing k with
  | nil => simp
  | cons r rs ih =>
    cases k with
    | zero => simp
    | succ k => simp only [List.take_succ_cons, List.sum_cons]; have := ih k; omega

theorem sum_take_succ (res : List Nat) (k : Nat) (h : k < res.length) :
    (res.take (k + 1)).sum = (res.take k).sum + res[k] := by
  induction res generalizing k with
  | nil => simp at h
  | cons r rs ih =>
    cases k with
    | zero => simp
    | succ k =>
      simp only [List.take_succ_cons, List.sum_cons, List.getElem_cons_succ]
      rw [ih k (by simpa using h)]; omega

/-! ## the pointer table -/

theorem table_drop (ob : Nat) : ∀ (xs : List Nat) (k : Nat) (h : k < xs.length),
    (xs.flatMap fun p => marshalUint64 p ob).drop (ob * k)
      = marshalUint64 xs[k] ob ++ ((xs.drop (k + 1)).flatMap fun p => marshalUint64 p ob) := by
  intro xs
  induction xs with
  | nil => intro k h; simp at h
  | cons x xs ih =>
    intro k h
    cases k with
    | zero => simp
    | succ k =>
      simp only [List.flatMap_cons, List.getElem_cons_succ, List.drop_succ_cons]
      have hl : (marshalUint64 x ob).length = ob := marshalUint64_length _ _
      have e : ob * (k + 1) = (marshalUint64 x ob).length + ob * k := by rw [hl, Nat.mul_succ]; omega
      rw [e, drop_len_add]
      exact ih k (by simpa using h)

theorem table_length (ob : Nat) (xs : List Nat) :
    (xs.flatMap fun p => marshalUint64 p ob).length = ob * xs.length := by
  induction xs with
  | nil => simp
  | cons x xs ih => simp [List.flatMap_cons, marshalUint64_length, ih, Nat.mul_succ]; omega

/-! ## flatten -/

theorem flatten_slice : ∀ (items : List Bytes) (i : Nat) (h : i < items.length),
    (items.flatten.drop ((items.map List.length).take i).sum).take items[i].length = items[i] := by
  intro items
  induction items with
  | nil => intro i h; simp at h
  | cons x xs ih =>
    intro i h
    cases i with
    | zero => simp
    | succ i =>
      simp only [List.flatten_cons, List.map_cons, List.take_succ_cons, List.sum_cons, List.getElem_cons_succ]
      rw [drop_len_add]
      exact ih i (by simpa using h)

/-! ## ByteArrays: the reader against header ++ data -/

theorem drop_len {α : Type} (A B : List α) : (A ++ B).drop A.length = B := by
  simpa using drop_len_add A B 0

theorem baHeader_length (res : List Nat) : (baHeader res).length = baDataOffset res := by
  unfold baHeader baDataOffset baLayoutLength
  simp only [List.length_append, le32_length, table_length, starts_length]

/-- pointer `k` of the table reads back as the `k`-th running sum. -/
theorem read_pointer (res : List Nat) (D : Bytes) (k : Nat) (ht : res.sum < 2 ^ 64) (hk : k ≤ res.length) :
    (goFrom (baHeader res ++ D) (baLayoutLength + uint64Length (total res) * k)).bind
      (unmarshalUint64 (uint64Length (total res))) = some (res.take k).sum := by
  have hk' : k < (starts res 0).length := by rw [starts_length]; omega
  have hget : (starts res 0)[k] = (res.take k).sum := by
    have := starts_get res 0 k hk
    rw [List.getElem?_eq_getElem hk'] at this
    simpa using this
  have hlen : baLayoutLength + uint64Length (total res) * k ≤ (baHeader res ++ D).length := by
    rw [List.length_append, baHeader_length]; unfold baDataOffset
    have : uint64Length (total res) * k ≤ uint64Length (total res) * (res.length + 1) :=
      Nat.mul_le_mul_left _ (by omega)
    omega
  unfold goFrom
  rw [if_pos hlen]
  simp only [Option.bind_some]
  have hdrop : (baHeader res ++ D).drop (baLayoutLength + uint64Length (total res) * k)
      = marshalUint64 (res.take k).sum (uint64Length (total res)) ++
        (((starts res 0).drop (k + 1)).flatMap (fun p => marshalUint64 p (uint64Length (total res))) ++ D) := by
    have e12 : baLayoutLength = (le32 res.length ++ le32 (uint64Length (total res)) ++ le32 (maxItem res)).length := by
      simp [le32_length, baLayoutLength]
    unfold baHeader
    simp only
    rw [List.append_assoc _ _ D, e12, drop_len_add]
    have hle : uint64Length (total res) * k ≤
        ((starts res 0).flatMap fun p => marshalUint64 p (uint64Length (total res))).length := by
      rw [table_length, starts_length]; exact Nat.mul_le_mul_left _ (by omega)
    rw [List.drop_append_of_le_length hle, table_drop _ _ k hk', hget, List.append_assoc]
  rw [hdrop]
  have hle : (res.take k).sum ≤ res.sum := sum_take_le res k
  exact unmarshal_marshalUint64_append _ _ (by omega) (uint64Length_mono hle) _

/-- **reader**: `Item(i)` of `header(res) ++ D` is the slice of `D` that the running sums delimit. -/
theorem bytearrays_read (res : List Nat) (D : Bytes) (i : Nat)
    (hn : res.length < 2 ^ 32) (ht : res.sum < 2 ^ 64) (hi : i < res.length)
    (hD : (res.take (i + 1)).sum ≤ D.length) :
    baItem (baHeader res ++ D) i = some ((D.drop (res.take i).sum).take res[i]) := by
  have hob := uint64Length_spec (total res) ht
  -- the layout
  have hlay : baReadLayout (baHeader res ++ D)
      = some { items := res.length, offsetBytes := uint64Length (total res), maxItemLength := maxItem res % 2 ^ 32 } := by
    unfold baReadLayout baHeader
    simp only [List.append_assoc]
    have g4 : goFrom (le32 res.length ++ (le32 (uint64Length (total res)) ++ (le32 (maxItem res) ++
        ((starts res 0).flatMap (fun p => marshalUint64 p (uint64Length (total res))) ++ D)))) 4
        = some (le32 (uint64Length (total res)) ++ (le32 (maxItem res) ++
        ((starts res 0).flatMap (fun p => marshalUint64 p (uint64Length (total res))) ++ D))) := by
      unfold goFrom
      have h4 : 4 = (le32 res.length).length := (le32_length _).symm
      rw [if_pos (by simp only [List.length_append, le32_length]; omega)]
      conv => lhs; rw [h4, drop_len]
    have g8 : goFrom (le32 res.length ++ (le32 (uint64Length (total res)) ++ (le32 (maxItem res) ++
        ((starts res 0).flatMap (fun p => marshalUint64 p (uint64Length (total res))) ++ D)))) 8
        = some (le32 (maxItem res) ++
        ((starts res 0).flatMap (fun p => marshalUint64 p (uint64Length (total res))) ++ D)) := by
      unfold goFrom
      have h8 : 8 = (le32 res.length ++ le32 (uint64Length (total res))).length := by simp [le32_length]
      rw [if_pos (by simp only [List.length_append, le32_length]; omega)]
      rw [← List.append_assoc (le32 res.length)]
      conv => lhs; rw [h8, drop_len]
    rw [g4, g8]
    simp only [readLe32_le32, Option.bind_some, Option.bind_eq_bind, bind, Option.pure_def, pure]
    have e1 : res.length % 2 ^ 32 = res.length := Nat.mod_eq_of_lt hn
    have e2 : uint64Length (total res) % 2 ^ 32 = uint64Length (total res) := Nat.mod_eq_of_lt (by omega)
    rw [e1, e2]
  unfold baItem
  rw [hlay]
  simp only [Option.bind_eq_bind, bind, Option.bind_some]
  have hni : ¬ (i ≥ res.length) := by omega
  rw [if_neg hni]
  have hp := read_pointer res D i ht (by omega)
  have hq := read_pointer res D (i + 1) ht (by omega)
  rw [hp, hq]
  simp only [Option.bind_some]
  rw [sum_take_succ res i hi]
  unfold goSlice
  have hoff : baLayoutLength + uint64Length (total res) * (res.length + 1) = (baHeader res).length := by
    rw [baHeader_length]; rfl
  rw [sum_take_succ res i hi] at hD
  have hcond : baLayoutLength + uint64Length (total res) * (res.length + 1) + (res.take i).sum ≤
      baLayoutLength + uint64Length (total res) * (res.length + 1) + ((res.take i).sum + res[i]) ∧
      baLayoutLength + uint64Length (total res) * (res.length + 1) + ((res.take i).sum + res[i]) ≤
      (baHeader res ++ D).length := by
    rw [List.length_append, ← hoff]; omega
  rw [if_pos hcond, hoff, drop_len_add]
  congr 2
  omega

/-- **one-shot encoder**: item `i` of `baEncode items` is `items[i]`. -/
theorem bytearrays_encode_item (items : List Bytes) (i : Nat) (hi : i < items.length)
    (hn : items.length < 2 ^ 32) (ht : (items.map List.length).sum < 2 ^ 64) :
    baItem (baEncode items) i = some items[i] := by
  unfold baEncode
  have hi' : i < (items.map List.length).length := by simpa using hi
  rw [bytearrays_read (items.map List.length) items.flatten i (by simpa using hn) ht hi'
    (by rw [List.length_flatten]; exact sum_take_le _ _)]
  simp only [List.getElem_map]
  rw [flatten_slice items i hi]

/-! ## Uint64Map: scanning a bucket -/

/-- what the map theorems need from the layout for one entry (proved for every layout with
`TagBits ≤ BucketBits ≤ 63` and `tag < 2^TagBits` in C10, `header_roundtrip`). -/
def HeaderOK (b t : BitVec 64) (e : Entry) : Prop :=
  headerUnpackID (bucketForID e.id b) (headerPack e.id e.tag b t) b t = e.id ∧
  headerUnpackTag (headerPack e.id e.tag b t) t = e.tag

theorem entryBytes_length_pos (b t : BitVec 64) (e : Entry) : 2 ≤ (entryBytes b t e).length := by
  unfold entryBytes
  have h1 := putUvarint_length_pos (headerPack e.id e.tag b t).toNat
  have h2 := putUvarint_length_pos e.data.length
  simp only [List.length_append]; omega

theorem scan_entries (b t bucket : BitVec 64) : ∀ (es : List Entry) (fuel : Nat),
    (∀ e ∈ es, bucketForID e.id b = bucket ∧ HeaderOK b t e ∧ e.data.length < 2 ^ 63) →
    (es.flatMap (entryBytes b t)).length < fuel →
    scanBucket fuel (es.flatMap (entryBytes b t)) bucket b t = some es := by
  intro es
  induction es with
  | nil =>
    intro fuel _ _
    cases fuel <;> simp [scanBucket]
  | cons e es ih =>
    intro fuel h hf
    have he := h e (by simp)
    obtain ⟨hbk, hok, hlen⟩ := he
    cases fuel with
    | zero => simp at hf
    | succ fuel =>
      have hpos := entryBytes_length_pos b t e
      simp only [List.flatMap_cons] at hf ⊢
      have hne : ((entryBytes b t e ++ es.flatMap (entryBytes b t)).isEmpty) = false := by
        cases hh : entryBytes b t e with
        | nil => rw [hh] at hpos; simp at hpos
        | cons x xs => simp
      unfold scanBucket
      rw [hne]
      simp only [Bool.false_eq_true, if_false]
      -- first varint: the packed id/tag word
      have e1 : entryBytes b t e ++ es.flatMap (entryBytes b t)
          = putUvarint (headerPack e.id e.tag b t).toNat ++
            (putUvarint e.data.length ++ (e.data ++ es.flatMap (entryBytes b t))) := by
        simp [entryBytes, List.append_assoc]
      rw [e1, uvarint_putUvarint_append _ (headerPack e.id e.tag b t).isLt]
      simp only [drop_len]
      rw [uvarint_putUvarint_append _ (by omega : e.data.length < 2 ^ 64)]
      simp only
      have hge : ¬ (e.data.length ≥ 2 ^ 63) := by omega
      rw [if_neg hge]
      have hfit : ¬ ((putUvarint (headerPack e.id e.tag b t).toNat).length + (putUvarint e.data.length).length
          + e.data.length > (putUvarint (headerPack e.id e.tag b t).toNat ++
            (putUvarint e.data.length ++ (e.data ++ es.flatMap (entryBytes b t)))).length) := by
        simp only [List.length_append]; omega
      rw [if_neg hfit]
      have d1 : (putUvarint (headerPack e.id e.tag b t).toNat ++
            (putUvarint e.data.length ++ (e.data ++ es.flatMap (entryBytes b t)))).drop
            ((putUvarint (headerPack e.id e.tag b t).toNat).length + (putUvarint e.data.length).length)
          = e.data ++ es.flatMap (entryBytes b t) := by
        rw [← List.append_assoc, ← List.length_append, drop_len]
      have d2 : (putUvarint (headerPack e.id e.tag b t).toNat ++
            (putUvarint e.data.length ++ (e.data ++ es.flatMap (entryBytes b t)))).drop
            ((putUvarint (headerPack e.id e.tag b t).toNat).length + (putUvarint e.data.length).length + e.data.length)
          = es.flatMap (entryBytes b t) := by
        rw [← List.append_assoc, ← List.append_assoc, ← List.length_append, ← List.length_append, drop_len]
      rw [d1, d2]
      have hrest := ih fuel (fun e' he' => h e' (by simp [he'])) (by
        simp only [List.length_append] at hf; omega)
      rw [hrest]
      simp only [List.take_left']
      have hw : BitVec.ofNat 64 (headerPack e.id e.tag b t).toNat = headerPack e.id e.tag b t := by
        rw [BitVec.ofNat_toNat, BitVec.setWidth_eq]
      rw [hw, ← hbk, hok.1, hok.2]

/-! ## Uint64Map: open, bucket, fill -/

theorem one_shl_toNat (b : BitVec 64) (hb : b ≤ 63#64) : (1#64 <<< b).toNat = 2 ^ b.toNat := by
  have h63 : b.toNat ≤ 63 := hb
  rw [BitVec.shiftLeft_eq', BitVec.toNat_shiftLeft, Nat.shiftLeft_eq]
  simp only [BitVec.toNat_ofNat, Nat.one_mul]
  have : 2 ^ b.toNat ≤ 2 ^ 63 := Nat.pow_le_pow_right (by omega) h63
  omega

theorem bucketForID_lt (id b : BitVec 64) (hb : b ≤ 63#64) : (bucketForID id b).toNat < 2 ^ b.toNat := by
  unfold bucketForID
  rw [BitVec.toNat_and]
  have h1 := one_shl_toNat b hb
  have hpos : 0 < 2 ^ b.toNat := Nat.two_pow_pos _
  have hm : ((1#64 <<< b) - 1#64).toNat = 2 ^ b.toNat - 1 := by
    rw [BitVec.toNat_sub, h1]
    have : 2 ^ b.toNat ≤ 2 ^ 63 := Nat.pow_le_pow_right (by omega) hb
    simp; omega
  rw [hm]
  have := @Nat.and_le_right id.toNat (2 ^ b.toNat - 1)
  omega

theorem bucketEntries_spec (b : BitVec 64) (es : List Entry) (k : Nat) (hk : k < 2 ^ 64) :
    ∀ e ∈ bucketEntries b es k, e ∈ es ∧ bucketForID e.id b = BitVec.ofNat 64 k := by
  intro e he
  unfold bucketEntries at he
  rw [List.mem_filter] at he
  refine ⟨he.1, ?_⟩
  have : (bucketForID e.id b).toNat = k := by simpa using he.2
  apply BitVec.eq_of_toNat_eq
  rw [this, BitVec.toNat_ofNat, Nat.mod_eq_of_lt hk]

/-- the well-formedness a written map needs: sane layout bytes, every entry's header invertible (C10),
payload lengths are Go `int`s, and the whole file is addressable. -/
structure MapOK (b t : BitVec 64) (es : List Entry) : Prop where
  hb : b ≤ 31#64
  ht : t ≤ 255#64
  entries : ∀ e ∈ es, HeaderOK b t e ∧ e.data.length < 2 ^ 63
  size : (mapEncode b t es).length < 2 ^ 64

def mapViewOf (b t : BitVec 64) (es : List Entry) : MapView :=
  { b := b, t := t,
    buckets := baEncode ((List.range (2 ^ b.toNat)).map fun k => (bucketEntries b es k).flatMap (entryBytes b t)) }

theorem mapOpen_mapEncode (b t : BitVec 64) (es : List Entry) (h : MapOK b t es) :
    mapOpen (mapEncode b t es) = some (mapViewOf b t es) := by
  have hb : b.toNat ≤ 31 := h.hb
  have ht : t.toNat ≤ 255 := h.ht
  unfold mapEncode mapOpen mapViewOf
  simp only [List.cons_append, List.nil_append]
  have e1 : BitVec.ofNat 64 (UInt8.ofNat b.toNat).toNat = b := by
    apply BitVec.eq_of_toNat_eq
    simp [UInt8.toNat_ofNat']
    omega
  have e2 : BitVec.ofNat 64 (UInt8.ofNat t.toNat).toNat = t := by
    apply BitVec.eq_of_toNat_eq
    simp [UInt8.toNat_ofNat']
    omega
  rw [e1, e2]

theorem mapBucket_mapViewOf (b t : BitVec 64) (es : List Entry) (h : MapOK b t es) (k : Nat) (hk : k < 2 ^ b.toNat) :
    mapBucket (mapViewOf b t es) k = some (bucketEntries b es k) := by
  have hb : b.toNat ≤ 31 := h.hb
  have hpow : 2 ^ b.toNat ≤ 2 ^ 31 := Nat.pow_le_pow_right (by omega) hb
  unfold mapBucket mapViewOf
  simp only
  have hlen : k < ((List.range (2 ^ b.toNat)).map fun k => (bucketEntries b es k).flatMap (entryBytes b t)).length := by
    simpa using hk
  have hsz : ((((List.range (2 ^ b.toNat)).map fun k => (bucketEntries b es k).flatMap (entryBytes b t))).map
      List.length).sum < 2 ^ 64 := by
    have hs := h.size
    unfold mapEncode baEncode at hs
    simp only [List.length_append, List.length_cons, List.length_nil, List.length_flatten] at hs
    omega
  rw [bytearrays_encode_item _ k hlen (by simp; omega) hsz]
  simp only [Option.bind_eq_bind, bind, Option.bind_some, List.getElem_map, List.getElem_range]
  apply scan_entries
  · intro e he
    have hs := bucketEntries_spec b es k (by omega) e he
    exact ⟨hs.2, h.entries e hs.1⟩
  · omega

theorem filter_bucket (b : BitVec 64) (es : List Entry) (id : BitVec 64) :
    (bucketEntries b es (bucketForID id b).toNat).filter (fun e => e.id == id) = es.filter (fun e => e.id == id) := by
  unfold bucketEntries
  rw [List.filter_filter]
  apply List.filter_congr
  intro e _
  by_cases hid : e.id = id
  · simp [hid]
  · simp [hid]

/-- **FillTagged**: the entries written under `id`, in write order. -/
theorem map_fill_tagged (b t : BitVec 64) (es : List Entry) (h : MapOK b t es) (id : BitVec 64) :
    ∃ mv, mapOpen (mapEncode b t es) = some mv ∧
      mapFillTagged mv id = some (es.filter fun e => e.id == id) := by
  refine ⟨mapViewOf b t es, mapOpen_mapEncode b t es h, ?_⟩
  have hb63 : b ≤ 63#64 := by have : b.toNat ≤ 31 := h.hb; show b.toNat ≤ 63; omega
  unfold mapFillTagged
  have hmb : (mapViewOf b t es).b = b := rfl
  rw [hmb, mapBucket_mapViewOf b t es h _ (bucketForID_lt id b hb63)]
  simp only [Option.bind_eq_bind, bind, Option.bind_some, pure, filter_bucket]

/-- **FindFirst**: the first entry written under `id`, `none` when there is none. -/
theorem map_find_first (b t : BitVec 64) (es : List Entry) (h : MapOK b t es) (id : BitVec 64) :
    ∃ mv, mapOpen (mapEncode b t es) = some mv ∧
      mapFindFirst mv id = some (es.find? fun e => e.id == id) := by
  obtain ⟨mv, h1, h2⟩ := map_fill_tagged b t es h id
  refine ⟨mv, h1, ?_⟩
  unfold mapFindFirst
  rw [h2]
  simp [List.head?_filter]

theorem find_filter {α : Type} (p q : α → Bool) (l : List α) :
    (l.filter p).find? q = l.find? (fun a => p a && q a) := by
  induction l with
  | nil => rfl
  | cons a l ih =>
    cases hp : p a <;> cases hq : q a <;> simp [List.filter_cons, List.find?_cons, hp, hq, ih]

/-- **FindFirstWithTag** -/
theorem map_find_first_with_tag (b t : BitVec 64) (es : List Entry) (h : MapOK b t es) (id tag : BitVec 64) :
    ∃ mv, mapOpen (mapEncode b t es) = some mv ∧
      mapFindFirstWithTag mv id tag = some (es.find? fun e => e.id == id && e.tag == tag) := by
  obtain ⟨mv, h1, h2⟩ := map_fill_tagged b t es h id
  refine ⟨mv, h1, ?_⟩
  unfold mapFindFirstWithTag
  rw [h2]
  simp only [Option.bind_eq_bind, bind, Option.bind_some, pure]
  congr 1
  exact find_filter _ _ es

/-! ## iteration: sort by id, group equal ids -/

theorem insertById_perm (e : Entry) (l : List Entry) : (insertById e l).Perm (e :: l) := by
  induction l with
  | nil => exact List.Perm.refl _
  | cons x xs ih =>
    unfold insertById
    split
    · exact List.Perm.refl _
    · exact (List.Perm.cons x ih).trans (List.Perm.swap e x xs)

theorem sortById_perm (l : List Entry) : (sortById l).Perm l := by
  induction l with
  | nil => exact List.Perm.refl _
  | cons x xs ih =>
    show (insertById x (sortById xs)).Perm (x :: xs)
    exact (insertById_perm x _).trans (List.Perm.cons x ih)

def SortedById (l : List Entry) : Prop := l.Pairwise fun a b => a.id ≤ b.id

theorem insertById_sorted (e : Entry) (l : List Entry) (h : SortedById l) : SortedById (insertById e l) := by
  induction l with
  | nil => simp [insertById, SortedById]
  | cons x xs ih =>
    unfold insertById
    have hx := List.pairwise_cons.1 h
    split
    · rename_i hle
      refine List.pairwise_cons.2 ⟨?_, h⟩
      intro y hy
      rcases List.mem_cons.1 hy with rfl | hy
      · exact hle
      · exact BitVec.le_trans hle (hx.1 y hy)
    · rename_i hnle
      refine List.pairwise_cons.2 ⟨?_, ih hx.2⟩
      intro y hy
      have := (insertById_perm e xs).mem_iff.1 hy
      rcases List.mem_cons.1 this with rfl | hy
      · have : ¬ (y.id.toNat ≤ x.id.toNat) := hnle
        show x.id.toNat ≤ y.id.toNat
        omega
      · exact hx.1 y hy

theorem sortById_sorted (l : List Entry) : SortedById (sortById l) := by
  induction l with
  | nil => simp [sortById, SortedById]
  | cons x xs ih => exact insertById_sorted x _ ih

theorem groupById_flatten (l : List Entry) : (groupById l).flatMap (·.2) = l := by
  induction l with
  | nil => rfl
  | cons e es ih =>
    unfold groupById
    split
    · rename_i id g rest heq
      rw [heq] at ih
      split
      · simp only [List.flatMap_cons, List.cons_append] at ih ⊢; rw [ih]
      · simp only [List.flatMap_cons, List.cons_append, List.nil_append] at ih ⊢; rw [ih]
    · rename_i heq
      rw [heq] at ih
      simp at ih
      simp [← ih]

/-- what `groupById` produces on a list sorted by id: labels strictly increasing, the first label is the
head's id, and every group is exactly the entries with its label. -/
theorem groupById_spec : ∀ (l : List Entry), SortedById l →
    ((groupById l).Pairwise fun a b => a.1 < b.1) ∧
    (∀ e rest, l = e :: rest → ∃ g gs, groupById l = (e.id, g) :: gs) ∧
    (∀ p ∈ groupById l, p.2 = l.filter (fun e => e.id == p.1) ∧ p.2 ≠ []) := by
  intro l
  induction l with
  | nil => intro _; simp [groupById]
  | cons e es ih =>
    intro hs
    have hse := List.pairwise_cons.1 hs
    obtain ⟨ih1, ih2, ih3⟩ := ih hse.2
    unfold groupById
    split
    · rename_i id g rest heq
      rw [heq] at ih1 ih3
      -- `id` is the id of the head of `es`
      have hid : ∃ e' rest', es = e' :: rest' ∧ e'.id = id := by
        cases es with
        | nil => simp [groupById] at heq
        | cons e' rest' =>
          obtain ⟨g', gs', hg⟩ := ih2 e' rest' rfl
          rw [hg] at heq
          simp only [List.cons.injEq, Prod.mk.injEq] at heq
          exact ⟨e', rest', rfl, heq.1.1⟩
      obtain ⟨e', rest', hes, he'id⟩ := hid
      have hle : e.id ≤ id := by rw [← he'id]; exact hse.1 e' (by simp [hes])
      have ih1' := List.pairwise_cons.1 ih1
      split
      · rename_i heqid
        have heqid' : id = e.id := by simpa using heqid
        refine ⟨?_, ?_, ?_⟩
        · exact List.pairwise_cons.2 ⟨ih1'.1, ih1'.2⟩
        · intro e0 rest0 h0
          simp only [List.cons.injEq] at h0
          exact ⟨e :: g, rest, by rw [← h0.1, heqid']⟩
        · intro p hp
          rcases List.mem_cons.1 hp with rfl | hp
          · have := ih3 (id, g) (by simp)
            simp only at this ⊢
            refine ⟨?_, by simp⟩
            rw [List.filter_cons, this.1]
            simp [heqid']
          · have := ih3 p (by simp [hp])
            refine ⟨?_, this.2⟩
            rw [List.filter_cons, this.1]
            have hlt : id < p.1 := ih1'.1 p hp
            have hne : (e.id == p.1) = false := by
              have h1 : id.toNat < p.1.toNat := hlt
              have : e.id ≠ p.1 := by
                intro hh; rw [← hh, ← heqid'] at h1; omega
              simpa using this
            simp [hne]
      · rename_i hneid
        have hne : id ≠ e.id := by simpa using hneid
        have hlt : e.id < id := by
          have h1 : e.id.toNat ≤ id.toNat := hle
          have h2 : id.toNat ≠ e.id.toNat := fun hh => hne (BitVec.eq_of_toNat_eq hh)
          show e.id.toNat < id.toNat
          omega
        refine ⟨?_, ?_, ?_⟩
        · refine List.pairwise_cons.2 ⟨?_, ih1⟩
          intro p hp
          rcases List.mem_cons.1 hp with rfl | hp
          · exact hlt
          · exact BitVec.lt_trans hlt (ih1'.1 p hp)
        · intro e0 rest0 h0
          simp only [List.cons.injEq] at h0
          exact ⟨[e], (id, g) :: rest, by rw [← h0.1]⟩
        · intro p hp
          rcases List.mem_cons.1 hp with rfl | hp
          · simp only
            refine ⟨?_, by simp⟩
            rw [List.filter_cons]
            simp only [beq_self_eq_true, if_true]
            -- nothing in `es` has id `e.id`: all ids there are ≥ id > e.id
            have : es.filter (fun x => x.id == e.id) = [] := by
              rw [List.filter_eq_nil_iff]
              intro x hx
              have hxid : id ≤ x.id := by
                rw [hes] at hx hse
                rcases List.mem_cons.1 hx with rfl | hx'
                · rw [he'id]; exact BitVec.le_refl _
                · have := (List.pairwise_cons.1 hse.2).1 x hx'
                  rw [he'id] at this; exact this
              have h1 : e.id.toNat < id.toNat := hlt
              have h2 : id.toNat ≤ x.id.toNat := hxid
              intro hh
              have : x.id = e.id := by simpa using hh
              rw [this] at h2; omega
            rw [this]
          · have h3 := ih3 p hp
            refine ⟨?_, h3.2⟩
            rw [List.filter_cons, h3.1]
            have hlt2 : e.id < p.1 := by
              rcases List.mem_cons.1 hp with rfl | hp'
              · exact hlt
              · exact BitVec.lt_trans hlt (ih1'.1 p hp')
            have hne2 : (e.id == p.1) = false := by
              have h1 : e.id.toNat < p.1.toNat := hlt2
              have : e.id ≠ p.1 := by intro hh; rw [hh] at h1; omega
              simpa using this
            simp [hne2]
    · rename_i heq
      -- groupById es = [] forces es = []
      have hes : es = [] := by
        cases es with
        | nil => rfl
        | cons e' rest' =>
          obtain ⟨g', gs', hg⟩ := ih2 e' rest' rfl
          rw [hg] at heq; simp at heq
      subst hes
      refine ⟨by simp, ?_, ?_⟩
      · intro e0 rest0 h0
        simp only [List.cons.injEq] at h0
        exact ⟨[e], [], by rw [← h0.1]⟩
      · intro p hp
        simp only [List.mem_singleton] at hp
        subst hp
        simp


/-! ## iteration over the whole map -/

theorem foldr_buckets (m : MapView) (f : Nat → List Entry) : ∀ (ks : List Nat),
    (∀ k ∈ ks, mapBucket m k = some (f k)) →
    ks.foldr (fun k acc => do
      let es ← mapBucket m k
      let rest ← acc
      pure (groupById (sortById es) ++ rest)) (some [])
    = some (ks.flatMap fun k => groupById (sortById (f k))) := by
  intro ks
  induction ks with
  | nil => intro _; rfl
  | cons k ks ih =>
    intro h
    simp only [List.foldr_cons, List.flatMap_cons]
    rw [ih (fun k' hk' => h k' (by simp [hk'])), h k (by simp)]
    rfl

/-- group `p` of bucket `k`: its label's bucket is `k`, it is non-empty, and it holds (a permutation of —
the model sorts stably, the Go sort does not promise that) all entries written under its label. -/
theorem group_of_bucket (b : BitVec 64) (es : List Entry) (k : Nat) (hk : k < 2 ^ 64)
    (p : BitVec 64 × List Entry) (hp : p ∈ groupById (sortById (bucketEntries b es k))) :
    (bucketForID p.1 b).toNat = k ∧ p.2 ≠ [] ∧ p.2.Perm (es.filter fun e => e.id == p.1) := by
  obtain ⟨_, _, h3⟩ := groupById_spec _ (sortById_sorted (bucketEntries b es k))
  obtain ⟨hfil, hne⟩ := h3 p hp
  -- a member of the group
  have hex : ∃ e, e ∈ p.2 := by
    cases hg : p.2 with
    | nil => exact absurd hg hne
    | cons e _ => exact ⟨e, by simp⟩
  obtain ⟨e, he⟩ := hex
  rw [hfil, List.mem_filter] at he
  have heid : e.id = p.1 := by simpa using he.2
  have heb : e ∈ bucketEntries b es k := (sortById_perm _).mem_iff.1 he.1
  have hbk := (bucketEntries_spec b es k hk e heb).2
  have hk' : (bucketForID p.1 b).toNat = k := by
    rw [← heid, hbk, BitVec.toNat_ofNat, Nat.mod_eq_of_lt hk]
  refine ⟨hk', hne, ?_⟩
  rw [hfil]
  have := (sortById_perm (bucketEntries b es k)).filter (fun e => e.id == p.1)
  rw [← hk', filter_bucket] at this
  rw [← hk']
  exact this

/-- **iteration** (`Begin/Next`, `EachItem`): every id that was written is visited, no id is visited twice,
and a visit carries exactly the entries written under that id (as a multiset; order inside one id is not
promised by the code). -/
theorem map_iterate (b t : BitVec 64) (es : List Entry) (h : MapOK b t es) :
    ∃ mv gs, mapOpen (mapEncode b t es) = some mv ∧ mapIterate mv = some gs ∧
      gs.Pairwise (fun p q => p.1 ≠ q.1) ∧
      (∀ p ∈ gs, p.2 ≠ [] ∧ p.2.Perm (es.filter fun e => e.id == p.1)) ∧
      (∀ e ∈ es, ∃ p ∈ gs, p.1 = e.id) := by
  have hb : b.toNat ≤ 31 := h.hb
  have hb63 : b ≤ 63#64 := by show b.toNat ≤ 63; omega
  have hpow : 2 ^ b.toNat ≤ 2 ^ 31 := Nat.pow_le_pow_right (by omega) hb
  refine ⟨mapViewOf b t es, (List.range (2 ^ b.toNat)).flatMap (fun k => groupById (sortById (bucketEntries b es k))),
    mapOpen_mapEncode b t es h, ?_, ?_, ?_, ?_⟩
  · unfold mapIterate
    exact foldr_buckets (mapViewOf b t es) (bucketEntries b es) _
      (fun k hk => mapBucket_mapViewOf b t es h k (by
        have : (mapViewOf b t es).b = b := rfl
        rw [this] at hk; simpa using hk))
  · rw [List.pairwise_flatMap]
    constructor
    · intro k _
      obtain ⟨h1, _, _⟩ := groupById_spec _ (sortById_sorted (bucketEntries b es k))
      refine h1.imp ?_
      intro p q hlt heq
      have : p.1.toNat < q.1.toNat := hlt
      rw [heq] at this; omega
    · refine (List.pairwise_lt_range (n := 2 ^ b.toNat)).imp_of_mem ?_
      intro k1 k2 hk1 hk2 hlt p hp q hq heq
      have hk1' : k1 < 2 ^ b.toNat := by simpa using hk1
      have hk2' : k2 < 2 ^ b.toNat := by simpa using hk2
      have h1 := (group_of_bucket b es k1 (by omega) p hp).1
      have h2 := (group_of_bucket b es k2 (by omega) q hq).1
      rw [heq] at h1; omega
  · intro p hp
    obtain ⟨k, hk, hpk⟩ := List.mem_flatMap.1 hp
    have hk' : k < 2 ^ b.toNat := by simpa using hk
    have := group_of_bucket b es k (by omega) p hpk
    exact ⟨this.2.1, this.2.2⟩
  · intro e he
    have hk := bucketForID_lt e.id b hb63
    have heb : e ∈ bucketEntries b es (bucketForID e.id b).toNat := by
      unfold bucketEntries; rw [List.mem_filter]; exact ⟨he, by simp⟩
    have hes : e ∈ sortById (bucketEntries b es (bucketForID e.id b).toNat) := (sortById_perm _).mem_iff.2 heb
    rw [← groupById_flatten (sortById _)] at hes
    obtain ⟨p, hp, hep⟩ := List.mem_flatMap.1 hes
    obtain ⟨_, _, h3⟩ := groupById_spec _ (sortById_sorted (bucketEntries b es (bucketForID e.id b).toNat))
    have hfil := (h3 p hp).1
    rw [hfil, List.mem_filter] at hep
    refine ⟨p, List.mem_flatMap.2 ⟨_, by simpa using hk, hp⟩, ?_⟩
    have : e.id = p.1 := by simpa using hep.2
    exact this.symm


/-! ## the writer protocol: any order of writes -/

theorem writeAt_keep (buf : Bytes) (o : Nat) (d : Bytes) (p : Nat) (x : UInt8)
    (h : buf[p]? = some x) (hp : p < o ∨ o + d.length ≤ p) : (writeAt buf o d)[p]? = some x := by
  have hpl : p < buf.length := by
    rcases Nat.lt_or_ge p buf.length with h' | h'
    · exact h'
    · rw [List.getElem?_eq_none h'] at h; simp at h
  unfold writeAt
  simp only
  have hBlen : (buf ++ List.replicate (o + d.length - buf.length) (0 : UInt8)).length ≥ o + d.length := by
    simp only [List.length_append, List.length_replicate]; omega
  have hB : (buf ++ List.replicate (o + d.length - buf.length) (0 : UInt8))[p]? = some x := by
    rw [List.getElem?_append_left hpl]; exact h
  rcases hp with hp | hp
  · rw [List.append_assoc, List.getElem?_append_left (by simp only [List.length_take]; omega)]
    rw [List.getElem?_take_of_lt hp]; exact hB
  · have hl : ((buf ++ List.replicate (o + d.length - buf.length) (0 : UInt8)).take o ++ d).length = o + d.length := by
      simp only [List.length_append, List.length_take]; omega
    rw [List.getElem?_append_right (by omega), hl, List.getElem?_drop]
    have : o + d.length + (p - (o + d.length)) = p := by omega
    rw [this]; exact hB

theorem writeAt_new (buf : Bytes) (o : Nat) (d : Bytes) (j : Nat) (y : UInt8)
    (h : d[j]? = some y) : (writeAt buf o d)[o + j]? = some y := by
  have hj : j < d.length := by
    rcases Nat.lt_or_ge j d.length with h' | h'
    · exact h'
    · rw [List.getElem?_eq_none h'] at h; simp at h
  unfold writeAt
  simp only
  have hBlen : (buf ++ List.replicate (o + d.length - buf.length) (0 : UInt8)).length ≥ o + d.length := by
    simp only [List.length_append, List.length_replicate]; omega
  have hl : ((buf ++ List.replicate (o + d.length - buf.length) (0 : UInt8)).take o).length = o := by
    simp only [List.length_take]; omega
  rw [List.append_assoc, List.getElem?_append_right (by omega), hl]
  have : o + j - o = j := by omega
  rw [this, List.getElem?_append_left hj]; exact h

def foldWrite (out : Bytes) (o : Nat) (bufs : List Bytes) : Bytes :=
  (bufs.foldl (fun (acc : Bytes × Nat) b => (writeAt acc.1 acc.2 b, acc.2 + b.length)) (out, o)).1

theorem foldWrite_spec : ∀ (bufs : List Bytes) (out : Bytes) (o : Nat),
    (∀ p x, out[p]? = some x → (p < o ∨ o + bufs.flatten.length ≤ p) → (foldWrite out o bufs)[p]? = some x) ∧
    (∀ j y, bufs.flatten[j]? = some y → (foldWrite out o bufs)[o + j]? = some y) := by
  intro bufs
  induction bufs with
  | nil =>
    intro out o
    refine ⟨fun p x h _ => by simpa [foldWrite] using h, fun j y h => by simp at h⟩
  | cons b bs ih =>
    intro out o
    have hfw : foldWrite out o (b :: bs) = foldWrite (writeAt out o b) (o + b.length) bs := rfl
    obtain ⟨ih1, ih2⟩ := ih (writeAt out o b) (o + b.length)
    rw [hfw]
    simp only [List.flatten_cons, List.length_append]
    constructor
    · intro p x h hp
      apply ih1 p x
      · exact writeAt_keep out o b p x h (by omega)
      · omega
    · intro j y h
      rcases Nat.lt_or_ge j b.length with hj | hj
      · rw [List.getElem?_append_left hj] at h
        apply ih1 (o + j) y (writeAt_new out o b j y h)
        omega
      · rw [List.getElem?_append_right hj] at h
        have := ih2 (j - b.length) y h
        have e : o + b.length + (j - b.length) = o + j := by omega
        rw [e] at this; exact this


/-- bytes written to item `i` by a list of `WriteItem` calls, in call order. -/
def written (ws : List (Nat × List Bytes)) (i : Nat) : Bytes :=
  (ws.filter fun w => w.1 == i).flatMap fun w => w.2.flatten

theorem written_cons (x : Nat × List Bytes) (ws : List (Nat × List Bytes)) (j : Nat) :
    written (x :: ws) j = (if x.1 = j then x.2.flatten else []) ++ written ws j := by
  unfold written
  by_cases h : x.1 = j
  · simp [List.filter_cons, h]
  · simp [List.filter_cons, h]

/-- the writer invariant: `W i` = what has been written to item `i` so far. -/
structure Inv (res : List Nat) (w : BAWriter) (W : Nat → Bytes) : Prop where
  items : w.items = res.length
  dataOff : w.dataOff = baDataOffset res
  curLen : w.cursor.length = res.length + 1
  cur : ∀ (j : Nat), j < res.length → w.cursor[j]? = some ((res.take j).sum + (W j).length)
  curLast : w.cursor[res.length]? = some res.sum
  fits : ∀ (j : Nat), j < res.length → (W j).length ≤ res[j]?.getD 0
  header : ∀ (p : Nat) (y : UInt8), (baHeader res)[p]? = some y → w.out[p]? = some y
  data : ∀ (j : Nat), j < res.length → ∀ (k : Nat) (y : UInt8), (W j)[k]? = some y →
    w.out[baDataOffset res + (res.take j).sum + k]? = some y

theorem inv_start (res : List Nat) : Inv res (baStart res) (fun _ => []) := by
  refine ⟨rfl, rfl, by simp [baStart, starts_length], ?_, ?_, ?_, ?_, ?_⟩
  · intro j hj
    simp only [baStart, List.length_nil, Nat.add_zero]
    have := starts_get res 0 j (by omega)
    simpa using this
  · have := starts_get res 0 res.length (by omega)
    simpa [baStart] using this
  · intro j _; simp
  · intro p y h; exact h
  · intro j _ k y h; simp at h

theorem inv_step (res : List Nat) (w : BAWriter) (W : Nat → Bytes) (hinv : Inv res w W)
    (i : Nat) (bufs : List Bytes) (hi : i < res.length)
    (hfit : (W i).length + bufs.flatten.length ≤ res[i]) :
    ∃ w', baWriteItem w i bufs = some w' ∧
      Inv res w' (fun j => if i = j then W j ++ bufs.flatten else W j) := by
  have hlen : (bufs.map List.length).sum = bufs.flatten.length := by rw [List.length_flatten]
  have hp := hinv.cur i hi
  have hq : ∃ q, w.cursor[i + 1]? = some q ∧ (res.take (i + 1)).sum ≤ q := by
    rcases Nat.lt_or_ge (i + 1) res.length with h1 | h1
    · exact ⟨_, hinv.cur (i + 1) h1, by omega⟩
    · have : i + 1 = res.length := by omega
      rw [this]
      exact ⟨_, hinv.curLast, by simp⟩
  obtain ⟨q, hq1, hq2⟩ := hq
  rw [sum_take_succ res i hi] at hq2
  unfold baWriteItem
  have hni : ¬ (i ≥ w.items) := by rw [hinv.items]; omega
  rw [if_neg hni, hp, hq1]
  simp only
  rw [hlen]
  have hnp : ¬ ((res.take i).sum + (W i).length + bufs.flatten.length > q) := by omega
  rw [if_neg hnp]
  refine ⟨_, rfl, ?_⟩
  have hout : ∀ (out : Bytes) (o : Nat),
      (bufs.foldl (fun (acc : Bytes × Nat) b => (writeAt acc.1 acc.2 b, acc.2 + b.length)) (out, o)).1
        = foldWrite out o bufs := fun _ _ => rfl
  obtain ⟨fw1, fw2⟩ := foldWrite_spec bufs w.out (w.dataOff + ((res.take i).sum + (W i).length))
  -- positions of other regions are left alone
  refine ⟨hinv.items, hinv.dataOff, by simp [hinv.curLen], ?_, ?_, ?_, ?_, ?_⟩
  · intro j hj
    simp only
    by_cases hij : i = j
    · subst hij
      rw [List.getElem?_set_self (by rw [hinv.curLen]; omega)]
      simp [List.length_append, Nat.add_assoc]
    · rw [List.getElem?_set_ne hij, if_neg hij]
      exact hinv.cur j hj
  · show (w.cursor.set i _)[res.length]? = _
    rw [List.getElem?_set_ne (by omega)]
    exact hinv.curLast
  · intro j hj
    by_cases hij : i = j
    · subst hij
      rw [if_pos rfl, List.length_append, List.getElem?_eq_getElem hi]
      simpa using hfit
    · rw [if_neg hij]; exact hinv.fits j hj
  · intro p y h
    simp only
    have hpl : p < (baHeader res).length := by
      rcases Nat.lt_or_ge p (baHeader res).length with h' | h'
      · exact h'
      · rw [List.getElem?_eq_none h'] at h; simp at h
    rw [baHeader_length] at hpl
    apply fw1 p y (hinv.header p y h)
    left; rw [hinv.dataOff]; omega
  · intro j hj k y h
    simp only at h ⊢
    by_cases hij : i = j
    · subst hij
      rw [if_pos rfl] at h
      rcases Nat.lt_or_ge k (W i).length with hk | hk
      · rw [List.getElem?_append_left hk] at h
        apply fw1 _ y (hinv.data i hi k y h)
        left; rw [hinv.dataOff]; omega
      · rw [List.getElem?_append_right hk] at h
        have := fw2 (k - (W i).length) y h
        have e : w.dataOff + ((res.take i).sum + (W i).length) + (k - (W i).length)
            = baDataOffset res + (res.take i).sum + k := by rw [hinv.dataOff]; omega
        rw [e] at this; exact this
    · rw [if_neg hij] at h
      have hkl : k < (W j).length := by
        rcases Nat.lt_or_ge k (W j).length with h' | h'
        · exact h'
        · rw [List.getElem?_eq_none h'] at h; simp at h
      have hfj := hinv.fits j hj
      rw [List.getElem?_eq_getElem hj] at hfj
      simp only [Option.getD_some] at hfj
      apply fw1 _ y (hinv.data j hj k y h)
      rw [hinv.dataOff]
      -- regions of different items are disjoint
      rcases Nat.lt_or_ge j i with hlt | hge
      · left
        have : (res.take (j + 1)).sum ≤ (res.take i).sum := by
          have := sum_take_le (res.take i) (j + 1)
          rw [List.take_take] at this
          have hm : min (j + 1) i = j + 1 := by omega
          rw [hm] at this; exact this
        rw [sum_take_succ res j hj] at this
        omega
      · right
        have hji : i < j := by omega
        have : (res.take (i + 1)).sum ≤ (res.take j).sum := by
          have := sum_take_le (res.take j) (i + 1)
          rw [List.take_take] at this
          have hm : min (i + 1) j = i + 1 := by omega
          rw [hm] at this; exact this
        rw [sum_take_succ res i hi] at this
        omega


/-- a sequence of `WriteItem(i, buffers...)` calls after `WriteHeader`; `none` = some call panicked. -/
def runWrites (w : BAWriter) (ws : List (Nat × List Bytes)) : Option BAWriter :=
  ws.foldl (fun acc x => acc.bind fun w => baWriteItem w x.1 x.2) (some w)

theorem runWrites_cons (w : BAWriter) (x : Nat × List Bytes) (ws : List (Nat × List Bytes)) :
    runWrites w (x :: ws) = (baWriteItem w x.1 x.2).bind fun w' => runWrites w' ws := by
  unfold runWrites
  simp only [List.foldl_cons, Option.bind_some]
  cases baWriteItem w x.1 x.2 with
  | some w' => rfl
  | none =>
    simp only [Option.bind_none]
    induction ws with
    | nil => rfl
    | cons y ys ih => simpa [List.foldl_cons] using ih

theorem run_inv (res : List Nat) : ∀ (ws : List (Nat × List Bytes)) (w : BAWriter) (W : Nat → Bytes),
    Inv res w W → (∀ x ∈ ws, x.1 < res.length) →
    (∀ j (hj : j < res.length), (W j).length + (written ws j).length ≤ res[j]) →
    ∃ w', runWrites w ws = some w' ∧ Inv res w' (fun j => W j ++ written ws j) := by
  intro ws
  induction ws with
  | nil =>
    intro w W hinv _ _
    refine ⟨w, rfl, ?_⟩
    have : (fun j => W j ++ written [] j) = W := by funext j; simp [written]
    rw [this]; exact hinv
  | cons x ws ih =>
    intro w W hinv hit hfit
    have hxi : x.1 < res.length := hit x (by simp)
    have hf := hfit x.1 hxi
    rw [written_cons, if_pos rfl, List.length_append] at hf
    obtain ⟨w1, hw1, hinv1⟩ := inv_step res w W hinv x.1 x.2 hxi (by omega)
    have hfit' : ∀ j (hj : j < res.length),
        ((fun j => if x.1 = j then W j ++ x.2.flatten else W j) j).length + (written ws j).length ≤ res[j] := by
      intro j hj
      have := hfit j hj
      rw [written_cons] at this
      by_cases hij : x.1 = j
      · simp only [hij, if_true, List.length_append] at this ⊢; omega
      · simp only [hij, if_false, List.nil_append] at this ⊢; exact this
    obtain ⟨w2, hw2, hinv2⟩ := ih w1 _ hinv1 (fun y hy => hit y (by simp [hy])) hfit'
    refine ⟨w2, by rw [runWrites_cons, hw1]; exact hw2, ?_⟩
    have : (fun j => (fun j => if x.1 = j then W j ++ x.2.flatten else W j) j ++ written ws j)
        = (fun j => W j ++ written (x :: ws) j) := by
      funext j
      rw [written_cons]
      by_cases hij : x.1 = j
      · simp [hij, List.append_assoc]
      · simp [hij]
    rw [this] at hinv2; exact hinv2

/-- **ByteArrays, any reservation/write order**: reserve `res[i]` bytes per item (in any number of `Reserve`
calls), write the header, then perform the `WriteItem` calls `ws` in any order; if every item ends up
exactly filled, no call panics and `Item(i)` of the result is the concatenation of the writes to `i`. -/
theorem bytearrays_item (res : List Nat) (ws : List (Nat × List Bytes))
    (hn : res.length < 2 ^ 32) (ht : res.sum < 2 ^ 64)
    (hitems : ∀ x ∈ ws, x.1 < res.length)
    (hexact : ∀ j (hj : j < res.length), (written ws j).length = res[j]) :
    ∃ w, runWrites (baStart res) ws = some w ∧
      ∀ i, i < res.length → baItem w.out i = some (written ws i) := by
  obtain ⟨w, hw, hinv⟩ := run_inv res ws (baStart res) (fun _ => []) (inv_start res) hitems
    (fun j hj => by simp [hexact j hj])
  refine ⟨w, hw, ?_⟩
  have hW : (fun j => ([] : Bytes) ++ written ws j) = written ws := by funext j; simp
  rw [hW] at hinv
  -- the output starts with the header
  have hoff := baHeader_length res
  have hlen : (baHeader res).length ≤ w.out.length := by
    rcases Nat.lt_or_ge w.out.length (baHeader res).length with h' | h'
    · exfalso
      have hpos : w.out.length < (baHeader res).length := h'
      have := hinv.header w.out.length ((baHeader res)[w.out.length]) (by
        rw [List.getElem?_eq_getElem hpos])
      rw [List.getElem?_eq_none (Nat.le_refl _)] at this; simp at this
    · exact h'
  have htake : w.out.take (baHeader res).length = baHeader res := by
    apply List.ext_getElem?
    intro p
    rcases Nat.lt_or_ge p (baHeader res).length with hp | hp
    · rw [List.getElem?_take_of_lt hp, List.getElem?_eq_getElem hp]
      exact hinv.header p _ (List.getElem?_eq_getElem hp)
    · rw [List.getElem?_eq_none hp, List.getElem?_eq_none (by simp only [List.length_take]; omega)]
  have hsplit : w.out = baHeader res ++ w.out.drop (baHeader res).length := by
    conv => lhs; rw [← List.take_append_drop (baHeader res).length w.out, htake]
  -- every running sum is covered by the output
  have hcov : ∀ i, i ≤ res.length → (res.take i).sum ≤ (w.out.drop (baHeader res).length).length := by
    intro i
    induction i with
    | zero => intro _; simp
    | succ i ih =>
      intro hi
      have hi' : i < res.length := by omega
      rw [sum_take_succ res i hi']
      rcases Nat.eq_zero_or_pos res[i] with h0 | hpos
      · rw [h0]; exact ih (by omega)
      · have hwl := hexact i hi'
        have hk : res[i] - 1 < (written ws i).length := by omega
        have := hinv.data i hi' (res[i] - 1) _ (List.getElem?_eq_getElem hk)
        have hlt : baDataOffset res + (res.take i).sum + (res[i] - 1) < w.out.length := by
          rcases Nat.lt_or_ge (baDataOffset res + (res.take i).sum + (res[i] - 1)) w.out.length with h' | h'
          · exact h'
          · rw [List.getElem?_eq_none h'] at this; simp at this
        rw [List.length_drop, hoff]; omega
  intro i hi
  rw [hsplit, bytearrays_read res _ i hn ht hi (hcov (i + 1) (by omega))]
  congr 1
  apply List.ext_getElem?
  intro k
  have hwl := hexact i hi
  rcases Nat.lt_or_ge k res[i] with hk | hk
  · rw [List.getElem?_take_of_lt hk, List.getElem?_drop, List.getElem?_drop]
    have hk' : k < (written ws i).length := by omega
    have := hinv.data i hi k _ (List.getElem?_eq_getElem hk')
    rw [List.getElem?_eq_getElem hk']
    rw [← this, hoff]
    congr 1
    omega
  · rw [List.getElem?_eq_none (by simp only [List.length_take]; omega), List.getElem?_eq_none (by omega)]


end B6.Lemmas.Containers
