import B6.Model.Merged
/-!
# Lemmas about the merged compact world (C17)

* the id order is a strict linear order;
* `mergeAll` (the k-way merge of `b6.MergeFeatures`) of ascending streams is the strictly ascending list of
  the union of their members, by induction on the number of `Next` steps, for any number of streams;
* `findIn` / `hasIn` / `loc` over appended block lists are "first hit", and characterised by the blocks
  that hold the id.
-/
namespace B6.Lemmas.Merged
open B6.Model.Merged

/-! ## The id order -/

theorem lt_def (a b : ID) : a < b ↔
    (a.typ < b.typ ∨ (a.typ = b.typ ∧ (a.ns < b.ns ∨ (a.ns = b.ns ∧ a.val < b.val)))) := Iff.rfl

theorem eq_iff (a b : ID) : a = b ↔ a.typ = b.typ ∧ a.ns = b.ns ∧ a.val = b.val := by
  cases a; cases b; simp

theorem lt_irrefl (a : ID) : ¬ a < a := by rw [lt_def]; omega

theorem lt_trans {a b c : ID} (h1 : a < b) (h2 : b < c) : a < c := by
  rw [lt_def] at *; omega

theorem lt_trichotomy (a b : ID) : a < b ∨ a = b ∨ b < a := by
  rw [lt_def, lt_def, eq_iff]; omega

theorem lt_asymm {a b : ID} (h : a < b) : ¬ b < a := fun h' => lt_irrefl a (lt_trans h h')

theorem ne_of_lt {a b : ID} (h : a < b) : a ≠ b := fun e => lt_irrefl a (e ▸ h)

/-- `a < b`, `b ≤ c` ⇒ `a < c` -/
theorem lt_of_lt_of_not_lt {a b c : ID} (h1 : a < b) (h2 : ¬ c < b) : a < c := by
  rcases lt_trichotomy b c with h | h | h
  · exact lt_trans h1 h
  · exact h ▸ h1
  · exact absurd h h2

/-- `a ≤ b`, `b ≤ c` ⇒ `a ≤ c` -/
theorem not_lt_trans {a b c : ID} (h1 : ¬ b < a) (h2 : ¬ c < b) : ¬ c < a := by
  intro h
  rcases lt_trichotomy a b with h' | h' | h'
  · exact h2 (lt_trans h h')
  · subst h'; exact h2 h
  · exact h1 h'

/-- ascending, repetitions allowed: what a posting-list cursor must yield -/
def Sorted (l : List ID) : Prop := l.Pairwise (fun a b => ¬ b < a)

/-- strictly ascending: in id order without duplicates -/
def StrictSorted (l : List ID) : Prop := l.Pairwise (· < ·)

instance (l : List ID) : Decidable (Sorted l) := by unfold Sorted; infer_instance
instance (l : List ID) : Decidable (StrictSorted l) := by unfold StrictSorted; infer_instance

theorem StrictSorted.sorted {l : List ID} (h : StrictSorted l) : Sorted l :=
  List.Pairwise.imp (fun hab => lt_asymm hab) h

theorem StrictSorted.nodup {l : List ID} (h : StrictSorted l) : l.Nodup :=
  List.Pairwise.imp (fun hab => ne_of_lt hab) h

theorem strictSorted_cons {a : ID} {l : List ID} :
    StrictSorted (a :: l) ↔ (∀ y ∈ l, a < y) ∧ StrictSorted l := by
  unfold StrictSorted; exact List.pairwise_cons

theorem sorted_cons {a : ID} {l : List ID} :
    Sorted (a :: l) ↔ (∀ y ∈ l, ¬ y < a) ∧ Sorted l := by
  unfold Sorted; exact List.pairwise_cons

/-- two strictly ascending lists with the same members are equal -/
theorem StrictSorted.ext : ∀ {a b : List ID}, StrictSorted a → StrictSorted b →
    (∀ x, x ∈ a ↔ x ∈ b) → a = b
  | [], [], _, _, _ => rfl
  | [], y :: _, _, _, h => by have := (h y).2 (by simp); simp at this
  | x :: _, [], _, _, h => by have := (h x).1 (by simp); simp at this
  | x :: a, y :: b, ha, hb, h => by
    rw [strictSorted_cons] at ha hb
    have hxy : x = y := by
      have h1 := (h x).1 (by simp)
      have h2 := (h y).2 (by simp)
      simp only [List.mem_cons] at h1 h2
      rcases h1 with h1 | h1
      · exact h1
      · rcases h2 with h2 | h2
        · exact h2.symm
        · exact absurd (ha.1 y h2) (lt_asymm (hb.1 x h1))
    subst hxy
    have : a = b := by
      apply StrictSorted.ext ha.2 hb.2
      intro z
      have hz := h z
      simp only [List.mem_cons] at hz
      constructor
      · intro hza
        rcases hz.1 (Or.inr hza) with h' | h'
        · exact absurd (ha.1 z hza) (h' ▸ lt_irrefl x)
        · exact h'
      · intro hzb
        rcases hz.2 (Or.inr hzb) with h' | h'
        · exact absurd (hb.1 z hzb) (h' ▸ lt_irrefl x)
        · exact h'
    rw [this]

/-! ## The k-way merge -/

theorem minHead_none : ∀ {cs : List (List ID)}, minHead cs = none → ∀ c ∈ cs, c = []
  | [], _, c, hc => by simp at hc
  | [] :: rest, h, c, hc => by
    simp only [minHead] at h
    rcases List.mem_cons.1 hc with e | hc'
    · exact e
    · exact minHead_none h c hc'
  | (x :: t) :: rest, h, _, _ => by
    simp only [minHead] at h
    split at h
    · simp at h
    · split at h <;> simp at h

/-- the top of the heap is the head of a live stream … -/
theorem minHead_mem : ∀ {cs : List (List ID)} {m : ID}, minHead cs = some m →
    ∃ t, (m :: t) ∈ cs
  | [], _, h => by simp [minHead] at h
  | [] :: rest, m, h => by
    simp only [minHead] at h
    obtain ⟨t, ht⟩ := minHead_mem h
    exact ⟨t, List.mem_cons_of_mem _ ht⟩
  | (x :: t) :: rest, m, h => by
    simp only [minHead] at h
    split at h
    · simp only [Option.some.injEq] at h; subst h; exact ⟨t, by simp⟩
    · rename_i m' hm'
      split at h
      · simp only [Option.some.injEq] at h; subst h
        obtain ⟨t', ht'⟩ := minHead_mem hm'
        exact ⟨t', List.mem_cons_of_mem _ ht'⟩
      · simp only [Option.some.injEq] at h; subst h; exact ⟨t, by simp⟩

/-- … and no live stream has a smaller head -/
theorem minHead_le : ∀ {cs : List (List ID)} {m : ID}, minHead cs = some m →
    ∀ y t, (y :: t) ∈ cs → ¬ y < m
  | [], _, h, _, _, _ => by simp [minHead] at h
  | [] :: rest, m, h, y, t, hy => by
    simp only [minHead] at h
    rcases List.mem_cons.1 hy with e | hy'
    · simp at e
    · exact minHead_le h y t hy'
  | (x :: tx) :: rest, m, h, y, t, hy => by
    simp only [minHead] at h
    split at h
    · rename_i hnone
      simp only [Option.some.injEq] at h; subst h
      rcases List.mem_cons.1 hy with e | hy'
      · simp only [List.cons.injEq] at e; rw [e.1]; exact lt_irrefl _
      · have := minHead_none hnone _ hy'; simp at this
    · rename_i m' hm'
      split at h
      · rename_i hlt
        simp only [Option.some.injEq] at h; subst h
        rcases List.mem_cons.1 hy with e | hy'
        · simp only [List.cons.injEq] at e; rw [e.1]; exact lt_asymm hlt
        · exact minHead_le hm' y t hy'
      · rename_i hnlt
        simp only [Option.some.injEq] at h; subst h
        rcases List.mem_cons.1 hy with e | hy'
        · simp only [List.cons.injEq] at e; rw [e.1]; exact lt_irrefl _
        · exact not_lt_trans hnlt (minHead_le hm' y t hy')

theorem mem_dropHead {m x : ID} {c : List ID} (h : x ∈ dropHead m c) : x ∈ c :=
  (List.dropWhile_sublist _).subset h

theorem mem_dropHead_of_ne {m x : ID} : ∀ {c : List ID}, x ∈ c → x ≠ m → x ∈ dropHead m c
  | [], h, _ => by simp at h
  | y :: t, h, hne => by
    unfold dropHead
    rw [List.dropWhile_cons]
    split
    · rename_i hy
      have hy' : y = m := by simpa using hy
      rcases List.mem_cons.1 h with e | h'
      · exact absurd (e.trans hy') hne
      · exact mem_dropHead_of_ne h' hne
    · exact h

theorem sorted_dropHead {m : ID} {c : List ID} (h : Sorted c) : Sorted (dropHead m c) :=
  List.Pairwise.sublist (List.dropWhile_sublist _) h

/-- what is left of an ascending stream whose members are all `≥ m` is `> m` -/
theorem lt_of_mem_dropHead {m x : ID} : ∀ {c : List ID}, Sorted c → (∀ y ∈ c, ¬ y < m) →
    x ∈ dropHead m c → m < x
  | [], _, _, h => by simp [dropHead] at h
  | y :: t, hs, hge, h => by
    unfold dropHead at h
    rw [List.dropWhile_cons] at h
    rw [sorted_cons] at hs
    split at h
    · exact lt_of_mem_dropHead hs.2 (fun z hz => hge z (List.mem_cons_of_mem _ hz)) h
    · rename_i hy
      have hym : y ≠ m := by simpa using hy
      have hmy : m < y := by
        rcases lt_trichotomy m y with h' | h' | h'
        · exact h'
        · exact absurd h'.symm hym
        · exact absurd h' (hge y (by simp))
      rcases List.mem_cons.1 h with e | h'
      · exact e ▸ hmy
      · exact lt_of_lt_of_not_lt hmy (hs.1 x h')

theorem totalLength_nil : totalLength [] = 0 := rfl

theorem totalLength_cons (c : List ID) (cs : List (List ID)) :
    totalLength (c :: cs) = c.length + totalLength cs := by
  simp [totalLength]

theorem length_dropHead_le (m : ID) (c : List ID) : (dropHead m c).length ≤ c.length :=
  (List.dropWhile_sublist _).length_le

theorem totalLength_dropHead_le (m : ID) : ∀ cs : List (List ID),
    totalLength (cs.map (dropHead m)) ≤ totalLength cs
  | [] => by simp [totalLength]
  | c :: cs => by
    rw [List.map_cons, totalLength_cons, totalLength_cons]
    have := length_dropHead_le m c
    have := totalLength_dropHead_le m cs
    omega

theorem totalLength_dropHead_lt {m : ID} : ∀ {cs : List (List ID)} {t : List ID}, (m :: t) ∈ cs →
    totalLength (cs.map (dropHead m)) < totalLength cs
  | [], _, h => by simp at h
  | c :: cs, t, h => by
    rw [List.map_cons, totalLength_cons, totalLength_cons]
    rcases List.mem_cons.1 h with e | h'
    · subst e
      have h1 : (dropHead m (m :: t)).length ≤ t.length := by
        unfold dropHead
        rw [List.dropWhile_cons]
        simp only [beq_self_eq_true, if_true]
        exact (List.dropWhile_sublist _).length_le
      have := totalLength_dropHead_le m cs
      simp only [List.length_cons]
      omega
    · have := totalLength_dropHead_lt h'
      have := length_dropHead_le m c
      omega

theorem totalLength_zero : ∀ {cs : List (List ID)}, totalLength cs = 0 → ∀ c ∈ cs, c = []
  | [], _, c, hc => by simp at hc
  | c :: cs, h, c', hc' => by
    rw [totalLength_cons] at h
    rcases List.mem_cons.1 hc' with e | h'
    · subst e
      exact List.length_eq_zero_iff.1 (by omega)
    · exact totalLength_zero (by omega) c' h'

/-- The merge of ascending streams, given enough steps, is strictly ascending and has exactly the members
of the streams — for any number of streams and any lengths. -/
theorem mergeAll_spec : ∀ (fuel : Nat) (cs : List (List ID)), (∀ c ∈ cs, Sorted c) →
    totalLength cs ≤ fuel →
    StrictSorted (mergeAll fuel cs) ∧ ∀ x, x ∈ mergeAll fuel cs ↔ ∃ c ∈ cs, x ∈ c
  | 0, cs, _, hlen => by
    have hall := totalLength_zero (Nat.le_zero.1 hlen)
    refine ⟨by simp [mergeAll, StrictSorted], fun x => ?_⟩
    simp only [mergeAll, List.not_mem_nil, false_iff]
    rintro ⟨c, hc, hx⟩
    rw [hall c hc] at hx; simp at hx
  | fuel + 1, cs, hs, hlen => by
    simp only [mergeAll]
    split
    · rename_i hnone
      have hall := minHead_none hnone
      refine ⟨by simp [StrictSorted], fun x => ?_⟩
      simp only [List.not_mem_nil, false_iff]
      rintro ⟨c, hc, hx⟩
      rw [hall c hc] at hx; simp at hx
    · rename_i m hm
      obtain ⟨t, ht⟩ := minHead_mem hm
      have hge : ∀ c ∈ cs, ∀ y ∈ c, ¬ y < m := by
        intro c hc y hy
        cases c with
        | nil => simp at hy
        | cons z tz =>
          have hz := minHead_le hm z tz hc
          rcases List.mem_cons.1 hy with e | hy'
          · exact e ▸ hz
          · exact not_lt_trans hz ((sorted_cons.1 (hs _ hc)).1 y hy')
      have hs' : ∀ c ∈ cs.map (dropHead m), Sorted c := by
        intro c hc
        obtain ⟨c0, hc0, rfl⟩ := List.mem_map.1 hc
        exact sorted_dropHead (hs c0 hc0)
      have hlen' : totalLength (cs.map (dropHead m)) ≤ fuel := by
        have := totalLength_dropHead_lt ht
        omega
      obtain ⟨ihs, ihm⟩ := mergeAll_spec fuel (cs.map (dropHead m)) hs' hlen'
      refine ⟨strictSorted_cons.2 ⟨?_, ihs⟩, fun x => ?_⟩
      · intro y hy
        obtain ⟨c, hc, hyc⟩ := (ihm y).1 hy
        obtain ⟨c0, hc0, rfl⟩ := List.mem_map.1 hc
        exact lt_of_mem_dropHead (hs c0 hc0) (hge c0 hc0) hyc
      · rw [List.mem_cons, ihm]
        constructor
        · rintro (e | ⟨c, hc, hx⟩)
          · exact ⟨m :: t, ht, by simp [e]⟩
          · obtain ⟨c0, hc0, rfl⟩ := List.mem_map.1 hc
            exact ⟨c0, hc0, mem_dropHead hx⟩
        · rintro ⟨c, hc, hx⟩
          by_cases e : x = m
          · exact Or.inl e
          · exact Or.inr ⟨dropHead m c, List.mem_map.2 ⟨c, hc, rfl⟩, mem_dropHead_of_ne hx e⟩

theorem merged_spec (cs : List (List ID)) (hs : ∀ c ∈ cs, Sorted c) :
    StrictSorted (merged cs) ∧ ∀ x, x ∈ merged cs ↔ ∃ c ∈ cs, x ∈ c :=
  mergeAll_spec _ cs hs (Nat.le_refl _)

/-! ## Lookups -/

variable {α β : Type}

/-- block `b` holds the feature `id` with content `c` -/
def Holds (b : Block α β) (id : ID) (c : α) : Prop :=
  b.matchesID id = true ∧ ∃ e, b.findFirst id.val = some e ∧ e.real = true ∧ e.content = c

theorem findIn_append (w1 w2 : List (Block α β)) (id : ID) :
    findIn (w1 ++ w2) id = (findIn w1 id).or (findIn w2 id) := by
  induction w1 with
  | nil => simp [findIn]
  | cons b rest ih =>
    simp only [List.cons_append, findIn]
    split
    · split
      · split
        · simp
        · exact ih
      · exact ih
    · exact ih

theorem findIn_sound : ∀ {w : List (Block α β)} {id : ID} {c : α}, findIn w id = some c →
    ∃ b ∈ w, Holds b id c
  | [], _, _, h => by simp [findIn] at h
  | b :: rest, id, c, h => by
    simp only [findIn] at h
    split at h
    · rename_i hm
      split at h
      · rename_i e he
        split at h
        · rename_i hr
          simp only [Option.some.injEq] at h
          exact ⟨b, by simp, hm, e, he, hr, h⟩
        · obtain ⟨b', hb', hh⟩ := findIn_sound h
          exact ⟨b', List.mem_cons_of_mem _ hb', hh⟩
      · obtain ⟨b', hb', hh⟩ := findIn_sound h
        exact ⟨b', List.mem_cons_of_mem _ hb', hh⟩
    · obtain ⟨b', hb', hh⟩ := findIn_sound h
      exact ⟨b', List.mem_cons_of_mem _ hb', hh⟩

theorem findIn_complete : ∀ {w : List (Block α β)} {id : ID} {c : α}, (∃ b ∈ w, Holds b id c) →
    ∃ c', findIn w id = some c'
  | [], _, _, h => by obtain ⟨b, hb, _⟩ := h; simp at hb
  | b :: rest, id, c, h => by
    obtain ⟨b', hb', hm, e, he, hr, hc⟩ := h
    simp only [findIn]
    rcases List.mem_cons.1 hb' with rfl | hin
    · simp [hm, he, hr]
    · have ih := findIn_complete (w := rest) ⟨b', hin, hm, e, he, hr, hc⟩
      split
      · split
        · split
          · exact ⟨_, rfl⟩
          · exact ih
        · exact ih
      · exact ih

/-- the blocks agree about `id`: whatever two of them hold for it is the same (in particular when at most
one block holds it — the id sets of the files are disjoint) -/
def Agree (w : List (Block α β)) (id : ID) : Prop :=
  ∀ b1 ∈ w, ∀ b2 ∈ w, ∀ c1 c2, Holds b1 id c1 → Holds b2 id c2 → c1 = c2

theorem findIn_iff {w : List (Block α β)} {id : ID} (hu : Agree w id) (c : α) :
    findIn w id = some c ↔ ∃ b ∈ w, Holds b id c := by
  constructor
  · exact findIn_sound
  · intro h
    obtain ⟨c', hc'⟩ := findIn_complete h
    obtain ⟨b1, hb1, h1⟩ := findIn_sound hc'
    obtain ⟨b2, hb2, h2⟩ := h
    rw [hc', hu b1 hb1 b2 hb2 c' c h1 h2]

theorem hasIn_eq (w : List (Block α β)) (id : ID) : hasIn w id = (findIn w id).isSome := by
  induction w with
  | nil => simp [hasIn, findIn]
  | cons b rest ih =>
    simp only [hasIn, findIn]
    split
    · split
      · split
        · simp
        · exact ih
      · exact ih
    · exact ih

/-! ## Locations -/

/-- block `b` stores the location `l` for the point `id` -/
def Locates (b : Block α β) (id : ID) (l : β) : Prop :=
  b.matchesAs 0 0 id.ns = true ∧ ∃ e, b.findFirst id.val = some e ∧ e.real = true ∧ e.loc = some l

theorem loc_append (w1 w2 : List (Block α β)) (id : ID) :
    loc (w1 ++ w2) id = (loc w1 id).or (loc w2 id) := by
  induction w1 with
  | nil => simp [loc]
  | cons b rest ih =>
    simp only [List.cons_append, loc]
    split
    · split
      · split
        · split
          · simp
          · exact ih
        · exact ih
      · exact ih
    · exact ih

theorem loc_sound : ∀ {w : List (Block α β)} {id : ID} {l : β}, loc w id = some l →
    ∃ b ∈ w, Locates b id l
  | [], _, _, h => by simp [loc] at h
  | b :: rest, id, l, h => by
    have lift : loc rest id = some l → ∃ b' ∈ b :: rest, Locates b' id l := fun h' => by
      obtain ⟨b', hb', hh⟩ := loc_sound h'
      exact ⟨b', List.mem_cons_of_mem _ hb', hh⟩
    simp only [loc] at h
    split at h
    · rename_i hm
      split at h
      · rename_i e he
        split at h
        · rename_i hr
          split at h
          · rename_i l' hl'
            simp only [Option.some.injEq] at h
            exact ⟨b, by simp, hm, e, he, hr, h ▸ hl'⟩
          · exact lift h
        · exact lift h
      · exact lift h
    · exact lift h

theorem loc_complete : ∀ {w : List (Block α β)} {id : ID} {l : β}, (∃ b ∈ w, Locates b id l) →
    ∃ l', loc w id = some l'
  | [], _, _, h => by obtain ⟨b, hb, _⟩ := h; simp at hb
  | b :: rest, id, l, h => by
    obtain ⟨b', hb', hm, e, he, hr, hl⟩ := h
    simp only [loc]
    rcases List.mem_cons.1 hb' with rfl | hin
    · simp [hm, he, hr, hl]
    · have ih := loc_complete (w := rest) ⟨b', hin, hm, e, he, hr, hl⟩
      split
      · split
        · split
          · split
            · exact ⟨_, rfl⟩
            · exact ih
          · exact ih
        · exact ih
      · exact ih

theorem loc_eq_none_iff {w : List (Block α β)} {id : ID} :
    loc w id = none ↔ ∀ b ∈ w, ∀ l, ¬ Locates b id l := by
  constructor
  · intro h b hb l hl
    obtain ⟨l', hl'⟩ := loc_complete ⟨b, hb, hl⟩
    rw [h] at hl'; simp at hl'
  · intro h
    cases hl : loc w id with
    | none => rfl
    | some l =>
      obtain ⟨b, hb, hh⟩ := loc_sound hl
      exact absurd hh (h b hb l)

theorem mapM_loc_congr {w w' : List (Block α β)} : ∀ (refs : List ID),
    (∀ r ∈ refs, loc w r = loc w' r) → refs.mapM (loc w) = refs.mapM (loc w')
  | [], _ => by simp
  | r :: rest, h => by
    simp only [List.mapM_cons]
    rw [h r (by simp), mapM_loc_congr rest (fun r' hr' => h r' (List.mem_cons_of_mem _ hr'))]

theorem mapM_loc_some {w : List (Block α β)} : ∀ (refs : List ID),
    (∀ r ∈ refs, ∃ l, loc w r = some l) → ∃ ls, refs.mapM (loc w) = some ls ∧ ls.length = refs.length
  | [], _ => ⟨[], by simp⟩
  | r :: rest, h => by
    obtain ⟨l, hl⟩ := h r (by simp)
    obtain ⟨ls, hls, hlen⟩ := mapM_loc_some rest (fun r' hr' => h r' (List.mem_cons_of_mem _ hr'))
    refine ⟨l :: ls, ?_, by simp [hlen]⟩
    simp [List.mapM_cons, hl, hls]

end B6.Lemmas.Merged
