import B6.Model.Merged
/-!
# Lemmas about the merged compact world (C17)

* the id order is a strict linear order;
* `mergeAll` (the k-way merge of `b6.MergeFeatures`) of ascending streams is the strictly ascending list of
  the union of their members, by induction on the number of `Next` steps, for any number of streams;
* `findIn` / `hasIn` / `loc` over appended block lists are "first hit", and characterised by the blocks
  that hold the id.
-/
namespace B6.Lemmas.Merged
open B6.Model.Merged

/-! ## The id order -/

theorem lt_def (a b : ID) : a < b ↔
    (a.typ < b.typ ∨ (a.typ = b.typ ∧ (a.ns < b.ns ∨ (a.ns = b.ns ∧ a.val < b.val)))) := Iff.rfl

theorem eq_iff (a b : ID) : a = b ↔ a.typ = b.typ ∧ a.ns = b.ns ∧ a.val = b.val := by
  cases a; cases b; simp

theorem lt_irrefl (a : ID) : ¬ a < a := by rw [lt_def]; omega

theorem lt_trans {a b c : ID} (h1 : a < b) (h2 : b < c) : a < c := by
  rw [lt_def] at *; omega

theorem lt_trichotomy (a b : ID) : a < b ∨ a = b ∨ b < a := by
  rw [lt_def, lt_def, eq_iff]; omega

theorem lt_asymm {a b : ID} (h : a < b) : ¬ b < a := fun h' => lt_irrefl a (lt_trans h h')

theorem ne_of_lt {a b : ID} (h : a < b) : a ≠ b := fun e => lt_irrefl a (e ▸ h)

/-- `a < b`, `b ≤ c` ⇒ `a < c` -/
theorem lt_of_lt_of_not_lt {a b c : ID} (h1 : a < b) (h2 : ¬ c < b) : a < c := by
  rcases lt_trichotomy b c with h | h | h
  · exact lt_trans h1 h
  · exact h ▸ h1
  · exact absurd h h2

/-- `a ≤ b`, `b ≤ c` ⇒ `a ≤ c` -/
theorem not_lt_trans {a b c : ID} (h1 : ¬ b < a) (h2 : ¬ c < b) : ¬ c < a := by
  intro h
  rcases lt_trichotomy a b with h' | h' | h'
  · exact h2 (lt_trans h h')
  · subst h'; exact h2 h
  · exact h1 h'

/-- ascending, repetitions allowed: what a posting-list cursor must yield -/
def Sorted (l : List ID) : Prop := l.Pairwise (fun a b => ¬ b < a)

/-- strictly ascending: in id order without duplicates -/
def StrictSorted (l : List ID) : Prop := l.Pairwise (· < ·)

instance (l : List ID) : Decidable (Sorted l) := by unfold Sorted; infer_instance
instance (l : List ID) : Decidable (StrictSorted l) := by unfold StrictSorted; infer_instance

theorem StrictSorted.sorted {l : List ID} (h : StrictSorted l) : Sorted l :=
  List.Pairwise.imp (fun hab => lt_asymm hab) h

theorem StrictSorted.nodup {l : List ID} (h : StrictSorted l) : l.Nodup :=
  List.Pairwise.imp (fun hab => ne_of_lt hab) h

theorem strictSorted_cons {a : ID} {l : List ID} :
    StrictSorted (a :: l) ↔ (∀ y ∈ l, a < y) ∧ StrictSorted l := by
  unfold StrictSorted; exact List.pairwise_cons

theorem sorted_cons {a : ID} {l : List ID} :
    Sorted (a :: l) ↔ (∀ y ∈ l, ¬ y < a) ∧ Sorted l := by
  unfold Sorted; exact List.pairwise_cons

/-- two strictly ascending lists with the same members are equal -/
theorem StrictSorted.ext : ∀ {a b : List ID}, StrictSorted a → StrictSorted b →
    (∀ x, x ∈ a ↔ x ∈ b) → a = b
  | [], [], _, _, _ => rfl
  | [], y :: _, _, _, h => by have := (h y).2 (by simp); simp at this
  | x :: _, [], _, _, h => by have := (h x).1 (by simp); simp at this
  | x :: a, y :: b, ha, hb, h => by
    rw [strictSorted_cons] at ha hb
    have hxy : x = y := by
      have h1 := (h x).1 (by simp)
      have h2 := (h y).2 (by simp)
      simp only [List.mem_cons] at h1 h2
      rcases h1 with h1 | h1
      · exact h1
      · rcases h2 with h2 | h2
        · exact h2.symm
        · exact absurd (ha.1 y h2) (lt_asymm (hb.1 x h1))
    subst hxy
    have : a = b := by
      apply StrictSorted.ext ha.2 hb.2
      intro z
      have hz := h z
      simp only [List.mem_cons] at hz
      constructor
      · intro hza
        rcases hz.1 (Or.inr hza) with h' | h'
        · exact absurd (ha.1 z hza) (h' ▸ lt_irrefl x)
        · exact h'
      · intro hzb
        rcases hz.2 (Or.inr hzb) with h' | h'
        · exact absurd (hb.1 z hzb) (h' ▸ lt_irrefl x)
        · exact h'
    rw [this]

/-! ## The k-way merge -/

theorem minHead_none : ∀ {cs : List (List ID)}, minHead cs = none → ∀ c ∈ cs, c = []
  | [], _, c, hc => by simp at hc
  | [] :: rest, h, c, hc => by
    simp only [minHead] at h
    rcases List.mem_cons.1 hc with e | hc'
    · exact e
    · exact minHead_none h c hc'
  | (x :: t) :: rest, h, _, _ => by
    simp only [minHead] at h
    split at h
    · simp at h
    · split at h <;> simp at h

/-- the top of the heap is the head of a live stream … -/
theorem minHead_mem : ∀ {cs : List (List ID)} {m : ID}, minHead cs = some m →
    ∃ t, (m :: t) ∈ cs
  | [], _, h => by simp [minHead] at h
  | [] :: rest, m, h => by
    simp only [minHead] at h
    obtain ⟨t, ht⟩ := minHead_mem h
    exact ⟨t, List.mem_cons_of_mem _ ht⟩
  | (x :: t) :: rest, m, h => by
    simp only [minHead] at h
    split at h
    · simp only [Option.some.injEq] at h; subst h; exact ⟨t, by simp⟩
    · rename_i m' hm'
      split at h
      · simp only [Option.some.injEq] at h; subst h
        obtain ⟨t', ht'⟩ := minHead_mem hm'
        exact ⟨t', List.mem_cons_of_mem _ ht'⟩
      · simp only [Option.some.injEq] at h; subst h; exact ⟨t, by simp⟩

/-- … and no live stream has a smaller head -/
theorem minHead_le : ∀ {cs : List (List ID)} {m : ID}, minHead cs = some m →
    ∀ y t, (y :: t) ∈ cs → ¬ y < m
  | [], _, h, _, _, _ => by simp [minHead] at h
  | [] :: rest, m, h, y, t, hy => by
    simp only [minHead] at h
    rcases List.mem_cons.1 hy with e | hy'
    · simp at e
    · exact minHead_le h y t hy'
  | (x :: tx) :: rest, m, h, y, t, hy => by
    simp only [minHead] at h
    split at h
    · rename_i hnone
      simp only [Option.some.injEq] at h; subst h
      rcases List.mem_cons.1 hy with e | hy'
      · simp only [List.cons.injEq] at e; rw [e.1]; exact lt_irrefl _
      · have := minHead_none hnone _ hy'; simp at this
    · rename_i m' hm'
      split at h
      · rename_i hlt
        simp only [Option.some.injEq] at h; subst h
        rcases List.mem_cons.1 hy with e | hy'
        · simp only [List.cons.injEq] at e; rw [e.1]; exact lt_asymm hlt
        · exact minHead_le hm' y t hy'
      · rename_i hnlt
        simp only [Option.some.injEq] at h; subst h
        rcases List.mem_cons.1 hy with e | hy'
        · simp only [List.cons.injEq] at e; rw [e.1]; exact lt_irrefl _
        · exact not_lt_trans hnlt (minHead_le hm' y t hy')

theorem mem_dropHead {m x : ID} {c : List ID} (h : x ∈ dropHead m c) : x ∈ c :=
  (List.dropWhile_sublist _).subset h

theorem mem_dropHead_of_ne {m x : ID} : ∀ {c : List ID}, x ∈ c → x ≠ m → x ∈ dropHead m c
  | [], h, _ => by simp at h
  | y :: t, h, hne => by
    unfold dropHead
    rw [List.dropWhile_cons]
    split
    · rename_i hy
      have hy' : y = m := by simpa using hy
      rcases List.mem_cons.1 h with e | h'
      · exact absurd (e.trans hy') hne
      · exact mem_dropHead_of_ne h' hne
    · exact h

theorem sorted_dropHead {m : ID} {c : List ID} (h : Sorted c) : Sorted (dropHead m c) :=
  List.Pairwise.sublist (List.dropWhile_sublist _) h

/-- what is left of an ascending stream whose members are all `≥ m` is `> m` -/
theorem lt_of_mem_dropHead {m x : ID} : ∀ {c : List ID}, Sorted c → (∀ y ∈ c, ¬ y < m) →
    x ∈ dropHead m c → m < x
  | [], _, _, h => by simp [dropHead] at h
  | y :: t, hs, hge, h => by
    unfold dropHead at h
    rw [List.dropWhile_cons] at h
    rw [sorted_cons] at hs
    split at h
    · exact lt_of_mem_dropHead hs.2 (fun z hz => hge z (List.mem_cons_of_mem _ hz)) h
    · rename_i hy
      have hym : y ≠ m := by simpa using hy
      have hmy : m < y := by
        rcases lt_trichotomy m y with h' | h' | h'
        · exact h'
        · exact absurd h'.symm hym
        · exact absurd h' (hge y (by simp))
      rcases List.mem_cons.1 h with e | h'
      · exact e ▸ hmy
      · exact lt_of_lt_of_not_lt hmy (hs.1 x h')

theorem totalLength_nil : totalLength [] = 0 := rfl

theorem totalLength_cons (c : List ID) (cs : List (List ID)) :
    totalLength (c :: cs) = c.length + totalLength cs := by
  simp [totalLength]

theorem length_dropHead_le (m : ID) (c : List ID) : (dropHead m c).length ≤ c.length :=
  (List.dropWhile_sublist _).length_le

theorem totalLength_dropHead_le (m : ID) : ∀ cs : List (List ID),
    totalLength (cs.map (dropHead m)) ≤ totalLength cs
  | [] => by simp [totalLength]
  | c :: cs => by
    rw [List.map_cons, totalLength_cons, totalLength_cons]
    have := length_dropHead_le m c
    have := totalLength_dropHead_le m cs
    omega

theorem totalLength_dropHead_lt {m : ID} : ∀ {cs : List (List ID)} {t : List ID}, (m :: t) ∈ cs →
    totalLength (cs.map (dropHead m)) < totalLength cs
  | [], _, h => by simp at h
  | c :: cs, t, h => by
    rw [List.map_cons, totalLength_cons, totalLength_cons]
    rcases List.mem_cons.1 h with e | h'
    · subst e
      have h1 : (dropHead m (m :: t)).length ≤ t.length := by
        unfold dropHead
        rw [List.dropWhile_cons]
        simp only [beq_self_eq_true, if_true]
        exact (List.dropWhile_sublist _).length_le
      have := totalLength_dropHead_le m cs
      simp only [List.length_cons]
      omega
    · have := totalLength_dropHead_lt h'
      have := length_dropHead_le m c
      omega

theorem totalLength_zero : ∀ {cs : List (List ID)}, totalLength cs = 0 → ∀ c ∈ cs, c = []
  | [], _, c, hc => by simp at hc
  | c :: cs, h, c', hc' => by
    rw [totalLength_cons] at h
    rcases List.mem_cons.1 hc' with e | h'
    · subst e
      exact List.length_eq_zero_iff.1 (by omega)
    · exact totalLength_zero (by omega) c' h'

/-- The merge of ascending streams, given enough steps, is strictly ascending and has exactly the members
of the streams — for any number of streams and any lengths. -/
theorem mergeAll_spec : ∀ (fuel : Nat) (cs : List (List ID)), (∀ c ∈ cs, Sorted c) →
    totalLength cs ≤ fuel →
    StrictSorted (mergeAll fuel cs) ∧ ∀ x, x ∈ mergeAll fuel cs ↔ ∃ c ∈ cs, x ∈ c
  | 0, cs, _, hlen => by
    have hall := totalLength_zero (Nat.le_zero.1 hlen)
    refine ⟨by simp [mergeAll, StrictSorted], fun x => ?_⟩
    simp only [mergeAll, List.not_mem_nil, false_iff]
    rintro ⟨c, hc, hx⟩
    rw [hall c hc] at hx; simp at hx
  | fuel + 1, cs, hs, hlen => by
    simp only [mergeAll]
    split
    · rename_i hnone
      have hall := minHead_none hnone
      refine ⟨by simp [StrictSorted], fun x => ?_⟩
      simp only [List.not_mem_nil, false_iff]
      rintro ⟨c, hc, hx⟩
      rw [hall c hc] at hx; simp at hx
    · rename_i m hm
      obtain ⟨t, ht⟩ := minHead_mem hm
      have hge : ∀ c ∈ cs, ∀ y ∈ c, ¬ y < m := by
        intro c hc y hy
        cases c with
        | nil => simp at hy
        | cons z tz =>
          have hz := minHead_le hm z tz hc
          rcases List.mem_cons.1 hy with e | hy'
          · exact e ▸ hz
          · exact not_lt_trans hz ((sorted_cons.1 (hs _ hc)).1 y hy')
      have hs' : ∀ c ∈ cs.map (dropHead m), Sorted c := by
        intro c hc
        obtain ⟨c0, hc0, rfl⟩ := List.mem_map.1 hc
        exact sorted_dropHead (hs c0 hc0)
      have hlen' : totalLength (cs.map (dropHead m)) ≤ fuel := by
        have := totalLength_dropHead_lt ht
        omega
      obtain ⟨ihs, ihm⟩ := mergeAll_spec fuel (cs.map (dropHead m)) hs' hlen'
      refine ⟨strictSorted_cons.2 ⟨?_, ihs⟩, fun x => ?_⟩
      · intro y hy
        obtain ⟨c, hc, hyc⟩ := (ihm y).1 hy
        obtain ⟨c0, hc0, rfl⟩ := List.mem_map.1 hc
        exact lt_of_mem_dropHead (hs c0 hc0) (hge c0 hc0) hyc
      · rw [List.mem_cons, ihm]
        constructor
        · rintro (e | ⟨c, hc, hx⟩)
          · exact ⟨m :: t, ht, by simp [e]⟩
          · obtain ⟨c0, hc0, rfl⟩ := List.mem_map.1 hc
            exact ⟨c0, hc0, mem_dropHead hx⟩
        · rintro ⟨c, hc, hx⟩
          by_cases e : x = m
          · exact Or.inl e
          · exact Or.inr ⟨dropHead m c, List.mem_map.2 ⟨c, hc, rfl⟩, mem_dropHead_of_ne hx e⟩

theorem merged_spec (cs : List (List ID)) (hs : ∀ c ∈ cs, Sorted c) :
    StrictSorted (merged cs) ∧ ∀ x, x ∈ merged cs ↔ ∃ c ∈ cs, x ∈ c :=
  mergeAll_spec _ cs hs (Nat.le_refl _)

/-! ## Lookups -/

variable {α β : Type}

/-- block `b` holds the feature `id` with content `c` -/
def Holds (b : Block α β) (id : ID) (c : α) : Prop :=
  b.matchesID id = true ∧ ∃ e, b.findFirst id.val = some e ∧ e.real = true ∧ e.content = c

theorem findIn_append (w1 w2 : List (Block α β)) (id : ID) :
    findIn (w1 ++ w2) id = (findIn w1 id).or (findIn w2 id) := by
  induction w1 with
  | nil => simp [findIn]
  | cons b rest ih =>
    simp only [List.cons_append, findIn]
    split
    · split
      · split
        · simp
        · exact ih
      · exact ih
    · exact ih

theorem findIn_sound : ∀ {w : List (Block α β)} {id : ID} {c : α}, findIn w id = some c →
    ∃ b ∈ w, Holds b id c
  | [], _, _, h => by simp [findIn] at h
  | b :: rest, id, c, h => by
    simp only [findIn] at h
    split at h
    · rename_i hm
      split at h
      · rename_i e he
        split at h
        · rename_i hr
          simp only [Option.some.injEq] at h
          exact ⟨b, by simp, hm, e, he, hr, h⟩
        · obtain ⟨b', hb', hh⟩ := findIn_sound h
          exact ⟨b', List.mem_cons_of_mem _ hb', hh⟩
      · obtain ⟨b', hb', hh⟩ := findIn_sound h
        exact ⟨b', List.mem_cons_of_mem _ hb', hh⟩
    · obtain ⟨b', hb', hh⟩ := findIn_sound h
      exact ⟨b', List.mem_cons_of_mem _ hb', hh⟩

theorem findIn_complete : ∀ {w : List (Block α β)} {id : ID} {c : α}, (∃ b ∈ w, Holds b id c) →
    ∃ c', findIn w id = some c'
  | [], _, _, h => by obtain ⟨b, hb, _⟩ := h; simp at hb
  | b :: rest, id, c, h => by
    obtain ⟨b', hb', hm, e, he, hr, hc⟩ := h
    simp only [findIn]
    rcases List.mem_cons.1 hb' with rfl | hin
    · simp [hm, he, hr]
    · have ih := findIn_complete (w := rest) ⟨b', hin, hm, e, he, hr, hc⟩
      split
      · split
        · split
          · exact ⟨_, rfl⟩
          · exact ih
        · exact ih
      · exact ih

/-- the blocks agree about `id`: whatever two of them hold for it is the same (in particular when at most
one block holds it — the id sets of the files are disjoint) -/
def Agree (w : List (Block α β)) (id : ID) : Prop :=
  ∀ b1 ∈ w, ∀ b2 ∈ w, ∀ c1 c2, Holds b1 id c1 → Holds b2 id c2 → c1 = c2

theorem findIn_iff {w : List (Block α β)} {id : ID} (hu : Agree w id) (c : α) :
    findIn w id = some c ↔ ∃ b ∈ w, Holds b id c := by
  constructor
  · exact findIn_sound
  · intro h
    obtain ⟨c', hc'⟩ := findIn_complete h
    obtain ⟨b1, hb1, h1⟩ := findIn_sound hc'
    obtain ⟨b2, hb2, h2⟩ := h
    rw [hc', hu b1 hb1 b2 hb2 c' c h1 h2]

theorem hasIn_eq (w : List (Block α β)) (id : ID) : hasIn w id = (findIn w id).isSome := by
  induction w with
  | nil => simp [hasIn, findIn]
  | cons b rest ih =>
    simp only [hasIn, findIn]
    split
    · split
      · split
        · simp
        · exact ih
      · exact ih
    · exact ih

/-! ## Locations -/

/-- block `b` stores the location `l` for the point `id` -/
def Locates (b : Block α β) (id : ID) (l : β) : Prop :=
  b.matchesAs 0 0 id.ns = true ∧ ∃ e, b.findFirst id.val = some e ∧ e.real = true ∧ e.loc = some l

theorem loc_append (w1 w2 : List (Block α β)) (id : ID) :
    loc (w1 ++ w2) id = (loc w1 id).or (loc w2 id) := by
  induction w1 with
  | nil => simp [loc]
  | cons b rest ih =>
    simp only [List.cons_append, loc]
    split
    · split
      · split
        · split
          · simp
          · exact ih
        · exact ih
      · exact ih
    · exact ih

theorem loc_sound : ∀ {w : List (Block α β)} {id : ID} {l : β}, loc w id = some l →
    ∃ b ∈ w, Locates b id l
  | [], _, _, h => by simp [loc] at h
  | b :: rest, id, l, h => by
    have lift : loc rest id = some l → ∃ b' ∈ b :: rest, Locates b' id l := fun h' => by
      obtain ⟨b', hb', hh⟩ := loc_sound h'
      exact ⟨b', List.mem_cons_of_mem _ hb', hh⟩
    simp only [loc] at h
    split at h
    · rename_i hm
      split at h
      · rename_i e he
        split at h
        · rename_i hr
          split at h
          · rename_i l' hl'
            simp only [Option.some.injEq] at h
            exact ⟨b, by simp, hm, e, he, hr, h ▸ hl'⟩
          · exact lift h
        · exact lift h
      · exact lift h
    · exact lift h

theorem loc_complete : ∀ {w : List (Block α β)} {id : ID} {l : β}, (∃ b ∈ w, Locates b id l) →
    ∃ l', loc w id = some l'
  | [], _, _, h => by obtain ⟨b, hb, _⟩ := h; simp at hb
  | b :: rest, id, l, h => by
    obtain ⟨b', hb', hm, e, he, hr, hl⟩ := h
    simp only [loc]
    rcases List.mem_cons.1 hb' with rfl | hin
    · simp [hm, he, hr, hl]
    · have ih := loc_complete (w := rest) ⟨b', hin, hm, e, he, hr, hl⟩
      split
      · split
        · split
          · split
            · exact ⟨_, rfl⟩
            · exact ih
          · exact ih
        · exact ih
      · exact ih

theorem loc_eq_none_iff {w : List (Block α β)} {id : ID} :
    loc w id = none ↔ ∀ b ∈ w, ∀ l, ¬ Locates b id l := by
  constructor
  · intro h b hb l hl
    obtain ⟨l', hl'⟩ := loc_complete ⟨b, hb, hl⟩
    rw [h] at hl'; simp at hl'
  · intro h
    cases hl : loc w id with
    | none => rfl
    | some l =>
      obtain ⟨b, hb, hh⟩ := loc_sound hl
      exact absurd hh (h b hb l)

theorem mapM_loc_congr {w w' : List (Block α β)} : ∀ (refs : List ID),
    (∀ r ∈ refs, loc w r = loc w' r) → refs.mapM (loc w) = refs.mapM (loc w')
  | [], _ => by simp
  | r :: rest, h => by
    simp only [List.mapM_cons]
    rw [h r (by simp), mapM_loc_congr rest (fun r' hr' => h r' (List.mem_cons_of_mem _ hr'))]

theorem mapM_loc_some {w : List (Block α β)} : ∀ (refs : List ID),
    (∀ r ∈ refs, ∃ l, loc w r = some l) → ∃ ls, refs.mapM (loc w) = some ls ∧ ls.length = refs.length
  | [], _ => ⟨[], by simp⟩
  | r :: rest, h => by
    obtain ⟨l, hl⟩ := h r (by simp)
    obtain ⟨ls, hls, hlen⟩ := mapM_loc_some rest (fun r' hr' => h r' (List.mem_cons_of_mem _ hr'))
    refine ⟨l :: ls, ?_, by simp [hlen]⟩
    simp [List.mapM_cons, hl, hls]

/-! ## Paths through a point -/

/-- block `b` records path `q` against point `p` -/
def Lists (b : Block α β) (p q : ID) : Prop :=
  b.matchesAs 0 0 p.ns = true ∧ ∃ e, b.findFirst p.val = some e ∧ q ∈ e.paths

theorem mem_addPaths {q : ID} : ∀ (ps acc : List ID), q ∈ addPaths acc ps ↔ q ∈ acc ∨ q ∈ ps
  | [], acc => by simp [addPaths]
  | p :: ps, acc => by
    simp only [addPaths]
    rw [mem_addPaths ps]
    split
    · rename_i hc
      have hp : p ∈ acc := by simpa using hc
      constructor
      · rintro (h | h)
        · exact Or.inl h
        · exact Or.inr (List.mem_cons_of_mem _ h)
      · rintro (h | h)
        · exact Or.inl h
        · rcases List.mem_cons.1 h with e | h'
          · exact Or.inl (e ▸ hp)
          · exact Or.inr h'
    · simp only [List.mem_append, List.mem_cons, List.not_mem_nil, or_false]
      constructor
      · rintro ((h | h) | h)
        · exact Or.inl h
        · exact Or.inr (Or.inl h)
        · exact Or.inr (Or.inr h)
      · rintro (h | h | h)
        · exact Or.inl (Or.inl h)
        · exact Or.inl (Or.inr h)
        · exact Or.inr h

theorem nodup_addPaths : ∀ (ps acc : List ID), acc.Nodup → (addPaths acc ps).Nodup
  | [], _, h => by simpa [addPaths] using h
  | p :: ps, acc, h => by
    simp only [addPaths]
    split
    · exact nodup_addPaths ps acc h
    · rename_i hc
      have hp : p ∉ acc := by simpa using hc
      apply nodup_addPaths ps
      rw [List.nodup_append]
      refine ⟨h, by simp, ?_⟩
      intro a ha b hb
      have : b = p := by simpa using hb
      subst this
      exact fun e => hp (e ▸ ha)

theorem mem_pathsByPoint {p q : ID} : ∀ (w : List (Block α β)) (acc : List ID),
    q ∈ pathsByPoint w p acc ↔ q ∈ acc ∨ ∃ b ∈ w, Lists b p q
  | [], acc => by simp [pathsByPoint]
  | b :: rest, acc => by
    simp only [pathsByPoint]
    split
    · rename_i hm
      split
      · rename_i e he
        rw [mem_pathsByPoint rest, mem_addPaths]
        constructor
        · rintro ((h | h) | ⟨b', hb', hl⟩)
          · exact Or.inl h
          · exact Or.inr ⟨b, by simp, hm, e, he, h⟩
          · exact Or.inr ⟨b', List.mem_cons_of_mem _ hb', hl⟩
        · rintro (h | ⟨b', hb', hl⟩)
          · exact Or.inl (Or.inl h)
          · rcases List.mem_cons.1 hb' with rfl | hin
            · obtain ⟨_, e', he', hq⟩ := hl
              rw [he] at he'
              simp only [Option.some.injEq] at he'
              subst he'
              exact Or.inl (Or.inr hq)
            · exact Or.inr ⟨b', hin, hl⟩
      · rename_i hnone
        rw [mem_pathsByPoint rest]
        constructor
        · rintro (h | ⟨b', hb', hl⟩)
          · exact Or.inl h
          · exact Or.inr ⟨b', List.mem_cons_of_mem _ hb', hl⟩
        · rintro (h | ⟨b', hb', hl⟩)
          · exact Or.inl h
          · rcases List.mem_cons.1 hb' with rfl | hin
            · obtain ⟨_, e', he', _⟩ := hl
              rw [hnone] at he'; simp at he'
            · exact Or.inr ⟨b', hin, hl⟩
    · rename_i hm
      rw [mem_pathsByPoint rest]
      constructor
      · rintro (h | ⟨b', hb', hl⟩)
        · exact Or.inl h
        · exact Or.inr ⟨b', List.mem_cons_of_mem _ hb', hl⟩
      · rintro (h | ⟨b', hb', hl⟩)
        · exact Or.inl h
        · rcases List.mem_cons.1 hb' with rfl | hin
          · exact absurd hl.1 hm
          · exact Or.inr ⟨b', hin, hl⟩

theorem nodup_pathsByPoint {p : ID} : ∀ (w : List (Block α β)) (acc : List ID), acc.Nodup →
    (pathsByPoint w p acc).Nodup
  | [], _, h => by simpa [pathsByPoint] using h
  | b :: rest, acc, h => by
    simp only [pathsByPoint]
    split
    · split
      · exact nodup_pathsByPoint rest _ (nodup_addPaths _ _ h)
      · exact nodup_pathsByPoint rest _ h
    · exact nodup_pathsByPoint rest _ h

end B6.Lemmas.Merged

namespace B6.Lemmas.Merged
open B6.Model.Merged
variable {α β : Type}

/-! ## EachFeature -/

theorem mem_of_mapM_some {A B : Type} {f : A → Option B} : ∀ {l : List A} {r : List B},
    l.mapM f = some r → ∀ y, y ∈ r ↔ ∃ x ∈ l, f x = some y
  | [], r, h, y => by
    simp at h; subst h; simp
  | x :: l, r, h, y => by
    simp only [List.mapM_cons] at h
    cases hx : f x with
    | none => simp [hx] at h
    | some y0 =>
      cases hl : l.mapM f with
      | none => simp [hx, hl] at h
      | some r0 =>
        simp [hx, hl] at h
        subst h
        have ih := mem_of_mapM_some hl y
        simp only [List.mem_cons, ih]
        constructor
        · rintro (e | ⟨x', hx', hy⟩)
          · exact ⟨x, Or.inl rfl, e ▸ hx⟩
          · exact ⟨x', Or.inr hx', hy⟩
        · rintro ⟨x', hx' | hx', hy⟩
          · subst hx'; rw [hx] at hy; simp at hy; exact Or.inl hy.symm
          · exact Or.inr ⟨x', hx', hy⟩

/-- block `b` emits `id` in `EachFeature` -/
def Emits (b : Block α β) (id : ID) : Prop :=
  id.typ = b.typ ∧ b.ns? = some id.ns ∧ ∃ e ∈ b.entries, e.real = true ∧ e.val = id.val

theorem mem_eachIDs {b : Block α β} {l : List ID} (h : b.eachIDs = some l) (id : ID) :
    id ∈ l ↔ Emits b id := by
  unfold Block.eachIDs at h
  cases hns : b.ns? with
  | none => simp [hns] at h
  | some ns =>
    simp [hns] at h
    subst h
    simp only [List.mem_map, List.mem_filter, Emits, hns, Option.some.injEq]
    constructor
    · rintro ⟨e, ⟨he, hr⟩, rfl⟩
      exact ⟨rfl, rfl, e, he, hr, rfl⟩
    · rintro ⟨ht, hn, e, he, hr, hv⟩
      refine ⟨e, ⟨he, hr⟩, ?_⟩
      cases id
      simp at ht hn hv ⊢
      exact ⟨ht.symm, hn, hv⟩

theorem mem_eachType {w : List (Block α β)} {t : Nat} {r : List ID} (h : eachType w t = some r) (id : ID) :
    id ∈ r ↔ ∃ b ∈ w, b.typ = t ∧ Emits b id := by
  unfold eachType at h
  cases hm : (w.filter (·.typ == t)).mapM Block.eachIDs with
  | none => simp [hm] at h
  | some rs =>
    simp [hm] at h
    subst h
    simp only [List.mem_flatten]
    constructor
    · rintro ⟨l, hl, hid⟩
      obtain ⟨b, hb, hbl⟩ := (mem_of_mapM_some hm l).1 hl
      have hb' := List.mem_filter.1 hb
      exact ⟨b, hb'.1, by simpa using hb'.2, (mem_eachIDs hbl id).1 hid⟩
    · rintro ⟨b, hb, ht, he⟩
      have hbf : b ∈ w.filter (·.typ == t) := List.mem_filter.2 ⟨hb, by simpa using ht⟩
      -- the block's own list exists because the whole mapM succeeded
      cases hbl : b.eachIDs with
      | none =>
        exfalso
        have : ∀ {l : List (Block α β)} {r}, l.mapM Block.eachIDs = some r → b ∈ l → False := by
          intro l
          induction l with
          | nil => intro r _ hb; simp at hb
          | cons x l ih =>
            intro r hr hb
            simp only [List.mapM_cons] at hr
            cases hx : x.eachIDs with
            | none => simp [hx] at hr
            | some y0 =>
              cases hl : l.mapM Block.eachIDs with
              | none => simp [hx, hl] at hr
              | some r0 =>
                rcases List.mem_cons.1 hb with e | hb'
                · subst e; rw [hbl] at hx; simp at hx
                · exact ih hl hb'
        exact this hm hbf
      | some l =>
        exact ⟨l, (mem_of_mapM_some hm l).2 ⟨b, hbf, hbl⟩, (mem_eachIDs hbl id).2 he⟩

/-- `EachFeature` over the merged blocks lists exactly the ids some block emits (blocks of the four
feature types), whatever file they came from. -/
theorem mem_each {w : List (Block α β)} {ids : List ID} (h : each w = some ids) (id : ID) :
    id ∈ ids ↔ ∃ b ∈ w, b.typ < numTypes ∧ Emits b id := by
  unfold each at h
  cases hm : (List.range numTypes).mapM (eachType w) with
  | none => simp [hm] at h
  | some rs =>
    simp [hm] at h
    subst h
    simp only [List.mem_flatten]
    constructor
    · rintro ⟨l, hl, hid⟩
      obtain ⟨t, ht, htl⟩ := (mem_of_mapM_some hm l).1 hl
      obtain ⟨b, hb, hbt, he⟩ := (mem_eachType htl id).1 hid
      exact ⟨b, hb, by rw [hbt]; exact List.mem_range.1 ht, he⟩
    · rintro ⟨b, hb, hlt, he⟩
      have hmem : b.typ ∈ List.range numTypes := List.mem_range.2 hlt
      cases htl : eachType w b.typ with
      | none =>
        exfalso
        have : ∀ {l : List Nat} {r}, l.mapM (eachType w) = some r → b.typ ∈ l → False := by
          intro l
          induction l with
          | nil => intro r _ hb; simp at hb
          | cons x l ih =>
            intro r hr hb
            simp only [List.mapM_cons] at hr
            cases hx : eachType w x with
            | none => simp [hx] at hr
            | some y0 =>
              cases hl : l.mapM (eachType w) with
              | none => simp [hx, hl] at hr
              | some r0 =>
                rcases List.mem_cons.1 hb with e | hb'
                · rw [← e, htl] at hx; simp at hx
                · exact ih hl hb'
        exact this hm hmem
      | some l =>
        exact ⟨l, (mem_of_mapM_some hm l).2 ⟨b.typ, hmem, htl⟩, (mem_eachType htl id).2 ⟨b, hb, rfl, he⟩⟩

/-! ### `EachFeature` and the lookup agree -/

theorem encodeFrom_none_of_not_mem {ns : Nat} : ∀ (t : List Nat) (i : Nat), ns ∉ t → encodeFrom i t ns = none
  | [], _, _ => rfl
  | n :: rest, i, h => by
    simp only [List.mem_cons, not_or] at h
    simp only [encodeFrom, encodeFrom_none_of_not_mem rest (i + 1) h.2]
    rw [if_neg (fun e => h.1 e.symm)]

/-- in a duplicate-free table `MaybeEncode (Decode e) = e` -/
theorem encodeFrom_of_getElem {ns : Nat} : ∀ (t : List Nat) (i e : Nat), t.Nodup → t[e]? = some ns →
    encodeFrom i t ns = some (i + e)
  | [], _, _, _, h => by simp at h
  | n :: rest, i, 0, hnd, h => by
    simp only [List.getElem?_cons_zero, Option.some.injEq] at h
    subst h
    rw [List.nodup_cons] at hnd
    simp [encodeFrom, encodeFrom_none_of_not_mem rest (i + 1) hnd.1]
  | n :: rest, i, e + 1, hnd, h => by
    simp only [List.getElem?_cons_succ] at h
    rw [List.nodup_cons] at hnd
    have := encodeFrom_of_getElem rest (i + 1) e hnd.2 h
    simp only [encodeFrom, this]
    congr 1; omega

/-- `Decode (MaybeEncode ns) = ns` -/
theorem getElem_of_encodeFrom {ns : Nat} : ∀ (t : List Nat) (i j : Nat), encodeFrom i t ns = some j →
    i ≤ j ∧ t[j - i]? = some ns
  | [], _, _, h => by simp [encodeFrom] at h
  | n :: rest, i, j, h => by
    simp only [encodeFrom] at h
    split at h
    · rename_i j' hj'
      simp only [Option.some.injEq] at h; subst h
      obtain ⟨hle, hget⟩ := getElem_of_encodeFrom rest (i + 1) j' hj'
      refine ⟨by omega, ?_⟩
      have : j' - i = (j' - (i + 1)) + 1 := by omega
      rw [this, List.getElem?_cons_succ]; exact hget
    · split at h
      · rename_i hn
        simp only [Option.some.injEq] at h; subst h
        simp [hn]
      · simp at h

theorem find?_of_unique {v : Nat} : ∀ (es : List (Entry α β)) (e : Entry α β), (es.map (·.val)).Nodup →
    e ∈ es → e.val = v → es.find? (·.val == v) = some e
  | [], _, _, h, _ => by simp at h
  | x :: rest, e, hnd, he, hv => by
    simp only [List.map_cons, List.nodup_cons] at hnd
    rcases List.mem_cons.1 he with rfl | hin
    · simp [hv]
    · have hx : x.val ≠ v := by
        intro hxv
        exact hnd.1 (List.mem_map.2 ⟨e, hin, by rw [hv, hxv]⟩)
      rw [List.find?_cons]
      have : (x.val == v) = false := by simpa using hx
      rw [this]
      exact find?_of_unique rest e hnd.2 hin hv

/-- well-formed block: duplicate-free namespace table, one entry per value (what `FillFromNamespaces`
and `Uint64Map.EachItem` guarantee) -/
def WFBlock (b : Block α β) : Prop := b.table.Nodup ∧ (b.entries.map (·.val)).Nodup

theorem holds_of_emits {b : Block α β} {id : ID} (hwf : WFBlock b) (h : Emits b id) :
    ∃ c, Holds b id c := by
  obtain ⟨ht, hns, e, he, hr, hv⟩ := h
  unfold Block.ns? at hns
  cases hc : b.nsenc[b.typ]? with
  | none => simp [hc] at hns
  | some code =>
    simp only [hc, Option.bind_some, decode] at hns
    have henc := encodeFrom_of_getElem b.table 0 code hwf.1 hns
    refine ⟨e.content, ?_, e, ?_, hr, rfl⟩
    · simp [Block.matchesID, Block.matchesAs, ht, hc, maybeEncode, henc]
    · exact find?_of_unique b.entries e hwf.2 he hv

theorem emits_of_holds {b : Block α β} {id : ID} {c : α} (h : Holds b id c) : Emits b id := by
  obtain ⟨hm, e, he, hr, _⟩ := h
  simp only [Block.matchesID, Block.matchesAs, Bool.and_eq_true, beq_iff_eq] at hm
  obtain ⟨ht, hm⟩ := hm
  cases hc : b.nsenc[id.typ]? with
  | none => simp [hc] at hm
  | some code =>
    cases henc : maybeEncode b.table id.ns with
    | none => simp [hc, henc] at hm
    | some code' =>
      simp only [hc, henc, beq_iff_eq] at hm
      subst hm
      obtain ⟨_, hget⟩ := getElem_of_encodeFrom b.table 0 code henc
      refine ⟨ht.symm, ?_, e, List.mem_of_find?_eq_some he, hr, ?_⟩
      · simp only [Block.ns?, ht, hc, Option.bind_some, decode]
        simpa using hget
      · have := List.find?_some he
        simpa using this

end B6.Lemmas.Merged
