import B6.Model.TileEncoder
/-! helper lemmas for C33 -/
namespace B6.Lemmas.TileEncoder
open B6.Model.TileEncoder

theorem sshiftRight31 (x : BitVec 32) :
    x.sshiftRight 31 = if x.msb then BitVec.allOnes 32 else 0#32 := by
  ext i hi
  cases h : x.msb
  · simp [BitVec.getElem_sshiftRight, h]
    intro h2
    have : i = 0 := by omega
    subst this
    simpa [BitVec.msb_eq_getLsbD_last] using h
  · simp only [BitVec.getElem_sshiftRight, h, if_true, BitVec.getElem_allOnes]
    split
    · rename_i h2
      have : i = 0 := by omega
      subst this
      simpa [BitVec.msb_eq_getLsbD_last] using h
    · rfl

theorem msb_iff (x : BitVec 32) : x.msb = true ↔ 2 ^ 31 ≤ x.toNat := by
  rw [BitVec.msb_eq_decide]; simp

theorem zigzag32_toNat (x : BitVec 32) :
    (zigzag32 x).toNat = if 2 ^ 31 ≤ x.toNat then 2 ^ 32 - 1 - (2 * x.toNat) % 2 ^ 32 else (2 * x.toNat) % 2 ^ 32 := by
  unfold zigzag32
  rw [sshiftRight31]
  by_cases h : x.msb = true
  · have h' := (msb_iff x).1 h
    simp only [h, if_true, h']
    rw [BitVec.xor_allOnes]
    simp only [BitVec.toNat_not, BitVec.toNat_shiftLeft, Nat.shiftLeft_eq]
    omega
  · have h' : ¬ 2 ^ 31 ≤ x.toNat := fun hh => h ((msb_iff x).2 hh)
    have h0 : x.msb = false := by simpa using h
    rw [if_neg h']
    simp only [h0]
    simp
    omega

theorem and_one_cases (v : BitVec 32) : v &&& 1#32 = 0#32 ∨ v &&& 1#32 = 1#32 := by
  have : (v &&& 1#32).toNat = v.toNat % 2 := by simp [BitVec.toNat_and]
  rcases Nat.mod_two_eq_zero_or_one v.toNat with h | h
  · left; apply BitVec.eq_of_toNat_eq; simp [this, h]
  · right; apply BitVec.eq_of_toNat_eq; simp [this, h]

theorem and_one_eq_one_iff (v : BitVec 32) : v &&& 1#32 = 1#32 ↔ v.toNat % 2 = 1 := by
  have e : (v &&& 1#32).toNat = v.toNat % 2 := by simp [BitVec.toNat_and]
  constructor
  · intro h; rw [← e, h]; rfl
  · intro h
    rcases and_one_cases v with h0 | h1
    · rw [h0] at e; simp at e; omega
    · exact h1

theorem unzigzag32_toNat (u : BitVec 32) :
    (unzigzag32 u).toNat = if u.toNat % 2 = 1 then 2 ^ 32 - 1 - u.toNat / 2 else u.toNat / 2 := by
  unfold unzigzag32
  rcases and_one_cases u with h | h
  · have h' : ¬ u.toNat % 2 = 1 := by
      intro hh; have := (and_one_eq_one_iff u).2 hh; rw [h] at this; exact absurd this (by decide)
    rw [h, if_neg h']
    simp [BitVec.toNat_ushiftRight, Nat.shiftRight_eq_div_pow]
  · have h' := (and_one_eq_one_iff u).1 h
    rw [h, if_pos h']
    have : -(1#32) = BitVec.allOnes 32 := by decide
    rw [this, BitVec.xor_allOnes]
    simp only [BitVec.toNat_not, BitVec.toNat_ushiftRight, Nat.shiftRight_eq_div_pow]

theorem unzigzag32_zigzag32 (x : BitVec 32) : unzigzag32 (zigzag32 x) = x := by
  apply BitVec.eq_of_toNat_eq
  rw [unzigzag32_toNat, zigzag32_toNat]
  have := x.isLt
  split <;> split <;> omega

theorem zigzag32_unzigzag32 (u : BitVec 32) : zigzag32 (unzigzag32 u) = u := by
  apply BitVec.eq_of_toNat_eq
  rw [zigzag32_toNat, unzigzag32_toNat]
  have := u.isLt
  split <;> split <;> omega

theorem paramValue_zigzagEncode (d : Int) (h : inInt32 d) : paramValue (zigzagEncode d) = d := by
  unfold paramValue zigzagEncode
  show (unzigzag32 (zigzag32 (BitVec.ofInt 32 d))).toInt = d
  rw [unzigzag32_zigzag32, BitVec.toInt_ofInt]
  unfold inInt32 at h
  rw [Int.bmod_def]
  norm_cast
  omega

theorem nat_or_shl3 (a n : Nat) (ha : a < 8) : (a ||| n <<< 3) = n * 8 + a := by
  rw [Nat.or_comm, ← Nat.shiftLeft_add_eq_or_of_lt (by omega : a < 2 ^ 3), Nat.shiftLeft_eq]

theorem cmdWord_toNat (a n : Nat) (ha : a < 8) (hn : n < 2 ^ 29) :
    (UInt32.ofNat a ||| (UInt32.ofNat n <<< (3 : UInt32))).toNat = n * 8 + a := by
  simp only [UInt32.toNat_or, UInt32.toNat_shiftLeft, UInt32.toNat_ofNat']
  have e1 : a % 2 ^ 32 = a := Nat.mod_eq_of_lt (by omega)
  have e2 : n % 2 ^ 32 = n := Nat.mod_eq_of_lt (by omega)
  have e3 : UInt32.toNat 3 % 32 = 3 := by decide
  have e4 : n <<< 3 % 2 ^ 32 = n <<< 3 := Nat.mod_eq_of_lt (by rw [Nat.shiftLeft_eq]; omega)
  rw [e1, e2, e3, e4, nat_or_shl3 a n ha]

theorem and7_toNat (w : UInt32) : (w &&& (7 : UInt32)).toNat = w.toNat % 8 := by
  rw [UInt32.toNat_and]
  exact Nat.and_two_pow_sub_one_eq_mod _ 3

theorem shr3_toNat (w : UInt32) : (w >>> (3 : UInt32)).toNat = w.toNat / 8 := by
  rw [UInt32.toNat_shiftRight]
  have e3 : UInt32.toNat 3 % 32 = 3 := by decide
  rw [e3, Nat.shiftRight_eq_div_pow]

theorem ofNat_and7 (a : Nat) (ha : a < 8) : UInt32.ofNat a &&& (7 : UInt32) = UInt32.ofNat a := by
  apply UInt32.toNat_inj.1
  rw [and7_toNat, UInt32.toNat_ofNat']
  omega

theorem cmdId_cmdWord (id n : Nat) (hid : id < 8) (hn : n < 2 ^ 29) : cmdId (cmdWord id n) = id := by
  unfold cmdId cmdWord
  rw [ofNat_and7 id hid, and7_toNat, cmdWord_toNat id n hid hn]
  omega

theorem cmdCount_cmdWord (id n : Nat) (hid : id < 8) (hn : n < 2 ^ 29) : cmdCount (cmdWord id n) = n := by
  unfold cmdCount cmdWord
  rw [ofNat_and7 id hid, shr3_toNat, cmdWord_toNat id n hid hn]
  omega

/-! ## encoder: what each method appends -/

/-- parameter words for visiting `pts` from cursor `c` -/
def ptsWords : Pt → List Pt → List UInt32
  | _, [] => []
  | c, p :: ps => xyWords c p ++ ptsWords p ps

def lastPt : Pt → List Pt → Pt
  | c, [] => c
  | _, p :: ps => lastPt p ps

/-- `e` after `ws` were appended to the current feature `f` and the cursor moved to `c` -/
def adv (e : Enc) (f : Feat) (ws : List UInt32) (c : Pt) : Enc :=
  { e with cur := some { f with geometry := f.geometry ++ ws }, cx := c.1, cy := c.2 }

theorem adv_cur (e : Enc) (f : Feat) (ws c) :
    (adv e f ws c).cur = some { f with geometry := f.geometry ++ ws } := rfl

theorem adv_adv (e : Enc) (f : Feat) (ws ws' c c') :
    adv (adv e f ws c) { f with geometry := f.geometry ++ ws } ws' c' = adv e f (ws ++ ws') c' := by
  simp [adv, List.append_assoc]

theorem emit_adv (e : Enc) (f : Feat) (h : e.cur = some f) (ws : List UInt32) :
    emit e ws = some (adv e f ws (e.cx, e.cy)) := by
  simp [emit, withCur, h, adv]

theorem xy_adv (e : Enc) (f : Feat) (h : e.cur = some f) (x y : Int) :
    xy e x y = some (adv e f (xyWords (e.cx, e.cy) (x, y)) (x, y)) := by
  simp [xy, emit, withCur, h, adv]

theorem xys_adv : ∀ (pts : List Pt) (e : Enc) (f : Feat), e.cur = some f →
    xys e pts = some (adv e f (ptsWords (e.cx, e.cy) pts) (lastPt (e.cx, e.cy) pts))
  | [], e, f, h => by
    cases e; simp only at h; subst h
    simp [xys, ptsWords, lastPt, adv]
  | p :: ps, e, f, h => by
    rw [xys, xy_adv e f h]
    simp only [Option.bind_some]
    rw [xys_adv ps _ _ (adv_cur ..), adv_adv]
    simp [ptsWords, lastPt, adv]

theorem moveTo_adv (e : Enc) (f : Feat) (h : e.cur = some f) (n : Nat) :
    moveTo e n = some (adv e f [cmdWord cmdMoveTo n] (e.cx, e.cy)) := emit_adv e f h _
theorem lineTo_adv (e : Enc) (f : Feat) (h : e.cur = some f) (n : Nat) :
    lineTo e n = some (adv e f [cmdWord cmdLineTo n] (e.cx, e.cy)) := emit_adv e f h _
theorem closePath_adv (e : Enc) (f : Feat) (h : e.cur = some f) :
    closePath e = some (adv e f [cmdWord cmdClosePath 1] (e.cx, e.cy)) := emit_adv e f h _

/-- the words one loop contributes -/
def ringWords (c : Pt) (hole : Bool) (pts : List Pt) : List UInt32 :=
  if pts.length > 1 then
    match pts with
    | [] => []
    | p :: ps =>
      cmdWord cmdMoveTo 1 :: (xyWords c p ++ (cmdWord cmdLineTo ps.length ::
        (ptsWords p (if hole then ps.reverse else ps) ++ [cmdWord cmdClosePath 1])))
  else []

def ringEnd (c : Pt) (hole : Bool) (pts : List Pt) : Pt :=
  if pts.length > 1 then lastPt c (ringOrder hole pts) else c

theorem adv_nil (e : Enc) (f : Feat) (h : e.cur = some f) : adv e f [] (e.cx, e.cy) = e := by
  cases e; simp only at h; subst h; simp [adv]

theorem encodeLoop_adv (e : Enc) (f : Feat) (h : e.cur = some f) (hole : Bool) (pts : List Pt) :
    encodeLoop e hole pts = some (adv e f (ringWords (e.cx, e.cy) hole pts) (ringEnd (e.cx, e.cy) hole pts)) := by
  unfold encodeLoop ringWords ringEnd
  by_cases hl : pts.length > 1
  · simp only [hl, if_true]
    match pts, hl with
    | p :: ps, _ =>
      simp only [bind, Option.bind]
      rw [moveTo_adv e f h]
      simp only
      rw [xy_adv _ _ (adv_cur ..), adv_adv]
      simp only
      rw [lineTo_adv _ _ (adv_cur ..), adv_adv]
      simp only
      rw [xys_adv _ _ _ (adv_cur ..), adv_adv]
      simp only
      rw [closePath_adv _ _ (adv_cur ..), adv_adv]
      simp [adv, ringOrder, lastPt]
  · simp only [hl, if_false]
    rw [adv_nil e f h]

def loopsWords : Pt → List (Bool × List Pt) → List UInt32
  | _, [] => []
  | c, (h, pts) :: r => ringWords c h pts ++ loopsWords (ringEnd c h pts) r

def loopsEnd : Pt → List (Bool × List Pt) → Pt
  | c, [] => c
  | c, (h, pts) :: r => loopsEnd (ringEnd c h pts) r

theorem encodeLoops_adv : ∀ (loops : List (Bool × List Pt)) (e : Enc) (f : Feat), e.cur = some f →
    encodeLoops e loops = some (adv e f (loopsWords (e.cx, e.cy) loops) (loopsEnd (e.cx, e.cy) loops))
  | [], e, f, h => by simp [encodeLoops, loopsWords, loopsEnd, adv_nil e f h]
  | (hole, pts) :: r, e, f, h => by
    rw [encodeLoops, encodeLoop_adv e f h]
    simp only [Option.bind_some]
    rw [encodeLoops_adv r _ _ (adv_cur ..), adv_adv]
    simp [loopsWords, loopsEnd, adv]

/-! ## decoder -/

theorem drun_append : ∀ (a b : List UInt32) (s : DState),
    drun s (a ++ b) = (drun s a).bind fun s' => drun s' b
  | [], b, s => by simp [drun]
  | w :: a, b, s => by
    simp only [List.cons_append, drun]
    cases dstep s w with
    | none => simp
    | some s' => simp [drun_append a b s']

theorem deltasOk_append : ∀ (a b : List Pt) (c : Pt),
    DeltasOk c (a ++ b) ↔ DeltasOk c a ∧ DeltasOk (lastPt c a) b
  | [], b, c => by simp [DeltasOk, lastPt]
  | p :: a, b, c => by
    simp only [List.cons_append, DeltasOk, lastPt, deltasOk_append a b p, and_assoc]

theorem lastPt_append : ∀ (a b : List Pt) (c : Pt), lastPt c (a ++ b) = lastPt (lastPt c a) b
  | [], _, _ => rfl
  | p :: a, b, _ => by simp only [List.cons_append, lastPt, lastPt_append a b p]

theorem rel_step (o c p : Pt) (hx : inInt32 (p.1 - c.1)) (hy : inInt32 (p.2 - c.2)) :
    ((rel o c).1 + paramValue (zigzagEncode (p.1 - c.1)), (rel o c).2 + paramValue (zigzagEncode (p.2 - c.2)))
      = rel o p := by
  rw [paramValue_zigzagEncode _ hx, paramValue_zigzagEncode _ hy]
  simp only [rel]
  ext <;> simp <;> omega

/-- reading the `pts.length` parameter pairs of a MoveTo / LineTo -/
theorem drun_params (o : Pt) (id : Nat) : ∀ (pts : List Pt) (c : Pt) (acc : List Pt) (ops : List Op),
    pts ≠ [] → DeltasOk c pts →
    drun { cur := rel o c, ops := ops, mode := .px id pts.length acc } (ptsWords c pts)
      = some { cur := rel o (lastPt c pts), ops := ops ++ [mkOp id (acc ++ pts.map (rel o))], mode := .cmd }
  | [], _, _, _, h, _ => absurd rfl h
  | p :: ps, c, acc, ops, _, hd => by
    obtain ⟨hx, hy, hd'⟩ := hd
    simp only [ptsWords, xyWords, List.cons_append, List.nil_append, drun, dstep, Option.bind_some]
    rw [rel_step o c p hx hy]
    by_cases hps : ps = []
    · subst hps
      simp [drun, lastPt, ptsWords]
    · have hlen : ¬ (ps.length + 1 ≤ 1) := by
        have : ps.length ≠ 0 := fun h => hps (List.eq_nil_of_length_eq_zero h)
        omega
      simp only [List.length_cons, hlen, if_false, Option.bind_some, Nat.add_sub_cancel]
      rw [drun_params o id ps p (acc ++ [rel o p]) ops hps hd']
      simp [lastPt]

theorem dstep_cmd (s : DState) (hm : s.mode = .cmd) (id n : Nat) (hid : id = cmdMoveTo ∨ id = cmdLineTo)
    (hn0 : n ≠ 0) (hn : n < 2 ^ 29) :
    dstep s (cmdWord id n) = some { s with mode := .px id n [] } := by
  have hid8 : id < 8 := by rcases hid with h | h <;> subst h <;> decide
  unfold dstep
  rw [hm]
  simp only [cmdId_cmdWord id n hid8 hn, cmdCount_cmdWord id n hid8 hn, hid, if_true, hn0, if_false]

theorem dstep_close (s : DState) (hm : s.mode = .cmd) :
    dstep s (cmdWord cmdClosePath 1) = some { s with ops := s.ops ++ [.closePath] } := by
  unfold dstep
  rw [hm]
  have h1 : cmdId (cmdWord 7 1) = 7 := by decide
  have h2 : cmdCount (cmdWord 7 1) = 1 := by decide
  simp [h1, h2, cmdMoveTo, cmdLineTo, cmdClosePath]

/-- a whole MoveTo / LineTo command with its parameters -/
theorem drun_command (o : Pt) (id : Nat) (hid : id = cmdMoveTo ∨ id = cmdLineTo) (pts : List Pt) (c : Pt)
    (ops : List Op) (hne : pts ≠ []) (hlen : pts.length < 2 ^ 29) (hd : DeltasOk c pts) :
    drun { cur := rel o c, ops := ops, mode := .cmd } (cmdWord id pts.length :: ptsWords c pts)
      = some { cur := rel o (lastPt c pts), ops := ops ++ [mkOp id (pts.map (rel o))], mode := .cmd } := by
  have hn0 : pts.length ≠ 0 := fun h => hne (List.eq_nil_of_length_eq_zero h)
  rw [drun, dstep_cmd _ rfl id _ hid hn0 hlen]
  simp only [Option.bind_some]
  rw [drun_params o id pts c [] ops hne hd]
  simp

/-- the commands one loop decodes to -/
def ringOps (o : Pt) (hole : Bool) (pts : List Pt) : List Op :=
  if pts.length > 1 then
    match pts with
    | [] => []
    | p :: ps => [.moveTo [rel o p], .lineTo ((if hole then ps.reverse else ps).map (rel o)), .closePath]
  else []

/-- the points of one loop in the order they are written (nothing for loops that are not drawn) -/
def ringVisited (hole : Bool) (pts : List Pt) : List Pt :=
  if pts.length > 1 then ringOrder hole pts else []

theorem drun_ring (o c : Pt) (hole : Bool) (pts : List Pt) (ops : List Op) (hlen : pts.length ≤ 2 ^ 29)
    (hd : DeltasOk c (ringVisited hole pts)) :
    drun { cur := rel o c, ops := ops, mode := .cmd } (ringWords c hole pts)
      = some { cur := rel o (ringEnd c hole pts), ops := ops ++ ringOps o hole pts, mode := .cmd } := by
  unfold ringWords ringEnd ringOps
  unfold ringVisited at hd
  by_cases hl : pts.length > 1
  · simp only [hl, if_true] at hd ⊢
    match pts, hl, hlen, hd with
    | p :: ps, hl, hlen, hd =>
      simp only [List.length_cons] at hl hlen
      simp only [ringOrder] at hd ⊢
      generalize hq : (if hole = true then ps.reverse else ps) = qs at hd ⊢
      have hqlen : qs.length = ps.length := by subst hq; split <;> simp
      have hqne : qs ≠ [] := by
        intro h; rw [h] at hqlen; simp at hqlen; omega
      obtain ⟨hx, hy, hd'⟩ := hd
      have hw : cmdWord cmdMoveTo 1 :: (xyWords c p ++ (cmdWord cmdLineTo ps.length :: (ptsWords p qs ++ [cmdWord cmdClosePath 1])))
          = (cmdWord cmdMoveTo [p].length :: ptsWords c [p]) ++ ((cmdWord cmdLineTo qs.length :: ptsWords p qs) ++ [cmdWord cmdClosePath 1]) := by
        simp [ptsWords, hqlen]
      rw [hw, drun_append, drun_command o cmdMoveTo (Or.inl rfl) [p] c ops (by simp) (by simp) ⟨hx, hy, trivial⟩]
      simp only [Option.bind_some]
      rw [drun_append, show lastPt c [p] = p from rfl,
        drun_command o cmdLineTo (Or.inr rfl) qs p _ hqne (by omega) hd']
      simp only [Option.bind_some, drun]
      rw [dstep_close _ rfl]
      simp [mkOp, cmdMoveTo, cmdLineTo, lastPt]
  · simp only [hl, if_false, drun, List.append_nil]

def loopsOps (o : Pt) : List (Bool × List Pt) → List Op
  | [] => []
  | (h, pts) :: r => ringOps o h pts ++ loopsOps o r

def loopsVisited : List (Bool × List Pt) → List Pt
  | [] => []
  | (h, pts) :: r => ringVisited h pts ++ loopsVisited r

theorem lastPt_ringVisited (c : Pt) (hole : Bool) (pts : List Pt) :
    lastPt c (ringVisited hole pts) = ringEnd c hole pts := by
  unfold ringVisited ringEnd
  split <;> rfl

theorem drun_loops (o : Pt) : ∀ (loops : List (Bool × List Pt)) (c : Pt) (ops : List Op),
    (∀ l ∈ loops, l.2.length ≤ 2 ^ 29) → DeltasOk c (loopsVisited loops) →
    drun { cur := rel o c, ops := ops, mode := .cmd } (loopsWords c loops)
      = some { cur := rel o (loopsEnd c loops), ops := ops ++ loopsOps o loops, mode := .cmd }
  | [], c, ops, _, _ => by simp [loopsWords, loopsEnd, loopsOps, drun]
  | (h, pts) :: r, c, ops, hlen, hd => by
    simp only [loopsVisited, deltasOk_append, lastPt_ringVisited] at hd
    simp only [loopsWords, loopsEnd, loopsOps]
    rw [drun_append, drun_ring o c h pts ops (hlen (h, pts) (by simp)) hd.1]
    simp only [Option.bind_some]
    rw [drun_loops o r _ _ (fun l hl => hlen l (by simp [hl])) hd.2]
    simp [List.append_assoc]

/-! ## grammar -/

theorem asRings_loopsOps (o : Pt) : ∀ (loops : List (Bool × List Pt)),
    (∀ l ∈ loops, l.2.length ≠ 2) → asRings (loopsOps o loops) = some (expectedRings o loops)
  | [], _ => by simp [loopsOps, asRings, expectedRings]
  | (h, pts) :: r, hne => by
    have ih := asRings_loopsOps o r (fun l hl => hne l (by simp [hl]))
    have h2 : pts.length ≠ 2 := hne (h, pts) (by simp)
    simp only [loopsOps, ringOps]
    by_cases hl : pts.length > 1
    · match pts, hl, h2 with
      | p :: ps, hl, h2 =>
        simp only [List.length_cons] at hl h2
        have hq : (if h = true then ps.reverse else ps).length ≥ 2 := by split <;> simp <;> omega
        simp only [List.length_cons, hl, if_true, List.cons_append, List.nil_append, asRings, List.length_map, hq, ih,
          Option.map_some]
        simp [expectedRings, List.filter, hl, ringOrder]
    · simp only [hl, if_false, List.nil_append, ih]
      simp [expectedRings, List.filter, hl]

/-! ## signed area -/

theorem cross_antisymm (a b : Pt) : cross b a = - cross a b := by
  unfold cross; grind

theorem cross_rel (o a b : Pt) : cross (rel o a) (rel o b) = cross a b - cross a o + cross b o := by
  unfold cross rel; grind

theorem pathSum_snoc2 : ∀ (l : List Pt) (a b : Pt), pathSum (l ++ [a, b]) = pathSum (l ++ [a]) + cross a b
  | [], a, b => by simp [pathSum]
  | [x], a, b => by simp [pathSum]
  | x :: y :: l, a, b => by
    have ih := pathSum_snoc2 (y :: l) a b
    simp only [List.cons_append, pathSum] at ih ⊢
    omega

theorem pathSum_reverse : ∀ (l : List Pt), pathSum l.reverse = - pathSum l
  | [] => by simp [pathSum]
  | [_] => by simp [pathSum]
  | a :: b :: r => by
    have ih := pathSum_reverse (b :: r)
    have e : (a :: b :: r).reverse = r.reverse ++ [b, a] := by simp
    have e' : (b :: r).reverse = r.reverse ++ [b] := by simp
    rw [e, pathSum_snoc2, ← e', ih, cross_antisymm a b]
    simp only [pathSum]
    omega

/-- writing a ring backwards from its first vertex negates its signed area -/
theorem area2_ringOrder_hole (pts : List Pt) : area2 (ringOrder true pts) = - area2 pts := by
  cases pts with
  | nil => simp [ringOrder, area2]
  | cons p ps =>
    simp only [ringOrder, if_true, area2]
    rw [← pathSum_reverse]
    simp

theorem pathSum_rel (o : Pt) : ∀ (a : Pt) (r : List Pt),
    pathSum ((a :: r).map (rel o)) = pathSum (a :: r) - cross a o + cross (lastPt a r) o
  | a, [] => by simp [pathSum, lastPt]; omega
  | a, b :: r => by
    have ih := pathSum_rel o b r
    simp only [List.map_cons, pathSum, lastPt, cross_rel] at ih ⊢
    omega

/-- the signed area does not depend on the tile origin -/
theorem area2_rel (o : Pt) (pts : List Pt) : area2 (pts.map (rel o)) = area2 pts := by
  cases pts with
  | nil => rfl
  | cons p ps =>
    simp only [List.map_cons, area2]
    have h := pathSum_rel o p (ps ++ [p])
    have hl : lastPt p (ps ++ [p]) = p := by rw [lastPt_append]; rfl
    simp only [List.map_cons, List.map_append, List.map_nil, hl] at h
    simp only [List.cons_append] at h ⊢
    rw [h]; omega

/-! ## tags -/

theorem decodeTags_append (keys : List String) (values : List Val) : ∀ (a : List UInt32) (ra : List (String × Val))
    (k v : UInt32) (key : String) (val : Val),
    decodeTags keys values a = some ra → keys[k.toNat]? = some key → values[v.toNat]? = some val →
    decodeTags keys values (a ++ [k, v]) = some (ra ++ [(key, val)])
  | [], ra, k, v, key, val, ha, hk, hv => by
    simp only [decodeTags, Option.some.injEq] at ha
    subst ha
    simp [decodeTags, hk, hv]
  | [_], _, _, _, _, _, ha, _, _ => by simp [decodeTags] at ha
  | k0 :: v0 :: a, ra, k, v, key, val, ha, hk, hv => by
    simp only [decodeTags] at ha
    cases hk0 : keys[k0.toNat]? with
    | none => simp [hk0] at ha
    | some key0 =>
      cases hv0 : values[v0.toNat]? with
      | none => simp [hk0, hv0] at ha
      | some val0 =>
        cases hr : decodeTags keys values a with
        | none => simp [hk0, hv0, hr] at ha
        | some rest =>
          simp only [hk0, hv0, hr, Option.some.injEq] at ha
          subst ha
          have ih := decodeTags_append keys values a rest k v key val hr hk hv
          simp [decodeTags, hk0, hv0, ih]

/-- the tables only grow: what decoded before decodes to the same pairs afterwards -/
theorem decodeTags_mono (keys keys' : List String) (values values' : List Val) :
    ∀ (a : List UInt32) (ra : List (String × Val)),
    decodeTags keys values a = some ra → decodeTags (keys ++ keys') (values ++ values') a = some ra
  | [], ra, ha => by simpa [decodeTags] using ha
  | [_], _, ha => by simp [decodeTags] at ha
  | k0 :: v0 :: a, ra, ha => by
    simp only [decodeTags] at ha
    cases hk0 : keys[k0.toNat]? with
    | none => simp [hk0] at ha
    | some key0 =>
      cases hv0 : values[v0.toNat]? with
      | none => simp [hk0, hv0] at ha
      | some val0 =>
        cases hr : decodeTags keys values a with
        | none => simp [hk0, hv0, hr] at ha
        | some rest =>
          simp only [hk0, hv0, hr, Option.some.injEq] at ha
          subst ha
          have ih := decodeTags_mono keys keys' values values' a rest hr
          have hk1 : (keys ++ keys')[k0.toNat]? = some key0 := by
            rw [List.getElem?_append_left]; exact hk0
            exact (List.getElem?_eq_some_iff.1 hk0).1
          have hv1 : (values ++ values')[v0.toNat]? = some val0 := by
            rw [List.getElem?_append_left]; exact hv0
            exact (List.getElem?_eq_some_iff.1 hv0).1
          simp [decodeTags, hk1, hv1, ih]

theorem toNat_ofNat_lt (n : Nat) (h : n < 2 ^ 32) : (UInt32.ofNat n).toNat = n := by
  rw [UInt32.toNat_ofNat']; exact Nat.mod_eq_of_lt h

/-- interning returns an index at which the grown table holds the item -/
theorem intern_spec {α : Type} [DecidableEq α] (xs : List α) (x : α) (hlen : xs.length < 2 ^ 32) :
    let r := if x ∈ xs then (xs, UInt32.ofNat (xs.idxOf x)) else (xs ++ [x], UInt32.ofNat xs.length)
    (∃ ext, r.1 = xs ++ ext ∧ ext.length ≤ 1) ∧ r.1[r.2.toNat]? = some x := by
  by_cases hx : x ∈ xs
  · simp only [hx, if_true]
    have hi : xs.idxOf x < xs.length := List.idxOf_lt_length_of_mem hx
    refine ⟨⟨[], by simp, by simp⟩, ?_⟩
    rw [toNat_ofNat_lt _ (by omega)]
    rw [List.getElem?_eq_getElem hi]
    simp
  · simp only [hx, if_false]
    refine ⟨⟨[x], rfl, by simp⟩, ?_⟩
    rw [toNat_ofNat_lt _ hlen]
    simp

theorem tag_spec (e : Enc) (f : Feat) (h : e.cur = some f) (k : String) (a : TagArg) (v : Val)
    (hv : a.val? = some v) (hk : e.keys.length < 2 ^ 32) (hvl : e.values.length < 2 ^ 32) :
    ∃ ke ve ki vi,
      tag e k a = some { e with keys := e.keys ++ ke, values := e.values ++ ve,
                                cur := some { f with tags := f.tags ++ [ki, vi] } }
      ∧ ke.length ≤ 1 ∧ ve.length ≤ 1 ∧ (e.keys ++ ke)[ki.toNat]? = some k ∧ (e.values ++ ve)[vi.toNat]? = some v := by
  obtain ⟨⟨ke, hke, hkl⟩, hki⟩ := intern_spec e.keys k hk
  obtain ⟨⟨ve, hve, hvl'⟩, hvi⟩ := intern_spec e.values v hvl
  refine ⟨ke, ve, (internKey e.keys k).2, (internVal e.values v).2, ?_, hkl, hvl', ?_, ?_⟩
  · unfold tag
    simp only [hv, withCur, h, Option.map_some]
    have e1 : (internKey e.keys k).1 = e.keys ++ ke := hke
    have e2 : (internVal e.values v).1 = e.values ++ ve := hve
    rw [← e1, ← e2]
  · have e1 : (internKey e.keys k).1 = e.keys ++ ke := hke
    rw [← e1]; exact hki
  · have e2 : (internVal e.values v).1 = e.values ++ ve := hve
    rw [← e2]; exact hvi

/-- the tag words of all features of the layer, in order -/
def tagWords (e : Enc) : List (List UInt32) := e.features.map (·.tags)

/-- every feature's tag words decode to the expected pairs through the tables -/
def TagsOk (keys : List String) (values : List Val) : List (List UInt32) → List (List (String × Val)) → Prop
  | [], [] => True
  | w :: ws, T :: exp => decodeTags keys values w = some T ∧ TagsOk keys values ws exp
  | _, _ => False

theorem tagsOk_mono (keys keys' : List String) (values values' : List Val) :
    ∀ (ws : List (List UInt32)) (exp : List (List (String × Val))),
    TagsOk keys values ws exp → TagsOk (keys ++ keys') (values ++ values') ws exp
  | [], [], _ => trivial
  | [], _ :: _, h => h.elim
  | _ :: _, [], h => h.elim
  | w :: ws, T :: exp, h => ⟨decodeTags_mono _ _ _ _ _ _ h.1, tagsOk_mono keys keys' values values' ws exp h.2⟩

theorem tagsOk_snoc (keys : List String) (values : List Val) (w : List UInt32) (T : List (String × Val))
    (hw : decodeTags keys values w = some T) :
    ∀ (ws : List (List UInt32)) (exp : List (List (String × Val))),
    TagsOk keys values ws exp → TagsOk keys values (ws ++ [w]) (exp ++ [T])
  | [], [], _ => ⟨hw, trivial⟩
  | [], _ :: _, h => h.elim
  | _ :: _, [], h => h.elim
  | _ :: ws, _ :: exp, h => ⟨h.1, tagsOk_snoc keys values w T hw ws exp h.2⟩

theorem tagsOk_snoc_inv (keys : List String) (values : List Val) (w : List UInt32) :
    ∀ (ws : List (List UInt32)) (exp : List (List (String × Val))),
    TagsOk keys values (ws ++ [w]) exp →
    ∃ exp0 T, exp = exp0 ++ [T] ∧ TagsOk keys values ws exp0 ∧ decodeTags keys values w = some T
  | [], [], h => h.elim
  | [], [T], h => ⟨[], T, rfl, trivial, h.1⟩
  | [], _ :: _ :: _, h => h.2.elim
  | _ :: _, [], h => h.elim
  | x :: ws, T0 :: exp, h => by
    obtain ⟨exp0, T, he, h0, hT⟩ := tagsOk_snoc_inv keys values w ws exp h.2
    exact ⟨T0 :: exp0, T, by simp [he], ⟨h.1, h0⟩, hT⟩

end B6.Lemmas.TileEncoder
