import B6.Model.Proto.Pbf
import B6.Lemmas.ProtoMeasure
/-! Invariants of the repaired `ReadPBFWithOptions` protocol model (helper lemmas for `Props/C28.lean`). -/
namespace B6.Model.Proto.Pbf
open B6.Model.Proto

def isDone : Msg → Bool
  | .done => true
  | .data _ => false

def isData : Msg → Bool
  | .done => false
  | .data _ => true

def isExited : W → Bool
  | .exited => true
  | _ => false

@[simp] theorem isExited_idle : isExited W.idle = false := rfl
@[simp] theorem isExited_busy (k j : Nat) : isExited (W.busy k j) = false := rfl
@[simp] theorem isExited_failing : isExited W.failing = false := rfl
@[simp] theorem isExited_exited : isExited W.exited = true := rfl
@[simp] theorem isDone_done : isDone Msg.done = true := rfl
@[simp] theorem isDone_data (k : Nat) : isDone (Msg.data k) = false := rfl
@[simp] theorem isData_done : isData Msg.done = false := rfl
@[simp] theorem isData_data (k : Nat) : isData (Msg.data k) = true := rfl

/-- done-blobs the reader has put into the channel, as long as nothing was cancelled -/
def doneSent (c : Cfg) : R → Nat
  | .reading => 0
  | .sending j => j
  | .finished => c.g

theorem mem_step {c : Cfg} {s s' : St} : s' ∈ step c s ↔ s.ret = none ∧
    ( s' ∈ readerStep c s
    ∨ (s.rd = R.finished ∧ allExited s ∧ s' = { s with ret := some s.oerr })
    ∨ (∃ i w, s.ws[i]? = some w ∧ s' ∈ workerStep c s i w)) := by
  unfold step
  cases hr : s.ret with
  | some r => simp
  | none =>
    simp only [Option.isSome_none, Bool.false_eq_true, ↓reduceIte, List.mem_append, mem_forWorkers, mem_guard, true_and]
    constructor
    · rintro ((h | h) | h)
      · exact Or.inl h
      · exact Or.inr (Or.inl ⟨h.1.1, h.1.2, h.2⟩)
      · exact Or.inr (Or.inr h)
    · rintro (h | h | h)
      · exact Or.inl (Or.inl h)
      · exact Or.inl (Or.inr ⟨⟨h.1, h.2.1⟩, h.2.2⟩)
      · exact Or.inr h

theorem mem_readerStep {c : Cfg} {s s' : St} (h : s' ∈ readerStep c s) :
    (s.rd = R.reading ∧ s.next < c.n ∧ s.queue.length < c.g ∧
        s' = { s with queue := s.queue ++ [Msg.data s.next], next := s.next + 1 })
    ∨ (s.rd = R.reading ∧ s.next < c.n ∧ s.cancelled = true ∧ s' = { s with rd := R.sending 0, stopped := true })
    ∨ (s.rd = R.reading ∧ ¬ s.next < c.n ∧ s' = { s with rd := R.sending 0 })
    ∨ (∃ j, s.rd = R.sending j ∧ j < c.g ∧ s.queue.length < c.g ∧
        s' = { s with queue := s.queue ++ [Msg.done], rd := R.sending (j + 1) })
    ∨ (∃ j, s.rd = R.sending j ∧ j < c.g ∧ s.cancelled = true ∧ s' = { s with rd := R.sending (j + 1) })
    ∨ (∃ j, s.rd = R.sending j ∧ ¬ j < c.g ∧ s' = { s with rd := R.finished }) := by
  unfold readerStep at h
  split at h
  · next hrd =>
    split at h
    · next hn =>
      simp only [List.mem_append, mem_guard] at h
      rcases h with ⟨h1, h2⟩ | ⟨h1, h2⟩
      · exact Or.inl ⟨hrd, hn, h1, h2⟩
      · exact Or.inr (Or.inl ⟨hrd, hn, h1, h2⟩)
    · next hn => simp only [List.mem_singleton] at h; exact Or.inr (Or.inr (Or.inl ⟨hrd, hn, h⟩))
  · next j hrd =>
    split at h
    · next hj =>
      simp only [List.mem_append, mem_guard] at h
      rcases h with ⟨h1, h2⟩ | ⟨h1, h2⟩
      · exact Or.inr (Or.inr (Or.inr (Or.inl ⟨j, hrd, hj, h1, h2⟩)))
      · exact Or.inr (Or.inr (Or.inr (Or.inr (Or.inl ⟨j, hrd, hj, h1, h2⟩))))
    · next hj =>
      simp only [List.mem_singleton] at h
      exact Or.inr (Or.inr (Or.inr (Or.inr (Or.inr ⟨j, hrd, hj, h⟩))))
  · simp at h

theorem mem_workerStep {c : Cfg} {s s' : St} {i : Nat} {w : W} (h : s' ∈ workerStep c s i w) :
    (w = W.idle ∧ s.cancelled = true ∧ s' = { s with ws := s.ws.set i W.exited })
    ∨ (w = W.idle ∧ ∃ k q, s.queue = Msg.data k :: q ∧
        s' = { s with queue := q, ws := s.ws.set i (if c.size k = 0 then W.idle else W.busy k 0),
                      late := if s.stopped then s.late + 1 else s.late })
    ∨ (w = W.idle ∧ ∃ q, s.queue = Msg.done :: q ∧ s' = { s with queue := q, ws := s.ws.set i W.exited })
    ∨ (∃ k j, w = W.busy k j ∧ c.fails k j = true ∧
        s' = { s with ws := s.ws.set i W.failing, failed := true, calls := s.calls + 1 })
    ∨ (∃ k j x, w = W.busy k j ∧ c.fails k j = false ∧ (x = W.busy k (j + 1) ∨ x = W.idle) ∧
        s' = { s with ws := s.ws.set i x, calls := s.calls + 1 })
    ∨ (w = W.failing ∧ s' = { s with ws := s.ws.set i W.exited, oerr := true, cancelled := true }) := by
  cases w with
  | idle =>
    simp only [workerStep, List.mem_append, mem_guard, recv] at h
    rcases h with ⟨h1, rfl⟩ | h
    · exact Or.inl ⟨rfl, h1, rfl⟩
    · split at h
      · next k q hq => simp only [List.mem_singleton] at h; exact Or.inr (Or.inl ⟨rfl, k, q, hq, h⟩)
      · next q hq => simp only [List.mem_singleton] at h; exact Or.inr (Or.inr (Or.inl ⟨rfl, q, hq, h⟩))
      · simp at h
  | busy k j =>
    simp only [workerStep] at h
    split at h
    · next hf => simp only [List.mem_singleton] at h; exact Or.inr (Or.inr (Or.inr (Or.inl ⟨k, j, rfl, hf, h⟩)))
    · next hf =>
      have hf : c.fails k j = false := by simpa using hf
      split at h <;> simp only [List.mem_singleton] at h
      · exact Or.inr (Or.inr (Or.inr (Or.inr (Or.inl ⟨k, j, _, rfl, hf, Or.inl rfl, h⟩))))
      · exact Or.inr (Or.inr (Or.inr (Or.inr (Or.inl ⟨k, j, _, rfl, hf, Or.inr rfl, h⟩))))
  | failing =>
    simp only [workerStep, List.mem_singleton] at h
    exact Or.inr (Or.inr (Or.inr (Or.inr (Or.inr ⟨rfl, h⟩))))
  | exited => simp [workerStep] at h

structure Inv (c : Cfg) (s : St) : Prop where
  len : s.ws.length = c.g
  err : s.failed = true → s.oerr = true ∨ ∃ i : Nat, s.ws[i]? = some W.failing
  ret : ∀ r, s.ret = some r → r = s.oerr ∧ allExited s
  rdle : ∀ j, s.rd = R.sending j → j ≤ c.g
  /-- without a cancellation, a worker leaves exactly when it takes a done-blob -/
  cnt : s.cancelled = false → s.ws.countP isExited + s.queue.countP isDone = doneSent c s.rd
  qlen : s.queue.length ≤ c.g
  cap : s.late + s.queue.countP isData ≤ c.g
  late0 : s.stopped = false → s.late = 0
  stop : s.stopped = true → s.rd ≠ R.reading

theorem inv_init (c : Cfg) : Inv c (init c) := by
  refine ⟨by simp [init], by simp [init], by simp [init], by simp [init], ?_, by simp [init], by simp [init],
    by simp [init], by simp [init]⟩
  intro _
  have : (List.replicate c.g W.idle).countP isExited = 0 := by
    rw [List.countP_eq_zero]; intro a ha; rw [List.eq_of_mem_replicate ha]; simp [isExited]
  simp [init, doneSent, this]

theorem err_set {s : St} {ws' : List W} {i : Nat} {w x : W} (hw : s.ws[i]? = some w) (hws : ws' = s.ws.set i x)
    (hx : w = W.failing → False)
    (h : ∃ j : Nat, s.ws[j]? = some W.failing) : ∃ j : Nat, ws'[j]? = some W.failing := by
  obtain ⟨j, hj⟩ := h
  refine ⟨j, ?_⟩
  have : j ≠ i := by rintro rfl; rw [hw] at hj; exact hx (by cases hj; rfl)
  rw [hws, List.getElem?_set_ne (Ne.symm this)]; exact hj

theorem inv_step {c : Cfg} {s s' : St} (I : Inv c s) (h : s' ∈ step c s) : Inv c s' := by
  obtain ⟨hr, h⟩ := mem_step.mp h
  have hret : ∀ r, s.ret = some r → False := by intro r e; rw [hr] at e; cases e
  rcases h with h | ⟨hfin, ha, rfl⟩ | ⟨i, w, hw, h⟩
  · rcases mem_readerStep h with ⟨hrd, hn, hq, rfl⟩ | ⟨hrd, hn, hc, rfl⟩ | ⟨hrd, hn, rfl⟩ |
      ⟨j, hrd, hj, hq, rfl⟩ | ⟨j, hrd, hj, hc, rfl⟩ | ⟨j, hrd, hj, rfl⟩
    · -- a data blob is sent
      have hl0 : s.late = 0 := I.late0 (by
        cases hs : s.stopped with
        | false => rfl
        | true => exact absurd hrd (I.stop hs))
      refine ⟨I.len, I.err, fun r e => (hret r e).elim, I.rdle, ?_, ?_, ?_, I.late0, I.stop⟩
      · intro hc; have := I.cnt hc
        simpa using this
      · simp only [List.length_append, List.length_cons, List.length_nil]; omega
      · have := List.countP_le_length (p := isData) (l := s.queue)
        simp; omega
    · -- readBlobs returns through the Done arm
      refine ⟨I.len, I.err, fun r e => (hret r e).elim, by intro j e; cases e; omega, ?_, I.qlen, I.cap, by simp, by simp⟩
      intro h2; simp [hc] at h2
    · -- EOF
      refine ⟨I.len, I.err, fun r e => (hret r e).elim, by intro j e; cases e; omega, ?_, I.qlen, I.cap, I.late0, by simp⟩
      intro hc; have := I.cnt hc; rw [hrd] at this; simpa [doneSent] using this
    · -- a done-blob is sent
      refine ⟨I.len, I.err, fun r e => (hret r e).elim, by intro j' e; cases e; omega, ?_, ?_, ?_, I.late0, by simp⟩
      · intro hc; have := I.cnt hc; rw [hrd] at this
        simp [doneSent] at this ⊢; omega
      · simp only [List.length_append, List.length_cons, List.length_nil]; omega
      · have := I.cap
        simpa using this
    · -- a done-blob is skipped after the cancellation
      refine ⟨I.len, I.err, fun r e => (hret r e).elim, by intro j' e; cases e; omega, ?_, I.qlen, I.cap, I.late0, by simp⟩
      intro h2; simp [hc] at h2
    · -- the reader is done
      refine ⟨I.len, I.err, fun r e => (hret r e).elim, (by intro j' e; cases e), ?_, I.qlen, I.cap, I.late0, by simp⟩
      intro hc; have := I.cnt hc; rw [hrd] at this
      have := I.rdle j hrd
      simp only [doneSent] at *; omega
  · -- return
    refine ⟨I.len, I.err, ?_, I.rdle, I.cnt, I.qlen, I.cap, I.late0, I.stop⟩
    intro r e; simp only [Option.some.injEq] at e; exact ⟨e.symm, ha⟩
  · rcases mem_workerStep h with ⟨rfl, hcan, rfl⟩ | ⟨rfl, k, q, hq, rfl⟩ | ⟨rfl, q, hq, rfl⟩ |
      ⟨k, j, rfl, hf, rfl⟩ | ⟨k, j, x, rfl, hf, hx, rfl⟩ | ⟨rfl, rfl⟩
    · -- idle worker leaves through ctx.Done()
      refine ⟨by simp [I.len], ?_, fun r e => (hret r e).elim, I.rdle, ?_, I.qlen, I.cap, I.late0, I.stop⟩
      · intro hf; exact (I.err hf).imp id (err_set hw rfl (by simp))
      · intro h2; simp [hcan] at h2
    · -- idle worker takes a data blob
      refine ⟨by simp [I.len], ?_, fun r e => (hret r e).elim, I.rdle, ?_, ?_, ?_, ?_, I.stop⟩
      · intro hf; exact (I.err hf).imp id (err_set hw rfl (by simp))
      · intro hc; have := I.cnt hc; rw [hq] at this
        have hs := countP_set_of_getElem? (p := isExited) (x := if c.size k = 0 then W.idle else W.busy k 0) hw
        have hx : isExited (if c.size k = 0 then W.idle else W.busy k 0) = false := by split <;> rfl
        rw [hx] at hs
        simp at hs this ⊢; omega
      · have := I.qlen; rw [hq] at this; simp only [List.length_cons] at this; simp only; omega
      · have := I.cap; rw [hq] at this
        show (if s.stopped = true then s.late + 1 else s.late) + q.countP isData ≤ c.g
        simp [List.countP_cons] at this; split <;> omega
      · intro hs; simp only at hs; simp [hs]; exact I.late0 hs
    · -- idle worker takes a done-blob and leaves
      refine ⟨by simp [I.len], ?_, fun r e => (hret r e).elim, I.rdle, ?_, ?_, ?_, I.late0, I.stop⟩
      · intro hf; exact (I.err hf).imp id (err_set hw rfl (by simp))
      · intro hc; have := I.cnt hc; rw [hq] at this
        have hs := countP_set_of_getElem? (p := isExited) (x := W.exited) hw
        simp [List.countP_cons] at hs this ⊢; omega
      · have := I.qlen; rw [hq] at this; simp only [List.length_cons] at this; simp only; omega
      · have := I.cap; rw [hq] at this
        simpa [List.countP_cons] using this
    · -- the callback fails
      refine ⟨by simp [I.len], fun _ => Or.inr ⟨i, getElem?_set_self' hw⟩, fun r e => (hret r e).elim, I.rdle, ?_,
        I.qlen, I.cap, I.late0, I.stop⟩
      intro hc; have := I.cnt hc
      have hs := countP_set_of_getElem? (p := isExited) (x := W.failing) hw
      simp at hs ⊢; omega
    · -- the callback succeeds
      refine ⟨by simp [I.len], ?_, fun r e => (hret r e).elim, I.rdle, ?_, I.qlen, I.cap, I.late0, I.stop⟩
      · intro hf; exact (I.err hf).imp id (err_set hw rfl (by simp))
      · intro hc; have := I.cnt hc
        have hs := countP_set_of_getElem? (p := isExited) (x := x) hw
        have hx' : isExited x = false := by rcases hx with rfl | rfl <;> rfl
        rw [hx'] at hs
        simp at hs ⊢; omega
    · -- the failing worker records the error, cancels and returns
      refine ⟨by simp [I.len], fun _ => Or.inl rfl, fun r e => (hret r e).elim, I.rdle, ?_, I.qlen, I.cap, I.late0, I.stop⟩
      intro h2; simp at h2

theorem inv_reachable {c : Cfg} {s : St} (h : Reachable (step c) (init c) s) : Inv c s :=
  Reachable.invariant (Inv c) (inv_init c) (fun _ _ I hm => inv_step I hm) s h

/-! ### a measure that every step decreases -/

def wweight (c : Cfg) : W → Nat
  | .idle => 1
  | .busy k j => (c.size k - j) + 2
  | .failing => 1
  | .exited => 0

def mweight (c : Cfg) : Msg → Nat
  | .data k => c.size k + 3
  | .done => 2

def rweight (c : Cfg) : R → Nat
  | .reading => 3 * c.g + 2
  | .sending j => 3 * (c.g - j) + 1
  | .finished => 0

/-- `size k + 4` per blob not yet read, `size k + 3` / 2 per data / done blob in the channel, the callbacks left (+2)
per busy worker, 1 per worker that has not left, 3 per done-blob the reader still has to offer, 1 for the return -/
def measure (c : Cfg) (s : St) : Nat :=
  pending (fun k => c.size k + 4) c.n s.next + (s.queue.map (mweight c)).sum + (s.ws.map (wweight c)).sum
    + rweight c s.rd + flag s.ret.isSome

theorem measure_step {c : Cfg} {s s' : St} (h : s' ∈ step c s) : measure c s' < measure c s := by
  obtain ⟨hr, h⟩ := mem_step.mp h
  rcases h with h | ⟨hfin, ha, rfl⟩ | ⟨i, w, hw, h⟩
  · rcases mem_readerStep h with ⟨hrd, hn, hq, rfl⟩ | ⟨hrd, hn, hc, rfl⟩ | ⟨hrd, hn, rfl⟩ |
      ⟨j, hrd, hj, hq, rfl⟩ | ⟨j, hrd, hj, hc, rfl⟩ | ⟨j, hrd, hj, rfl⟩
    · have hp := pending_succ (fun k => c.size k + 4) hn
      simp only [measure, List.map_append, List.sum_append, List.map_cons, List.map_nil, List.sum_cons, List.sum_nil, mweight]
      omega
    · simp only [measure, hrd, rweight]; omega
    · simp only [measure, hrd, rweight]; omega
    · simp only [measure, hrd, rweight, List.map_append, List.sum_append, List.map_cons, List.map_nil, List.sum_cons,
        List.sum_nil, mweight]
      omega
    · simp only [measure, hrd, rweight]; omega
    · simp only [measure, hrd, rweight]; omega
  · simp only [measure, hr, flag]; simp
  · have key : ∀ x : W, ((s.ws.set i x).map (wweight c)).sum + wweight c w = (s.ws.map (wweight c)).sum + wweight c x :=
      fun x => sum_map_set' (wweight c) s.ws i w x hw
    rcases mem_workerStep h with ⟨rfl, hcan, rfl⟩ | ⟨rfl, k, q, hq, rfl⟩ | ⟨rfl, q, hq, rfl⟩ |
      ⟨k, j, rfl, hf, rfl⟩ | ⟨k, j, x, rfl, hf, hx, rfl⟩ | ⟨rfl, rfl⟩
    · have := key W.exited; simp only [wweight] at this; simp only [measure]; omega
    · have := key (if c.size k = 0 then W.idle else W.busy k 0)
      simp only [measure, hq, List.map_cons, List.sum_cons, mweight]
      by_cases hz : c.size k = 0
      · simp only [hz, ↓reduceIte, wweight] at this ⊢; omega
      · simp only [hz, ↓reduceIte, wweight] at this ⊢; omega
    · have := key W.exited; simp only [wweight] at this
      simp only [measure, hq, List.map_cons, List.sum_cons, mweight]; omega
    · have := key W.failing; simp only [wweight] at this; simp only [measure]; omega
    · have := key x
      rcases hx with rfl | rfl
      · -- the next element of the same blob: only taken when j + 1 < size k
        simp only [wweight] at this; simp only [measure]
        have hlt : j + 1 < c.size k := by
          simp only [workerStep, hf] at h
          by_cases hj : j + 1 < c.size k
          · exact hj
          · simp [hj] at h
            have h2 := congrArg (fun l => l[i]?) h
            simp only [getElem?_set_self' hw] at h2
            cases h2
        omega
      · simp only [wweight] at this; simp only [measure]; omega
    · have := key W.exited; simp only [wweight] at this; simp only [measure]; omega

end B6.Model.Proto.Pbf
