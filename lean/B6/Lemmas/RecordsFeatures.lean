import B6.Lemmas.RecordsTags
/-!
# Round-trip lemmas, part 4: area geometries, the feature records (CommonPoint, PointReferences, FullPoint,
Path, Area, Relation), Namespaces, strings, NamespaceIndex(es), PostingListHeader; `sortRefs` facts.
-/
namespace B6.Model.Records
open B6.Model.Varint

/-! ## geometry header without the value-type wrapper (`MarshalGeometryEncodingAndLength`) -/

theorem geometryWord_spec (e l : Nat) (he : e ≤ 2) (hl : l < 2 ^ 62) :
    encodeGeometry e l < 2 ^ 64 ∧ geometryLen (encodeGeometry e l) = l ∧ geometryEncoding (encodeGeometry e l) = e := by
  rcases e with _ | _ | _ | e
  · simp only [encodeGeometry, geometryLen, geometryEncoding]
    refine ⟨by omega, ?_, ?_⟩ <;> (repeat' split) <;> omega
  · simp only [encodeGeometry, geometryLen, geometryEncoding]
    refine ⟨by omega, ?_, ?_⟩ <;> (repeat' split) <;> omega
  · simp only [encodeGeometry, geometryLen, geometryEncoding]
    refine ⟨by omega, ?_, ?_⟩ <;> (repeat' split) <;> omega
  · omega

theorem geometryWord_refs (l : Nat) (hl : l < 2 ^ 63) :
    encodeGeometry 0 l < 2 ^ 64 ∧ geometryLen (encodeGeometry 0 l) = l ∧ geometryEncoding (encodeGeometry 0 l) = 0 := by
  simp only [encodeGeometry, geometryLen, geometryEncoding]
  refine ⟨by omega, ?_, ?_⟩ <;> (repeat' split) <;> omega

/-! ## AreaGeometryReferences -/

theorem rt_areaGeomRefsBody (p : BitVec 16) (a : AreaGeomRefs) (h : References.ok a.paths = true) :
    RT (DeltaInts.enc a.polygons ++ References.enc p a.paths) (AreaGeomRefs.decBody p a.polygons.length) a := by
  unfold AreaGeomRefs.decBody
  refine (RT.andThen (rt_deltaInts a.polygons) (RT.map _ (rt_references p a.paths h))).congr rfl ?_
  cases a; rfl

theorem rt_areaGeomRefs (p : BitVec 16) (a : AreaGeomRefs) (h : a.ok = true) :
    RT (a.enc p) (AreaGeomRefs.dec p) a := by
  simp only [AreaGeomRefs.ok, Bool.and_eq_true, decide_eq_true_eq] at h
  obtain ⟨h1, h2, _⟩ := geometryWord_refs a.polygons.length h.1
  unfold AreaGeomRefs.enc AreaGeomRefs.dec
  rw [List.append_assoc]
  refine RT.andThen (rt_uvarint _ h1) ?_
  rw [h2]
  exact rt_areaGeomRefsBody p a h.2

/-! ## PolygonGeometryLatLngs, AreaGeometryLatLngs -/

theorem rt_polygonLL (q : PolygonLL) (h : q.ok = true) : RT q.enc PolygonLL.dec q := by
  simp only [PolygonLL.ok, Bool.and_eq_true, decide_eq_true_eq] at h
  unfold PolygonLL.enc PolygonLL.dec
  rw [List.append_assoc]
  refine (RT.andThen (rt_count _ h.1) (RT.andThen (rt_deltaInts q.loops) (RT.map _ (rt_latlngs q.points h.2)))).congr rfl ?_
  cases q; rfl

theorem rt_areaGeomLLBody (ps : List PolygonLL) (h : ∀ q ∈ ps, q.ok = true) :
    RT (encEach (fun (_ : Unit) q => (PolygonLL.enc q, ())) () ps) (AreaGeomLL.decBody ps.length) ps :=
  RT.times (fun q => q.ok = true) _ _ (fun _ q hq => RT.map (fun q => (q, ())) (rt_polygonLL q hq)) ps () h

theorem rt_areaGeomLL (ps : List PolygonLL) (h : AreaGeomLL.ok ps = true) : RT (AreaGeomLL.enc ps) AreaGeomLL.dec ps := by
  simp only [AreaGeomLL.ok, Bool.and_eq_true, decide_eq_true_eq, List.all_eq_true] at h
  obtain ⟨h1, h2, _⟩ := geometryWord_spec 1 ps.length (by omega) h.1
  unfold AreaGeomLL.enc AreaGeomLL.dec
  refine RT.andThen (rt_uvarint _ h1) ?_
  rw [h2]
  exact rt_areaGeomLLBody ps h.2

/-! ## AreaGeometryMixed -/

theorem rt_polygonMixed (p : BitVec 16) (q : PolygonMixed) (hok : q.ok = true) (hc : q.canonical = true) :
    RT (q.enc p) (PolygonMixed.dec p q.isRef) q := by
  unfold PolygonMixed.enc PolygonMixed.dec
  cases hr : q.isRef
  · have he : q.paths = [] := by
      simpa [PolygonMixed.isRef] using hr
    simp only [PolygonMixed.ok, hr, Bool.false_eq_true, if_false] at hok
    simp only [Bool.false_eq_true, if_false]
    refine (RT.map _ (rt_polygonLL q.ll hok)).congr rfl ?_
    cases q; simp_all
  · have hne : q.paths.isEmpty = false := by
      simpa [PolygonMixed.isRef] using hr
    simp only [PolygonMixed.ok, hr, if_true] at hok
    have hz : q.ll = PolygonLL.zero := by
      simp only [PolygonMixed.canonical, hne, Bool.false_or, beq_iff_eq] at hc
      exact hc
    simp only [if_true]
    refine (RT.map _ (rt_references p q.paths hok)).congr rfl ?_
    cases q; simp_all

theorem rt_areaGeomMixedBody (p : BitVec 16) (ps : List PolygonMixed) (hl : ps.length < 2 ^ 62)
    (hok : ∀ q ∈ ps, q.ok = true) (hc : ∀ q ∈ ps, q.canonical = true) :
    RT (Bits.enc (ps.map PolygonMixed.isRef) ++ encEach (fun (_ : Unit) q => (PolygonMixed.enc p q, ())) () ps)
      (AreaGeomMixed.decBody p ps.length) ps := by
  unfold AreaGeomMixed.decBody
  refine RT.andThen (rt_bits (ps.map PolygonMixed.isRef) (by simp [Bits.ok]; omega)) ?_
  rw [if_neg (by simp), List.take_of_length_le (by simp)]
  exact RT.forEach (fun q => q.ok = true ∧ q.canonical = true) PolygonMixed.isRef _ _
    (fun _ q hq => RT.map (fun q => (q, ())) (rt_polygonMixed p q hq.1 hq.2)) ps () (fun q hq => ⟨hok q hq, hc q hq⟩)

theorem rt_areaGeomMixed (p : BitVec 16) (ps : List PolygonMixed) (h : AreaGeomMixed.ok ps = true)
    (hc : ∀ q ∈ ps, q.canonical = true) : RT (AreaGeomMixed.enc p ps) (AreaGeomMixed.dec p) ps := by
  simp only [AreaGeomMixed.ok, Bool.and_eq_true, decide_eq_true_eq, List.all_eq_true] at h
  obtain ⟨h1, h2, _⟩ := geometryWord_spec 2 ps.length (by omega) h.1
  unfold AreaGeomMixed.enc AreaGeomMixed.dec
  rw [List.append_assoc]
  refine RT.andThen (rt_uvarint _ h1) ?_
  rw [h2]
  exact rt_areaGeomMixedBody p ps h.1 h.2 hc

/-! ## `UnmarshalAreaGeometry` -/

theorem rt_areaGeometry (p : BitVec 16) (g : AreaGeometry) (hok : g.ok = true) (hc : g.canonical = true) :
    RT (g.enc p) (AreaGeometry.dec p) g := by
  unfold AreaGeometry.dec
  cases g with
  | refs a =>
    simp only [AreaGeometry.ok, AreaGeomRefs.ok, Bool.and_eq_true, decide_eq_true_eq] at hok
    obtain ⟨h1, h2, h3⟩ := geometryWord_refs a.polygons.length hok.1
    simp only [AreaGeometry.enc, AreaGeomRefs.enc]
    rw [List.append_assoc]
    refine RT.andThen (rt_uvarint _ h1) ?_
    rw [h2, h3, if_pos rfl]
    exact RT.map AreaGeometry.refs (rt_areaGeomRefsBody p a hok.2)
  | latlngs ps =>
    simp only [AreaGeometry.ok, AreaGeomLL.ok, Bool.and_eq_true, decide_eq_true_eq, List.all_eq_true] at hok
    obtain ⟨h1, h2, h3⟩ := geometryWord_spec 1 ps.length (by omega) hok.1
    simp only [AreaGeometry.enc, AreaGeomLL.enc]
    refine RT.andThen (rt_uvarint _ h1) ?_
    rw [h2, h3, if_neg (by omega), if_pos rfl]
    exact RT.map AreaGeometry.latlngs (rt_areaGeomLLBody ps hok.2)
  | mixed ps =>
    simp only [AreaGeometry.ok, AreaGeomMixed.ok, Bool.and_eq_true, decide_eq_true_eq, List.all_eq_true] at hok
    simp only [AreaGeometry.canonical, List.all_eq_true] at hc
    obtain ⟨h1, h2, h3⟩ := geometryWord_spec 2 ps.length (by omega) hok.1
    simp only [AreaGeometry.enc, AreaGeomMixed.enc]
    rw [List.append_assoc]
    refine RT.andThen (rt_uvarint _ h1) ?_
    rw [h2, h3, if_neg (by omega), if_neg (by omega)]
    exact RT.map AreaGeometry.mixed (rt_areaGeomMixedBody p ps hok.1 hok.2 hc)

/-! ## sorting: `sortRefs` keeps the length (so `ok` is preserved) -/

theorem insertRef_length (r : Reference) (l : List Reference) : (insertRef r l).length = l.length + 1 := by
  induction l with
  | nil => rfl
  | cons x xs ih =>
    simp only [insertRef]
    split
    · simp
    · simp [ih]

theorem sortRefs_length (l : List Reference) : (sortRefs l).length = l.length := by
  induction l with
  | nil => rfl
  | cons x xs ih =>
    have : sortRefs (x :: xs) = insertRef x (sortRefs xs) := rfl
    rw [this, insertRef_length, ih]; rfl

theorem referencesOk_sort (l : List Reference) : References.ok (sortRefs l) = References.ok l := by
  simp only [References.ok, sortRefs_length]

theorem insertRef_perm (r : Reference) (l : List Reference) : (insertRef r l).Perm (r :: l) := by
  induction l with
  | nil => exact List.Perm.refl _
  | cons x xs ih =>
    simp only [insertRef]
    split
    · exact List.Perm.refl _
    · exact (List.Perm.cons x ih).trans (List.Perm.swap r x xs)

/-- `sortRefs` is a permutation of its input … -/
theorem sortRefs_perm (l : List Reference) : (sortRefs l).Perm l := by
  induction l with
  | nil => exact List.Perm.refl _
  | cons x xs ih =>
    have : sortRefs (x :: xs) = insertRef x (sortRefs xs) := rfl
    rw [this]
    exact (insertRef_perm x _).trans (List.Perm.cons x ih)

theorem Reference.le_total (a b : Reference) : Reference.le a b = true ∨ Reference.le b a = true := by
  simp only [Reference.le]
  by_cases h : a.tn = b.tn
  · simp only [h, if_true, decide_eq_true_eq]; omega
  · have h' : ¬ b.tn = a.tn := fun e => h e.symm
    have hn : a.tn.toNat ≠ b.tn.toNat := fun e => h (BitVec.eq_of_toNat_eq e)
    simp only [h, h', if_false, decide_eq_true_eq]; omega

theorem Reference.le_trans (a b c : Reference) (h1 : Reference.le a b = true) (h2 : Reference.le b c = true) :
    Reference.le a c = true := by
  simp only [Reference.le, ← BitVec.toNat_inj] at h1 h2 ⊢
  split at h1 <;> split at h2 <;> split <;> simp only [decide_eq_true_eq] at h1 h2 ⊢ <;> omega

theorem insertRef_sorted (r : Reference) (l : List Reference) (h : l.Pairwise (fun a b => Reference.le a b = true)) :
    (insertRef r l).Pairwise (fun a b => Reference.le a b = true) := by
  induction l with
  | nil => simp [insertRef]
  | cons x xs ih =>
    simp only [insertRef]
    rw [List.pairwise_cons] at h
    split
    · rename_i hle
      rw [List.pairwise_cons]
      refine ⟨?_, List.pairwise_cons.mpr h⟩
      intro y hy
      rcases List.mem_cons.mp hy with e | hy
      · rw [e]; exact hle
      · exact Reference.le_trans r x y hle (h.1 y hy)
    · rename_i hle
      have hxr : Reference.le x r = true := by
        rcases Reference.le_total r x with h' | h'
        · exact absurd h' hle
        · exact h'
      rw [List.pairwise_cons]
      refine ⟨?_, ih h.2⟩
      intro y hy
      have := (insertRef_perm r xs).mem_iff.mp hy
      rcases List.mem_cons.mp this with e | hy'
      · rw [e]; exact hxr
      · exact h.1 y hy'

/-- … and sorted by `References.Less`: it is *the* result of `sort.Sort`. -/
theorem sortRefs_sorted (l : List Reference) : (sortRefs l).Pairwise (fun a b => Reference.le a b = true) := by
  induction l with
  | nil => exact List.Pairwise.nil
  | cons x xs ih =>
    have : sortRefs (x :: xs) = insertRef x (sortRefs xs) := rfl
    rw [this]
    exact insertRef_sorted x _ ih

/-! ## feature records -/

theorem rt_commonPoint (n : Namespaces) (c : CommonPoint) (hok : c.ok = true) (hc : Tags.canonical c.tags = true) :
    RT (c.enc n) (CommonPoint.dec n) c := by
  unfold CommonPoint.enc CommonPoint.dec
  refine (RT.andThen (rt_tags 0#16 c.tags hok hc) (RT.map _ (rt_reference (tnPath n) c.path))).congr rfl ?_
  cases c; rfl

theorem rt_pointReferences (n : Namespaces) (p : PointReferences) (hok : p.ok = true) :
    RT (p.enc n) (PointReferences.dec n) p.sorted := by
  simp only [PointReferences.ok, Bool.and_eq_true] at hok
  unfold PointReferences.enc PointReferences.dec
  exact RT.andThen (rt_references _ _ (by rw [referencesOk_sort]; exact hok.1))
    (RT.map _ (rt_references _ _ (by rw [referencesOk_sort]; exact hok.2)))

theorem rt_fullPoint (n : Namespaces) (p : FullPoint) (hok : p.ok = true) (hc : Tags.canonical p.tags = true) :
    RT (p.enc n) (FullPoint.dec n) p.sorted := by
  simp only [FullPoint.ok, Bool.and_eq_true] at hok
  unfold FullPoint.enc FullPoint.dec
  exact RT.andThen (rt_tags 0#16 p.tags hok.1 hc) (RT.map _ (rt_pointReferences n p.refs hok.2))

theorem rt_path (n : Namespaces) (p : Path) (hok : p.ok = true) (hc : Tags.canonical p.tags = true) :
    RT (p.enc n) (Path.dec n) p.sorted := by
  simp only [Path.ok, Bool.and_eq_true] at hok
  unfold Path.enc Path.dec
  rw [List.append_assoc]
  exact RT.andThen (rt_tags _ p.tags hok.1.1 hc)
    (RT.andThen (rt_references _ _ (by rw [referencesOk_sort]; exact hok.1.2)) (RT.map _ (rt_references _ _ hok.2)))

theorem rt_area (n : Namespaces) (a : Area) (hok : a.ok = true) (hc : Tags.canonical a.tags = true)
    (hg : a.polygons.canonical = true) : RT (a.enc n) (Area.dec n) a := by
  simp only [Area.ok, Bool.and_eq_true] at hok
  unfold Area.enc Area.dec
  rw [List.append_assoc]
  refine (RT.andThen (rt_tags _ a.tags hok.1.1 hc)
    (RT.andThen (rt_areaGeometry _ a.polygons hok.1.2 hg) (RT.map _ (rt_references _ _ hok.2)))).congr rfl ?_
  cases a; rfl

theorem rt_relationWith (mp : BitVec 16) (n : Namespaces) (r : Relation) (hok : r.ok = true)
    (hc : Tags.canonical r.tags = true) :
    RT (r.enc mp n) (Relation.decWith mp n) r := by
  simp only [Relation.ok, Bool.and_eq_true] at hok
  unfold Relation.enc Relation.decWith
  rw [List.append_assoc]
  refine (RT.andThen (rt_tags _ r.tags hok.1.1 hc)
    (RT.andThen (rt_members mp r.members hok.1.2) (RT.map _ (rt_references _ _ hok.2)))).congr rfl ?_
  cases r; rfl

/-! ## Namespaces, strings, search index headers -/

theorem rt_namespaces (n : Namespaces) : RT n.enc Namespaces.dec n := by
  unfold Namespaces.enc Namespaces.dec
  rw [List.append_assoc, List.append_assoc]
  refine (RT.andThen (rt_u16 n.point) (RT.andThen (rt_u16 n.path) (RT.andThen (rt_u16 n.area) (RT.map _ (rt_u16 n.relation))))).congr rfl ?_
  cases n; rfl

theorem rt_str (s : Bytes) (h : Str.ok s = true) : RT (Str.enc s) Str.dec s := by
  simp only [Str.ok, decide_eq_true_eq] at h
  unfold Str.enc Str.dec
  refine RT.andThen (rt_count _ h) ?_
  intro rest
  simp only [List.length_append]
  rw [if_neg (by omega), List.take_append_of_le_length (by omega), List.take_of_length_le (by omega)]

theorem rt_namespaceIndex (x : NamespaceIndex) : RT x.enc NamespaceIndex.dec x := by
  unfold NamespaceIndex.enc NamespaceIndex.dec
  have := x.tn.isLt
  refine (RT.andThen (rt_uvarint x.tn.toNat (by omega)) (RT.map _ (rt_uvarint _ x.index.isLt))).congr rfl ?_
  cases x; simp

theorem rt_namespaceIndices (xs : List NamespaceIndex) (h : NamespaceIndices.ok xs = true) :
    RT (NamespaceIndices.enc xs) NamespaceIndices.dec xs := by
  simp only [NamespaceIndices.ok, decide_eq_true_eq] at h
  unfold NamespaceIndices.enc NamespaceIndices.dec
  refine RT.andThen (rt_count _ h) ?_
  exact RT.times (fun _ => True) _ _ (fun _ x _ => RT.map (fun x => (x, ())) (rt_namespaceIndex x)) xs () (fun _ _ => trivial)

theorem rt_postingListHeader (h : PostingListHeader) (hok : h.ok = true) : RT h.enc PostingListHeader.dec h := by
  simp only [PostingListHeader.ok, Bool.and_eq_true] at hok
  unfold PostingListHeader.enc PostingListHeader.dec
  rw [List.append_assoc]
  refine (RT.andThen (rt_str h.token hok.1) (RT.andThen (rt_uvarint _ h.features.isLt)
    (RT.map _ (rt_namespaceIndices h.namespaces hok.2)))).congr rfl ?_
  cases h; simp

end B6.Model.Records
