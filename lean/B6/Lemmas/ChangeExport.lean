import B6.Model.ChangeExport
/-!
Helper lemmas for C18 about `B6.Model.ChangeExport` (core Lean only).

* association maps and tags (`get_tagSet`, `get_applyMods`: the same statements as C12's, for this model's
  structured values);
* the spec map `SMap` (feature id ⇀ (tag key ⇀ value) × body), the abstraction `abs` of an overlay state, and
  the per-operation refinement of `AddTag` / `RemoveTag` / accepted `AddFeature`;
* `importDocs` refines the document-by-document run on the spec map;
* the exported documents, run on the base's map, give the map of the exporting world.
-/
namespace B6.Model.ChangeExport
open B6.Model.Mutable (Id Key)
open B6.Model.Mutable.AMap (get set erase keys contains)

/-! ## association maps -/
section amap
variable {α : Type} {β : Type} [DecidableEq α]

@[simp] theorem get_nil (k : α) : get ([] : List (α × β)) k = none := rfl

theorem get_cons (k' : α) (v : β) (r : List (α × β)) (k : α) :
    get ((k', v) :: r) k = if k' = k then some v else get r k := rfl

theorem get_erase (m : List (α × β)) (k k' : α) :
    get (erase m k) k' = if k' = k then none else get m k' := by
  induction m with
  | nil => simp [erase]
  | cons e r ih =>
    obtain ⟨a, b⟩ := e
    unfold erase at ih ⊢
    by_cases hak : a = k
    · subst hak
      simp only [List.filter, ne_eq, not_true_eq_false, decide_false]
      rw [ih, get_cons]
      by_cases h : k' = a
      · subst h; simp
      · have : ¬ a = k' := fun h' => h h'.symm
        simp [h, this]
    · simp only [List.filter, ne_eq, hak, not_false_eq_true, decide_true]
      rw [get_cons, get_cons, ih]
      by_cases h : a = k'
      · subst h; simp [hak]
      · simp [h]

theorem get_set (m : List (α × β)) (k : α) (v : β) (k' : α) :
    get (set m k v) k' = if k' = k then some v else get m k' := by
  unfold Mutable.AMap.set
  rw [get_cons, get_erase]
  by_cases h : k = k'
  · subst h; simp
  · have : ¬ k' = k := fun h' => h h'.symm
    simp [h, this]

theorem contains_eq (m : List (α × β)) (k : α) : contains m k = (get m k).isSome := rfl

theorem get_none_of_not_mem {m : List (α × β)} {k : α} (h : k ∉ m.map (·.1)) : get m k = none := by
  induction m with
  | nil => rfl
  | cons e r ih =>
    obtain ⟨a, b⟩ := e
    simp only [List.map_cons, List.mem_cons, not_or] at h
    rw [get_cons]
    have : ¬ a = k := fun h' => h.1 h'.symm
    simp [this, ih h.2]

theorem get_some_mem {m : List (α × β)} {k : α} {v : β} (h : get m k = some v) : (k, v) ∈ m := by
  induction m with
  | nil => simp at h
  | cons e r ih =>
    obtain ⟨a, b⟩ := e
    rw [get_cons] at h
    by_cases hak : a = k
    · subst hak; simp at h; subst h; simp
    · simp [hak] at h; exact List.mem_cons_of_mem _ (ih h)

end amap

/-! ## tags -/

theorem get_tagSet (ts : List Tag) (t : Tag) (k : Key) :
    get (tagSet ts t) k = if k = t.1 then some t.2 else get ts k := by
  induction ts with
  | nil =>
    obtain ⟨a, b⟩ := t
    simp only [tagSet, get_cons, get_nil]
    by_cases h : a = k
    · subst h; simp
    · have : ¬ k = a := fun h' => h h'.symm
      simp [h, this]
  | cons e r ih =>
    obtain ⟨a, b⟩ := e
    simp only [tagSet]
    by_cases h : a = t.1
    · simp only [h, ↓reduceIte, get_cons]
      by_cases hk : t.1 = k
      · simp [hk]
      · have : ¬ k = t.1 := fun h' => hk h'.symm
        simp [hk, this]
    · simp only [h, ↓reduceIte, get_cons, ih]
      by_cases hk : a = k
      · subst hk; simp [h]
      · simp [hk]

theorem get_tagRemove (ts : List Tag) (k k' : Key) :
    get (tagRemove ts k) k' = if k' = k then none else get ts k' :=
  get_erase ts k k'

/-! ## modifications -/

theorem get_filterMap_mods (mods : VMods) (orig : List Tag) (k : Key) :
    get (orig.filterMap (modExisting mods)) k =
    match get mods k with
    | some (.set v) => if (get orig k).isSome then some v else none
    | some .del => none
    | none => get orig k := by
  induction orig with
  | nil => cases h : get mods k with
    | none => simp
    | some m => cases m <;> simp
  | cons e r ih =>
    obtain ⟨a, b⟩ := e
    simp only [List.filterMap_cons, modExisting]
    by_cases hak : a = k
    · subst hak
      cases h : get mods a with
      | none => simp [get_cons]
      | some m =>
        cases m with
        | set v => simp [get_cons]
        | del =>
          simp only [ih, h]
    · cases h : get mods a with
      | none =>
        simp only [get_cons, hak, ↓reduceIte, ih]
      | some m =>
        cases m with
        | set v => simp only [get_cons, hak, ↓reduceIte, ih]
        | del => simp only [ih, get_cons, hak, ↓reduceIte]

theorem get_filterMap_new (mods mods' : VMods) (orig : List Tag) (k : Key) :
    get (mods'.filterMap (modNew mods orig)) k =
    if (get mods' k).isSome then
      match get mods k with
      | some (.set v) => if (get orig k).isNone then some v else none
      | _ => none
    else none := by
  induction mods' with
  | nil => simp
  | cons e r ih =>
    obtain ⟨a, b⟩ := e
    simp only [List.filterMap_cons, modNew]
    by_cases hak : a = k
    · subst hak
      simp only [get_cons, ↓reduceIte, Option.isSome_some]
      cases h : get mods a with
      | none => simp only [ih, h]; split <;> rfl
      | some m =>
        cases m with
        | del => simp only [ih, h]; split <;> rfl
        | set v =>
          by_cases ho : (get orig a).isNone
          · simp [ho, get_cons]
          · simp only [ho, Bool.false_eq_true, ↓reduceIte, ih, h]; split <;> rfl
    · simp only [get_cons, hak, ↓reduceIte]
      cases h : get mods a with
      | none => simp only [ih]
      | some m =>
        cases m with
        | del => simp only [ih]
        | set v =>
          by_cases ho : (get orig a).isNone
          · simp only [ho, ↓reduceIte, get_cons, hak, ih]
          · simp only [ho, Bool.false_eq_true, ↓reduceIte, ih]

theorem get_append (a b : List Tag) (k : Key) :
    get (a ++ b) k = (get a k).or (get b k) := by
  induction a with
  | nil => simp
  | cons e r ih =>
    obtain ⟨x, y⟩ := e
    simp only [List.cons_append, get_cons]
    by_cases h : x = k
    · simp [h]
    · simp [h, ih]

/-- reading a tag through `modifyTags` = the recorded modification if there is one, else the original -/
theorem get_applyMods (mods : VMods) (orig : List Tag) (k : Key) :
    get (applyMods mods orig) k = modLookup (get mods k) (get orig k) := by
  unfold applyMods
  rw [get_append, get_filterMap_mods, get_filterMap_new]
  cases h : get mods k with
  | none => simp [modLookup]
  | some m =>
    cases m with
    | del => simp [modLookup]
    | set v =>
      cases ho : get orig k with
      | none => simp [modLookup]
      | some x => simp [modLookup]

theorem applyMods_nil (orig : List Tag) : applyMods [] orig = orig := by
  unfold applyMods
  simp only [List.filterMap_nil, List.append_nil]
  induction orig with
  | nil => rfl
  | cons e r ih => simp [modExisting, ih]

theorem modsOf_set (mods : List (Id × VMods)) (id : Id) (m : VMods) (id' : Id) :
    modsOf (set mods id m) id' = if id' = id then m else modsOf mods id' := by
  unfold modsOf
  rw [get_set]
  by_cases h : id' = id <;> simp [h]

theorem modsOf_erase (mods : List (Id × VMods)) (id id' : Id) :
    modsOf (erase mods id) id' = if id' = id then [] else modsOf mods id' := by
  unfold modsOf
  rw [get_erase]
  by_cases h : id' = id <;> simp [h]

theorem modsOf_modsSet (mods : List (Id × VMods)) (id : Id) (k : Key) (m : VMod) (id' : Id) :
    modsOf (modsSet mods id k m) id' =
      if id' = id then set (modsOf mods id) k m else modsOf mods id' := by
  unfold modsSet
  rw [modsOf_set]

/-! ## the spec map -/

/-- what a feature shows: its tags read by key, and its body -/
structure FeatView where
  tags : Key → Option V
  body : Body

theorem FeatView.ext' {a b : FeatView} (ht : ∀ k, a.tags k = b.tags k) (hb : a.body = b.body) : a = b := by
  cases a; cases b
  simp only [FeatView.mk.injEq]
  exact ⟨funext ht, hb⟩

/-- the spec: feature id ⇀ (tag key ⇀ value) × body -/
abbrev SMap := Id → Option FeatView

def viewOf (f : Feat) : FeatView := ⟨fun k => get f.tags k, f.body⟩

/-- the map a world denotes -/
def abs (b : Base) (s : St) : SMap := fun id => (s.find b id).map viewOf

def FeatView.setTag (fv : FeatView) (t : Tag) : FeatView :=
  ⟨fun k => if k = t.1 then some t.2 else fv.tags k, fv.body⟩

def FeatView.delTag (fv : FeatView) (key : Key) : FeatView :=
  ⟨fun k => if k = key then none else fv.tags k, fv.body⟩

/-- a feature is added or replaced -/
def SMap.addFeature (w : SMap) (f : Feat) : SMap := fun i => if i = f.id then some (viewOf f) else w i

/-- a tag is set on an existing feature; nothing happens for an unknown id -/
def SMap.addTag (w : SMap) (id : Id) (t : Tag) : SMap :=
  fun i => if i = id then (w i).map (fun fv => fv.setTag t) else w i

def SMap.removeTag (w : SMap) (id : Id) (key : Key) : SMap :=
  fun i => if i = id then (w i).map (fun fv => fv.delTag key) else w i

theorem viewOf_tagSet (f : Feat) (t : Tag) : viewOf { f with tags := tagSet f.tags t } = (viewOf f).setTag t := by
  apply FeatView.ext'
  · intro k; simp [viewOf, FeatView.setTag, get_tagSet]
  · rfl

theorem viewOf_tagRemove (f : Feat) (key : Key) :
    viewOf { f with tags := tagRemove f.tags key } = (viewOf f).delTag key := by
  apply FeatView.ext'
  · intro k; simp [viewOf, FeatView.delTag, get_tagRemove]
  · rfl

/-- a base feature seen through recorded modifications -/
def FeatView.withMods (fv : FeatView) (m : VMods) : FeatView :=
  ⟨fun k => modLookup (get m k) (fv.tags k), fv.body⟩

theorem viewOf_applyMods (f : Feat) (m : VMods) :
    viewOf { f with tags := applyMods m f.tags } = (viewOf f).withMods m := by
  apply FeatView.ext'
  · intro k; simp [viewOf, FeatView.withMods, get_applyMods]
  · rfl

theorem withMods_nil (fv : FeatView) : fv.withMods [] = fv := by
  apply FeatView.ext'
  · intro k; simp [FeatView.withMods, modLookup]
  · rfl

/-- `abs` in terms of the tables -/
theorem abs_eq (b : Base) (s : St) (id : Id) :
    abs b s id = match get s.feats id with
      | some f => some (viewOf f)
      | none => (b.find id).map (fun f => (viewOf f).withMods (modsOf s.mods id)) := by
  unfold abs St.find
  cases h : get s.feats id with
  | some f => simp
  | none => simp [Option.map_map, Function.comp_def, viewOf_applyMods]

/-! ## consistency of ids -/

/-- the feature found under an id carries that id -/
def Base.IdsOK (b : Base) : Prop := ∀ id f, b.find id = some f → f.id = id

def St.FeatsId (s : St) : Prop := ∀ id f, get s.feats id = some f → f.id = id

theorem find_id {b : Base} {s : St} (hb : b.IdsOK) (hs : s.FeatsId) {id : Id} {f : Feat}
    (h : s.find b id = some f) : f.id = id := by
  unfold St.find at h
  cases hf : get s.feats id with
  | some g => rw [hf] at h; simp at h; subst h; exact hs id g hf
  | none =>
    rw [hf] at h
    cases hb' : b.find id with
    | none => simp [hb'] at h
    | some g => simp [hb'] at h; subst h; exact hb id g hb'

theorem featsId_empty : St.empty.FeatsId := by
  intro id f h; simp [St.empty] at h

/-! ## `AddTag` -/

theorem abs_addTag (b : Base) (s : St) (id : Id) (t : Tag) :
    abs b (s.addTag b id t) = (abs b s).addTag id t := by
  funext i
  unfold St.addTag
  cases hf : get s.feats id with
  | some f =>
    simp only [SMap.addTag, abs_eq, get_set]
    by_cases hi : i = id
    · subst hi; simp [hf, viewOf_tagSet]
    · simp [hi]
  | none =>
    simp only
    cases hfind : s.find b id with
    | none =>
      simp only [SMap.addTag]
      by_cases hi : i = id
      · subst hi; simp [abs, hfind]
      · simp [hi]
    | some f =>
      simp only
      have hview : abs b s id = some (viewOf f) := by simp [abs, hfind]
      split
      · simp only [SMap.addTag]
        by_cases hi : i = id
        · subst hi; rw [hview]; simp [abs_eq, get_set, viewOf_tagSet]
        · simp [abs_eq, get_set, modsOf_erase, hi]
      · simp only [SMap.addTag]
        by_cases hi : i = id
        · subst hi
          have h2 := abs_eq b s i
          rw [hview, hf] at h2
          cases hb' : b.find i with
          | none => simp [hb'] at h2
          | some g =>
            simp only [hb', Option.map_some, Option.some.injEq] at h2
            rw [hview, abs_eq]
            simp only [hf, hb', Option.map_some, ↓reduceIte, Option.some.injEq]
            rw [h2]
            apply FeatView.ext'
            · intro k
              simp only [FeatView.withMods, FeatView.setTag, modsOf_modsSet, ↓reduceIte, get_set]
              by_cases hk : k = t.1 <;> simp [hk, modLookup]
            · rfl
        · simp [abs_eq, modsOf_modsSet, hi]

theorem featsId_addTag {b : Base} {s : St} (hb : b.IdsOK) (hs : s.FeatsId) (id : Id) (t : Tag) :
    (s.addTag b id t).FeatsId := by
  unfold St.addTag
  cases hf : get s.feats id with
  | some f =>
    intro i g hg
    simp only [get_set] at hg
    by_cases hi : i = id
    · subst hi; simp at hg; subst hg; exact hs i f hf
    · simp [hi] at hg; exact hs i g hg
  | none =>
    simp only
    cases hfind : s.find b id with
    | none => exact hs
    | some f =>
      simp only
      split
      · intro i g hg
        simp only [get_set] at hg
        by_cases hi : i = id
        · subst hi; simp at hg; subst hg; exact find_id hb hs (f := f) hfind
        · simp [hi] at hg; exact hs i g hg
      · exact hs

/-! ## `RemoveTag` -/

theorem delTag_of_none {fv : FeatView} {key : Key} (h : fv.tags key = none) : fv.delTag key = fv := by
  apply FeatView.ext'
  · intro k
    simp only [FeatView.delTag]
    by_cases hk : k = key
    · subst hk; simp [h]
    · simp [hk]
  · rfl

theorem abs_removeTag (b : Base) (s : St) (id : Id) (key : Key) :
    abs b (s.removeTag b id key) = (abs b s).removeTag id key := by
  funext i
  unfold St.removeTag
  cases hf : get s.feats id with
  | some f =>
    simp only [SMap.removeTag, abs_eq, get_set]
    by_cases hi : i = id
    · subst hi; simp [hf, viewOf_tagRemove]
    · simp [hi]
  | none =>
    simp only
    cases hfind : s.find b id with
    | none =>
      simp only [SMap.removeTag]
      by_cases hi : i = id
      · subst hi; simp [abs, hfind]
      · simp [hi]
    | some f =>
      simp only
      have hview : abs b s id = some (viewOf f) := by simp [abs, hfind]
      cases hk : get f.tags key with
      | none =>
        simp only [SMap.removeTag]
        by_cases hi : i = id
        · subst hi; rw [hview]
          simp only [↓reduceIte, Option.map_some, Option.some.injEq]
          exact (delTag_of_none (by simp [viewOf, hk])).symm
        · simp [hi]
      | some v =>
        simp only
        split
        · simp only [SMap.removeTag]
          by_cases hi : i = id
          · subst hi; rw [hview]; simp [abs_eq, get_set, viewOf_tagRemove]
          · simp [abs_eq, get_set, modsOf_erase, hi]
        · simp only [SMap.removeTag]
          by_cases hi : i = id
          · subst hi
            have h2 := abs_eq b s i
            rw [hview, hf] at h2
            cases hb' : b.find i with
            | none => simp [hb'] at h2
            | some g =>
              simp only [hb', Option.map_some, Option.some.injEq] at h2
              rw [hview, abs_eq]
              simp only [hf, hb', Option.map_some, ↓reduceIte, Option.some.injEq]
              rw [h2]
              apply FeatView.ext'
              · intro k
                simp only [FeatView.withMods, FeatView.delTag, modsOf_modsSet, ↓reduceIte, get_set]
                by_cases hk' : k = key <;> simp [hk', modLookup]
              · rfl
          · simp [abs_eq, modsOf_modsSet, hi]

theorem featsId_removeTag {b : Base} {s : St} (hb : b.IdsOK) (hs : s.FeatsId) (id : Id) (key : Key) :
    (s.removeTag b id key).FeatsId := by
  unfold St.removeTag
  cases hf : get s.feats id with
  | some f =>
    intro i g hg
    simp only [get_set] at hg
    by_cases hi : i = id
    · subst hi; simp at hg; subst hg; exact hs i f hf
    · simp [hi] at hg; exact hs i g hg
  | none =>
    simp only
    cases hfind : s.find b id with
    | none => exact hs
    | some f =>
      simp only
      cases hk : get f.tags key with
      | none => exact hs
      | some v =>
        simp only
        split
        · intro i g hg
          simp only [get_set] at hg
          by_cases hi : i = id
          · subst hi; simp at hg; subst hg; exact find_id hb hs (f := f) hfind
          · simp [hi] at hg; exact hs i g hg
        · exact hs

/-! ## accepted `AddFeature` -/

theorem copyFold_some (newId : Id) (rs : List Feat) :
    ∀ (feats : List (Id × Feat)) (id : Id) (g : Feat), get feats id = some g →
      get (rs.foldl (copyStep newId) feats) id = some g := by
  induction rs with
  | nil => intro feats id g h; exact h
  | cons r rest ih =>
    intro feats id g h
    simp only [List.foldl_cons]
    apply ih
    unfold copyStep
    split
    · exact h
    · rename_i hc
      rw [get_set]
      by_cases hi : id = r.id
      · subst hi
        simp only [contains_eq, h, Option.isSome_some, Bool.true_or, not_true_eq_false] at hc
      · simp [hi, h]

theorem copyFold_none (newId : Id) (rs : List Feat) :
    ∀ (feats : List (Id × Feat)) (id : Id), get feats id = none →
      get (rs.foldl (copyStep newId) feats) id = none ∨
      ∃ r, r ∈ rs ∧ r.id = id ∧ get (rs.foldl (copyStep newId) feats) id = some r := by
  induction rs with
  | nil => intro feats id h; exact Or.inl h
  | cons r rest ih =>
    intro feats id h
    simp only [List.foldl_cons]
    by_cases hstep : get (copyStep newId feats r) id = none
    · rcases ih _ id hstep with h1 | ⟨x, hx, hid, hg⟩
      · exact Or.inl h1
      · exact Or.inr ⟨x, List.mem_cons_of_mem _ hx, hid, hg⟩
    · -- the step itself copied `r` under `id`
      have hr : get (copyStep newId feats r) id = some r ∧ r.id = id := by
        unfold copyStep at hstep ⊢
        split at hstep
        · exact absurd h hstep
        · rename_i hc
          rw [if_neg hc]
          rw [get_set] at hstep ⊢
          by_cases hi : id = r.id
          · simp [hi]
          · simp [hi, h] at hstep
      exact Or.inr ⟨r, List.mem_cons_self, hr.2, copyFold_some newId rest _ id r hr.1⟩

theorem abs_commit {b : Base} {s : St} (f : Feat) (rs : List Feat)
    (hrs : ∀ r, r ∈ rs → s.find b r.id = some r) :
    abs b (s.commit f rs) = (abs b s).addFeature f := by
  funext i
  simp only [SMap.addFeature]
  by_cases hi : i = f.id
  · subst hi; simp [abs_eq, St.commit, get_set]
  · rw [if_neg hi, abs_eq, abs_eq]
    simp only [St.commit, get_set, if_neg hi, modsOf_erase]
    cases hg : get s.feats i with
    | some g => rw [copyFold_some f.id rs s.feats i g hg]
    | none =>
      rcases copyFold_none f.id rs s.feats i hg with h1 | ⟨r, hr, hid, h2⟩
      · rw [h1]
      · rw [h2]
        have hfind := hrs r hr
        rw [hid] at hfind
        have : abs b s i = some (viewOf r) := by simp [abs, hfind]
        rw [abs_eq, hg] at this
        simpa using this.symm

theorem featsId_copyFold (newId : Id) (rs : List Feat) :
    ∀ (feats : List (Id × Feat)), (∀ id g, get feats id = some g → g.id = id) →
      ∀ id g, get (rs.foldl (copyStep newId) feats) id = some g → g.id = id := by
  induction rs with
  | nil => intro feats h; exact h
  | cons r rest ih =>
    intro feats h
    simp only [List.foldl_cons]
    apply ih
    intro id g hg
    unfold copyStep at hg
    split at hg
    · exact h id g hg
    · rw [get_set] at hg
      by_cases hi : id = r.id
      · simp [hi] at hg; subst hg; exact hi.symm
      · simp [hi] at hg; exact h id g hg

theorem featsId_commit {s : St} (hs : s.FeatsId) (f : Feat) (rs : List Feat) : (s.commit f rs).FeatsId := by
  intro id g hg
  simp only [St.commit, get_set] at hg
  by_cases hi : id = f.id
  · simp [hi] at hg; subst hg; exact hi.symm
  · simp [hi] at hg
    exact featsId_copyFold f.id rs s.feats hs id g hg

theorem referrers_found {b : Base} {s : St} (hb : b.IdsOK) (hs : s.FeatsId) (ids : List Id) :
    ∀ r, r ∈ ids.filterMap (s.find b) → s.find b r.id = some r := by
  intro r hr
  rw [List.mem_filterMap] at hr
  obtain ⟨j, _, hj⟩ := hr
  have := find_id hb hs hj
  rw [this]; exact hj

theorem abs_addFeature {b : Base} {s : St} (hb : b.IdsOK) (hs : s.FeatsId) (f : Feat) :
    abs b (s.addFeature b f) = (abs b s).addFeature f :=
  abs_commit f _ (referrers_found hb hs _)

theorem featsId_addFeature {b : Base} {s : St} (hs : s.FeatsId) (f : Feat) : (s.addFeature b f).FeatsId :=
  featsId_commit hs f _

/-! ## documents on the spec map -/

def specDoc (w : SMap) : Doc → SMap
  | .feat f => w.addFeature f
  | .mods id add rm => rm.foldl (fun w k => w.removeTag id k) (add.foldl (fun w t => w.addTag id t) w)

def specRun (w : SMap) (docs : List Doc) : SMap := docs.foldl specDoc w

theorem foldl_addTag_refines {b : Base} (hb : b.IdsOK) (id : Id) (add : List Tag) :
    ∀ s : St, s.FeatsId →
      abs b (add.foldl (fun s t => s.addTag b id t) s) = add.foldl (fun w t => w.addTag id t) (abs b s) ∧
      (add.foldl (fun s t => s.addTag b id t) s).FeatsId := by
  induction add with
  | nil => intro s hs; exact ⟨rfl, hs⟩
  | cons t rest ih =>
    intro s hs
    simp only [List.foldl_cons]
    have := ih (s.addTag b id t) (featsId_addTag hb hs id t)
    rw [abs_addTag] at this
    exact this

theorem foldl_removeTag_refines {b : Base} (hb : b.IdsOK) (id : Id) (rm : List Key) :
    ∀ s : St, s.FeatsId →
      abs b (rm.foldl (fun s k => s.removeTag b id k) s) = rm.foldl (fun w k => w.removeTag id k) (abs b s) ∧
      (rm.foldl (fun s k => s.removeTag b id k) s).FeatsId := by
  induction rm with
  | nil => intro s hs; exact ⟨rfl, hs⟩
  | cons k rest ih =>
    intro s hs
    simp only [List.foldl_cons]
    have := ih (s.removeTag b id k) (featsId_removeTag hb hs id k)
    rw [abs_removeTag] at this
    exact this

theorem importDoc_refines {b : Base} {acc : St → Feat → Bool} (hb : b.IdsOK) {s s' : St} (hs : s.FeatsId)
    {d : Doc} (h : importDoc b acc s d = some s') : abs b s' = specDoc (abs b s) d ∧ s'.FeatsId := by
  cases d with
  | feat f =>
    simp only [importDoc] at h
    split at h
    · simp only [Option.some.injEq] at h; subst h
      exact ⟨abs_addFeature hb hs f, featsId_addFeature hs f⟩
    · simp at h
  | mods id add rm =>
    simp only [importDoc, Option.some.injEq] at h; subst h
    have h1 := foldl_addTag_refines hb id add s hs
    have h2 := foldl_removeTag_refines hb id rm _ h1.2
    refine ⟨?_, h2.2⟩
    rw [h2.1, h1.1]; rfl

/-- **import refines the spec run**: whatever `AddFeature` answers (`acc`), if `Apply` gets through all
documents the world it leaves denotes the map obtained by running the documents on the map -/
theorem importDocs_refines {b : Base} {acc : St → Feat → Bool} (hb : b.IdsOK) (docs : List Doc) :
    ∀ (s s' : St), s.FeatsId → importDocs b acc s docs = some s' →
      abs b s' = specRun (abs b s) docs ∧ s'.FeatsId := by
  induction docs with
  | nil => intro s s' hs h; simp only [importDocs, Option.some.injEq] at h; subst h; exact ⟨rfl, hs⟩
  | cons d rest ih =>
    intro s s' hs h
    simp only [importDocs] at h
    cases hd : importDoc b acc s d with
    | none => simp [hd] at h
    | some s1 =>
      rw [hd] at h
      have h1 := importDoc_refines hb hs hd
      have h2 := ih s1 s' h1.2 h
      refine ⟨?_, h2.2⟩
      rw [h2.1, h1.1]; rfl

/-! ## the exported documents, run on the base's map -/

theorem foldl_delTag_tags (l : List Key) : ∀ (g : FeatView) (k : Key),
    (l.foldl (fun fv key => fv.delTag key) g).tags k = if k ∈ l then none else g.tags k := by
  induction l with
  | nil => intro g k; simp
  | cons a rest ih =>
    intro g k
    simp only [List.foldl_cons, ih, List.mem_cons]
    by_cases hk : k ∈ rest
    · simp [hk]
    · by_cases ha : k = a
      · subst ha; simp [FeatView.delTag]
      · simp [hk, ha, FeatView.delTag]

theorem foldl_delTag_body (l : List Key) : ∀ (g : FeatView),
    (l.foldl (fun fv key => fv.delTag key) g).body = g.body := by
  induction l with
  | nil => intro g; rfl
  | cons a rest ih => intro g; simp only [List.foldl_cons, ih]; rfl

theorem foldl_setTag_tags (l : List Tag) (hn : (l.map (·.1)).Nodup) : ∀ (g : FeatView) (k : Key),
    (l.foldl (fun fv t => fv.setTag t) g).tags k = match get l k with
      | some v => some v
      | none => g.tags k := by
  induction l with
  | nil => intro g k; simp
  | cons t rest ih =>
    intro g k
    obtain ⟨a, v⟩ := t
    simp only [List.map_cons, List.nodup_cons] at hn
    simp only [List.foldl_cons, ih hn.2, get_cons]
    by_cases ha : a = k
    · subst ha
      rw [get_none_of_not_mem hn.1]
      simp [FeatView.setTag]
    · have : ¬ k = a := fun h => ha h.symm
      simp only [ha, ↓reduceIte]
      cases get rest k with
      | some x => rfl
      | none => simp [FeatView.setTag, this]

theorem foldl_setTag_body (l : List Tag) : ∀ (g : FeatView),
    (l.foldl (fun fv t => fv.setTag t) g).body = g.body := by
  induction l with
  | nil => intro g; rfl
  | cons a rest ih => intro g; simp only [List.foldl_cons, ih]; rfl

theorem keys_sets_subset (m : VMods) (k : Key) (h : k ∈ (sets m).map (·.1)) : k ∈ m.map (·.1) := by
  induction m with
  | nil => simp [sets] at h
  | cons e rest ih =>
    obtain ⟨a, x⟩ := e
    cases x with
    | set v =>
      simp only [sets, List.filterMap_cons, List.map_cons, List.mem_cons] at h ⊢
      rcases h with h | h
      · exact Or.inl h
      · exact Or.inr (ih h)
    | del =>
      simp only [sets, List.filterMap_cons, List.map_cons, List.mem_cons] at h ⊢
      exact Or.inr (ih h)

theorem nodup_sets (m : VMods) (hn : (m.map (·.1)).Nodup) : ((sets m).map (·.1)).Nodup := by
  induction m with
  | nil => simp [sets]
  | cons e rest ih =>
    obtain ⟨a, x⟩ := e
    simp only [List.map_cons, List.nodup_cons] at hn
    cases x with
    | set v =>
      simp only [sets, List.filterMap_cons, List.map_cons, List.nodup_cons]
      exact ⟨fun h => hn.1 (keys_sets_subset rest a h), ih hn.2⟩
    | del =>
      simp only [sets, List.filterMap_cons]
      exact ih hn.2

theorem get_sets (m : VMods) (hn : (m.map (·.1)).Nodup) (k : Key) :
    get (sets m) k = match get m k with
      | some (.set v) => some v
      | _ => none := by
  induction m with
  | nil => simp [sets]
  | cons e rest ih =>
    obtain ⟨a, x⟩ := e
    simp only [List.map_cons, List.nodup_cons] at hn
    by_cases ha : a = k
    · subst ha
      cases x with
      | set v => simp [sets, get_cons]
      | del =>
        simp only [sets, List.filterMap_cons, get_cons, ↓reduceIte]
        exact get_none_of_not_mem (fun h => hn.1 (keys_sets_subset rest a h))
    · cases x with
      | set v => simp only [sets, List.filterMap_cons, get_cons, ha, ↓reduceIte]; exact ih hn.2
      | del => simp only [sets, List.filterMap_cons, get_cons, ha, ↓reduceIte]; exact ih hn.2

theorem mem_dels (m : VMods) (hn : (m.map (·.1)).Nodup) (k : Key) :
    k ∈ dels m ↔ get m k = some .del := by
  induction m with
  | nil => simp [dels]
  | cons e rest ih =>
    obtain ⟨a, x⟩ := e
    simp only [List.map_cons, List.nodup_cons] at hn
    have hsub : ∀ k, k ∈ dels rest → k ∈ rest.map (·.1) := by
      intro k hk
      simp only [dels, List.mem_filterMap] at hk
      obtain ⟨e, he, hk⟩ := hk
      obtain ⟨a', x'⟩ := e
      cases x' with
      | set v => simp at hk
      | del => simp at hk; subst hk; exact List.mem_map.mpr ⟨(a', .del), he, rfl⟩
    by_cases ha : a = k
    · subst ha
      cases x with
      | set v =>
        simp only [dels, List.filterMap_cons, get_cons, ↓reduceIte]
        constructor
        · intro h; exact absurd (hsub a h) hn.1
        · intro h; simp at h
      | del => simp [dels, get_cons]
    · have hka : ¬ k = a := fun h => ha h.symm
      cases x with
      | set v => simp only [dels, List.filterMap_cons, get_cons, ha, ↓reduceIte]; exact ih hn.2
      | del => simp only [dels, List.filterMap_cons, List.mem_cons, hka, false_or, get_cons, ha, ↓reduceIte]; exact ih hn.2

/-- one `{id, add, remove}` document = the recorded modifications applied to that feature -/
theorem mods_doc_view (m : VMods) (hn : (m.map (·.1)).Nodup) (g : FeatView) :
    (dels m).foldl (fun fv key => fv.delTag key) ((sets m).foldl (fun fv t => fv.setTag t) g) = g.withMods m := by
  apply FeatView.ext'
  · intro k
    rw [foldl_delTag_tags, foldl_setTag_tags _ (nodup_sets m hn), get_sets m hn]
    simp only [FeatView.withMods]
    by_cases hd : k ∈ dels m
    · rw [(mem_dels m hn k).mp hd]; simp [hd, modLookup]
    · rw [if_neg hd]
      cases hg : get m k with
      | none => simp [modLookup]
      | some x =>
        cases x with
        | set v => simp [modLookup]
        | del => exact absurd ((mem_dels m hn k).mpr hg) hd
  · rw [foldl_delTag_body, foldl_setTag_body]; rfl

theorem foldl_addTag_apply (id : Id) (add : List Tag) : ∀ (w : SMap) (i : Id),
    (add.foldl (fun w t => w.addTag id t) w) i =
      if i = id then (w i).map (fun fv => add.foldl (fun fv t => fv.setTag t) fv) else w i := by
  induction add with
  | nil => intro w i; by_cases h : i = id <;> simp [h]
  | cons t rest ih =>
    intro w i
    simp only [List.foldl_cons, ih]
    by_cases h : i = id
    · simp [h, SMap.addTag, Option.map_map, Function.comp_def]
    · simp [h, SMap.addTag]

theorem foldl_removeTag_apply (id : Id) (rm : List Key) : ∀ (w : SMap) (i : Id),
    (rm.foldl (fun w k => w.removeTag id k) w) i =
      if i = id then (w i).map (fun fv => rm.foldl (fun fv k => fv.delTag k) fv) else w i := by
  induction rm with
  | nil => intro w i; by_cases h : i = id <;> simp [h]
  | cons t rest ih =>
    intro w i
    simp only [List.foldl_cons, ih]
    by_cases h : i = id
    · simp [h, SMap.removeTag, Option.map_map, Function.comp_def]
    · simp [h, SMap.removeTag]

theorem specDoc_mods (w : SMap) (id : Id) (m : VMods) (hn : (m.map (·.1)).Nodup) (i : Id) :
    specDoc w (.mods id (sets m) (dels m)) i = if i = id then (w i).map (fun fv => fv.withMods m) else w i := by
  simp only [specDoc, foldl_removeTag_apply, foldl_addTag_apply]
  by_cases h : i = id
  · simp only [h, ↓reduceIte, Option.map_map, Function.comp_def]
    congr 1
    funext fv
    exact mods_doc_view m hn fv
  · simp [h]

/-- ids of the modification table are distinct, and so are the keys recorded per id (Go maps) -/
def ModsNodup (ms : List (Id × VMods)) : Prop :=
  (ms.map (·.1)).Nodup ∧ ∀ e, e ∈ ms → (e.2.map (·.1)).Nodup

theorem specRun_exportMods (ms : List (Id × VMods)) (h : ModsNodup ms) : ∀ (w : SMap) (i : Id),
    specRun w (exportMods ms) i = (w i).map (fun fv => fv.withMods (modsOf ms i)) := by
  induction ms with
  | nil =>
    intro w i
    simp only [exportMods, List.filterMap_nil, specRun, List.foldl_nil, modsOf, get_nil]
    cases w i with
    | none => rfl
    | some fv => simp [withMods_nil]
  | cons e rest ih =>
    intro w i
    obtain ⟨a, m⟩ := e
    have hrest : ModsNodup rest := by
      refine ⟨?_, fun e he => h.2 e (List.mem_cons_of_mem _ he)⟩
      have := h.1
      simp only [List.map_cons, List.nodup_cons] at this
      exact this.2
    have ha : a ∉ rest.map (·.1) := by
      have := h.1
      simp only [List.map_cons, List.nodup_cons] at this
      exact this.1
    have hm : (m.map (·.1)).Nodup := h.2 (a, m) List.mem_cons_self
    -- the map after the head's document (or after nothing, when the head records nothing)
    have hstep : ∀ j, (if m.isEmpty then w else specDoc w (.mods a (sets m) (dels m))) j =
        if j = a then (w j).map (fun fv => fv.withMods m) else w j := by
      intro j
      by_cases hme : m.isEmpty
      · have : m = [] := List.isEmpty_iff.mp hme
        subst this
        by_cases hj : j = a
        · simp only [List.isEmpty_nil, ↓reduceIte, hj]
          cases w a with
          | none => rfl
          | some fv => simp [withMods_nil]
        · simp [hj]
      · simp only [hme, Bool.false_eq_true, ↓reduceIte]
        exact specDoc_mods w a m hm j
    have hrun : specRun w (exportMods ((a, m) :: rest)) =
        specRun (if m.isEmpty then w else specDoc w (.mods a (sets m) (dels m))) (exportMods rest) := by
      simp only [exportMods, List.filterMap_cons, specRun]
      by_cases hme : m.isEmpty <;> simp [hme]
    rw [hrun, ih hrest, hstep]
    by_cases hi : i = a
    · subst hi
      have : modsOf rest i = [] := by unfold modsOf; rw [get_none_of_not_mem ha]
      rw [this]
      simp only [↓reduceIte, modsOf, get_cons, Option.map_map, Function.comp_def]
      cases w i with
      | none => rfl
      | some fv => simp [withMods_nil]
    · have : ¬ a = i := fun h => hi h.symm
      simp [hi, modsOf, get_cons, this]

theorem specRun_exportFeats {s : St} (hs : s.FeatsId) (ord : List Id) : ∀ (w : SMap) (i : Id),
    specRun w (exportFeats s ord) i =
      if i ∈ ord then (match get s.feats i with
        | some f => some (viewOf f)
        | none => w i) else w i := by
  induction ord with
  | nil => intro w i; simp [exportFeats, specRun]
  | cons a rest ih =>
    intro w i
    cases hg : get s.feats a with
    | none =>
      have : exportFeats s (a :: rest) = exportFeats s rest := by
        simp [exportFeats, hg]
      rw [this, ih]
      by_cases hi : i = a
      · subst hi; simp [hg]
      · simp [hi]
    | some f =>
      have hid : f.id = a := hs a f hg
      have : specRun w (exportFeats s (a :: rest)) = specRun (w.addFeature f) (exportFeats s rest) := by
        simp [exportFeats, hg, specRun, specDoc]
      rw [this, ih]
      by_cases hi : i = a
      · subst hi; simp [hg, SMap.addFeature, hid]
      · simp [hi, SMap.addFeature, hid]

theorem abs_empty (b : Base) (i : Id) : abs b St.empty i = (b.find i).map viewOf := by
  rw [abs_eq]
  simp only [St.empty, get_nil, modsOf]
  cases b.find i with
  | none => rfl
  | some f => simp [withMods_nil]

/-- **the exported documents reproduce the map**: run on the map of the bare base, the documents exported
from a world give that world's map — for every order that lists all of the overlay's features -/
theorem export_spec (b : Base) {s : St} (hs : s.FeatsId) (hm : ModsNodup s.mods) (ord : List Id)
    (hcov : ∀ i, (get s.feats i).isSome → i ∈ ord) :
    specRun (abs b St.empty) (exportDocs s ord) = abs b s := by
  funext i
  have happ : specRun (abs b St.empty) (exportDocs s ord) =
      specRun (specRun (abs b St.empty) (exportMods s.mods)) (exportFeats s ord) := by
    simp [exportDocs, specRun, List.foldl_append]
  rw [happ, specRun_exportFeats hs, specRun_exportMods s.mods hm, abs_empty, abs_eq]
  cases hg : get s.feats i with
  | some f => simp [hcov i (by simp [hg])]
  | none =>
    simp only [Option.map_map, Function.comp_def]
    split <;> rfl

/-! ## the tables stay maps -/

theorem keys_erase {β : Type} (m : List (Id × β)) (k : Id) :
    (erase m k).map (·.1) = (m.map (·.1)).filter (fun x => decide (x ≠ k)) := by
  unfold Mutable.AMap.erase
  rw [List.filter_map]
  rfl

theorem keys_erase' {β : Type} (m : List (Key × β)) (k : Key) :
    (erase m k).map (·.1) = (m.map (·.1)).filter (fun x => decide (x ≠ k)) := by
  unfold Mutable.AMap.erase
  rw [List.filter_map]
  rfl

theorem nodup_erase {β : Type} (m : List (Id × β)) (k : Id) (h : (m.map (·.1)).Nodup) :
    ((erase m k).map (·.1)).Nodup := by
  rw [keys_erase]; exact List.Pairwise.filter _ h

theorem nodup_set {β : Type} (m : List (Id × β)) (k : Id) (v : β) (h : (m.map (·.1)).Nodup) :
    ((set m k v).map (·.1)).Nodup := by
  unfold Mutable.AMap.set
  simp only [List.map_cons, List.nodup_cons]
  refine ⟨?_, nodup_erase m k h⟩
  rw [keys_erase]
  simp

theorem nodup_set' {β : Type} (m : List (Key × β)) (k : Key) (v : β) (h : (m.map (·.1)).Nodup) :
    ((set m k v).map (·.1)).Nodup := by
  unfold Mutable.AMap.set
  simp only [List.map_cons, List.nodup_cons]
  refine ⟨?_, ?_⟩
  · rw [keys_erase']; simp
  · rw [keys_erase']; exact List.Pairwise.filter _ h

theorem mem_erase {β : Type} {m : List (Id × β)} {k : Id} {e : Id × β} (h : e ∈ erase m k) : e ∈ m := by
  unfold Mutable.AMap.erase at h
  exact (List.mem_filter.mp h).1

theorem modsOf_nodup {ms : List (Id × VMods)} (h : ModsNodup ms) (id : Id) : ((modsOf ms id).map (·.1)).Nodup := by
  unfold modsOf
  cases hg : get ms id with
  | none => simp
  | some m => exact h.2 (id, m) (get_some_mem hg)

theorem modsNodup_erase {ms : List (Id × VMods)} (h : ModsNodup ms) (id : Id) : ModsNodup (erase ms id) :=
  ⟨nodup_erase ms id h.1, fun e he => h.2 e (mem_erase he)⟩

theorem modsNodup_modsSet {ms : List (Id × VMods)} (h : ModsNodup ms) (id : Id) (k : Key) (m : VMod) :
    ModsNodup (modsSet ms id k m) := by
  unfold modsSet
  refine ⟨nodup_set ms id _ h.1, ?_⟩
  intro e he
  unfold Mutable.AMap.set at he
  rcases List.mem_cons.mp he with he | he
  · subst he; exact nodup_set' _ k m (modsOf_nodup h id)
  · exact h.2 e (mem_erase he)

theorem modsNodup_addTag {b : Base} {s : St} (h : ModsNodup s.mods) (id : Id) (t : Tag) :
    ModsNodup (s.addTag b id t).mods := by
  unfold St.addTag
  split
  · exact h
  · split
    · exact h
    · split
      · exact modsNodup_erase h id
      · exact modsNodup_modsSet h id _ _

theorem modsNodup_removeTag {b : Base} {s : St} (h : ModsNodup s.mods) (id : Id) (key : Key) :
    ModsNodup (s.removeTag b id key).mods := by
  unfold St.removeTag
  split
  · exact h
  · split
    · exact h
    · split
      · exact h
      · split
        · exact modsNodup_erase h id
        · exact modsNodup_modsSet h id _ _

theorem modsNodup_addFeature {b : Base} {s : St} (h : ModsNodup s.mods) (f : Feat) :
    ModsNodup (s.addFeature b f).mods := modsNodup_erase h f.id

/-- the invariant of the tables: features keyed by their own id; one entry per id and per key in the
modification table -/
def St.WF (s : St) : Prop := s.FeatsId ∧ ModsNodup s.mods

theorem wf_empty : St.empty.WF := ⟨featsId_empty, by simp [ModsNodup, St.empty]⟩

theorem baseTable_ids (fs : List Feat) : ∀ (m : List (Id × Feat)), (∀ id g, get m id = some g → g.id = id) →
    ∀ id g, get (fs.foldl (fun m f => set m f.id f) m) id = some g → g.id = id := by
  induction fs with
  | nil => intro m h; exact h
  | cons f rest ih =>
    intro m h
    simp only [List.foldl_cons]
    apply ih
    intro id g hg
    rw [get_set] at hg
    by_cases hi : id = f.id
    · simp [hi] at hg; subst hg; exact hi.symm
    · simp [hi] at hg; exact h id g hg

/-- a base built from a list of features hands out, under an id, a feature with that id -/
theorem baseOf_idsOK (fs : List Feat) : (baseOf fs).IdsOK := by
  intro id f h
  simp only [baseOf, baseTable] at h
  exact baseTable_ids fs [] (by intro id g hg; simp at hg) id f h

end B6.Model.ChangeExport
