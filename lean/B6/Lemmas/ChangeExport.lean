import B6.Model.ChangeExport
/-!
Helper lemmas for C18 about `B6.Model.ChangeExport` (core Lean only).

* association maps and tags (`get_tagSet`, `get_applyMods`: the same statements as C12's, for this model's
  structured values);
* the spec map `SMap` (feature id ⇀ (tag key ⇀ value) × body), the abstraction `abs` of an overlay state, and
  the per-operation refinement of `AddTag` / `RemoveTag` / accepted `AddFeature`;
* `importDocs` refines the document-by-document run on the spec map;
* the exported documents, run on the base's map, give the map of the exporting world.
-/
namespace B6.Model.ChangeExport
open B6.Model.Mutable (Id Key)
open B6.Model.Mutable.AMap (get set erase keys contains)

/-! ## association maps -/
section amap
variable {α : Type} {β : Type} [DecidableEq α]

@[simp] theorem get_nil (k : α) : get ([] : List (α × β)) k = none := rfl

theorem get_cons (k' : α) (v : β) (r : List (α × β)) (k : α) :
    get ((k', v) :: r) k = if k' = k then some v else get r k := rfl

theorem get_erase (m : List (α × β)) (k k' : α) :
    get (erase m k) k' = if k' = k then none else get m k' := by
  induction m with
  | nil => simp [erase]
  | cons e r ih =>
    obtain ⟨a, b⟩ := e
    unfold erase at ih ⊢
    by_cases hak : a = k
    · subst hak
      simp only [List.filter, ne_eq, not_true_eq_false, decide_false]
      rw [ih, get_cons]
      by_cases h : k' = a
      · subst h; simp
      · have : ¬ a = k' := fun h' => h h'.symm
        simp [h, this]
    · simp only [List.filter, ne_eq, hak, not_false_eq_true, decide_true]
      rw [get_cons, get_cons, ih]
      by_cases h : a = k'
      · subst h; simp [hak]
      · simp [h]

theorem get_set (m : List (α × β)) (k : α) (v : β) (k' : α) :
    get (set m k v) k' = if k' = k then some v else get m k' := by
  unfold Mutable.AMap.set
  rw [get_cons, get_erase]
  by_cases h : k = k'
  · subst h; simp
  · have : ¬ k' = k := fun h' => h h'.symm
    simp [h, this]

theorem contains_eq (m : List (α × β)) (k : α) : contains m k = (get m k).isSome := rfl

theorem get_none_of_not_mem {m : List (α × β)} {k : α} (h : k ∉ m.map (·.1)) : get m k = none := by
  induction m with
  | nil => rfl
  | cons e r ih =>
    obtain ⟨a, b⟩ := e
    simp only [List.map_cons, List.mem_cons, not_or] at h
    rw [get_cons]
    have : ¬ a = k := fun h' => h.1 h'.symm
    simp [this, ih h.2]

theorem get_some_mem {m : List (α × β)} {k : α} {v : β} (h : get m k = some v) : (k, v) ∈ m := by
  induction m with
  | nil => simp at h
  | cons e r ih =>
    obtain ⟨a, b⟩ := e
    rw [get_cons] at h
    by_cases hak : a = k
    · subst hak; simp at h; subst h; simp
    · simp [hak] at h; exact List.mem_cons_of_mem _ (ih h)

end amap

/-! ## tags -/

theorem get_tagSet (ts : List Tag) (t : Tag) (k : Key) :
    get (tagSet ts t) k = if k = t.1 then some t.2 else get ts k := by
  induction ts with
  | nil =>
    obtain ⟨a, b⟩ := t
    simp only [tagSet, get_cons, get_nil]
    by_cases h : a = k
    · subst h; simp
    · have : ¬ k = a := fun h' => h h'.symm
      simp [h, this]
  | cons e r ih =>
    obtain ⟨a, b⟩ := e
    simp only [tagSet]
    by_cases h : a = t.1
    · simp only [h, ↓reduceIte, get_cons]
      by_cases hk : t.1 = k
      · simp [hk]
      · have : ¬ k = t.1 := fun h' => hk h'.symm
        simp [hk, this]
    · simp only [h, ↓reduceIte, get_cons, ih]
      by_cases hk : a = k
      · subst hk; simp [h]
      · simp [hk]

theorem get_tagRemove (ts : List Tag) (k k' : Key) :
    get (tagRemove ts k) k' = if k' = k then none else get ts k' :=
  get_erase ts k k'

/-! ## modifications -/

theorem get_filterMap_mods (mods : VMods) (orig : List Tag) (k : Key) :
    get (orig.filterMap (modExisting mods)) k =
    match get mods k with
    | some (.set v) => if (get orig k).isSome then some v else none
    | some .del => none
    | none => get orig k := by
  induction orig with
  | nil => cases h : get mods k with
    | none => simp
    | some m => cases m <;> simp
  | cons e r ih =>
    obtain ⟨a, b⟩ := e
    simp only [List.filterMap_cons, modExisting]
    by_cases hak : a = k
    · subst hak
      cases h : get mods a with
      | none => simp [get_cons]
      | some m =>
        cases m with
        | set v => simp [get_cons]
        | del =>
          simp only [ih, h]
    · cases h : get mods a with
      | none =>
        simp only [get_cons, hak, ↓reduceIte, ih]
      | some m =>
        cases m with
        | set v => simp only [get_cons, hak, ↓reduceIte, ih]
        | del => simp only [ih, get_cons, hak, ↓reduceIte]

theorem get_filterMap_new (mods mods' : VMods) (orig : List Tag) (k : Key) :
    get (mods'.filterMap (modNew mods orig)) k =
    if (get mods' k).isSome then
      match get mods k with
      | some (.set v) => if (get orig k).isNone then some v else none
      | _ => none
    else none := by
  induction mods' with
  | nil => simp
  | cons e r ih =>
    obtain ⟨a, b⟩ := e
    simp only [List.filterMap_cons, modNew]
    by_cases hak : a = k
    · subst hak
      simp only [get_cons, ↓reduceIte, Option.isSome_some]
      cases h : get mods a with
      | none => simp only [ih, h]; split <;> rfl
      | some m =>
        cases m with
        | del => simp only [ih, h]; split <;> rfl
        | set v =>
          by_cases ho : (get orig a).isNone
          · simp [ho, get_cons]
          · simp only [ho, Bool.false_eq_true, ↓reduceIte, ih, h]; split <;> rfl
    · simp only [get_cons, hak, ↓reduceIte]
      cases h : get mods a with
      | none => simp only [ih]
      | some m =>
        cases m with
        | del => simp only [ih]
        | set v =>
          by_cases ho : (get orig a).isNone
          · simp only [ho, ↓reduceIte, get_cons, hak, ih]
          · simp only [ho, Bool.false_eq_true, ↓reduceIte, ih]

theorem get_append (a b : List Tag) (k : Key) :
    get (a ++ b) k = (get a k).or (get b k) := by
  induction a with
  | nil => simp
  | cons e r ih =>
    obtain ⟨x, y⟩ := e
    simp only [List.cons_append, get_cons]
    by_cases h : x = k
    · simp [h]
    · simp [h, ih]

/-- reading a tag through `modifyTags` = the recorded modification if there is one, else the original -/
theorem get_applyMods (mods : VMods) (orig : List Tag) (k : Key) :
    get (applyMods mods orig) k = modLookup (get mods k) (get orig k) := by
  unfold applyMods
  rw [get_append, get_filterMap_mods, get_filterMap_new]
  cases h : get mods k with
  | none => simp [modLookup]
  | some m =>
    cases m with
    | del => simp [modLookup]
    | set v =>
      cases ho : get orig k with
      | none => simp [modLookup]
      | some x => simp [modLookup]

theorem applyMods_nil (orig : List Tag) : applyMods [] orig = orig := by
  unfold applyMods
  simp only [List.filterMap_nil, List.append_nil]
  induction orig with
  | nil => rfl
  | cons e r ih => simp [modExisting, ih]

theorem modsOf_set (mods : List (Id × VMods)) (id : Id) (m : VMods) (id' : Id) :
    modsOf (set mods id m) id' = if id' = id then m else modsOf mods id' := by
  unfold modsOf
  rw [get_set]
  by_cases h : id' = id <;> simp [h]

theorem modsOf_erase (mods : List (Id × VMods)) (id id' : Id) :
    modsOf (erase mods id) id' = if id' = id then [] else modsOf mods id' := by
  unfold modsOf
  rw [get_erase]
  by_cases h : id' = id <;> simp [h]

theorem modsOf_modsSet (mods : List (Id × VMods)) (id : Id) (k : Key) (m : VMod) (id' : Id) :
    modsOf (modsSet mods id k m) id' =
      if id' = id then set (modsOf mods id) k m else modsOf mods id' := by
  unfold modsSet
  rw [modsOf_set]

/-! ## the spec map -/

/-- what a feature shows: its tags read by key, and its body -/
structure FeatView where
  tags : Key → Option V
  body : Body

theorem FeatView.ext' {a b : FeatView} (ht : ∀ k, a.tags k = b.tags k) (hb : a.body = b.body) : a = b := by
  cases a; cases b
  simp only [FeatView.mk.injEq]
  exact ⟨funext ht, hb⟩

/-- the spec: feature id ⇀ (tag key ⇀ value) × body -/
abbrev SMap := Id → Option FeatView

def viewOf (f : Feat) : FeatView := ⟨fun k => get f.tags k, f.body⟩

/-- the map a world denotes -/
def abs (b : Base) (s : St) : SMap := fun id => (s.find b id).map viewOf

def FeatView.setTag (fv : FeatView) (t : Tag) : FeatView :=
  ⟨fun k => if k = t.1 then some t.2 else fv.tags k, fv.body⟩

def FeatView.delTag (fv : FeatView) (key : Key) : FeatView :=
  ⟨fun k => if k = key then none else fv.tags k, fv.body⟩

/-- a feature is added or replaced -/
def SMap.addFeature (w : SMap) (f : Feat) : SMap := fun i => if i = f.id then some (viewOf f) else w i

/-- a tag is set on an existing feature; nothing happens for an unknown id -/
def SMap.addTag (w : SMap) (id : Id) (t : Tag) : SMap :=
  fun i => if i = id then (w i).map (fun fv => fv.setTag t) else w i

def SMap.removeTag (w : SMap) (id : Id) (key : Key) : SMap :=
  fun i => if i = id then (w i).map (fun fv => fv.delTag key) else w i

theorem viewOf_tagSet (f : Feat) (t : Tag) : viewOf { f with tags := tagSet f.tags t } = (viewOf f).setTag t := by
  apply FeatView.ext'
  · intro k; simp [viewOf, FeatView.setTag, get_tagSet]
  · rfl

theorem viewOf_tagRemove (f : Feat) (key : Key) :
    viewOf { f with tags := tagRemove f.tags key } = (viewOf f).delTag key := by
  apply FeatView.ext'
  · intro k; simp [viewOf, FeatView.delTag, get_tagRemove]
  · rfl

/-- a base feature seen through recorded modifications -/
def FeatView.withMods (fv : FeatView) (m : VMods) : FeatView :=
  ⟨fun k => modLookup (get m k) (fv.tags k), fv.body⟩

theorem viewOf_applyMods (f : Feat) (m : VMods) :
    viewOf { f with tags := applyMods m f.tags } = (viewOf f).withMods m := by
  apply FeatView.ext'
  · intro k; simp [viewOf, FeatView.withMods, get_applyMods]
  · rfl

theorem withMods_nil (fv : FeatView) : fv.withMods [] = fv := by
  apply FeatView.ext'
  · intro k; simp [FeatView.withMods, modLookup]
  · rfl

/-- `abs` in terms of the tables -/
theorem abs_eq (b : Base) (s : St) (id : Id) :
    abs b s id = match get s.feats id with
      | some f => some (viewOf f)
      | none => (b.find id).map (fun f => (viewOf f).withMods (modsOf s.mods id)) := by
  unfold abs St.find
  cases h : get s.feats id with
  | some f => simp
  | none => simp [Option.map_map, Function.comp_def, viewOf_applyMods]

/-! ## consistency of ids -/

/-- the feature found under an id carries that id -/
def Base.IdsOK (b : Base) : Prop := ∀ id f, b.find id = some f → f.id = id

def St.FeatsId (s : St) : Prop := ∀ id f, get s.feats id = some f → f.id = id

theorem find_id {b : Base} {s : St} (hb : b.IdsOK) (hs : s.FeatsId) {id : Id} {f : Feat}
    (h : s.find b id = some f) : f.id = id := by
  unfold St.find at h
  cases hf : get s.feats id with
  | some g => rw [hf] at h; simp at h; subst h; exact hs id g hf
  | none =>
    rw [hf] at h
    cases hb' : b.find id with
    | none => simp [hb'] at h
    | some g => simp [hb'] at h; subst h; exact hb id g hb'

theorem featsId_empty : St.empty.FeatsId := by
  intro id f h; simp [St.empty] at h

/-! ## `AddTag` -/

theorem abs_addTag (b : Base) (s : St) (id : Id) (t : Tag) :
    abs b (s.addTag b id t) = (abs b s).addTag id t := by
  funext i
  unfold St.addTag
  cases hf : get s.feats id with
  | some f =>
    simp only [SMap.addTag, abs_eq, get_set]
    by_cases hi : i = id
    · subst hi; simp [hf, viewOf_tagSet]
    · simp [hi]
  | none =>
    simp only
    cases hfind : s.find b id with
    | none =>
      simp only [SMap.addTag]
      by_cases hi : i = id
      · subst hi; simp [abs, hfind]
      · simp [hi]
    | some f =>
      simp only
      have hview : abs b s id = some (viewOf f) := by simp [abs, hfind]
      split
      · simp only [SMap.addTag]
        by_cases hi : i = id
        · subst hi; rw [hview]; simp [abs_eq, get_set, viewOf_tagSet]
        · simp [abs_eq, get_set, modsOf_erase, hi]
      · simp only [SMap.addTag]
        by_cases hi : i = id
        · subst hi
          have h2 := abs_eq b s i
          rw [hview, hf] at h2
          cases hb' : b.find i with
          | none => simp [hb'] at h2
          | some g =>
            simp only [hb', Option.map_some, Option.some.injEq] at h2
            rw [hview, abs_eq]
            simp only [hf, hb', Option.map_some, ↓reduceIte, Option.some.injEq]
            rw [h2]
            apply FeatView.ext'
            · intro k
              simp only [FeatView.withMods, FeatView.setTag, modsOf_modsSet, ↓reduceIte, get_set]
              by_cases hk : k = t.1 <;> simp [hk, modLookup]
            · rfl
        · simp [abs_eq, modsOf_modsSet, hi]

theorem featsId_addTag {b : Base} {s : St} (hb : b.IdsOK) (hs : s.FeatsId) (id : Id) (t : Tag) :
    (s.addTag b id t).FeatsId := by
  unfold St.addTag
  cases hf : get s.feats id with
  | some f =>
    intro i g hg
    simp only [get_set] at hg
    by_cases hi : i = id
    · subst hi; simp at hg; subst hg; exact hs i f hf
    · simp [hi] at hg; exact hs i g hg
  | none =>
    simp only
    cases hfind : s.find b id with
    | none => exact hs
    | some f =>
      simp only
      split
      · intro i g hg
        simp only [get_set] at hg
        by_cases hi : i = id
        · subst hi; simp at hg; subst hg; exact find_id hb hs (f := f) hfind
        · simp [hi] at hg; exact hs i g hg
      · exact hs

/-! ## `RemoveTag` -/

theorem delTag_of_none {fv : FeatView} {key : Key} (h : fv.tags key = none) : fv.delTag key = fv := by
  apply FeatView.ext'
  · intro k
    simp only [FeatView.delTag]
    by_cases hk : k = key
    · subst hk; simp [h]
    · simp [hk]
  · rfl

theorem abs_removeTag (b : Base) (s : St) (id : Id) (key : Key) :
    abs b (s.removeTag b id key) = (abs b s).removeTag id key := by
  funext i
  unfold St.removeTag
  cases hf : get s.feats id with
  | some f =>
    simp only [SMap.removeTag, abs_eq, get_set]
    by_cases hi : i = id
    · subst hi; simp [hf, viewOf_tagRemove]
    · simp [hi]
  | none =>
    simp only
    cases hfind : s.find b id with
    | none =>
      simp only [SMap.removeTag]
      by_cases hi : i = id
      · subst hi; simp [abs, hfind]
      · simp [hi]
    | some f =>
      simp only
      have hview : abs b s id = some (viewOf f) := by simp [abs, hfind]
      cases hk : get f.tags key with
      | none =>
        simp only [SMap.removeTag]
        by_cases hi : i = id
        · subst hi; rw [hview]
          simp only [↓reduceIte, Option.map_some, Option.some.injEq]
          exact (delTag_of_none (by simp [viewOf, hk])).symm
        · simp [hi]
      | some v =>
        simp only
        split
        · simp only [SMap.removeTag]
          by_cases hi : i = id
          · subst hi; rw [hview]; simp [abs_eq, get_set, viewOf_tagRemove]
          · simp [abs_eq, get_set, modsOf_erase, hi]
        · simp only [SMap.removeTag]
          by_cases hi : i = id
          · subst hi
            have h2 := abs_eq b s i
            rw [hview, hf] at h2
            cases hb' : b.find i with
            | none => simp [hb'] at h2
            | some g =>
              simp only [hb', Option.map_some, Option.some.injEq] at h2
              rw [hview, abs_eq]
              simp only [hf, hb', Option.map_some, ↓reduceIte, Option.some.injEq]
              rw [h2]
              apply FeatView.ext'
              · intro k
                simp only [FeatView.withMods, FeatView.delTag, modsOf_modsSet, ↓reduceIte, get_set]
                by_cases hk' : k = key <;> simp [hk', modLookup]
              · rfl
          · simp [abs_eq, modsOf_modsSet, hi]

theorem featsId_removeTag {b : Base} {s : St} (hb : b.IdsOK) (hs : s.FeatsId) (id : Id) (key : Key) :
    (s.removeTag b id key).FeatsId := by
  unfold St.removeTag
  cases hf : get s.feats id with
  | some f =>
    intro i g hg
    simp only [get_set] at hg
    by_cases hi : i = id
    · subst hi; simp at hg; subst hg; exact hs i f hf
    · simp [hi] at hg; exact hs i g hg
  | none =>
    simp only
    cases hfind : s.find b id with
    | none => exact hs
    | some f =>
      simp only
      cases hk : get f.tags key with
      | none => exact hs
      | some v =>
        simp only
        split
        · intro i g hg
          simp only [get_set] at hg
          by_cases hi : i = id
          · subst hi; simp at hg; subst hg; exact find_id hb hs (f := f) hfind
          · simp [hi] at hg; exact hs i g hg
        · exact hs

/-! ## accepted `AddFeature` -/

theorem copyFold_some (newId : Id) (rs : List Feat) :
    ∀ (feats : List (Id × Feat)) (id : Id) (g : Feat), get feats id = some g →
      get (rs.foldl (copyStep newId) feats) id = some g := by
  induction rs with
  | nil => intro feats id g h; exact h
  | cons r rest ih =>
    intro feats id g h
    simp only [List.foldl_cons]
    apply ih
    unfold copyStep
    split
    · exact h
    · rename_i hc
      rw [get_set]
      by_cases hi : id = r.id
      · subst hi
        simp only [contains_eq, h, Option.isSome_some, Bool.true_or, not_true_eq_false] at hc
      · simp [hi, h]

theorem copyFold_none (newId : Id) (rs : List Feat) :
    ∀ (feats : List (Id × Feat)) (id : Id), get feats id = none →
      get (rs.foldl (copyStep newId) feats) id = none ∨
      ∃ r, r ∈ rs ∧ r.id = id ∧ get (rs.foldl (copyStep newId) feats) id = some r := by
  induction rs with
  | nil => intro feats id h; exact Or.inl h
  | cons r rest ih =>
    intro feats id h
    simp only [List.foldl_cons]
    by_cases hstep : get (copyStep newId feats r) id = none
    · rcases ih _ id hstep with h1 | ⟨x, hx, hid, hg⟩
      · exact Or.inl h1
      · exact Or.inr ⟨x, List.mem_cons_of_mem _ hx, hid, hg⟩
    · -- the step itself copied `r` under `id`
      have hr : get (copyStep newId feats r) id = some r ∧ r.id = id := by
        unfold copyStep at hstep ⊢
        split at hstep
        · exact absurd h hstep
        · rename_i hc
          rw [if_neg hc]
          rw [get_set] at hstep ⊢
          by_cases hi : id = r.id
          · simp [hi]
          · simp [hi, h] at hstep
      exact Or.inr ⟨r, List.mem_cons_self, hr.2, copyFold_some newId rest _ id r hr.1⟩

theorem abs_commit {b : Base} {s : St} (f : Feat) (rs : List Feat)
    (hrs : ∀ r, r ∈ rs → s.find b r.id = some r) :
    abs b (s.commit f rs) = (abs b s).addFeature f := by
  funext i
  simp only [SMap.addFeature]
  by_cases hi : i = f.id
  · subst hi; simp [abs_eq, St.commit, get_set]
  · rw [if_neg hi, abs_eq, abs_eq]
    simp only [St.commit, get_set, if_neg hi, modsOf_erase]
    cases hg : get s.feats i with
    | some g => rw [copyFold_some f.id rs s.feats i g hg]
    | none =>
      rcases copyFold_none f.id rs s.feats i hg with h1 | ⟨r, hr, hid, h2⟩
      · rw [h1]
      · rw [h2]
        have hfind := hrs r hr
        rw [hid] at hfind
        have : abs b s i = some (viewOf r) := by simp [abs, hfind]
        rw [abs_eq, hg] at this
        simpa using this.symm

theorem featsId_copyFold (newId : Id) (rs : List Feat) :
    ∀ (feats : List (Id × Feat)), (∀ id g, get feats id = some g → g.id = id) →
      ∀ id g, get (rs.foldl (copyStep newId) feats) id = some g → g.id = id := by
  induction rs with
  | nil => intro feats h; exact h
  | cons r rest ih =>
    intro feats h
    simp only [List.foldl_cons]
    apply ih
    intro id g hg
    unfold copyStep at hg
    split at hg
    · exact h id g hg
    · rw [get_set] at hg
      by_cases hi : id = r.id
      · simp [hi] at hg; subst hg; exact hi.symm
      · simp [hi] at hg; exact h id g hg

theorem featsId_commit {s : St} (hs : s.FeatsId) (f : Feat) (rs : List Feat) : (s.commit f rs).FeatsId := by
  intro id g hg
  simp only [St.commit, get_set] at hg
  by_cases hi : id = f.id
  · simp [hi] at hg; subst hg; exact hi.symm
  · simp [hi] at hg
    exact featsId_copyFold f.id rs s.feats hs id g hg

theorem referrers_found {b : Base} {s : St} (hb : b.IdsOK) (hs : s.FeatsId) (ids : List Id) :
    ∀ r, r ∈ ids.filterMap (s.find b) → s.find b r.id = some r := by
  intro r hr
  rw [List.mem_filterMap] at hr
  obtain ⟨j, _, hj⟩ := hr
  have := find_id hb hs hj
  rw [this]; exact hj

theorem abs_addFeature {b : Base} {s : St} (hb : b.IdsOK) (hs : s.FeatsId) (f : Feat) :
    abs b (s.addFeature b f) = (abs b s).addFeature f :=
  abs_commit f _ (referrers_found hb hs _)

theorem featsId_addFeature {b : Base} {s : St} (hs : s.FeatsId) (f : Feat) : (s.addFeature b f).FeatsId :=
  featsId_commit hs f _

/-! ## documents on the spec map -/

def specDoc (w : SMap) : Doc → SMap
  | .feat f => w.addFeature f
  | .mods id add rm => rm.foldl (fun w k => w.removeTag id k) (add.foldl (fun w t => w.addTag id t) w)

def specRun (w : SMap) (docs : List Doc) : SMap := docs.foldl specDoc w

theorem foldl_addTag_refines {b : Base} (hb : b.IdsOK) (id : Id) (add : List Tag) :
    ∀ s : St, s.FeatsId →
      abs b (add.foldl (fun s t => s.addTag b id t) s) = add.foldl (fun w t => w.addTag id t) (abs b s) ∧
      (add.foldl (fun s t => s.addTag b id t) s).FeatsId := by
  induction add with
  | nil => intro s hs; exact ⟨rfl, hs⟩
  | cons t rest ih =>
    intro s hs
    simp only [List.foldl_cons]
    have := ih (s.addTag b id t) (featsId_addTag hb hs id t)
    rw [abs_addTag] at this
    exact this

theorem foldl_removeTag_refines {b : Base} (hb : b.IdsOK) (id : Id) (rm : List Key) :
    ∀ s : St, s.FeatsId →
      abs b (rm.foldl (fun s k => s.removeTag b id k) s) = rm.foldl (fun w k => w.removeTag id k) (abs b s) ∧
      (rm.foldl (fun s k => s.removeTag b id k) s).FeatsId := by
  induction rm with
  | nil => intro s hs; exact ⟨rfl, hs⟩
  | cons k rest ih =>
    intro s hs
    simp only [List.foldl_cons]
    have := ih (s.removeTag b id k) (featsId_removeTag hb hs id k)
    rw [abs_removeTag] at this
    exact this

theorem importDoc_refines {b : Base} {acc : St → Feat → Bool} (hb : b.IdsOK) {s s' : St} (hs : s.FeatsId)
    {d : Doc} (h : importDoc b acc s d = some s') : abs b s' = specDoc (abs b s) d ∧ s'.FeatsId := by
  cases d with
  | feat f =>
    simp only [importDoc] at h
    split at h
    · simp only [Option.some.injEq] at h; subst h
      exact ⟨abs_addFeature hb hs f, featsId_addFeature hs f⟩
    · simp at h
  | mods id add rm =>
    simp only [importDoc, Option.some.injEq] at h; subst h
    have h1 := foldl_addTag_refines hb id add s hs
    have h2 := foldl_removeTag_refines hb id rm _ h1.2
    refine ⟨?_, h2.2⟩
    rw [h2.1, h1.1]; rfl

/-- **import refines the spec run**: whatever `AddFeature` answers (`acc`), if `Apply` gets through all
documents the world it leaves denotes the map obtained by running the documents on the map -/
theorem importDocs_refines {b : Base} {acc : St → Feat → Bool} (hb : b.IdsOK) (docs : List Doc) :
    ∀ (s s' : St), s.FeatsId → importDocs b acc s docs = some s' →
      abs b s' = specRun (abs b s) docs ∧ s'.FeatsId := by
  induction docs with
  | nil => intro s s' hs h; simp only [importDocs, Option.some.injEq] at h; subst h; exact ⟨rfl, hs⟩
  | cons d rest ih =>
    intro s s' hs h
    simp only [importDocs] at h
    cases hd : importDoc b acc s d with
    | none => simp [hd] at h
    | some s1 =>
      rw [hd] at h
      have h1 := importDoc_refines hb hs hd
      have h2 := ih s1 s' h1.2 h
      refine ⟨?_, h2.2⟩
      rw [h2.1, h1.1]; rfl

/-! ## the exported documents, run on the base's map -/

theorem foldl_delTag_tags (l : List Key) : ∀ (g : FeatView) (k : Key),
    (l.foldl (fun fv key => fv.delTag key) g).tags k = if k ∈ l then none else g.tags k := by
  induction l with
  | nil => intro g k; simp
  | cons a rest ih =>
    intro g k
    simp only [List.foldl_cons, ih, List.mem_cons]
    by_cases hk : k ∈ rest
    · simp [hk]
    · by_cases ha : k = a
      · subst ha; simp [FeatView.delTag]
      · simp [hk, ha, FeatView.delTag]

theorem foldl_delTag_body (l : List Key) : ∀ (g : FeatView),
    (l.foldl (fun fv key => fv.delTag key) g).body = g.body := by
  induction l with
  | nil => intro g; rfl
  | cons a rest ih => intro g; simp only [List.foldl_cons, ih]; rfl

theorem foldl_setTag_tags (l : List Tag) (hn : (l.map (·.1)).Nodup) : ∀ (g : FeatView) (k : Key),
    (l.foldl (fun fv t => fv.setTag t) g).tags k = match get l k with
      | some v => some v
      | none => g.tags k := by
  induction l with
  | nil => intro g k; simp
  | cons t rest ih =>
    intro g k
    obtain ⟨a, v⟩ := t
    simp only [List.map_cons, List.nodup_cons] at hn
    simp only [List.foldl_cons, ih hn.2, get_cons]
    by_cases ha : a = k
    · subst ha
      rw [get_none_of_not_mem hn.1]
      simp [FeatView.setTag]
    · have : ¬ k = a := fun h => ha h.symm
      simp only [ha, ↓reduceIte]
      cases get rest k with
      | some x => rfl
      | none => simp [FeatView.setTag, this]

theorem foldl_setTag_body (l : List Tag) : ∀ (g : FeatView),
    (l.foldl (fun fv t => fv.setTag t) g).body = g.body := by
  induction l with
  | nil => intro g; rfl
  | cons a rest ih => intro g; simp only [List.foldl_cons, ih]; rfl

theorem keys_sets_subset (m : VMods) (k : Key) (h : k ∈ (sets m).map (·.1)) : k ∈ m.map (·.1) := by
  induction m with
  | nil => simp [sets] at h
  | cons e rest ih =>
    obtain ⟨a, x⟩ := e
    cases x with
    | set v =>
      simp only [sets, List.filterMap_cons, List.map_cons, List.mem_cons] at h ⊢
      rcases h with h | h
      · exact Or.inl h
      · exact Or.inr (ih h)
    | del =>
      simp only [sets, List.filterMap_cons, List.map_cons, List.mem_cons] at h ⊢
      exact Or.inr (ih h)

theorem nodup_sets (m : VMods) (hn : (m.map (·.1)).Nodup) : ((sets m).map (·.1)).Nodup := by
  induction m with
  | nil => simp [sets]
  | cons e rest ih =>
    obtain ⟨a, x⟩ := e
    simp only [List.map_cons, List.nodup_cons] at hn
    cases x with
    | set v =>
      simp only [sets, List.filterMap_cons, List.map_cons, List.nodup_cons]
      exact ⟨fun h => hn.1 (keys_sets_subset rest a h), ih hn.2⟩
    | del =>
      simp only [sets, List.filterMap_cons]
      exact ih hn.2

theorem get_sets (m : VMods) (hn : (m.map (·.1)).Nodup) (k : Key) :
    get (sets m) k = match get m k with
      | some (.set v) => some v
      | _ => none := by
  induction m with
  | nil => simp [sets]
  | cons e rest ih =>
    obtain ⟨a, x⟩ := e
    simp only [List.map_cons, List.nodup_cons] at hn
    by_cases ha : a = k
    · subst ha
      cases x with
      | set v => simp [sets, get_cons]
      | del =>
        simp only [sets, List.filterMap_cons, get_cons, ↓reduceIte]
        exact get_none_of_not_mem (fun h => hn.1 (keys_sets_subset rest a h))
    · cases x with
      | set v => simp only [sets, List.filterMap_cons, get_cons, ha, ↓reduceIte]; exact ih hn.2
      | del => simp only [sets, List.filterMap_cons, get_cons, ha, ↓reduceIte]; exact ih hn.2

theorem mem_dels (m : VMods) (hn : (m.map (·.1)).Nodup) (k : Key) :
    k ∈ dels m ↔ get m k = some .del := by
  induction m with
  | nil => simp [dels]
  | cons e rest ih =>
    obtain ⟨a, x⟩ := e
    simp only [List.map_cons, List.nodup_cons] at hn
    have hsub : ∀ k, k ∈ dels rest → k ∈ rest.map (·.1) := by
      intro k hk
      simp only [dels, List.mem_filterMap] at hk
      obtain ⟨e, he, hk⟩ := hk
      obtain ⟨a', x'⟩ := e
      cases x' with
      | set v => simp at hk
      | del => simp at hk; subst hk; exact List.mem_map.mpr ⟨(a', .del), he, rfl⟩
    by_cases ha : a = k
    · subst ha
      cases x with
      | set v =>
        simp only [dels, List.filterMap_cons, get_cons, ↓reduceIte]
        constructor
        · intro h; exact absurd (hsub a h) hn.1
        · intro h; simp at h
      | del => simp [dels, get_cons]
    · have hka : ¬ k = a := fun h => ha h.symm
      cases x with
      | set v => simp only [dels, List.filterMap_cons, get_cons, ha, ↓reduceIte]; exact ih hn.2
      | del => simp only [dels, List.filterMap_cons, List.mem_cons, hka, false_or, get_cons, ha, ↓reduceIte]; exact ih hn.2

/-- one `{id, add, remove}` document = the recorded modifications applied to that feature -/
theorem mods_doc_view (m : VMods) (hn : (m.map (·.1)).Nodup) (g : FeatView) :
    (dels m).foldl (fun fv key => fv.delTag key) ((sets m).foldl (fun fv t => fv.setTag t) g) = g.withMods m := by
  apply FeatView.ext'
  · intro k
    rw [foldl_delTag_tags, foldl_setTag_tags _ (nodup_sets m hn), get_sets m hn]
    simp only [FeatView.withMods]
    by_cases hd : k ∈ dels m
    · rw [(mem_dels m hn k).mp hd]; simp [hd, modLookup]
    · rw [if_neg hd]
      cases hg : get m k with
      | none => simp [modLookup]
      | some x =>
        cases x with
        | set v => simp [modLookup]
        | del => exact absurd ((mem_dels m hn k).mpr hg) hd
  · rw [foldl_delTag_body, foldl_setTag_body]; rfl

theorem foldl_addTag_apply (id : Id) (add : List Tag) : ∀ (w : SMap) (i : Id),
    (add.foldl (fun w t => w.addTag id t) w) i =
      if i = id then (w i).map (fun fv => add.foldl (fun fv t => fv.setTag t) fv) else w i := by
  induction add with
  | nil => intro w i; by_cases h : i = id <;> simp [h]
  | cons t rest ih =>
    intro w i
    simp only [List.foldl_cons, ih]
    by_cases h : i = id
    · simp [h, SMap.addTag, Option.map_map, Function.comp_def]
    · simp [h, SMap.addTag]

theorem foldl_removeTag_apply (id : Id) (rm : List Key) : ∀ (w : SMap) (i : Id),
    (rm.foldl (fun w k => w.removeTag id k) w) i =
      if i = id then (w i).map (fun fv => rm.foldl (fun fv k => fv.delTag k) fv) else w i := by
  induction rm with
  | nil => intro w i; by_cases h : i = id <;> simp [h]
  | cons t rest ih =>
    intro w i
    simp only [List.foldl_cons, ih]
    by_cases h : i = id
    · simp [h, SMap.removeTag, Option.map_map, Function.comp_def]
    · simp [h, SMap.removeTag]

theorem specDoc_mods (w : SMap) (id : Id) (m : VMods) (hn : (m.map (·.1)).Nodup) (i : Id) :
    specDoc w (.mods id (sets m) (dels m)) i = if i = id then (w i).map (fun fv => fv.withMods m) else w i := by
  simp only [specDoc, foldl_removeTag_apply, foldl_addTag_apply]
  by_cases h : i = id
  · simp only [h, ↓reduceIte, Option.map_map, Function.comp_def]
    congr 1
    funext fv
    exact mods_doc_view m hn fv
  · simp [h]

/-- ids of the modification table are distinct, and so are the keys recorded per id (Go maps) -/
def ModsNodup (ms : List (Id × VMods)) : Prop :=
  (ms.map (·.1)).Nodup ∧ ∀ e, e ∈ ms → (e.2.map (·.1)).Nodup

theorem specRun_exportMods (ms : List (Id × VMods)) (h : ModsNodup ms) : ∀ (w : SMap) (i : Id),
    specRun w (exportMods ms) i = (w i).map (fun fv => fv.withMods (modsOf ms i)) := by
  induction ms with
  | nil =>
    intro w i
    simp only [exportMods, List.filterMap_nil, specRun, List.foldl_nil, modsOf, get_nil]
    cases w i with
    | none => rfl
    | some fv => simp [withMods_nil]
  | cons e rest ih =>
    intro w i
    obtain ⟨a, m⟩ := e
    have hrest : ModsNodup rest := by
      refine ⟨?_, fun e he => h.2 e (List.mem_cons_of_mem _ he)⟩
      have := h.1
      simp only [List.map_cons, List.nodup_cons] at this
      exact this.2
    have ha : a ∉ rest.map (·.1) := by
      have := h.1
      simp only [List.map_cons, List.nodup_cons] at this
      exact this.1
    have hm : (m.map (·.1)).Nodup := h.2 (a, m) List.mem_cons_self
    -- the map after the head's document (or after nothing, when the head records nothing)
    have hstep : ∀ j, (if m.isEmpty then w else specDoc w (.mods a (sets m) (dels m))) j =
        if j = a then (w j).map (fun fv => fv.withMods m) else w j := by
      intro j
      by_cases hme : m.isEmpty
      · have : m = [] := List.isEmpty_iff.mp hme
        subst this
        by_cases hj : j = a
        · simp only [List.isEmpty_nil, ↓reduceIte, hj]
          cases w a with
          | none => rfl
          | some fv => simp [withMods_nil]
        · simp [hj]
      · simp only [hme, Bool.false_eq_true, ↓reduceIte]
        exact specDoc_mods w a m hm j
    have hrun : specRun w (exportMods ((a, m) :: rest)) =
        specRun (if m.isEmpty then w else specDoc w (.mods a (sets m) (dels m))) (exportMods rest) := by
      simp only [exportMods, List.filterMap_cons, specRun]
      by_cases hme : m.isEmpty <;> simp [hme]
    rw [hrun, ih hrest, hstep]
    by_cases hi : i = a
    · subst hi
      have : modsOf rest i = [] := by unfold modsOf; rw [get_none_of_not_mem ha]
      rw [this]
      simp only [↓reduceIte, modsOf, get_cons, Option.map_map, Function.comp_def]
      cases w i with
      | none => rfl
      | some fv => simp [withMods_nil]
    · have : ¬ a = i := fun h => hi h.symm
      simp [hi, modsOf, get_cons, this]

theorem specRun_exportFeats {s : St} (hs : s.FeatsId) (ord : List Id) : ∀ (w : SMap) (i : Id),
    specRun w (exportFeats s ord) i =
      if i ∈ ord then (match get s.feats i with
        | some f => some (viewOf f)
        | none => w i) else w i := by
  induction ord with
  | nil => intro w i; simp [exportFeats, specRun]
  | cons a rest ih =>
    intro w i
    cases hg : get s.feats a with
    | none =>
      have : exportFeats s (a :: rest) = exportFeats s rest := by
        simp [exportFeats, hg]
      rw [this, ih]
      by_cases hi : i = a
      · subst hi; simp [hg]
      · simp [hi]
    | some f =>
      have hid : f.id = a := hs a f hg
      have : specRun w (exportFeats s (a :: rest)) = specRun (w.addFeature f) (exportFeats s rest) := by
        simp [exportFeats, hg, specRun, specDoc]
      rw [this, ih]
      by_cases hi : i = a
      · subst hi; simp [hg, SMap.addFeature, hid]
      · simp [hi, SMap.addFeature, hid]

theorem abs_empty (b : Base) (i : Id) : abs b St.empty i = (b.find i).map viewOf := by
  rw [abs_eq]
  simp only [St.empty, get_nil, modsOf]
  cases b.find i with
  | none => rfl
  | some f => simp [withMods_nil]

/-- pointwise: the exported documents give the exporting world's view of `i`, provided `i` is listed if it
is one of the overlay's features -/
theorem export_spec_at (b : Base) {s : St} (hs : s.FeatsId) (hm : ModsNodup s.mods) (ord : List Id) (i : Id)
    (hcov : (get s.feats i).isSome → i ∈ ord) :
    specRun (abs b St.empty) (exportDocs s ord) i = abs b s i := by
  have happ : specRun (abs b St.empty) (exportDocs s ord) =
      specRun (specRun (abs b St.empty) (exportMods s.mods)) (exportFeats s ord) := by
    simp [exportDocs, specRun, List.foldl_append]
  rw [happ, specRun_exportFeats hs, specRun_exportMods s.mods hm, abs_empty, abs_eq]
  cases hg : get s.feats i with
  | some f => simp [hcov (by simp [hg])]
  | none =>
    simp only [Option.map_map, Function.comp_def]
    split <;> rfl

/-- **the exported documents reproduce the map**: run on the map of the bare base, the documents exported
from a world give that world's map — for every order that lists all of the overlay's features -/
theorem export_spec (b : Base) {s : St} (hs : s.FeatsId) (hm : ModsNodup s.mods) (ord : List Id)
    (hcov : ∀ i, (get s.feats i).isSome → i ∈ ord) :
    specRun (abs b St.empty) (exportDocs s ord) = abs b s := by
  funext i
  exact export_spec_at b hs hm ord i (hcov i)

/-! ## the tables stay maps -/

theorem keys_erase {β : Type} (m : List (Id × β)) (k : Id) :
    (erase m k).map (·.1) = (m.map (·.1)).filter (fun x => decide (x ≠ k)) := by
  unfold Mutable.AMap.erase
  rw [List.filter_map]
  rfl

theorem keys_erase' {β : Type} (m : List (Key × β)) (k : Key) :
    (erase m k).map (·.1) = (m.map (·.1)).filter (fun x => decide (x ≠ k)) := by
  unfold Mutable.AMap.erase
  rw [List.filter_map]
  rfl

theorem nodup_erase {β : Type} (m : List (Id × β)) (k : Id) (h : (m.map (·.1)).Nodup) :
    ((erase m k).map (·.1)).Nodup := by
  rw [keys_erase]; exact List.Pairwise.filter _ h

theorem nodup_set {β : Type} (m : List (Id × β)) (k : Id) (v : β) (h : (m.map (·.1)).Nodup) :
    ((set m k v).map (·.1)).Nodup := by
  unfold Mutable.AMap.set
  simp only [List.map_cons, List.nodup_cons]
  refine ⟨?_, nodup_erase m k h⟩
  rw [keys_erase]
  simp

theorem nodup_set' {β : Type} (m : List (Key × β)) (k : Key) (v : β) (h : (m.map (·.1)).Nodup) :
    ((set m k v).map (·.1)).Nodup := by
  unfold Mutable.AMap.set
  simp only [List.map_cons, List.nodup_cons]
  refine ⟨?_, ?_⟩
  · rw [keys_erase']; simp
  · rw [keys_erase']; exact List.Pairwise.filter _ h

theorem mem_erase {β : Type} {m : List (Id × β)} {k : Id} {e : Id × β} (h : e ∈ erase m k) : e ∈ m := by
  unfold Mutable.AMap.erase at h
  exact (List.mem_filter.mp h).1

theorem modsOf_nodup {ms : List (Id × VMods)} (h : ModsNodup ms) (id : Id) : ((modsOf ms id).map (·.1)).Nodup := by
  unfold modsOf
  cases hg : get ms id with
  | none => simp
  | some m => exact h.2 (id, m) (get_some_mem hg)

theorem modsNodup_erase {ms : List (Id × VMods)} (h : ModsNodup ms) (id : Id) : ModsNodup (erase ms id) :=
  ⟨nodup_erase ms id h.1, fun e he => h.2 e (mem_erase he)⟩

theorem modsNodup_modsSet {ms : List (Id × VMods)} (h : ModsNodup ms) (id : Id) (k : Key) (m : VMod) :
    ModsNodup (modsSet ms id k m) := by
  unfold modsSet
  refine ⟨nodup_set ms id _ h.1, ?_⟩
  intro e he
  unfold Mutable.AMap.set at he
  rcases List.mem_cons.mp he with he | he
  · subst he; exact nodup_set' _ k m (modsOf_nodup h id)
  · exact h.2 e (mem_erase he)

theorem modsNodup_addTag {b : Base} {s : St} (h : ModsNodup s.mods) (id : Id) (t : Tag) :
    ModsNodup (s.addTag b id t).mods := by
  unfold St.addTag
  split
  · exact h
  · split
    · exact h
    · split
      · exact modsNodup_erase h id
      · exact modsNodup_modsSet h id _ _

theorem modsNodup_removeTag {b : Base} {s : St} (h : ModsNodup s.mods) (id : Id) (key : Key) :
    ModsNodup (s.removeTag b id key).mods := by
  unfold St.removeTag
  split
  · exact h
  · split
    · exact h
    · split
      · exact h
      · split
        · exact modsNodup_erase h id
        · exact modsNodup_modsSet h id _ _

theorem modsNodup_addFeature {b : Base} {s : St} (h : ModsNodup s.mods) (f : Feat) :
    ModsNodup (s.addFeature b f).mods := modsNodup_erase h f.id

/-- the invariant of the tables: features keyed by their own id; one entry per id and per key in the
modification table -/
def St.WF (s : St) : Prop := s.FeatsId ∧ ModsNodup s.mods

theorem wf_empty : St.empty.WF := ⟨featsId_empty, by simp [ModsNodup, St.empty]⟩

theorem baseTable_ids (fs : List Feat) : ∀ (m : List (Id × Feat)), (∀ id g, get m id = some g → g.id = id) →
    ∀ id g, get (fs.foldl (fun m f => set m f.id f) m) id = some g → g.id = id := by
  induction fs with
  | nil => intro m h; exact h
  | cons f rest ih =>
    intro m h
    simp only [List.foldl_cons]
    apply ih
    intro id g hg
    rw [get_set] at hg
    by_cases hi : id = f.id
    · simp [hi] at hg; subst hg; exact hi.symm
    · simp [hi] at hg; exact h id g hg

/-- a base built from a list of features hands out, under an id, a feature with that id -/
theorem baseOf_idsOK (fs : List Feat) : (baseOf fs).IdsOK := by
  intro id f h
  simp only [baseOf, baseTable] at h
  exact baseTable_ids fs [] (by intro id g hg; simp at hg) id f h

/-! ## whether a feature's own references resolve depends only on what the world shows for them -/

theorem hasLoc_congr {find1 find2 : Id → Option Feat} {id : Id}
    (h : (find1 id).map viewOf = (find2 id).map viewOf) : hasLoc find1 id = hasLoc find2 id := by
  unfold hasLoc
  cases h1 : find1 id with
  | none =>
    cases h2 : find2 id with
    | none => rfl
    | some g => simp [h1, h2] at h
  | some f =>
    cases h2 : find2 id with
    | none => simp [h1, h2] at h
    | some g =>
      simp only [h1, h2, Option.map_some, Option.some.injEq] at h
      have ht := congrArg (fun fv => fv.tags "point") h
      have hb := congrArg (fun fv => fv.body) h
      simp only [viewOf] at ht hb
      simp only [ht, hb]

theorem any_congr {α : Type} (l : List α) (p q : α → Bool) (h : ∀ a, a ∈ l → p a = q a) : l.any p = l.any q := by
  induction l with
  | nil => rfl
  | cons a r ih =>
    simp only [List.any_cons, h a List.mem_cons_self, ih (fun x hx => h x (List.mem_cons_of_mem _ hx))]

theorem validatePath_congr (loc1 loc2 : Id → Bool) (tags : List Tag)
    (h : ∀ as, pathElems tags = some as → ∀ r, r ∈ as.filterMap atomRef → loc1 r = loc2 r) :
    validatePath loc1 tags = validatePath loc2 tags := by
  unfold validatePath
  split
  · rfl
  · cases hp : pathElems tags with
    | none => rfl
    | some as =>
      simp only
      have : as.any (missingRef loc1) = as.any (missingRef loc2) := by
        apply any_congr
        intro a ha
        unfold missingRef
        cases hr : atomRef a with
        | none => rfl
        | some id =>
          simp only
          rw [h as hp id (List.mem_filterMap.mpr ⟨a, ha, hr⟩)]
      rw [this]

theorem validateAreaPath_missing (find : Id → Option Feat) (id : Id) :
    validateAreaPath find id = .missing ↔ find id = none := by
  unfold validateAreaPath
  cases h : find id with
  | none => simp
  | some p =>
    simp only
    constructor
    · intro hm
      split at hm
      · simp at hm
      · split at hm
        · simp at hm
        · split at hm
          · simp at hm
          · split at hm
            · simp at hm
            · split at hm <;> simp at hm
    · intro hm; simp at hm

theorem validateArea_missing (find : Id → Option Feat) (ps : List Poly) :
    validateArea find ps = .missing ↔ ∃ id, id ∈ ps.flatMap polyPaths ∧ find id = none := by
  unfold validateArea
  simp only
  constructor
  · intro h
    split at h
    · rename_i hc
      simp only [List.contains_iff_mem, List.mem_map] at hc
      obtain ⟨id, hid, hv⟩ := hc
      exact ⟨id, hid, (validateAreaPath_missing find id).mp hv⟩
    · split at h <;> simp at h
  · intro ⟨id, hid, hnone⟩
    have : ((ps.flatMap polyPaths).map (validateAreaPath find)).contains Verd.missing = true := by
      simp only [List.contains_iff_mem, List.mem_map]
      exact ⟨id, hid, (validateAreaPath_missing find id).mpr hnone⟩
    rw [if_pos this]

/-- a feature with a path or area id has the matching body (what `WrapFeature` asserts) -/
def Feat.Typed (f : Feat) : Prop :=
  (idType f.id = 1 → f.body = .generic) ∧ (idType f.id = 2 → ∃ ps, f.body = .area ps)

/-- **`missing` is a function of the references.** If two worlds show the same for every reference of `f`,
`ValidateFeature` reports a missing reference in one iff in the other. -/
theorem missing_congr (find1 find2 : Id → Option Feat) (f : Feat) (ht : f.Typed)
    (h : ∀ r, r ∈ refsOf f → (find1 r).map viewOf = (find2 r).map viewOf) :
    validateFeature find1 f = .missing ↔ validateFeature find2 f = .missing := by
  unfold validateFeature
  split
  · -- a path
    rename_i h1
    have hb : f.body = .generic := ht.1 (by simpa using h1)
    have : validatePath (hasLoc find1) f.tags = validatePath (hasLoc find2) f.tags := by
      apply validatePath_congr
      intro as hp r hr
      apply hasLoc_congr
      apply h
      simp only [refsOf, hb, hp]; exact hr
    rw [this]
  · split
    · rename_i h2
      obtain ⟨ps, hb⟩ := ht.2 (by simpa using h2)
      simp only [hb]
      rw [validateArea_missing, validateArea_missing]
      have hrefs : refsOf f = ps.flatMap polyPaths := by simp [refsOf, hb]
      constructor
      · intro ⟨id, hid, hn⟩
        refine ⟨id, hid, ?_⟩
        have := h id (hrefs ▸ hid)
        rw [hn] at this
        cases h2 : find2 id with
        | none => rfl
        | some g => simp [h2] at this
      · intro ⟨id, hid, hn⟩
        refine ⟨id, hid, ?_⟩
        have := h id (hrefs ▸ hid)
        rw [hn] at this
        cases h1 : find1 id with
        | none => rfl
        | some g => simp [h1] at this
    · simp

/-! ## the export rank rises strictly along references (acyclic overlays) -/

theorem mem_dedupKeys (l : List RefKey) (k : RefKey) : k ∈ dedupKeys l ↔ k ∈ l := by
  induction l with
  | nil => simp [dedupKeys]
  | cons x r ih =>
    simp only [dedupKeys]
    split
    · rename_i hc
      rw [ih, List.mem_cons]
      constructor
      · exact Or.inr
      · intro h
        rcases h with h | h
        · subst h; exact List.contains_iff_mem.mp hc
        · exact h
    · simp only [List.mem_cons, ih]

theorem nodup_dedupKeys (l : List RefKey) : (dedupKeys l).Nodup := by
  induction l with
  | nil => simp [dedupKeys]
  | cons x r ih =>
    simp only [dedupKeys]
    split
    · exact ih
    · rename_i hc
      rw [List.nodup_cons]
      refine ⟨?_, ih⟩
      rw [mem_dedupKeys]
      intro h
      exact hc (List.contains_iff_mem.mpr h)

/-- pigeonhole: a duplicate-free list inside another list is not longer -/
theorem nodup_subset_length {α : Type} [DecidableEq α] (l : List α) (hn : l.Nodup) :
    ∀ (m : List α), (∀ x, x ∈ l → x ∈ m) → l.length ≤ m.length := by
  induction l with
  | nil => intro m _; simp
  | cons a r ih =>
    intro m hsub
    rw [List.nodup_cons] at hn
    have ha : a ∈ m := hsub a List.mem_cons_self
    have hr : ∀ x, x ∈ r → x ∈ m.erase a := by
      intro x hx
      have hne : x ≠ a := fun h => hn.1 (h ▸ hx)
      exact (List.mem_erase_of_ne hne).mpr (hsub x (List.mem_cons_of_mem _ hx))
    have := ih hn.2 (m.erase a) hr
    rw [List.length_erase_of_mem ha] at this
    have hpos : 0 < m.length := List.length_pos_of_mem ha
    simp only [List.length_cons]
    omega

theorem dedup_length_lt (S T : List RefKey) (hsub : ∀ k, k ∈ S → k ∈ T) (x : RefKey) (hxT : x ∈ T)
    (hxS : x ∉ S) : (dedupKeys S).length < (dedupKeys T).length := by
  have hn : (x :: dedupKeys S).Nodup := by
    rw [List.nodup_cons]
    exact ⟨fun h => hxS ((mem_dedupKeys S x).mp h), nodup_dedupKeys S⟩
  have := nodup_subset_length (x :: dedupKeys S) hn (dedupKeys T) (by
    intro k hk
    rw [mem_dedupKeys]
    rcases List.mem_cons.mp hk with h | h
    · subst h; exact hxT
    · exact hsub k ((mem_dedupKeys S k).mp h))
  simp only [List.length_cons] at this
  omega

theorem mem_reach_succ (s : St) (n : Nat) (t : Id) (k : RefKey) :
    k ∈ reach s (n + 1) t ↔ k ∈ directKeys s t ∨ ∃ k', k' ∈ directKeys s t ∧ k ∈ reach s n k'.1 := by
  simp only [reach, List.mem_append, List.mem_flatMap]

theorem reach_mono (s : St) (k : RefKey) : ∀ (n : Nat) (t : Id), k ∈ reach s n t → k ∈ reach s (n + 1) t := by
  intro n
  induction n with
  | zero => intro t h; simp [reach] at h
  | succ n ih =>
    intro t h
    rw [mem_reach_succ] at h ⊢
    rcases h with h | ⟨k', hk', h⟩
    · exact Or.inl h
    · exact Or.inr ⟨k', hk', ih _ h⟩

theorem reach_mono_le (s : St) (k : RefKey) (t : Id) {n m : Nat} (hnm : n ≤ m) (h : k ∈ reach s n t) :
    k ∈ reach s m t := by
  induction hnm with
  | refl => exact h
  | step _ ih => exact reach_mono s k _ t ih

/-- the sources recorded for a target are overlay features that refer to it -/
theorem mem_directKeys {s : St} {t : Id} {k : RefKey} (h : k ∈ directKeys s t) :
    ∃ e, e ∈ s.feats ∧ e.2.id = k.1 ∧ t ∈ refsOf e.2 := by
  simp only [directKeys, List.mem_filterMap] at h
  obtain ⟨e, he, hk⟩ := h
  split at hk
  · rename_i hc
    simp only [Option.some.injEq] at hk
    subst hk
    exact ⟨e, he, rfl, List.contains_iff_mem.mp hc⟩
  · simp at hk

/-- a height: every overlay feature sits strictly below what it refers to -/
def Height (s : St) (h : Id → Nat) : Prop := ∀ e, e ∈ s.feats → ∀ t, t ∈ refsOf e.2 → h e.2.id < h t

theorem reach_below {s : St} {h : Id → Nat} (hh : Height s h) (k : RefKey) :
    ∀ (n : Nat) (t : Id), k ∈ reach s n t → h k.1 < h t := by
  intro n
  induction n with
  | zero => intro t hk; simp [reach] at hk
  | succ n ih =>
    intro t hk
    rw [mem_reach_succ] at hk
    rcases hk with hk | ⟨k', hk', hk⟩
    · obtain ⟨e, he, hid, ht⟩ := mem_directKeys hk
      rw [← hid]; exact hh e he t ht
    · obtain ⟨e, he, hid, ht⟩ := mem_directKeys hk'
      have h1 := ih _ hk
      have h2 := hh e he t ht
      rw [hid] at h2
      omega

/-- depth `h t` is enough to reach everything that can be reached from `t` -/
theorem reach_bounded {s : St} {h : Id → Nat} (hh : Height s h) (k : RefKey) :
    ∀ (n : Nat) (t : Id), k ∈ reach s n t → k ∈ reach s (h t) t := by
  intro n
  induction n with
  | zero => intro t hk; simp [reach] at hk
  | succ n ih =>
    intro t hk
    rw [mem_reach_succ] at hk
    rcases hk with hk | ⟨k', hk', hk⟩
    · obtain ⟨e, he, hid, ht⟩ := mem_directKeys hk
      have hpos : 0 < h t := Nat.lt_of_le_of_lt (Nat.zero_le _) (hh e he t ht)
      obtain ⟨m, hm⟩ : ∃ m, h t = m + 1 := ⟨h t - 1, by omega⟩
      rw [hm, mem_reach_succ]; exact Or.inl hk
    · obtain ⟨e, he, hid, ht⟩ := mem_directKeys hk'
      have hlt : h k'.1 < h t := by rw [← hid]; exact hh e he t ht
      obtain ⟨m, hm⟩ : ∃ m, h t = m + 1 := ⟨h t - 1, by omega⟩
      rw [hm, mem_reach_succ]
      exact Or.inr ⟨k', hk', reach_mono_le s k _ (by omega) (ih _ hk)⟩

/-- **the export rank rises strictly along references.** If the overlay's references are acyclic — there
is a height bounded by the closure's fuel — then a feature `e` of the overlay has a strictly smaller rank
than anything it refers to. -/
theorem rank_lt_of_ref {s : St} {h : Id → Nat} (hh : Height s h) (hb : ∀ t, h t < s.fuel)
    (e : Id × Feat) (he : e ∈ s.feats) (t : Id) (ht : t ∈ refsOf e.2) :
    rank s e.2.id < rank s t := by
  unfold rank
  let x : RefKey := (e.2.id, if indexedRefs e.2 then some t else none)
  have hx : x ∈ directKeys s t := by
    simp only [directKeys, List.mem_filterMap]
    exact ⟨e, he, by simp [x, ht]⟩
  obtain ⟨m, hm⟩ : ∃ m, s.fuel = m + 1 := ⟨s.feats.length, rfl⟩
  apply dedup_length_lt _ _ _ x
  · rw [hm, mem_reach_succ]; exact Or.inl hx
  · intro hxa
    have : h e.2.id < h e.2.id := reach_below hh x _ _ hxa
    omega
  · intro k hk
    have h1 := reach_bounded hh k _ _ hk
    have hlt : h e.2.id < h t := hh e he t ht
    have hbt := hb t
    rw [hm, mem_reach_succ]
    exact Or.inr ⟨x, hx, reach_mono_le s k _ (by show h e.2.id ≤ m; omega) h1⟩

/-! ## the order the export picks -/

theorem mem_insertByRank (s : St) (id : Id) (l : List Id) (z : Id) :
    z ∈ insertByRank s id l ↔ z = id ∨ z ∈ l := by
  induction l with
  | nil => simp [insertByRank]
  | cons y r ih =>
    simp only [insertByRank]
    split
    · simp
    · simp only [List.mem_cons, ih]
      constructor
      · rintro (h | h | h)
        · exact Or.inr (Or.inl h)
        · exact Or.inl h
        · exact Or.inr (Or.inr h)
      · rintro (h | h | h)
        · exact Or.inr (Or.inl h)
        · exact Or.inl h
        · exact Or.inr (Or.inr h)

theorem insertByRank_sorted (s : St) (id : Id) (l : List Id)
    (h : l.Pairwise (fun x y => rank s x ≥ rank s y)) :
    (insertByRank s id l).Pairwise (fun x y => rank s x ≥ rank s y) := by
  induction l with
  | nil => simp [insertByRank]
  | cons y r ih =>
    rw [List.pairwise_cons] at h
    simp only [insertByRank]
    split
    · rename_i hc
      have hge : rank s id ≥ rank s y := by
        simp only [Bool.or_eq_true, decide_eq_true_eq, Bool.and_eq_true, beq_iff_eq] at hc
        rcases hc with hc | hc <;> omega
      rw [List.pairwise_cons, List.pairwise_cons]
      refine ⟨?_, h.1, h.2⟩
      intro z hz
      rcases List.mem_cons.mp hz with hz | hz
      · subst hz; exact hge
      · have := h.1 z hz; omega
    · rename_i hc
      have hle : rank s id ≤ rank s y := by
        simp only [Bool.or_eq_true, decide_eq_true_eq, Bool.and_eq_true, beq_iff_eq, not_or] at hc
        omega
      rw [List.pairwise_cons]
      refine ⟨?_, ih h.2⟩
      intro z hz
      rcases (mem_insertByRank s id r z).mp hz with hz | hz
      · subst hz; exact hle
      · exact h.1 z hz

theorem foldl_insertByRank (s : St) (ks : List Id) : ∀ (acc : List Id),
    acc.Pairwise (fun x y => rank s x ≥ rank s y) →
    (ks.foldl (fun acc id => insertByRank s id acc) acc).Pairwise (fun x y => rank s x ≥ rank s y) ∧
    ∀ z, z ∈ ks.foldl (fun acc id => insertByRank s id acc) acc ↔ z ∈ ks ∨ z ∈ acc := by
  induction ks with
  | nil => intro acc h; exact ⟨h, by simp⟩
  | cons k r ih =>
    intro acc h
    simp only [List.foldl_cons]
    have := ih (insertByRank s k acc) (insertByRank_sorted s k acc h)
    refine ⟨this.1, ?_⟩
    intro z
    rw [this.2, mem_insertByRank, List.mem_cons]
    constructor
    · rintro (h | h | h)
      · exact Or.inl (Or.inr h)
      · exact Or.inl (Or.inl h)
      · exact Or.inr h
    · rintro ((h | h) | h)
      · exact Or.inr (Or.inl h)
      · exact Or.inl h
      · exact Or.inr (Or.inr h)

/-- the order the export picks is sorted by rank, largest first -/
theorem exportOrder_sorted (s : St) : (exportOrder s).Pairwise (fun x y => rank s x ≥ rank s y) :=
  (foldl_insertByRank s _ [] List.Pairwise.nil).1

/-- … and lists every feature of the overlay -/
theorem exportOrder_covers (s : St) (i : Id) (h : (get s.feats i).isSome) : i ∈ exportOrder s := by
  rw [exportOrder, (foldl_insertByRank s _ [] List.Pairwise.nil).2]
  refine Or.inl ?_
  simp only [Mutable.AMap.keys]
  apply Classical.byContradiction
  intro hn
  rw [get_none_of_not_mem hn] at h
  simp at h

/-! ## when `Apply` gets through -/

theorem docsValid_cons (b : Base) (acc : St → Feat → Bool) (s : St) (d : Doc) (r : List Doc) :
    docsValid b acc s (d :: r) = ((match d with
      | .feat f => acc s f
      | .mods .. => true) && docsValid b acc (rebuildDoc b s d) r) := by
  cases d with
  | feat f => rfl
  | mods id add rm => simp [docsValid]

/-- `Apply` returns the rebuilt world exactly when `docsValid` holds, and an error otherwise -/
theorem importDocs_eq (b : Base) (acc : St → Feat → Bool) : ∀ (docs : List Doc) (s : St),
    importDocs b acc s docs = if docsValid b acc s docs then some (rebuild b s docs) else none := by
  intro docs
  induction docs with
  | nil => intro s; simp [importDocs, docsValid, rebuild]
  | cons d r ih =>
    intro s
    cases d with
    | feat f =>
      simp only [importDocs, importDoc, docsValid]
      by_cases ha : acc s f = true
      · simp only [ha, ↓reduceIte, Bool.true_and]
        rw [ih]; rfl
      · simp [ha]
    | mods id add rm =>
      simp only [importDocs, importDoc, docsValid]
      rw [ih]; rfl

theorem rebuild_cons (b : Base) (s : St) (d : Doc) (r : List Doc) :
    rebuild b s (d :: r) = rebuild b (rebuildDoc b s d) r := rfl

/-- `docsValid` spelled out: every feature document is accepted in the world rebuilt from the documents
before it -/
theorem docsValid_iff (b : Base) (acc : St → Feat → Bool) : ∀ (docs : List Doc) (s : St),
    docsValid b acc s docs = true ↔
      ∀ d1 f d2, docs = d1 ++ Doc.feat f :: d2 → acc (rebuild b s d1) f = true := by
  intro docs
  induction docs with
  | nil =>
    intro s
    simp only [docsValid, true_iff]
    intro d1 f d2 h
    cases d1 <;> simp at h
  | cons d r ih =>
    intro s
    rw [docsValid_cons, Bool.and_eq_true, ih]
    constructor
    · intro ⟨h0, hr⟩ d1 f d2 hsplit
      cases d1 with
      | nil =>
        simp only [List.nil_append, List.cons.injEq] at hsplit
        obtain ⟨hd, _⟩ := hsplit
        subst hd
        simpa [rebuild] using h0
      | cons d' d1' =>
        simp only [List.cons_append, List.cons.injEq] at hsplit
        obtain ⟨hd, hr'⟩ := hsplit
        subst hd
        rw [rebuild_cons]
        exact hr d1' f d2 hr'
    · intro h
      constructor
      · cases d with
        | feat f => simpa [rebuild] using h [] f r rfl
        | mods id add rm => rfl
      · intro d1 f d2 hsplit
        have := h (d :: d1) f d2 (by simp [hsplit])
        rwa [rebuild_cons] at this

/-- the world rebuilt from the export's first documents shows, for every id that is not an overlay feature
still to come, exactly what the exporting world shows — "the base plus the features exported before" -/
theorem rebuilt_world_at {b : Base} (hb : b.IdsOK) {s : St} (hs : s.FeatsId) (hm : ModsNodup s.mods)
    (l1 : List Id) (i : Id) (hi : (get s.feats i).isSome → i ∈ l1) :
    abs b (rebuild b St.empty (exportDocs s l1)) i = abs b s i := by
  have himp : importDocs b (fun _ _ => true) St.empty (exportDocs s l1) =
      some (rebuild b St.empty (exportDocs s l1)) := by
    rw [importDocs_eq]
    have : docsValid b (fun _ _ => true) St.empty (exportDocs s l1) = true := by
      rw [docsValid_iff]; intros; rfl
    simp [this]
  rw [(importDocs_refines hb _ St.empty _ featsId_empty himp).1]
  exact export_spec_at b hs hm l1 i hi

end B6.Model.ChangeExport
