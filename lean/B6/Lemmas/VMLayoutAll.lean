import B6.Lemmas.VMLayout
/-!
C21: the layout of the compiled instruction array, part 2: compiler errors are `error`s and well-formed
programs that fit compile; the targets-queue loop (`compileQueue_good`, `compileQueue_total`); the whole
array (`flatten_layout`) and `layoutOK_all : ∀ e, VM.layoutOK e = true`.
-/
namespace B6.Lemmas.VMLayout
open B6.Model B6.Model.VM

/-! ### errors of the compiler are `error`s; well-formed expressions that fit compile -/

theorem compileLambda_err {frame : Frame} {ps : List String} {b : Expr} {st : CState} {e : Fail}
    (h : compileLambda frame ps b st = .error e) : e = .error := by
  unfold compileLambda at h
  cases hb : bindParams ps st.numArgs with
  | error e' => simp [hb] at h; subst h; exact bindParams_err _ _ _ hb
  | ok own => simp [hb] at h

theorem compileLambda_ok (frame : Frame) (ps : List String) (b : Expr) (st : CState)
    (h : st.numArgs + ps.length ≤ maxArgs) : ∃ r, compileLambda frame ps b st = .ok r := by
  obtain ⟨own, ho⟩ := bindParams_ok ps st.numArgs (Or.inl h)
  simp only [compileLambda, ho]
  exact ⟨_, rfl⟩

mutual
  theorem compileExpr_err : (e : Expr) → ∀ (frame : Frame) (st : CState) (err : Fail),
      compileExpr frame e st = .error err → err = .error
    | .sym s, frame, st, err, h => by
      simp only [compileExpr] at h
      split at h
      · cases h
      · split at h
        · cases h
        · injection h with h; exact h.symm
    | .lit _, frame, st, err, h => by simp [compileExpr] at h
    | .lam ps b, frame, st, err, h => by
      simp only [compileExpr] at h
      cases hl : compileLambda frame ps b st with
      | error e => simp [hl] at h; subst h; exact compileLambda_err hl
      | ok r => simp [hl] at h
    | .call f args p, frame, st, err, h => by
      simp only [compileExpr] at h
      cases ha : compileArgs frame args st with
      | error e => simp [ha] at h; subst h; exact compileArgs_err args frame st e ha
      | ok r =>
        obtain ⟨isa, st1⟩ := r
        simp only [ha] at h
        cases f with
        | sym s =>
          simp only at h
          split at h
          · cases h
          · injection h with h; exact h.symm
        | lit l => simp at h; exact h.symm
        | lam ps b =>
          simp only at h
          cases hl : compileLambda frame ps b st1 with
          | error e => simp [hl] at h; subst h; exact compileLambda_err hl
          | ok r => simp [hl] at h
        | call g gargs q =>
          simp only at h
          cases hc : compileExpr frame (.call g gargs q) st1 with
          | error e => simp [hc] at h; subst h; exact compileExpr_err _ frame st1 e hc
          | ok r => simp [hc] at h
  theorem compileArgs_err : (as : List Expr) → ∀ (frame : Frame) (st : CState) (err : Fail),
      compileArgs frame as st = .error err → err = .error
    | [], frame, st, err, h => by simp [compileArgs] at h
    | a :: as, frame, st, err, h => by
      simp only [compileArgs] at h
      cases ha : compileExpr frame a st with
      | error e => simp [ha] at h; subst h; exact compileExpr_err a frame st e ha
      | ok r =>
        obtain ⟨isa, st1⟩ := r
        simp only [ha] at h
        cases hs : compileArgs frame as st1 with
        | error e => simp [hs] at h; subst h; exact compileArgs_err as frame st1 e hs
        | ok r => simp [hs] at h
end

mutual
  theorem compileExpr_ok : (e : Expr) → ∀ (frame : Frame) (st : CState),
      wfAt (names frame) e = true → st.numArgs + e.numParams ≤ maxArgs →
      ∃ r, compileExpr frame e st = .ok r
    | .sym s, frame, st, hw, _ => by
      simp only [compileExpr]
      have hn := lookup_isSome_names frame s
      cases hl : frame.lookup s with
      | some r => exact ⟨_, rfl⟩
      | none =>
        rw [hl] at hn
        simp only [Option.isSome_none] at hn
        simp only [wfAt, ← hn, Bool.false_or] at hw
        cases hb : Builtin.ofName s with
        | none => simp [hb] at hw
        | some b => exact ⟨_, rfl⟩
    | .lit _, frame, st, _, _ => ⟨_, rfl⟩
    | .lam ps b, frame, st, _, hn => by
      simp only [Expr.numParams] at hn
      obtain ⟨r, hr⟩ := compileLambda_ok frame ps b st (by omega)
      obtain ⟨t, st'⟩ := r
      simp only [compileExpr, hr]
      exact ⟨_, rfl⟩
    | .call f args p, frame, st, hw, hn => by
      simp only [wfAt, Bool.and_eq_true] at hw
      simp only [Expr.numParams] at hn
      obtain ⟨r, ha⟩ := compileArgs_ok args frame st hw.1 (by omega)
      obtain ⟨isa, st1⟩ := r
      obtain ⟨new1, g1, _⟩ := compileArgs_good args frame st st1 isa ha
      have hle : st1.numArgs ≤ st.numArgs + Expr.numParamss args := by have := g1.nA; omega
      simp only [compileExpr, ha]
      cases f with
      | sym s =>
        simp only at hw ⊢
        cases hb : Builtin.ofName s with
        | none => simp [hb] at hw
        | some b => exact ⟨_, rfl⟩
      | lit l => simp at hw
      | lam ps b =>
        simp only [Expr.numParams] at hn
        obtain ⟨r, hr⟩ := compileLambda_ok frame ps b st1 (by omega)
        obtain ⟨t, st2⟩ := r
        simp only [hr]
        exact ⟨_, rfl⟩
      | call g gargs q =>
        obtain ⟨r, hr⟩ := compileExpr_ok (.call g gargs q) frame st1 hw.2 (by omega)
        obtain ⟨isf, st2⟩ := r
        simp only [hr]
        exact ⟨_, rfl⟩
  theorem compileArgs_ok : (as : List Expr) → ∀ (frame : Frame) (st : CState),
      wfsAt (names frame) as = true → st.numArgs + Expr.numParamss as ≤ maxArgs →
      ∃ r, compileArgs frame as st = .ok r
    | [], frame, st, _, _ => ⟨_, rfl⟩
    | a :: as, frame, st, hw, hn => by
      simp only [wfsAt, Bool.and_eq_true] at hw
      simp only [Expr.numParamss] at hn
      obtain ⟨r, ha⟩ := compileExpr_ok a frame st hw.1 (by omega)
      obtain ⟨isa, st1⟩ := r
      obtain ⟨new1, g1, _⟩ := compileExpr_good a frame st st1 isa ha
      have hle : st1.numArgs ≤ st.numArgs + a.numParams := by have := g1.nA; omega
      obtain ⟨r, hs⟩ := compileArgs_ok as frame st1 hw.2 (by omega)
      obtain ⟨iss, st2⟩ := r
      simp only [compileArgs, ha, hs]
      exact ⟨_, rfl⟩
end


/-! ### the targets queue -/

def QInv (P : Nat) (st : CState) : Prop := st.nTargets = P + st.queue.length

/-- segment `i` of `segs` (target number `P + i`) sits, resolved, at its entry point -/
def SegRes (code : List Instr) (entries : List Nat) (P : Nat) (segs : List Segment) : Prop :=
  ∀ i seg, segs[i]? = some seg → ∃ pc ris tl, entries[P + i]? = some pc ∧
    resolveAll entries seg.2 = .ok ris ∧ code.drop pc = ris ++ tl

theorem all_stores_noLam (rs : List Nat) : (rs.map Instr.store).all noLam = true := by
  induction rs <;> simp_all [noLam]

theorem compileQueue_good : ∀ (fuel : Nat) (st : CState) (segs : List Segment) (P : Nat),
    compileQueue fuel st = .ok segs → QInv P st → st.numArgs ≤ maxArgs →
    st.queue.length ≤ segs.length ∧
    (∀ seg ∈ segs, ∀ i ∈ seg.2, lamRef 0 (P + segs.length) i) ∧
    st.queue.all wfT = true ∧
    st.numArgs + sumParams st.queue ≤ maxArgs ∧
    (∀ code entries, SegRes code entries P segs → Hyp code entries P st.queue)
  | 0, st, segs, P, h, _, hn => by
    simp only [compileQueue] at h
    split at h
    · rename_i he
      injection h with h; subst h
      have : st.queue = [] := by simpa using he
      simp [this, sumParams, hn, Hyp]
    · cases h
  | fuel + 1, st, segs, P, h, hi, hn => by
    simp only [compileQueue] at h
    cases hq : st.queue with
    | nil =>
      simp only [hq] at h
      injection h with h; subst h
      simp [sumParams, hn, Hyp]
    | cons t rest =>
      simp only [hq] at h
      cases hc : compileExpr t.frame t.body { st with queue := rest } with
      | error e => simp [hc] at h
      | ok r =>
        obtain ⟨is, st'⟩ := r
        simp only [hc] at h
        cases hr : compileQueue fuel st' with
        | error e => simp [hr] at h
        | ok segs' =>
          simp only [hr, Except.ok.injEq] at h
          subst h
          obtain ⟨new, g, m⟩ := compileExpr_good t.body t.frame _ st' is hc
          have gq : st'.queue = rest ++ new := g.queue
          have gn : st'.nTargets = st.nTargets + new.length := g.nT
          have hi' : QInv (P + 1) st' := by
            unfold QInv at hi ⊢
            rw [gn, gq, hi, hq]; simp only [List.length_cons, List.length_append]; omega
          obtain ⟨a', b', c', d', e'⟩ := compileQueue_good fuel st' segs' (P + 1) hr hi' (g.le hn)
          rw [gq] at a' c' d' e'
          simp only [List.length_append] at a'
          simp only [List.all_append, Bool.and_eq_true] at c'
          rw [sumParams_append] at d'
          have gA : st'.numArgs + sumParams new = st.numArgs + t.body.numParams := g.nA
          refine ⟨by simp only [List.length_cons]; omega, ?_, ?_, ?_, ?_⟩
          · intro seg hseg i hi2
            simp only [List.mem_cons] at hseg
            rcases hseg with rfl | hseg
            · simp only [List.mem_append, List.mem_cons, List.mem_map, List.mem_reverse] at hi2
              rcases hi2 with (⟨r, _, rfl⟩ | hi2) | hi2
              · simp [lamRef]
              · have := g.idx i hi2
                unfold QInv at hi'
                refine lamRef_mono (Nat.zero_le _) ?_ this
                rw [hi', gq]; simp only [List.length_cons, List.length_append]; omega
              · rcases hi2 with rfl | rfl | hi2
                · simp [lamRef]
                · simp [lamRef]
                · simp at hi2
            · have := b' seg hseg i hi2
              refine lamRef_mono (Nat.le_refl _) ?_ this
              simp only [List.length_cons]; omega
          · simp only [List.all_cons, Bool.and_eq_true]
            refine ⟨?_, c'.1⟩
            have := g.wfEq
            simp only [wfT] at this ⊢
            rw [this]; exact c'.2
          · simp only [sumParams]; omega
          · intro code entries hseg j t' hj
            have hseg' : SegRes code entries (P + 1) segs' := by
              intro i seg hs
              have := hseg (i + 1) seg (by simpa using hs)
              simpa [Nat.add_assoc, Nat.add_comm 1 i] using this
            have hyp := e' code entries hseg'
            cases j with
            | zero =>
              simp only [List.getElem?_cons_zero, Option.some.injEq] at hj
              subst hj
              obtain ⟨pc, ris, tl, hpc, hres, hdrop⟩ := hseg 0 _ rfl
              simp only at hres
              obtain ⟨r12, r3, h12, h3, rfl⟩ := (resolveAll_append entries _ _ _).mp hres
              obtain ⟨r1, r2, h1, h2, rfl⟩ := (resolveAll_append entries _ _ _).mp h12
              rw [resolveAll_noLam entries _ (all_stores_noLam _)] at h1
              injection h1 with h1; subst h1
              rw [resolveAll_noLam entries _ (by simp [noLam])] at h3
              injection h3 with h3; subst h3
              have hyp2 : Hyp code entries st.nTargets new := by
                have := hyp.right
                unfold QInv at hi
                rw [hi, hq]
                simpa [Nat.add_assoc, Nat.add_comm 1 rest.length] using this
              have hm := m code entries r2 ([Instr.discard, Instr.ret] ++ tl) h2 hyp2
              refine ⟨pc, hpc, r2 ++ [Instr.discard, Instr.ret] ++ tl, tl, ?_, ?_⟩
              · rw [hdrop]; simp [List.append_assoc]
              · simpa [List.append_assoc] using hm
            | succ j =>
              simp only [List.getElem?_cons_succ] at hj
              have := hyp.left j t' hj
              simpa [Nat.add_assoc, Nat.add_comm 1 j] using this

theorem compileQueue_total : ∀ (fuel : Nat) (st : CState) (err : Fail), sumLams st.queue < fuel →
    compileQueue fuel st = .error err →
    err = .error ∧ ¬ (st.queue.all wfT = true ∧ st.numArgs + sumParams st.queue ≤ maxArgs)
  | 0, st, err, hf, _ => by omega
  | fuel + 1, st, err, hf, h => by
    simp only [compileQueue] at h
    cases hq : st.queue with
    | nil => simp [hq] at h
    | cons t rest =>
      simp only [hq] at h
      rw [hq] at hf
      simp only [sumLams] at hf
      cases hc : compileExpr t.frame t.body { st with queue := rest } with
      | error e =>
        simp [hc] at h; subst h
        refine ⟨compileExpr_err _ _ _ _ hc, ?_⟩
        rintro ⟨hw, hn⟩
        simp only [List.all_cons, Bool.and_eq_true, sumParams] at hw hn
        obtain ⟨r, hr⟩ := compileExpr_ok t.body t.frame { st with queue := rest } hw.1 (by simp only; omega)
        rw [hr] at hc; cases hc
      | ok r =>
        obtain ⟨is, st'⟩ := r
        simp only [hc] at h
        obtain ⟨new, g, _⟩ := compileExpr_good t.body t.frame _ st' is hc
        have gq : st'.queue = rest ++ new := g.queue
        have gA : st'.numArgs + sumParams new = st.numArgs + t.body.numParams := g.nA
        have gL := g.nL
        cases hr : compileQueue fuel st' with
        | ok segs => simp [hr] at h
        | error e =>
          simp [hr] at h; subst h
          obtain ⟨h1, h2⟩ := compileQueue_total fuel st' e (by rw [gq, sumLams_append]; omega) hr
          refine ⟨h1, ?_⟩
          rintro ⟨hw, hn⟩
          simp only [List.all_cons, Bool.and_eq_true, sumParams] at hw hn
          apply h2
          rw [gq, List.all_append, sumParams_append]
          refine ⟨?_, by omega⟩
          simp only [Bool.and_eq_true]
          refine ⟨hw.2, ?_⟩
          have := g.wfEq
          simp only [wfT] at hw
          rw [← this]; exact hw.1


/-! ### the whole array -/

theorem entryPoints_length : ∀ (pc : Nat) (segs : List Segment), (entryPoints pc segs).length = segs.length
  | _, [] => rfl
  | pc, (_, is) :: segs => by simp [entryPoints, entryPoints_length (pc + is.length) segs]

theorem flatten_layout (entries : List Nat) : ∀ (segs : List Segment) (pre rcode : List Instr),
    pre.length > 0 → resolveAll entries (pre ++ flatten segs) = .ok rcode →
    ∀ (i : Nat) (seg : Segment), segs[i]? = some seg → ∃ pc ris tl, (entryPoints pre.length segs)[i]? = some pc ∧
      resolveAll entries seg.2 = .ok ris ∧ rcode.drop pc = ris ++ tl
  | [], _, _, _, _, i, seg, h => by simp at h
  | (k, is) :: segs, pre, rcode, hp, hr, i, seg, h => by
    have hne : (pre.length == 0) = false := by
      cases pre with
      | nil => simp at hp
      | cons _ _ => simp
    cases i with
    | zero =>
      simp only [List.getElem?_cons_zero, Option.some.injEq] at h
      subst h
      simp only [flatten] at hr
      obtain ⟨rp, rr, h1, h2, rfl⟩ := (resolveAll_append entries _ _ _).mp hr
      obtain ⟨ri, rs, h3, h4, rfl⟩ := (resolveAll_append entries _ _ _).mp h2
      refine ⟨pre.length, ri, rs, by simp [entryPoints, hne], h3, ?_⟩
      have := resolveAll_length entries _ _ h1
      rw [← this]
      simp
    | succ i =>
      simp only [List.getElem?_cons_succ] at h
      have hr' : resolveAll entries ((pre ++ is) ++ flatten segs) = .ok rcode := by
        simpa [flatten, List.append_assoc] using hr
      obtain ⟨pc, ris, tl, e1, e2, e3⟩ := flatten_layout entries segs (pre ++ is) rcode
        (by simp only [List.length_append]; omega) hr' i seg h
      refine ⟨pc, ris, tl, ?_, e2, e3⟩
      simpa [entryPoints, hne, List.length_append] using e1

/-- **layoutOK_all.** The compiler succeeds exactly on the statically well-formed programs (any other
outcome is an `error`, never a panic or lack of fuel of the queue loop), and the instruction array it
produces has the layout `VM.matchExpr` checks. -/
theorem layoutOK_all (e : Expr) : layoutOK e = true := by
  have hnames : names ([] : Frame) = [] := rfl
  unfold layoutOK compile compileSegments
  cases hc : compileExpr [] e {} with
  | error err =>
    have herr := compileExpr_err e [] {} err hc
    subst herr
    simp only []
    cases hw : wellFormed e with
    | false => rfl
    | true =>
      simp only [wellFormed, Bool.and_eq_true, decide_eq_true_eq] at hw
      obtain ⟨r, hr⟩ := compileExpr_ok e [] {} (by rw [hnames]; exact hw.1) (by simpa using hw.2)
      rw [hr] at hc; cases hc
  | ok r =>
    obtain ⟨is0, st0⟩ := r
    obtain ⟨new0, g0, m0⟩ := compileExpr_good e [] {} st0 is0 hc
    have gq : st0.queue = new0 := by simpa using g0.queue
    have gn : st0.nTargets = 1 + new0.length := by simpa using g0.nT
    have gA : st0.numArgs + sumParams new0 = e.numParams := by simpa using g0.nA
    have gL : sumLams new0 = e.numLambdas := g0.nL
    have gW : wfAt [] e = new0.all wfT := by have := g0.wfEq; rwa [hnames] at this
    have gle : st0.numArgs ≤ maxArgs := g0.le (by simp [maxArgs])
    simp only []
    cases hq : compileQueue (e.numLambdas + 1) st0 with
    | error err =>
      obtain ⟨h1, h2⟩ := compileQueue_total _ st0 err (by rw [gq, gL]; omega) hq
      subst h1
      simp only []
      cases hw : wellFormed e with
      | false => rfl
      | true =>
        simp only [wellFormed, Bool.and_eq_true, decide_eq_true_eq] at hw
        exfalso; apply h2
        rw [gq]
        exact ⟨by rw [← gW]; exact hw.1, by omega⟩
    | ok segs =>
      simp only []
      have hinv : QInv 1 st0 := by unfold QInv; rw [gn, gq]
      obtain ⟨qa, qb, qc, qd, qe⟩ := compileQueue_good _ st0 segs 1 hq hinv gle
      rw [gq] at qa qc qd qe
      -- the entry points
      have hen : entryPoints 0 ((0, [Instr.pushVal (.int 0)] ++ is0 ++ [Instr.ret]) :: segs) =
          1 :: entryPoints ([Instr.pushVal (.int 0)] ++ is0 ++ [Instr.ret]).length segs := by
        simp [entryPoints]
      generalize hEn : entryPoints 0 ((0, [Instr.pushVal (.int 0)] ++ is0 ++ [Instr.ret]) :: segs) = entries at hen ⊢
      have hlen : entries.length = 1 + segs.length := by
        rw [hen]; simp [entryPoints_length]; omega
      -- resolution succeeds
      have hbound : ∀ i ∈ flatten ((0, [Instr.pushVal (.int 0)] ++ is0 ++ [Instr.ret]) :: segs),
          lamRef 0 entries.length i := by
        intro i hi
        rw [hlen]
        simp only [flatten, List.mem_append, List.mem_cons, List.mem_singleton, List.not_mem_nil, or_false] at hi
        rcases hi with ((rfl | hi) | rfl) | hi
        · simp [lamRef]
        · refine lamRef_mono (Nat.zero_le _) ?_ (g0.idx i hi)
          rw [gn]; omega
        · simp [lamRef]
        · have key : ∀ (ss : List Segment), (∀ seg ∈ ss, ∀ j ∈ seg.2, lamRef 0 (1 + segs.length) j) →
              ∀ j ∈ flatten ss, lamRef 0 (1 + segs.length) j := by
            intro ss
            induction ss with
            | nil => intro _ j hj; simp [flatten] at hj
            | cons s ss ih =>
              intro hs j hj
              obtain ⟨k, sis⟩ := s
              simp only [flatten, List.mem_append] at hj
              rcases hj with hj | hj
              · exact hs (k, sis) (by simp) j hj
              · exact ih (fun seg hseg => hs seg (by simp [hseg])) j hj
          exact key segs qb i hi
      obtain ⟨rcode, hres⟩ := resolveAll_ok_of_bound entries _ hbound
      rw [hres]
      simp only []
      -- well-formed
      have hwf : wellFormed e = true := by
        simp only [wellFormed, Bool.and_eq_true, decide_eq_true_eq]
        exact ⟨by rw [gW]; exact qc, by omega⟩
      rw [hwf, Bool.true_and]
      -- the main target matches
      simp only [flatten] at hres
      have hseg : SegRes rcode entries 1 segs := by
        intro i seg hs
        obtain ⟨pc, ris, tl, e1, e2, e3⟩ := flatten_layout entries segs _ rcode (by simp) hres i seg hs
        refine ⟨pc, ris, tl, ?_, e2, e3⟩
        rw [hen, Nat.add_comm 1 i, List.getElem?_cons_succ]
        exact e1
      have hyp : Hyp rcode entries 1 new0 := qe rcode entries hseg
      obtain ⟨rm, rs, h1, h2, rfl⟩ := (resolveAll_append entries _ _ _).mp hres
      obtain ⟨r12, r3, h12, h3, rfl⟩ := (resolveAll_append entries _ _ _).mp h1
      obtain ⟨r1, r2, h11, h22, rfl⟩ := (resolveAll_append entries _ _ _).mp h12
      rw [resolveAll_noLam entries _ (by simp [noLam])] at h11 h3
      injection h11 with h11; subst h11
      injection h3 with h3; subst h3
      have hm := m0 ([Instr.pushVal (.int 0)] ++ r2 ++ [Instr.ret] ++ rs) entries r2 ([Instr.ret] ++ rs) h22 hyp
      simp only [matchMain, List.cons_append, List.nil_append, List.append_assoc] at hm ⊢
      rw [hm]

end B6.Lemmas.VMLayout
