import B6.Lemmas.CompactIndexFind
/-!
# C01 lemmas, part 7: `find` of every point of an accepted source

The point blocks come out of two passes: `emitPoints` (one `PointTag` entry per point feature, one
`PointPathTag` / `PointRelationTag` entry per visit / membership) and `combinePoints` (one record per id).  With
distinct ids the record of a point's id starts with that point's tags and is not a references-only record.
-/
namespace B6.Model.CompactIndex
open B6.Model.Varint B6.Model.Records
open B6.Model.Containers (Entry)

/-- what a successful build fixes about the point blocks -/
structure BuiltPoints (fs : List Feature) (ix : Index) (c : Ctx) (scr : List (List (Str × BitVec 64 × Scratch))) : Prop where
  hscr : fs.mapM (scratchOf c fs) = .ok scr
  hpts : ∀ b ∈ ix.blocks, b.typ = 0 → ∃ n ns, (n, ns) ∈ blockNamespaces (nsTable fs) ∧ pointBlock c fs scr.flatten n ns = some b
  hall : ∀ n ns, (n, ns) ∈ blockNamespaces (nsTable fs) → ∀ b, pointBlock c fs scr.flatten n ns = some b → b ∈ ix.blocks

theorem build_points (strs : List Str) (fs : List Feature) (ix : Index) (h : build strs fs = .ok ix) :
    ∃ c scr, Built strs fs ix c ∧ BuiltPoints fs ix c scr := by
  unfold build at h
  split at h
  · simp at h
  · cases hosm : osmNamespaces (nsTable fs) with
    | none => simp [hosm, bind, Except.bind] at h
    | some osm =>
      simp only [hosm, orPanic_some, bind, Except.bind] at h
      cases hscr : fs.mapM (scratchOf ⟨nsTable fs, strs, osm⟩ fs) with
      | error e => simp [hscr] at h
      | ok scr =>
        simp only [hscr] at h
        cases hrest : (blockKeys (nsTable fs)).mapM
            (fun k => featureBlock ⟨nsTable fs, strs, osm⟩ fs k.1 k.2.1 k.2.2) with
        | error e => simp [hrest] at h
        | ok rest =>
          simp only [hrest, pure, Except.pure, Except.ok.injEq] at h
          subst h
          have ⟨hm1, hm2⟩ := mapM_except_mem _ _ rest hrest
          refine ⟨⟨nsTable fs, strs, osm⟩, scr, ⟨rfl, rfl, rfl, hosm, ?_, ?_⟩, ⟨hscr, ?_, ?_⟩⟩
          · intro b hb
            simp only [List.mem_append, List.mem_filterMap] at hb
            rcases hb with ⟨⟨n, ns⟩, _, hpb⟩ | ⟨ob, hob, hid⟩
            · exact Or.inl (pointBlock_typ _ fs _ n ns b hpb)
            · simp only [id] at hid
              subst hid
              obtain ⟨k, hk, hfk⟩ := hm1 _ hob
              exact Or.inr ⟨k, hk, hfk⟩
          · intro k hk
            obtain ⟨ob, hob, hfk⟩ := hm2 k hk
            refine ⟨ob, hfk, ?_⟩
            intro b hb
            subst hb
            simp only [List.mem_append, List.mem_filterMap]
            exact Or.inr ⟨some b, hob, rfl⟩
          · intro b hb hb0
            simp only [List.mem_append, List.mem_filterMap] at hb
            rcases hb with ⟨⟨n, ns⟩, hmem, hpb⟩ | ⟨ob, hob, hid⟩
            · exact ⟨n, ns, hmem, hpb⟩
            · simp only [id] at hid
              subst hid
              obtain ⟨k, hk, hfk⟩ := hm1 _ hob
              have ⟨h1, _, _⟩ := featureBlock_some _ fs k.1 k.2.1 k.2.2 b hfk
              have := ((mem_blockKeys _ k).mp hk).1
              rw [← h1, hb0] at this
              omega
          · intro n ns hmem b hpb
            simp only [List.mem_append, List.mem_filterMap]
            exact Or.inl ⟨(n, ns), hmem, hpb⟩

/-! ## `combinePoints` -/

theorem foldl_point_none : ∀ (l : List Scratch) (a : Option Bytes), (∀ d', Scratch.point d' ∉ l) →
    l.foldl (fun acc e => match e with
      | .point d => some d
      | _ => acc) a = a := by
  intro l
  induction l with
  | nil => intro a _; rfl
  | cons y ys ihy =>
    intro a hno
    simp only [List.foldl_cons]
    cases y with
    | point d' => exact absurd (List.mem_cons_self) (hno d')
    | path r => exact ihy a (fun d' hd' => hno d' (by simp [hd']))
    | rel r => exact ihy a (fun d' hd' => hno d' (by simp [hd']))

theorem foldl_point (d : Bytes) : ∀ (es : List Scratch) (acc : Option Bytes), Scratch.point d ∈ es →
    (∀ d', Scratch.point d' ∈ es → d' = d) →
    es.foldl (fun acc e => match e with
      | .point d => some d
      | _ => acc) acc = some d := by
  intro es
  induction es with
  | nil => intro acc h; simp at h
  | cons x xs ih =>
    intro acc hmem hall
    simp only [List.foldl_cons]
    by_cases hx : Scratch.point d ∈ xs
    · exact ih _ hx (fun d' hd' => hall d' (by simp [hd']))
    · have hxd : x = Scratch.point d := by
        rcases List.mem_cons.mp hmem with h | h
        · exact h.symm
        · exact absurd h hx
      subst hxd
      exact foldl_point_none xs (some d) (fun d' hd' => by
        have := hall d' (by simp [hd'])
        subst this
        exact hx hd')

/-- the record `combinePoints` writes for an id whose scratch entries hold exactly one point: not a
references-only record, and it starts with the point's tags -/
theorem combine_point (c : Ctx) (id : BitVec 64) (es : List Scratch) (d : Bytes) (hmem : Scratch.point d ∈ es)
    (hall : ∀ d', Scratch.point d' ∈ es → d' = d) :
    (combine c id es).id = id ∧ (combine c id es).tag ≠ 2#64 ∧ ∃ rest, (combine c id es).data = d ++ rest := by
  have hp : scratchPoint es = some d := foldl_point d es none hmem hall
  unfold combine combineWith
  simp only [hp]
  split
  · exact ⟨rfl, by simp, _, rfl⟩
  · exact ⟨rfl, by simp, _, rfl⟩

theorem mem_dedupVals (x : BitVec 64) : ∀ l : List (BitVec 64), x ∈ dedupVals l ↔ x ∈ l := by
  intro l
  induction l with
  | nil => simp [dedupVals]
  | cons y ys ih =>
    simp only [dedupVals, List.mem_cons, List.mem_filter, ih, bne_iff_ne]
    constructor
    · rintro (h | ⟨h, _⟩)
      · exact Or.inl h
      · exact Or.inr h
    · rintro (h | h)
      · exact Or.inl h
      · by_cases hxy : x = y
        · exact Or.inl hxy
        · exact Or.inr ⟨h, hxy⟩

theorem combine_id (c : Ctx) (id : BitVec 64) (es : List Scratch) : (combine c id es).id = id := by
  unfold combine combineWith
  split
  · split <;> rfl
  · rfl

/-! ## the scratch entries -/

/-- a `PointTag` scratch entry comes from the point feature with that namespace and value, and is its only entry -/
theorem scratchOf_point (c : Ctx) (fs : List Feature) (g : Feature) (l : List (Str × BitVec 64 × Scratch))
    (h : scratchOf c fs g = .ok l) (ns : Str) (v : BitVec 64) (d : Bytes) (hmem : (ns, v, Scratch.point d) ∈ l) :
    g.id.typ = 0 ∧ g.id.ns = ns ∧ g.id.val = v := by
  unfold scratchOf at h
  split at h
  · -- a point
    rename_i h0
    cases hts : toCompactTags c g with
    | none => simp [hts, bind, Except.bind] at h
    | some ts =>
      simp only [hts, orPanic_some, bind, Except.bind] at h
      split at h
      · simp at h
      · simp only [pure, Except.pure, Except.ok.injEq] at h
        subst h
        simp only [List.mem_singleton, Prod.mk.injEq] at hmem
        exact ⟨h0, hmem.1.symm, hmem.2.1.symm⟩
  · -- a path: only `PointPathTag` entries
    cases hr : mkRef c.nt g.id with
    | none => simp [hr, bind, Except.bind] at h
    | some r =>
      simp only [hr, orPanic_some, bind, Except.bind, pure, Except.pure, Except.ok.injEq] at h
      subst h
      simp only [List.mem_filterMap] at hmem
      obtain ⟨e, _, he⟩ := hmem
      cases e with
      | ll p => simp at he
      | ref id =>
        simp only at he
        split at he <;> simp at he
  · -- a relation: only `PointRelationTag` entries
    cases hr : mkRef c.nt g.id with
    | none => simp [hr, bind, Except.bind] at h
    | some r =>
      simp only [hr, orPanic_some, bind, Except.bind] at h
      have ⟨hm1, _⟩ := mapM_except_mem _ _ l h
      obtain ⟨m, _, hm⟩ := hm1 _ hmem
      split at hm
      · simp at hm
      · simp [pure, Except.pure] at hm
  · simp only [pure, Except.pure, Except.ok.injEq] at h
    subst h
    simp at hmem

/-- the scratch entry of a point feature -/
theorem scratchOf_of_point (c : Ctx) (fs : List Feature) (f : Feature) (h0 : f.id.typ = 0)
    (l : List (Str × BitVec 64 × Scratch)) (h : scratchOf c fs f = .ok l) :
    ∃ ts, toCompactTags c f = some ts ∧ Tags.ok ts = true ∧ l = [(f.id.ns, f.id.val, Scratch.point (Tags.enc 0#16 ts))] := by
  unfold scratchOf at h
  simp only [h0] at h
  cases hts : toCompactTags c f with
  | none => simp [hts, bind, Except.bind] at h
  | some ts =>
    simp only [hts, orPanic_some, bind, Except.bind] at h
    split at h
    · simp at h
    · rename_i hok
      simp only [pure, Except.pure, Except.ok.injEq] at h
      exact ⟨ts, rfl, by simpa using hok, h.symm⟩

theorem mem_blockNamespaces (nt : List Str) (n : Nat) (ns : Str) : (n, ns) ∈ blockNamespaces nt ↔ nt[n]? = some ns :=
  mem_zip_range nt n ns

/-- **placement of points**: after a successful build, the record of a point `f` of an accepted source is in
exactly one routed point block, under its id only, is not a references-only record and starts with `f`'s tags -/
theorem placed_point (strs : List Str) (fs : List Feature) (ix : Index) (c : Ctx) (scr : List (List (Str × BitVec 64 × Scratch)))
    (hb : Built strs fs ix c) (hp : BuiltPoints fs ix c scr) (hsmall : (nsTable fs).length ≤ 8192)
    (hdist : idsDistinct fs = true) (f : Feature) (hf : f ∈ fs) (h0 : f.id.typ = 0) :
    ∃ n b e ts rest, nsEncode ix.nt f.id.ns = some n ∧ b ∈ ix.blocks ∧ b.typ = 0 ∧ b.hdr = blockHeader c 0 n ∧
      (∀ b' ∈ ix.blocks, b'.typ = f.id.typ → nssGet b'.hdr f.id.typ = ns16 n → b' = b) ∧
      Holds b f.id e ∧ toCompactTags c f = some ts ∧ Tags.ok ts = true ∧ e.data = Tags.enc 0#16 ts ++ rest := by
  -- the scratch entry of `f`
  have ⟨hs1, hs2⟩ := mapM_except_mem _ _ _ hp.hscr
  obtain ⟨lf, hlf, hsf⟩ := hs2 f hf
  obtain ⟨ts, hts, htok, rfl⟩ := scratchOf_of_point c fs f h0 lf hsf
  have hentry : (f.id.ns, f.id.val, Scratch.point (Tags.enc 0#16 ts)) ∈ scr.flatten :=
    List.mem_flatten.mpr ⟨_, hlf, by simp⟩
  -- its namespace and block
  have hns : f.id.ns ∈ nsTable fs := mem_nsTable fs f hf f.id.ns (by simp [mentioned])
  obtain ⟨n, hn⟩ := nsEncode_of_mem _ _ hns
  have hnlt := nsEncode_lt _ _ _ hn
  have hget : (nsTable fs)[n]? = some f.id.ns := nsEncode_decode _ _ _ hn
  have hmine : (f.id.ns, f.id.val, Scratch.point (Tags.enc 0#16 ts)) ∈ scr.flatten.filter (·.1 == f.id.ns) :=
    List.mem_filter.mpr ⟨hentry, by simp⟩
  have hpb : ∃ b, pointBlock c fs scr.flatten n f.id.ns = some b := by
    unfold pointBlock
    simp only
    split
    · rename_i hemp
      have : scr.flatten.filter (·.1 == f.id.ns) = [] := by simpa using hemp
      rw [this] at hmine
      simp at hmine
    · exact ⟨_, rfl⟩
  obtain ⟨b, hbdef⟩ := hpb
  have hbmem : b ∈ ix.blocks := hp.hall n f.id.ns ((mem_blockNamespaces _ _ _).mpr hget) b hbdef
  have hbspec : b.typ = 0 ∧ b.hdr = blockHeader c 0 n ∧
      b.entries = (dedupVals ((scr.flatten.filter (·.1 == f.id.ns)).map (·.2.1))).map fun id =>
        combine c id (((scr.flatten.filter (·.1 == f.id.ns)).filter (·.2.1 == id)).map (·.2.2)) := by
    unfold pointBlock at hbdef
    simp only at hbdef
    split at hbdef
    · simp at hbdef
    · simp only [Option.some.injEq] at hbdef
      subst hbdef
      exact ⟨rfl, rfl, rfl⟩
  obtain ⟨hbt, hbh, hbe⟩ := hbspec
  -- the entry of the id
  let es := ((scr.flatten.filter (·.1 == f.id.ns)).filter (·.2.1 == f.id.val)).map (·.2.2)
  have hesmem : Scratch.point (Tags.enc 0#16 ts) ∈ es :=
    List.mem_map.mpr ⟨_, List.mem_filter.mpr ⟨hmine, by simp⟩, rfl⟩
  have hesall : ∀ d', Scratch.point d' ∈ es → d' = Tags.enc 0#16 ts := by
    intro d' hd'
    obtain ⟨x, hx, hx2⟩ := List.mem_map.mp hd'
    obtain ⟨ns', v', s'⟩ := x
    simp only at hx2
    subst hx2
    have ⟨hx1, hxv⟩ := List.mem_filter.mp hx
    have ⟨hxmem, hxns⟩ := List.mem_filter.mp hx1
    simp only [beq_iff_eq] at hxv hxns
    subst hxv hxns
    obtain ⟨l, hl, hxl⟩ := List.mem_flatten.mp hxmem
    obtain ⟨g, hg, hgl⟩ := hs1 l hl
    have ⟨hg0, hgns, hgv⟩ := scratchOf_point c fs g l hgl _ _ d' hxl
    have hid : g.id = f.id := by
      cases hgi : g.id with
      | mk t1 n1 v1 =>
        cases hfi : f.id with
        | mk t2 n2 v2 =>
          rw [hgi] at hg0 hgns hgv
          rw [hfi] at h0 hgns hgv
          simp only at hg0 hgns hgv h0
          rw [hg0, h0, hgns, hgv]
    have : g = f := idsDistinct_inj fs hdist g hg f hf hid
    subst this
    rw [hsf] at hgl
    have := Except.ok.inj hgl
    subst this
    simpa using hxl
  have ⟨hcid, hctag, rest, hcdata⟩ := combine_point c f.id.val es _ hesmem hesall
  have hvalmem : f.id.val ∈ dedupVals ((scr.flatten.filter (·.1 == f.id.ns)).map (·.2.1)) :=
    (mem_dedupVals _ _).mpr (List.mem_map.mpr ⟨_, hmine, rfl⟩)
  have hemem : combine c f.id.val es ∈ b.entries := by
    rw [hbe]
    exact List.mem_map.mpr ⟨f.id.val, hvalmem, rfl⟩
  have heuniq : ∀ e' ∈ b.entries, e'.id = f.id.val → e' = combine c f.id.val es := by
    intro e' he' he'id
    rw [hbe] at he'
    obtain ⟨id', _, rfl⟩ := List.mem_map.mp he'
    rw [combine_id] at he'id
    subst he'id
    rfl
  have hholds : Holds b f.id (combine c f.id.val es) :=
    ⟨hemem, hcid, heuniq, by simp [h0, hctag], by intro h2; omega⟩
  have huniq : ∀ b' ∈ ix.blocks, b'.typ = f.id.typ → nssGet b'.hdr f.id.typ = ns16 n → b' = b := by
    intro b' hb' hb't hb'h
    rw [h0] at hb't hb'h
    obtain ⟨n', ns', hmem', hpb'⟩ := hp.hpts b' hb' hb't
    have hget' := (mem_blockNamespaces _ _ _).mp hmem'
    have hb'hdr : b'.hdr = blockHeader c 0 n' := by
      unfold pointBlock at hpb'
      simp only at hpb'
      split at hpb'
      · simp at hpb'
      · simp only [Option.some.injEq] at hpb'
        subst hpb'
        rfl
    rw [hb'hdr] at hb'h
    have hn'lt : n' < (nsTable fs).length := by
      rcases Nat.lt_or_ge n' (nsTable fs).length with h | h
      · exact h
      · simp [List.getElem?_eq_none h] at hget'
    have : n' = n := ns16_inj n' n (by omega) (by omega) hb'h
    subst this
    rw [hget] at hget'
    have := Option.some.inj hget'
    subst this
    rw [hbdef] at hpb'
    exact (Option.some.inj hpb').symm
  exact ⟨n, b, _, ts, rest, by rw [hb.hnt]; exact hn, hbmem, hbt, hbh, huniq, hholds, hts, htok, hcdata⟩

/-- **points**: after a successful build of an accepted source, `FindFeatureByID` returns every point in
canonical form -/
theorem find_point (strs : List Str) (fs : List Feature) (ix : Index) (hbuild : build strs fs = .ok ix)
    (hacc : Accepts strs fs = true) (f : Feature) (hf : f ∈ fs) (h0 : f.id.typ = 0) :
    find ix f.id = some (some (canon fs f)) := by
  have hA := accepts_facts strs fs hacc
  obtain ⟨c, scr, hb, hp⟩ := build_points strs fs ix hbuild
  have hc := ctxOK_of_built strs fs ix c hb hA.strs hA.small
  have hnt : ix.nt = c.nt := by rw [hb.hnt, hb.hctx]
  have hst : ix.strs = c.strs := by rw [hb.hstrs, hb.hctx]
  have hOK := hA.ok f hf
  unfold featureOK at hOK
  simp only [Bool.and_eq_true, decide_eq_true_eq, h0, List.all_eq_true] at hOK
  obtain ⟨_, hplain, _⟩ := hOK
  obtain ⟨n, b, e, ts, rest, hn, hbmem, hbt, hbh, huniq, hholds, hts, htok, hdata⟩ :=
    placed_point strs fs ix c scr hb hp hA.small hA.distinct f hf h0
  have hhdr : nssGet b.hdr f.id.typ = ns16 n := by rw [hbh, h0]; rfl
  have hlook := lookup_of_unique ix f.id n hn b e hbmem (by rw [hbt, h0]) hhdr huniq hholds
  unfold find
  rw [hlook]
  simp only [Option.map_some, Option.some.injEq]
  rw [hnt, hst, hdata]
  have := point_record_roundtrip c hc.strs f hplain ts hts htok rest b.hdr f.id h0
  rw [this]
  unfold canon
  have hv : validated fs f = f := validated_of_not_path fs f (by omega)
  simp only [h0, hv]

end B6.Model.CompactIndex
