import B6.Model.Posting
import B6.Lemmas.Varint
/-!
# Posting lists, part 1: the layout relation `Lay`, the encoder establishes it, `Next` follows it

`Lay full nss p prev k l` — "the ids `l` are laid out in `full` from byte `p` to the end": `p` is the position
the iterator holds after the previous id (it may lie in the padding of its block), `prev` the previous value
of the block, `k` the namespace index of the previous id.  Each id is either a delta varint inside the
current block, or — after the padding, at the next block start — an absolute varint (`AtBlock`).

* `encodeFrom_lay` / `fill_lay`: the encoder output satisfies `Lay … 0 0 0 ids` (any chain of ids whose
  values do not decrease inside a run of equal `TypeAndNamespace`; values `< 2^64`; no `TypeAndNamespace` 0).
* `next_lay`: `Iterator.Next` from a `Lay` state reads exactly the head id and lands in the `Lay` state of the tail.
* `next_atBlock`: the same when the iterator is dropped on a block start with a stale namespace / value
  (what `Advance` does after its binary search).
* `drainFuel_lay`: draining a `Lay` state yields the list.
* `lay_blocks` / `fill_blocks`: every block start of the buffer is the start of an id of the list (`AtBlock`).
* `fill_lay`, `fill_nss_sorted`, `fill_nss_aligned`, `fill_nss_inRange`, `drain_fill`: the facts about `Fill`'s output.
-/
namespace B6.Model.Posting
open B6.Model.Varint

/-! ## arithmetic of padding -/

theorem padLen_lt (n : Nat) : padLen n < 64 := by unfold padLen; split <;> omega
theorem padLen_mod (n : Nat) : (n + padLen n) % 64 = 0 := by unfold padLen; split <;> omega
theorem padLen_zero {n : Nat} (h : n % 64 = 0) : padLen n = 0 := by unfold padLen; split <;> omega
theorem padLen_pos {n : Nat} (h : n % 64 ≠ 0) : padLen n = 64 - n % 64 := by unfold padLen; split <;> omega
theorem padBytes_length (n : Nat) : (padBytes n).length = padLen n := by simp [padBytes]

/-! ## the last byte of a varint is not the padding byte -/

theorem putUvarintFuel_last (f : Nat) : ∀ v, v < 2 ^ (7 * f + 7) →
    ∃ init b, putUvarintFuel f v = init ++ [b] ∧ b.toNat < 128 := by
  induction f with
  | zero =>
    intro v hv
    refine ⟨[], v.toUInt8, by simp [putUvarintFuel], ?_⟩
    simp [Nat.toUInt8, UInt8.toNat_ofNat'] ; omega
  | succ f ih =>
    intro v hv
    unfold putUvarintFuel
    split
    · rename_i hlt
      refine ⟨[], v.toUInt8, by simp, ?_⟩
      simp [Nat.toUInt8, UInt8.toNat_ofNat']; omega
    · have hpow : v / 128 < 2 ^ (7 * f + 7) := by
        have e : 2 ^ (7 * (f + 1) + 7) = 2 ^ (7 * f + 7) * 128 := by
          have : 7 * (f + 1) + 7 = (7 * f + 7) + 7 := by omega
          rw [this, Nat.pow_add]
        rw [e] at hv
        exact Nat.div_lt_of_lt_mul (by rw [Nat.mul_comm]; exact hv)
      obtain ⟨init, b, h1, h2⟩ := ih (v / 128) hpow
      exact ⟨(v % 128 + 128).toUInt8 :: init, b, by rw [h1]; rfl, h2⟩

theorem putUvarint_last (v : Nat) (hv : v < 2 ^ 64) :
    ∃ init b, putUvarint v = init ++ [b] ∧ b ≠ 128 := by
  obtain ⟨init, b, h1, h2⟩ := putUvarintFuel_last 9 v (by omega)
  refine ⟨init, b, h1, ?_⟩
  intro h; rw [h] at h2; simp at h2

/-- in any buffer that continues with `putUvarint v` at `p`, the byte before `p + len` is not padding -/
theorem last_byte_of_prefix {full : Bytes} {p v : Nat} (hv : v < 2 ^ 64)
    (hp : putUvarint v <+: full.drop p) :
    ∃ b, full[p + (putUvarint v).length - 1]? = some b ∧ b ≠ 128 := by
  obtain ⟨init, b, h1, h2⟩ := putUvarint_last v hv
  obtain ⟨post, hpost⟩ := hp
  refine ⟨b, ?_, h2⟩
  have hl : (putUvarint v).length = init.length + 1 := by rw [h1]; simp
  have : (full.drop p)[init.length]? = some b := by
    rw [← hpost, h1]; simp
  rw [List.getElem?_drop] at this
  rw [hl]
  have e : p + (init.length + 1) - 1 = p + init.length := by omega
  rw [e]; exact this

/-! ## `scanBack` -/

/-- a non-padding byte at `j` stops the scan above `j` -/
theorem scanBack_ge {full : Bytes} {j : Nat} {b : UInt8} (hj : full[j]? = some b) (hb : b ≠ 128) :
    ∀ e, j < e → e ≤ full.length → ∃ r, scanBack full e = .ok r ∧ j + 1 ≤ r ∧ r ≤ e := by
  intro e
  induction e with
  | zero => intro h; omega
  | succ e ih =>
    intro hje hlen
    unfold scanBack
    have hlt : e < full.length := by omega
    rw [List.getElem?_eq_getElem hlt]
    simp only
    by_cases h128 : full[e] = 128
    · rw [if_pos h128]
      have hne : j ≠ e := by
        intro hje'; subst hje'
        rw [List.getElem?_eq_getElem hlt] at hj
        simp only [Option.some.injEq] at hj
        exact hb (hj ▸ h128)
      obtain ⟨r, h1, h2, h3⟩ := ih (by omega) (by omega)
      exact ⟨r, h1, h2, by omega⟩
    · rw [if_neg h128]
      exact ⟨e + 1, rfl, by omega, by omega⟩

/-- the padding `[p, e)` is skipped exactly: the byte before `p` is not padding -/
theorem scanBack_eq {full : Bytes} {p : Nat} {b : UInt8} (hp : 1 ≤ p) (hb0 : full[p - 1]? = some b) (hb : b ≠ 128) :
    ∀ e, p ≤ e → (∀ i, p ≤ i → i < e → full[i]? = some 128) → scanBack full e = .ok p := by
  intro e
  induction e with
  | zero => intro h; omega
  | succ e ih =>
    intro hpe hpad
    unfold scanBack
    by_cases hep : p = e + 1
    · have : e = p - 1 := by omega
      rw [this, hb0]
      simp only [hb, if_false]
      rw [hep]; simp
    · have := hpad e (by omega) (by omega)
      rw [this]
      simp only [if_true]
      exact ih (by omega) (fun i h1 h2 => hpad i h1 (by omega))

/-! ## namespace walks -/

/-- indices of the namespace entries strictly increase -/
def NssSorted (nss : List NsIndex) : Prop := nss.Pairwise (fun a b => a.2 < b.2)

theorem walkIndexAux_stay (i : Nat) (l : List NsIndex) (ns : Nat)
    (h : ∀ e, l.head? = some e → i < e.2) : walkIndexAux i l ns = ns := by
  cases l with
  | nil => rfl
  | cons e rest =>
    have := h e rfl
    simp only [walkIndexAux]
    rw [if_neg (by omega)]

/-- from a stale `k0 ≤ k'` the walk reaches the namespace `k'` that contains byte `q` -/
theorem walkIndex_reach {nss : List NsIndex} (hs : NssSorted nss) {q k' : Nat} {e' : NsIndex}
    (hk' : nss[k']? = some e') (hle : e'.2 ≤ q) (hnext : ∀ e, nss[k' + 1]? = some e → q < e.2) :
    ∀ d k0, k0 + d = k' → walkIndex nss q k0 = k' := by
  intro d
  induction d with
  | zero =>
    intro k0 h0
    have : k0 = k' := by omega
    subst this
    unfold walkIndex
    apply walkIndexAux_stay
    intro e he
    apply hnext e
    rw [List.head?_drop] at he
    exact he
  | succ d ih =>
    intro k0 h0
    unfold walkIndex
    have hlt : k' < nss.length := by
      have := List.getElem?_eq_some_iff.1 hk'
      exact this.1
    have hk1 : k0 + 1 < nss.length := by omega
    rw [List.drop_eq_getElem_cons hk1]
    simp only [walkIndexAux]
    have hidx : nss[k0 + 1].2 ≤ q := by
      by_cases heq : k0 + 1 = k'
      · subst heq
        rw [List.getElem?_eq_getElem hk1] at hk'
        simp only [Option.some.injEq] at hk'
        rw [hk']; exact hle
      · have hk'2 : nss[k'] = e' := by
          rw [List.getElem?_eq_getElem hlt] at hk'
          simpa using hk'
        have := List.pairwise_iff_getElem.1 hs (k0 + 1) k' hk1 hlt (by omega)
        rw [hk'2] at this
        omega
    rw [if_pos hidx]
    have := ih (k0 + 1) (by omega)
    unfold walkIndex at this
    exact this

/-! ## the layout relation -/

/-- `Lay full nss p prev k l`: see the file header. -/
def Lay (full : Bytes) (nss : List NsIndex) : Nat → Nat → Nat → List Id → Prop
  | p, _, _, [] => p = full.length
  | p, prev, k, id :: rest =>
    id.2 < 2 ^ 64 ∧
    ((p % 64 ≠ 0 ∧ prev ≤ id.2 ∧ putUvarint (id.2 - prev) <+: full.drop p ∧
        p % 64 + (putUvarint (id.2 - prev)).length ≤ 64 ∧
        (∃ idx, nss[k]? = some (id.1, idx) ∧ idx ≤ p) ∧ (∀ e, nss[k + 1]? = some e → p < e.2) ∧
        Lay full nss (p + (putUvarint (id.2 - prev)).length) id.2 k rest)
     ∨
     (∃ k', k ≤ k' ∧
        (∀ i, p ≤ i → i < p + padLen p → full[i]? = some 128) ∧
        (p % 64 ≠ 0 → ∃ b, full[p - 1]? = some b ∧ b ≠ 128) ∧
        putUvarint id.2 <+: full.drop (p + padLen p) ∧
        (∃ idx, nss[k']? = some (id.1, idx) ∧ idx ≤ p + padLen p) ∧
        (∀ e, nss[k' + 1]? = some e → p + padLen p < e.2) ∧
        Lay full nss (p + padLen p + (putUvarint id.2).length) id.2 k' rest))

/-- the id `id` starts the block at byte `q` (absolute varint), in namespace `k'`; `rest` follows -/
def AtBlock (full : Bytes) (nss : List NsIndex) (q k' : Nat) (id : Id) (rest : List Id) : Prop :=
  q % 64 = 0 ∧ id.2 < 2 ^ 64 ∧ putUvarint id.2 <+: full.drop q ∧
  (∃ idx, nss[k']? = some (id.1, idx) ∧ idx ≤ q) ∧
  (∀ e, nss[k' + 1]? = some e → q < e.2) ∧
  Lay full nss (q + (putUvarint id.2).length) id.2 k' rest

theorem prefix_bound {full x : Bytes} {q : Nat} (h : x <+: full.drop q) (hx : 1 ≤ x.length) :
    q + x.length ≤ full.length := by
  have := h.length_le
  simp only [List.length_drop] at this
  omega

/-! ## `Next` in two steps: where to read, then read -/

/-- the tail of `Iterator.Next` once the read position `i1` is known -/
def readAt (pl : PostingList) (k0 val i1 : Nat) : Except Err (Bool × It) :=
  let ns := walkIndex pl.header.namespaces i1 k0
  let r := uvarintRaw (pl.ids.drop i1)
  if r.2 ≤ 0 then .error .corrupt else
  let value := if i1 % 64 = 0 then r.1 else (val + r.1) % 2 ^ 64
  .ok (true, ⟨ns, i1 + r.2.toNat, value⟩)

theorem next_noskip {pl : PostingList} {it : It} {e : Nat} (hlt : it.i < pl.ids.length)
    (hscan : (if (it.i / 64 + 1) * 64 < pl.ids.length then scanBack pl.ids ((it.i / 64 + 1) * 64)
              else .ok ((it.i / 64 + 1) * 64)) = .ok e)
    (hne : it.i ≠ e) : next pl it = readAt pl it.ns it.value it.i := by
  unfold next readAt
  simp only [hscan]
  have h1 : ¬ it.i ≥ pl.ids.length := by omega
  simp only [h1, if_false, hne, false_and]

theorem next_skip {pl : PostingList} {it : It} (hlt : (it.i / 64 + 1) * 64 < pl.ids.length)
    (hscan : scanBack pl.ids ((it.i / 64 + 1) * 64) = .ok it.i) :
    next pl it = readAt pl it.ns it.value ((it.i / 64 + 1) * 64) := by
  unfold next readAt
  have h0 : it.i < pl.ids.length := by
    have := Nat.div_add_mod it.i 64
    have := Nat.mod_lt it.i (show 64 > 0 by omega)
    omega
  have h1 : ¬ it.i ≥ pl.ids.length := by omega
  have h2 : ¬ (it.i / 64 + 1) * 64 ≥ pl.ids.length := by omega
  simp only [h1, if_false, hlt, if_true, hscan, true_and, h2]

theorem readAt_varint {pl : PostingList} {k0 val i1 x : Nat} (hx : x < 2 ^ 64)
    (hp : putUvarint x <+: pl.ids.drop i1) :
    readAt pl k0 val i1 = .ok (true, ⟨walkIndex pl.header.namespaces i1 k0, i1 + (putUvarint x).length,
      if i1 % 64 = 0 then x else (val + x) % 2 ^ 64⟩) := by
  obtain ⟨post, hpost⟩ := hp
  unfold readAt
  rw [← hpost, uvarintRaw_putUvarint_append x hx post]
  have hpos := putUvarint_length_pos x
  have : ¬ ((putUvarint x).length : Int) ≤ 0 := by omega
  simp only [this, if_false, Int.toNat_natCast]

/-- `Next` on a block start (stale namespace index `k0 ≤ k'`, stale value): reads the block's first id -/
theorem next_atBlock {pl : PostingList} {q k' : Nat} {id : Id} {rest : List Id}
    (hs : NssSorted pl.header.namespaces)
    (h : AtBlock pl.ids pl.header.namespaces q k' id rest) (k0 val : Nat) (hk : k0 ≤ k') :
    next pl ⟨k0, q, val⟩ = .ok (true, ⟨k', q + (putUvarint id.2).length, id.2⟩) := by
  obtain ⟨hq, hv, hp, ⟨idx, hk', hidx⟩, hnext, _⟩ := h
  have hpos := putUvarint_length_pos id.2
  have hle := putUvarint_length_le id.2
  have hb := prefix_bound hp hpos
  obtain ⟨b, hb1, hb2⟩ := last_byte_of_prefix hv hp
  have hend : (q / 64 + 1) * 64 = q + 64 := by omega
  have hscan : ∃ e, (if (q / 64 + 1) * 64 < pl.ids.length then scanBack pl.ids ((q / 64 + 1) * 64)
              else .ok ((q / 64 + 1) * 64)) = .ok e ∧ q ≠ e := by
    rw [hend]
    by_cases hl : q + 64 < pl.ids.length
    · rw [if_pos hl]
      obtain ⟨r, h1, h2, _⟩ := scanBack_ge hb1 hb2 (q + 64) (by omega) (by omega)
      exact ⟨r, h1, by omega⟩
    · rw [if_neg hl]; exact ⟨q + 64, rfl, by omega⟩
  obtain ⟨e, hscan, hne⟩ := hscan
  rw [next_noskip (it := ⟨k0, q, val⟩) (by simp only; omega) hscan hne]
  simp only
  rw [readAt_varint hv hp, if_pos hq]
  have hw := walkIndex_reach hs hk' hidx hnext (k' - k0) k0 (by omega)
  rw [hw]

/-- `Next` from a `Lay` state reads the head id and lands in the `Lay` state of the tail -/
theorem next_lay {pl : PostingList} {p prev k : Nat} {id : Id} {rest : List Id}
    (hs : NssSorted pl.header.namespaces)
    (h : Lay pl.ids pl.header.namespaces p prev k (id :: rest)) :
    ∃ p' k', next pl ⟨k, p, prev⟩ = .ok (true, ⟨k', p', id.2⟩) ∧
      (∃ idx, pl.header.namespaces[k']? = some (id.1, idx) ∧ idx ≤ p') ∧ k ≤ k' ∧ p < p' ∧
      Lay pl.ids pl.header.namespaces p' id.2 k' rest ∧
      ((p % 64 ≠ 0 ∧ k' = k ∧ p' ≤ (p / 64 + 1) * 64 ∧ (∀ e, pl.header.namespaces[k + 1]? = some e → p < e.2)) ∨
       (AtBlock pl.ids pl.header.namespaces (p + padLen p) k' id rest ∧
         p' = p + padLen p + (putUvarint id.2).length)) := by
  unfold Lay at h
  obtain ⟨hv, h⟩ := h
  rcases h with ⟨hp64, hprev, hp, hfit, ⟨idx0, hk, hidx0⟩, hnext, hrest⟩ | ⟨k', hkk, hpad, hbefore, hp, ⟨idx, hk', hidx⟩, hnext, hrest⟩
  · -- delta inside the block
    have hx : id.2 - prev < 2 ^ 64 := by omega
    have hpos := putUvarint_length_pos (id.2 - prev)
    have hb := prefix_bound hp hpos
    obtain ⟨b, hb1, hb2⟩ := last_byte_of_prefix hx hp
    have hscan : ∃ e, (if (p / 64 + 1) * 64 < pl.ids.length then scanBack pl.ids ((p / 64 + 1) * 64)
                else .ok ((p / 64 + 1) * 64)) = .ok e ∧ p ≠ e := by
      by_cases hl : (p / 64 + 1) * 64 < pl.ids.length
      · rw [if_pos hl]
        obtain ⟨r, h1, h2, _⟩ := scanBack_ge hb1 hb2 ((p / 64 + 1) * 64) (by omega) (by omega)
        exact ⟨r, h1, by omega⟩
      · rw [if_neg hl]; exact ⟨_, rfl, by omega⟩
    obtain ⟨e, hscan, hne⟩ := hscan
    refine ⟨p + (putUvarint (id.2 - prev)).length, k, ?_, ⟨idx0, hk, by omega⟩, Nat.le_refl _, by omega, hrest,
      Or.inl ⟨hp64, rfl, by omega, hnext⟩⟩
    rw [next_noskip (it := ⟨k, p, prev⟩) (by simp only; omega) hscan hne]
    simp only
    rw [readAt_varint hx hp, if_neg hp64]
    have hw : walkIndex pl.header.namespaces p k = k := by
      unfold walkIndex
      apply walkIndexAux_stay
      intro e he
      rw [List.head?_drop] at he
      exact hnext e he
    rw [hw]
    have : (prev + (id.2 - prev)) % 2 ^ 64 = id.2 := by
      have : prev + (id.2 - prev) = id.2 := by omega
      rw [this]; exact Nat.mod_eq_of_lt hv
    rw [this]
  · -- next block start (after the padding, if any)
    have hat : AtBlock pl.ids pl.header.namespaces (p + padLen p) k' id rest :=
      ⟨padLen_mod p, hv, hp, ⟨idx, hk', hidx⟩, hnext, hrest⟩
    have hpos := putUvarint_length_pos id.2
    have hb := prefix_bound hp hpos
    refine ⟨p + padLen p + (putUvarint id.2).length, k', ?_, ⟨idx, hk', by omega⟩, hkk, by omega, hrest,
      Or.inr ⟨hat, rfl⟩⟩
    by_cases hp64 : p % 64 = 0
    · have : padLen p = 0 := padLen_zero hp64
      rw [this] at hat ⊢
      exact next_atBlock hs hat k prev hkk
    · -- in the padding: skip to the block end
      obtain ⟨b, hb1, hb2⟩ := hbefore hp64
      have hpl : padLen p = 64 - p % 64 := padLen_pos hp64
      have hend : (p / 64 + 1) * 64 = p + padLen p := by omega
      have hscan : scanBack pl.ids ((p / 64 + 1) * 64) = .ok p := by
        rw [hend]
        exact scanBack_eq (by omega) hb1 hb2 (p + padLen p) (by omega) hpad
      rw [next_skip (it := ⟨k, p, prev⟩) (by simp only; omega) hscan]
      simp only
      rw [hend, readAt_varint hv hp, if_pos (padLen_mod p)]
      have hw := walkIndex_reach hs hk' hidx hnext (k' - k) k (by omega)
      rw [hw]

theorem lay_length {full : Bytes} {nss : List NsIndex} : ∀ (l : List Id) (p prev k : Nat),
    Lay full nss p prev k l → p + l.length ≤ full.length := by
  intro l
  induction l with
  | nil => intro p prev k h; unfold Lay at h; simp; omega
  | cons id rest ih =>
    intro p prev k h
    unfold Lay at h
    obtain ⟨_, h⟩ := h
    rcases h with ⟨_, _, _, _, _, _, hrest⟩ | ⟨k', _, _, _, _, _, _, hrest⟩
    · have := ih _ _ _ hrest
      have := putUvarint_length_pos (id.2 - prev)
      simp only [List.length_cons]; omega
    · have := ih _ _ _ hrest
      have := putUvarint_length_pos id.2
      simp only [List.length_cons]; omega

/-- draining a `Lay` state yields exactly the list -/
theorem drainFuel_lay {pl : PostingList} (hs : NssSorted pl.header.namespaces) :
    ∀ (l : List Id) (p prev k fuel : Nat), Lay pl.ids pl.header.namespaces p prev k l → l.length < fuel →
      drainFuel pl fuel ⟨k, p, prev⟩ = some l := by
  intro l
  induction l with
  | nil =>
    intro p prev k fuel h hf
    unfold Lay at h
    cases fuel with
    | zero => simp at hf
    | succ fuel =>
      unfold drainFuel next
      simp [h]
  | cons id rest ih =>
    intro p prev k fuel h hf
    cases fuel with
    | zero => simp at hf
    | succ fuel =>
      obtain ⟨p', k', hn, ⟨idx, hk', _⟩, _, _, hrest, _⟩ := next_lay hs h
      unfold drainFuel
      rw [hn]
      simp only [cur, hk']
      rw [ih p' id.2 k' fuel hrest (by simp only [List.length_cons] at hf; omega)]

/-! ## one `Append`, by cases -/

theorem wrapSub_eq_mod {v prev : Nat} (hv : v < 2 ^ 64) (hp : prev < 2 ^ 64) :
    wrapSub v prev = (v + 2 ^ 64 - prev) % 2 ^ 64 := by
  unfold wrapSub; split <;> omega

theorem wrapSub_le {v prev : Nat} (h : prev ≤ v) : wrapSub v prev = v - prev := by
  unfold wrapSub; rw [if_pos h]

theorem wrapSub_zero (v : Nat) : wrapSub v 0 = v := by
  unfold wrapSub; rw [if_pos (Nat.zero_le v)]; rfl

theorem nsSwitch_same {s : Enc} {tnn : Nat} (h : tnn = s.tn) : nsSwitch s tnn = ([], none, s) := by
  simp [nsSwitch, h]

theorem nsSwitch_other {s : Enc} {tnn : Nat} (h : tnn ≠ s.tn) :
    nsSwitch s tnn = (padBytes s.len, some (tnn, s.len + padLen s.len),
      { s with tn := tnn, len := s.len + padLen s.len }) := by
  unfold nsSwitch; rw [if_pos h]

theorem blockReset_mid {s : Enc} (h64 : s.len % 64 ≠ 0) : blockReset s = s := by
  unfold blockReset; rw [if_neg h64]

theorem blockReset_start {s : Enc} (h64 : s.len % 64 = 0) :
    blockReset s = { s with start := s.len, previous := 0 } := by
  unfold blockReset; rw [if_pos h64]

theorem emit_delta {s : Enc} {v : Nat}
    (hc : ¬ (s.len - s.start) + (putUvarint (wrapSub v s.previous)).length > 64) :
    emit s v = (putUvarint (wrapSub v s.previous),
      { s with len := s.len + (putUvarint (wrapSub v s.previous)).length, previous := v }) := by
  unfold emit
  simp only []
  rw [if_neg hc]

theorem emit_cross {s : Enc} {v : Nat}
    (hc : (s.len - s.start) + (putUvarint (wrapSub v s.previous)).length > 64) :
    emit s v = (padBytes s.len ++ putUvarint v,
      { s with len := s.len + padLen s.len + (putUvarint v).length, start := s.len + padLen s.len, previous := v }) := by
  unfold emit
  simp only []
  rw [if_pos hc]

/-- the cases in which `Append` starts a new block with an absolute value -/
def FreshCond (s : Enc) (id : Id) : Prop :=
  id.1 ≠ s.tn ∨ s.len % 64 = 0 ∨ (s.len - s.start) + (putUvarint (wrapSub id.2 s.previous)).length > 64

theorem appendStep_fresh {s : Enc} {id : Id} (h : FreshCond s id) :
    appendStep s id = (padBytes s.len ++ putUvarint id.2,
      if id.1 ≠ s.tn then some (id.1, s.len + padLen s.len) else none,
      ⟨s.len + padLen s.len + (putUvarint id.2).length, id.1, s.len + padLen s.len, id.2⟩) := by
  have hle := putUvarint_length_le id.2
  have hmod := padLen_mod s.len
  unfold appendStep
  by_cases hsw : id.1 ≠ s.tn
  · rw [nsSwitch_other hsw, if_pos hsw]
    dsimp only
    rw [blockReset_start hmod]
    have hc : ¬ (s.len + padLen s.len - (s.len + padLen s.len) + (putUvarint (wrapSub id.2 0)).length > 64) := by
      rw [wrapSub_zero]; omega
    rw [emit_delta (s := { len := s.len + padLen s.len, tn := id.1, start := s.len + padLen s.len, previous := 0 }) hc]
    dsimp only
    rw [wrapSub_zero]
  · have hsw' : id.1 = s.tn := by
      apply Classical.byContradiction; intro hh; exact hsw hh
    rw [nsSwitch_same hsw', if_neg hsw]
    dsimp only
    by_cases h64 : s.len % 64 = 0
    · have hp0 : padLen s.len = 0 := padLen_zero h64
      rw [blockReset_start h64]
      have hc : ¬ (s.len - s.len + (putUvarint (wrapSub id.2 0)).length > 64) := by
        rw [wrapSub_zero]; omega
      rw [emit_delta (s := { len := s.len, tn := s.tn, start := s.len, previous := 0 }) hc]
      dsimp only
      rw [wrapSub_zero, hsw']
      simp only [padBytes, hp0, List.replicate_zero, List.nil_append, Nat.add_zero]
    · have hc : (s.len - s.start) + (putUvarint (wrapSub id.2 s.previous)).length > 64 := by
        rcases h with h | h | h
        · exact absurd h hsw
        · exact absurd h h64
        · exact h
      rw [blockReset_mid h64, emit_cross hc, hsw']
      simp only [List.nil_append]

theorem appendStep_delta {s : Enc} {id : Id} (h : ¬ FreshCond s id) :
    appendStep s id = (putUvarint (wrapSub id.2 s.previous), none,
      ⟨s.len + (putUvarint (wrapSub id.2 s.previous)).length, s.tn, s.start, id.2⟩) := by
  unfold FreshCond at h
  have hsw : id.1 = s.tn := by
    apply Classical.byContradiction; intro hh; exact h (Or.inl hh)
  have h64 : s.len % 64 ≠ 0 := fun hh => h (Or.inr (Or.inl hh))
  have hc : ¬ (s.len - s.start) + (putUvarint (wrapSub id.2 s.previous)).length > 64 :=
    fun hh => h (Or.inr (Or.inr hh))
  unfold appendStep
  rw [nsSwitch_same hsw]
  dsimp only
  rw [blockReset_mid h64, emit_delta hc]
  simp only [List.nil_append]

/-! ## the fold -/

theorem encodeFrom_cons (s : Enc) (id : Id) (rest : List Id) :
    encodeFrom s (id :: rest) =
      ((appendStep s id).1 ++ (encodeFrom (appendStep s id).2.2 rest).1,
       (appendStep s id).2.1.toList ++ (encodeFrom (appendStep s id).2.2 rest).2) := rfl

theorem appendStep_mono (s : Enc) (id : Id) :
    s.len < (appendStep s id).2.2.len ∧
    (∀ e, (appendStep s id).2.1 = some e → s.len ≤ e.2 ∧ e.2 < (appendStep s id).2.2.len) := by
  by_cases hf : FreshCond s id
  · rw [appendStep_fresh hf]
    have := putUvarint_length_pos id.2
    refine ⟨by dsimp only; omega, ?_⟩
    intro e he
    dsimp only at he ⊢
    split at he
    · simp only [Option.some.injEq] at he
      subst he; dsimp only; omega
    · simp at he
  · rw [appendStep_delta hf]
    have := putUvarint_length_pos (wrapSub id.2 s.previous)
    refine ⟨by dsimp only; omega, ?_⟩
    intro e he
    simp at he

theorem encodeFrom_nss_ge : ∀ (rest : List Id) (s : Enc) (e : NsIndex),
    e ∈ (encodeFrom s rest).2 → s.len ≤ e.2 := by
  intro rest
  induction rest with
  | nil => intro s e he; simp [encodeFrom] at he
  | cons id rest ih =>
    intro s e he
    rw [encodeFrom_cons] at he
    dsimp only at he
    obtain ⟨h1, h2⟩ := appendStep_mono s id
    rcases List.mem_append.1 he with h | h
    · cases hopt : (appendStep s id).2.1 with
      | none => rw [hopt] at h; simp at h
      | some e' =>
        rw [hopt] at h
        simp only [Option.toList_some, List.mem_singleton] at h
        subst h
        exact (h2 e hopt).1
    · have := ih _ e h
      omega

theorem encodeFrom_nss_sorted : ∀ (rest : List Id) (s : Enc), NssSorted (encodeFrom s rest).2 := by
  intro rest
  induction rest with
  | nil => intro s; simp [encodeFrom, NssSorted]
  | cons id rest ih =>
    intro s
    rw [encodeFrom_cons]
    dsimp only
    obtain ⟨h1, h2⟩ := appendStep_mono s id
    unfold NssSorted
    rw [List.pairwise_append]
    refine ⟨?_, ih _, ?_⟩
    · cases (appendStep s id).2.1 <;> simp
    · intro a ha b hb
      cases hopt : (appendStep s id).2.1 with
      | none => rw [hopt] at ha; simp at ha
      | some e' =>
        rw [hopt] at ha
        simp only [Option.toList_some, List.mem_singleton] at ha
        subst ha
        have := encodeFrom_nss_ge rest _ b hb
        have := (h2 a hopt).2
        omega

theorem drop_append_len {α : Type} {a b : List α} {n : Nat} (h : a.length = n) : (a ++ b).drop n = b := by
  subst h; simp

/-- what the encoder knows after some `Append`s: `pre` = bytes written, `nsPre` = namespace entries recorded -/
structure EncInv (s : Enc) (pre : Bytes) (nsPre : List NsIndex) : Prop where
  len : pre.length = s.len
  start : s.len % 64 ≠ 0 → s.start = s.len / 64 * 64
  last : s.len % 64 ≠ 0 → ∃ b, pre[s.len - 1]? = some b ∧ b ≠ 128
  tn0 : nsPre = [] → s.tn = 0
  tn1 : nsPre ≠ [] → ∃ idx, nsPre[nsPre.length - 1]? = some (s.tn, idx) ∧ idx ≤ s.len
  prev : s.previous < 2 ^ 64

/-- the id lists the encoder is correct for: values are `uint64`, no `TypeAndNamespace` 0, and inside a run
of equal `TypeAndNamespace` the values do not decrease (`tn`, `prev` = the id before the list) -/
def Chain : Nat → Nat → List Id → Prop
  | _, _, [] => True
  | tn, prev, id :: rest => id.2 < 2 ^ 64 ∧ id.1 ≠ 0 ∧ (id.1 = tn → prev ≤ id.2) ∧ Chain id.1 id.2 rest

theorem encInv_init : EncInv Enc.init [] [] where
  len := rfl
  start := by intro h; simp [Enc.init] at h
  last := by intro h; simp [Enc.init] at h
  tn0 := fun _ => rfl
  tn1 := fun h => absurd rfl h
  prev := by simp [Enc.init]

theorem getLastIdx_append_singleton {α : Type} (l : List α) (a : α) :
    (l ++ [a])[(l ++ [a]).length - 1]? = some a := by
  simp

/-- **the encoder establishes the layout** -/
theorem encodeFrom_lay : ∀ (rest : List Id) (s : Enc) (pre : Bytes) (nsPre : List NsIndex),
    EncInv s pre nsPre → Chain s.tn s.previous rest →
    Lay (pre ++ (encodeFrom s rest).1) (nsPre ++ (encodeFrom s rest).2) s.len s.previous
      (nsPre.length - 1) rest := by
  intro rest
  induction rest with
  | nil =>
    intro s pre nsPre inv _
    simp only [encodeFrom, List.append_nil, Lay]
    exact inv.len.symm
  | cons id rest ih =>
    intro s pre nsPre inv hch
    obtain ⟨hv, hne0, hprev, hch'⟩ := hch
    have hlen := inv.len
    rw [encodeFrom_cons]
    by_cases hf : FreshCond s id
    · -- a new block: padding (if any), then the absolute value
      rw [appendStep_fresh hf]
      dsimp only
      have hn1 := putUvarint_length_pos id.2
      have hn10 := putUvarint_length_le id.2
      have hmod := padLen_mod s.len
      have hplt := padLen_lt s.len
      have hpadlen := padBytes_length s.len
      -- the new state and what has been written
      let s' : Enc := ⟨s.len + padLen s.len + (putUvarint id.2).length, id.1, s.len + padLen s.len, id.2⟩
      let E : Option NsIndex := if id.1 ≠ s.tn then some (id.1, s.len + padLen s.len) else none
      have hpre'len : (pre ++ (padBytes s.len ++ putUvarint id.2)).length
          = s.len + padLen s.len + (putUvarint id.2).length := by
        simp only [List.length_append, hlen, hpadlen]; omega
      have hdropq : (pre ++ (padBytes s.len ++ putUvarint id.2)).drop (s.len + padLen s.len) = putUvarint id.2 := by
        rw [← List.append_assoc]
        exact drop_append_len (by simp only [List.length_append, hlen, hpadlen])
      -- the last namespace entry after this step
      have hlastns : (nsPre ++ E.toList) ≠ [] ∧
          ∃ idx, (nsPre ++ E.toList)[(nsPre ++ E.toList).length - 1]? = some (id.1, idx) ∧
            idx ≤ s.len + padLen s.len := by
        by_cases hsw : id.1 ≠ s.tn
        · have hE : E = some (id.1, s.len + padLen s.len) := if_pos hsw
          rw [hE]
          refine ⟨by simp, s.len + padLen s.len, ?_, Nat.le_refl _⟩
          simp
        · have hE : E = none := if_neg hsw
          have hsw' : id.1 = s.tn := by
            apply Classical.byContradiction; intro hh; exact hsw hh
          have hnn : nsPre ≠ [] := by
            intro h0; have := inv.tn0 h0; omega
          obtain ⟨idx, h1, h2⟩ := inv.tn1 hnn
          rw [hE]
          simp only [Option.toList_none, List.append_nil]
          exact ⟨hnn, idx, by rw [h1, hsw'], by omega⟩
      obtain ⟨hnsne, idx, hk', hidx⟩ := hlastns
      have inv' : EncInv s' (pre ++ (padBytes s.len ++ putUvarint id.2)) (nsPre ++ E.toList) := by
        refine ⟨hpre'len, ?_, ?_, fun h => absurd h hnsne, fun _ => ⟨idx, hk', ?_⟩, hv⟩
        · intro _; show s.len + padLen s.len = (s.len + padLen s.len + (putUvarint id.2).length) / 64 * 64
          omega
        · intro _
          show ∃ b, (pre ++ (padBytes s.len ++ putUvarint id.2))[s.len + padLen s.len + (putUvarint id.2).length - 1]? = some b ∧ b ≠ 128
          apply last_byte_of_prefix hv
          rw [hdropq]
          exact List.prefix_refl _
        · show idx ≤ s.len + padLen s.len + (putUvarint id.2).length
          omega
      have hIH := ih s' (pre ++ (padBytes s.len ++ putUvarint id.2)) (nsPre ++ E.toList) inv' hch'
      -- reassociate the buffers
      have hfull : pre ++ ((padBytes s.len ++ putUvarint id.2) ++ (encodeFrom s' rest).1)
          = (pre ++ (padBytes s.len ++ putUvarint id.2)) ++ (encodeFrom s' rest).1 := by
        simp only [List.append_assoc]
      have hnss : nsPre ++ (E.toList ++ (encodeFrom s' rest).2) = (nsPre ++ E.toList) ++ (encodeFrom s' rest).2 := by
        simp only [List.append_assoc]
      show Lay (pre ++ ((padBytes s.len ++ putUvarint id.2) ++ (encodeFrom s' rest).1))
        (nsPre ++ (E.toList ++ (encodeFrom s' rest).2)) s.len s.previous (nsPre.length - 1) (id :: rest)
      rw [hfull, hnss]
      unfold Lay
      refine ⟨hv, Or.inr ⟨(nsPre ++ E.toList).length - 1, ?_, ?_, ?_, ?_, ⟨idx, ?_, hidx⟩, ?_, hIH⟩⟩
      · simp only [List.length_append]; omega
      · -- the padding bytes
        intro i hi1 hi2
        rw [List.append_assoc, List.append_assoc]
        rw [List.getElem?_append_right (by omega)]
        rw [List.getElem?_append_left (by rw [hpadlen]; omega)]
        simp only [padBytes, List.getElem?_replicate]
        rw [if_pos (by omega)]
      · -- the byte before the padding
        intro h64
        obtain ⟨b, hb1, hb2⟩ := inv.last h64
        refine ⟨b, ?_, hb2⟩
        rw [List.append_assoc, List.getElem?_append_left (by omega)]
        exact hb1
      · -- the absolute varint at the block start
        rw [List.drop_append_of_le_length (by rw [hpre'len]; omega), hdropq]
        exact List.prefix_append _ _
      · rw [List.getElem?_append_left (by
          have : (nsPre ++ E.toList).length ≠ 0 := by
            intro h0; exact hnsne (List.eq_nil_of_length_eq_zero h0)
          omega)]
        exact hk'
      · -- the next namespace entry starts later
        intro e he
        have h1 : (nsPre ++ E.toList).length - 1 + 1 = (nsPre ++ E.toList).length := by
          have : (nsPre ++ E.toList).length ≠ 0 := by
            intro h0; exact hnsne (List.eq_nil_of_length_eq_zero h0)
          omega
        rw [h1, List.getElem?_append_right (Nat.le_refl _), Nat.sub_self] at he
        have hmem : e ∈ (encodeFrom s' rest).2 := List.mem_of_getElem? he
        have := encodeFrom_nss_ge rest s' e hmem
        show s.len + padLen s.len < e.2
        have : s'.len = s.len + padLen s.len + (putUvarint id.2).length := rfl
        omega
    · -- a delta inside the current block
      have hf' := hf
      unfold FreshCond at hf'
      have hsw : id.1 = s.tn := by
        apply Classical.byContradiction; intro hh; exact hf' (Or.inl hh)
      have h64 : s.len % 64 ≠ 0 := fun hh => hf' (Or.inr (Or.inl hh))
      have hle : s.previous ≤ id.2 := hprev hsw
      have hw : wrapSub id.2 s.previous = id.2 - s.previous := wrapSub_le hle
      have hc : ¬ (s.len - s.start) + (putUvarint (id.2 - s.previous)).length > 64 := by
        rw [← hw]; exact fun hh => hf' (Or.inr (Or.inr hh))
      rw [appendStep_delta hf, hw]
      dsimp only
      have hstart := inv.start h64
      have hn1 := putUvarint_length_pos (id.2 - s.previous)
      let s' : Enc := ⟨s.len + (putUvarint (id.2 - s.previous)).length, s.tn, s.start, id.2⟩
      have hnn : nsPre ≠ [] := by
        intro h0; have := inv.tn0 h0; omega
      obtain ⟨idx, hk, hidx⟩ := inv.tn1 hnn
      have hpre'len : (pre ++ putUvarint (id.2 - s.previous)).length = s.len + (putUvarint (id.2 - s.previous)).length := by
        simp only [List.length_append, hlen]
      have hx : id.2 - s.previous < 2 ^ 64 := by omega
      have hdrop : (pre ++ putUvarint (id.2 - s.previous)).drop s.len = putUvarint (id.2 - s.previous) :=
        drop_append_len hlen
      have inv' : EncInv s' (pre ++ putUvarint (id.2 - s.previous)) nsPre := by
        refine ⟨hpre'len, ?_, ?_, fun h => absurd h hnn, fun _ => ⟨idx, hk, ?_⟩, hv⟩
        · intro h; show s.start = (s.len + (putUvarint (id.2 - s.previous)).length) / 64 * 64
          have : (s.len + (putUvarint (id.2 - s.previous)).length) % 64 ≠ 0 := h
          omega
        · intro _
          show ∃ b, (pre ++ putUvarint (id.2 - s.previous))[s.len + (putUvarint (id.2 - s.previous)).length - 1]? = some b ∧ b ≠ 128
          apply last_byte_of_prefix hx
          rw [hdrop]
          exact List.prefix_refl _
        · show idx ≤ s.len + (putUvarint (id.2 - s.previous)).length
          omega
      have hch'' : Chain s'.tn s'.previous rest := by
        show Chain s.tn id.2 rest
        rw [← hsw]; exact hch'
      have hIH := ih s' (pre ++ putUvarint (id.2 - s.previous)) nsPre inv' hch''
      show Lay (pre ++ (putUvarint (id.2 - s.previous) ++ (encodeFrom s' rest).1))
        (nsPre ++ ((none : Option NsIndex).toList ++ (encodeFrom s' rest).2)) s.len s.previous (nsPre.length - 1) (id :: rest)
      have hfull : pre ++ (putUvarint (id.2 - s.previous) ++ (encodeFrom s' rest).1)
          = (pre ++ putUvarint (id.2 - s.previous)) ++ (encodeFrom s' rest).1 := by
        simp only [List.append_assoc]
      rw [hfull]
      simp only [Option.toList_none, List.nil_append]
      unfold Lay
      refine ⟨hv, Or.inl ⟨h64, hle, ?_, ?_, ⟨idx, ?_, hidx⟩, ?_, hIH⟩⟩
      · rw [List.drop_append_of_le_length (by rw [hpre'len]; omega), hdrop]
        exact List.prefix_append _ _
      · omega
      · rw [List.getElem?_append_left (by
          have : nsPre.length ≠ 0 := fun h0 => hnn (List.eq_nil_of_length_eq_zero h0)
          omega), hk, hsw]
      · intro e he
        have h1 : nsPre.length - 1 + 1 = nsPre.length := by
          have : nsPre.length ≠ 0 := fun h0 => hnn (List.eq_nil_of_length_eq_zero h0)
          omega
        rw [h1, List.getElem?_append_right (Nat.le_refl _), Nat.sub_self] at he
        have hmem : e ∈ (encodeFrom s' rest).2 := List.mem_of_getElem? he
        have := encodeFrom_nss_ge rest s' e hmem
        have : s'.len = s.len + (putUvarint (id.2 - s.previous)).length := rfl
        omega

/-! ## every block starts with an absolute varint of an id of the list -/

theorem lay_blocks {full : Bytes} {nss : List NsIndex} : ∀ (l : List Id) (p prev k : Nat),
    Lay full nss p prev k l → ∀ b, p ≤ 64 * b → 64 * b < full.length →
    ∃ a id c k', l = a ++ id :: c ∧ k ≤ k' ∧ AtBlock full nss (64 * b) k' id c ∧
      (∀ x ∈ a, ∃ kx idx, k ≤ kx ∧ nss[kx]? = some (x.1, idx) ∧ idx < 64 * b) := by
  intro l
  induction l with
  | nil =>
    intro p prev k h b h1 h2
    unfold Lay at h; omega
  | cons id rest ih =>
    intro p prev k h b h1 h2
    unfold Lay at h
    obtain ⟨hv, h⟩ := h
    rcases h with ⟨hp64, hprev, hp, hfit, ⟨idx0, hk, hidx0⟩, hnext, hrest⟩ |
      ⟨k', hkk, hpad, hbefore, hp, ⟨idx, hk', hidx⟩, hnext, hrest⟩
    · have hn := putUvarint_length_pos (id.2 - prev)
      obtain ⟨a, id', c, k'', hl, hk'', hat, hbef⟩ := ih _ _ _ hrest b (by omega) h2
      refine ⟨id :: a, id', c, k'', by rw [hl]; rfl, hk'', hat, ?_⟩
      intro x hx
      rcases List.mem_cons.1 hx with hx | hx
      · subst hx; exact ⟨k, idx0, Nat.le_refl _, hk, by omega⟩
      · exact hbef x hx
    · have hmod := padLen_mod p
      have hlt := padLen_lt p
      have hn := putUvarint_length_pos id.2
      have hn10 := putUvarint_length_le id.2
      by_cases hq : p + padLen p = 64 * b
      · refine ⟨[], id, rest, k', rfl, hkk, ?_, by simp⟩
        rw [← hq]
        exact ⟨hmod, hv, hp, ⟨idx, hk', hidx⟩, hnext, hrest⟩
      · obtain ⟨a, id', c, k'', hl, hk'', hat, hbef⟩ := ih _ _ _ hrest b (by omega) h2
        refine ⟨id :: a, id', c, k'', by rw [hl]; rfl, by omega, hat, ?_⟩
        intro x hx
        rcases List.mem_cons.1 hx with hx | hx
        · subst hx; exact ⟨k', idx, hkk, hk', by omega⟩
        · obtain ⟨kx, idxx, h1', h2', h3'⟩ := hbef x hx
          exact ⟨kx, idxx, by omega, h2', h3'⟩

/-- the padding of a block is exactly its trailing `0x80` bytes: stated for a `Lay` state that sits at the
end of a block's data (`p` not a block start, next id in a new block). -/
theorem lay_padding {full : Bytes} {nss : List NsIndex} {p prev k : Nat} {id : Id} {rest : List Id}
    (h : Lay full nss p prev k (id :: rest)) (hp : p % 64 ≠ 0)
    (hnew : ¬ putUvarint (id.2 - prev) <+: full.drop p ∨ ¬ prev ≤ id.2) :
    (∀ i, p ≤ i → i < p + padLen p → full[i]? = some 128) ∧ (∃ b, full[p - 1]? = some b ∧ b ≠ 128) := by
  unfold Lay at h
  obtain ⟨_, h⟩ := h
  rcases h with ⟨_, hprev, hpre, _⟩ | ⟨k', _, hpad, hbefore, _⟩
  · rcases hnew with h | h
    · exact absurd hpre h
    · exact absurd hprev h
  · exact ⟨hpad, hbefore hp⟩

/-! ## `Fill` -/

/-- strictly increasing in `(TypeAndNamespace, value)` -/
def idLt (a b : Id) : Prop := a.1 < b.1 ∨ (a.1 = b.1 ∧ a.2 < b.2)

instance (a b : Id) : Decidable (idLt a b) := by unfold idLt; infer_instance

def SortedIds (ids : List Id) : Prop := ids.Pairwise idLt

/-- values are `uint64`; `TypeAndNamespace` is not 0 (= point with the invalid namespace `""`) -/
def ValidIds (ids : List Id) : Prop := ∀ id ∈ ids, id.2 < 2 ^ 64 ∧ id.1 ≠ 0

theorem chain_of_sorted : ∀ (ids : List Id) (tn prev : Nat), ValidIds ids → SortedIds ids →
    (∀ id, ids.head? = some id → id.1 = tn → prev ≤ id.2) → Chain tn prev ids := by
  intro ids
  induction ids with
  | nil => intros; trivial
  | cons id rest ih =>
    intro tn prev hv hs hh
    have hvid := hv id (by simp)
    unfold SortedIds at hs
    rw [List.pairwise_cons] at hs
    refine ⟨hvid.1, hvid.2, hh id rfl, ih id.1 id.2 (fun x hx => hv x (by simp [hx])) hs.2 ?_⟩
    intro x hx hx1
    have hmem : x ∈ rest := List.mem_of_mem_head? hx
    have := hs.1 x hmem
    unfold idLt at this
    omega

theorem fill_lay (token : Bytes) (ids : List Id) (hv : ValidIds ids) (hs : SortedIds ids) :
    Lay (fill token ids).ids (fill token ids).header.namespaces 0 0 0 ids := by
  have hch : Chain Enc.init.tn Enc.init.previous ids :=
    chain_of_sorted ids 0 0 hv hs (fun _ _ _ => Nat.zero_le _)
  have := encodeFrom_lay ids Enc.init [] [] encInv_init hch
  simpa [fill, Enc.init] using this

theorem fill_nss_sorted (token : Bytes) (ids : List Id) : NssSorted (fill token ids).header.namespaces :=
  encodeFrom_nss_sorted ids Enc.init

theorem drain_fill (token : Bytes) (ids : List Id) (hv : ValidIds ids) (hs : SortedIds ids) :
    drain (fill token ids) = some ids := by
  have hl := fill_lay token ids hv hs
  have hlen := lay_length ids 0 0 0 hl
  unfold drain It.start
  exact drainFuel_lay (fill_nss_sorted token ids) ids 0 0 0 _ hl (by omega)

theorem appendStep_entry_aligned (s : Enc) (id : Id) (e : NsIndex) (he : (appendStep s id).2.1 = some e) :
    e.2 % 64 = 0 := by
  by_cases hf : FreshCond s id
  · rw [appendStep_fresh hf] at he
    dsimp only at he
    split at he
    · simp only [Option.some.injEq] at he
      subst he; exact padLen_mod s.len
    · simp at he
  · rw [appendStep_delta hf] at he
    simp at he

/-- namespaces start on block boundaries -/
theorem encodeFrom_nss_aligned : ∀ (rest : List Id) (s : Enc) (e : NsIndex),
    e ∈ (encodeFrom s rest).2 → e.2 % 64 = 0 := by
  intro rest
  induction rest with
  | nil => intro s e he; simp [encodeFrom] at he
  | cons id rest ih =>
    intro s e he
    rw [encodeFrom_cons] at he
    dsimp only at he
    rcases List.mem_append.1 he with h | h
    · cases hopt : (appendStep s id).2.1 with
      | none => rw [hopt] at h; simp at h
      | some e' =>
        rw [hopt] at h
        simp only [Option.toList_some, List.mem_singleton] at h
        subst h
        exact appendStep_entry_aligned s id e hopt
    · exact ih _ e h

theorem fill_nss_aligned (token : Bytes) (ids : List Id) :
    ∀ e ∈ (fill token ids).header.namespaces, e.2 % 64 = 0 :=
  fun e he => encodeFrom_nss_aligned ids Enc.init e he

/-- every namespace entry points inside the buffer -/
theorem encodeFrom_nss_inRange : ∀ (rest : List Id) (s : Enc) (e : NsIndex),
    e ∈ (encodeFrom s rest).2 → e.2 < s.len + (encodeFrom s rest).1.length := by
  intro rest
  induction rest with
  | nil => intro s e he; simp [encodeFrom] at he
  | cons id rest ih =>
    intro s e he
    rw [encodeFrom_cons] at he ⊢
    dsimp only at he ⊢
    obtain ⟨h1, h2⟩ := appendStep_mono s id
    have hlen : (appendStep s id).1.length + s.len = (appendStep s id).2.2.len := by
      by_cases hf : FreshCond s id
      · rw [appendStep_fresh hf]; simp only [List.length_append, padBytes_length]; omega
      · rw [appendStep_delta hf]; dsimp only; omega
    rw [List.length_append]
    rcases List.mem_append.1 he with h | h
    · cases hopt : (appendStep s id).2.1 with
      | none => rw [hopt] at h; simp at h
      | some e' =>
        rw [hopt] at h
        simp only [Option.toList_some, List.mem_singleton] at h
        subst h
        have := (h2 e hopt).2
        omega
    · have := ih _ e h
      omega

theorem fill_nss_inRange (token : Bytes) (ids : List Id) :
    ∀ e ∈ (fill token ids).header.namespaces, e.2 < (fill token ids).ids.length := by
  intro e he
  have := encodeFrom_nss_inRange ids Enc.init e he
  simpa [fill, Enc.init] using this

/-- **block invariant** of the encoder output: every 64-byte block starts with the absolute varint of an id of
the list, in the namespace whose index range contains the block, and the rest of the list is laid out behind it. -/
theorem fill_blocks (token : Bytes) (ids : List Id) (hv : ValidIds ids) (hs : SortedIds ids) (b : Nat)
    (hb : 64 * b < (fill token ids).ids.length) :
    ∃ a id c k', ids = a ++ id :: c ∧
      AtBlock (fill token ids).ids (fill token ids).header.namespaces (64 * b) k' id c :=
  by
    obtain ⟨a, id, c, k', h1, _, h2, _⟩ := lay_blocks ids 0 0 0 (fill_lay token ids hv hs) b (Nat.zero_le _) hb
    exact ⟨a, id, c, k', h1, h2⟩

end B6.Model.Posting
