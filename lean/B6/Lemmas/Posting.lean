import B6.Model.Posting
import B6.Lemmas.Varint
/-!
# Posting lists, part 1: the layout relation `Lay`, the encoder establishes it, `Next` follows it

`Lay full nss p prev k l` — "the ids `l` are laid out in `full` from byte `p` to the end": `p` is the position
the iterator holds after the previous id (it may lie in the padding of its block), `prev` the previous value
of the block, `k` the namespace index of the previous id.  Each id is either a delta varint inside the
current block, or — after the padding, at the next block start — an absolute varint (`AtBlock`).

* `encodeFrom_lay` / `fill_lay`: the encoder output satisfies `Lay … 0 0 0 ids` (any chain of ids whose
  values do not decrease inside a run of equal `TypeAndNamespace`; values `< 2^64`; no `TypeAndNamespace` 0).
* `next_lay`: `Iterator.Next` from a `Lay` state reads exactly the head id and lands in the `Lay` state of the tail.
* `next_atBlock`: the same when the iterator is dropped on a block start with a stale namespace / value
  (what `Advance` does after its binary search).
* `drainFuel_lay`: draining a `Lay` state yields the list.
-/
namespace B6.Model.Posting
open B6.Model.Varint

/-! ## arithmetic of padding -/

theorem padLen_lt (n : Nat) : padLen n < 64 := by unfold padLen; split <;> omega
theorem padLen_mod (n : Nat) : (n + padLen n) % 64 = 0 := by unfold padLen; split <;> omega
theorem padLen_zero {n : Nat} (h : n % 64 = 0) : padLen n = 0 := by unfold padLen; split <;> omega
theorem padLen_pos {n : Nat} (h : n % 64 ≠ 0) : padLen n = 64 - n % 64 := by unfold padLen; split <;> omega
theorem padBytes_length (n : Nat) : (padBytes n).length = padLen n := by simp [padBytes]

/-! ## the last byte of a varint is not the padding byte -/

theorem putUvarintFuel_last (f : Nat) : ∀ v, v < 2 ^ (7 * f + 7) →
    ∃ init b, putUvarintFuel f v = init ++ [b] ∧ b.toNat < 128 := by
  induction f with
  | zero =>
    intro v hv
    refine ⟨[], v.toUInt8, by simp [putUvarintFuel], ?_⟩
    simp [Nat.toUInt8, UInt8.toNat_ofNat'] ; omega
  | succ f ih =>
    intro v hv
    unfold putUvarintFuel
    split
    · rename_i hlt
      refine ⟨[], v.toUInt8, by simp, ?_⟩
      simp [Nat.toUInt8, UInt8.toNat_ofNat']; omega
    · have hpow : v / 128 < 2 ^ (7 * f + 7) := by
        have e : 2 ^ (7 * (f + 1) + 7) = 2 ^ (7 * f + 7) * 128 := by
          have : 7 * (f + 1) + 7 = (7 * f + 7) + 7 := by omega
          rw [this, Nat.pow_add]
        rw [e] at hv
        exact Nat.div_lt_of_lt_mul (by rw [Nat.mul_comm]; exact hv)
      obtain ⟨init, b, h1, h2⟩ := ih (v / 128) hpow
      exact ⟨(v % 128 + 128).toUInt8 :: init, b, by rw [h1]; rfl, h2⟩

theorem putUvarint_last (v : Nat) (hv : v < 2 ^ 64) :
    ∃ init b, putUvarint v = init ++ [b] ∧ b ≠ 128 := by
  obtain ⟨init, b, h1, h2⟩ := putUvarintFuel_last 9 v (by omega)
  refine ⟨init, b, h1, ?_⟩
  intro h; rw [h] at h2; simp at h2

/-- in any buffer that continues with `putUvarint v` at `p`, the byte before `p + len` is not padding -/
theorem last_byte_of_prefix {full : Bytes} {p v : Nat} (hv : v < 2 ^ 64)
    (hp : putUvarint v <+: full.drop p) :
    ∃ b, full[p + (putUvarint v).length - 1]? = some b ∧ b ≠ 128 := by
  obtain ⟨init, b, h1, h2⟩ := putUvarint_last v hv
  obtain ⟨post, hpost⟩ := hp
  refine ⟨b, ?_, h2⟩
  have hl : (putUvarint v).length = init.length + 1 := by rw [h1]; simp
  have : (full.drop p)[init.length]? = some b := by
    rw [← hpost, h1]; simp
  rw [List.getElem?_drop] at this
  rw [hl]
  have e : p + (init.length + 1) - 1 = p + init.length := by omega
  rw [e]; exact this

/-! ## `scanBack` -/

/-- a non-padding byte at `j` stops the scan above `j` -/
theorem scanBack_ge {full : Bytes} {j : Nat} {b : UInt8} (hj : full[j]? = some b) (hb : b ≠ 128) :
    ∀ e, j < e → e ≤ full.length → ∃ r, scanBack full e = .ok r ∧ j + 1 ≤ r ∧ r ≤ e := by
  intro e
  induction e with
  | zero => intro h; omega
  | succ e ih =>
    intro hje hlen
    unfold scanBack
    have hlt : e < full.length := by omega
    rw [List.getElem?_eq_getElem hlt]
    simp only
    by_cases h128 : full[e] = 128
    · rw [if_pos h128]
      have hne : j ≠ e := by
        intro hje'; subst hje'
        rw [List.getElem?_eq_getElem hlt] at hj
        simp only [Option.some.injEq] at hj
        exact hb (hj ▸ h128)
      obtain ⟨r, h1, h2, h3⟩ := ih (by omega) (by omega)
      exact ⟨r, h1, h2, by omega⟩
    · rw [if_neg h128]
      exact ⟨e + 1, rfl, by omega, by omega⟩

/-- the padding `[p, e)` is skipped exactly: the byte before `p` is not padding -/
theorem scanBack_eq {full : Bytes} {p : Nat} {b : UInt8} (hp : 1 ≤ p) (hb0 : full[p - 1]? = some b) (hb : b ≠ 128) :
    ∀ e, p ≤ e → (∀ i, p ≤ i → i < e → full[i]? = some 128) → scanBack full e = .ok p := by
  intro e
  induction e with
  | zero => intro h; omega
  | succ e ih =>
    intro hpe hpad
    unfold scanBack
    by_cases hep : p = e + 1
    · have : e = p - 1 := by omega
      rw [this, hb0]
      simp only [hb, if_false]
      rw [hep]; simp
    · have := hpad e (by omega) (by omega)
      rw [this]
      simp only [if_true]
      exact ih (by omega) (fun i h1 h2 => hpad i h1 (by omega))

/-! ## namespace walks -/

/-- indices of the namespace entries strictly increase -/
def NssSorted (nss : List NsIndex) : Prop := nss.Pairwise (fun a b => a.2 < b.2)

theorem walkIndexAux_stay (i : Nat) (l : List NsIndex) (ns : Nat)
    (h : ∀ e, l.head? = some e → i < e.2) : walkIndexAux i l ns = ns := by
  cases l with
  | nil => rfl
  | cons e rest =>
    have := h e rfl
    simp only [walkIndexAux]
    rw [if_neg (by omega)]

/-- from a stale `k0 ≤ k'` the walk reaches the namespace `k'` that contains byte `q` -/
theorem walkIndex_reach {nss : List NsIndex} (hs : NssSorted nss) {q k' : Nat} {e' : NsIndex}
    (hk' : nss[k']? = some e') (hle : e'.2 ≤ q) (hnext : ∀ e, nss[k' + 1]? = some e → q < e.2) :
    ∀ d k0, k0 + d = k' → walkIndex nss q k0 = k' := by
  intro d
  induction d with
  | zero =>
    intro k0 h0
    have : k0 = k' := by omega
    subst this
    unfold walkIndex
    apply walkIndexAux_stay
    intro e he
    apply hnext e
    rw [List.head?_drop] at he
    exact he
  | succ d ih =>
    intro k0 h0
    unfold walkIndex
    have hlt : k' < nss.length := by
      have := List.getElem?_eq_some_iff.1 hk'
      exact this.1
    have hk1 : k0 + 1 < nss.length := by omega
    rw [List.drop_eq_getElem_cons hk1]
    simp only [walkIndexAux]
    have hidx : nss[k0 + 1].2 ≤ q := by
      by_cases heq : k0 + 1 = k'
      · subst heq
        rw [List.getElem?_eq_getElem hk1] at hk'
        simp only [Option.some.injEq] at hk'
        rw [hk']; exact hle
      · have hk'2 : nss[k'] = e' := by
          rw [List.getElem?_eq_getElem hlt] at hk'
          simpa using hk'
        have := List.pairwise_iff_getElem.1 hs (k0 + 1) k' hk1 hlt (by omega)
        rw [hk'2] at this
        omega
    rw [if_pos hidx]
    have := ih (k0 + 1) (by omega)
    unfold walkIndex at this
    exact this

/-! ## the layout relation -/

/-- `Lay full nss p prev k l`: see the file header. -/
def Lay (full : Bytes) (nss : List NsIndex) : Nat → Nat → Nat → List Id → Prop
  | p, _, _, [] => p = full.length
  | p, prev, k, id :: rest =>
    id.2 < 2 ^ 64 ∧
    ((p % 64 ≠ 0 ∧ prev ≤ id.2 ∧ putUvarint (id.2 - prev) <+: full.drop p ∧
        p % 64 + (putUvarint (id.2 - prev)).length ≤ 64 ∧
        (∃ idx, nss[k]? = some (id.1, idx)) ∧ (∀ e, nss[k + 1]? = some e → p < e.2) ∧
        Lay full nss (p + (putUvarint (id.2 - prev)).length) id.2 k rest)
     ∨
     (∃ k', k ≤ k' ∧
        (∀ i, p ≤ i → i < p + padLen p → full[i]? = some 128) ∧
        (p % 64 ≠ 0 → ∃ b, full[p - 1]? = some b ∧ b ≠ 128) ∧
        putUvarint id.2 <+: full.drop (p + padLen p) ∧
        (∃ idx, nss[k']? = some (id.1, idx) ∧ idx ≤ p + padLen p) ∧
        (∀ e, nss[k' + 1]? = some e → p + padLen p < e.2) ∧
        Lay full nss (p + padLen p + (putUvarint id.2).length) id.2 k' rest))

/-- the id `id` starts the block at byte `q` (absolute varint), in namespace `k'`; `rest` follows -/
def AtBlock (full : Bytes) (nss : List NsIndex) (q k' : Nat) (id : Id) (rest : List Id) : Prop :=
  q % 64 = 0 ∧ id.2 < 2 ^ 64 ∧ putUvarint id.2 <+: full.drop q ∧
  (∃ idx, nss[k']? = some (id.1, idx) ∧ idx ≤ q) ∧
  (∀ e, nss[k' + 1]? = some e → q < e.2) ∧
  Lay full nss (q + (putUvarint id.2).length) id.2 k' rest

theorem prefix_bound {full x : Bytes} {q : Nat} (h : x <+: full.drop q) (hx : 1 ≤ x.length) :
    q + x.length ≤ full.length := by
  have := h.length_le
  simp only [List.length_drop] at this
  omega

/-! ## `Next` in two steps: where to read, then read -/

/-- the tail of `Iterator.Next` once the read position `i1` is known -/
def readAt (pl : PostingList) (k0 val i1 : Nat) : Except Err (Bool × It) :=
  let ns := walkIndex pl.header.namespaces i1 k0
  let r := uvarintRaw (pl.ids.drop i1)
  if r.2 ≤ 0 then .error .corrupt else
  let value := if i1 % 64 = 0 then r.1 else (val + r.1) % 2 ^ 64
  .ok (true, ⟨ns, i1 + r.2.toNat, value⟩)

theorem next_noskip {pl : PostingList} {it : It} {e : Nat} (hlt : it.i < pl.ids.length)
    (hscan : (if (it.i / 64 + 1) * 64 < pl.ids.length then scanBack pl.ids ((it.i / 64 + 1) * 64)
              else .ok ((it.i / 64 + 1) * 64)) = .ok e)
    (hne : it.i ≠ e) : next pl it = readAt pl it.ns it.value it.i := by
  unfold next readAt
  simp only [hscan]
  have h1 : ¬ it.i ≥ pl.ids.length := by omega
  simp only [h1, if_false, hne, false_and]

theorem next_skip {pl : PostingList} {it : It} (hlt : (it.i / 64 + 1) * 64 < pl.ids.length)
    (hscan : scanBack pl.ids ((it.i / 64 + 1) * 64) = .ok it.i) :
    next pl it = readAt pl it.ns it.value ((it.i / 64 + 1) * 64) := by
  unfold next readAt
  have h0 : it.i < pl.ids.length := by
    have := Nat.div_add_mod it.i 64
    have := Nat.mod_lt it.i (show 64 > 0 by omega)
    omega
  have h1 : ¬ it.i ≥ pl.ids.length := by omega
  have h2 : ¬ (it.i / 64 + 1) * 64 ≥ pl.ids.length := by omega
  simp only [h1, if_false, hlt, if_true, hscan, true_and, h2]

theorem readAt_varint {pl : PostingList} {k0 val i1 x : Nat} (hx : x < 2 ^ 64)
    (hp : putUvarint x <+: pl.ids.drop i1) :
    readAt pl k0 val i1 = .ok (true, ⟨walkIndex pl.header.namespaces i1 k0, i1 + (putUvarint x).length,
      if i1 % 64 = 0 then x else (val + x) % 2 ^ 64⟩) := by
  obtain ⟨post, hpost⟩ := hp
  unfold readAt
  rw [← hpost, uvarintRaw_putUvarint_append x hx post]
  have hpos := putUvarint_length_pos x
  have : ¬ ((putUvarint x).length : Int) ≤ 0 := by omega
  simp only [this, if_false, Int.toNat_natCast]

/-- `Next` on a block start (stale namespace index `k0 ≤ k'`, stale value): reads the block's first id -/
theorem next_atBlock {pl : PostingList} {q k' : Nat} {id : Id} {rest : List Id}
    (hs : NssSorted pl.header.namespaces)
    (h : AtBlock pl.ids pl.header.namespaces q k' id rest) (k0 val : Nat) (hk : k0 ≤ k') :
    next pl ⟨k0, q, val⟩ = .ok (true, ⟨k', q + (putUvarint id.2).length, id.2⟩) := by
  obtain ⟨hq, hv, hp, ⟨idx, hk', hidx⟩, hnext, _⟩ := h
  have hpos := putUvarint_length_pos id.2
  have hle := putUvarint_length_le id.2
  have hb := prefix_bound hp hpos
  obtain ⟨b, hb1, hb2⟩ := last_byte_of_prefix hv hp
  have hend : (q / 64 + 1) * 64 = q + 64 := by omega
  have hscan : ∃ e, (if (q / 64 + 1) * 64 < pl.ids.length then scanBack pl.ids ((q / 64 + 1) * 64)
              else .ok ((q / 64 + 1) * 64)) = .ok e ∧ q ≠ e := by
    rw [hend]
    by_cases hl : q + 64 < pl.ids.length
    · rw [if_pos hl]
      obtain ⟨r, h1, h2, _⟩ := scanBack_ge hb1 hb2 (q + 64) (by omega) (by omega)
      exact ⟨r, h1, by omega⟩
    · rw [if_neg hl]; exact ⟨q + 64, rfl, by omega⟩
  obtain ⟨e, hscan, hne⟩ := hscan
  rw [next_noskip (it := ⟨k0, q, val⟩) (by simp only; omega) hscan hne]
  simp only
  rw [readAt_varint hv hp, if_pos hq]
  have hw := walkIndex_reach hs hk' hidx hnext (k' - k0) k0 (by omega)
  rw [hw]

/-- `Next` from a `Lay` state reads the head id and lands in the `Lay` state of the tail -/
theorem next_lay {pl : PostingList} {p prev k : Nat} {id : Id} {rest : List Id}
    (hs : NssSorted pl.header.namespaces)
    (h : Lay pl.ids pl.header.namespaces p prev k (id :: rest)) :
    ∃ p' k', next pl ⟨k, p, prev⟩ = .ok (true, ⟨k', p', id.2⟩) ∧
      (∃ idx, pl.header.namespaces[k']? = some (id.1, idx)) ∧ k ≤ k' ∧ p < p' ∧
      Lay pl.ids pl.header.namespaces p' id.2 k' rest := by
  unfold Lay at h
  obtain ⟨hv, h⟩ := h
  rcases h with ⟨hp64, hprev, hp, hfit, hk, hnext, hrest⟩ | ⟨k', hkk, hpad, hbefore, hp, ⟨idx, hk', hidx⟩, hnext, hrest⟩
  · -- delta inside the block
    have hx : id.2 - prev < 2 ^ 64 := by omega
    have hpos := putUvarint_length_pos (id.2 - prev)
    have hb := prefix_bound hp hpos
    obtain ⟨b, hb1, hb2⟩ := last_byte_of_prefix hx hp
    have hscan : ∃ e, (if (p / 64 + 1) * 64 < pl.ids.length then scanBack pl.ids ((p / 64 + 1) * 64)
                else .ok ((p / 64 + 1) * 64)) = .ok e ∧ p ≠ e := by
      by_cases hl : (p / 64 + 1) * 64 < pl.ids.length
      · rw [if_pos hl]
        obtain ⟨r, h1, h2, _⟩ := scanBack_ge hb1 hb2 ((p / 64 + 1) * 64) (by omega) (by omega)
        exact ⟨r, h1, by omega⟩
      · rw [if_neg hl]; exact ⟨_, rfl, by omega⟩
    obtain ⟨e, hscan, hne⟩ := hscan
    refine ⟨p + (putUvarint (id.2 - prev)).length, k, ?_, hk, Nat.le_refl _, by omega, hrest⟩
    rw [next_noskip (it := ⟨k, p, prev⟩) (by simp only; omega) hscan hne]
    simp only
    rw [readAt_varint hx hp, if_neg hp64]
    have hw : walkIndex pl.header.namespaces p k = k := by
      unfold walkIndex
      apply walkIndexAux_stay
      intro e he
      rw [List.head?_drop] at he
      exact hnext e he
    rw [hw]
    have : (prev + (id.2 - prev)) % 2 ^ 64 = id.2 := by
      have : prev + (id.2 - prev) = id.2 := by omega
      rw [this]; exact Nat.mod_eq_of_lt hv
    rw [this]
  · -- next block start (after the padding, if any)
    have hat : AtBlock pl.ids pl.header.namespaces (p + padLen p) k' id rest :=
      ⟨padLen_mod p, hv, hp, ⟨idx, hk', hidx⟩, hnext, hrest⟩
    have hpos := putUvarint_length_pos id.2
    have hb := prefix_bound hp hpos
    refine ⟨p + padLen p + (putUvarint id.2).length, k', ?_, ⟨idx, hk'⟩, hkk, by omega, hrest⟩
    by_cases hp64 : p % 64 = 0
    · have : padLen p = 0 := padLen_zero hp64
      rw [this] at hat ⊢
      exact next_atBlock hs hat k prev hkk
    · -- in the padding: skip to the block end
      obtain ⟨b, hb1, hb2⟩ := hbefore hp64
      have hpl : padLen p = 64 - p % 64 := padLen_pos hp64
      have hend : (p / 64 + 1) * 64 = p + padLen p := by omega
      have hscan : scanBack pl.ids ((p / 64 + 1) * 64) = .ok p := by
        rw [hend]
        exact scanBack_eq (by omega) hb1 hb2 (p + padLen p) (by omega) hpad
      rw [next_skip (it := ⟨k, p, prev⟩) (by simp only; omega) hscan]
      simp only
      rw [hend, readAt_varint hv hp, if_pos (padLen_mod p)]
      have hw := walkIndex_reach hs hk' hidx hnext (k' - k) k (by omega)
      rw [hw]

theorem lay_length {full : Bytes} {nss : List NsIndex} : ∀ (l : List Id) (p prev k : Nat),
    Lay full nss p prev k l → p + l.length ≤ full.length := by
  intro l
  induction l with
  | nil => intro p prev k h; unfold Lay at h; simp; omega
  | cons id rest ih =>
    intro p prev k h
    unfold Lay at h
    obtain ⟨_, h⟩ := h
    rcases h with ⟨_, _, _, _, _, _, hrest⟩ | ⟨k', _, _, _, _, _, _, hrest⟩
    · have := ih _ _ _ hrest
      have := putUvarint_length_pos (id.2 - prev)
      simp only [List.length_cons]; omega
    · have := ih _ _ _ hrest
      have := putUvarint_length_pos id.2
      simp only [List.length_cons]; omega

/-- draining a `Lay` state yields exactly the list -/
theorem drainFuel_lay {pl : PostingList} (hs : NssSorted pl.header.namespaces) :
    ∀ (l : List Id) (p prev k fuel : Nat), Lay pl.ids pl.header.namespaces p prev k l → l.length < fuel →
      drainFuel pl fuel ⟨k, p, prev⟩ = some l := by
  intro l
  induction l with
  | nil =>
    intro p prev k fuel h hf
    unfold Lay at h
    cases fuel with
    | zero => simp at hf
    | succ fuel =>
      unfold drainFuel next
      simp [h]
  | cons id rest ih =>
    intro p prev k fuel h hf
    cases fuel with
    | zero => simp at hf
    | succ fuel =>
      obtain ⟨p', k', hn, ⟨idx, hk'⟩, _, _, hrest⟩ := next_lay hs h
      unfold drainFuel
      rw [hn]
      simp only [cur, hk']
      rw [ih p' id.2 k' fuel hrest (by simp only [List.length_cons] at hf; omega)]

end B6.Model.Posting
