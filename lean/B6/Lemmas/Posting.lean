import B6.Model.Posting
import B6.Lemmas.Varint
/-!
# Posting lists, part 1: the layout relation `Lay`, the encoder establishes it, `Next` follows it

`Lay full nss p prev k l` — "the ids `l` are laid out in `full` from byte `p` to the end": `p` is the position
the iterator holds after the previous id (it may lie in the padding of its block), `prev` the previous value
of the block, `k` the namespace index of the previous id.  Each id is either a delta varint inside the
current block, or — after the padding, at the next block start — an absolute varint (`AtBlock`).

* `encodeFrom_lay` / `fill_lay`: the encoder output satisfies `Lay … 0 0 0 ids` (any chain of ids whose
  values do not decrease inside a run of equal `TypeAndNamespace`; values `< 2^64`; no `TypeAndNamespace` 0).
* `next_lay`: `Iterator.Next` from a `Lay` state reads exactly the head id and lands in the `Lay` state of the tail.
* `next_atBlock`: the same when the iterator is dropped on a block start with a stale namespace / value
  (what `Advance` does after its binary search).
* `drainFuel_lay`: draining a `Lay` state yields the list.
-/
namespace B6.Model.Posting
open B6.Model.Varint

/-! ## arithmetic of padding -/

theorem padLen_lt (n : Nat) : padLen n < 64 := by unfold padLen; split <;> omega
theorem padLen_mod (n : Nat) : (n + padLen n) % 64 = 0 := by unfold padLen; split <;> omega
theorem padLen_zero {n : Nat} (h : n % 64 = 0) : padLen n = 0 := by unfold padLen; split <;> omega
theorem padLen_pos {n : Nat} (h : n % 64 ≠ 0) : padLen n = 64 - n % 64 := by unfold padLen; split <;> omega
theorem padBytes_length (n : Nat) : (padBytes n).length = padLen n := by simp [padBytes]

/-! ## the last byte of a varint is not the padding byte -/

theorem putUvarintFuel_last (f : Nat) : ∀ v, v < 2 ^ (7 * f + 7) →
    ∃ init b, putUvarintFuel f v = init ++ [b] ∧ b.toNat < 128 := by
  induction f with
  | zero =>
    intro v hv
    refine ⟨[], v.toUInt8, by simp [putUvarintFuel], ?_⟩
    simp [Nat.toUInt8, UInt8.toNat_ofNat'] ; omega
  | succ f ih =>
    intro v hv
    unfold putUvarintFuel
    split
    · rename_i hlt
      refine ⟨[], v.toUInt8, by simp, ?_⟩
      simp [Nat.toUInt8, UInt8.toNat_ofNat']; omega
    · have hpow : v / 128 < 2 ^ (7 * f + 7) := by
        have e : 2 ^ (7 * (f + 1) + 7) = 2 ^ (7 * f + 7) * 128 := by
          have : 7 * (f + 1) + 7 = (7 * f + 7) + 7 := by omega
          rw [this, Nat.pow_add]
        rw [e] at hv
        exact Nat.div_lt_of_lt_mul (by rw [Nat.mul_comm]; exact hv)
      obtain ⟨init, b, h1, h2⟩ := ih (v / 128) hpow
      exact ⟨_ :: init, b, by rw [h1]; simp, h2⟩

theorem putUvarint_last (v : Nat) (hv : v < 2 ^ 64) :
    ∃ init b, putUvarint v = init ++ [b] ∧ b ≠ 128 := by
  obtain ⟨init, b, h1, h2⟩ := putUvarintFuel_last 9 v (by omega)
  refine ⟨init, b, h1, ?_⟩
  intro h; rw [h] at h2; simp at h2

/-- in any buffer that continues with `putUvarint v` at `p`, the byte before `p + len` is not padding -/
theorem last_byte_of_prefix {full : Bytes} {p v : Nat} (hv : v < 2 ^ 64)
    (hp : putUvarint v <+: full.drop p) :
    ∃ b, full[p + (putUvarint v).length - 1]? = some b ∧ b ≠ 128 := by
  obtain ⟨init, b, h1, h2⟩ := putUvarint_last v hv
  obtain ⟨post, hpost⟩ := hp
  refine ⟨b, ?_, h2⟩
  have hl : (putUvarint v).length = init.length + 1 := by rw [h1]; simp
  have : (full.drop p)[init.length]? = some b := by
    rw [← hpost, h1]; simp
  rw [List.getElem?_drop] at this
  rw [hl]
  have e : p + (init.length + 1) - 1 = p + init.length := by omega
  rw [e]; exact this

/-! ## `scanBack` -/

/-- a non-padding byte at `j` stops the scan above `j` -/
theorem scanBack_ge {full : Bytes} {j : Nat} {b : UInt8} (hj : full[j]? = some b) (hb : b ≠ 128) :
    ∀ e, j < e → e ≤ full.length → ∃ r, scanBack full e = .ok r ∧ j + 1 ≤ r ∧ r ≤ e := by
  intro e
  induction e with
  | zero => intro h; omega
  | succ e ih =>
    intro hje hlen
    unfold scanBack
    have hlt : e < full.length := by omega
    rw [List.getElem?_eq_getElem hlt]
    simp only
    by_cases h128 : full[e] = 128
    · rw [if_pos h128]
      have hne : j ≠ e := by
        intro hje'; subst hje'
        rw [List.getElem?_eq_getElem hlt] at hj
        simp only [Option.some.injEq] at hj
        exact hb (hj ▸ h128)
      obtain ⟨r, h1, h2, h3⟩ := ih (by omega) (by omega)
      exact ⟨r, h1, h2, by omega⟩
    · rw [if_neg h128]
      exact ⟨e + 1, rfl, by omega, by omega⟩

/-- the padding `[p, e)` is skipped exactly: the byte before `p` is not padding -/
theorem scanBack_eq {full : Bytes} {p : Nat} {b : UInt8} (hp : 1 ≤ p) (hb0 : full[p - 1]? = some b) (hb : b ≠ 128) :
    ∀ e, p ≤ e → (∀ i, p ≤ i → i < e → full[i]? = some 128) → scanBack full e = .ok p := by
  intro e
  induction e with
  | zero => intro h; omega
  | succ e ih =>
    intro hpe hpad
    unfold scanBack
    by_cases hep : p = e + 1
    · have : e = p - 1 := by omega
      rw [this, hb0]
      simp only [hb, if_false]
      rw [hep]; simp
    · have := hpad e (by omega) (by omega)
      rw [this]
      simp only [if_true]
      exact ih (by omega) (fun i h1 h2 => hpad i h1 (by omega))

/-! ## namespace walks -/

/-- indices of the namespace entries strictly increase -/
def NssSorted (nss : List NsIndex) : Prop := nss.Pairwise (fun a b => a.2 < b.2)

theorem walkIndexAux_stay (i : Nat) (l : List NsIndex) (ns : Nat)
    (h : ∀ e, l.head? = some e → i < e.2) : walkIndexAux i l ns = ns := by
  cases l with
  | nil => rfl
  | cons e rest =>
    have := h e rfl
    simp only [walkIndexAux]
    rw [if_neg (by omega)]

/-- from a stale `k0 ≤ k'` the walk reaches the namespace `k'` that contains byte `q` -/
theorem walkIndex_reach {nss : List NsIndex} (hs : NssSorted nss) {q k' : Nat} {e' : NsIndex}
    (hk' : nss[k']? = some e') (hle : e'.2 ≤ q) (hnext : ∀ e, nss[k' + 1]? = some e → q < e.2) :
    ∀ d k0, k0 + d = k' → walkIndex nss q k0 = k' := by
  intro d
  induction d with
  | zero =>
    intro k0 h0
    have : k0 = k' := by omega
    subst this
    unfold walkIndex
    apply walkIndexAux_stay
    intro e he
    apply hnext e
    rw [List.head?_drop] at he
    exact he
  | succ d ih =>
    intro k0 h0
    unfold walkIndex
    have hlt : k' < nss.length := by
      have := List.getElem?_eq_some_iff.1 hk'
      exact this.1
    have hk1 : k0 + 1 < nss.length := by omega
    rw [List.drop_eq_getElem_cons hk1]
    simp only [walkIndexAux]
    have hidx : nss[k0 + 1].2 ≤ q := by
      by_cases heq : k0 + 1 = k'
      · subst heq
        rw [List.getElem?_eq_getElem hk1] at hk'
        simp only [Option.some.injEq] at hk'
        rw [hk']; exact hle
      · have hk'2 : nss[k'] = e' := by
          rw [List.getElem?_eq_getElem hlt] at hk'
          simpa using hk'
        have := List.pairwise_iff_getElem.1 hs (k0 + 1) k' hk1 hlt (by omega)
        rw [hk'2] at this
        omega
    rw [if_pos hidx]
    have := ih (k0 + 1) (by omega)
    unfold walkIndex at this
    exact this

end B6.Model.Posting
