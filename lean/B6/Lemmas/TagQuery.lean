import B6.Model.FeatureSearch
import B6.Lemmas.SearchCompile
/-!
# Tag queries compile to the set they denote (C03) — lemmas

`IndexInv fs ix`: the index holds, for every token, exactly the IDs of the features of `fs` that carry the token
(`tokensFor`).  For queries over searchable tags (`Query.OK`) the search-level query `lower q` denotes exactly the
IDs of the searchable features satisfying `denote q`.
-/
namespace B6.Lemmas.TagQuery
open B6.Spec.Cursor B6.Spec.SearchQuery B6.Spec.TagQuery B6.Model.Search B6.Model.FeatureSearch
open B6.Lemmas.Search

/-! ## hypotheses -/

/-- a tag key: no `=` after the sigil, and not `@*` (whose token would be the all-token) -/
def KeyOK : Token → Prop
  | '#' :: k => '=' ∉ k
  | '@' :: k => '=' ∉ k ∧ k ≠ ['*']
  | _ => True

/-- ID components in range, keys distinct and well-formed -/
def FeatureOK (f : Feature) : Prop :=
  f.ns < nsBound ∧ f.val < valBound ∧ (f.tags.map (·.1)).Nodup ∧ ∀ t ∈ f.tags, KeyOK t.1

mutual
/-- queries over searchable tags: `tagged` on `#` keys (the clause the known finding `tagged-at-key` negates),
`keyed` on `#` or `@` keys, `typed` on the five feature types that exist in a world -/
def QueryOK : Query → Prop
  | .all => True
  | .empty => True
  | .tagged k _ => (∃ k', k = '#' :: k') ∧ KeyOK k
  | .keyed k => ((∃ k', k = '#' :: k') ∨ (∃ k', k = '@' :: k')) ∧ KeyOK k
  | .typed t q => (t < 4 ∨ t = 5) ∧ QueryOK q
  | .and qs => QueryOKList qs
  | .or qs => QueryOKList qs
def QueryOKList : List Query → Prop
  | [] => True
  | q :: qs => QueryOK q ∧ QueryOKList qs
end

theorem okList_iff : ∀ qs : List Query, QueryOKList qs ↔ ∀ q ∈ qs, QueryOK q
  | [] => by simp [QueryOKList]
  | q :: qs => by simp [QueryOKList, okList_iff qs]

/-- the index of a world holding exactly `fs` -/
def IndexInv (fs : List Feature) (ix : Index) : Prop :=
  ix.Valid ∧ ∀ t x, x ∈ ix.get t ↔ ∃ f ∈ fs, f.id = x ∧ t ∈ tokensFor f

/-! ## tokens -/

theorem append_eq_inj : ∀ (a b r s : Token), '=' ∉ a → '=' ∉ b → a ++ '=' :: r = b ++ '=' :: s → a = b ∧ r = s
  | [], [], r, s, _, _, h => by simpa using h
  | [], c :: b, r, s, _, hb, h => by
    simp only [List.nil_append, List.cons_append, List.cons.injEq] at h
    exact absurd (by rw [h.1]; simp) hb
  | c :: a, [], r, s, ha, _, h => by
    simp only [List.nil_append, List.cons_append, List.cons.injEq] at h
    exact absurd (by rw [← h.1]; simp) ha
  | c :: a, d :: b, r, s, ha, hb, h => by
    simp only [List.cons_append, List.cons.injEq] at h
    obtain ⟨h1, h2⟩ := append_eq_inj a b r s (fun hm => ha (List.mem_cons_of_mem _ hm))
      (fun hm => hb (List.mem_cons_of_mem _ hm)) h.2
    exact ⟨by rw [h.1, h1], h2⟩

theorem prefix_key_inj : ∀ (a b s : Token), '=' ∉ a → '=' ∉ b →
    (a ++ ['=']).isPrefixOf (b ++ '=' :: s) = true → a = b
  | [], [], _, _, _, _ => rfl
  | [], c :: b, s, _, hb, h => by
    simp only [List.nil_append, List.cons_append, List.isPrefixOf_cons_cons, Bool.and_eq_true, beq_iff_eq] at h
    exact absurd (by rw [← h.1]; simp) hb
  | c :: a, [], s, ha, _, h => by
    simp only [List.nil_append, List.cons_append, List.isPrefixOf_cons_cons, Bool.and_eq_true, beq_iff_eq] at h
    exact absurd (by rw [h.1]; simp) ha
  | c :: a, d :: b, s, ha, hb, h => by
    simp only [List.cons_append, List.isPrefixOf_cons_cons, Bool.and_eq_true, beq_iff_eq] at h
    rw [h.1, prefix_key_inj a b s (fun hm => ha (List.mem_cons_of_mem _ hm))
      (fun hm => hb (List.mem_cons_of_mem _ hm)) h.2]

theorem mem_of_isPrefixOf {p t : Token} (h : p.isPrefixOf t = true) {c : Char} (hc : c ∈ p) : c ∈ t := by
  have := List.isPrefixOf_iff_prefix.1 h
  exact this.subset hc

theorem tokenForTag_eq_some (tag : Token × Token) (t : Token) :
    tokenForTag tag = some t ↔
      (∃ k', tag.1 = '#' :: k' ∧ t = k' ++ '=' :: tag.2) ∨ (∃ k', tag.1 = '@' :: k' ∧ t = k') := by
  unfold tokenForTag
  split
  · rename_i k hk
    simp only [Option.some.injEq, hk, List.cons.injEq, true_and, exists_eq_left', Char.reduceEq, false_and,
      exists_false, or_false]
    exact eq_comm
  · rename_i k hk
    simp only [Option.some.injEq, hk, List.cons.injEq, Char.reduceEq, false_and, exists_false, true_and,
      exists_eq_left', false_or]
    exact eq_comm
  · rename_i h1 h2
    simp only [reduceCtorEq, false_iff, not_or, not_exists, not_and]
    exact ⟨fun k' hk => absurd hk (h1 k'), fun k' hk => absurd hk (h2 k')⟩

theorem mem_tokensFor (f : Feature) (t : Token) :
    t ∈ tokensFor f ↔ searchable f = true ∧ (t = allToken ∨ ∃ tag ∈ f.tags, tokenForTag tag = some t) := by
  unfold tokensFor searchable
  by_cases h : (f.typ == 0 && f.tags.length == 1) = true
  · simp [h]
  · have h' : (f.typ == 0 && f.tags.length == 1) = false := by simpa using h
    simp only [h', Bool.false_eq_true, ↓reduceIte, List.mem_cons, List.mem_filterMap, Bool.not_false, true_and]

theorem get_eq_some_iff (f : Feature) (hn : (f.tags.map (·.1)).Nodup) (k v : Token) :
    f.get k = some v ↔ (k, v) ∈ f.tags := by
  unfold Feature.get
  generalize f.tags = tags at hn
  induction tags with
  | nil => simp
  | cons a l ih =>
    rw [List.map_cons, List.nodup_cons] at hn
    rw [List.find?_cons]
    by_cases hak : a.1 = k
    · have : (a.1 == k) = true := by simpa using hak
      simp only [this, Option.map_some, Option.some.injEq, List.mem_cons]
      constructor
      · intro h; left; rw [← hak, ← h]
      · rintro (h | h)
        · rw [← h]
        · exact absurd (List.mem_map.2 ⟨(k, v), h, hak.symm ▸ rfl⟩) hn.1
    · have : (a.1 == k) = false := by simpa using hak
      simp only [this, List.mem_cons]
      rw [ih hn.2]
      constructor
      · exact Or.inr
      · rintro (h | h)
        · exact absurd (by rw [← h]) hak
        · exact h

theorem get_isSome_iff (f : Feature) (hn : (f.tags.map (·.1)).Nodup) (k : Token) :
    (f.get k).isSome = true ↔ ∃ v, (k, v) ∈ f.tags := by
  constructor
  · intro h
    obtain ⟨v, hv⟩ := Option.isSome_iff_exists.1 h
    exact ⟨v, (get_eq_some_iff f hn k v).1 hv⟩
  · rintro ⟨v, hv⟩
    rw [(get_eq_some_iff f hn k v).2 hv]; rfl

/-- the token of `#k=v` is carried exactly by the searchable features tagged `#k=v` -/
theorem tagged_token (f : Feature) (hf : FeatureOK f) (k' v : Token) (hk : '=' ∉ k') :
    (k' ++ '=' :: v) ∈ tokensFor f ↔ searchable f = true ∧ f.get ('#' :: k') = some v := by
  obtain ⟨_, _, hn, hkeys⟩ := hf
  rw [mem_tokensFor, get_eq_some_iff f hn]
  constructor
  · rintro ⟨hs, h | ⟨tag, htag, ht⟩⟩
    · have : '=' ∈ allToken := by rw [← h]; simp
      simp [allToken] at this
    · refine ⟨hs, ?_⟩
      rcases (tokenForTag_eq_some tag _).1 ht with ⟨k2, h1, h2⟩ | ⟨k2, h1, h2⟩
      · have hok := hkeys tag htag
        rw [h1] at hok
        obtain ⟨e1, e2⟩ := append_eq_inj k' k2 v tag.2 hk hok h2
        have : tag = ('#' :: k', v) := by
          rw [Prod.ext_iff]; exact ⟨by rw [h1, e1], e2.symm⟩
        rw [← this]; exact htag
      · have hok := hkeys tag htag
        rw [h1] at hok
        exact absurd (by rw [← h2]; simp) hok.1
  · rintro ⟨hs, h⟩
    exact ⟨hs, Or.inr ⟨_, h, (tokenForTag_eq_some _ _).2 (Or.inl ⟨k', rfl, rfl⟩)⟩⟩

/-- some token with the prefix `k=` is carried exactly by the searchable features having a `#k` tag -/
theorem keyed_hash_token (f : Feature) (hf : FeatureOK f) (k' : Token) (hk : '=' ∉ k') :
    (∃ t, (k' ++ ['=']).isPrefixOf t = true ∧ t ∈ tokensFor f) ↔
      searchable f = true ∧ (f.get ('#' :: k')).isSome = true := by
  obtain ⟨_, _, hn, hkeys⟩ := hf
  rw [get_isSome_iff f hn]
  constructor
  · rintro ⟨t, hp, ht⟩
    rw [mem_tokensFor] at ht
    obtain ⟨hs, h | ⟨tag, htag, htt⟩⟩ := ht
    · have : '=' ∈ t := mem_of_isPrefixOf hp (by simp)
      rw [h] at this; simp [allToken] at this
    · refine ⟨hs, ?_⟩
      have hok := hkeys tag htag
      rcases (tokenForTag_eq_some tag _).1 htt with ⟨k2, h1, h2⟩ | ⟨k2, h1, h2⟩
      · rw [h1] at hok
        rw [h2] at hp
        have := prefix_key_inj k' k2 tag.2 hk hok hp
        refine ⟨tag.2, ?_⟩
        have : tag = ('#' :: k', tag.2) := by rw [Prod.ext_iff]; exact ⟨by rw [h1, this], rfl⟩
        rw [← this]; exact htag
      · rw [h1] at hok
        have : '=' ∈ t := mem_of_isPrefixOf hp (by simp)
        rw [h2] at this
        exact absurd this hok.1
  · rintro ⟨hs, v, hv⟩
    refine ⟨k' ++ '=' :: v, ?_, ?_⟩
    · rw [List.isPrefixOf_iff_prefix]
      exact ⟨v, by simp⟩
    · rw [mem_tokensFor]
      exact ⟨hs, Or.inr ⟨_, hv, (tokenForTag_eq_some _ _).2 (Or.inl ⟨k', rfl, rfl⟩)⟩⟩

/-- the token of an `@k` tag is carried exactly by the searchable features having the tag -/
theorem keyed_at_token (f : Feature) (hf : FeatureOK f) (k' : Token) (hk : '=' ∉ k') (hstar : k' ≠ ['*']) :
    k' ∈ tokensFor f ↔ searchable f = true ∧ (f.get ('@' :: k')).isSome = true := by
  obtain ⟨_, _, hn, hkeys⟩ := hf
  rw [mem_tokensFor, get_isSome_iff f hn]
  constructor
  · rintro ⟨hs, h | ⟨tag, htag, ht⟩⟩
    · exact absurd h hstar
    · refine ⟨hs, ?_⟩
      rcases (tokenForTag_eq_some tag _).1 ht with ⟨k2, h1, h2⟩ | ⟨k2, h1, h2⟩
      · exact absurd (by rw [h2]; simp) hk
      · refine ⟨tag.2, ?_⟩
        have : tag = ('@' :: k', tag.2) := by rw [Prod.ext_iff]; exact ⟨by rw [h1, h2], rfl⟩
        rw [← this]; exact htag
  · rintro ⟨hs, v, hv⟩
    exact ⟨hs, Or.inr ⟨_, hv, (tokenForTag_eq_some _ _).2 (Or.inr ⟨k', rfl, rfl⟩)⟩⟩

/-! ## index entries -/

theorem find_of_mem : ∀ (l : List (Token × List Nat)), (l.map (·.1)).Pairwise (· < ·) → ∀ e ∈ l,
    l.find? (fun a => a.1 == e.1) = some e
  | [], _, _, h => by simp at h
  | a :: l, hs, e, he => by
    rw [List.map_cons, List.pairwise_cons] at hs
    rw [List.find?_cons]
    rcases List.mem_cons.1 he with rfl | he
    · simp
    · have hlt := hs.1 e.1 (List.mem_map.2 ⟨e, he, rfl⟩)
      have : a.1 ≠ e.1 := by
        intro h; rw [h] at hlt; exact List.lt_irrefl _ hlt
      have hb : (a.1 == e.1) = false := by simpa using this
      rw [hb]
      exact find_of_mem l hs.2 e he

theorem get_of_mem (ix : Index) (hv : ix.Valid) (e : Token × List Nat) (he : e ∈ ix.lists) :
    ix.get e.1 = e.2 := by
  unfold Index.get Index.lookup
  rw [find_of_mem ix.lists hv.1 e he]
  rfl

theorem mem_get_iff (ix : Index) (hv : ix.Valid) (t : Token) (x : Nat) :
    x ∈ ix.get t ↔ ∃ e ∈ ix.lists, e.1 = t ∧ x ∈ e.2 := by
  constructor
  · intro h
    unfold Index.get Index.lookup at h
    cases hf : ix.lists.find? (fun e => e.1 == t) with
    | none => rw [hf] at h; simp at h
    | some e =>
      rw [hf] at h
      have he := List.mem_of_find?_eq_some hf
      have ht := List.find?_some hf
      exact ⟨e, he, by simpa using ht, by simpa using h⟩
  · rintro ⟨e, he, rfl, hx⟩
    rw [get_of_mem ix hv e he]; exact hx

/-! ## IDs -/

theorem key_range {t typ ns v : Nat} (hns : ns < nsBound) (hv : v < valBound) :
    (typeBegin t ≤ key typ ns v ∧ key typ ns v < typeBegin (t + 1)) ↔ typ = t := by
  simp only [typeBegin, key, nsBound, valBound, Nat.reducePow] at *
  omega

theorem feature_unique {fs : List Feature} (hid : (fs.map Feature.id).Nodup) {f g : Feature}
    (hf : f ∈ fs) (hg : g ∈ fs) (h : f.id = g.id) : f = g := by
  induction fs with
  | nil => simp at hf
  | cons a l ih =>
    rw [List.map_cons, List.nodup_cons] at hid
    rcases List.mem_cons.1 hf with hfa | hf' <;> rcases List.mem_cons.1 hg with hga | hg'
    · rw [hfa, hga]
    · subst hfa; exact absurd (List.mem_map.2 ⟨g, hg', h.symm⟩) hid.1
    · subst hga; exact absurd (List.mem_map.2 ⟨f, hf', h⟩) hid.1
    · exact ih hid.2 hf' hg'

theorem denoteAll_iff : ∀ (qs : List Query) (f : Feature), denoteAll qs f = true ↔ ∀ q ∈ qs, denote q f = true
  | [], f => by simp [denoteAll]
  | q :: qs, f => by simp [denoteAll, denoteAll_iff qs f]

theorem denoteAny_iff : ∀ (qs : List Query) (f : Feature), denoteAny qs f = true ↔ ∃ q ∈ qs, denote q f = true
  | [], f => by simp [denoteAny]
  | q :: qs, f => by simp [denoteAny, denoteAny_iff qs f]

/-! ## the main induction -/

section main
variable (fs : List Feature) (ix : Index) (K : Nat → Prop)

/-- what `q` has to select -/
def Sel (q : Query) (x : Nat) : Prop := ∃ f ∈ fs, f.id = x ∧ searchable f = true ∧ denote q f = true

/-- lists: `lowerList` succeeds when every element does, and memberships transfer -/
theorem lowerList_spec : ∀ (qs : List Query),
    (∀ q ∈ qs, ∃ sq, lower q = some sq ∧ sq.WF ∧ sq.KeysIn K ∧ ∀ x, x ∈ sq.denote ix ↔ Sel fs q x) →
    ∃ sqs, lowerList qs = some sqs ∧ SQuery.WFList sqs ∧ SQuery.KeysInList K sqs ∧ (sqs = [] ↔ qs = []) ∧
      (∀ x, (∃ l ∈ SQuery.denoteList ix sqs, x ∈ l) ↔ ∃ q ∈ qs, Sel fs q x) ∧
      (∀ x, (∀ l ∈ SQuery.denoteList ix sqs, x ∈ l) ↔ ∀ q ∈ qs, Sel fs q x)
  | [], _ => ⟨[], by simp [lowerList], by simp [SQuery.WFList], by simp [SQuery.KeysInList], by simp,
      by simp [SQuery.denoteList], by simp [SQuery.denoteList]⟩
  | q :: qs, h => by
    obtain ⟨sq, h1, h2, hk2, h3⟩ := h q (by simp)
    obtain ⟨sqs, e1, e2, ek2, _, e4, e5⟩ := lowerList_spec qs (fun q' hq' => h q' (List.mem_cons_of_mem _ hq'))
    refine ⟨sq :: sqs, by simp [lowerList, h1, e1], by simp [SQuery.WFList, h2, e2],
      by simp [SQuery.KeysInList, hk2, ek2], by simp, ?_, ?_⟩
    · intro x
      simp only [SQuery.denoteList, List.mem_cons, exists_eq_or_imp, h3 x, e4 x]
    · intro x
      simp only [SQuery.denoteList, List.mem_cons, forall_eq_or_imp, h3 x, e5 x]

theorem lower_spec (hinv : IndexInv fs ix) (hfs : ∀ f ∈ fs, FeatureOK f) (hid : (fs.map Feature.id).Nodup)
    (hK : ∀ t, (t < 4 ∨ t = 5) → K (typeBegin t)) :
    (q : Query) → QueryOK q →
      ∃ sq, lower q = some sq ∧ sq.WF ∧ sq.KeysIn K ∧ ∀ x, x ∈ sq.denote ix ↔ Sel fs q x
  | .all, _ => by
    refine ⟨.all allToken, rfl, by simp [SQuery.WF], by simp [SQuery.KeysIn], fun x => ?_⟩
    simp only [SQuery.denote, hinv.2, Sel, denote]
    constructor
    · rintro ⟨f, hf, hx, ht⟩
      exact ⟨f, hf, hx, ((mem_tokensFor f _).1 ht).1, trivial⟩
    · rintro ⟨f, hf, hx, hs, _⟩
      exact ⟨f, hf, hx, (mem_tokensFor f _).2 ⟨hs, Or.inl rfl⟩⟩
  | .empty, _ => ⟨.empty, rfl, by simp [SQuery.WF], by simp [SQuery.KeysIn],
      fun x => by simp [SQuery.denote, Sel, denote]⟩
  | .tagged k v, hq => by
    simp only [QueryOK] at hq
    obtain ⟨⟨k', rfl⟩, hk⟩ := hq
    refine ⟨.all (k' ++ '=' :: v), rfl, by simp [SQuery.WF], by simp [SQuery.KeysIn], fun x => ?_⟩
    simp only [SQuery.denote, hinv.2, Sel, denote]
    constructor
    · rintro ⟨f, hf, hx, ht⟩
      obtain ⟨h1, h2⟩ := (tagged_token f (hfs f hf) k' v hk).1 ht
      exact ⟨f, hf, hx, h1, by rw [h2]; simp⟩
    · rintro ⟨f, hf, hx, hs, hd⟩
      exact ⟨f, hf, hx, (tagged_token f (hfs f hf) k' v hk).2 ⟨hs, by simpa using hd⟩⟩
  | .keyed k, hq => by
    simp only [QueryOK] at hq
    obtain ⟨hsig, hk⟩ := hq
    rcases hsig with ⟨k', rfl⟩ | ⟨k', rfl⟩
    · refine ⟨.tokenPrefix (k' ++ ['=']), rfl, by simp [SQuery.WF], by simp [SQuery.KeysIn], fun x => ?_⟩
      simp only [SQuery.denote, mem_sortDedup, List.mem_flatten, List.mem_map, List.mem_filter, Sel, denote]
      constructor
      · rintro ⟨l, ⟨e, ⟨he, hp⟩, rfl⟩, hx⟩
        have hget : x ∈ ix.get e.1 := (mem_get_iff ix hinv.1 e.1 x).2 ⟨e, he, rfl, hx⟩
        obtain ⟨f, hf, hfx, ht⟩ := (hinv.2 e.1 x).1 hget
        obtain ⟨h1, h2⟩ := (keyed_hash_token f (hfs f hf) k' hk).1 ⟨e.1, hp, ht⟩
        exact ⟨f, hf, hfx, h1, h2⟩
      · rintro ⟨f, hf, hfx, hs, hd⟩
        obtain ⟨t, hp, ht⟩ := (keyed_hash_token f (hfs f hf) k' hk).2 ⟨hs, hd⟩
        have hget : x ∈ ix.get t := (hinv.2 t x).2 ⟨f, hf, hfx, ht⟩
        obtain ⟨e, he, rfl, hx⟩ := (mem_get_iff ix hinv.1 t x).1 hget
        exact ⟨e.2, ⟨e, ⟨he, hp⟩, rfl⟩, hx⟩
    · refine ⟨.all k', rfl, by simp [SQuery.WF], by simp [SQuery.KeysIn], fun x => ?_⟩
      simp only [SQuery.denote, hinv.2, Sel, denote]
      constructor
      · rintro ⟨f, hf, hx, ht⟩
        obtain ⟨h1, h2⟩ := (keyed_at_token f (hfs f hf) k' hk.1 hk.2).1 ht
        exact ⟨f, hf, hx, h1, h2⟩
      · rintro ⟨f, hf, hx, hs, hd⟩
        exact ⟨f, hf, hx, (keyed_at_token f (hfs f hf) k' hk.1 hk.2).2 ⟨hs, hd⟩⟩
  | .typed t q, hq => by
    simp only [QueryOK] at hq
    obtain ⟨ht, hq⟩ := hq
    obtain ⟨sq, h1, h2, hk2, h3⟩ := lower_spec hinv hfs hid hK q hq
    have htb : (decide (t < 4) || t == 5) = true := by
      rcases ht with h | h
      · simp [h]
      · simp [h]
    refine ⟨.keyRange (typeBegin t) (typeBegin (t + 1)) sq, by simp [lower, htb, h1], by simp [SQuery.WF, h2],
      by simp only [SQuery.KeysIn]; exact ⟨hK t ht, hk2⟩, fun x => ?_⟩
    simp only [SQuery.denote, mem_rangeList, h3 x, Sel, denote, Bool.and_eq_true, beq_iff_eq]
    constructor
    · rintro ⟨⟨f, hf, hx, hs, hd⟩, hb, he⟩
      have hok := hfs f hf
      have : f.typ = t := (key_range hok.1 hok.2.1).1 (by rw [← hx] at hb he; exact ⟨hb, he⟩)
      exact ⟨f, hf, hx, hs, this, hd⟩
    · rintro ⟨f, hf, hx, hs, htyp, hd⟩
      have hok := hfs f hf
      have := (key_range (t := t) hok.1 hok.2.1).2 htyp
      rw [← hx]
      exact ⟨⟨f, hf, rfl, hs, hd⟩, this⟩
  | .and qs, hq => by
    simp only [QueryOK] at hq
    rw [okList_iff] at hq
    obtain ⟨sqs, e1, e2, ek, e3, _, e5⟩ := lowerList_spec fs ix K qs
      (fun q hq' => lower_spec hinv hfs hid hK q (hq q hq'))
    cases qs with
    | nil =>
      refine ⟨.all allToken, rfl, by simp [SQuery.WF], by simp [SQuery.KeysIn], fun x => ?_⟩
      simp only [SQuery.denote, hinv.2, Sel, denote, denoteAll]
      constructor
      · rintro ⟨f, hf, hx, ht⟩
        exact ⟨f, hf, hx, ((mem_tokensFor f _).1 ht).1, trivial⟩
      · rintro ⟨f, hf, hx, hs, _⟩
        exact ⟨f, hf, hx, (mem_tokensFor f _).2 ⟨hs, Or.inl rfl⟩⟩
    | cons q0 qs0 =>
      have hne : sqs ≠ [] := by intro h; have := e3.1 h; simp at this
      refine ⟨.inter sqs, by simp [lower, e1], by simp [SQuery.WF, hne, e2], by simp [SQuery.KeysIn, ek], fun x => ?_⟩
      simp only [SQuery.denote]
      cases hs : SQuery.denoteList ix sqs with
      | nil =>
        exfalso
        cases sqs with
        | nil => exact hne rfl
        | cons a b => simp [SQuery.denoteList] at hs
      | cons l ls =>
        rw [mem_interLists, ← hs, e5 x]
        simp only [Sel, denote, denoteAll_iff]
        constructor
        · intro h
          obtain ⟨f, hf, hx, hsf, _⟩ := h q0 (by simp)
          refine ⟨f, hf, hx, hsf, fun q hq' => ?_⟩
          obtain ⟨g, hg, hgx, _, hd⟩ := h q hq'
          have : g = f := feature_unique hid hg hf (by rw [hgx, hx])
          rw [← this]; exact hd
        · rintro ⟨f, hf, hx, hsf, hall⟩ q hq'
          exact ⟨f, hf, hx, hsf, hall q hq'⟩
  | .or qs, hq => by
    simp only [QueryOK] at hq
    rw [okList_iff] at hq
    obtain ⟨sqs, e1, e2, ek, _, e4, _⟩ := lowerList_spec fs ix K qs
      (fun q hq' => lower_spec hinv hfs hid hK q (hq q hq'))
    refine ⟨.union sqs, by simp [lower, e1], by simp [SQuery.WF, e2], by simp [SQuery.KeysIn, ek], fun x => ?_⟩
    simp only [SQuery.denote, mem_sortDedup, List.mem_flatten, e4 x, Sel, denote, denoteAny_iff]
    constructor
    · rintro ⟨q, hq', f, hf, hx, hs, hd⟩
      exact ⟨f, hf, hx, hs, q, hq', hd⟩
    · rintro ⟨f, hf, hx, hs, q, hq', hd⟩
      exact ⟨q, hq', f, hf, hx, hs, hd⟩
termination_by q => sizeOf q
decreasing_by
  all_goals simp_wf
  · omega
  · have := List.sizeOf_lt_of_mem hq'; omega
  · have := List.sizeOf_lt_of_mem hq'; omega

end main

/-! ## draining a refining iterator -/

theorem drain_of_refinesAt (o : IterOps Iter) : ∀ (c : Cursor) (it : Iter) (k : Nat), RefinesAt o it c →
    drain o (c.rest.length + 1 + k) it = .ok c.rest := by
  intro c
  obtain ⟨b, r⟩ := c
  induction r generalizing b with
  | nil =>
    intro it k h
    obtain ⟨it', h1, _⟩ := h.next
    have : ([] : List Nat).length + 1 + k = k + 1 := by simp; omega
    simp only [this, drain, h1, Cursor.next]
  | cons x r ih =>
    intro it k h
    obtain ⟨it', h1, h2⟩ := h.next
    have hr := h2 (by simp [Cursor.next])
    have hval : o.value it' = some x := by
      rw [hr.value (by simp [Cursor.next, Cursor.cur])]; simp [Cursor.next, Cursor.cur]
    have hih := ih (b ++ [x]) it' k (by simpa [Cursor.next] using hr)
    have : (x :: r).length + 1 + k = (r.length + 1 + k) + 1 := by simp; omega
    simp only [this, drain, h1, Cursor.next, hval]
    simp only at hih
    rw [hih]

end B6.Lemmas.TagQuery
