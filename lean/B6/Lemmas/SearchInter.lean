import B6.Lemmas.Search
/-!
# `intersection` refines the cursor over the intersection of its children's lists, and its leapfrog loop
terminates (C06)

Invariant after a successful call (DESIGN §5 C06): all children sit on the same value `v`, which is the spec
cursor's current element.  Inside the leapfrog loop the lead sits on `l`, every other child is at or behind
`l`, and no common element `≥` the target lies below `l`.  Each restart moves the lead strictly forward, so
the loop runs at most (length of the lead's list) + 1 times.
-/
namespace B6.Lemmas.Search
open B6.Spec.Cursor B6.Spec.SearchQuery B6.Model.Search

variable {σ : Type}

/-- the lists of the other children (they never change) -/
abbrev xsOf (ps : List (σ × Cursor)) : List (List Nat) := ps.map (·.2.xs)

theorem mem_all_xsOf {ps ps' : List (σ × Cursor)} (h : xsOf ps' = xsOf ps) (x : Nat) :
    (∀ p ∈ ps', x ∈ p.2.xs) ↔ (∀ p ∈ ps, x ∈ p.2.xs) := by
  have key : ∀ qs : List (σ × Cursor), (∀ p ∈ qs, x ∈ p.2.xs) ↔ (∀ l ∈ xsOf qs, x ∈ l) := by
    intro qs; constructor
    · intro h l hl; obtain ⟨p, hp, rfl⟩ := List.mem_map.1 hl; exact h p hp
    · intro h p hp; exact h _ (List.mem_map.2 ⟨p, hp, rfl⟩)
  rw [key, key, h]

/-- the inner loop: what `scan` does from a lead on `l` when every other child is at or behind `l` -/
theorem scan_spec (o : IterOps σ) (lead : σ) (cl : Cursor) (l : Nat) (hl : RefinesAt o lead cl)
    (hcl : cl.cur = some l) (hdl : o.dom l) :
    ∀ qs : List (σ × Cursor), (∀ q ∈ qs, RefinesAt o q.1 q.2 ∧ ∀ w, q.2.cur = some w → w ≤ l) →
      (∀ q ∈ qs, ∀ x ∈ q.2.xs, o.dom x) →
      (∃ qs', Inter.scan o lead l (qs.map (·.1)) = .allEqual (qs'.map (·.1)) ∧ xsOf qs' = xsOf qs ∧
          ∀ q' ∈ qs', RefinesAt o q'.1 q'.2 ∧ q'.2.cur = some l) ∨
      (∃ lead' r, Inter.scan o lead l (qs.map (·.1)) = .exhausted lead' r ∧
          ∀ x ∈ cl.xs, (∀ q ∈ qs, x ∈ q.2.xs) → x < l) ∨
      (∃ lead' cl' l' qs', Inter.scan o lead l (qs.map (·.1)) = .restart lead' (qs'.map (·.1)) ∧
          RefinesAt o lead' cl' ∧ cl'.xs = cl.xs ∧ cl'.cur = some l' ∧ l < l' ∧ cl.pos < cl'.pos ∧
          xsOf qs' = xsOf qs ∧ (∀ q' ∈ qs', RefinesAt o q'.1 q'.2 ∧ ∀ w, q'.2.cur = some w → w ≤ l') ∧
          ∀ x ∈ cl.xs, (∀ q ∈ qs, x ∈ q.2.xs) → l ≤ x → l' ≤ x)
  | [], _, _ => Or.inl ⟨[], rfl, rfl, by simp⟩
  | q :: qs, h, hd => by
    obtain ⟨hq, hqb⟩ := h q (by simp)
    have hrest := fun q' hq' => h q' (List.mem_cons_of_mem _ hq')
    have hdrest := fun q' hq' => hd q' (List.mem_cons_of_mem _ hq')
    obtain ⟨c', h1, h2⟩ := hq.advance l hdl
    have hA := Cursor.advance_spec hq.wf l
    simp only [List.map_cons, Inter.scan, h1]
    cases hb : (q.2.advance l).1 with
    | false =>
      have hall := hA.2 hb
      refine Or.inr (Or.inl ⟨lead, c' :: qs.map (·.1), rfl, ?_⟩)
      intro x _ hx
      exact hall x (hx q (by simp))
    | true =>
      obtain ⟨_, hxs', _, w, hw, hwm, hlw, _, hwleast⟩ := hA.1 hb
      have hr' := h2 hb
      have hval : o.value c' = some w := by rw [hr'.value (by rw [hw]; rfl), hw]
      simp only [hval]
      by_cases hwl : w = l
      · subst hwl
        simp only [↓reduceIte]
        rcases scan_spec o lead cl w hl hcl hdl qs hrest hdrest with ⟨qs', e1, e2, e3⟩ | ⟨lead', r, e1, e2⟩ |
            ⟨lead', cl', l', qs', e1, e2, e3, e4, e5, e6, e7, e8, e9⟩
        · refine Or.inl ⟨(c', (q.2.advance w).2) :: qs', by rw [e1]; rfl, ?_, ?_⟩
          · simp only [xsOf, List.map_cons, hxs']; rw [show List.map _ qs' = xsOf qs' from rfl, e2]
          · intro q' hq'
            rcases List.mem_cons.1 hq' with rfl | hq'
            · exact ⟨hr', hw⟩
            · exact e3 q' hq'
        · refine Or.inr (Or.inl ⟨lead', c' :: r, by rw [e1], ?_⟩)
          intro x hx hall
          exact e2 x hx (fun q' hq' => hall q' (List.mem_cons_of_mem _ hq'))
        · refine Or.inr (Or.inr ⟨lead', cl', l', (c', (q.2.advance w).2) :: qs', by rw [e1]; rfl,
            e2, e3, e4, e5, e6, ?_, ?_, ?_⟩)
          · simp only [xsOf, List.map_cons, hxs']; rw [show List.map _ qs' = xsOf qs' from rfl, e7]
          · intro q' hq'
            rcases List.mem_cons.1 hq' with rfl | hq'
            · refine ⟨hr', ?_⟩
              intro w' hw'; rw [hw] at hw'; simp at hw'; omega
            · exact e8 q' hq'
          · intro x hx hall hwx
            exact e9 x hx (fun q' hq' => hall q' (List.mem_cons_of_mem _ hq')) hwx
      · simp only [hwl, ↓reduceIte]
        have hlw' : l < w := by omega
        obtain ⟨lead', h3, h4⟩ := hl.advance w (hd q (by simp) w hwm)
        have hAl := Cursor.advance_spec hl.wf w
        rw [h3]
        cases hb2 : (cl.advance w).1 with
        | false =>
          have hall := hAl.2 hb2
          refine Or.inr (Or.inl ⟨lead', c' :: qs.map (·.1), rfl, ?_⟩)
          intro x hx hxq
          have hxqq := hxq q (by simp)
          by_cases hlx : l ≤ x
          · have := hwleast x hxqq hlx (fun v hv => Nat.le_trans (hqb v hv) hlx)
            have := hall x hx
            omega
          · omega
        | true =>
          obtain ⟨_, hxs2, _, l', hl', _, hwl', _, hl'least⟩ := hAl.1 hb2
          have hpos := Cursor.advance_pos_lt hl.wf (k := w)
            (by intro v hv; rw [hcl] at hv; simp at hv; omega) hb2
          refine Or.inr (Or.inr ⟨lead', (cl.advance w).2, l', (c', (q.2.advance l).2) :: qs, rfl,
            h4 hb2, hxs2, hl', by omega, hpos, ?_, ?_, ?_⟩)
          · simp only [xsOf, List.map_cons, hxs']
          · intro q' hq'
            rcases List.mem_cons.1 hq' with rfl | hq'
            · refine ⟨hr', ?_⟩
              intro w' hw'; rw [hw] at hw'; simp at hw'; omega
            · obtain ⟨e1, e2⟩ := hrest q' hq'
              exact ⟨e1, fun w' hw' => by have := e2 w' hw'; omega⟩
          · intro x hx hxq hlx
            have hxqq := hxq q (by simp)
            have h5 := hwleast x hxqq hlx (fun v hv => Nat.le_trans (hqb v hv) hlx)
            apply hl'least x hx h5
            intro v hv; rw [hcl] at hv; simp at hv; omega

/-- the state of an intersection between calls -/
def InterRel (o : IterOps σ) (fuel : Nat) (its : List σ) (C : Cursor) : Prop :=
  C.WF ∧ ∃ (lead : σ) (cl : Cursor) (ps : List (σ × Cursor)),
    its = lead :: ps.map (·.1) ∧ RefinesAt o lead cl ∧ cl.xs.length < fuel ∧
    (∀ x ∈ cl.xs, o.dom x) ∧ (∀ p ∈ ps, ∀ x ∈ p.2.xs, o.dom x) ∧
    (∀ p ∈ ps, RefinesAt o p.1 p.2 ∧ p.2.cur = cl.cur) ∧ C.cur = cl.cur ∧
    (∀ x, x ∈ C.xs ↔ x ∈ cl.xs ∧ ∀ p ∈ ps, x ∈ p.2.xs)

/-- The leapfrog loop from a lead on `l ≥ t₀`: it finishes within the fuel, and agrees with the spec
cursor's `advance t₀`. -/
theorem leapfrog_spec (o : IterOps σ) (fuel : Nat) (C : Cursor) (t₀ : Nat) (hC : C.WF) :
    ∀ (f : Nat) (lead : σ) (cl : Cursor) (l : Nat) (ps : List (σ × Cursor)),
      cl.xs.length - cl.pos < f → cl.xs.length < fuel → RefinesAt o lead cl → cl.cur = some l → t₀ ≤ l →
      (∀ x ∈ cl.xs, o.dom x) → (∀ p ∈ ps, ∀ x ∈ p.2.xs, o.dom x) →
      (∀ v, C.cur = some v → v ≤ l) →
      (∀ p ∈ ps, RefinesAt o p.1 p.2 ∧ ∀ w, p.2.cur = some w → w ≤ l) →
      (∀ x, x ∈ C.xs ↔ x ∈ cl.xs ∧ ∀ p ∈ ps, x ∈ p.2.xs) →
      (∀ x ∈ C.xs, t₀ ≤ x → (∀ v, C.cur = some v → v ≤ x) → l ≤ x) →
      ∃ its', Inter.leapfrog o f lead (ps.map (·.1)) = .ok ((C.advance t₀).1, its') ∧
        ((C.advance t₀).1 = true → InterRel o fuel its' (C.advance t₀).2)
  | 0, _, _, _, _, hf, _, _, _, _, _, _, _, _, _, _ => by omega
  | f + 1, lead, cl, l, ps, hf, hfuel, hl, hcl, htl, hdcl, hdps, hCl, hps, hM, hsafe => by
    have hA := Cursor.advance_spec hC t₀
    have hval : o.value lead = some l := by rw [hl.value (by rw [hcl]; rfl), hcl]
    simp only [Inter.leapfrog, hval]
    have hxsdom : ∀ qs' : List (σ × Cursor), xsOf qs' = xsOf ps → ∀ p ∈ qs', ∀ x ∈ p.2.xs, o.dom x := by
      intro qs' he p hp x hx
      have : p.2.xs ∈ xsOf ps := by rw [← he]; exact List.mem_map.2 ⟨p, hp, rfl⟩
      obtain ⟨p', hp', hpe⟩ := List.mem_map.1 this
      exact hdps p' hp' x (by rw [hpe]; exact hx)
    rcases scan_spec o lead cl l hl hcl (hdcl l (Cursor.cur_mem hcl)) ps hps hdps with ⟨qs', e1, e2, e3⟩ | ⟨lead', r, e1, e2⟩ |
        ⟨lead', cl', l', qs', e1, e2, e3, e4, e5, e6, e7, e8, e9⟩
    · -- all children on `l`
      rw [e1]
      have hlM : l ∈ C.xs := by
        rw [hM]
        refine ⟨Cursor.cur_mem hcl, ?_⟩
        rw [← mem_all_xsOf e2]
        intro q' hq'; exact Cursor.cur_mem (e3 q' hq').2
      have ht : (C.advance t₀).1 = true := by
        cases hb : (C.advance t₀).1 with
        | true => rfl
        | false => have := hA.2 hb l hlM; omega
      obtain ⟨hw', hxs', _, x, hx, hxm, htx, hcx, hleast⟩ := hA.1 ht
      have hxl : x = l := by
        have h1 := hleast l hlM htl hCl
        have h2 := hsafe x hxm htx hcx
        omega
      subst hxl
      refine ⟨lead :: qs'.map (·.1), by rw [ht], fun _ => ?_⟩
      refine ⟨hw', lead, cl, qs', rfl, hl, hfuel, hdcl, hxsdom qs' e2, ?_, by rw [hx, hcl], ?_⟩
      · intro q' hq'; rw [hcl]; exact e3 q' hq'
      · intro y; rw [hxs', hM, mem_all_xsOf e2]
    · -- a child or the lead ran out: no common element is left
      rw [e1]
      have hf' : (C.advance t₀).1 = false := by
        cases hb : (C.advance t₀).1 with
        | false => rfl
        | true =>
          obtain ⟨_, _, _, x, _, hxm, htx, hcx, _⟩ := hA.1 hb
          have h1 := hsafe x hxm htx hcx
          have h2 := e2 x ((hM x).1 hxm).1 ((hM x).1 hxm).2
          omega
      exact ⟨lead' :: r, by rw [hf'], fun ht => by rw [hf'] at ht; simp at ht⟩
    · -- a child was ahead: the lead moved strictly forward, go round again
      rw [e1]
      have hlen : cl'.xs.length - cl'.pos < f := by
        have := Cursor.pos_le_length cl'
        rw [e3] at this ⊢
        omega
      obtain ⟨its', h1, h2⟩ := leapfrog_spec o fuel C t₀ hC f lead' cl' l' qs' hlen (by rw [e3]; exact hfuel)
        e2 e4 (by omega) (by rw [e3]; exact hdcl) (hxsdom qs' e7) (fun v hv => by have := hCl v hv; omega) e8
        (by intro y; rw [hM, e3, mem_all_xsOf e7])
        (by
          intro y hy hty hcy
          have hl1 := hsafe y hy hty hcy
          exact e9 y ((hM y).1 hy).1 ((hM y).1 hy).2 hl1)
      exact ⟨its', h1, h2⟩

theorem inter_simulation (o : IterOps σ) (fuel : Nat) : Simulation (Inter.ops o fuel) (InterRel o fuel) where
  wf _ _ h := h.1
  value its C h hC := by
    obtain ⟨_, lead, cl, ps, rfl, hl, _, _, _, _, hcc, _⟩ := h
    show o.value lead = C.cur
    rw [hcc] at hC ⊢
    exact hl.value hC
  next its C h := by
    obtain ⟨hC, lead, cl, ps, rfl, hl, hfuel, hdcl, hdps, hps, hcc, hM⟩ := h
    obtain ⟨hnb, hns⟩ := Cursor.next_eq_advance_lo hC
    have hlo : C.lo = cl.lo := by simp [Cursor.lo, hcc]
    obtain ⟨lead', h1, h2⟩ := hl.next
    have hN := Cursor.next_spec hl.wf
    have hA := Cursor.advance_spec hC C.lo
    simp only [Inter.ops, Inter.next, h1]
    cases hb : cl.next.1 with
    | false =>
      have hall := hN.2 hb
      have hf' : C.next.1 = false := by
        rw [hnb]
        cases hb' : (C.advance C.lo).1 with
        | false => rfl
        | true =>
          obtain ⟨_, _, _, x, _, hxm, htx, _⟩ := hA.1 hb'
          have := hall x ((hM x).1 hxm).1
          omega
      exact ⟨lead' :: ps.map (·.1), by rw [hf'], fun ht => by rw [hf'] at ht; simp at ht⟩
    | true =>
      obtain ⟨_, hxs', hpos, l, hl', hlm, hlol, hleast⟩ := hN.1 hb
      obtain ⟨its', e1, e2⟩ := leapfrog_spec o fuel C C.lo hC fuel lead' cl.next.2 l ps
        (by rw [hxs']; omega) (by rw [hxs']; exact hfuel) (h2 hb) hl' (by omega)
        (by rw [hxs']; exact hdcl) hdps
        (by
          intro v hv
          have : C.lo = v + 1 := by simp [Cursor.lo, hv]
          omega)
        (by
          intro p hp
          refine ⟨(hps p hp).1, ?_⟩
          intro w hw
          rw [(hps p hp).2] at hw
          have : cl.lo = w + 1 := by simp [Cursor.lo, hw]
          omega)
        (by intro y; rw [hM, hxs'])
        (by
          intro y hy hty _
          exact hleast y ((hM y).1 hy).1 (by omega))
      refine ⟨its', by show Inter.leapfrog o fuel lead' (ps.map (·.1)) = _; rw [e1, hnb], ?_⟩
      intro ht
      rw [hns ht]; exact e2 (by rw [← hnb]; exact ht)
  advance k its C h hk := by
    obtain ⟨hC, lead, cl, ps, rfl, hl, hfuel, hdcl, hdps, hps, hcc, hM⟩ := h
    obtain ⟨lead', h1, h2⟩ := hl.advance k hk
    have hAl := Cursor.advance_spec hl.wf k
    have hA := Cursor.advance_spec hC k
    simp only [Inter.ops, Inter.advance, h1]
    cases hb : (cl.advance k).1 with
    | false =>
      have hall := hAl.2 hb
      have hf' : (C.advance k).1 = false := by
        cases hb' : (C.advance k).1 with
        | false => rfl
        | true =>
          obtain ⟨_, _, _, x, _, hxm, htx, _⟩ := hA.1 hb'
          have := hall x ((hM x).1 hxm).1
          omega
      exact ⟨lead' :: ps.map (·.1), by rw [hf'], fun ht => by rw [hf'] at ht; simp at ht⟩
    | true =>
      obtain ⟨_, hxs', hpos, l, hl', hlm, hkl, hcl', hleast⟩ := hAl.1 hb
      obtain ⟨its', e1, e2⟩ := leapfrog_spec o fuel C k hC fuel lead' (cl.advance k).2 l ps
        (by rw [hxs']; omega) (by rw [hxs']; exact hfuel) (h2 hb) hl' hkl
        (by rw [hxs']; exact hdcl) hdps
        (by intro v hv; rw [hcc] at hv; exact hcl' v hv)
        (by
          intro p hp
          refine ⟨(hps p hp).1, ?_⟩
          intro w hw
          rw [(hps p hp).2] at hw
          exact hcl' w hw)
        (by intro y; rw [hM, hxs'])
        (by
          intro y hy hty hcy
          exact hleast y ((hM y).1 hy).1 hty (by intro v hv; rw [← hcc] at hv; exact hcy v hv))
      exact ⟨its', e1, e2⟩

/-! ## `newIntersection`: the stable sort by `EstimateLength` only permutes the children -/

theorem mem_insertBy {α : Type} (est : α → Nat) (a : α) : ∀ (l : List α) (x : α),
    x ∈ Inter.insertBy est a l ↔ x = a ∨ x ∈ l
  | [], x => by simp [Inter.insertBy]
  | b :: l, x => by
    unfold Inter.insertBy
    split
    · simp only [List.mem_cons, mem_insertBy est a l x]
      constructor
      · rintro (h | h | h)
        · exact Or.inr (Or.inl h)
        · exact Or.inl h
        · exact Or.inr (Or.inr h)
      · rintro (h | h | h)
        · exact Or.inr (Or.inl h)
        · exact Or.inl h
        · exact Or.inr (Or.inr h)
    · simp

theorem mem_sortBy {α : Type} (est : α → Nat) : ∀ (l : List α) (x : α), x ∈ Inter.sortBy est l ↔ x ∈ l
  | [], x => by simp [Inter.sortBy]
  | a :: l, x => by
    simp only [Inter.sortBy, mem_insertBy, mem_sortBy est l x, List.mem_cons]

theorem insertBy_map {α β : Type} (f : α → β) (est : β → Nat) (a : α) : ∀ l : List α,
    Inter.insertBy est (f a) (l.map f) = (Inter.insertBy (fun x => est (f x)) a l).map f
  | [] => rfl
  | b :: l => by
    simp only [List.map_cons, Inter.insertBy]
    split
    · simp [insertBy_map f est a l]
    · simp

theorem sortBy_map {α β : Type} (f : α → β) (est : β → Nat) : ∀ l : List α,
    Inter.sortBy est (l.map f) = (Inter.sortBy (fun x => est (f x)) l).map f
  | [] => rfl
  | a :: l => by
    simp only [List.map_cons, Inter.sortBy]
    rw [sortBy_map f est l, insertBy_map]

/-- `intersection` over children (at least one) that refine the cursors of their lists refines the cursor
of any strictly increasing list `ys` holding exactly the common elements, whatever order the stable sort by
`EstimateLength` puts them in; `fuel` only has to exceed the length of every child's list. -/
theorem inter_refines (o : IterOps σ) (fuel : Nat) (est : σ → Nat) (ps : List (σ × List Nat)) (ys : List Nat)
    (hne : ps ≠ []) (hch : ∀ p ∈ ps, Refines o p.1 p.2 ∧ p.2.length < fuel) (hys : StrictSorted ys)
    (hmem : ∀ x, x ∈ ys ↔ ∀ p ∈ ps, x ∈ p.2) (hdom : ∀ p ∈ ps, ∀ x ∈ p.2, o.dom x) :
    Refines (Inter.ops o fuel) (Inter.sortBy est (ps.map (·.1))) ys := by
  rw [sortBy_map]
  have hmemS := mem_sortBy (fun p : σ × List Nat => est p.1) ps
  cases hs : Inter.sortBy (fun p : σ × List Nat => est p.1) ps with
  | nil =>
    cases ps with
    | nil => exact absurd rfl hne
    | cons p _ => have := (hmemS p).2 (by simp); rw [hs] at this; simp at this
  | cons p0 rest =>
    have hin : ∀ q, q ∈ p0 :: rest ↔ q ∈ ps := by intro q; rw [← hs]; exact hmemS q
    refine ⟨InterRel o fuel, inter_simulation o fuel, hys, p0.1, start p0.2,
      rest.map (fun p => (p.1, start p.2)), ?_, ?_, ?_, ?_, ?_, ?_, rfl, ?_⟩
    · simp [List.map_map]
    · exact (hch p0 ((hin p0).1 (by simp))).1
    · exact (hch p0 ((hin p0).1 (by simp))).2
    · exact hdom p0 ((hin p0).1 (by simp))
    · intro q hq
      obtain ⟨p, hp, rfl⟩ := List.mem_map.1 hq
      exact hdom p ((hin p).1 (List.mem_cons_of_mem _ hp))
    · intro q hq
      obtain ⟨p, hp, rfl⟩ := List.mem_map.1 hq
      exact ⟨(hch p ((hin p).1 (List.mem_cons_of_mem _ hp))).1, rfl⟩
    · intro x
      show x ∈ ys ↔ _
      rw [hmem]
      constructor
      · intro h
        refine ⟨h p0 ((hin p0).1 (by simp)), ?_⟩
        intro q hq
        obtain ⟨p, hp, rfl⟩ := List.mem_map.1 hq
        exact h p ((hin p).1 (List.mem_cons_of_mem _ hp))
      · rintro ⟨h0, hr⟩ p hp
        rcases List.mem_cons.1 ((hin p).2 hp) with rfl | hp'
        · exact h0
        · exact hr (p.1, start p.2) (List.mem_map.2 ⟨p, hp', rfl⟩)

/-- The leapfrog loop of `advanceToNextIntersecion` terminates: with children that refine cursors and fuel
above the length of every child's list, neither `Next` nor `Advance` ever answers `Err.fuel` — after any
history of calls (stated on the invariant `InterRel`, which every reachable state satisfies). -/
theorem inter_terminates (o : IterOps σ) (fuel : Nat) (its : List σ) (C : Cursor)
    (h : InterRel o fuel its C) :
    Inter.next o fuel its ≠ .error .fuel ∧ ∀ k, o.dom k → Inter.advance o fuel k its ≠ .error .fuel := by
  constructor
  · obtain ⟨s', h1, _⟩ := (inter_simulation o fuel).next its C h
    intro h2
    have : (Inter.ops o fuel).next its = Inter.next o fuel its := rfl
    rw [this, h2] at h1; cases h1
  · intro k
    intro hk
    obtain ⟨s', h1, _⟩ := (inter_simulation o fuel).advance k its C h hk
    intro h2
    have : (Inter.ops o fuel).advance k its = Inter.advance o fuel k its := rfl
    rw [this, h2] at h1; cases h1

end B6.Lemmas.Search
