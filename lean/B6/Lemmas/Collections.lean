import B6.Model.Collections
import B6.Model.CollectionsExpr
import B6.Spec.Collections
/-!
Helper lemmas for C24: each iterator-style `next` function, drained with enough fuel, yields its list
reference (`Spec.Collections`).  Core Lean only.
-/
namespace B6.Lemmas.Collections
open B6.Model.Collections B6.Spec.Collections

/-! ### array / pair collection -/

theorem drain_src (fin : End) : ∀ (items : List Item) (f : Nat), items.length < f →
    drain Src.next f ⟨items, fin⟩ = (items, finOf fin) := by
  intro items
  induction items with
  | nil =>
    intro f hf
    cases f with
    | zero => omega
    | succ f => cases fin <;> simp [drain, Src.next, finOf]
  | cons x xs ih =>
    intro f hf
    cases f with
    | zero => omega
    | succ f =>
      have := ih f (by simp at hf; omega)
      simp [drain, Src.next, this]

/-! ### take -/

theorem drain_take (fin : End) : ∀ (rest : List Item) (n : Int) (f : Nat), rest.length < f →
    drain takeNext f (⟨rest, fin⟩, n) = takeRef n ⟨rest, fin⟩ := by
  intro rest
  induction rest with
  | nil =>
    intro n f hf
    cases f with
    | zero => omega
    | succ f =>
      by_cases hn : n > 0
      · have h1 : ¬ n.toNat ≤ 0 := by omega
        cases fin <;> simp [drain, takeNext, hn, Src.next, takeRef, h1, finOf]
      · have h1 : n.toNat = 0 := by omega
        simp [drain, takeNext, hn, takeRef, h1]
  | cons x xs ih =>
    intro n f hf
    cases f with
    | zero => omega
    | succ f =>
      by_cases hn : n > 0
      · have := ih (n - 1) f (by simp at hf; omega)
        simp only [drain, takeNext, hn, if_true, Src.next, this]
        have e : n.toNat = (n - 1).toNat + 1 := by omega
        simp only [takeRef, List.length_cons, e, Nat.add_le_add_iff_right, List.take_succ_cons]
        split <;> rfl
      · have h1 : n.toNat = 0 := by omega
        simp [drain, takeNext, hn, takeRef, h1]

/-! ### map, map-items, filter -/

theorem drain_map (g : Val → Option Val) (fin : End) : ∀ (rest : List Item) (f : Nat), rest.length < f →
    drain (mapNext g) f ⟨rest, fin⟩ = mapRef g fin rest := by
  intro rest
  induction rest with
  | nil =>
    intro f hf
    cases f with
    | zero => omega
    | succ f => cases fin <;> simp [drain, mapNext, Src.next, mapRef, finOf]
  | cons x xs ih =>
    intro f hf
    obtain ⟨k, v⟩ := x
    cases f with
    | zero => omega
    | succ f =>
      have := ih f (by simp at hf; omega)
      cases hg : g v with
      | none => simp [drain, mapNext, Src.next, mapRef, hg]
      | some v' => simp [drain, mapNext, Src.next, mapRef, hg, this]

theorem drain_mapItems (g : Val → Val → Option Item) (fin : End) : ∀ (rest : List Item) (f : Nat),
    rest.length < f → drain (mapItemsNext g) f ⟨rest, fin⟩ = mapItemsRef g fin rest := by
  intro rest
  induction rest with
  | nil =>
    intro f hf
    cases f with
    | zero => omega
    | succ f => cases fin <;> simp [drain, mapItemsNext, Src.next, mapItemsRef, finOf]
  | cons x xs ih =>
    intro f hf
    obtain ⟨k, v⟩ := x
    cases f with
    | zero => omega
    | succ f =>
      have := ih f (by simp at hf; omega)
      cases hg : g k v with
      | none => simp [drain, mapItemsNext, Src.next, mapItemsRef, hg]
      | some kv => simp [drain, mapItemsNext, Src.next, mapItemsRef, hg, this]

theorem drain_filter (p : Val → Option Val) (fin : End) : ∀ (rest : List Item) (f : Nat),
    rest.length < f → drain (filterNext p) f ⟨rest, fin⟩ = filterRef p fin rest := by
  intro rest
  induction rest with
  | nil =>
    intro f hf
    cases f with
    | zero => omega
    | succ f => cases fin <;> simp [drain, filterNext, filterGo, filterRef, finOf]
  | cons x xs ih =>
    intro f hf
    obtain ⟨k, v⟩ := x
    cases f with
    | zero => omega
    | succ f =>
      have hlen : xs.length < f := by simp at hf; omega
      have ih1 := ih f hlen
      have ih2 := ih (f + 1) (by omega)
      cases hp : p v with
      | none => simp [drain, filterNext, filterGo, filterRef, hp]
      | some r =>
        cases r with
        | bool b =>
          cases b with
          | true =>
            simp only [drain, filterNext, filterGo, filterRef, hp]
            rw [ih1]
          | false =>
            simp only [drain, filterNext, filterGo, filterRef, hp]
            simp only [drain, filterNext] at ih2
            exact ih2
        | int i => simp [drain, filterNext, filterGo, filterRef, hp]
        | float c => simp [drain, filterNext, filterGo, filterRef, hp]
        | str s => simp [drain, filterNext, filterGo, filterRef, hp]
        | fid t ns v => simp [drain, filterNext, filterGo, filterRef, hp]

/-! ### flatten -/

def itemsTotal : List Src → Nat
  | [] => 0
  | s :: ss => s.rest.length + itemsTotal ss

theorem itemsTotal_le_srcTotal : ∀ ss : List Src, itemsTotal ss ≤ srcTotal ss
  | [] => Nat.le_refl _
  | s :: ss => by
    have := itemsTotal_le_srcTotal ss
    simp only [itemsTotal, srcTotal]; omega

theorem drain_congr {σ : Type} (next : σ → Step σ) (s s' : σ) (h : next s = next s') (f : Nat) :
    drain next (f + 1) s = drain next (f + 1) s' := by
  simp only [drain, h]

/-- with an inner iterator open -/
theorem drain_flatten_some (ofin : End) (ss : List Src)
    (hnone : ∀ f, itemsTotal ss < f → drain (flattenNext ofin) f (ss, none) = flattenRef ofin ss)
    (cfin : End) : ∀ (rest : List Item) (f : Nat), itemsTotal ss + rest.length < f →
      drain (flattenNext ofin) f (ss, some ⟨rest, cfin⟩) = flattenRef ofin (⟨rest, cfin⟩ :: ss) := by
  intro rest
  induction rest with
  | nil =>
    intro f hf
    cases f with
    | zero => omega
    | succ f =>
      cases cfin with
      | err => simp [drain, flattenNext, flattenRef]
      | done =>
        have h1 : flattenNext ofin (ss, some ⟨[], .done⟩) = flattenNext ofin (ss, none) := by
          simp [flattenNext]
        rw [drain_congr _ _ _ h1, hnone (f + 1) (by simpa using hf)]
        simp [flattenRef]
  | cons x xs ih =>
    intro f hf
    cases f with
    | zero => omega
    | succ f =>
      have := ih f (by simp at hf; omega)
      simp only [drain, flattenNext, this]
      cases cfin <;> simp [flattenRef]

theorem drain_flatten_none (ofin : End) : ∀ (ss : List Src) (f : Nat), itemsTotal ss < f →
    drain (flattenNext ofin) f (ss, none) = flattenRef ofin ss := by
  intro ss
  induction ss with
  | nil =>
    intro f hf
    cases f with
    | zero => omega
    | succ f => cases ofin <;> simp [drain, flattenNext, flattenOuter, flattenRef, finOf]
  | cons c cs ih =>
    intro f hf
    obtain ⟨rest, cfin⟩ := c
    cases f with
    | zero => omega
    | succ f =>
      cases rest with
      | nil =>
        cases cfin with
        | err => simp [drain, flattenNext, flattenOuter, flattenRef]
        | done =>
          have h1 : flattenNext ofin (⟨[], .done⟩ :: cs, none) = flattenNext ofin (cs, none) := by
            simp [flattenNext, flattenOuter]
          rw [drain_congr _ _ _ h1, ih (f + 1) (by simpa [itemsTotal] using hf)]
          simp [flattenRef]
      | cons x xs =>
        have hs := drain_flatten_some ofin cs ih cfin xs f (by simp [itemsTotal] at hf; omega)
        simp only [drain, flattenNext, flattenOuter, hs]
        cases cfin <;> simp [flattenRef]

/-! ### join-missing -/

theorem goLess_none_iff (a b : Val) : goLess a b = none ↔ goEqual a b = none := by
  cases a <;> cases b <;> simp [goLess, goEqual] <;> split <;> simp_all

/-- every started state of the merge is `st B J`: `B`, `J` = current item followed by what is still to come -/
def st (bfin jfin : End) (B J : List Item) : JM :=
  { started := true, b := ⟨B.tail, bfin⟩, j := ⟨J.tail, jfin⟩, bcur := B.head?, jcur := J.head? }

/-- what is left once the current item of `st B J` has been emitted -/
def pend : List Item → List Item → List Item × List Item
  | b :: bs, j :: js => if goLess j.1 b.1 = some true then (b :: bs, js) else (bs, j :: js)
  | _ :: bs, [] => (bs, [])
  | [], _ :: js => ([], js)
  | [], [] => ([], [])

theorem adv_eq (L : List Item) (fin : End) :
    adv ⟨L, fin⟩ = if L = [] ∧ fin = .err then none else some (L.head?, ⟨L.tail, fin⟩) := by
  cases L with
  | nil => cases fin <;> simp [adv]
  | cons x xs => simp [adv]

/-- the heads of a started state are not equal (the skip loop ran) -/
def HeadsDiffer : List Item → List Item → Prop
  | b :: _, j :: _ => goEqual j.1 b.1 = some false
  | _, _ => True

/-- an exhausted side ended without an error -/
def EndsOk (bfin jfin : End) (B J : List Item) : Prop := (B = [] → bfin = .done) ∧ (J = [] → jfin = .done)

theorem joinRef_err_of_not_endsOk (bfin jfin : End) (B J : List Item) (h : ¬ EndsOk bfin jfin B J) :
    joinRef bfin jfin B J = ([], .err) := by
  unfold EndsOk at h
  cases B with
  | nil =>
    cases J with
    | nil => cases bfin <;> cases jfin <;> simp_all [joinRef]
    | cons j js => cases bfin <;> simp_all [joinRef]
  | cons b bs =>
    cases J with
    | nil => cases jfin <;> simp_all [joinRef]
    | cons j js => simp at h

theorem some_false_ne_none_less {a b : Val} (h : goEqual a b = some false) :
    ∃ l, goLess a b = some l := by
  cases hl : goLess a b with
  | none => rw [(goLess_none_iff a b).mp hl] at h; cases h
  | some l => exact ⟨l, rfl⟩

/-- first half of `Next` on a started state: the side whose item was emitted moves on -/
theorem jmAdvance_st (bfin jfin : End) (B J : List Item) (hd : HeadsDiffer B J)
    (hok : EndsOk bfin jfin B J) :
    (EndsOk bfin jfin (pend B J).1 (pend B J).2 →
      jmAdvance (st bfin jfin B J) = some (st bfin jfin (pend B J).1 (pend B J).2)) ∧
    (¬ EndsOk bfin jfin (pend B J).1 (pend B J).2 → jmAdvance (st bfin jfin B J) = none) := by
  unfold EndsOk at *
  cases B with
  | nil =>
    cases J with
    | nil =>
      have hb : bfin = .done := hok.1 rfl
      have hj : jfin = .done := hok.2 rfl
      simp [jmAdvance, st, pend, hb, hj]
    | cons j js =>
      have hb : bfin = .done := hok.1 rfl
      subst hb
      cases js with
      | nil => cases jfin <;> simp [jmAdvance, st, pend, adv]
      | cons x xs => simp [jmAdvance, st, pend, adv]
  | cons b bs =>
    cases J with
    | nil =>
      have hj : jfin = .done := hok.2 rfl
      subst hj
      cases bs with
      | nil => cases bfin <;> simp [jmAdvance, st, pend, adv]
      | cons x xs => simp [jmAdvance, st, pend, adv]
    | cons j js =>
      obtain ⟨l, hl⟩ := some_false_ne_none_less hd
      cases l with
      | true =>
        cases js with
        | nil => cases jfin <;> simp [jmAdvance, st, pend, adv, hl]
        | cons x xs => simp [jmAdvance, st, pend, adv, hl]
      | false =>
        cases bs with
        | nil => cases bfin <;> simp [jmAdvance, st, pend, adv, hl]
        | cons x xs => simp [jmAdvance, st, pend, adv, hl]

/-- the skip loop against the reference: joined entries equal to the current base key are dropped -/
theorem jmSkip_spec (bfin jfin : End) (b : Item) (bs : List Item) : ∀ (js : List Item) (ji : Item),
    (jmSkip b.1 jfin ji js = none ∧ joinRef bfin jfin (b :: bs) (ji :: js) = ([], .err)) ∨
    (∃ J2 : List Item, jmSkip b.1 jfin ji js = some (J2.head?, ⟨J2.tail, jfin⟩) ∧
      joinRef bfin jfin (b :: bs) (ji :: js) = joinRef bfin jfin (b :: bs) J2 ∧
      HeadsDiffer (b :: bs) J2 ∧ (J2 = [] → jfin = .done) ∧ J2.length ≤ js.length + 1) := by
  intro js
  induction js with
  | nil =>
    intro ji
    obtain ⟨jk, jv⟩ := ji
    cases he : goEqual jk b.1 with
    | none => left; exact ⟨by unfold jmSkip; simp [he], by simp [joinRef, he]⟩
    | some e =>
      cases e with
      | false =>
        right
        refine ⟨[(jk, jv)], ?_, rfl, ?_, ?_, ?_⟩
        · unfold jmSkip; simp [he]
        · simpa [HeadsDiffer] using he
        · intro h; cases h
        · simp
      | true =>
        cases jfin with
        | err => left; exact ⟨by unfold jmSkip; simp [he], by simp [joinRef, he]⟩
        | done =>
          right
          refine ⟨[], ?_, ?_, ?_, ?_, ?_⟩
          · unfold jmSkip; simp [he]
          · simp [joinRef, he]
          · simp [HeadsDiffer]
          · intro _; rfl
          · simp
  | cons x xs ih =>
    intro ji
    obtain ⟨jk, jv⟩ := ji
    cases he : goEqual jk b.1 with
    | none => left; exact ⟨by unfold jmSkip; simp [he], by simp [joinRef, he]⟩
    | some e =>
      cases e with
      | false =>
        right
        refine ⟨(jk, jv) :: x :: xs, ?_, rfl, ?_, ?_, ?_⟩
        · unfold jmSkip; simp [he]
        · simpa [HeadsDiffer] using he
        · intro h; cases h
        · simp
      | true =>
        have e1 : jmSkip b.1 jfin (jk, jv) (x :: xs) = jmSkip b.1 jfin x xs := by
          rw [jmSkip.eq_1]; simp [he]
        have e2 : joinRef bfin jfin (b :: bs) ((jk, jv) :: x :: xs) = joinRef bfin jfin (b :: bs) (x :: xs) := by
          simp [joinRef, he]
        rcases ih x with ⟨h1, h2⟩ | ⟨J2, h1, h2, h3, h4, h5⟩
        · left; rw [e1, e2]; exact ⟨h1, h2⟩
        · right
          refine ⟨J2, ?_, ?_, h3, h4, ?_⟩
          · rw [e1]; exact h1
          · rw [e2]; exact h2
          · simp at h5 ⊢; omega

/-- second half of `Next` (skip loop, then `iterator()` picks the current item) -/
def jmEmit (s1 : JM) : Step JM :=
  match s1.bcur, s1.jcur with
  | some bi, some ji =>
    match jmSkip bi.1 s1.j.fin ji s1.j.rest with
    | none => .fail
    | some (jc, j') =>
      let s2 : JM := { s1 with j := j', jcur := jc }
      match jc with
      | some ji' => if (goLess ji'.1 bi.1).getD false then .yield ji' s2 else .yield bi s2
      | none => .yield bi s2
  | some bi, none => .yield bi s1
  | none, some ji => .yield ji s1
  | none, none => .stop

theorem jmNext_eq (s : JM) : jmNext s = match jmAdvance s with
    | none => .fail
    | some s1 => jmEmit s1 := rfl

theorem jmEmit_spec (bfin jfin : End) (B J : List Item) (hok : EndsOk bfin jfin B J) :
    (jmEmit (st bfin jfin B J) = .fail ∧ joinRef bfin jfin B J = ([], .err)) ∨
    (jmEmit (st bfin jfin B J) = .stop ∧ joinRef bfin jfin B J = ([], .done)) ∨
    (∃ (it : Item) (J2 : List Item), jmEmit (st bfin jfin B J) = .yield it (st bfin jfin B J2) ∧
      HeadsDiffer B J2 ∧ EndsOk bfin jfin B J2 ∧
      joinRef bfin jfin B J = (it :: (joinRef bfin jfin (pend B J2).1 (pend B J2).2).1,
        (joinRef bfin jfin (pend B J2).1 (pend B J2).2).2) ∧
      (pend B J2).1.length + (pend B J2).2.length + 1 ≤ B.length + J.length) := by
  cases B with
  | nil =>
    cases J with
    | nil =>
      right; left
      have hb : bfin = .done := hok.1 rfl
      have hj : jfin = .done := hok.2 rfl
      subst hb; subst hj
      simp [jmEmit, st, joinRef]
    | cons j js =>
      right; right
      have hb : bfin = .done := hok.1 rfl
      subst hb
      refine ⟨j, j :: js, ?_, trivial, hok, ?_, ?_⟩
      · simp [jmEmit, st]
      · simp [joinRef, pend]
      · simp [pend]
  | cons b bs =>
    cases J with
    | nil =>
      right; right
      have hj : jfin = .done := hok.2 rfl
      subst hj
      refine ⟨b, [], ?_, trivial, hok, ?_, ?_⟩
      · simp [jmEmit, st]
      · simp [joinRef, pend]
      · simp [pend]
    | cons j js =>
      rcases jmSkip_spec bfin jfin b bs js j with ⟨h1, h2⟩ | ⟨J2, h1, h2, h3, h4, h5⟩
      · left
        exact ⟨by simp [jmEmit, st, h1], h2⟩
      · right; right
        cases J2 with
        | nil =>
          have hj : jfin = .done := h4 rfl
          subst hj
          refine ⟨b, [], ?_, trivial, ⟨fun h => (by cases h), fun _ => rfl⟩, ?_, ?_⟩
          · simp [jmEmit, st, h1]
          · rw [h2]; simp [joinRef, pend]
          · simp [pend]
        | cons j2 js2 =>
          obtain ⟨l, hl⟩ := some_false_ne_none_less h3
          have hok2 : EndsOk bfin jfin (b :: bs) (j2 :: js2) :=
            ⟨fun h => (by cases h), fun h => (by cases h)⟩
          cases l with
          | true =>
            refine ⟨j2, j2 :: js2, ?_, h3, hok2, ?_, ?_⟩
            · simp [jmEmit, st, h1, hl]
            · rw [h2]
              have h3' : goEqual j2.1 b.1 = some false := h3
              simp [joinRef, pend, hl, h3']
            · simp [pend, hl] at h5 ⊢; omega
          | false =>
            refine ⟨b, j2 :: js2, ?_, h3, hok2, ?_, ?_⟩
            · simp [jmEmit, st, h1, hl]
            · rw [h2]
              have h3' : goEqual j2.1 b.1 = some false := h3
              simp [joinRef, pend, hl, h3']
            · simp [pend, hl] at h5 ⊢; omega

/-- started states: draining continues with the reference on what is pending -/
theorem drain_jm_started (bfin jfin : End) : ∀ (n : Nat) (B J : List Item) (f : Nat),
    HeadsDiffer B J → EndsOk bfin jfin B J →
    (pend B J).1.length + (pend B J).2.length = n → n < f →
    drain jmNext f (st bfin jfin B J) = joinRef bfin jfin (pend B J).1 (pend B J).2 := by
  intro n
  induction n using Nat.strongRecOn with
  | _ n ih =>
    intro B J f hd hok hn hf
    cases f with
    | zero => omega
    | succ f =>
      have hadv := jmAdvance_st bfin jfin B J hd hok
      by_cases hp : EndsOk bfin jfin (pend B J).1 (pend B J).2
      · have ha := hadv.1 hp
        rcases jmEmit_spec bfin jfin (pend B J).1 (pend B J).2 hp with ⟨h1, h2⟩ | ⟨h1, h2⟩ |
          ⟨it, J2, h1, h2, h3, h4, h5⟩
        · simp only [drain, jmNext_eq, ha, h1, h2]
        · simp only [drain, jmNext_eq, ha, h1, h2]
        · have := ih _ (by omega) (pend B J).1 J2 f h2 h3 rfl (by omega)
          simp only [drain, jmNext_eq, ha, h1, this, h4]
      · have ha := hadv.2 hp
        simp only [drain, jmNext_eq, ha, joinRef_err_of_not_endsOk bfin jfin _ _ hp]

/-- **join-missing**: the iterator, drained, is the three-way merge `joinRef` -/
theorem drain_jm (bfin jfin : End) (B J : List Item) (f : Nat) (hf : B.length + J.length < f) :
    drain jmNext f { started := false, b := ⟨B, bfin⟩, j := ⟨J, jfin⟩, bcur := none, jcur := none }
      = joinRef bfin jfin B J := by
  cases f with
  | zero => omega
  | succ f =>
    by_cases hok : EndsOk bfin jfin B J
    · have ha : jmAdvance { started := false, b := ⟨B, bfin⟩, j := ⟨J, jfin⟩, bcur := none, jcur := none }
          = some (st bfin jfin B J) := by
        have h1 : ¬ (B = [] ∧ bfin = .err) := by
          intro ⟨h, h'⟩; have := hok.1 h; rw [this] at h'; cases h'
        have h2 : ¬ (J = [] ∧ jfin = .err) := by
          intro ⟨h, h'⟩; have := hok.2 h; rw [this] at h'; cases h'
        simp [jmAdvance, adv_eq, h1, h2, st]
      rcases jmEmit_spec bfin jfin B J hok with ⟨h1, h2⟩ | ⟨h1, h2⟩ | ⟨it, J2, h1, h2, h3, h4, h5⟩
      · simp only [drain, jmNext_eq, ha, h1, h2]
      · simp only [drain, jmNext_eq, ha, h1, h2]
      · have := drain_jm_started bfin jfin _ B J2 f h2 h3 rfl (by omega)
        simp only [drain, jmNext_eq, ha, h1, this, h4]
    · have ha : jmAdvance { started := false, b := ⟨B, bfin⟩, j := ⟨J, jfin⟩, bcur := none, jcur := none }
          = none := by
        unfold EndsOk at hok
        simp only [jmAdvance, adv_eq]
        by_cases h1 : B = [] ∧ bfin = .err
        · simp [h1]
        · by_cases h2 : J = [] ∧ jfin = .err
          · simp [h1, h2]
          · exfalso; apply hok
            constructor
            · intro hB; cases bfin with
              | done => rfl
              | err => exact absurd ⟨hB, rfl⟩ h1
            · intro hJ; cases jfin with
              | done => rfl
              | err => exact absurd ⟨hJ, rfl⟩ h2
      simp only [drain, jmNext_eq, ha, joinRef_err_of_not_endsOk bfin jfin _ _ hok]

/-! ### the counting functions (Go `map[interface{}]int` as an association list) -/

theorem wrap64_wrap64_add (a d : Int) : wrap64 (wrap64 a + d) = wrap64 (a + d) := by
  unfold wrap64; exact Int.bmod_add_bmod

theorem lookup_bump (k k' : Val) (d : Int) : ∀ acc : List (Val × Int),
    lookup k (bump k' d acc) =
      if k' = k then some (match lookup k acc with
        | some c => wrap64 (c + d)
        | none => wrap64 d)
      else lookup k acc := by
  intro acc
  induction acc with
  | nil => by_cases h : k' = k <;> simp [bump, lookup, h]
  | cons hd tl ih =>
    obtain ⟨k2, c⟩ := hd
    by_cases h2 : k2 = k'
    · subst h2
      by_cases h : k2 = k <;> simp [bump, lookup, h]
    · by_cases h : k' = k
      · subst h
        simp only [bump, h2, if_false, lookup, ih, if_true]
      · simp only [bump, h2, if_false, lookup, ih, h]

theorem keys_bump (k' : Val) (d : Int) : ∀ acc : List (Val × Int),
    (bump k' d acc).map (·.1) = if k' ∈ acc.map (·.1) then acc.map (·.1) else acc.map (·.1) ++ [k'] := by
  intro acc
  induction acc with
  | nil => simp [bump]
  | cons hd tl ih =>
    obtain ⟨k2, c⟩ := hd
    by_cases h2 : k2 = k'
    · subst h2; simp [bump]
    · have h2' : ¬ k' = k2 := fun h => h2 h.symm
      simp only [bump, h2, if_false, List.map_cons, ih, List.mem_cons, h2', false_or]
      split <;> simp

theorem nodup_bump (k' : Val) (d : Int) (acc : List (Val × Int)) (h : (acc.map (·.1)).Nodup) :
    ((bump k' d acc).map (·.1)).Nodup := by
  rw [keys_bump]
  split
  · exact h
  · next hn =>
    rw [List.nodup_append]
    refine ⟨h, by simp, ?_⟩
    intro a ha b hb
    simp at hb; subst hb
    intro e; subst e; exact hn ha

theorem weightFor_append (keyOf : Item → Val) (delta : Item → Int) (k : Val) (it : Item) :
    ∀ seen : List Item, weightFor keyOf delta k (seen ++ [it]) =
      weightFor keyOf delta k seen + (if keyOf it = k then delta it else 0) := by
  intro seen
  induction seen with
  | nil => by_cases h : keyOf it = k <;> simp [weightFor, h]
  | cons x xs ih =>
    by_cases h : keyOf x = k <;> simp [weightFor, h, ih] <;> omega

/-- the association list after the items `seen` -/
def Tallied (keyOf : Item → Val) (delta : Item → Int) (seen : List Item) (acc : List (Val × Int)) : Prop :=
  (acc.map (·.1)).Nodup ∧
  ∀ k, lookup k acc =
    if k ∈ seen.map keyOf then some (wrap64 (weightFor keyOf delta k seen)) else none

theorem tallied_step (keyOf : Item → Val) (delta : Item → Int) (seen : List Item) (acc : List (Val × Int))
    (it : Item) (h : Tallied keyOf delta seen acc) :
    Tallied keyOf delta (seen ++ [it]) (bump (keyOf it) (delta it) acc) := by
  refine ⟨nodup_bump _ _ _ h.1, ?_⟩
  intro k
  rw [lookup_bump, h.2 k, weightFor_append]
  by_cases hk : keyOf it = k
  · subst hk
    by_cases hm : keyOf it ∈ seen.map keyOf
    · simp [hm, wrap64_wrap64_add]
    · simp [hm]
      have : weightFor keyOf delta (keyOf it) seen = 0 := by
        clear h
        induction seen with
        | nil => rfl
        | cons x xs ih =>
          simp at hm
          have hx : ¬ keyOf x = keyOf it := fun e => hm.1 e.symm
          simp only [weightFor, hx, if_false]
          exact ih (by simpa using hm.2)
      simp [this]
  · have hk' : ¬ k = keyOf it := fun e => hk e.symm
    have hm : (k ∈ List.map keyOf (seen ++ [it])) ↔ (k ∈ List.map keyOf seen) := by
      simp [hk']
    simp only [hk, if_false, hm, Int.add_zero]

theorem tallied_foldl (keyOf : Item → Val) (delta : Item → Int) : ∀ (items seen : List Item)
    (acc : List (Val × Int)), Tallied keyOf delta seen acc →
    Tallied keyOf delta (seen ++ items)
      (items.foldl (fun acc it => bump (keyOf it) (delta it) acc) acc) := by
  intro items
  induction items with
  | nil => intro seen acc h; simpa using h
  | cons x xs ih =>
    intro seen acc h
    have := ih (seen ++ [x]) _ (tallied_step keyOf delta seen acc x h)
    simpa [List.append_assoc] using this

theorem tallied_nil (keyOf : Item → Val) (delta : Item → Int) : Tallied keyOf delta [] [] :=
  ⟨by simp, by intro k; simp [lookup]⟩

/-- the int value of an item (0 for anything else; only used when all values are ints) -/
def intDelta : Item → Int
  | (_, .int v) => v
  | _ => 0

theorem sumFor_eq_weightFor (k : Val) : ∀ items : List Item,
    sumFor k items = weightFor (·.1) intDelta k items := by
  intro items
  induction items with
  | nil => rfl
  | cons x xs ih =>
    obtain ⟨k', v⟩ := x
    cases v <;> by_cases h : k' = k <;> simp [sumFor, weightFor, intDelta, h, ih]

theorem sumByKey_go (fin : End) : ∀ (items : List Item) (acc : List (Val × Int)),
    sumByKey.go fin acc items =
      if (items.all fun it => match it.2 with | .int _ => true | _ => false) then
        (match fin with
          | .done => some (items.foldl (fun acc it => bump it.1 (intDelta it) acc) acc)
          | .err => none)
      else none := by
  intro items
  induction items with
  | nil => intro acc; cases fin <;> simp [sumByKey.go]
  | cons x xs ih =>
    intro acc
    obtain ⟨k, v⟩ := x
    cases v with
    | int i =>
      simp only [sumByKey.go, ih, List.all_cons, Bool.true_and, List.foldl_cons]
      rfl
    | float c => simp [sumByKey.go]
    | str s => simp [sumByKey.go]
    | fid t ns v => simp [sumByKey.go]
    | bool b => simp [sumByKey.go]

/-! ### top -/

/-- the value is an int or a float -/
def Numeric (it : Item) : Prop := (valNum it.2).isSome = true

/-- What `top` relies on from a priority queue: relative to an invariant `inv` (heap order) and the multiset
`elems` of what the queue holds, Push adds and Pop removes and returns a minimum w.r.t. `Less`.
Only numeric items (ints or floats) are ever pushed by `top`. -/
structure PQLaw (pq : PQ) where
  elems : pq.Q → List Item
  inv : pq.Q → Prop
  inv_empty : inv pq.empty
  empty : elems pq.empty = []
  size : ∀ q, pq.size q = (elems q).length
  push : ∀ q x, inv q → Numeric x → (∀ y ∈ elems q, Numeric y) →
    inv (pq.push q x) ∧ (elems (pq.push q x)).Perm (x :: elems q)
  pop_none : ∀ q, pq.pop q = none → elems q = []
  pop_some : ∀ q x q', inv q → (∀ y ∈ elems q, Numeric y) → pq.pop q = some (x, q') →
    inv q' ∧ (elems q).Perm (x :: elems q') ∧ ∀ y ∈ elems q', ¬ itemLess y x = true

theorem itemLess_trans_le {a b c : Item} (ha : Numeric a) (hb : Numeric b) (hc : Numeric c)
    (h1 : ¬ itemLess a b = true) (h2 : ¬ itemLess b c = true) : ¬ itemLess a c = true := by
  unfold Numeric at *
  unfold itemLess at *
  cases hva : valNum a.2 with
  | none => simp [hva] at ha
  | some x =>
    cases hvb : valNum b.2 with
    | none => simp [hvb] at hb
    | some y =>
      cases hvc : valNum c.2 with
      | none => simp [hvc] at hc
      | some z =>
        simp only [hva, hvb, hvc, decide_eq_true_eq] at *
        omega

theorem numeric_of_sameKind {first v : Val} (h : sameKind first v = true) (k : Val) : Numeric (k, v) := by
  unfold Numeric
  cases first <;> cases v <;> simp_all [sameKind, valNum]

/-- loop invariant of `top`: `H` in the heap, `D` dropped so far, `P` processed -/
structure TopInv (n : Int) (P H D : List Item) : Prop where
  perm : (H ++ D).Perm P
  low : ∀ d ∈ D, ∀ h ∈ H, ¬ itemLess h d = true
  len : H.length = min n.toNat P.length
  num : ∀ x ∈ P, Numeric x

theorem topLoop_inv (pq : PQ) (law : PQLaw pq) (n : Int) (first : Val) :
    ∀ (xs P : List Item) (q : pq.Q) (D : List Item) (q' : pq.Q),
      law.inv q → TopInv n P (law.elems q) D → topLoop pq n first xs q = some q' →
      ∃ D', law.inv q' ∧ TopInv n (P ++ xs) (law.elems q') D' := by
  intro xs
  induction xs with
  | nil =>
    intro P q D q' hq hinv h
    simp only [topLoop, Option.some.injEq] at h
    subst h
    exact ⟨D, hq, by simpa using hinv⟩
  | cons x xs ih =>
    intro P q D q' hq hinv h
    obtain ⟨k, v⟩ := x
    simp only [topLoop] at h
    by_cases hk : sameKind first v = true
    · simp only [hk, Bool.not_true, Bool.false_eq_true, if_false] at h
      have hnum : Numeric (k, v) := numeric_of_sameKind hk k
      have hnumH : ∀ y ∈ law.elems q, Numeric y := fun y hy =>
        hinv.num y (hinv.perm.mem_iff.mp (List.mem_append_left D hy))
      obtain ⟨hq1, hpush⟩ := law.push q (k, v) hq hnum hnumH
      have hsz : pq.size (pq.push q (k, v)) = (law.elems q).length + 1 := by
        rw [law.size, hpush.length_eq]; simp
      have hnumP : ∀ y ∈ P ++ [(k, v)], Numeric y := by
        intro y hy
        rcases List.mem_append.mp hy with hy | hy
        · exact hinv.num y hy
        · simp at hy; subst hy; exact hnum
      by_cases hgt : ((pq.size (pq.push q (k, v)) : Nat) : Int) > n
      · -- over capacity: pop the minimum
        simp only [hgt, if_true] at h
        cases hp : pq.pop (pq.push q (k, v)) with
        | none =>
          have := law.pop_none _ hp
          rw [this] at hpush
          have := hpush.length_eq
          simp at this
        | some r =>
          obtain ⟨m, q1⟩ := r
          simp only [hp] at h
          have hnumH1 : ∀ y ∈ law.elems (pq.push q (k, v)), Numeric y := by
            intro y hy
            rcases List.mem_cons.mp (hpush.mem_iff.mp hy) with e | e
            · rw [e]; exact hnum
            · exact hnumH y e
          obtain ⟨hq2, hperm, hmin⟩ := law.pop_some _ _ _ hq1 hnumH1 hp
          have hxm : ((k, v) :: law.elems q).Perm (m :: law.elems q1) := hpush.symm.trans hperm
          have hinv' : TopInv n (P ++ [(k, v)]) (law.elems q1) (m :: D) := by
            refine ⟨?_, ?_, ?_, hnumP⟩
            · -- multiset bookkeeping
              have h1 : (law.elems q1 ++ m :: D).Perm (m :: law.elems q1 ++ D) := by
                simpa using (List.perm_middle (a := m) (l₁ := law.elems q1) (l₂ := D))
              have h2 : (m :: law.elems q1 ++ D).Perm (((k, v) :: law.elems q) ++ D) :=
                List.Perm.append_right D hxm.symm
              have h3 : (((k, v) :: law.elems q) ++ D).Perm ((k, v) :: P) := by
                simpa using List.Perm.cons (k, v) hinv.perm
              have h4 : ((k, v) :: P).Perm (P ++ [(k, v)]) := by
                simpa using (List.perm_append_comm (l₁ := [(k, v)]) (l₂ := P))
              exact h1.trans (h2.trans (h3.trans h4))
            · intro d hd h hh
              have hmem : h ∈ (k, v) :: law.elems q := hxm.symm.mem_iff.mp (List.mem_cons_of_mem m hh)
              have hnumOf : ∀ y, y ∈ (k, v) :: law.elems q → Numeric y := by
                intro y hy
                rcases List.mem_cons.mp hy with hy | hy
                · subst hy; exact hnum
                · exact hinv.num y (hinv.perm.mem_iff.mp (List.mem_append_left D hy))
              rcases List.mem_cons.mp hd with hdm | hdD
              · subst hdm; exact hmin h hh
              · rcases List.mem_cons.mp hmem with hkv | hH
                · -- h is the new item
                  by_cases hmx : m = (k, v)
                  · -- the new item itself was popped: the heap is what it was
                    rw [hmx] at hxm
                    have hqq : (law.elems q).Perm (law.elems q1) := hxm.cons_inv
                    exact hinv.low d hdD h (hqq.symm.mem_iff.mp hh)
                  · have hmH : m ∈ law.elems q := by
                      have : m ∈ (k, v) :: law.elems q := hxm.mem_iff.mpr (List.mem_cons_self ..)
                      rcases List.mem_cons.mp this with e | e
                      · exact absurd e hmx
                      · exact e
                    have h1 : ¬ itemLess m d = true := hinv.low d hdD m hmH
                    have h2 : ¬ itemLess h m = true := hmin h hh
                    have hnd : Numeric d := hinv.num d (hinv.perm.mem_iff.mp (List.mem_append_right _ hdD))
                    exact itemLess_trans_le (hnumOf h hmem) (hnumOf m (List.mem_cons_of_mem _ hmH)) hnd h2 h1
                · exact hinv.low d hdD h hH
            · have hl := hxm.length_eq
              have hl0 := hinv.len
              simp only [List.length_cons, List.length_append, List.length_nil] at hl ⊢
              rw [hsz] at hgt
              omega
          have := ih (P ++ [(k, v)]) q1 (m :: D) q' hq2 hinv' h
          simpa [List.append_assoc] using this
      · -- still room: nothing was ever dropped
        simp only [hgt, if_false] at h
        rw [hsz] at hgt
        have hl0 := hinv.len
        have hD : D = [] := by
          have := hinv.perm.length_eq
          simp only [List.length_append] at this
          have : D.length = 0 := by omega
          exact List.eq_nil_of_length_eq_zero this
        subst hD
        have hinv' : TopInv n (P ++ [(k, v)]) (law.elems (pq.push q (k, v))) [] := by
          refine ⟨?_, by simp, ?_, hnumP⟩
          · have h3 : ((k, v) :: law.elems q).Perm ((k, v) :: P) := by
              simpa using List.Perm.cons (k, v) hinv.perm
            have h4 : ((k, v) :: P).Perm (P ++ [(k, v)]) := by
              simpa using (List.perm_append_comm (l₁ := [(k, v)]) (l₂ := P))
            simpa using hpush.trans (h3.trans h4)
          · rw [hpush.length_eq]
            simp only [List.length_cons, List.length_append, List.length_nil]
            omega
        have := ih (P ++ [(k, v)]) _ [] q' hq1 hinv' h
        simpa [List.append_assoc] using this
    · simp [hk] at h

/-- emptying the heap yields its contents greatest first -/
theorem popAll_spec (pq : PQ) (law : PQLaw pq) : ∀ (f : Nat) (q : pq.Q) (acc : List Item),
    (law.elems q).length ≤ f → law.inv q → (∀ y ∈ law.elems q, Numeric y) →
    ∃ out, popAll pq f q acc = out ++ acc ∧ out.Perm (law.elems q) ∧
      out.Pairwise (fun a b => ¬ itemLess a b = true) := by
  intro f
  induction f with
  | zero =>
    intro q acc h _ _
    have : law.elems q = [] := List.eq_nil_of_length_eq_zero (by omega)
    exact ⟨[], by simp [popAll], by simp [this], by simp⟩
  | succ f ih =>
    intro q acc h hq hnum
    cases hp : pq.pop q with
    | none =>
      have := law.pop_none q hp
      exact ⟨[], by simp [popAll, hp], by simp [this], by simp⟩
    | some r =>
      obtain ⟨x, q1⟩ := r
      obtain ⟨hq1, hperm, hmin⟩ := law.pop_some q x q1 hq hnum hp
      have hl := hperm.length_eq
      simp only [List.length_cons] at hl
      have hnum1 : ∀ y ∈ law.elems q1, Numeric y := fun y hy =>
        hnum y (hperm.mem_iff.mpr (List.mem_cons_of_mem _ hy))
      obtain ⟨out, h1, h2, h3⟩ := ih q1 (x :: acc) (by omega) hq1 hnum1
      refine ⟨out ++ [x], by simp [popAll, hp, h1], ?_, ?_⟩
      · have : (out ++ [x]).Perm (x :: out) := by
          simpa using (List.perm_append_comm (l₁ := out) (l₂ := [x]))
        exact this.trans ((List.Perm.cons x h2).trans hperm.symm)
      · rw [List.pairwise_append]
        refine ⟨h3, by simp, ?_⟩
        intro a ha b hb
        simp at hb; subst hb
        exact hmin a (h2.mem_iff.mp ha)

/-! a priority queue that keeps the law: an unsorted list whose `pop` extracts a minimum -/

def extractMin : List Item → Option (Item × List Item)
  | [] => none
  | x :: xs =>
    match extractMin xs with
    | none => some (x, [])
    | some (m, rest) => if itemLess m x then some (m, x :: rest) else some (x, xs)

def listPQ : PQ :=
  { Q := List Item, empty := [], push := fun q x => x :: q, pop := extractMin, size := List.length }

theorem extractMin_spec : ∀ (l : List Item) (m : Item) (rest : List Item),
    extractMin l = some (m, rest) →
    l.Perm (m :: rest) ∧ ((∀ y ∈ l, Numeric y) → ∀ y ∈ rest, ¬ itemLess y m = true) := by
  intro l
  induction l with
  | nil => intro m rest h; simp [extractMin] at h
  | cons x xs ih =>
    intro m rest h
    simp only [extractMin] at h
    cases hx : extractMin xs with
    | none =>
      have hnil : xs = [] := by
        cases xs with
        | nil => rfl
        | cons y ys =>
          simp only [extractMin] at hx
          cases hy : extractMin ys with
          | none => simp [hy] at hx
          | some r => obtain ⟨a, b⟩ := r; simp only [hy] at hx; split at hx <;> cases hx
      simp only [hx, Option.some.injEq, Prod.mk.injEq] at h
      obtain ⟨h1, h2⟩ := h
      subst h1; subst h2; subst hnil
      exact ⟨List.Perm.refl _, by simp⟩
    | some r =>
      obtain ⟨m0, rest0⟩ := r
      obtain ⟨hp, hmin⟩ := ih m0 rest0 hx
      simp only [hx] at h
      by_cases hl : itemLess m0 x = true
      · simp only [hl, if_true, Option.some.injEq, Prod.mk.injEq] at h
        obtain ⟨h1, h2⟩ := h
        subst h1; subst h2
        refine ⟨?_, ?_⟩
        · exact (List.Perm.cons x hp).trans (List.Perm.swap ..)
        · intro hnum y hy
          have hnx : Numeric x := hnum x (List.mem_cons_self ..)
          have hnm : Numeric m0 := hnum m0 (List.mem_cons_of_mem _ (hp.mem_iff.mpr (List.mem_cons_self ..)))
          rcases List.mem_cons.mp hy with e | e
          · rw [e]
            unfold Numeric at hnx hnm
            unfold itemLess at hl ⊢
            cases hvx : valNum x.2 with
            | none => simp [hvx] at hnx
            | some a =>
              cases hvm : valNum m0.2 with
              | none => simp [hvm] at hnm
              | some b => simp only [hvx, hvm, decide_eq_true_eq] at hl ⊢; omega
          · exact hmin (fun z hz => hnum z (List.mem_cons_of_mem _ hz)) y e
      · simp only [hl, Bool.false_eq_true, if_false, Option.some.injEq, Prod.mk.injEq] at h
        obtain ⟨h1, h2⟩ := h
        subst h1; subst h2
        refine ⟨List.Perm.refl _, ?_⟩
        intro hnum y hy
        have hnx : Numeric x := hnum x (List.mem_cons_self ..)
        have hnxs : ∀ z ∈ xs, Numeric z := fun z hz => hnum z (List.mem_cons_of_mem _ hz)
        rcases List.mem_cons.mp (hp.mem_iff.mp hy) with e | e
        · rw [e]; exact hl
        · have h1 := hmin hnxs y e
          exact itemLess_trans_le (hnxs y hy) (hnxs m0 (hp.mem_iff.mpr (List.mem_cons_self ..))) hnx h1 hl

def listPQLaw : PQLaw listPQ where
  elems := fun q => q
  inv := fun _ => True
  inv_empty := trivial
  empty := rfl
  size := fun _ => rfl
  push := fun _ _ _ _ _ => ⟨trivial, List.Perm.refl _⟩
  pop_none := by
    intro q h
    cases q with
    | nil => rfl
    | cons x xs =>
      simp only [listPQ, extractMin] at h
      cases hx : extractMin xs with
      | none => simp [hx] at h
      | some r => obtain ⟨a, b⟩ := r; simp only [hx] at h; split at h <;> cases h
  pop_some := fun q x q' _ hnum h =>
    ⟨trivial, (extractMin_spec q x q' h).1, (extractMin_spec q x q' h).2 hnum⟩

/-! ### sort.Search and CollectionFeature.FindValue -/

/-- `sort.Search` on a monotone predicate returns the first index where it holds (or `n`) -/
theorem searchGo_spec (f : Nat → Bool) (n : Nat)
    (mono : ∀ x y, x ≤ y → y < n → f x = true → f y = true) :
    ∀ (fuel i j : Nat), i ≤ j → j ≤ n → j - i < fuel →
      (∀ x, x < i → f x = false) → (∀ x, j ≤ x → x < n → f x = true) →
      (∀ x, x < searchGo f fuel i j → f x = false) ∧
      (∀ x, searchGo f fuel i j ≤ x → x < n → f x = true) ∧ searchGo f fuel i j ≤ n := by
  intro fuel
  induction fuel with
  | zero => intro i j _ _ h; omega
  | succ fuel ih =>
    intro i j hij hjn hfuel hlo hhi
    by_cases hlt : i < j
    · have hh1 : i ≤ (i + j) / 2 := by omega
      have hh2 : (i + j) / 2 < j := by omega
      cases hf : f ((i + j) / 2) with
      | false =>
        have := ih ((i + j) / 2 + 1) j (by omega) hjn (by omega)
          (by
            intro x hx
            by_cases hxi : x < i
            · exact hlo x hxi
            · cases hfx : f x with
              | false => rfl
              | true =>
                have := mono x ((i + j) / 2) (by omega) (by omega) hfx
                rw [hf] at this; cases this)
          hhi
        simpa [searchGo, hlt, hf] using this
      | true =>
        have := ih i ((i + j) / 2) hh1 (by omega) (by omega) hlo
          (by
            intro x hx hxn
            exact mono ((i + j) / 2) x hx hxn hf)
        simpa [searchGo, hlt, hf] using this
    · have hij' : i = j := by omega
      subst hij'
      simp only [searchGo, hlt, if_false]
      exact ⟨hlo, hhi, hjn⟩

/-- what FindValue needs from the keys and the probe, in terms of the two observations the code makes:
`L i` = `!(Keys[i] < key)` and `E i` = `Keys[i] == key` (errors read as false) -/
structure SearchOk (keys : Array Val) (key : Val) : Prop where
  mono : ∀ i j, i ≤ j → j < keys.size → notLess keys key i = true → notLess keys key j = true
  eq_ge : ∀ i, eqAt keys key i = true → notLess keys key i = true
  gt_stays : ∀ i j, i ≤ j → j < keys.size → notLess keys key i = true → eqAt keys key i = false →
    eqAt keys key j = false
  between : ∀ i x j, i ≤ x → x ≤ j → j < keys.size → eqAt keys key i = true → eqAt keys key j = true →
    eqAt keys key x = true

theorem sortSearch_spec (keys : Array Val) (key : Val) (h : SearchOk keys key) :
    (∀ x, x < sortSearch keys.size (notLess keys key) → notLess keys key x = false) ∧
    (∀ x, sortSearch keys.size (notLess keys key) ≤ x → x < keys.size → notLess keys key x = true) ∧
    sortSearch keys.size (notLess keys key) ≤ keys.size := by
  unfold sortSearch
  exact searchGo_spec (notLess keys key) keys.size h.mono (keys.size + 1) 0 keys.size
    (Nat.zero_le _) (Nat.le_refl _) (by omega) (by intro x hx; omega) (by intro x hx hxn; omega)

theorem find?_range_first (p : Nat → Bool) (n i : Nat) (hi : i < n) (hp : p i = true)
    (hlt : ∀ x, x < i → p x = false) : (List.range n).find? p = some i := by
  rw [List.find?_eq_some_iff_append]
  refine ⟨hp, List.range i, (List.range' (i + 1) (n - i - 1)), ?_, ?_⟩
  · have : List.range n = List.range' 0 n := List.range_eq_range' ..
    rw [this, List.range_eq_range']
    have e : n = i + (1 + (n - i - 1)) := by omega
    conv => lhs; rw [e]
    rw [← List.range'_append_1, ← List.range'_append_1]
    simp
  · intro a ha
    have : a < i := by simpa using ha
    simp [hlt a this]

theorem find?_range_none (p : Nat → Bool) (n : Nat) (h : ∀ x, x < n → p x = false) :
    (List.range n).find? p = none := by
  rw [List.find?_eq_none]
  intro x hx
  have : x < n := by simpa using hx
  simp [h x this]

end B6.Lemmas.Collections
