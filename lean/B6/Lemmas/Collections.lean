import B6.Model.Collections
import B6.Model.CollectionsExpr
import B6.Spec.Collections
/-!
Helper lemmas for C24: each iterator-style `next` function, drained with enough fuel, yields its list
reference (`Spec.Collections`).  Core Lean only.
-/
namespace B6.Lemmas.Collections
open B6.Model.Collections B6.Spec.Collections

/-! ### array / pair collection -/

theorem drain_src (fin : End) : ∀ (items : List Item) (f : Nat), items.length < f →
    drain Src.next f ⟨items, fin⟩ = (items, finOf fin) := by
  intro items
  induction items with
  | nil =>
    intro f hf
    cases f with
    | zero => omega
    | succ f => cases fin <;> simp [drain, Src.next, finOf]
  | cons x xs ih =>
    intro f hf
    cases f with
    | zero => omega
    | succ f =>
      have := ih f (by simp at hf; omega)
      simp [drain, Src.next, this]

/-! ### take -/

theorem drain_take (fin : End) : ∀ (rest : List Item) (n : Int) (f : Nat), rest.length < f →
    drain takeNext f (⟨rest, fin⟩, n) = takeRef n ⟨rest, fin⟩ := by
  intro rest
  induction rest with
  | nil =>
    intro n f hf
    cases f with
    | zero => omega
    | succ f =>
      by_cases hn : n > 0
      · have h1 : ¬ n.toNat ≤ 0 := by omega
        cases fin <;> simp [drain, takeNext, hn, Src.next, takeRef, h1, finOf]
      · have h1 : n.toNat = 0 := by omega
        simp [drain, takeNext, hn, takeRef, h1]
  | cons x xs ih =>
    intro n f hf
    cases f with
    | zero => omega
    | succ f =>
      by_cases hn : n > 0
      · have := ih (n - 1) f (by simp at hf; omega)
        simp only [drain, takeNext, hn, if_true, Src.next, this]
        have e : n.toNat = (n - 1).toNat + 1 := by omega
        simp only [takeRef, List.length_cons, e, Nat.add_le_add_iff_right, List.take_succ_cons]
        split <;> rfl
      · have h1 : n.toNat = 0 := by omega
        simp [drain, takeNext, hn, takeRef, h1]

/-! ### map, map-items, filter -/

theorem drain_map (g : Val → Option Val) (fin : End) : ∀ (rest : List Item) (f : Nat), rest.length < f →
    drain (mapNext g) f ⟨rest, fin⟩ = mapRef g fin rest := by
  intro rest
  induction rest with
  | nil =>
    intro f hf
    cases f with
    | zero => omega
    | succ f => cases fin <;> simp [drain, mapNext, Src.next, mapRef, finOf]
  | cons x xs ih =>
    intro f hf
    obtain ⟨k, v⟩ := x
    cases f with
    | zero => omega
    | succ f =>
      have := ih f (by simp at hf; omega)
      cases hg : g v with
      | none => simp [drain, mapNext, Src.next, mapRef, hg]
      | some v' => simp [drain, mapNext, Src.next, mapRef, hg, this]

theorem drain_mapItems (g : Val → Val → Option Item) (fin : End) : ∀ (rest : List Item) (f : Nat),
    rest.length < f → drain (mapItemsNext g) f ⟨rest, fin⟩ = mapItemsRef g fin rest := by
  intro rest
  induction rest with
  | nil =>
    intro f hf
    cases f with
    | zero => omega
    | succ f => cases fin <;> simp [drain, mapItemsNext, Src.next, mapItemsRef, finOf]
  | cons x xs ih =>
    intro f hf
    obtain ⟨k, v⟩ := x
    cases f with
    | zero => omega
    | succ f =>
      have := ih f (by simp at hf; omega)
      cases hg : g k v with
      | none => simp [drain, mapItemsNext, Src.next, mapItemsRef, hg]
      | some kv => simp [drain, mapItemsNext, Src.next, mapItemsRef, hg, this]

theorem drain_filter (p : Val → Option Val) (fin : End) : ∀ (rest : List Item) (f : Nat),
    rest.length < f → drain (filterNext p) f ⟨rest, fin⟩ = filterRef p fin rest := by
  intro rest
  induction rest with
  | nil =>
    intro f hf
    cases f with
    | zero => omega
    | succ f => cases fin <;> simp [drain, filterNext, filterGo, filterRef, finOf]
  | cons x xs ih =>
    intro f hf
    obtain ⟨k, v⟩ := x
    cases f with
    | zero => omega
    | succ f =>
      have hlen : xs.length < f := by simp at hf; omega
      have ih1 := ih f hlen
      have ih2 := ih (f + 1) (by omega)
      cases hp : p v with
      | none => simp [drain, filterNext, filterGo, filterRef, hp]
      | some r =>
        cases r with
        | bool b =>
          cases b with
          | true =>
            simp only [drain, filterNext, filterGo, filterRef, hp]
            rw [ih1]
          | false =>
            simp only [drain, filterNext, filterGo, filterRef, hp]
            simp only [drain, filterNext] at ih2
            exact ih2
        | int i => simp [drain, filterNext, filterGo, filterRef, hp]
        | float c => simp [drain, filterNext, filterGo, filterRef, hp]
        | str s => simp [drain, filterNext, filterGo, filterRef, hp]
        | fid t ns v => simp [drain, filterNext, filterGo, filterRef, hp]

/-! ### flatten -/

def itemsTotal : List Src → Nat
  | [] => 0
  | s :: ss => s.rest.length + itemsTotal ss

theorem itemsTotal_le_srcTotal : ∀ ss : List Src, itemsTotal ss ≤ srcTotal ss
  | [] => Nat.le_refl _
  | s :: ss => by
    have := itemsTotal_le_srcTotal ss
    simp only [itemsTotal, srcTotal]; omega

theorem drain_congr {σ : Type} (next : σ → Step σ) (s s' : σ) (h : next s = next s') (f : Nat) :
    drain next (f + 1) s = drain next (f + 1) s' := by
  simp only [drain, h]

/-- with an inner iterator open -/
theorem drain_flatten_some (ofin : End) (ss : List Src)
    (hnone : ∀ f, itemsTotal ss < f → drain (flattenNext ofin) f (ss, none) = flattenRef ofin ss)
    (cfin : End) : ∀ (rest : List Item) (f : Nat), itemsTotal ss + rest.length < f →
      drain (flattenNext ofin) f (ss, some ⟨rest, cfin⟩) = flattenRef ofin (⟨rest, cfin⟩ :: ss) := by
  intro rest
  induction rest with
  | nil =>
    intro f hf
    cases f with
    | zero => omega
    | succ f =>
      cases cfin with
      | err => simp [drain, flattenNext, flattenRef]
      | done =>
        have h1 : flattenNext ofin (ss, some ⟨[], .done⟩) = flattenNext ofin (ss, none) := by
          simp [flattenNext]
        rw [drain_congr _ _ _ h1, hnone (f + 1) (by simpa using hf)]
        simp [flattenRef]
  | cons x xs ih =>
    intro f hf
    cases f with
    | zero => omega
    | succ f =>
      have := ih f (by simp at hf; omega)
      simp only [drain, flattenNext, this]
      cases cfin <;> simp [flattenRef]

theorem drain_flatten_none (ofin : End) : ∀ (ss : List Src) (f : Nat), itemsTotal ss < f →
    drain (flattenNext ofin) f (ss, none) = flattenRef ofin ss := by
  intro ss
  induction ss with
  | nil =>
    intro f hf
    cases f with
    | zero => omega
    | succ f => cases ofin <;> simp [drain, flattenNext, flattenOuter, flattenRef, finOf]
  | cons c cs ih =>
    intro f hf
    obtain ⟨rest, cfin⟩ := c
    cases f with
    | zero => omega
    | succ f =>
      cases rest with
      | nil =>
        cases cfin with
        | err => simp [drain, flattenNext, flattenOuter, flattenRef]
        | done =>
          have h1 : flattenNext ofin (⟨[], .done⟩ :: cs, none) = flattenNext ofin (cs, none) := by
            simp [flattenNext, flattenOuter]
          rw [drain_congr _ _ _ h1, ih (f + 1) (by simpa [itemsTotal] using hf)]
          simp [flattenRef]
      | cons x xs =>
        have hs := drain_flatten_some ofin cs ih cfin xs f (by simp [itemsTotal] at hf; omega)
        simp only [drain, flattenNext, flattenOuter, hs]
        cases cfin <;> simp [flattenRef]

/-! ### join-missing -/

theorem goLess_none_iff (a b : Val) : goLess a b = none ↔ goEqual a b = none := by
  cases a <;> cases b <;> simp [goLess, goEqual] <;> split <;> simp_all

/-- every started state of the merge is `st B J`: `B`, `J` = current item followed by what is still to come -/
def st (bfin jfin : End) (B J : List Item) : JM :=
  { started := true, b := ⟨B.tail, bfin⟩, j := ⟨J.tail, jfin⟩, bcur := B.head?, jcur := J.head? }

/-- what is left once the current item of `st B J` has been emitted -/
def pend : List Item → List Item → List Item × List Item
  | b :: bs, j :: js => if goLess j.1 b.1 = some true then (b :: bs, js) else (bs, j :: js)
  | _ :: bs, [] => (bs, [])
  | [], _ :: js => ([], js)
  | [], [] => ([], [])

theorem adv_eq (L : List Item) (fin : End) :
    adv ⟨L, fin⟩ = if L = [] ∧ fin = .err then none else some (L.head?, ⟨L.tail, fin⟩) := by
  cases L with
  | nil => cases fin <;> simp [adv]
  | cons x xs => simp [adv]

/-- the heads of a started state are not equal (the skip loop ran) -/
def HeadsDiffer : List Item → List Item → Prop
  | b :: _, j :: _ => goEqual j.1 b.1 = some false
  | _, _ => True

/-- an exhausted side ended without an error -/
def EndsOk (bfin jfin : End) (B J : List Item) : Prop := (B = [] → bfin = .done) ∧ (J = [] → jfin = .done)

theorem joinRef_err_of_not_endsOk (bfin jfin : End) (B J : List Item) (h : ¬ EndsOk bfin jfin B J) :
    joinRef bfin jfin B J = ([], .err) := by
  unfold EndsOk at h
  cases B with
  | nil =>
    cases J with
    | nil => cases bfin <;> cases jfin <;> simp_all [joinRef]
    | cons j js => cases bfin <;> simp_all [joinRef]
  | cons b bs =>
    cases J with
    | nil => cases jfin <;> simp_all [joinRef]
    | cons j js => simp at h

theorem some_false_ne_none_less {a b : Val} (h : goEqual a b = some false) :
    ∃ l, goLess a b = some l := by
  cases hl : goLess a b with
  | none => rw [(goLess_none_iff a b).mp hl] at h; cases h
  | some l => exact ⟨l, rfl⟩

/-- first half of `Next` on a started state: the side whose item was emitted moves on -/
theorem jmAdvance_st (bfin jfin : End) (B J : List Item) (hd : HeadsDiffer B J)
    (hok : EndsOk bfin jfin B J) :
    (EndsOk bfin jfin (pend B J).1 (pend B J).2 →
      jmAdvance (st bfin jfin B J) = some (st bfin jfin (pend B J).1 (pend B J).2)) ∧
    (¬ EndsOk bfin jfin (pend B J).1 (pend B J).2 → jmAdvance (st bfin jfin B J) = none) := by
  unfold EndsOk at *
  cases B with
  | nil =>
    cases J with
    | nil => simp [jmAdvance, st, pend]
    | cons j js =>
      have hb : bfin = .done := hok.1 rfl
      subst hb
      cases js with
      | nil => cases jfin <;> simp [jmAdvance, st, pend, adv]
      | cons x xs => simp [jmAdvance, st, pend, adv]
  | cons b bs =>
    cases J with
    | nil =>
      have hj : jfin = .done := hok.2 rfl
      subst hj
      cases bs with
      | nil => cases bfin <;> simp [jmAdvance, st, pend, adv]
      | cons x xs => simp [jmAdvance, st, pend, adv]
    | cons j js =>
      obtain ⟨l, hl⟩ := some_false_ne_none_less hd
      cases l with
      | true =>
        cases js with
        | nil => cases jfin <;> simp [jmAdvance, st, pend, adv, hl]
        | cons x xs => simp [jmAdvance, st, pend, adv, hl]
      | false =>
        cases bs with
        | nil => cases bfin <;> simp [jmAdvance, st, pend, adv, hl]
        | cons x xs => simp [jmAdvance, st, pend, adv, hl]

end B6.Lemmas.Collections
