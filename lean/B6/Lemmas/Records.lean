import B6.Model.Records
import B6.Lemmas.Varint
/-!
# Round-trip lemmas for the compact record codecs, part 1: decoder combinators, varints, fixed-width
integers, the value-type / geometry words (kernel-only proofs, no Mathlib).

`RT e d a` ("`e` round-trips to `a` through `d`") is the shape of every C11 theorem:
`d (e ++ rest) = some (a, |e|)` for every `rest`.
-/
namespace B6.Model.Records
open B6.Model.Varint

/-- `RT e d a`: from `e` followed by anything the decoder reads `a` and reports exactly `|e|` bytes. -/
def RT {α : Type} (e : Bytes) (d : Dec α) (a : α) : Prop := ∀ rest, d (e ++ rest) = some (a, e.length)

theorem RT.pure {α : Type} (a : α) : RT [] (Dec.pure a) a := fun _ => rfl

theorem RT.andThen {α β : Type} {e1 e2 : Bytes} {d : Dec α} {f : α → Dec β} {a : α} {b : β}
    (h1 : RT e1 d a) (h2 : RT e2 (f a) b) : RT (e1 ++ e2) (d.andThen f) b := by
  intro rest
  have := h1 (e2 ++ rest)
  simp only [Dec.andThen, List.append_assoc, this, List.drop_left, h2 rest, List.length_append]

theorem RT.map {α β : Type} {e : Bytes} {d : Dec α} {a : α} (f : α → β) (h : RT e d a) : RT e (d.map f) (f a) := by
  intro rest
  simp only [Dec.map, h rest]

theorem RT.congr {α : Type} {e e' : Bytes} {d : Dec α} {a a' : α} (h : RT e d a) (he : e = e') (ha : a = a') : RT e' d a' := by
  subst he; subst ha; exact h

/-- list loop: if every step round-trips (for elements satisfying `P`), so does the loop. -/
theorem RT.forEach {α γ σ : Type} (P : α → Prop) (g : α → γ) (f : σ → α → Bytes × σ) (step : γ → σ → Dec (α × σ))
    (h : ∀ s a, P a → RT (f s a).1 (step (g a) s) (a, (f s a).2)) :
    ∀ (as : List α) (s : σ), (∀ a ∈ as, P a) → RT (encEach f s as) (Dec.forEach step (as.map g) s) as := by
  intro as
  induction as with
  | nil => intro s _; exact RT.pure _
  | cons a as ih =>
    intro s hP
    simp only [encEach, List.map_cons, Dec.forEach]
    have h1 := h s a (hP a (by simp))
    have h2 := ih (f s a).2 (fun x hx => hP x (by simp [hx]))
    have := RT.andThen (f := fun r => (Dec.forEach step (as.map g) r.2).map (r.1 :: ·)) h1 (RT.map (a :: ·) h2)
    simpa using this

theorem RT.times {α σ : Type} (P : α → Prop) (f : σ → α → Bytes × σ) (step : σ → Dec (α × σ))
    (h : ∀ s a, P a → RT (f s a).1 (step s) (a, (f s a).2)) (as : List α) (s : σ) (hP : ∀ a ∈ as, P a) :
    RT (encEach f s as) (Dec.times step as.length s) as := by
  have := RT.forEach P (fun _ => ()) f (fun _ => step) h as s hP
  have e : as.map (fun _ => ()) = List.replicate as.length () := List.map_const' ..
  rw [e] at this
  exact this

theorem rt_uvarint (v : Nat) (hv : v < 2 ^ 64) : RT (putUvarint v) dUvarint v :=
  fun rest => uvarint_putUvarint_append v hv rest

theorem rt_varint (x : BitVec 64) : RT (putVarint x) dVarint x :=
  fun rest => varint_putVarint_append x rest

theorem rt_count (v : Nat) (hv : v < 2 ^ 63) : RT (putUvarint v) dCount v := by
  intro rest
  simp only [dCount, uvarint_putUvarint_append v (by omega) rest, hv, if_true]

theorem rt_value (w : Nat) (hw : w < 2 ^ 64) : RT (putUvarint w) dValue (w / 4) :=
  RT.map (· / 4) (rt_uvarint w hw)


/-! ## fixed-width little-endian fields -/

theorem rt_u32 (v : BitVec 32) : RT (putU32 v) dU32 v := by
  intro rest
  have hl : (putU32 v).length = 4 := marshalUint64_length _ _
  have ht : (putU32 v ++ rest).take 4 = putU32 v := by
    rw [List.take_append_of_le_length (by omega), List.take_of_length_le (by omega)]
  have hv := leValue_marshalUint64 4 v.toNat
  have : v.toNat % 256 ^ 4 = v.toNat := Nat.mod_eq_of_lt (by have := v.isLt; omega)
  simp only [dU32, List.length_append, hl, ht]
  rw [if_neg (by omega)]
  simp only [putU32, hv, this, BitVec.ofNat_toNat, BitVec.setWidth_eq]

theorem rt_u16 (v : BitVec 16) : RT (putU16 v) dU16 v := by
  intro rest
  have hl : (putU16 v).length = 2 := marshalUint64_length _ _
  have ht : (putU16 v ++ rest).take 2 = putU16 v := by
    rw [List.take_append_of_le_length (by omega), List.take_of_length_le (by omega)]
  have hv := leValue_marshalUint64 2 v.toNat
  have : v.toNat % 256 ^ 2 = v.toNat := Nat.mod_eq_of_lt (by have := v.isLt; omega)
  simp only [dU16, List.length_append, hl, ht]
  rw [if_neg (by omega)]
  simp only [putU16, hv, this, BitVec.ofNat_toNat, BitVec.setWidth_eq]

/-! ## value type and geometry words -/

theorem valueTypeOk_iff (v : Nat) : valueTypeOk v = true ↔ v < 2 ^ 62 := by
  simp only [valueTypeOk, beq_iff_eq]
  omega

theorem encodeValueType_spec (t v : Nat) (ht : t < 4) (hv : v < 2 ^ 62) :
    encodeValueType t v < 2 ^ 64 ∧ encodeValueType t v / 4 = v ∧ encodeValueType t v % 4 = t := by
  simp only [encodeValueType]
  omega

/-- what `lenOk e l` buys: the length word survives `EncodeValueType`, and decodes to `l` and to encoding `e`. -/
theorem lenOk_spec (e l : Nat) (he : e ≤ 2) (h : lenOk e l = true) :
    encodeGeometry e l < 2 ^ 62 ∧ geometryLen (encodeGeometry e l) = l ∧ geometryEncoding (encodeGeometry e l) = e := by
  simp only [lenOk, Bool.and_eq_true, decide_eq_true_eq, valueTypeOk_iff] at h
  obtain ⟨h1, h2⟩ := h
  rcases e with _ | _ | _ | e
  · simp only [encodeGeometry, geometryLen, geometryEncoding] at h2 ⊢
    refine ⟨by omega, ?_, ?_⟩ <;> (repeat' split) <;> omega
  · simp only [encodeGeometry, geometryLen, geometryEncoding] at h2 ⊢
    refine ⟨by omega, ?_, ?_⟩ <;> (repeat' split) <;> omega
  · simp only [encodeGeometry, geometryLen, geometryEncoding] at h2 ⊢
    refine ⟨by omega, ?_, ?_⟩ <;> (repeat' split) <;> omega
  · omega

/-- the header `putUvarint (EncodeValueType(Expressions, EncodeGeometry(e, l)))` read back by `DecodeValue` -/
theorem rt_lenHeader (e l : Nat) (he : e ≤ 2) (h : lenOk e l = true) :
    RT (putUvarint (encodeValueType 2 (encodeGeometry e l))) dValue (encodeGeometry e l) := by
  obtain ⟨h1, _, _⟩ := lenOk_spec e l he h
  obtain ⟨a, b, _⟩ := encodeValueType_spec 2 (encodeGeometry e l) (by omega) h1
  exact (rt_value _ a).congr rfl b

end B6.Model.Records
