import B6.Model.Simplify
/-!
Helper lemmas for C22 `simplify_scope`: simplification does not free a bound parameter.
-/
namespace B6.Lemmas.Simplify
open B6.Model B6.Model.Simplify

variable (argc : String → Option Nat)

/-- every member of `A` is a member of `B` or the name of a global function -/
def Sub (A B : List String) : Prop := ∀ x, x ∈ A → x ∈ B ∨ (argc x).isSome = true

theorem sub_refl (A : List String) : Sub argc A A := fun _ h => Or.inl h
theorem sub_nil (B : List String) : Sub argc [] B := fun _ h => by cases h
theorem sub_trans {A B C : List String} (h1 : Sub argc A B) (h2 : Sub argc B C) : Sub argc A C := by
  intro x hx
  rcases h1 x hx with h | h
  · exact h2 x h
  · exact Or.inr h
theorem sub_append {A B C D : List String} (h1 : Sub argc A B) (h2 : Sub argc C D) :
    Sub argc (A ++ C) (B ++ D) := by
  intro x hx
  simp only [List.mem_append] at hx ⊢
  rcases hx with hx | hx
  · rcases h1 x hx with h | h
    · exact Or.inl (Or.inl h)
    · exact Or.inr h
  · rcases h2 x hx with h | h
    · exact Or.inl (Or.inr h)
    · exact Or.inr h
theorem sub_of_subset {A B : List String} (h : ∀ x, x ∈ A → x ∈ B) : Sub argc A B := fun x hx => Or.inl (h x hx)
theorem sub_filter {A B : List String} (p : String → Bool) (h : Sub argc A B) :
    Sub argc (A.filter p) (B.filter p) := by
  intro x hx
  simp only [List.mem_filter] at hx ⊢
  rcases h x hx.1 with h' | h'
  · exact Or.inl ⟨h', hx.2⟩
  · exact Or.inr h'

/-- the value-position variables the function part of a call contributes -/
def hd : Expr → List String
  | .sym _ => []
  | .lit _ => []
  | .lam ps b => (Expr.lam ps b).freeValueVars
  | .call f as p => (Expr.call f as p).freeValueVars

theorem fvv_call (f : Expr) (args : List Expr) (p : Bool) :
    (Expr.call f args p).freeValueVars = hd f ++ Expr.freeValueVarss args := by
  cases f <;> simp [Expr.freeValueVars, hd]

theorem hd_subset (f : Expr) : ∀ x, x ∈ hd f → x ∈ f.freeValueVars := by
  cases f <;> simp [hd]


/-- what the recursion hypothesis provides about `Simplify` one level down -/
structure Good (simp : Expr → Option (Expr × Expr)) : Prop where
  sub : ∀ e s m, simp e = some (s, m) →
    Sub argc s.freeValueVars e.freeValueVars ∧ Sub argc m.freeValueVars e.freeValueVars
  sym : ∀ x r, simp (.sym x) = some r → r = (.sym x, .sym x)

theorem simpArgs_good {simp : Expr → Option (Expr × Expr)} (g : Good argc simp) :
    ∀ (args args' : List Expr), simpArgsWith simp args = some args' →
      Sub argc (Expr.freeValueVarss args') (Expr.freeValueVarss args)
  | [], args', h => by
    simp only [simpArgsWith] at h; injection h with h; subst h; exact sub_refl argc _
  | a :: as, args', h => by
    simp only [simpArgsWith] at h
    cases ha : simp a with
    | none => simp [ha] at h
    | some r =>
      obtain ⟨a', ma⟩ := r
      cases has : simpArgsWith simp as with
      | none => simp [ha, has] at h
      | some as' =>
        simp only [ha, has] at h
        injection h with h; subst h
        simp only [Expr.freeValueVarss]
        exact sub_append argc (g.sub a a' ma ha).1 (simpArgs_good g as as' has)

theorem filter_nil_contains (l : List String) : l.filter (fun s => !([] : List String).contains s) = l := by
  induction l with
  | nil => rfl
  | cons a as ih => simp [List.filter, ih]

theorem postCall_good {simp : Expr → Option (Expr × Expr)} (g : Good argc simp)
    (f : Expr) (args : List Expr) (p : Bool) (s : Expr) (h : postCall argc simp f args p = some s) :
    Sub argc s.freeValueVars (hd f ++ Expr.freeValueVarss args) := by
  unfold postCall at h
  split at h
  · -- [], sym
    rename_i s0
    split at h
    · split at h
      · injection h with h; subst h
        intro x hx
        simp only [Expr.freeValueVars, List.mem_singleton] at hx
        subst hx
        rename_i n hn _
        exact Or.inr (by simp_all)
      · injection h with h; subst h; rw [fvv_call]; exact sub_refl argc _
    · injection h with h; subst h; rw [fvv_call]; exact sub_refl argc _
  · -- [], lam [] body
    rename_i body
    cases hb : simp body with
    | none => simp [hb] at h
    | some r =>
      obtain ⟨s1, m1⟩ := r
      simp only [hb, Option.map_some] at h
      injection h with h; subst h
      have := (g.sub body s1 m1 hb).1
      simp only [hd, Expr.freeValueVars, Expr.freeValueVarss, List.append_nil, filter_nil_contains]
      exact this
  · -- sym with arguments
    split at h
    · injection h with h; subst h; simp only [Expr.freeValueVars]; exact sub_nil argc _
    · injection h with h; subst h; rw [fvv_call]; exact sub_refl argc _
  · injection h with h; subst h; rw [fvv_call]; exact sub_refl argc _

theorem sub_hd_of_fvv {f' f : Expr} (h : Sub argc f'.freeValueVars f.freeValueVars)
    (hf : ∀ x, f ≠ .sym x) : Sub argc (hd f') (hd f) := by
  have h1 : Sub argc (hd f') f.freeValueVars := sub_trans argc (sub_of_subset argc (hd_subset f')) h
  cases f with
  | sym x => exact absurd rfl (hf x)
  | lit l => simpa [hd, Expr.freeValueVars] using h1
  | lam ps b => simpa [hd] using h1
  | call g as p => simpa [hd] using h1

theorem pick_good {f f' mf : Expr} (h1 : Sub argc f'.freeValueVars f.freeValueVars)
    (h2 : Sub argc mf.freeValueVars f.freeValueVars) (hs : ∀ x, f = .sym x → f' = .sym x) :
    Sub argc (hd (pickFunction argc f f' mf)) (hd f) := by
  unfold pickFunction
  split
  · simp only [hd]; exact sub_nil argc _
  · rename_i s0 hnot
    split
    · simp only [hd]; exact sub_nil argc _
    · refine sub_hd_of_fvv argc h2 ?_
      intro x hx; subst hx
      exact hnot x rfl
  · rename_i hnot1 hnot2
    cases f with
    | sym x =>
      have := hs x rfl
      subst this
      simp only [hd]; exact sub_nil argc _
    | lit l => exact sub_hd_of_fvv argc h1 (by intro x hx; cases hx)
    | lam ps b => exact sub_hd_of_fvv argc h1 (by intro x hx; cases hx)
    | call g as p => exact sub_hd_of_fvv argc h1 (by intro x hx; cases hx)

theorem simpCall_good {simp : Expr → Option (Expr × Expr)} (g : Good argc simp)
    (f : Expr) (args : List Expr) (p : Bool) (s m : Expr) (h : simpCall argc simp f args p = some (s, m)) :
    Sub argc s.freeValueVars (Expr.call f args p).freeValueVars ∧
    Sub argc m.freeValueVars (Expr.call f args p).freeValueVars := by
  unfold simpCall at h
  cases hf : simp f with
  | none => simp [hf] at h
  | some r =>
    obtain ⟨f', mf⟩ := r
    cases ha : simpArgsWith simp args with
    | none => simp [hf, ha] at h
    | some args' =>
      simp only [hf, ha] at h
      cases hp : postCall argc simp (pickFunction argc f f' mf) args' p with
      | none => simp [hp] at h
      | some s' =>
        simp only [hp, Option.map_some] at h
        injection h with h; injection h with h1 h2; subst h1; subst h2
        obtain ⟨gf1, gf2⟩ := g.sub f f' mf hf
        have hargs := simpArgs_good argc g args args' ha
        have hs : ∀ x, f = .sym x → f' = .sym x := by
          intro x hx; subst hx
          have := g.sym x _ hf
          injection this with this _
        rw [fvv_call f args p]
        constructor
        · exact sub_trans argc (postCall_good argc g _ _ _ _ hp)
            (sub_append argc (pick_good argc gf1 gf2 hs) hargs)
        · rw [fvv_call]
          refine sub_append argc ?_ hargs
          cases f with
          | sym x =>
            have := g.sym x _ hf
            injection this with _ this; subst this
            simp only [hd]; exact sub_nil argc _
          | lit l => exact sub_hd_of_fvv argc gf2 (by intro x hx; cases hx)
          | lam ps b => exact sub_hd_of_fvv argc gf2 (by intro x hx; cases hx)
          | call g' as p' => exact sub_hd_of_fvv argc gf2 (by intro x hx; cases hx)


mutual
  theorem mentions_of_free (x : String) : (r : Expr) → x ∈ r.freeValueVars → mentions x r = true
    | .sym t, h => by simp [Expr.freeValueVars] at h; simp [mentions, h]
    | .lit _, h => by simp [Expr.freeValueVars] at h
    | .lam ps b, h => by
      simp only [Expr.freeValueVars, List.mem_filter] at h
      simp [mentions, mentions_of_free x b h.1]
    | .call f args p, h => by
      rw [fvv_call, List.mem_append] at h
      simp only [mentions, Bool.or_eq_true]
      rcases h with h | h
      · exact Or.inl (mentions_of_free x f (hd_subset f x h))
      · exact Or.inr (mentionsAny_of_free x args h)
  theorem mentionsAny_of_free (x : String) : (rs : List Expr) → x ∈ Expr.freeValueVarss rs → mentionsAny x rs = true
    | [], h => by simp [Expr.freeValueVarss] at h
    | r :: rs, h => by
      simp only [Expr.freeValueVarss, List.mem_append] at h
      simp only [mentionsAny, Bool.or_eq_true]
      rcases h with h | h
      · exact Or.inl (mentions_of_free x r h)
      · exact Or.inr (mentionsAny_of_free x rs h)
end

theorem mem_fvvs {x : String} : ∀ {l : List Expr}, x ∈ Expr.freeValueVarss l → ∃ r ∈ l, x ∈ r.freeValueVars
  | [], h => by simp [Expr.freeValueVarss] at h
  | a :: as, h => by
    simp only [Expr.freeValueVarss, List.mem_append] at h
    rcases h with h | h
    · exact ⟨a, List.mem_cons_self, h⟩
    · obtain ⟨r, hr, hx⟩ := mem_fvvs h
      exact ⟨r, List.mem_cons_of_mem _ hr, hx⟩

theorem fvvs_of_mem {x : String} : ∀ {l : List Expr} {r : Expr}, r ∈ l → x ∈ r.freeValueVars → x ∈ Expr.freeValueVarss l
  | a :: as, r, hr, hx => by
    simp only [Expr.freeValueVarss, List.mem_append]
    simp only [List.mem_cons] at hr
    rcases hr with rfl | hr
    · exact Or.inl hx
    · exact Or.inr (fvvs_of_mem hr hx)

theorem canDrop_inv {ps : List String} {f2 : Expr} {args2 : List Expr} (h : canDrop argc ps f2 args2 = true) :
    ∃ s2, f2 = .sym s2 ∧ argc s2 = some args2.length ∧
      ∀ r ∈ args2.drop ps.length, ∀ p ∈ ps, mentions p r = false := by
  unfold canDrop at h
  split at h
  · rename_i s2
    simp only [Bool.and_eq_true, beq_iff_eq, List.all_eq_true, Bool.not_eq_eq_eq_not, Bool.not_true] at h
    exact ⟨s2, rfl, h.1.1, fun r hr p hp => (h.2 r hr).2 p hp⟩
  · cases h

theorem simpLam_good {simp : Expr → Option (Expr × Expr)} (g : Good argc simp)
    (ps : List String) (body : Expr) (s m : Expr) (h : simpLam argc simp ps body = some (s, m)) :
    Sub argc s.freeValueVars (Expr.lam ps body).freeValueVars ∧
    Sub argc m.freeValueVars (Expr.lam ps body).freeValueVars := by
  unfold simpLam at h
  cases hb : simp body with
  | none => simp [hb] at h
  | some r =>
    obtain ⟨body', mb⟩ := r
    simp only [hb] at h
    obtain ⟨gb1, gb2⟩ := g.sub body body' mb hb
    have hun : Sub argc (Expr.lam ps mb).freeValueVars (Expr.lam ps body).freeValueVars := by
      simp only [Expr.freeValueVars]; exact sub_filter argc _ gb2
    -- the three ways out that return the unchanged lambda
    have unchanged : ∀ {s m : Expr}, some (Expr.lam ps mb, Expr.lam ps mb) = some (s, m) →
        Sub argc s.freeValueVars (Expr.lam ps body).freeValueVars ∧
        Sub argc m.freeValueVars (Expr.lam ps body).freeValueVars := by
      intro s m h; injection h with h; injection h with h1 h2; subst h1; subst h2; exact ⟨hun, hun⟩
    split at h
    · rename_i f2 args2 p2
      split at h
      · rename_i hcond
        simp only [Bool.and_eq_true] at hcond
        obtain ⟨s2, rfl, hargc, hnom⟩ := canDrop_inv argc hcond.2
        split at h
        · -- all arguments consumed: the function symbol alone
          cases hf : simp (.sym s2) with
          | none => simp [hf] at h
          | some r =>
            have := g.sym s2 r hf
            subst this
            simp only [hf, Option.map_some] at h
            injection h with h; injection h with h1 h2; subst h1; subst h2
            refine ⟨?_, hun⟩
            intro x hx
            simp only [Expr.freeValueVars, List.mem_singleton] at hx
            subst hx
            exact Or.inr (by rw [hargc]; rfl)
        · -- the remaining arguments stay
          cases hc : simpCall argc simp (.sym s2) (args2.drop ps.length) false with
          | none => simp [hc] at h
          | some r =>
            obtain ⟨s', m'⟩ := r
            simp only [hc, Option.map_some] at h
            injection h with h; injection h with h1 h2; subst h1; subst h2
            refine ⟨?_, hun⟩
            have h1 := (simpCall_good argc g _ _ _ _ _ hc).1
            refine sub_trans argc h1 ?_
            rw [fvv_call]
            simp only [hd, List.nil_append]
            intro x hx
            obtain ⟨r, hr, hxr⟩ := mem_fvvs hx
            have hnotps : x ∉ ps := by
              intro hps
              have := hnom r hr x hps
              rw [mentions_of_free x r hxr] at this
              cases this
            have hx2 : x ∈ (Expr.call (.sym s2) args2 p2).freeValueVars := by
              rw [fvv_call]; simp only [hd, List.nil_append]
              exact fvvs_of_mem (List.mem_of_mem_drop hr) hxr
            rcases gb1 x hx2 with hx3 | hx3
            · left
              simp only [Expr.freeValueVars, List.mem_filter]
              exact ⟨hx3, by simpa using hnotps⟩
            · exact Or.inr hx3
      · exact unchanged h
    · exact unchanged h

/-- `Simplify` at every depth: nothing free in value position appears that was not free before,
except names of global functions -/
theorem simplifyBoth_good : ∀ (fuel : Nat), Good argc (simplifyBoth argc fuel)
  | 0 => ⟨fun _ _ _ h => by simp [simplifyBoth] at h, fun _ _ h => by simp [simplifyBoth] at h⟩
  | fuel + 1 => by
    have ih := simplifyBoth_good fuel
    constructor
    · intro e s m h
      cases e with
      | sym x =>
        simp only [simplifyBoth] at h; injection h with h; injection h with h1 h2; subst h1; subst h2
        exact ⟨sub_refl argc _, sub_refl argc _⟩
      | lit l =>
        have hfv : ∀ l', (Expr.lit l').freeValueVars = [] := fun _ => rfl
        cases l <;>
          · simp only [simplifyBoth] at h
            injection h with h
            injection h with h1 h2
            subst h1
            subst h2
            exact ⟨by rw [hfv]; exact sub_nil argc _, sub_refl argc _⟩
      | call f args p => simp only [simplifyBoth] at h; exact simpCall_good argc ih f args p s m h
      | lam ps body => simp only [simplifyBoth] at h; exact simpLam_good argc ih ps body s m h
    · intro x r h
      simp only [simplifyBoth] at h
      injection h with h; exact h.symm


/-! ### the same for symbols in function position -/

/-- the function-position symbols the function part of a call contributes -/
def hdFn : Expr → List String
  | .sym s => [s]
  | .lit _ => []
  | .lam ps b => (Expr.lam ps b).fnSyms
  | .call f as p => (Expr.call f as p).fnSyms

theorem fnSyms_call (f : Expr) (args : List Expr) (p : Bool) :
    (Expr.call f args p).fnSyms = hdFn f ++ Expr.fnSymss args := by
  cases f <;> simp [Expr.fnSyms, hdFn]

structure GoodFn (simp : Expr → Option (Expr × Expr)) : Prop where
  sub : ∀ e s m, simp e = some (s, m) → Sub argc s.fnSyms e.fnSyms ∧ Sub argc m.fnSyms e.fnSyms
  sym : ∀ x r, simp (.sym x) = some r → r = (.sym x, .sym x)
  shape : ∀ e s m x, simp e = some (s, m) → m = .sym x → e = .sym x

theorem simpArgs_goodFn {simp : Expr → Option (Expr × Expr)} (g : GoodFn argc simp) :
    ∀ (args args' : List Expr), simpArgsWith simp args = some args' →
      Sub argc (Expr.fnSymss args') (Expr.fnSymss args)
  | [], args', h => by
    simp only [simpArgsWith] at h; injection h with h; subst h; exact sub_refl argc _
  | a :: as, args', h => by
    simp only [simpArgsWith] at h
    cases ha : simp a with
    | none => simp [ha] at h
    | some r =>
      obtain ⟨a', ma⟩ := r
      cases has : simpArgsWith simp as with
      | none => simp [ha, has] at h
      | some as' =>
        simp only [ha, has] at h
        injection h with h; subst h
        simp only [Expr.fnSymss]
        exact sub_append argc (g.sub a a' ma ha).1 (simpArgs_goodFn g as as' has)

theorem postCall_goodFn {simp : Expr → Option (Expr × Expr)} (g : GoodFn argc simp)
    (f : Expr) (args : List Expr) (p : Bool) (s : Expr) (h : postCall argc simp f args p = some s) :
    Sub argc s.fnSyms (hdFn f ++ Expr.fnSymss args) := by
  unfold postCall at h
  split at h
  · split at h
    · split at h
      · injection h with h; subst h; simp only [Expr.fnSyms]; exact sub_nil argc _
      · injection h with h; subst h; rw [fnSyms_call]; exact sub_refl argc _
    · injection h with h; subst h; rw [fnSyms_call]; exact sub_refl argc _
  · rename_i body
    cases hb : simp body with
    | none => simp [hb] at h
    | some r =>
      obtain ⟨s1, m1⟩ := r
      simp only [hb, Option.map_some] at h
      injection h with h; subst h
      have := (g.sub body s1 m1 hb).1
      simp only [hdFn, Expr.fnSyms, Expr.fnSymss, List.append_nil]
      exact this
  · split at h
    · injection h with h; subst h; simp only [Expr.fnSyms]; exact sub_nil argc _
    · injection h with h; subst h; rw [fnSyms_call]; exact sub_refl argc _
  · injection h with h; subst h; rw [fnSyms_call]; exact sub_refl argc _

theorem hdFn_of_not_sym {f : Expr} (hf : ∀ x, f ≠ .sym x) : ∀ y, y ∈ hdFn f → y ∈ f.fnSyms := by
  cases f with
  | sym x => exact absurd rfl (hf x)
  | lit l => simp [hdFn]
  | lam ps b => simp [hdFn]
  | call g as p => simp [hdFn]

theorem fnSyms_eq_hdFn {f : Expr} (hf : ∀ x, f ≠ .sym x) : f.fnSyms = hdFn f := by
  cases f with
  | sym x => exact absurd rfl (hf x)
  | lit l => simp [hdFn, Expr.fnSyms]
  | lam ps b => simp [hdFn]
  | call g as p => simp [hdFn]

theorem sub_hdFn_of_fnSyms {f' f : Expr} (h : Sub argc f'.fnSyms f.fnSyms)
    (hf' : ∀ x, f' ≠ .sym x) (hf : ∀ x, f ≠ .sym x) : Sub argc (hdFn f') (hdFn f) := by
  rw [← fnSyms_eq_hdFn hf]
  exact sub_trans argc (sub_of_subset argc (hdFn_of_not_sym hf')) h

theorem pick_goodFn {f f' mf : Expr} (h1 : Sub argc f'.fnSyms f.fnSyms)
    (h2 : Sub argc mf.fnSyms f.fnSyms) (hs : ∀ x, f = .sym x → f' = .sym x)
    (hm : ∀ x, mf = .sym x → f = .sym x) :
    Sub argc (hdFn (pickFunction argc f f' mf)) (hdFn f) := by
  unfold pickFunction
  split
  · rename_i a b
    have := hs b rfl
    injection this with this; subst this
    exact sub_refl argc _
  · rename_i s0 hnot
    have hfns : ∀ x, f ≠ .sym x := fun x hx => hnot x hx
    split
    · rename_i hsome
      intro y hy
      simp only [hdFn, List.mem_singleton] at hy
      subst hy
      exact Or.inr hsome
    · exact sub_hdFn_of_fnSyms argc h2 (fun x hx => hfns x (hm x hx)) hfns
  · rename_i hnot1 hnot2
    have hf' : ∀ x, f' ≠ .sym x := by
      intro x hx; subst hx
      cases f <;> simp_all
    have hf : ∀ x, f ≠ .sym x := fun x hx => hf' x (hs x hx)
    exact sub_hdFn_of_fnSyms argc h1 hf' hf

theorem simpCall_goodFn {simp : Expr → Option (Expr × Expr)} (g : GoodFn argc simp)
    (f : Expr) (args : List Expr) (p : Bool) (s m : Expr) (h : simpCall argc simp f args p = some (s, m)) :
    Sub argc s.fnSyms (Expr.call f args p).fnSyms ∧ Sub argc m.fnSyms (Expr.call f args p).fnSyms := by
  unfold simpCall at h
  cases hf : simp f with
  | none => simp [hf] at h
  | some r =>
    obtain ⟨f', mf⟩ := r
    cases ha : simpArgsWith simp args with
    | none => simp [hf, ha] at h
    | some args' =>
      simp only [hf, ha] at h
      cases hp : postCall argc simp (pickFunction argc f f' mf) args' p with
      | none => simp [hp] at h
      | some s' =>
        simp only [hp, Option.map_some] at h
        injection h with h; injection h with h1 h2; subst h1; subst h2
        obtain ⟨gf1, gf2⟩ := g.sub f f' mf hf
        have hargs := simpArgs_goodFn argc g args args' ha
        have hs : ∀ x, f = .sym x → f' = .sym x := by
          intro x hx; subst hx
          have := g.sym x _ hf
          injection this with this _
        have hm : ∀ x, mf = .sym x → f = .sym x := fun x hx => g.shape f f' mf x hf hx
        rw [fnSyms_call f args p]
        constructor
        · exact sub_trans argc (postCall_goodFn argc g _ _ _ _ hp)
            (sub_append argc (pick_goodFn argc gf1 gf2 hs hm) hargs)
        · rw [fnSyms_call]
          refine sub_append argc ?_ hargs
          by_cases hsym : ∃ x, f = .sym x
          · obtain ⟨x, rfl⟩ := hsym
            have := g.sym x _ hf
            injection this with _ this; subst this
            exact sub_refl argc _
          · have hfn : ∀ x, f ≠ .sym x := fun x hx => hsym ⟨x, hx⟩
            exact sub_hdFn_of_fnSyms argc gf2 (fun x hx => hfn x (hm x hx)) hfn


theorem mem_fnSymss {x : String} : ∀ {l : List Expr}, x ∈ Expr.fnSymss l → ∃ r ∈ l, x ∈ r.fnSyms
  | [], h => by simp [Expr.fnSymss] at h
  | a :: as, h => by
    simp only [Expr.fnSymss, List.mem_append] at h
    rcases h with h | h
    · exact ⟨a, List.mem_cons_self, h⟩
    · obtain ⟨r, hr, hx⟩ := mem_fnSymss h
      exact ⟨r, List.mem_cons_of_mem _ hr, hx⟩

theorem fnSymss_of_mem {x : String} : ∀ {l : List Expr} {r : Expr}, r ∈ l → x ∈ r.fnSyms → x ∈ Expr.fnSymss l
  | a :: as, r, hr, hx => by
    simp only [Expr.fnSymss, List.mem_append]
    simp only [List.mem_cons] at hr
    rcases hr with rfl | hr
    · exact Or.inl hx
    · exact Or.inr (fnSymss_of_mem hr hx)

theorem simpLam_goodFn {simp : Expr → Option (Expr × Expr)} (g : GoodFn argc simp)
    (ps : List String) (body : Expr) (s m : Expr) (h : simpLam argc simp ps body = some (s, m)) :
    (Sub argc s.fnSyms (Expr.lam ps body).fnSyms ∧ Sub argc m.fnSyms (Expr.lam ps body).fnSyms) ∧
    ∀ x, m ≠ .sym x := by
  unfold simpLam at h
  cases hb : simp body with
  | none => simp [hb] at h
  | some r =>
    obtain ⟨body', mb⟩ := r
    simp only [hb] at h
    obtain ⟨gb1, gb2⟩ := g.sub body body' mb hb
    have hun : Sub argc (Expr.lam ps mb).fnSyms (Expr.lam ps body).fnSyms := by
      simp only [Expr.fnSyms]; exact gb2
    have unchanged : ∀ {s m : Expr}, some (Expr.lam ps mb, Expr.lam ps mb) = some (s, m) →
        (Sub argc s.fnSyms (Expr.lam ps body).fnSyms ∧ Sub argc m.fnSyms (Expr.lam ps body).fnSyms) ∧
        ∀ x, m ≠ .sym x := by
      intro s m h; injection h with h; injection h with h1 h2; subst h1; subst h2
      exact ⟨⟨hun, hun⟩, fun x hx => by cases hx⟩
    split at h
    · rename_i f2 args2 p2
      split at h
      · rename_i hcond
        simp only [Bool.and_eq_true] at hcond
        obtain ⟨s2, rfl, hargc, _⟩ := canDrop_inv argc hcond.2
        split at h
        · cases hf : simp (.sym s2) with
          | none => simp [hf] at h
          | some r =>
            have := g.sym s2 r hf
            subst this
            simp only [hf, Option.map_some] at h
            injection h with h; injection h with h1 h2; subst h1; subst h2
            exact ⟨⟨by simp only [Expr.fnSyms]; exact sub_nil argc _, hun⟩, fun x hx => by cases hx⟩
        · cases hc : simpCall argc simp (.sym s2) (args2.drop ps.length) false with
          | none => simp [hc] at h
          | some r =>
            obtain ⟨s', m'⟩ := r
            simp only [hc, Option.map_some] at h
            injection h with h; injection h with h1 h2; subst h1; subst h2
            refine ⟨⟨?_, hun⟩, fun x hx => by cases hx⟩
            have h1 := (simpCall_goodFn argc g _ _ _ _ _ hc).1
            refine sub_trans argc h1 ?_
            refine sub_trans argc ?_ gb1
            apply sub_of_subset
            intro x hx
            rw [fnSyms_call] at hx ⊢
            simp only [List.mem_append] at hx ⊢
            rcases hx with hx | hx
            · exact Or.inl hx
            · obtain ⟨r, hr, hxr⟩ := mem_fnSymss hx
              exact Or.inr (fnSymss_of_mem (List.mem_of_mem_drop hr) hxr)
      · exact unchanged h
    · exact unchanged h

theorem simplifyBoth_goodFn : ∀ (fuel : Nat), GoodFn argc (simplifyBoth argc fuel)
  | 0 => ⟨fun _ _ _ h => by simp [simplifyBoth] at h, fun _ _ h => by simp [simplifyBoth] at h,
          fun _ _ _ _ h => by simp [simplifyBoth] at h⟩
  | fuel + 1 => by
    have ih := simplifyBoth_goodFn fuel
    refine ⟨?_, ?_, ?_⟩
    · intro e s m h
      cases e with
      | sym x =>
        simp only [simplifyBoth] at h; injection h with h; injection h with h1 h2; subst h1; subst h2
        exact ⟨sub_refl argc _, sub_refl argc _⟩
      | lit l =>
        have hfv : ∀ l', (Expr.lit l').fnSyms = [] := fun _ => rfl
        cases l <;>
          · simp only [simplifyBoth] at h
            injection h with h
            injection h with h1 h2
            subst h1
            subst h2
            exact ⟨by rw [hfv]; exact sub_nil argc _, sub_refl argc _⟩
      | call f args p => simp only [simplifyBoth] at h; exact simpCall_goodFn argc ih f args p s m h
      | lam ps body => simp only [simplifyBoth] at h; exact (simpLam_goodFn argc ih ps body s m h).1
    · intro x r h
      simp only [simplifyBoth] at h
      injection h with h; exact h.symm
    · intro e s m x h hm
      subst hm
      cases e with
      | sym y => simp [simplifyBoth] at h; simp [h.2]
      | lit l => cases l <;> simp [simplifyBoth] at h
      | call f args p =>
        simp only [simplifyBoth, simpCall] at h
        split at h
        · rename_i f' mf args' _ _
          cases hp : postCall argc (simplifyBoth argc fuel) (pickFunction argc f f' mf) args' p with
          | none => simp [hp] at h
          | some s' => simp only [hp, Option.map_some] at h; injection h with h; injection h with _ h2; cases h2
        · cases h
      | lam ps body =>
        simp only [simplifyBoth] at h
        exact absurd rfl ((simpLam_goodFn argc ih ps body s _ h).2 x)

end B6.Lemmas.Simplify
