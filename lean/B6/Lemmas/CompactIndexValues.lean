import B6.Model.CompactIndex
import B6.Lemmas.RecordsFeatures
/-!
# C01 lemmas, part 1: tables, references, tag values, tags

The string table and the namespace table only enter through `findIdx?`: whatever index the writer gets for a
string is an index at which the reader finds that string (`findIdx?_getElem?`) — no ordering or
duplicate-freeness of the table is needed for the feature round trip.  References (`mkRef` / `unRef`) need the
13-bit namespace field to hold the index and the 3-bit type field to hold the type.
Kernel-only proofs, no Mathlib.
-/
namespace B6.Model.CompactIndex
open B6.Model.Varint B6.Model.Records
open B6.Model.Bits (combineTypeNs splitTypeNs)

/-! ## `findIdx?` and `mapM` -/

theorem findIdx?_getElem? {α : Type} [BEq α] [LawfulBEq α] (a : α) :
    ∀ (l : List α) (i : Nat), l.findIdx? (· == a) = some i → l[i]? = some a := by
  intro l
  induction l with
  | nil => intro i h; simp at h
  | cons x xs ih =>
    intro i h
    rw [List.findIdx?_cons] at h
    by_cases hx : (x == a) = true
    · simp only [hx, if_true, Option.some.injEq] at h
      subst h
      simp [eq_of_beq hx]
    · simp only [hx, Bool.false_eq_true, if_false, Option.map_eq_some_iff] at h
      obtain ⟨j, hj, rfl⟩ := h
      simpa using ih j hj

theorem findIdx?_lt {α : Type} (p : α → Bool) :
    ∀ (l : List α) (i : Nat), l.findIdx? p = some i → i < l.length := by
  intro l
  induction l with
  | nil => intro i h; simp at h
  | cons x xs ih =>
    intro i h
    rw [List.findIdx?_cons] at h
    by_cases hx : p x = true
    · simp only [hx, if_true, Option.some.injEq] at h
      subst h; simp
    · simp only [hx, Bool.false_eq_true, if_false, Option.map_eq_some_iff] at h
      obtain ⟨j, hj, rfl⟩ := h
      have := ih j hj
      simp; omega

theorem strId_get (strs : List Str) (s : Str) (i : Nat) (h : strId strs s = some i) : strs[i]? = some s :=
  findIdx?_getElem? s strs i h

theorem nsEncode_decode (nt : List Str) (s : Str) (n : Nat) (h : nsEncode nt s = some n) : nsDecode nt n = some s :=
  findIdx?_getElem? s nt n h

theorem nsEncode_lt (nt : List Str) (s : Str) (n : Nat) (h : nsEncode nt s = some n) : n < nt.length :=
  findIdx?_lt _ nt n h

/-- `mapM` in `Option` that inverts element-wise -/
theorem mapM_inverse {α β : Type} (f : α → Option β) (g : β → Option α) :
    ∀ (xs : List α) (ys : List β), (∀ x ∈ xs, ∀ y, f x = some y → g y = some x) →
      xs.mapM f = some ys → ys.mapM g = some xs := by
  intro xs
  induction xs with
  | nil => intro ys _ h; simp at h; subst h; simp
  | cons x xs ih =>
    intro ys hinv h
    rw [List.mapM_cons] at h
    cases hx : f x with
    | none => simp [hx] at h
    | some y =>
      cases hxs : xs.mapM f with
      | none => simp [hx, hxs] at h
      | some ys' =>
        simp [hx, hxs] at h
        subst h
        have h1 := hinv x (by simp) y hx
        have h2 := ih ys' (fun x' hx' => hinv x' (by simp [hx'])) hxs
        simp [List.mapM_cons, h1, h2]

/-! ## type + namespace -/

theorem combine_toNat (t n : Nat) (ht : t < 8) (hn : n < 8192) :
    (combineTypeNs (BitVec.ofNat 64 t) (BitVec.ofNat 16 n)).toNat = t * 8192 + n := by
  unfold combineTypeNs
  simp only [BitVec.toNat_or, BitVec.toNat_setWidth, BitVec.toNat_shiftLeft, BitVec.toNat_ofNat]
  have e1 : t % 2 ^ 64 = t := Nat.mod_eq_of_lt (by omega)
  have e2 : n % 2 ^ 16 = n := Nat.mod_eq_of_lt (by omega)
  rw [e1, e2, Nat.shiftLeft_eq]
  have e3 : t * 2 ^ 13 % 2 ^ 64 % 2 ^ 16 = t * 2 ^ 13 := by omega
  rw [e3, ← Nat.shiftLeft_eq, ← Nat.shiftLeft_add_eq_or_of_lt (by omega), Nat.shiftLeft_eq]

/-- `Split(Combine(t, ns)) = (t, ns)` for `t < 8`, `ns < 2^13` (C10 `type_ns`, here without `bv_decide`) -/
theorem split_combine (t n : Nat) (ht : t < 8) (hn : n < 8192) :
    splitTypeNs (combineTypeNs (BitVec.ofNat 64 t) (BitVec.ofNat 16 n)) = (BitVec.ofNat 64 t, BitVec.ofNat 16 n) := by
  have h1 := combine_toNat t n ht hn
  unfold splitTypeNs
  ext1
  · apply BitVec.eq_of_toNat_eq
    simp only [BitVec.toNat_setWidth, BitVec.toNat_ushiftRight, h1, BitVec.toNat_ofNat, Nat.shiftRight_eq_div_pow]
    omega
  · apply BitVec.eq_of_toNat_eq
    simp only [BitVec.toNat_and, h1, BitVec.toNat_ofNat]
    have : (8191 : Nat) % 2 ^ 16 = 2 ^ 13 - 1 := by decide
    rw [this, Nat.and_two_pow_sub_one_eq_mod]
    omega

/-- the shape of the namespace table the reference round trip needs -/
structure NtOK (nt : List Str) : Prop where
  small : nt.length ≤ 8192
  zero : nt[0]? = some []

theorem unRef_mkRef (nt : List Str) (hnt : nt.length ≤ 8192) (id : FID) (ht : id.typ < 8) (r : Reference)
    (h : mkRef nt id = some r) : unRef nt r = some id := by
  unfold mkRef at h
  cases hn : nsEncode nt id.ns with
  | none => simp [hn] at h
  | some n =>
    simp only [hn, Option.map_some, Option.some.injEq] at h
    subst h
    have hlt := nsEncode_lt nt id.ns n hn
    have hn' : n < 8192 := by omega
    unfold unRef
    simp only [ns16, split_combine id.typ n ht hn']
    have e1 : (BitVec.ofNat 16 n).toNat = n := by simp; omega
    have e2 : (BitVec.ofNat 64 id.typ).toNat = id.typ := by simp; omega
    rw [e1, e2, nsEncode_decode nt id.ns n hn]
    rfl

/-- a valid id never encodes to `ReferenceInvald` (its namespace is not the one at index 0) -/
theorem mkRef_ne_invalid (nt : List Str) (hnt : NtOK nt) (id : FID) (hok : id.ok = true) (r : Reference)
    (h : mkRef nt id = some r) : r ≠ Reference.invalid := by
  unfold mkRef at h
  simp only [FID.ok, FID.valid, Bool.and_eq_true, decide_eq_true_eq, Bool.not_eq_true', bne_iff_ne] at hok
  cases hn : nsEncode nt id.ns with
  | none => simp [hn] at h
  | some n =>
    simp only [hn, Option.map_some, Option.some.injEq] at h
    subst h
    have hlt := nsEncode_lt nt id.ns n hn
    have hn0 : n ≠ 0 := by
      intro h0
      subst h0
      have := nsEncode_decode nt id.ns 0 hn
      unfold nsDecode at this
      rw [hnt.zero] at this
      have : id.ns = [] := by simpa using this.symm
      simp [this] at hok
    intro hc
    have := congrArg (fun r => r.tn.toNat) hc
    simp only [Reference.invalid, ns16] at this
    rw [combine_toNat id.typ n hok.1 (by have := hnt.small; omega)] at this
    simp at this
    omega

/-! ## tag values -/

/-- what the round trip needs of the tables -/
structure CtxOK (c : Ctx) : Prop where
  nt : NtOK c.nt
  strs : c.strs.length ≤ 2 ^ 64
  osm : osmNamespaces c.nt = some c.osm

theorem strs_lookup (strs : List Str) (hs : strs.length ≤ 2 ^ 64) (s : Str) (i : Nat) (h : strId strs s = some i) :
    strs[(BitVec.ofNat 64 i).toNat]? = some s := by
  have hlt := findIdx?_lt _ strs i h
  have : (BitVec.ofNat 64 i).toNat = i := by simp; omega
  rw [this]
  exact strId_get strs s i h

theorem mapM_ll (xs : List Elem) (ps : List LatLng)
    (h : (xs.mapM fun (x : Elem) => match x with
      | .ll p => some p
      | .ref _ => none) = some ps) : ps.map Elem.ll = xs := by
  induction xs generalizing ps with
  | nil => simp at h; subst h; rfl
  | cons x xs ih =>
    rw [List.mapM_cons] at h
    cases x with
    | ref id => simp at h
    | ll p =>
      cases hxs : (xs.mapM fun (x : Elem) => match x with
        | .ll p => some p
        | .ref _ => none) with
      | none => simp [hxs] at h
      | some ps' =>
        simp [hxs] at h
        subst h
        simp [ih ps' hxs]

theorem fromCompact_toCompact (c : Ctx) (hc : CtxOK c) (e : Option Nat) (v : Val) (hv : v.ok = true) (cv : Value)
    (h : toCompactValue c e v = some cv) : fromCompactValue c.strs (some c.nt) cv = some v := by
  cases v with
  | str s =>
    simp only [toCompactValue, Option.map_eq_some_iff] at h
    obtain ⟨i, hi, rfl⟩ := h
    simp only [fromCompactValue, strs_lookup c.strs hc.strs s i hi]
    rfl
  | pt p => simp [toCompactValue] at h; subst h; rfl
  | fid i => simp [Val.ok] at hv
  | list xs =>
    simp only [Val.ok, List.all_eq_true] at hv
    have hsmall := hc.nt.small
    simp only [toCompactValue] at h
    split at h
    · -- references
      simp only [Option.map_eq_some_iff] at h
      obtain ⟨rs, hrs, rfl⟩ := h
      simp only [fromCompactValue, Option.bind_some]
      have := mapM_inverse _ (fun r => (unRef c.nt r).map Elem.ref) xs rs (by
        intro x hx r hxr
        cases x with
        | ll p => simp at hxr
        | ref id =>
          have hid := hv _ hx
          simp only [FID.ok, Bool.and_eq_true, decide_eq_true_eq] at hid
          simp only at hxr
          simp [unRef_mkRef c.nt hsmall id hid.1 r hxr]) hrs
      rw [this]; rfl
    · -- lat/lngs
      simp only [Option.map_eq_some_iff] at h
      obtain ⟨ps, hps, rfl⟩ := h
      simp only [fromCompactValue, mapM_ll xs ps hps]
    · -- mixed
      simp only [Option.map_eq_some_iff] at h
      obtain ⟨l, hl, rfl⟩ := h
      simp only [fromCompactValue]
      have := mapM_inverse _ (fun (x : RefLL) => if x.ref != Reference.invalid then
          (some c.nt).bind fun t => (unRef t x.ref).map Elem.ref else some (Elem.ll x.ll)) xs l (by
        intro x hx y hxy
        cases x with
        | ll p =>
          simp only [Option.some.injEq] at hxy
          subst hxy
          simp
        | ref id =>
          have hid := hv _ hx
          simp only [Option.map_eq_some_iff] at hxy
          obtain ⟨r, hr, rfl⟩ := hxy
          have hne := mkRef_ne_invalid c.nt hc.nt id hid r hr
          simp only [FID.ok, Bool.and_eq_true, decide_eq_true_eq] at hid
          simp [hne, unRef_mkRef c.nt hsmall id hid.1 r hr]) hl
      rw [this]; rfl
    · simp at h

theorem mapM_forall {α β : Type} (f : α → Option β) (P : β → Prop) :
    ∀ (xs : List α) (ys : List β), (∀ x ∈ xs, ∀ y, f x = some y → P y) → xs.mapM f = some ys → ∀ y ∈ ys, P y := by
  intro xs
  induction xs with
  | nil => intro ys _ h; simp at h; subst h; simp
  | cons x xs ih =>
    intro ys hP h
    rw [List.mapM_cons] at h
    cases hx : f x with
    | none => simp [hx] at h
    | some y =>
      cases hxs : xs.mapM f with
      | none => simp [hx, hxs] at h
      | some ys' =>
        simp [hx, hxs] at h
        subst h
        intro y' hy'
        rcases List.mem_cons.mp hy' with rfl | hy'
        · exact hP x (by simp) _ hx
        · exact ih ys' (fun x' hx' => hP x' (by simp [hx'])) hxs y' hy'

/-- what `toCompactValue` builds is in the domain of the C11 round trips (a mixed element is a reference or
a lat/lng, never both) -/
theorem toCompact_canonical (c : Ctx) (e : Option Nat) (v : Val) (cv : Value) (h : toCompactValue c e v = some cv) :
    cv.canonical = true := by
  cases v with
  | str s => simp only [toCompactValue, Option.map_eq_some_iff] at h; obtain ⟨i, _, rfl⟩ := h; rfl
  | pt p => simp [toCompactValue] at h; subst h; rfl
  | fid i => simp [toCompactValue] at h
  | list xs =>
    simp only [toCompactValue] at h
    split at h
    · simp only [Option.map_eq_some_iff] at h; obtain ⟨rs, _, rfl⟩ := h; rfl
    · simp only [Option.map_eq_some_iff] at h; obtain ⟨rs, _, rfl⟩ := h; rfl
    · simp only [Option.map_eq_some_iff] at h
      obtain ⟨l, hl, rfl⟩ := h
      simp only [Value.canonical, List.all_eq_true]
      refine mapM_forall _ (fun y => y.canonical = true) xs l ?_ hl
      intro x _ y hxy
      cases x with
      | ll p => simp only [Option.some.injEq] at hxy; subst hxy; simp [RefLL.canonical]
      | ref id =>
        simp only [Option.map_eq_some_iff] at hxy
        obtain ⟨r, _, rfl⟩ := hxy
        simp [RefLL.canonical]
    · simp at h

theorem fromCompact_toCompact_plain (c : Ctx) (hs : c.strs.length ≤ 2 ^ 64) (e : Option Nat) (v : Val)
    (hv : v.plain = true) (cv : Value) (h : toCompactValue c e v = some cv) :
    fromCompactValue c.strs none cv = some v := by
  cases v with
  | str s =>
    simp only [toCompactValue, Option.map_eq_some_iff] at h
    obtain ⟨i, hi, rfl⟩ := h
    simp only [fromCompactValue, strs_lookup c.strs hs s i hi]
    rfl
  | pt p => simp [toCompactValue] at h; subst h; rfl
  | fid i => simp [Val.plain] at hv
  | list xs => simp [Val.plain] at hv

/-! ## tags -/

theorem toCompactTags_canonical (c : Ctx) (f : Feature) (ts : List Tag) (h : toCompactTags c f = some ts) :
    Tags.canonical ts = true := by
  simp only [Tags.canonical, List.all_eq_true]
  refine mapM_forall _ (fun (t : Tag) => t.value.canonical = true) f.tags ts ?_ h
  intro t _ y hty
  cases hk : strId c.strs t.key with
  | none => simp [hk] at hty
  | some k =>
    cases hv : toCompactValue c (tagEncoding f) t.val with
    | none => simp [hk, hv] at hty
    | some v =>
      simp [hk, hv] at hty
      subst hty
      exact toCompact_canonical c _ _ _ hv

/-- reading the tags back (with the namespace table, as for paths) -/
theorem allTags_roundtrip (c : Ctx) (hc : CtxOK c) (f : Feature) (hvals : ∀ t ∈ f.tags, t.val.ok = true)
    (ts : List Tag) (h : toCompactTags c f = some ts) (hok : Tags.ok ts = true) (tns : BitVec 16) (rest : Bytes) :
    allTags c.strs (some c.nt) tns (Tags.enc tns ts ++ rest) = some f.tags := by
  have hrt := rt_tags tns ts hok (toCompactTags_canonical c f ts h) rest
  unfold allTags
  simp only [hrt, Option.bind_eq_bind, Option.bind_some]
  refine mapM_inverse _ _ f.tags ts ?_ h
  intro t ht y hty
  cases hk : strId c.strs t.key with
  | none => simp [hk] at hty
  | some k =>
    cases hv : toCompactValue c (tagEncoding f) t.val with
    | none => simp [hk, hv] at hty
    | some v =>
      simp [hk, hv] at hty
      subst hty
      have hl := strs_lookup c.strs hc.strs t.key k hk
      simp only [BitVec.toNat_ofNat] at hl
      simp [hl, fromCompact_toCompact c hc _ t.val (hvals t ht) v hv]

/-- reading the tags back without a namespace table (points, areas, relations) -/
theorem allTags_roundtrip_plain (c : Ctx) (hs : c.strs.length ≤ 2 ^ 64) (f : Feature)
    (hvals : ∀ t ∈ f.tags, t.val.plain = true)
    (ts : List Tag) (h : toCompactTags c f = some ts) (hok : Tags.ok ts = true) (tns : BitVec 16) (rest : Bytes) :
    allTags c.strs none tns (Tags.enc tns ts ++ rest) = some f.tags := by
  have hrt := rt_tags tns ts hok (toCompactTags_canonical c f ts h) rest
  unfold allTags
  simp only [hrt, Option.bind_eq_bind, Option.bind_some]
  refine mapM_inverse _ _ f.tags ts ?_ h
  intro t ht y hty
  cases hk : strId c.strs t.key with
  | none => simp [hk] at hty
  | some k =>
    cases hv : toCompactValue c (tagEncoding f) t.val with
    | none => simp [hk, hv] at hty
    | some v =>
      simp [hk, hv] at hty
      subst hty
      have hl := strs_lookup c.strs hs t.key k hk
      simp only [BitVec.toNat_ofNat] at hl
      simp [hl, fromCompact_toCompact_plain c hs _ t.val (hvals t ht) v hv]

end B6.Model.CompactIndex
