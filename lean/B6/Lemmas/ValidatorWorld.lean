import B6.Lemmas.ValidatorUniq
import B6.Lemmas.ValidateEdits
/-!
C37: the final world of a compact build (points + what `compact.Validator` emitted) has distinct IDs and
every feature of it is valid in it (`validator_world_valid`).
-/
namespace B6.Lemmas.ValidatorWorld
open B6.Model.Validate B6.Lemmas.Validate B6.Lemmas.Validator B6.Lemmas.ValidatorUniq B6.Lemmas.ValidateEdits

/-- `g` is (a possibly inverted version of) a feature of `S` -/
def From (S : List Feat) (g : Feat) : Prop := ∃ f ∈ S, g.id = f.id ∧ sameCtor g f = true

theorem from_self {S : List Feat} {g : Feat} (h : g ∈ S) : From S g :=
  ⟨g, h, rfl, by unfold sameCtor; cases g.geo <;> rfl⟩

theorem from_mono {S S' : List Feat} (h : ∀ x ∈ S, x ∈ S') {g : Feat} (hg : From S g) : From S' g := by
  obtain ⟨f, hf, h1, h2⟩ := hg; exact ⟨f, h f hf, h1, h2⟩

theorem drainFold_sub : ∀ (q : List Feat) (acc : Validator × List Feat × List Feat),
    (∀ x ∈ (q.foldl drainStep acc).2.1, x ∈ acc.2.1 ∨ x ∈ q) ∧
    (∀ x ∈ (q.foldl drainStep acc).2.2, x ∈ acc.2.2 ∨ x ∈ q) := by
  intro q
  induction q with
  | nil => intro acc; exact ⟨fun x hx => Or.inl hx, fun x hx => Or.inl hx⟩
  | cons a q ih =>
    intro acc
    simp only [List.foldl_cons]
    obtain ⟨h1, h2⟩ := ih (drainStep acc a)
    have hs : (∀ x ∈ (drainStep acc a).2.1, x ∈ acc.2.1 ∨ x = a) ∧ (∀ x ∈ (drainStep acc a).2.2, x ∈ acc.2.2 ∨ x = a) := by
      unfold drainStep
      cases a.geo with
      | area polys =>
        dsimp only
        split
        · exact ⟨fun x hx => Or.inl hx, fun x hx => by
            rcases List.mem_append.mp hx with h | h
            · exact Or.inl h
            · exact Or.inr (by simpa using h)⟩
        · split
          · exact ⟨fun x hx => by
              rcases List.mem_append.mp hx with h | h
              · exact Or.inl h
              · exact Or.inr (by simpa using h), fun x hx => Or.inl hx⟩
          · exact ⟨fun x hx => Or.inl hx, fun x hx => Or.inl hx⟩
      | point _ => exact ⟨fun x hx => Or.inl hx, fun x hx => Or.inl hx⟩
      | path _ => exact ⟨fun x hx => Or.inl hx, fun x hx => Or.inl hx⟩
      | other _ => exact ⟨fun x hx => Or.inl hx, fun x hx => Or.inl hx⟩
    constructor
    · intro x hx
      rcases h1 x hx with h | h
      · rcases hs.1 x h with h | h
        · exact Or.inl h
        · exact Or.inr (by rw [h]; exact List.mem_cons_self)
      · exact Or.inr (List.mem_cons_of_mem _ h)
    · intro x hx
      rcases h2 x hx with h | h
      · rcases hs.2 x h with h | h
        · exact Or.inl h
        · exact Or.inr (by rw [h]; exact List.mem_cons_self)
      · exact Or.inr (List.mem_cons_of_mem _ h)

theorem drainQueue_sub (v : Validator) :
    (∀ x ∈ v.drainQueue.1.queue, x ∈ v.queue) ∧ (∀ x ∈ v.drainQueue.2, x ∈ v.queue) := by
  rw [drainQueue_eq]
  obtain ⟨h1, h2⟩ := drainFold_sub v.queue (v, [], [])
  constructor
  · intro x hx
    rcases h1 x hx with h | h
    · cases h
    · exact h
  · intro x hx
    rcases h2 x hx with h | h
    · cases h
    · exact h

/-- what one `feed` emits and leaves queued comes from the fed feature or the queue -/
theorem feed_from (O : Oracle) (v : Validator) (f : Feat) :
    (∀ g ∈ (v.feed O f).2, From (f :: v.queue) g) ∧ (∀ a ∈ (v.feed O f).1.queue, a ∈ f :: v.queue) := by
  obtain ⟨fi, fg⟩ := f
  cases fg with
  | point l =>
    simp only [Validator.feed]
    exact ⟨fun g hg => from_self (by simpa using Or.inl (List.mem_singleton.mp hg)), fun a ha => List.mem_cons_of_mem _ ha⟩
  | other l =>
    simp only [Validator.feed]
    exact ⟨fun g hg => from_self (by simpa using Or.inl (List.mem_singleton.mp hg)), fun a ha => List.mem_cons_of_mem _ ha⟩
  | area polys =>
    obtain ⟨_, _, c3, _⟩ := checkArea_spec v polys
    simp only [Validator.feed]
    split
    · exact ⟨fun g hg => from_self (by simpa using Or.inl (List.mem_singleton.mp hg)),
        fun a ha => by rw [c3] at ha; exact List.mem_cons_of_mem _ ha⟩
    · split
      · refine ⟨fun g hg => (by cases hg), fun a ha => ?_⟩
        dsimp only at ha
        rcases List.mem_append.mp ha with h | h
        · rw [c3] at h; exact List.mem_cons_of_mem _ h
        · simp only [List.mem_singleton] at h; rw [h]; exact List.mem_cons_self
      · exact ⟨fun g hg => (by cases hg), fun a ha => by rw [c3] at ha; exact List.mem_cons_of_mem _ ha⟩
  | path refs =>
    simp only [Validator.feed]
    -- whichever version of the path is emitted has the fed ID and is a path
    have hpath : ∀ r', From ((⟨fi, .path refs⟩ : Feat) :: v.queue) ⟨fi, .path r'⟩ :=
      fun r' => ⟨⟨fi, .path refs⟩, List.mem_cons_self, rfl, rfl⟩
    have hq : ∀ st, (∀ x ∈ (v.set fi st).drainQueue.1.queue, x ∈ (⟨fi, .path refs⟩ : Feat) :: v.queue) ∧
        (∀ x ∈ (v.set fi st).drainQueue.2, From ((⟨fi, .path refs⟩ : Feat) :: v.queue) x) := by
      intro st
      obtain ⟨d1, d2⟩ := drainQueue_sub (v.set fi st)
      exact ⟨fun x hx => List.mem_cons_of_mem _ (d1 x hx), fun x hx => from_self (List.mem_cons_of_mem _ (d2 x hx))⟩
    cases validatePath O v.points refs with
    | invalid =>
      dsimp only
      split
      · obtain ⟨q1, q2⟩ := hq .invalid
        exact ⟨fun g hg => q2 g (by simpa using hg), q1⟩
      · exact ⟨fun g hg => (by cases hg), fun a ha => List.mem_cons_of_mem _ ha⟩
    | ok =>
      dsimp only
      split
      · obtain ⟨q1, q2⟩ := hq (if isLoop v.points refs = true then VState.valid else VState.validNotLoop)
        refine ⟨fun g hg => ?_, q1⟩
        rcases List.mem_append.mp hg with h | h
        · simp only [List.mem_singleton] at h; rw [h]; exact hpath refs
        · exact q2 g h
      · refine ⟨fun g hg => ?_, fun a ha => List.mem_cons_of_mem _ ha⟩
        simp only [List.mem_singleton] at hg; rw [hg]; exact hpath refs
    | clockwise =>
      dsimp only
      split
      · obtain ⟨q1, q2⟩ := hq (if isLoop v.points refs.reverse = true then VState.valid else VState.validNotLoop)
        refine ⟨fun g hg => ?_, q1⟩
        rcases List.mem_append.mp hg with h | h
        · simp only [List.mem_singleton] at h; rw [h]; exact hpath refs.reverse
        · exact q2 g h
      · refine ⟨fun g hg => ?_, fun a ha => List.mem_cons_of_mem _ ha⟩
        simp only [List.mem_singleton] at hg; rw [hg]; exact hpath refs.reverse

theorem run_from (O : Oracle) : ∀ (src : List Feat) (v : Validator),
    ∀ g ∈ (Validator.run O v src).2, From (src ++ v.queue) g := by
  intro src
  induction src with
  | nil => intro v g hg; simp [Validator.run] at hg
  | cons f fs ih =>
    intro v g hg
    simp only [Validator.run] at hg
    obtain ⟨h1, h2⟩ := feed_from O v f
    rcases List.mem_append.mp hg with h | h
    · apply from_mono _ (h1 g h)
      intro x hx
      rcases List.mem_cons.mp hx with rfl | hx
      · exact List.mem_append_left _ List.mem_cons_self
      · exact List.mem_append_right _ hx
    · apply from_mono _ (ih (v.feed O f).1 g h)
      intro x hx
      rcases List.mem_append.mp hx with hx | hx
      · exact List.mem_append_left _ (List.mem_cons_of_mem _ hx)
      · rcases List.mem_cons.mp (h2 x hx) with rfl | hx'
        · exact List.mem_append_left _ List.mem_cons_self
        · exact List.mem_append_right _ hx'

theorem from_not_point {S : List Feat} (hS : ∀ f ∈ S, ∀ l, f.geo ≠ .point l) {g : Feat} (hg : From S g) :
    pointLoc g = none := by
  obtain ⟨f, hf, _, hc⟩ := hg
  unfold sameCtor at hc
  unfold pointLoc
  cases hgg : g.geo with
  | point l =>
    cases hfg : f.geo with
    | point l' => exact absurd hfg (hS f hf l')
    | path _ => simp [hgg, hfg] at hc
    | area _ => simp [hgg, hfg] at hc
    | other _ => simp [hgg, hfg] at hc
  | path _ => rfl
  | area _ => rfl
  | other _ => rfl

theorem isLoop_congr {w w' : World} (h : ∀ t, locOf w' t = locOf w t) (refs : List Id) :
    isLoop w' refs = isLoop w refs := by
  have : locOf w' = locOf w := funext h
  unfold isLoop
  rw [this]

theorem areaPathOk_of_isLoop {w : World} {pid : Id} {refs : List Id}
    (hf : find w pid = some ⟨pid, .path refs⟩) (hl : isLoop w refs = true) : areaPathOk w pid = true := by
  unfold areaPathOk
  rw [hf]
  exact hl

/-- **the final world of a compact build**: the point features together with everything the validator
emitted, whatever the stream order — distinct IDs, and every feature valid in that world. -/
theorem validator_world_valid (O : Oracle) (pts src : List Feat)
    (hpts : ∀ p ∈ pts, ∃ l, p.geo = .point l) (hsrc : ∀ f ∈ src, ∀ l, f.geo ≠ .point l)
    (hu : Uniq (pts ++ src)) (hc : ∀ f ∈ src, featContract O pts f) :
    Uniq (pts ++ (Validator.run O ⟨pts, [], []⟩ src).2) ∧
    ∀ g ∈ pts ++ (Validator.run O ⟨pts, [], []⟩ src).2,
      valid O (pts ++ (Validator.run O ⟨pts, [], []⟩ src).2) g = true := by
  generalize hout : (Validator.run O ⟨pts, [], []⟩ src).2 = out
  have hfrom : ∀ g ∈ out, From src g := by
    intro g hg
    have := run_from O src ⟨pts, [], []⟩ g (by rw [hout]; exact hg)
    simpa using this
  have hu' := hu
  unfold Uniq at hu'
  rw [List.map_append, List.nodup_append] at hu'
  obtain ⟨hup, hus, hdisj⟩ := hu'
  have hout_nodup : (out.map (·.id)).Nodup := by rw [← hout]; exact run_nodup O pts src hus
  have huo : Uniq (pts ++ out) := by
    unfold Uniq
    rw [List.map_append, List.nodup_append]
    refine ⟨hup, hout_nodup, ?_⟩
    intro a ha b hb e
    obtain ⟨g, hg, hgid⟩ := List.mem_map.mp hb
    obtain ⟨f, hf, hfid, _⟩ := hfrom g hg
    exact hdisj a ha b (List.mem_map.mpr ⟨f, hf, by rw [← hfid, hgid]⟩) e
  have hloc : ∀ t, locOf (pts ++ out) t = locOf pts t := by
    intro t
    rw [locOf_eq, locOf_eq]
    by_cases hi : t.1 = 9
    · simp [hi]
    · simp only [hi, ↓reduceIte]
      unfold find
      rw [List.find?_append]
      cases hp : List.find? (fun f => decide (f.id = t)) pts with
      | some p => simp
      | none =>
        simp only [Option.none_or, Option.bind_none]
        cases ho : List.find? (fun f => decide (f.id = t)) out with
        | none => rfl
        | some g =>
          simp only [Option.bind_some]
          exact from_not_point hsrc (hfrom g (List.mem_of_find?_eq_some ho))
  obtain ⟨hvp, hva⟩ := by
    have := run_inv O pts src ⟨pts, [], []⟩ [] rfl (by intro id hid; simp [Validator.state] at hid)
      ⟨fun i r h => (by cases h), fun i p h => (by cases h)⟩ hc
    rw [List.nil_append, hout] at this
    exact this
  refine ⟨huo, ?_⟩
  intro g hg
  rcases List.mem_append.mp hg with hg | hg
  · obtain ⟨l, hl⟩ := hpts g hg
    simp [valid, hl]
  · obtain ⟨gi, gg⟩ := g
    cases gg with
    | point l => simp [valid]
    | other l => simp [valid]
    | path refs =>
      have := hvp gi refs hg
      simp only [valid] at this ⊢
      rw [pathSlots_congr hloc]
      exact this
    | area polys =>
      simp only [valid, List.all_eq_true]
      intro pid hpid
      obtain ⟨refs, hmem, hloop⟩ := hva gi polys hg pid hpid
      apply areaPathOk_of_isLoop (refs := refs)
      · exact find_of_mem huo (List.mem_append_right _ hmem)
      · rw [isLoop_congr hloc]; exact hloop

end B6.Lemmas.ValidatorWorld
