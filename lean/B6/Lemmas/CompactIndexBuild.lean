import B6.Lemmas.CompactIndexLookup
/-!
# C01 lemmas, part 5: where `build` puts the path / area / relation records

If `build` succeeds, the record of every kept path / area / relation sits, under its id and `NoTag`, in a block
of its type whose header carries its encoded namespace; every block with that type and header namespace is that
block; and no other entry of the block has the id (ids are distinct in the source).
-/
namespace B6.Model.CompactIndex
open B6.Model.Varint B6.Model.Records
open B6.Model.Containers (Entry)

/-! ## `mapM` in `Except`: who comes from whom -/

theorem mapM_except_mem {α β ε : Type} (f : α → Except ε β) : ∀ (xs : List α) (ys : List β), xs.mapM f = .ok ys →
    (∀ y ∈ ys, ∃ x ∈ xs, f x = .ok y) ∧ (∀ x ∈ xs, ∃ y ∈ ys, f x = .ok y) := by
  intro xs
  induction xs with
  | nil => intro ys h; simp [List.mapM_nil, pure, Except.pure] at h; subst h; simp
  | cons x xs ih =>
    intro ys h
    rw [List.mapM_cons] at h
    cases hx : f x with
    | error e => simp [hx, bind, Except.bind] at h
    | ok y =>
      cases hxs : xs.mapM f with
      | error e => simp [hx, hxs, bind, Except.bind] at h
      | ok ys' =>
        simp [hx, hxs, bind, Except.bind, pure, Except.pure] at h
        subst h
        have ⟨h1, h2⟩ := ih ys' hxs
        constructor
        · intro y' hy'
          rcases List.mem_cons.mp hy' with rfl | hy'
          · exact ⟨x, by simp, hx⟩
          · obtain ⟨x', hx', hfx'⟩ := h1 y' hy'
            exact ⟨x', by simp [hx'], hfx'⟩
        · intro x' hx'
          rcases List.mem_cons.mp hx' with rfl | hx'
          · exact ⟨y, by simp, hx⟩
          · obtain ⟨y', hy', hfy'⟩ := h2 x' hx'
            exact ⟨y', by simp [hy'], hfy'⟩

/-! ## the blocks of a successful build -/

theorem validated_id (fs : List Feature) (f : Feature) : (validated fs f).id = f.id := by
  unfold validated
  split <;> rfl

theorem featureBlock_some (c : Ctx) (fs : List Feature) (t n : Nat) (ns : Str) (b : Block)
    (h : featureBlock c fs t n ns = .ok (some b)) :
    b.typ = t ∧ b.hdr = blockHeader c t n ∧ (keptOf fs t ns).mapM (entryOf c fs t) = .ok b.entries := by
  unfold featureBlock at h
  split at h
  · simp [pure, Except.pure] at h
  · cases hes : (keptOf fs t ns).mapM (entryOf c fs t) with
    | error e => simp [hes, bind, Except.bind] at h
    | ok es =>
      simp [hes, bind, Except.bind, pure, Except.pure] at h
      subst h
      exact ⟨rfl, rfl, rfl⟩

theorem featureBlock_nonempty (c : Ctx) (fs : List Feature) (t n : Nat) (ns : Str) (ob : Option Block)
    (h : featureBlock c fs t n ns = .ok ob) (g : Feature) (hg : g ∈ keptOf fs t ns) : ∃ b, ob = some b := by
  unfold featureBlock at h
  split at h
  · rename_i hemp
    have : keptOf fs t ns = [] := by simpa using hemp
    rw [this] at hg
    simp at hg
  · cases hes : (keptOf fs t ns).mapM (entryOf c fs t) with
    | error e => simp [hes, bind, Except.bind] at h
    | ok es =>
      simp [hes, bind, Except.bind, pure, Except.pure] at h
      exact ⟨_, h.symm⟩

theorem pointBlock_typ (c : Ctx) (fs : List Feature) (scr : List (Str × BitVec 64 × Scratch)) (n : Nat) (ns : Str)
    (b : Block) (h : pointBlock c fs scr n ns = some b) : b.typ = 0 := by
  unfold pointBlock at h
  simp only at h
  split at h
  · simp at h
  · simp only [Option.some.injEq] at h
    subst h; rfl

/-- everything a successful build fixes about the index -/
structure Built (strs : List Str) (fs : List Feature) (ix : Index) (c : Ctx) : Prop where
  hnt : ix.nt = nsTable fs
  hstrs : ix.strs = strs
  hctx : c = ⟨nsTable fs, strs, c.osm⟩
  hosm : osmNamespaces (nsTable fs) = some c.osm
  /-- a block is a point block or the block of some key -/
  hblocks : ∀ b ∈ ix.blocks, b.typ = 0 ∨ ∃ k ∈ blockKeys (nsTable fs), featureBlock c fs k.1 k.2.1 k.2.2 = .ok (some b)
  /-- every key was built -/
  hkeys : ∀ k ∈ blockKeys (nsTable fs), ∃ ob, featureBlock c fs k.1 k.2.1 k.2.2 = .ok ob ∧ ∀ b, ob = some b → b ∈ ix.blocks

theorem build_built (strs : List Str) (fs : List Feature) (ix : Index) (h : build strs fs = .ok ix) :
    ∃ c, Built strs fs ix c := by
  unfold build at h
  split at h
  · simp at h
  · cases hosm : osmNamespaces (nsTable fs) with
    | none => simp [hosm, bind, Except.bind] at h
    | some osm =>
      simp only [hosm, orPanic_some, bind, Except.bind] at h
      cases hscr : fs.mapM (scratchOf ⟨nsTable fs, strs, osm⟩ fs) with
      | error e => simp [hscr] at h
      | ok scr =>
        simp only [hscr] at h
        cases hrest : (blockKeys (nsTable fs)).mapM
            (fun k => featureBlock ⟨nsTable fs, strs, osm⟩ fs k.1 k.2.1 k.2.2) with
        | error e => simp [hrest] at h
        | ok rest =>
          simp only [hrest, pure, Except.pure, Except.ok.injEq] at h
          subst h
          have ⟨hm1, hm2⟩ := mapM_except_mem _ _ rest hrest
          refine ⟨⟨nsTable fs, strs, osm⟩, rfl, rfl, rfl, hosm, ?_, ?_⟩
          · intro b hb
            simp only [List.mem_append, List.mem_filterMap] at hb
            rcases hb with ⟨⟨n, ns⟩, _, hpb⟩ | ⟨ob, hob, hid⟩
            · exact Or.inl (pointBlock_typ _ fs _ n ns b hpb)
            · simp only [id] at hid
              subst hid
              obtain ⟨k, hk, hfk⟩ := hm1 _ hob
              exact Or.inr ⟨k, hk, hfk⟩
          · intro k hk
            obtain ⟨ob, hob, hfk⟩ := hm2 k hk
            refine ⟨ob, hfk, ?_⟩
            intro b hb
            subst hb
            simp only [List.mem_append, List.mem_filterMap]
            exact Or.inr ⟨some b, hob, rfl⟩

/-! ## the namespace table -/

theorem mem_insertNs (s y : Str) : ∀ l : List Str, y ∈ insertNs s l ↔ y = s ∨ y ∈ l := by
  intro l
  induction l with
  | nil => simp [insertNs]
  | cons x xs ih =>
    unfold insertNs
    by_cases h1 : (s == x) = true
    · have : s = x := eq_of_beq h1
      simp only [h1, if_true, List.mem_cons]
      constructor
      · intro h; exact Or.inr h
      · rintro (h | h)
        · exact Or.inl (h.trans this)
        · exact h
    · simp only [h1, Bool.false_eq_true, if_false]
      by_cases h2 : strLt s x = true
      · simp [h2]
      · simp only [h2, Bool.false_eq_true, if_false, List.mem_cons, ih]
        constructor
        · rintro (h | h | h)
          · exact Or.inr (Or.inl h)
          · exact Or.inl h
          · exact Or.inr (Or.inr h)
        · rintro (h | h | h)
          · exact Or.inr (Or.inl h)
          · exact Or.inl h
          · exact Or.inr (Or.inr h)

theorem mem_foldr_insertNs (y : Str) : ∀ l : List Str, y ∈ l.foldr insertNs [] ↔ y ∈ l := by
  intro l
  induction l with
  | nil => simp
  | cons x xs ih => simp only [List.foldr_cons, mem_insertNs, ih, List.mem_cons]

/-- the table starts with the invalid namespace -/
theorem insertNs_nil_head (l : List Str) : (insertNs [] l)[0]? = some [] := by
  cases l with
  | nil => rfl
  | cons x xs =>
    unfold insertNs
    by_cases h1 : (([] : Str) == x) = true
    · have : ([] : Str) = x := eq_of_beq h1
      simp [h1, ← this]
    · simp only [h1, Bool.false_eq_true, if_false]
      cases x with
      | nil => simp at h1
      | cons a as => simp [strLt]

theorem nsTable_zero (fs : List Feature) : (nsTable fs)[0]? = some [] := by
  unfold nsTable
  rw [List.foldr_cons]
  exact insertNs_nil_head _

theorem mem_nsTable (fs : List Feature) (f : Feature) (hf : f ∈ fs) (s : Str) (hs : s ∈ mentioned f) : s ∈ nsTable fs := by
  unfold nsTable
  rw [mem_foldr_insertNs]
  simp only [List.mem_cons, List.mem_flatMap]
  exact Or.inr (Or.inr (Or.inr (Or.inr ⟨f, hf, hs⟩)))

theorem findIdx?_of_mem {α : Type} [BEq α] [LawfulBEq α] (a : α) : ∀ l : List α, a ∈ l → ∃ i, l.findIdx? (· == a) = some i := by
  intro l
  induction l with
  | nil => intro h; simp at h
  | cons x xs ih =>
    intro h
    rw [List.findIdx?_cons]
    by_cases hx : (x == a) = true
    · exact ⟨0, by simp [hx]⟩
    · have : a ∈ xs := by
        rcases List.mem_cons.mp h with h | h
        · subst h; simp at hx
        · exact h
      obtain ⟨i, hi⟩ := ih this
      exact ⟨i + 1, by simp [hx, hi]⟩

theorem nsEncode_of_mem (nt : List Str) (s : Str) (h : s ∈ nt) : ∃ n, nsEncode nt s = some n := findIdx?_of_mem s nt h

/-! ## block keys -/

theorem mem_zip_range {α : Type} (l : List α) (n : Nat) (x : α) : (n, x) ∈ (List.range l.length).zip l ↔ l[n]? = some x := by
  constructor
  · intro h
    obtain ⟨i, hi, heq⟩ := List.mem_iff_getElem.mp h
    simp only [List.getElem_zip, List.getElem_range, Prod.mk.injEq] at heq
    obtain ⟨rfl, rfl⟩ := heq
    simp only [List.length_zip, List.length_range, Nat.min_self] at hi
    simp [hi]
  · intro h
    have hn : n < l.length := by
      rcases Nat.lt_or_ge n l.length with h' | h'
      · exact h'
      · simp [List.getElem?_eq_none h'] at h
    have hx : l[n] = x := by simpa [List.getElem?_eq_getElem hn] using h
    refine List.mem_iff_getElem.mpr ⟨n, by simp [hn], ?_⟩
    simp [hx]

theorem mem_blockKeys (nt : List Str) (k : Nat × Nat × Str) :
    k ∈ blockKeys nt ↔ (k.1 = 1 ∨ k.1 = 2 ∨ k.1 = 3) ∧ nt[k.2.1]? = some k.2.2 := by
  obtain ⟨t, n, ns⟩ := k
  unfold blockKeys blockNamespaces
  simp only [List.mem_flatMap, Prod.exists, List.mem_cons, Prod.mk.injEq, List.not_mem_nil, or_false, mem_zip_range]
  constructor
  · rintro ⟨n', ns', hmem, h | h | h⟩ <;> obtain ⟨rfl, rfl, rfl⟩ := h
    · exact ⟨Or.inl rfl, hmem⟩
    · exact ⟨Or.inr (Or.inl rfl), hmem⟩
    · exact ⟨Or.inr (Or.inr rfl), hmem⟩
  · rintro ⟨ht, hmem⟩
    refine ⟨n, ns, hmem, ?_⟩
    rcases ht with rfl | rfl | rfl <;> simp

theorem nssGet_blockHeader (c : Ctx) (t n : Nat) (ht : t = 1 ∨ t = 2 ∨ t = 3) : nssGet (blockHeader c t n) t = ns16 n := by
  rcases ht with rfl | rfl | rfl <;> rfl

theorem ns16_inj (a b : Nat) (ha : a < 2 ^ 16) (hb : b < 2 ^ 16) (h : ns16 a = ns16 b) : a = b := by
  have := congrArg BitVec.toNat h
  simp only [ns16, BitVec.toNat_ofNat] at this
  omega

/-! ## ids -/

theorem idsDistinct_inj : ∀ fs : List Feature, idsDistinct fs = true →
    ∀ f ∈ fs, ∀ g ∈ fs, f.id = g.id → f = g := by
  intro fs
  induction fs with
  | nil => intro _ f hf; simp at hf
  | cons x xs ih =>
    intro h f hf g hg hid
    simp only [idsDistinct, Bool.and_eq_true, List.all_eq_true, bne_iff_ne] at h
    rcases List.mem_cons.mp hf with rfl | hf' <;> rcases List.mem_cons.mp hg with rfl | hg'
    · rfl
    · exact absurd hid.symm (h.1 g hg')
    · exact absurd hid (h.1 f hf')
    · exact ih h.2 f hf' g hg' hid

theorem putUvarint_ne_nil (v : Nat) : putUvarint v ≠ [] := by
  unfold putUvarint putUvarintFuel
  split <;> simp

/-! ## placement of the path / area / relation records -/

/-- a kept feature of type 1–3 is in the `keptOf` list of its type and namespace, validated -/
theorem mem_keptOf (fs : List Feature) (f : Feature) (hf : f ∈ fs) (hk : kept fs f = true) :
    validated fs f ∈ keptOf fs f.id.typ f.id.ns := by
  unfold keptOf
  refine List.mem_map.mpr ⟨f, List.mem_filter.mpr ⟨hf, ?_⟩, rfl⟩
  simp [hk]

theorem entryOf_spec (c : Ctx) (fs : List Feature) (t : Nat) (g : Feature) (e : Entry) (h : entryOf c fs t g = .ok e) :
    e.id = g.id.val ∧ e.tag = 0#64 ∧ recordOf c fs t g = .ok e.data := by
  unfold entryOf at h
  cases hd : recordOf c fs t g with
  | error x => simp [hd, bind, Except.bind] at h
  | ok d =>
    simp [hd, bind, Except.bind, pure, Except.pure] at h
    subst h
    exact ⟨rfl, rfl, rfl⟩

/-- **placement**: after a successful build, a kept path / area / relation `f` of a source with distinct ids has
its record in exactly one routed block, under its id only -/
theorem placed (strs : List Str) (fs : List Feature) (ix : Index) (c : Ctx) (hb : Built strs fs ix c)
    (hsmall : (nsTable fs).length ≤ 8192) (hdist : idsDistinct fs = true)
    (f : Feature) (hf : f ∈ fs) (ht : f.id.typ = 1 ∨ f.id.typ = 2 ∨ f.id.typ = 3) (hk : kept fs f = true) :
    ∃ n b e, nsEncode ix.nt f.id.ns = some n ∧ b ∈ ix.blocks ∧ b.typ = f.id.typ ∧ b.hdr = blockHeader c f.id.typ n ∧
      (∀ b' ∈ ix.blocks, b'.typ = f.id.typ → nssGet b'.hdr f.id.typ = ns16 n → b' = b) ∧
      e ∈ b.entries ∧ e.id = f.id.val ∧ e.tag = 0#64 ∧ recordOf c fs f.id.typ (validated fs f) = .ok e.data ∧
      (∀ e' ∈ b.entries, e'.id = f.id.val → e' = e) := by
  have hns : f.id.ns ∈ nsTable fs := mem_nsTable fs f hf f.id.ns (by simp [mentioned])
  obtain ⟨n, hn⟩ := nsEncode_of_mem _ _ hns
  have hnlt := nsEncode_lt _ _ _ hn
  have hget : (nsTable fs)[n]? = some f.id.ns := nsEncode_decode _ _ _ hn
  have hkey : (f.id.typ, n, f.id.ns) ∈ blockKeys (nsTable fs) := (mem_blockKeys _ _).mpr ⟨ht, hget⟩
  obtain ⟨ob, hob, hin⟩ := hb.hkeys _ hkey
  simp only at hob
  have hg := mem_keptOf fs f hf hk
  obtain ⟨b, rfl⟩ := featureBlock_nonempty c fs _ n _ ob hob _ hg
  have ⟨hbt, hbh, hes⟩ := featureBlock_some c fs _ n _ b hob
  have ⟨hm1, hm2⟩ := mapM_except_mem _ _ _ hes
  obtain ⟨e, he, hfe⟩ := hm2 _ hg
  have ⟨heid, hetag, herec⟩ := entryOf_spec c fs _ _ e hfe
  rw [validated_id] at heid
  refine ⟨n, b, e, by rw [hb.hnt]; exact hn, hin b rfl, hbt, hbh, ?_, he, heid, hetag, herec, ?_⟩
  · -- every block with this type and header namespace is `b`
    intro b' hb' hb't hb'h
    rcases hb.hblocks b' hb' with h0 | ⟨k, hk', hfk⟩
    · rw [hb't] at h0
      rcases ht with h | h | h <;> omega
    · obtain ⟨t', n', ns'⟩ := k
      simp only at hfk
      have ⟨h1, h2, _⟩ := featureBlock_some c fs t' n' ns' b' hfk
      have hkk := (mem_blockKeys _ _).mp hk'
      simp only at hkk
      have ht' : t' = f.id.typ := by rw [← h1, hb't]
      subst ht'
      rw [h2, nssGet_blockHeader c _ n' ht] at hb'h
      have hn'lt : n' < (nsTable fs).length := by
        rcases Nat.lt_or_ge n' (nsTable fs).length with h | h
        · exact h
        · simp [List.getElem?_eq_none h] at hkk
      have : n' = n := ns16_inj n' n (by omega) (by omega) hb'h
      subst this
      have : ns' = f.id.ns := by
        have := hkk.2
        rw [hget] at this
        exact (Option.some.inj this).symm
      subst this
      rw [hob] at hfk
      exact (Option.some.inj (Except.ok.inj hfk)).symm
  · -- no other entry has the id
    intro e' he' he'id
    obtain ⟨g', hg', hfe'⟩ := hm1 e' he'
    have ⟨h1, _, _⟩ := entryOf_spec c fs _ _ e' hfe'
    unfold keptOf at hg'
    obtain ⟨f', hf', rfl⟩ := List.mem_map.mp hg'
    have ⟨hf'mem, hf'p⟩ := List.mem_filter.mp hf'
    simp only [Bool.and_eq_true, beq_iff_eq] at hf'p
    rw [validated_id] at h1
    have hid : f'.id = f.id := by
      have h3 : f'.id.val = f.id.val := by rw [← h1, he'id]
      cases hfi : f'.id with
      | mk t1 n1 v1 =>
        cases hfj : f.id with
        | mk t2 n2 v2 =>
          rw [hfi] at hf'p h3
          rw [hfj] at hf'p h3
          simp only at hf'p h3
          rw [hf'p.1.1, hf'p.1.2, h3]
    have : f' = f := idsDistinct_inj fs hdist f' hf'mem f hf hid
    subst this
    rw [hfe] at hfe'
    exact (Except.ok.inj hfe').symm

end B6.Model.CompactIndex
