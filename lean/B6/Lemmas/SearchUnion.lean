import B6.Lemmas.Search
/-!
# `union` refines the cursor over the union of its children's lists (C06)

Invariant (DESIGN §5 C06): with `u` the current element of the spec cursor, every live child sits on a value
`≥ u`, and every element `≥ u` of the union is still *pending* (at or after the cursor) in some live child.
The proof never looks at the order of the live children, so it does not depend on the heap layout.
-/
namespace B6.Lemmas.Search
open B6.Spec.Cursor B6.Spec.SearchQuery B6.Model.Search

/-! ## `splitMin` -/

theorem splitMin_spec {α : Type} (key : α → Nat) :
    ∀ (l : List α) {pre : List α} {m : α} {post : List α}, splitMin key l = some (pre, m, post) →
      l = pre ++ m :: post ∧ ∀ x ∈ l, key m ≤ key x
  | [], _, _, _, h => by simp [splitMin] at h
  | a :: l, pre, m, post, h => by
    unfold splitMin at h
    cases hs : splitMin key l with
    | none =>
      rw [hs] at h
      simp only [Option.some.injEq, Prod.mk.injEq] at h
      obtain ⟨rfl, rfl, rfl⟩ := h
      have : l = [] := by
        cases l with
        | nil => rfl
        | cons b l' =>
          unfold splitMin at hs
          cases h2 : splitMin key l' with
          | none => rw [h2] at hs; simp at hs
          | some p => obtain ⟨p1, p2, p3⟩ := p; rw [h2] at hs; simp only at hs; split at hs <;> simp at hs
      subst this
      simp
    | some p =>
      obtain ⟨pre', m', post'⟩ := p
      rw [hs] at h
      obtain ⟨ih1, ih2⟩ := splitMin_spec key l hs
      simp only at h
      split at h
      · rename_i hle
        simp only [Option.some.injEq, Prod.mk.injEq] at h
        obtain ⟨rfl, rfl, rfl⟩ := h
        refine ⟨by simp, ?_⟩
        intro x hx
        rcases List.mem_cons.1 hx with rfl | hx
        · exact Nat.le_refl _
        · exact Nat.le_trans hle (ih2 x hx)
      · rename_i hle
        simp only [Option.some.injEq, Prod.mk.injEq] at h
        obtain ⟨rfl, rfl, rfl⟩ := h
        refine ⟨by rw [ih1]; simp, ?_⟩
        intro x hx
        rcases List.mem_cons.1 hx with rfl | hx
        · omega
        · exact ih2 x hx

theorem splitMin_none {α : Type} (key : α → Nat) (l : List α) : splitMin key l = none ↔ l = [] := by
  constructor
  · intro h
    cases l with
    | nil => rfl
    | cons a l =>
      unfold splitMin at h
      cases hs : splitMin key l with
      | none => rw [hs] at h; simp at h
      | some p => obtain ⟨p1, p2, p3⟩ := p; rw [hs] at h; simp only at h; split at h <;> simp at h
  · intro h; subst h; rfl

theorem splitMin_map {α β : Type} (f : α → β) (key : β → Nat) :
    ∀ l : List α, splitMin key (l.map f) =
      (splitMin (fun a => key (f a)) l).map (fun p => (p.1.map f, f p.2.1, p.2.2.map f))
  | [] => rfl
  | a :: l => by
    simp only [List.map_cons, splitMin]
    rw [splitMin_map f key l]
    cases splitMin (fun a => key (f a)) l with
    | none => simp
    | some p =>
      obtain ⟨pre, m, post⟩ := p
      simp only [Option.map_some]
      split <;> simp

/-! ## children paired with their spec cursors -/

structure Child (σ : Type) where
  s : σ
  v : Nat
  c : Cursor

variable {σ : Type}

def liveOf (ts : List (Child σ)) : List (σ × Nat) := ts.map (fun t => (t.s, t.v))

/-- a live child: behaves like its cursor, and sits on `v` -/
def Good (o : IterOps σ) (t : Child σ) : Prop := RefinesAt o t.s t.c ∧ t.c.cur = some t.v

theorem liveOf_append (a b : List (Child σ)) : liveOf (a ++ b) = liveOf a ++ liveOf b := by
  simp [liveOf]

theorem splitMin_liveOf (ts : List (Child σ)) :
    splitMin (·.2) (liveOf ts) =
      (splitMin Child.v ts).map (fun p => (liveOf p.1, (p.2.1.s, p.2.1.v), liveOf p.2.2)) := by
  unfold liveOf
  rw [splitMin_map]

theorem liveOf_isEmpty (ts : List (Child σ)) : (liveOf ts).isEmpty = ts.isEmpty := by
  cases ts <;> simp [liveOf]

/-! ## the heap loop -/

/-- Generic invariant of `Union.loop`: `step` moves a child to its least element `≥ t₀`, `cond v` says
`v < t₀` (for values `≥ u`).  The loop ends with every live child on a value `≥ t₀`, and keeps every
element `≥ t₀` of `M` pending in some live child. -/
theorem loop_spec (o : IterOps σ) (cond : Nat → Bool) (step : σ → Res σ) (t₀ u : Nat) (M : List Nat)
    (hcond : ∀ v, u ≤ v → (cond v = true ↔ v < t₀))
    (hstep : ∀ t : Child σ, Good o t → u ≤ t.v → t.v < t₀ →
      ∃ s', step t.s = .ok ((t.c.advance t₀).1, s') ∧
        ((t.c.advance t₀).1 = true → RefinesAt o s' (t.c.advance t₀).2)) :
    ∀ (f : Nat) (ts : List (Child σ)), (ts.filter (fun t => decide (t.v < t₀))).length < f →
      (∀ t ∈ ts, Good o t ∧ u ≤ t.v ∧ ∀ x ∈ t.c.xs, x ∈ M) →
      (∀ x ∈ M, t₀ ≤ x → ∃ t ∈ ts, x ∈ t.c.xs ∧ t.v ≤ x) →
      ∃ ts', Union.loop o cond step f (liveOf ts) = .ok (liveOf ts') ∧
        (∀ t ∈ ts', Good o t ∧ t₀ ≤ t.v ∧ ∀ x ∈ t.c.xs, x ∈ M) ∧
        (∀ x ∈ M, t₀ ≤ x → ∃ t ∈ ts', x ∈ t.c.xs ∧ t.v ≤ x)
  | 0, _, hf, _, _ => by omega
  | f + 1, ts, hf, hinv, hcompl => by
    unfold Union.loop
    rw [splitMin_liveOf]
    cases hs : splitMin Child.v ts with
    | none =>
      have : ts = [] := (splitMin_none _ _).1 hs
      subst this
      exact ⟨[], rfl, by simp, by simpa using hcompl⟩
    | some p =>
      obtain ⟨pre, m, post⟩ := p
      obtain ⟨hts, hmin⟩ := splitMin_spec Child.v ts hs
      have hm : m ∈ ts := by rw [hts]; simp
      obtain ⟨hgood, hum, hmM⟩ := hinv m hm
      simp only [Option.map_some]
      by_cases hc : cond m.v = true
      · have hlt : m.v < t₀ := (hcond m.v hum).1 hc
        rw [if_pos hc]
        obtain ⟨s', hstep1, hstep2⟩ := hstep m hgood hum hlt
        rw [hstep1]
        have hA := Cursor.advance_spec hgood.1.wf t₀
        cases hb : (m.c.advance t₀).1 with
        | true =>
          obtain ⟨_, hxs', _, x', hx', hx'm, htx', hvx', hleast⟩ := hA.1 hb
          have hr' := hstep2 hb
          have hval : o.value s' = some x' := by rw [hr'.value (by rw [hx']; rfl), hx']
          simp only [hval]
          let m' : Child σ := ⟨s', x', (m.c.advance t₀).2⟩
          have hlive : liveOf pre ++ (s', x') :: liveOf post = liveOf (pre ++ m' :: post) := by
            simp [liveOf, m']
          rw [hlive]
          apply loop_spec o cond step t₀ u M hcond hstep f (pre ++ m' :: post)
          · rw [hts] at hf
            simp only [List.filter_append, List.filter_cons, List.length_append] at hf ⊢
            have h1 : decide (m.v < t₀) = true := by simpa using hlt
            have h2 : decide (m'.v < t₀) = false := by simp [m']; omega
            rw [h1] at hf; rw [h2]
            simp only [↓reduceIte, List.length_cons, Bool.false_eq_true] at hf ⊢
            omega
          · intro t ht
            rcases List.mem_append.1 ht with h1 | h1
            · exact hinv t (by rw [hts]; exact List.mem_append_left _ h1)
            · rcases List.mem_cons.1 h1 with rfl | h2
              · refine ⟨⟨hr', hx'⟩, ?_, ?_⟩
                · have := hvx' m.v hgood.2; show u ≤ x'; omega
                · intro x hx; apply hmM; rw [← hxs']; exact hx
              · exact hinv t (by rw [hts]; exact List.mem_append_right _ (List.mem_cons_of_mem _ h2))
          · intro x hxM htx
            obtain ⟨t, ht, hxt, htv⟩ := hcompl x hxM htx
            rw [hts] at ht
            rcases List.mem_append.1 ht with h1 | h1
            · exact ⟨t, List.mem_append_left _ h1, hxt, htv⟩
            · rcases List.mem_cons.1 h1 with rfl | h2
              · refine ⟨m', by simp, ?_, ?_⟩
                · show x ∈ (t.c.advance t₀).2.xs; rw [hxs']; exact hxt
                · show x' ≤ x
                  apply hleast x hxt htx
                  intro v hv; rw [hgood.2] at hv; simp at hv; omega
              · exact ⟨t, List.mem_append_right _ (List.mem_cons_of_mem _ h2), hxt, htv⟩
        | false =>
          have hall := hA.2 hb
          simp only
          have hlive : liveOf pre ++ liveOf post = liveOf (pre ++ post) := by simp [liveOf]
          rw [hlive]
          apply loop_spec o cond step t₀ u M hcond hstep f (pre ++ post)
          · rw [hts] at hf
            simp only [List.filter_append, List.filter_cons, List.length_append] at hf ⊢
            have h1 : decide (m.v < t₀) = true := by simpa using hlt
            rw [h1] at hf
            simp only [↓reduceIte, List.length_cons] at hf
            omega
          · intro t ht
            rcases List.mem_append.1 ht with h1 | h1
            · exact hinv t (by rw [hts]; exact List.mem_append_left _ h1)
            · exact hinv t (by rw [hts]; exact List.mem_append_right _ (List.mem_cons_of_mem _ h1))
          · intro x hxM htx
            obtain ⟨t, ht, hxt, htv⟩ := hcompl x hxM htx
            rw [hts] at ht
            rcases List.mem_append.1 ht with h1 | h1
            · exact ⟨t, List.mem_append_left _ h1, hxt, htv⟩
            · rcases List.mem_cons.1 h1 with rfl | h2
              · have := hall x hxt; omega
              · exact ⟨t, List.mem_append_right _ h2, hxt, htv⟩
      · rw [if_neg hc]
        have hge : t₀ ≤ m.v := by
          have : ¬ m.v < t₀ := fun h => hc ((hcond m.v hum).2 h)
          omega
        refine ⟨ts, ?_, ?_, hcompl⟩
        · rw [hts]
        · intro t ht
          obtain ⟨h1, _, h3⟩ := hinv t ht
          exact ⟨h1, Nat.le_trans hge (hmin t ht), h3⟩

/-- when no child is below the threshold the loop leaves the heap alone -/
theorem loop_noop (o : IterOps σ) (cond : Nat → Bool) (step : σ → Res σ) (f : Nat) (ts : List (Child σ))
    (hne : ts ≠ []) (h : ∀ t ∈ ts, cond t.v = false) :
    Union.loop o cond step (f + 1) (liveOf ts) = .ok (liveOf ts) := by
  unfold Union.loop
  rw [splitMin_liveOf]
  cases hs : splitMin Child.v ts with
  | none => exact absurd ((splitMin_none _ _).1 hs) hne
  | some p =>
    obtain ⟨pre, m, post⟩ := p
    obtain ⟨hts, _⟩ := splitMin_spec Child.v ts hs
    have hm : m ∈ ts := by rw [hts]; simp
    simp only [Option.map_some, h m hm, Bool.false_eq_true, ↓reduceIte]

/-! ## `start` -/

theorem start_spec (o : IterOps σ) (M : List Nat) :
    ∀ ps : List (σ × Cursor),
      (∀ p ∈ ps, RefinesAt o p.1 p.2 ∧ p.2.cur = none ∧ ∀ x ∈ p.2.xs, x ∈ M) →
      ∃ ts, Union.start o (ps.map (·.1)) = .ok (liveOf ts) ∧
        (∀ t ∈ ts, Good o t ∧ ∀ x ∈ t.c.xs, x ∈ M) ∧
        (∀ p ∈ ps, ∀ x ∈ p.2.xs, ∃ t ∈ ts, x ∈ t.c.xs ∧ t.v ≤ x)
  | [], _ => ⟨[], rfl, by simp, by simp⟩
  | p :: ps, h => by
    obtain ⟨hr, hcn, hM⟩ := h p (by simp)
    obtain ⟨ts, ih1, ih2, ih3⟩ := start_spec o M ps (fun q hq => h q (List.mem_cons_of_mem _ hq))
    obtain ⟨s', h1, h2⟩ := hr.next
    have hN := Cursor.next_spec hr.wf
    have hlo : p.2.lo = 0 := by simp [Cursor.lo, hcn]
    simp only [List.map_cons, Union.start, h1]
    cases hb : p.2.next.1 with
    | true =>
      obtain ⟨_, hxs', _, x', hx', hx'm, _, hleast⟩ := hN.1 hb
      have hr' := h2 hb
      have hval : o.value s' = some x' := by rw [hr'.value (by rw [hx']; rfl), hx']
      simp only [hval, ih1]
      refine ⟨⟨s', x', p.2.next.2⟩ :: ts, by simp [liveOf], ?_, ?_⟩
      · intro t ht
        rcases List.mem_cons.1 ht with rfl | ht
        · exact ⟨⟨hr', hx'⟩, fun x hx => hM x (by rw [← hxs']; exact hx)⟩
        · exact ih2 t ht
      · intro q hq x hx
        rcases List.mem_cons.1 hq with rfl | hq
        · refine ⟨⟨s', x', q.2.next.2⟩, by simp, by show x ∈ q.2.next.2.xs; rw [hxs']; exact hx, ?_⟩
          exact hleast x hx (by rw [hlo]; omega)
        · obtain ⟨t, ht, h3, h4⟩ := ih3 q hq x hx
          exact ⟨t, List.mem_cons_of_mem _ ht, h3, h4⟩
    | false =>
      have hall := hN.2 hb
      simp only [ih1]
      refine ⟨ts, rfl, ih2, ?_⟩
      intro q hq x hx
      rcases List.mem_cons.1 hq with rfl | hq
      · have := hall x hx; rw [hlo] at this; omega
      · exact ih3 q hq x hx

/-! ## the relation and the simulation -/

/-- started: `C` is on `u`, every live child is on a value `≥ u`, everything `≥ u` is pending somewhere -/
def UInv (o : IterOps σ) (ts : List (Child σ)) (C : Cursor) : Prop :=
  (∀ t ∈ ts, Good o t ∧ ∀ x ∈ t.c.xs, x ∈ C.xs) ∧
  ∃ u, C.cur = some u ∧ (∀ t ∈ ts, u ≤ t.v) ∧ (∀ x ∈ C.xs, u ≤ x → ∃ t ∈ ts, x ∈ t.c.xs ∧ t.v ≤ x)

def UnionRel (o : IterOps σ) (st : UnionState σ) (C : Cursor) : Prop :=
  C.WF ∧
  match st with
  | .fresh its => ∃ ps : List (σ × Cursor), its = ps.map (·.1) ∧ C.cur = none ∧
      (∀ p ∈ ps, RefinesAt o p.1 p.2 ∧ p.2.cur = none ∧ ∀ x ∈ p.2.xs, x ∈ C.xs) ∧
      (∀ x ∈ C.xs, ∃ p ∈ ps, x ∈ p.2.xs)
  | .live l => ∃ ts, l = liveOf ts ∧ UInv o ts C

/-- the heap top of a started union is on the spec cursor's current element -/
theorem uinv_top {o : IterOps σ} {ts : List (Child σ)} {C : Cursor} (h : UInv o ts C) :
    ∃ pre m post u, splitMin Child.v ts = some (pre, m, post) ∧ C.cur = some u ∧ m.v = u := by
  obtain ⟨_, u, hu, hge, hcompl⟩ := h
  obtain ⟨t, ht, _, htu⟩ := hcompl u (Cursor.cur_mem hu) (Nat.le_refl _)
  cases hs : splitMin Child.v ts with
  | none => rw [(splitMin_none _ _).1 hs] at ht; simp at ht
  | some p =>
    obtain ⟨pre, m, post⟩ := p
    obtain ⟨hts, hmin⟩ := splitMin_spec Child.v ts hs
    have hm : m ∈ ts := by rw [hts]; simp
    have h1 := hmin t ht
    have h2 := hge m hm
    exact ⟨pre, m, post, u, rfl, hu, by omega⟩

/-- after the loop (all live children `≥ t₀`, everything `≥ t₀` pending): the spec cursor's `advance t₀`
agrees with "heap not empty", and the invariant holds for the new cursor -/
theorem union_finish {o : IterOps σ} {ts : List (Child σ)} {C : Cursor} {t₀ : Nat} (hC : C.WF)
    (hlt : ∀ v, C.cur = some v → v < t₀)
    (hinv : ∀ t ∈ ts, Good o t ∧ t₀ ≤ t.v ∧ ∀ x ∈ t.c.xs, x ∈ C.xs)
    (hcompl : ∀ x ∈ C.xs, t₀ ≤ x → ∃ t ∈ ts, x ∈ t.c.xs ∧ t.v ≤ x) :
    (C.advance t₀).1 = !(liveOf ts).isEmpty ∧
    ((C.advance t₀).1 = true → UInv o ts (C.advance t₀).2) := by
  have hA := Cursor.advance_spec hC t₀
  rw [liveOf_isEmpty]
  cases hts : ts with
  | nil =>
    have : (C.advance t₀).1 = false := by
      cases hb : (C.advance t₀).1 with
      | false => rfl
      | true =>
        obtain ⟨_, _, _, x, _, hxm, htx, _⟩ := hA.1 hb
        obtain ⟨t, ht, _⟩ := hcompl x hxm htx
        rw [hts] at ht; simp at ht
    rw [this]; simp
  | cons t0 ts0 =>
    rw [← hts]
    have hne : ts ≠ [] := by rw [hts]; simp
    have ht0 : t0 ∈ ts := by rw [hts]; simp
    obtain ⟨hg0, h0, hM0⟩ := hinv t0 ht0
    have hv0M : t0.v ∈ C.xs := hM0 _ (Cursor.cur_mem hg0.2)
    have ht : (C.advance t₀).1 = true := by
      cases hb : (C.advance t₀).1 with
      | true => rfl
      | false => have := hA.2 hb t0.v hv0M; omega
    have hemp : ts.isEmpty = false := by rw [hts]; rfl
    refine ⟨by rw [ht, hemp]; rfl, fun _ => ?_⟩
    obtain ⟨_, hxs', _, x, hx, hxm, htx, _, hleast⟩ := hA.1 ht
    refine ⟨?_, x, hx, ?_, ?_⟩
    · intro t htm
      obtain ⟨h1, _, h3⟩ := hinv t htm
      exact ⟨h1, by rw [hxs']; exact h3⟩
    · intro t htm
      obtain ⟨h1, h2, h3⟩ := hinv t htm
      exact hleast t.v (h3 _ (Cursor.cur_mem h1.2)) h2 (fun v hv => by have := hlt v hv; omega)
    · intro y hy hxy
      rw [hxs'] at hy
      exact hcompl y hy (by omega)

theorem liveOf_length (ts : List (Child σ)) : (liveOf ts).length = ts.length := by simp [liveOf]

/-- `Advance(k)` on a started union whose heap is `ts` -/
theorem union_advance_live (o : IterOps σ) {ts : List (Child σ)} {C : Cursor} {k : Nat} (hC : C.WF)
    (hk : o.dom k)
    (hlt : ∀ v, C.cur = some v → v < k)
    (hinv : ∀ t ∈ ts, Good o t ∧ ∀ x ∈ t.c.xs, x ∈ C.xs)
    (hcompl : ∀ x ∈ C.xs, k ≤ x → ∃ t ∈ ts, x ∈ t.c.xs ∧ t.v ≤ x) :
    ∃ ts', Union.advanceLive o k (liveOf ts) = .ok ((C.advance k).1, .live (liveOf ts')) ∧
      ((C.advance k).1 = true → UInv o ts' (C.advance k).2) := by
  obtain ⟨ts', hl1, hl2, hl3⟩ := loop_spec o (· < k) (o.advance k) k 0 C.xs
    (by intro v _; simp)
    (by intro t htg _ _; exact htg.1.advance k hk)
    (ts.length + 1) ts
    (by have := List.length_filter_le (fun t : Child σ => decide (t.v < k)) ts; omega)
    (fun t ht => ⟨(hinv t ht).1, Nat.zero_le _, (hinv t ht).2⟩)
    hcompl
  obtain ⟨hf1, hf2⟩ := union_finish (o := o) (ts := ts') (C := C) (t₀ := k) hC hlt hl2 hl3
  refine ⟨ts', ?_, hf2⟩
  unfold Union.advanceLive
  rw [liveOf_length, hl1]
  simp only [Union.finish]
  rw [hf1]

theorem union_simulation (o : IterOps σ) : Simulation (Union.ops o) (UnionRel o) where
  wf _ _ h := h.1
  value st C h hC := by
    obtain ⟨_, h⟩ := h
    cases st with
    | fresh its =>
      obtain ⟨_, _, hn, _⟩ := h
      rw [hn] at hC; simp at hC
    | live l =>
      obtain ⟨ts, rfl, hinv⟩ := h
      obtain ⟨pre, m, post, u, hs, hu, hmu⟩ := uinv_top hinv
      show Union.value (.live (liveOf ts)) = C.cur
      simp [Union.value, splitMin_liveOf, hs, hu, hmu]
  next st C h := by
    obtain ⟨hC, h⟩ := h
    obtain ⟨hnb, hns⟩ := Cursor.next_eq_advance_lo hC
    cases st with
    | fresh its =>
      obtain ⟨ps, rfl, hn, hps, hcov⟩ := h
      have hlo : C.lo = 0 := by simp [Cursor.lo, hn]
      obtain ⟨ts, hs1, hs2, hs3⟩ := start_spec o C.xs ps hps
      obtain ⟨hf1, hf2⟩ := union_finish (o := o) (ts := ts) (C := C) (t₀ := 0) hC
        (by intro v hv; rw [hn] at hv; simp at hv)
        (fun t ht => ⟨(hs2 t ht).1, Nat.zero_le _, (hs2 t ht).2⟩)
        (by
          intro x hx _
          obtain ⟨p, hp, hxp⟩ := hcov x hx
          exact hs3 p hp x hxp)
      rw [hlo] at hnb hns
      refine ⟨.live (liveOf ts), ?_, ?_⟩
      · simp only [Union.ops, Union.next, hs1, Union.finish]
        rw [hnb, hf1]
      · intro ht
        refine ⟨(Cursor.next_spec hC).1 ht |>.1, ts, rfl, ?_⟩
        rw [hns ht]; exact hf2 (by rw [← hnb]; exact ht)
    | live l =>
      obtain ⟨ts, rfl, hinv⟩ := h
      obtain ⟨pre, m, post, u, hs, hu, hmu⟩ := uinv_top hinv
      obtain ⟨hgood, u', hu', hge, hcompl⟩ := hinv
      have huu : u' = u := by rw [hu] at hu'; simp at hu'; omega
      subst huu
      have hlo : C.lo = u' + 1 := by simp [Cursor.lo, hu]
      rw [hlo] at hnb hns
      obtain ⟨ts', hl1, hl2, hl3⟩ := loop_spec o (· == u') o.next (u' + 1) u' C.xs
        (by intro v hv; simp; omega)
        (by
          intro t htg hut hlt
          -- for a child on `u'`, `next` is `advance (u' + 1)`
          have htv : t.v = u' := by omega
          obtain ⟨s', h1, h2⟩ := htg.1.next
          obtain ⟨hb, hs'⟩ := Cursor.next_eq_advance_lo htg.1.wf
          have hlo' : t.c.lo = u' + 1 := by simp [Cursor.lo, htg.2, htv]
          rw [hlo'] at hb hs'
          refine ⟨s', by rw [h1, hb], ?_⟩
          intro ht
          have ht' : t.c.next.1 = true := by rw [hb]; exact ht
          rw [← hs' ht']; exact h2 ht')
        (ts.length + 1) ts
        (by have := List.length_filter_le (fun t : Child σ => decide (t.v < u' + 1)) ts; omega)
        (fun t ht => ⟨(hgood t ht).1, hge t ht, (hgood t ht).2⟩)
        (fun x hx hux => hcompl x hx (by omega))
      obtain ⟨hf1, hf2⟩ := union_finish (o := o) (ts := ts') (C := C) (t₀ := u' + 1) hC
        (by intro v hv; rw [hu] at hv; simp at hv; omega) hl2 hl3
      refine ⟨.live (liveOf ts'), ?_, ?_⟩
      · simp only [Union.ops, Union.next, splitMin_liveOf, hs, Option.map_some, hmu, liveOf_length, hl1,
          Union.finish]
        rw [hnb, hf1]
      · intro ht
        refine ⟨(Cursor.next_spec hC).1 ht |>.1, ts', rfl, ?_⟩
        rw [hns ht]; exact hf2 (by rw [← hnb]; exact ht)
  advance k st C h hk := by
    obtain ⟨hC, h⟩ := h
    have hA := Cursor.advance_spec hC k
    cases st with
    | fresh its =>
      obtain ⟨ps, rfl, hn, hps, hcov⟩ := h
      obtain ⟨ts, hs1, hs2, hs3⟩ := start_spec o C.xs ps hps
      obtain ⟨ts', ha1, ha2⟩ := union_advance_live o (ts := ts) (C := C) (k := k) hC hk
        (by intro v hv; rw [hn] at hv; simp at hv) hs2
        (by
          intro x hx _
          obtain ⟨p, hp, hxp⟩ := hcov x hx
          exact hs3 p hp x hxp)
      refine ⟨.live (liveOf ts'), ?_, ?_⟩
      · simp only [Union.ops, Union.advance, hs1]
        exact ha1
      · intro ht
        exact ⟨(hA.1 ht).1, ts', rfl, ha2 ht⟩
    | live l =>
      obtain ⟨ts, rfl, hinv⟩ := h
      obtain ⟨pre, m, post, u, hs, hu, hmu⟩ := uinv_top hinv
      by_cases hku : k ≤ u
      · -- the current element is already `≥ k`: nothing moves
        have hCs : C.advance k = (true, C) := by unfold Cursor.advance; rw [hu]; simp [hku]
        obtain ⟨hgood, u', hu', hge, hcompl⟩ := hinv
        have huu : u' = u := by rw [hu] at hu'; simp at hu'; omega
        subst huu
        have hne : ts ≠ [] := by
          intro h0; rw [h0] at hs; simp [splitMin] at hs
        refine ⟨.live (liveOf ts), ?_, ?_⟩
        · simp only [Union.ops, Union.advance, Union.advanceLive, liveOf_length]
          rw [loop_noop o _ _ _ ts hne (by intro t ht; have := hge t ht; simp; omega)]
          simp only [Union.finish, liveOf_isEmpty, hCs]
          cases ts with
          | nil => exact absurd rfl hne
          | cons _ _ => rfl
        · intro _
          rw [hCs]
          exact ⟨hC, ts, rfl, hgood, u', hu, hge, hcompl⟩
      · obtain ⟨hgood, u', hu', hge, hcompl⟩ := hinv
        have huu : u' = u := by rw [hu] at hu'; simp at hu'; omega
        subst huu
        obtain ⟨ts', ha1, ha2⟩ := union_advance_live o (ts := ts) (C := C) (k := k) hC hk
          (by intro v hv; rw [hu] at hv; simp at hv; omega) hgood
          (fun x hx hkx => hcompl x hx (by omega))
        refine ⟨.live (liveOf ts'), ?_, ?_⟩
        · simp only [Union.ops, Union.advance]
          exact ha1
        · intro ht
          exact ⟨(hA.1 ht).1, ts', rfl, ha2 ht⟩

/-- `union` over children that refine the cursors of `xss` refines the cursor of any strictly increasing
list `ys` holding exactly the elements of the `xss`. -/
theorem union_refines (o : IterOps σ) (ps : List (σ × List Nat)) (ys : List Nat)
    (hch : ∀ p ∈ ps, Refines o p.1 p.2) (hys : StrictSorted ys)
    (hmem : ∀ x, x ∈ ys ↔ ∃ p ∈ ps, x ∈ p.2) :
    Refines (Union.ops o) (.fresh (ps.map (·.1))) ys := by
  refine ⟨UnionRel o, union_simulation o, hys, ps.map (fun p => (p.1, start p.2)), ?_, rfl, ?_, ?_⟩
  · simp [List.map_map]
  · intro q hq
    obtain ⟨p, hp, rfl⟩ := List.mem_map.1 hq
    refine ⟨hch p hp, rfl, ?_⟩
    intro x hx
    exact (hmem x).2 ⟨p, hp, hx⟩
  · intro x hx
    obtain ⟨p, hp, hxp⟩ := (hmem x).1 hx
    exact ⟨(p.1, start p.2), List.mem_map.2 ⟨p, hp, rfl⟩, hxp⟩

end B6.Lemmas.Search
