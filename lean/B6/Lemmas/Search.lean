import B6.Model.Search
/-!
# Refinement lemmas for the search iterators (C06) — leaves, empty, embedding, key range

Every combinator theorem has the shape: if the children refine spec cursors, the combinator refines the
spec cursor of the list it denotes — for every sequence of `next`/`advance k` calls (`Refines`).
-/
namespace B6.Lemmas.Search
open B6.Spec.Cursor B6.Spec.SearchQuery B6.Model.Search

theorem takeWhile_length_lt_iff {p : Nat → Bool} {l : List Nat} :
    (l.takeWhile p).length < l.length ↔ l.dropWhile p ≠ [] := by
  have h := List.takeWhile_append_dropWhile (p := p) (l := l)
  have hl : (l.takeWhile p).length + (l.dropWhile p).length = l.length := by
    rw [← List.length_append, h]
  constructor
  · intro hlt hnil; rw [hnil] at hl; simp at hl; omega
  · intro hne
    have : 0 < (l.dropWhile p).length := List.length_pos_iff.2 hne
    omega

/-! ## more facts about the spec cursor -/

theorem seek_true_iff (c : Cursor) (k : Nat) :
    (c.seek k).1 = true ↔ (c.rest.takeWhile (· < k)).length < c.rest.length := by
  rw [takeWhile_length_lt_iff]
  unfold Cursor.seek
  cases hd : c.rest.dropWhile (· < k) <;> simp

theorem seek_pos (c : Cursor) (k : Nat) (h : (c.seek k).1 = true) :
    (c.seek k).2.pos = c.pos + (c.rest.takeWhile (· < k)).length + 1 := by
  unfold Cursor.seek at h ⊢
  cases hd : c.rest.dropWhile (· < k) with
  | nil => rw [hd] at h; simp at h
  | cons x r => simp [Cursor.pos]; omega

theorem length_xs (c : Cursor) : c.xs.length = c.pos + c.rest.length := by
  simp [Cursor.xs, Cursor.pos]

theorem drop_pos (c : Cursor) : c.xs.drop c.pos = c.rest := by
  simp [Cursor.xs, Cursor.pos]

theorem cur_eq_getElem (c : Cursor) (h : c.cur.isSome) : c.xs[c.pos - 1]? = c.cur := by
  unfold Cursor.cur at h ⊢
  have hne : c.before ≠ [] := by intro h0; rw [h0] at h; simp at h
  have hpos : 0 < c.before.length := List.length_pos_iff.2 hne
  unfold Cursor.xs Cursor.pos
  rw [List.getElem?_append_left (by omega), List.getLast?_eq_getElem?]

theorem cur_isSome_of_true_next {c : Cursor} (hw : c.WF) (h : c.next.1 = true) : c.next.2.cur.isSome := by
  obtain ⟨_, _, _, x, hx, _⟩ := (Cursor.next_spec hw).1 h
  rw [hx]; rfl

theorem cur_isSome_of_true_advance {c : Cursor} (hw : c.WF) {k : Nat} (h : (c.advance k).1 = true) :
    (c.advance k).2.cur.isSome := by
  obtain ⟨_, _, _, x, hx, _⟩ := (Cursor.advance_spec hw k).1 h
  rw [hx]; rfl

/-! ## leaves -/

def LeafRel (l : Leaf) (c : Cursor) : Prop := c.WF ∧ l.xs = c.xs ∧ l.pos = c.pos

theorem leaf_next (l : Leaf) (c : Cursor) (h : LeafRel l c) :
    l.next.1 = c.next.1 ∧ (c.next.1 = true → LeafRel l.next.2 c.next.2) := by
  obtain ⟨hw, hxs, hpos⟩ := h
  have hlen := length_xs c
  unfold Leaf.next Cursor.next
  cases hr : c.rest with
  | nil =>
    have : l.pos ≥ l.xs.length := by rw [hxs, hpos, hlen, hr]; simp
    simp [this]
  | cons x r =>
    have : ¬ l.pos ≥ l.xs.length := by rw [hxs, hpos, hlen, hr]; simp
    simp only [this, ↓reduceIte, forall_const, true_and]
    refine ⟨?_, ?_, ?_⟩
    · unfold Cursor.WF Cursor.xs; simp only [List.append_assoc, List.singleton_append]
      unfold Cursor.WF Cursor.xs at hw; rw [hr] at hw; exact hw
    · simp only [Cursor.xs, List.append_assoc, List.singleton_append]
      rw [hxs]; unfold Cursor.xs; rw [hr]
    · simp [Cursor.pos, hpos]

theorem leaf_advance (l : Leaf) (c : Cursor) (k : Nat) (h : LeafRel l c) :
    (l.advance k).1 = (c.advance k).1 ∧
      ((c.advance k).1 = true → LeafRel (l.advance k).2 (c.advance k).2) := by
  obtain ⟨hw, hxs, hpos⟩ := h
  have hlen := length_xs c
  have hdrop := drop_pos c
  have hspec := Cursor.seek_spec hw k
  -- the seek case, shared by "not started" and "current < k"
  have hseek : ∀ (j : Nat), j = c.pos + (c.rest.takeWhile (· < k)).length →
      decide (j < l.xs.length) = (c.seek k).1 ∧
      ((c.seek k).1 = true → LeafRel ⟨l.kind, l.xs, j + 1⟩ (c.seek k).2) := by
    intro j hj
    have hiff := seek_true_iff c k
    constructor
    · rw [hxs, hlen, hj]
      cases hb : (c.seek k).1 with
      | true => have := hiff.1 hb; simp; omega
      | false =>
        have : ¬ (c.rest.takeWhile (· < k)).length < c.rest.length := by
          intro hlt; rw [hiff.2 hlt] at hb; simp at hb
        simp; omega
    · intro ht
      obtain ⟨h1, h2, _⟩ := hspec.1 ht
      refine ⟨h1, ?_, ?_⟩
      · simp [hxs, h2]
      · simp [seek_pos c k ht, hj]
  unfold Leaf.advance lowerBound Cursor.advance
  cases hc : c.cur with
  | none =>
    have hb := Cursor.before_nil_of_cur hc
    have hp0 : c.pos = 0 := by simp [Cursor.pos, hb]
    have hrest : c.xs = c.rest := by simp [Cursor.xs, hb]
    simp only
    apply hseek
    rw [hpos, hp0, hxs, hrest]; simp
  | some v =>
    have hbe := Cursor.before_eq_of_cur hc
    have hp : c.pos = c.before.dropLast.length + 1 := by
      unfold Cursor.pos; rw [hbe]; simp
    have hd : c.xs.drop (c.pos - 1) = v :: c.rest := by
      unfold Cursor.xs; rw [hp, hbe]; simp
    simp only
    by_cases hkv : k ≤ v
    · rw [if_pos hkv]
      have htw : (c.xs.drop (c.pos - 1)).takeWhile (· < k) = [] := by
        rw [hd, List.takeWhile_cons]; simp; omega
      rw [hpos, hxs, htw]
      simp only [List.length_nil, Nat.add_zero, forall_const]
      refine ⟨?_, hw, rfl, ?_⟩
      · simp; rw [hlen]; omega
      · simp; omega
    · rw [if_neg hkv]
      apply hseek
      have htw : (c.xs.drop (c.pos - 1)).takeWhile (· < k) = v :: c.rest.takeWhile (· < k) := by
        rw [hd, List.takeWhile_cons]; simp; omega
      rw [hpos, hxs, htw]; simp; omega

theorem leaf_value (l : Leaf) (c : Cursor) (h : LeafRel l c) (hc : c.cur.isSome) :
    l.value = c.cur := by
  obtain ⟨_, hxs, hpos⟩ := h
  have hne : c.pos ≠ 0 := by
    unfold Cursor.pos Cursor.cur at *
    intro h0
    have : c.before = [] := List.length_eq_zero_iff.1 h0
    rw [this] at hc; simp at hc
  unfold Leaf.value
  rw [hpos, if_neg hne, hxs]
  exact cur_eq_getElem c hc

theorem leaf_simulation : Simulation Leaf.ops LeafRel where
  wf _ _ h := h.1
  value l c h hc := leaf_value l c h hc
  next l c h := by
    obtain ⟨h1, h2⟩ := leaf_next l c h
    exact ⟨l.next.2, by simp [Leaf.ops, ← h1], h2⟩
  advance k l c h _ := by
    obtain ⟨h1, h2⟩ := leaf_advance l c k h
    exact ⟨(l.advance k).2, by simp [Leaf.ops, ← h1], h2⟩

/-- `arrayIndexIterator` (and the tree-index leaf) over a strictly increasing list refines its cursor. -/
theorem leaf_refines (kind : LeafKind) (xs : List Nat) (h : StrictSorted xs) :
    Refines Leaf.ops ⟨kind, xs, 0⟩ xs :=
  ⟨LeafRel, leaf_simulation, h, rfl, rfl⟩

/-! ## the empty iterator -/

theorem empty_refines : Refines emptyOps () [] := by
  refine ⟨fun _ c => c = start [], ?_, rfl⟩
  constructor
  · intro _ c h; subst h; unfold Cursor.WF StrictSorted; simp [Cursor.xs, start]
  · intro _ c h hc; subst h; simp at hc
  · intro _ c h; subst h; exact ⟨(), rfl, by simp [Cursor.next, start]⟩
  · intro k _ c h _; subst h; exact ⟨(), rfl, by simp [Cursor.advance, Cursor.seek, Cursor.cur, start]⟩

/-! ## transporting a refinement along an embedding of state types -/

theorem refinesAt_embed {τ σ : Type} {opsT : IterOps τ} {opsS : IterOps σ} (emb : τ → σ)
    (hnext : ∀ t, opsS.next (emb t) = liftRes emb (opsT.next t))
    (hadv : ∀ k t, opsS.advance k (emb t) = liftRes emb (opsT.advance k t))
    (hval : ∀ t, opsS.value (emb t) = opsT.value t)
    (hdom : ∀ k, opsS.dom k → opsT.dom k)
    {t : τ} {c : Cursor} (h : RefinesAt opsT t c) : RefinesAt opsS (emb t) c := by
  refine ⟨fun s c => ∃ t, s = emb t ∧ RefinesAt opsT t c, ?_, t, rfl, h⟩
  constructor
  · rintro _ c ⟨t, rfl, ht⟩; exact ht.wf
  · rintro _ c ⟨t, rfl, ht⟩ hc; rw [hval]; exact ht.value hc
  · rintro _ c ⟨t, rfl, ht⟩
    obtain ⟨t', h1, h2⟩ := ht.next
    exact ⟨emb t', by rw [hnext, h1]; rfl, fun hb => ⟨t', rfl, h2 hb⟩⟩
  · rintro k _ c ⟨t, rfl, ht⟩ hk
    obtain ⟨t', h1, h2⟩ := ht.advance k (hdom k hk)
    exact ⟨emb t', by rw [hadv, h1]; rfl, fun hb => ⟨t', rfl, h2 hb⟩⟩

/-! ## key range -/

section range
variable {σ : Type} (o : IterOps σ)

theorem mem_rangeList {b e x : Nat} {xs : List Nat} : x ∈ rangeList b e xs ↔ x ∈ xs ∧ b ≤ x ∧ x < e := by
  simp [rangeList]

theorem rangeList_sorted {b e : Nat} {xs : List Nat} (h : StrictSorted xs) : StrictSorted (rangeList b e xs) := by
  unfold StrictSorted rangeList at *; exact h.filter _

/-- the relation kept by `keyRange`: `C` is the cursor over the clamped list, `c` the child's cursor -/
def RangeRel (st : RangeState σ) (C : Cursor) : Prop :=
  ∃ c : Cursor, RefinesAt o st.it c ∧ o.dom st.b ∧ C.WF ∧ C.xs = rangeList st.b st.e c.xs ∧
    ((st.started = false ∧ c.cur = none ∧ C.cur = none) ∨
     (st.started = true ∧ ∃ v, c.cur = some v ∧ C.cur = some v))

/-- the common tail: the child moved to its least element `x ≥ t` (with `t` above both current elements),
`finish` clamps with `e`, and the spec cursor over the clamped list agrees -/
theorem range_finish {st : RangeState σ} {C c c' : Cursor} {it' : σ} {t : Nat} (b0 : Bool)
    (hC : C.WF) (hxs : C.xs = rangeList st.b st.e c.xs) (_hcw : c.WF)
    (hbt : st.b ≤ t)
    (hcC : ∀ v, C.cur = some v → v < t)
    -- what the child did
    (hb0 : b0 = true → RefinesAt o it' c' ∧ c'.xs = c.xs ∧
        ∃ x, c'.cur = some x ∧ x ∈ c.xs ∧ t ≤ x ∧ ∀ y ∈ c.xs, t ≤ y → x ≤ y)
    (hb0f : b0 = false → ∀ y ∈ c.xs, y < t) :
    ∃ st', Range.finish o st (.ok (b0, it')) = .ok ((C.advance t).1, st') ∧
      ((C.advance t).1 = true → st'.b = st.b ∧ st'.e = st.e ∧ st'.it = it' ∧ st'.started = true ∧
        ∃ x, c'.cur = some x ∧ (C.advance t).2.cur = some x ∧ RefinesAt o it' c' ∧ c'.xs = c.xs) := by
  have hA := Cursor.advance_spec hC t
  cases b0 with
  | false =>
    have hall := hb0f rfl
    have : (C.advance t).1 = false := by
      cases hb : (C.advance t).1 with
      | false => rfl
      | true =>
        obtain ⟨_, _, _, x, _, hx, htx, _⟩ := hA.1 hb
        rw [hxs, mem_rangeList] at hx
        have := hall x hx.1; omega
    refine ⟨{ st with it := it', started := true }, by simp [Range.finish, this], ?_⟩
    intro ht; rw [this] at ht; simp at ht
  | true =>
    obtain ⟨hr, hxs', x, hx, hxm, htx, hleast⟩ := hb0 rfl
    have hval : o.value it' = some x := by rw [hr.value (by rw [hx]; rfl), hx]
    by_cases hxe : x < st.e
    · -- inside the range: the spec lands on `x` too
      have hxM : x ∈ C.xs := by rw [hxs, mem_rangeList]; exact ⟨hxm, by omega, hxe⟩
      have ht : (C.advance t).1 = true := by
        cases hb : (C.advance t).1 with
        | true => rfl
        | false => have := hA.2 hb x hxM; omega
      obtain ⟨_, _, _, z, hz, hzm, htz, _, hzleast⟩ := hA.1 ht
      have hzx : z = x := by
        rw [hxs, mem_rangeList] at hzm
        have h1 := hleast z hzm.1 htz
        have h2 := hzleast x hxM htx (fun v hv => by have := hcC v hv; omega)
        omega
      subst hzx
      refine ⟨{ st with it := it', started := true }, by simp [Range.finish, hval, hxe, ht], ?_⟩
      intro _
      exact ⟨rfl, rfl, rfl, rfl, z, hx, hz, hr, hxs'⟩
    · -- past the end: nothing of the clamped list is `≥ t`
      have : (C.advance t).1 = false := by
        cases hb : (C.advance t).1 with
        | false => rfl
        | true =>
          obtain ⟨_, _, _, z, _, hzm, htz, _⟩ := hA.1 hb
          rw [hxs, mem_rangeList] at hzm
          have := hleast z hzm.1 htz; omega
      refine ⟨{ st with it := it', started := true }, by simp [Range.finish, hval, hxe, this], ?_⟩
      intro ht; rw [this] at ht; simp at ht

theorem range_simulation : Simulation (Range.ops o) (RangeRel o) where
  wf _ _ h := by obtain ⟨_, _, _, hw, _⟩ := h; exact hw
  value st C h hC := by
    obtain ⟨c, hr, _, _, _, hcase⟩ := h
    rcases hcase with ⟨_, _, hCn⟩ | ⟨_, v, hcv, hCv⟩
    · rw [hCn] at hC; simp at hC
    · show o.value st.it = C.cur
      rw [hr.value (by rw [hcv]; rfl), hcv, hCv]
  next st C h := by
    obtain ⟨c, hr, hdb, hCw, hxs, hcase⟩ := h
    have hcw := hr.wf
    obtain ⟨hnb, hns⟩ := Cursor.next_eq_advance_lo hCw
    rcases hcase with ⟨hst, hcn, hCn⟩ | ⟨hst, v, hcv, hCv⟩
    · -- first call: `Advance(begin)` on the child; the spec `next` is `advance 0`, and also `advance b`
      have hlo : C.lo = 0 := by simp [Cursor.lo, hCn]
      obtain ⟨it', h1, h2⟩ := hr.advance st.b hdb
      have hcA := Cursor.advance_spec hcw st.b
      have hfin := range_finish o (st := st) (C := C) (c := c) (c' := (c.advance st.b).2) (it' := it')
        (t := st.b) (c.advance st.b).1 hCw hxs hcw (Nat.le_refl _)
        (by intro v hv; rw [hCn] at hv; simp at hv)
        (by
          intro hb
          obtain ⟨_, hx2, _, x, hx, hxm, hbx, _, hleast⟩ := hcA.1 hb
          refine ⟨h2 hb, hx2, x, hx, hxm, hbx, ?_⟩
          intro y hy hby; exact hleast y hy hby (by intro v hv; rw [hcn] at hv; simp at hv))
        (fun hb => hcA.2 hb)
      obtain ⟨st', hf1, hf2⟩ := hfin
      -- `C.advance b = C.advance 0 = C.next` since every element of the clamped list is `≥ b`
      have hsame : (C.advance st.b).1 = C.next.1 ∧ ((C.advance st.b).1 = true → (C.advance st.b).2.cur = C.next.2.cur) := by
        have hA0 := Cursor.advance_spec hCw 0
        have hAb := Cursor.advance_spec hCw st.b
        rw [hnb, hlo]
        have hbool : (C.advance st.b).1 = (C.advance 0).1 := by
          cases hb : (C.advance st.b).1 with
          | true =>
            obtain ⟨_, _, _, x, _, hxm, _⟩ := hAb.1 hb
            cases hb0 : (C.advance 0).1 with
            | true => rfl
            | false => have := hA0.2 hb0 x hxm; omega
          | false =>
            cases hb0 : (C.advance 0).1 with
            | false => rfl
            | true =>
              obtain ⟨_, _, _, x, _, hxm, _⟩ := hA0.1 hb0
              have := hAb.2 hb x hxm
              rw [hxs, mem_rangeList] at hxm; omega
        refine ⟨hbool, fun hb => ?_⟩
        obtain ⟨_, _, _, x, hx, hxm, hbx, _, hxl⟩ := hAb.1 hb
        obtain ⟨_, _, _, z, hz, hzm, _, _, hzl⟩ := hA0.1 (by rw [← hbool]; exact hb)
        have hns' := hns (by rw [hnb, hlo, ← hbool]; exact hb)
        rw [hns', hlo, hx, hz]
        have h1 := hzl x hxm (Nat.zero_le _) (by intro v hv; rw [hCn] at hv; simp at hv)
        have h2 := hxl z hzm (by rw [hxs, mem_rangeList] at hzm; omega)
          (by intro v hv; rw [hCn] at hv; simp at hv)
        congr 1; omega
      refine ⟨st', ?_, ?_⟩
      · show Range.next o st = _
        unfold Range.next; rw [hst]; simp only [Bool.false_eq_true, ↓reduceIte]
        rw [h1, hf1, hsame.1]
      · intro ht
        have htb : (C.advance st.b).1 = true := by rw [hsame.1]; exact ht
        obtain ⟨e1, e2, e3, e4, x, hcx, hCx, hr', hxs'⟩ := hf2 htb
        have hnw := (Cursor.next_spec hCw).1 ht
        refine ⟨(c.advance st.b).2, by rw [e3]; exact hr', by rw [e1]; exact hdb, hnw.1, ?_, Or.inr ⟨e4, x, hcx, ?_⟩⟩
        · rw [hnw.2.1, e1, e2, hxs', hxs]
        · rw [← hsame.2 htb]; exact hCx
    · -- later calls: `Next` on the child
      have hlo : C.lo = v + 1 := by simp [Cursor.lo, hCv]
      have hclo : c.lo = v + 1 := by simp [Cursor.lo, hcv]
      obtain ⟨it', h1, h2⟩ := hr.next
      have hcN := Cursor.next_spec hcw
      have hvM : v ∈ C.xs := Cursor.cur_mem hCv
      have hbv : st.b ≤ v := by rw [hxs, mem_rangeList] at hvM; exact hvM.2.1
      have hfin := range_finish o (st := st) (C := C) (c := c) (c' := c.next.2) (it' := it')
        (t := v + 1) c.next.1 hCw hxs hcw (by omega)
        (by intro w hw; rw [hCv] at hw; simp at hw; omega)
        (by
          intro hb
          obtain ⟨_, hx2, _, x, hx, hxm, hbx, hleast⟩ := hcN.1 hb
          rw [hclo] at hbx hleast
          exact ⟨h2 hb, hx2, x, hx, hxm, hbx, hleast⟩)
        (by intro hb; have := hcN.2 hb; rw [hclo] at this; exact this)
      obtain ⟨st', hf1, hf2⟩ := hfin
      rw [hlo] at hnb hns
      refine ⟨st', ?_, ?_⟩
      · show Range.next o st = _
        unfold Range.next; rw [hst]; simp only [↓reduceIte]
        rw [h1, hf1, hnb]
      · intro ht
        have htb : (C.advance (v + 1)).1 = true := by rw [← hnb]; exact ht
        obtain ⟨e1, e2, e3, e4, x, hcx, hCx, hr', hxs'⟩ := hf2 htb
        have hnw := (Cursor.next_spec hCw).1 ht
        refine ⟨c.next.2, by rw [e3]; exact hr', by rw [e1]; exact hdb, hnw.1, ?_, Or.inr ⟨e4, x, hcx, ?_⟩⟩
        · rw [hnw.2.1, e1, e2, hxs', hxs]
        · rw [hns ht]; exact hCx
  advance k st C h hk := by
    obtain ⟨c, hr, hdb, hCw, hxs, hcase⟩ := h
    have hcw := hr.wf
    have hCA := Cursor.advance_spec hCw k
    rcases hcase with ⟨hst, hcn, hCn⟩ | ⟨hst, v, hcv, hCv⟩
    · -- not started: `Advance(begin)` then `Advance(key)` on the child
      obtain ⟨it1, h1, h2⟩ := hr.advance st.b hdb
      have hcA := Cursor.advance_spec hcw st.b
      cases hb : (c.advance st.b).1 with
      | false =>
        -- nothing `≥ begin`: the clamped list is empty
        have hall := hcA.2 hb
        have hf : (C.advance k).1 = false := by
          cases hb' : (C.advance k).1 with
          | false => rfl
          | true =>
            obtain ⟨_, _, _, x, _, hxm, _⟩ := hCA.1 hb'
            rw [hxs, mem_rangeList] at hxm
            have := hall x hxm.1; omega
        refine ⟨{ st with it := it1, started := true }, ?_, by intro ht; rw [hf] at ht; simp at ht⟩
        show Range.advance o k st = _
        unfold Range.advance; rw [hst]; simp only [Bool.false_eq_true, ↓reduceIte]
        rw [h1, hb, hf]
      | true =>
        obtain ⟨hc1w, hc1xs, _, x1, hx1, hx1m, hbx1, _, hx1l⟩ := hcA.1 hb
        have hr1 := h2 hb
        obtain ⟨it2, h3, h4⟩ := hr1.advance k hk
        have hc2A := Cursor.advance_spec hc1w k
        -- the child ends on its least element `≥ max b k`
        have hfin := range_finish o (st := st) (C := C) (c := c) (c' := ((c.advance st.b).2.advance k).2)
          (it' := it2) (t := max st.b k) ((c.advance st.b).2.advance k).1 hCw hxs hcw (Nat.le_max_left _ _)
          (by intro v hv; rw [hCn] at hv; simp at hv)
          (by
            intro hb2
            obtain ⟨_, hx2, _, x, hx, hxm, hkx, hx1x, hleast⟩ := hc2A.1 hb2
            have hx1x' := hx1x x1 hx1
            refine ⟨h4 hb2, by rw [hx2, hc1xs], x, hx, by rw [← hc1xs]; exact hxm, by omega, ?_⟩
            intro y hy hty
            have hyb : st.b ≤ y := by omega
            have hx1y := hx1l y hy hyb (by intro v hv; rw [hcn] at hv; simp at hv)
            apply hleast y (by rw [hc1xs]; exact hy) (by omega)
            intro v hv; rw [hx1] at hv; simp at hv; omega)
          (by
            intro hb2 y hy
            have := hc2A.2 hb2 y (by rw [hc1xs]; exact hy); omega)
        obtain ⟨st', hf1, hf2⟩ := hfin
        -- on the clamped list `advance (max b k)` and `advance k` agree
        have hCAm := Cursor.advance_spec hCw (max st.b k)
        have hbool : (C.advance (max st.b k)).1 = (C.advance k).1 := by
          cases hb1 : (C.advance (max st.b k)).1 with
          | true =>
            obtain ⟨_, _, _, x, _, hxm, hx, _⟩ := hCAm.1 hb1
            cases hb2 : (C.advance k).1 with
            | true => rfl
            | false => have := hCA.2 hb2 x hxm; omega
          | false =>
            cases hb2 : (C.advance k).1 with
            | false => rfl
            | true =>
              obtain ⟨_, _, _, x, _, hxm, hkx, _⟩ := hCA.1 hb2
              have := hCAm.2 hb1 x hxm
              rw [hxs, mem_rangeList] at hxm; omega
        have hcur : (C.advance (max st.b k)).1 = true →
            (C.advance (max st.b k)).2.cur = (C.advance k).2.cur := by
          intro hb1
          obtain ⟨_, _, _, x, hx, hxm, hmx, _, hxl⟩ := hCAm.1 hb1
          obtain ⟨_, _, _, z, hz, hzm, hkz, _, hzl⟩ := hCA.1 (by rw [← hbool]; exact hb1)
          rw [hx, hz]
          have h1' := hzl x hxm (by omega) (by intro v hv; rw [hCn] at hv; simp at hv)
          have h2' := hxl z hzm (by rw [hxs, mem_rangeList] at hzm; omega)
            (by intro v hv; rw [hCn] at hv; simp at hv)
          congr 1; omega
        refine ⟨st', ?_, ?_⟩
        · show Range.advance o k st = _
          unfold Range.advance; rw [hst]; simp only [Bool.false_eq_true, ↓reduceIte]
          rw [h1, hb]; simp only
          rw [h3, hf1, hbool]
        · intro ht
          have htm : (C.advance (max st.b k)).1 = true := by rw [hbool]; exact ht
          obtain ⟨e1, e2, e3, e4, x, hcx, hCx, hr', hxs'⟩ := hf2 htm
          obtain ⟨hw', hxs'', _⟩ := hCA.1 ht
          refine ⟨((c.advance st.b).2.advance k).2, by rw [e3]; exact hr', by rw [e1]; exact hdb, hw', ?_, Or.inr ⟨e4, x, hcx, ?_⟩⟩
          · rw [hxs'', e1, e2, hxs', hxs]
          · rw [← hcur htm]; exact hCx
    · -- started: `Advance(key)` on the child
      obtain ⟨it', h1, h2⟩ := hr.advance k hk
      have hcA := Cursor.advance_spec hcw k
      have hvM : v ∈ C.xs := Cursor.cur_mem hCv
      have hvr : st.b ≤ v ∧ v < st.e := by rw [hxs, mem_rangeList] at hvM; exact hvM.2
      by_cases hkv : k ≤ v
      · -- both stay where they are
        have hCs : C.advance k = (true, C) := by unfold Cursor.advance; rw [hCv]; simp [hkv]
        have hcs : c.advance k = (true, c) := by unfold Cursor.advance; rw [hcv]; simp [hkv]
        rw [hcs] at h1 h2
        have hr' := h2 rfl
        have hval : o.value it' = some v := by rw [hr'.value (by rw [hcv]; rfl), hcv]
        refine ⟨{ st with it := it', started := true }, ?_, ?_⟩
        · show Range.advance o k st = _
          unfold Range.advance; rw [hst]; simp only [↓reduceIte]
          rw [h1, hCs]; simp [Range.finish, hval, hvr.2]
        · intro _
          rw [hCs]
          exact ⟨c, hr', hdb, hCw, hxs, Or.inr ⟨rfl, v, hcv, hCv⟩⟩
      · have hfin := range_finish o (st := st) (C := C) (c := c) (c' := (c.advance k).2) (it' := it')
          (t := k) (c.advance k).1 hCw hxs hcw (by omega)
          (by intro w hw; rw [hCv] at hw; simp at hw; omega)
          (by
            intro hb
            obtain ⟨_, hx2, _, x, hx, hxm, hkx, _, hleast⟩ := hcA.1 hb
            refine ⟨h2 hb, hx2, x, hx, hxm, hkx, ?_⟩
            intro y hy hky; apply hleast y hy hky
            intro w hw; rw [hcv] at hw; simp at hw; omega)
          (fun hb => hcA.2 hb)
        obtain ⟨st', hf1, hf2⟩ := hfin
        refine ⟨st', ?_, ?_⟩
        · show Range.advance o k st = _
          unfold Range.advance; rw [hst]; simp only [↓reduceIte]
          rw [h1, hf1]
        · intro ht
          obtain ⟨e1, e2, e3, e4, x, hcx, hCx, hr', hxs'⟩ := hf2 ht
          obtain ⟨hw', hxs'', _⟩ := hCA.1 ht
          refine ⟨(c.advance k).2, by rw [e3]; exact hr', by rw [e1]; exact hdb, hw', ?_, Or.inr ⟨e4, x, hcx, hCx⟩⟩
          rw [hxs'', e1, e2, hxs', hxs]

/-- `keyRange` over a child that refines the cursor of `xs` refines the cursor of `xs ∩ [b, e)`. -/
theorem range_refines {it : σ} {xs : List Nat} (b e : Nat) (h : Refines o it xs) (hb : o.dom b) :
    Refines (Range.ops o) ⟨it, b, e, false⟩ (rangeList b e xs) := by
  refine ⟨RangeRel o, range_simulation o, start xs, h, hb, ?_, rfl, Or.inl ⟨rfl, rfl, rfl⟩⟩
  have := h.wf
  exact rangeList_sorted this

end range

end B6.Lemmas.Search
