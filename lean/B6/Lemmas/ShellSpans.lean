import B6.Model.Shell
/-! Span invariants of the model parser (C20): every parse function returns a node whose span starts at or
after the first token it saw, nests its children, and ends before the first token it left. -/
set_option linter.unusedSimpArgs false
set_option linter.unusedVariables false
namespace B6.Lemmas.ShellSpans
open B6.Model.Shell B6.Model.FeatureID

/-- positions of a token list: every token has `b ≤ e`, and they follow one another from `lo` on -/
def Sorted : Nat → List PTok → Prop
  | _, [] => True
  | lo, t :: ts => lo ≤ t.b ∧ t.b ≤ t.e ∧ Sorted t.e ts

theorem Sorted.mono {lo lo' : Nat} {ts : List PTok} (h : Sorted lo ts) (hl : lo' ≤ lo) : Sorted lo' ts := by
  cases ts with
  | nil => trivial
  | cons t r => exact ⟨by have := h.1; omega, h.2.1, h.2.2⟩

/-- a node returned for tokens starting at `lo`, leaving `rest` -/
def SpanInv (lo : Nat) (pe : PE) (rest : List PTok) : Prop :=
  pe.nested = true ∧ lo ≤ pe.b ∧ pe.b ≤ pe.e ∧ Sorted pe.e rest

/-- a query span -/
def QInv (lo b e : Nat) (rest : List PTok) : Prop := lo ≤ b ∧ b ≤ e ∧ Sorted e rest

/-- arguments follow one another -/
def Chain : Nat → PEL → Prop
  | _, .nil => True
  | lo, .cons x xs => lo ≤ x.b ∧ x.b ≤ x.e ∧ x.nested = true ∧ Chain x.e xs

theorem PR.bind_ok {α β : Type} (r : PR α) (g : α → PR β) (x : β) (h : r.bind g = .ok x) :
    ∃ a, r = .ok a ∧ g a = .ok x := by
  cases r with
  | ok a => exact ⟨a, rfl, h⟩
  | err => simp [PR.bind] at h
  | unsupported => simp [PR.bind] at h
  | fuel => simp [PR.bind] at h

theorem lastEnd_indep : ∀ (ys : PEL) (y : PE) (d d' : Nat),
    (PEL.cons y ys).lastEnd d = (PEL.cons y ys).lastEnd d'
  | .nil, _, _, _ => rfl
  | .cons z zs, y, d, d' => by simp only [PEL.lastEnd]; exact lastEnd_indep zs z d d'

theorem chain_lastEnd : ∀ (args : PEL) (lo : Nat), Chain lo args → lo ≤ args.lastEnd lo
  | .nil, _, _ => Nat.le_refl _
  | .cons x .nil, lo, h => by simp only [PEL.lastEnd]; have := h.1; have := h.2.1; omega
  | .cons x (.cons y ys), lo, h => by
    have h2 := chain_lastEnd (.cons y ys) x.e h.2.2.2
    have e1 : (PEL.cons x (.cons y ys)).lastEnd lo = (PEL.cons y ys).lastEnd lo := by simp only [PEL.lastEnd]
    rw [e1, lastEnd_indep ys y lo x.e]
    have := h.1; have := h.2.1; omega

/-- chained arguments all lie between `b` and the end of the last one -/
theorem chain_nestedIn : ∀ (args : PEL) (lo b hi : Nat), Chain lo args → b ≤ lo → args.lastEnd lo ≤ hi →
    args.nestedIn b hi = true
  | .nil, _, _, _, _, _, _ => rfl
  | .cons x .nil, lo, b, hi, h, hb, hh => by
    simp only [PEL.lastEnd] at hh
    simp only [PEL.nestedIn, h.2.2.1, Bool.and_true, Bool.and_eq_true, decide_eq_true_eq]
    have := h.1; omega
  | .cons x (.cons y ys), lo, b, hi, h, hb, hh => by
    have e1 : (PEL.cons x (.cons y ys)).lastEnd lo = (PEL.cons y ys).lastEnd x.e := by
      simp only [PEL.lastEnd]; exact lastEnd_indep ys y lo x.e
    rw [e1] at hh
    have hle := chain_lastEnd (.cons y ys) x.e h.2.2.2
    have ih := chain_nestedIn (.cons y ys) x.e b hi h.2.2.2 (by have := h.1; have := h.2.1; omega) hh
    simp only [PEL.nestedIn, h.2.2.1, Bool.and_true, Bool.and_eq_true, decide_eq_true_eq] at ih ⊢
    have := h.1
    exact ⟨⟨by omega, by omega⟩, ih⟩

/-! ## queries and lambda parameters -/

theorem q_spans : ∀ (F : Nat),
    (∀ lo ts q b e rest, Sorted lo ts → parseQFirst F ts = .ok ((q, b, e), rest) → QInv lo b e rest) ∧
    (∀ lo ts q b e rest, Sorted lo ts → parseQE F ts = .ok ((q, b, e), rest) → QInv lo b e rest) := by
  intro F
  induction F with
  | zero => constructor <;> (intro lo ts q b e rest _ h; simp [parseQFirst, parseQE] at h)
  | succ F ih =>
    have first : ∀ lo ts q b e rest, Sorted lo ts → parseQFirst (F + 1) ts = .ok ((q, b, e), rest) →
        QInv lo b e rest := by
      intro lo ts q b e rest hs h
      simp only [parseQFirst] at h
      split at h
      · obtain ⟨⟨⟨q', b', e'⟩, r⟩, h1, h2⟩ := PR.bind_ok _ _ _ h
        simp only at h2
        split at h2
        · simp only [PR.ok.injEq, Prod.mk.injEq] at h2
          obtain ⟨⟨rfl, rfl, rfl⟩, rfl⟩ := h2
          obtain ⟨h3, h4, h6⟩ := ih.2 _ _ _ _ _ _ hs.2.2 h1
          exact ⟨by have := hs.1; have := hs.2.1; omega, h4, h6.2.2.mono h6.2.1 |>.mono h6.1⟩
        · simp at h2
      · split at h
        · simp only [PR.ok.injEq, Prod.mk.injEq] at h
          obtain ⟨⟨rfl, rfl, rfl⟩, rfl⟩ := h
          simp only [Sorted] at hs
          exact ⟨hs.1, by omega, hs.2.2.2.2.2.2⟩
        · simp at h
      · split at h
        · simp only [PR.ok.injEq, Prod.mk.injEq] at h
          obtain ⟨⟨rfl, rfl, rfl⟩, rfl⟩ := h
          simp only [Sorted] at hs
          exact ⟨hs.1, by omega, hs.2.2.2.2.2.2⟩
        · simp at h
      · simp only [PR.ok.injEq, Prod.mk.injEq] at h
        obtain ⟨⟨rfl, rfl, rfl⟩, rfl⟩ := h
        exact ⟨hs.1, hs.2.1, hs.2.2⟩
      · simp only [PR.ok.injEq, Prod.mk.injEq] at h
        obtain ⟨⟨rfl, rfl, rfl⟩, rfl⟩ := h
        exact ⟨hs.1, hs.2.1, hs.2.2⟩
      · simp at h
    refine ⟨first, ?_⟩
    intro lo ts q b e rest hs h
    simp only [parseQE] at h
    obtain ⟨⟨⟨q1, b1, e1⟩, r⟩, h1, h2⟩ := PR.bind_ok _ _ _ h
    have hq := ih.1 _ _ _ _ _ _ hs h1
    simp only at h2
    split at h2
    · obtain ⟨⟨⟨q2, b2, e2⟩, r2⟩, h3, h4⟩ := PR.bind_ok _ _ _ h2
      simp only [PR.ok.injEq, Prod.mk.injEq] at h4
      obtain ⟨⟨rfl, rfl, rfl⟩, rfl⟩ := h4
      have hs2 := hq.2.2
      simp only [Sorted] at hs2
      have hq2 := ih.2 _ _ _ _ _ _ hs2.2.2 h3
      exact ⟨hq.1, by have := hq.2.1; have := hq2.1; have := hq2.2.1; omega, hq2.2.2⟩
    · obtain ⟨⟨⟨q2, b2, e2⟩, r2⟩, h3, h4⟩ := PR.bind_ok _ _ _ h2
      simp only [PR.ok.injEq, Prod.mk.injEq] at h4
      obtain ⟨⟨rfl, rfl, rfl⟩, rfl⟩ := h4
      have hs2 := hq.2.2
      simp only [Sorted] at hs2
      have hq2 := ih.2 _ _ _ _ _ _ hs2.2.2 h3
      exact ⟨hq.1, by have := hq.2.1; have := hq2.1; have := hq2.2.1; omega, hq2.2.2⟩
    · simp only [PR.ok.injEq, Prod.mk.injEq] at h2
      obtain ⟨⟨rfl, rfl, rfl⟩, rfl⟩ := h2
      exact hq

/-- the parameters of a lambda: the position of the first one, and the rest starts after it -/
theorem symbols_spans : ∀ (F : Nat) (lo : Nat) (ts : List PTok) (ps : List Bytes) (b : Nat) (rest : List PTok),
    Sorted lo ts → parseSymbols F ts = .ok (ps, b, rest) → lo ≤ b ∧ Sorted b rest := by
  intro F
  induction F with
  | zero => intro lo ts ps b rest _ h; simp [parseSymbols] at h
  | succ F ih =>
    intro lo ts ps b rest hs h
    simp only [parseSymbols] at h
    split at h
    · obtain ⟨⟨ss, b', r⟩, h1, h2⟩ := PR.bind_ok _ _ _ h
      simp only [PR.ok.injEq, Prod.mk.injEq] at h2
      obtain ⟨rfl, rfl, rfl⟩ := h2
      simp only [Sorted] at hs
      have := ih _ _ _ _ _ hs.2.2.2.2 h1
      exact ⟨hs.1, this.2.mono (by have := this.1; omega)⟩
    · simp only [PR.ok.injEq, Prod.mk.injEq] at h
      obtain ⟨rfl, rfl, rfl⟩ := h
      simp only [Sorted] at hs
      exact ⟨hs.1, hs.2.2.mono hs.2.1⟩
    · simp at h

/-! ## expressions -/

@[simp] theorem PE.b_mk (k : PK) (b e : Nat) : (PE.mk k b e).b = b := rfl
@[simp] theorem PE.e_mk (k : PK) (b e : Nat) : (PE.mk k b e).e = e := rfl


theorem leaf1 (lo : Nat) (k : PK) (hk : ∀ b e, k.nestedIn b e = true) (tok : Tok) (b e : Nat) (rest : List PTok)
    (hs : Sorted lo (⟨tok, b, e⟩ :: rest)) : SpanInv lo (.mk k b e) rest := by
  simp only [Sorted] at hs
  exact ⟨by simp [PE.nested, hk, hs.2.1], hs.1, hs.2.1, hs.2.2⟩

theorem leaf3 (lo : Nat) (k : PK) (hk : ∀ b e, k.nestedIn b e = true) (t1 t2 t3 : Tok) (b1 e1 b2 e2 b3 e3 : Nat)
    (rest : List PTok) (hs : Sorted lo (⟨t1, b1, e1⟩ :: ⟨t2, b2, e2⟩ :: ⟨t3, b3, e3⟩ :: rest)) :
    SpanInv lo (.mk k b1 e3) rest := by
  simp only [Sorted] at hs
  have hle : b1 ≤ e3 := by omega
  exact ⟨by simp [PE.nested, hk, hle], hs.1, hle, hs.2.2.2.2.2.2⟩

/-- the result of the pipeline loop contains the tree it started from -/
theorem pipeLoop_noPoint : ∀ (F : Nat) (left : PE) (ts : List PTok) (pe : PE) (rest : List PTok),
    pipeLoop F left ts = .ok (pe, rest) → pe.noPoint = true → left.noPoint = true := by
  intro F
  induction F with
  | zero => intro left ts pe rest h; simp [pipeLoop] at h
  | succ F ih =>
    intro left ts pe rest h hnp
    simp only [pipeLoop] at h
    split at h
    · obtain ⟨⟨right, r⟩, h1, h2⟩ := PR.bind_ok _ _ _ h
      have := ih _ _ _ _ h2 hnp
      simp only [mkPipe, PE.noPoint, PK.noPoint, PEL.noPoint, Bool.and_true, Bool.and_eq_true] at this
      exact this.2
    · simp only [PR.ok.injEq, Prod.mk.injEq] at h; obtain ⟨rfl, rfl⟩ := h
      exact hnp

theorem spans : ∀ (F : Nat),
    (∀ lo ts pe rest, Sorted lo ts → parsePipeline F ts = .ok (pe, rest) → pe.noPoint = true → SpanInv lo pe rest) ∧
    (∀ lo left ts pe rest, PE.nested left = true → lo ≤ left.b → left.b ≤ left.e → Sorted left.e ts →
        pipeLoop F left ts = .ok (pe, rest) → pe.noPoint = true → SpanInv lo pe rest) ∧
    (∀ lo ts pe rest, Sorted lo ts → parseCall F ts = .ok (pe, rest) → pe.noPoint = true → SpanInv lo pe rest) ∧
    (∀ lo ts pels rest, Sorted lo ts → parseArgs F ts = .ok (pels, rest) → pels.noPoint = true →
        Chain lo pels ∧ Sorted (pels.lastEnd lo) rest) ∧
    (∀ lo ts pe rest, Sorted lo ts → parseArg F ts = .ok (pe, rest) → pe.noPoint = true → SpanInv lo pe rest) ∧
    (∀ lo ts pe rest, Sorted lo ts → parseExpr F ts = .ok (pe, rest) → pe.noPoint = true → SpanInv lo pe rest) := by
  intro F
  induction F with
  | zero =>
    refine ⟨?_, ?_, ?_, ?_, ?_, ?_⟩ <;> intros <;> simp_all [parsePipeline, pipeLoop, parseCall, parseArgs, parseArg, parseExpr]
  | succ F ih =>
    obtain ⟨ihP, ihL, ihC, ihAs, ihA, ihE⟩ := ih
    -- a call headed by a symbol
    have callSym : ∀ lo s b e ts pe rest, Sorted lo (⟨.sym s, b, e⟩ :: ts) →
        ((parseArgs F ts).bind fun (args, r) => PR.ok (mkCall s b e args, r)) = .ok (pe, rest) →
        pe.noPoint = true → SpanInv lo pe rest := by
      intro lo s b e ts pe rest hs h hnp
      obtain ⟨⟨args, r⟩, h1, h2⟩ := PR.bind_ok _ _ _ h
      simp only [PR.ok.injEq, Prod.mk.injEq] at h2
      obtain ⟨rfl, rfl⟩ := h2
      simp only [Sorted] at hs
      have hnpa : args.noPoint = true := by
        simpa only [mkCall, PE.noPoint, PK.noPoint, Bool.true_and] using hnp
      obtain ⟨hc, hr⟩ := ihAs e ts args r hs.2.2 h1 hnpa
      have hle := chain_lastEnd args e hc
      have hn := chain_nestedIn args e b (args.lastEnd e) hc hs.2.1 (Nat.le_refl _)
      refine ⟨?_, hs.1, by simp only [mkCall, PE.b_mk, PE.e_mk]; omega, hr⟩
      have h1' : b ≤ args.lastEnd e := by omega
      simp [mkCall, PE.nested, PK.nestedIn, hn, h1', hle, hs.2.1]
    -- `expression`
    have hE : ∀ lo ts pe rest, Sorted lo ts → parseExpr (F + 1) ts = .ok (pe, rest) → pe.noPoint = true →
        SpanInv lo pe rest := by
      intro lo ts pe rest hs h hnp
      simp only [parseExpr] at h
      split at h
      · -- a lat,lng literal: excluded
        simp only [PR.ok.injEq, Prod.mk.injEq] at h; obtain ⟨rfl, rfl⟩ := h
        simp [PE.noPoint, PK.noPoint] at hnp
      · simp at h
      · simp only [PR.ok.injEq, Prod.mk.injEq] at h; obtain ⟨rfl, rfl⟩ := h
        exact leaf1 lo _ (fun _ _ => rfl) _ _ _ _ hs
      · simp only [PR.ok.injEq, Prod.mk.injEq] at h; obtain ⟨rfl, rfl⟩ := h
        exact leaf1 lo _ (fun _ _ => rfl) _ _ _ _ hs
      · simp only [PR.ok.injEq, Prod.mk.injEq] at h; obtain ⟨rfl, rfl⟩ := h
        exact leaf1 lo _ (fun _ _ => rfl) _ _ _ _ hs
      · simp only [PR.ok.injEq, Prod.mk.injEq] at h; obtain ⟨rfl, rfl⟩ := h
        exact leaf1 lo _ (fun _ _ => rfl) _ _ _ _ hs
      · split at h
        · simp only [PR.ok.injEq, Prod.mk.injEq] at h; obtain ⟨rfl, rfl⟩ := h
          exact leaf3 lo _ (fun _ _ => rfl) _ _ _ _ _ _ _ _ _ _ hs
        · simp at h
      · split at h
        · simp only [PR.ok.injEq, Prod.mk.injEq] at h; obtain ⟨rfl, rfl⟩ := h
          exact leaf3 lo _ (fun _ _ => rfl) _ _ _ _ _ _ _ _ _ _ hs
        · simp at h
      · -- group
        obtain ⟨⟨inner, r⟩, h1, h2⟩ := PR.bind_ok _ _ _ h
        simp only at h2
        split at h2
        · simp only [PR.ok.injEq, Prod.mk.injEq] at h2; obtain ⟨rfl, rfl⟩ := h2
          simp only [Sorted] at hs
          obtain ⟨hn, hb, hbe, hr⟩ := ihP _ _ _ _ hs.2.2 h1 hnp
          simp only [Sorted] at hr
          exact ⟨hn, by omega, hbe, hr.2.2.mono (by omega)⟩
        · simp at h2
      · -- lambda without parameters
        obtain ⟨⟨body, r⟩, h1, h2⟩ := PR.bind_ok _ _ _ h
        simp only at h2
        split at h2
        · simp only [PR.ok.injEq, Prod.mk.injEq] at h2; obtain ⟨rfl, rfl⟩ := h2
          simp only [Sorted] at hs
          have hnpb : body.noPoint = true := by simpa only [PE.noPoint, PK.noPoint] using hnp
          obtain ⟨hn, hb, hbe, hr⟩ := ihP _ _ _ _ hs.2.2.2.2 h1 hnpb
          simp only [Sorted] at hr
          refine ⟨?_, by simp only [PE.b_mk]; omega, by simp only [PE.b_mk, PE.e_mk]; exact hbe, ?_⟩
          · simp [PE.nested, PK.nestedIn, hn, hbe]
          · simp only [PE.e_mk]; exact hr.2.2.mono (by omega)
        · simp at h2
      · simp at h
      · -- lambda with parameters
        obtain ⟨⟨ps, b, r⟩, h1, h2⟩ := PR.bind_ok _ _ _ h
        simp only at h2
        split at h2
        · obtain ⟨⟨body, r2⟩, h3, h4⟩ := PR.bind_ok _ _ _ h2
          simp only at h4
          split at h4
          · simp only [PR.ok.injEq, Prod.mk.injEq] at h4; obtain ⟨rfl, rfl⟩ := h4
            have hs' := hs
            simp only [Sorted] at hs
            obtain ⟨hb1, hsr⟩ := symbols_spans F _ _ _ _ _ hs'.2.2 h1
            simp only at hb1
            simp only [Sorted] at hsr
            have hnpb : body.noPoint = true := by simpa only [PE.noPoint, PK.noPoint] using hnp
            obtain ⟨hn, hb, hbe, hr⟩ := ihP _ _ _ _ hsr.2.2 h3 hnpb
            simp only [Sorted] at hr
            have hx1 : b ≤ body.e := by omega
            have hx2 : b ≤ body.b := by omega
            refine ⟨?_, by simp only [PE.b_mk]; omega, by simp only [PE.b_mk, PE.e_mk]; omega, ?_⟩
            · simp [PE.nested, PK.nestedIn, hn, hx1, hx2]
            · simp only [PE.e_mk]; exact hr.2.2.mono (by omega)
          · simp at h4
        · simp at h2
      · split at h <;> simp at h
      · simp at h
      · -- query literal
        obtain ⟨⟨⟨q, b, e⟩, r⟩, h1, h2⟩ := PR.bind_ok _ _ _ h
        simp only at h2
        split at h2
        · simp only [PR.ok.injEq, Prod.mk.injEq] at h2; obtain ⟨rfl, rfl⟩ := h2
          simp only [Sorted] at hs
          obtain ⟨hb, hbe, hr⟩ := (q_spans F).2 _ _ _ _ _ _ hs.2.2 h1
          simp only [Sorted] at hr
          exact ⟨by simp [PE.nested, PK.nestedIn, hbe],
            by simp only [PE.b_mk]; omega, hbe, hr.2.2.mono (by simp only [PE.e_mk]; omega)⟩
        · simp at h2
      · simp at h
    -- `arg` and `call`
    have hA : ∀ lo ts pe rest, Sorted lo ts → parseArg (F + 1) ts = .ok (pe, rest) → pe.noPoint = true →
        SpanInv lo pe rest := by
      intro lo ts pe rest hs h hnp
      simp only [parseArg] at h
      split at h
      · exact ihE _ _ _ _ hs h hnp
      · simp only [PR.ok.injEq, Prod.mk.injEq] at h; obtain ⟨rfl, rfl⟩ := h
        exact leaf1 lo _ (fun _ _ => rfl) _ _ _ _ hs
      · exact ihE _ _ _ _ hs h hnp
    have hC : ∀ lo ts pe rest, Sorted lo ts → parseCall (F + 1) ts = .ok (pe, rest) → pe.noPoint = true →
        SpanInv lo pe rest := by
      intro lo ts pe rest hs h hnp
      simp only [parseCall] at h
      split at h
      · exact ihE _ _ _ _ hs h hnp
      · exact callSym _ _ _ _ _ _ _ hs h hnp
      · exact ihE _ _ _ _ hs h hnp
    have hAs : ∀ lo ts pels rest, Sorted lo ts → parseArgs (F + 1) ts = .ok (pels, rest) → pels.noPoint = true →
        Chain lo pels ∧ Sorted (pels.lastEnd lo) rest := by
      intro lo ts pels rest hs h hnp
      simp only [parseArgs] at h
      split at h
      · simp only [PR.ok.injEq, Prod.mk.injEq] at h; obtain ⟨rfl, rfl⟩ := h
        exact ⟨trivial, trivial⟩
      · split at h
        · obtain ⟨⟨a, r⟩, h1, h2⟩ := PR.bind_ok _ _ _ h
          obtain ⟨⟨as, r'⟩, h3, h4⟩ := PR.bind_ok _ _ _ h2
          simp only [PR.ok.injEq, Prod.mk.injEq] at h4; obtain ⟨rfl, rfl⟩ := h4
          simp only [PEL.noPoint, Bool.and_eq_true] at hnp
          obtain ⟨hn, hb, hbe, hr⟩ := ihA _ _ _ _ hs h1 hnp.1
          obtain ⟨hc, hr'⟩ := ihAs _ _ _ _ hr h3 hnp.2
          refine ⟨⟨hb, hbe, hn, hc⟩, ?_⟩
          cases as with
          | nil => simpa only [PEL.lastEnd] using hr'
          | cons y ys =>
            simp only [PEL.lastEnd]
            rw [lastEnd_indep ys y lo a.e]
            exact hr'
        · simp only [PR.ok.injEq, Prod.mk.injEq] at h; obtain ⟨rfl, rfl⟩ := h
          exact ⟨trivial, hs⟩
    -- the pipeline loop
    have hL : ∀ lo left ts pe rest, PE.nested left = true → lo ≤ left.b → left.b ≤ left.e → Sorted left.e ts →
        pipeLoop (F + 1) left ts = .ok (pe, rest) → pe.noPoint = true → SpanInv lo pe rest := by
      intro lo left ts pe rest hn hb hbe hs h hnp
      simp only [pipeLoop] at h
      split at h
      · obtain ⟨⟨right, r⟩, h1, h2⟩ := PR.bind_ok _ _ _ h
        simp only [Sorted] at hs
        have hnpr : right.noPoint = true := by
          have := pipeLoop_noPoint F _ _ _ _ h2 hnp
          simp only [mkPipe, PE.noPoint, PK.noPoint, PEL.noPoint, Bool.and_true, Bool.and_eq_true] at this
          exact this.1
        obtain ⟨hn2, hb2, hbe2, hr2⟩ := ihC _ _ _ _ hs.2.2 h1 hnpr
        refine ihL lo (mkPipe left right) r pe rest ?_ (by simpa only [mkPipe, PE.b_mk] using hb)
          (by simp only [mkPipe, PE.b_mk, PE.e_mk]; omega) (by simpa only [mkPipe, PE.e_mk] using hr2) h2 hnp
        have hy1 : left.b ≤ right.e := by omega
        have hy2 : left.b ≤ right.b := by omega
        have hy3 : left.e ≤ right.e := by omega
        simp [mkPipe, PE.nested, PK.nestedIn, PEL.nestedIn, hn, hn2, hy1, hy2, hy3]
      · simp only [PR.ok.injEq, Prod.mk.injEq] at h; obtain ⟨rfl, rfl⟩ := h
        exact ⟨hn, hb, hbe, hs⟩
    refine ⟨?_, hL, hC, hAs, hA, hE⟩
    intro lo ts pe rest hs h hnp
    simp only [parsePipeline] at h
    obtain ⟨⟨c, r⟩, h1, h2⟩ := PR.bind_ok _ _ _ h
    obtain ⟨hn, hb, hbe, hr⟩ := ihC _ _ _ _ hs h1 (pipeLoop_noPoint F _ _ _ _ h2 hnp)
    exact ihL lo c r pe rest hn hb hbe hr h2 hnp

end B6.Lemmas.ShellSpans
