import B6.Lemmas.Collections
import B6.Lemmas.DijkstraHeap
/-!
# `goHeap` (the exact port of container/heap used by `top`) satisfies the priority-queue law

The sift lemmas are not re-proved: `Lemmas/DijkstraHeap.lean` (property C30) proves `up_spec`, `down_spec`,
`root_min` for the `container/heap` model of `Model/Dijkstra.lean`, which orders queue entries by the
distance a table assigns to them.  Here the queue entries are the items themselves, the table assigns each item
its numeric value, the two ports are shown to compute the same arrays (`up_eq`, `down_eq`), and multiset
preservation is proved directly from `Array.swap_perm`.  Result: `goHeapLaw : PQLaw goHeap`, so `top_spec`
holds for the heap the driver runs without assuming container/heap's contract.
-/
set_option linter.unusedVariables false
namespace B6.Lemmas.CollectionsHeap
open B6.Model.Collections B6.Lemmas.Collections
open B6.Model.Dijkstra hiding Step
open B6.Lemmas.DijkstraHeap

/-- `Less` compares ints / float codes as integers -/
local instance costInt : Cost Int := { zero := 0, decLt := fun a b => Int.decLt a b }

local instance : LawfulCost Int where
  le_refl := Int.le_refl
  le_trans := Int.le_trans
  le_total := Int.le_total
  lt_iff_not_le := by intro a b; exact Int.not_le.symm
  add_le_add_right := by intro a b w h; exact Int.add_le_add_right h w
  le_add_of_nonneg := by intro a w h; have : (0 : Int) ≤ w := h; omega

def num (it : Item) : Int := (valNum it.2).getD 0

abbrev T := Table Item Unit Int

/-- the table that gives every item its own value as "distance" -/
def tbl (l : List Item) : T := l.map fun it => (it, ⟨false, num it, none⟩)

def GoodTbl (t : T) : Prop := ∀ it e, tget t it = some e → e.dist = num it

theorem goodTbl_tbl : ∀ l, GoodTbl (tbl l) := by
  intro l
  induction l with
  | nil => intro it e h; simp [tbl, tget] at h
  | cons x xs ih =>
    intro it e h
    simp only [tbl, List.map_cons, tget] at h
    by_cases hx : x = it
    · simp only [hx, if_true, Option.some.injEq] at h; rw [← h]
    · simp only [hx, if_false] at h; exact ih it e h

theorem tget_tbl_mem : ∀ (l : List Item) (it : Item), it ∈ l → ∃ e, tget (tbl l) it = some e := by
  intro l
  induction l with
  | nil => intro it h; cases h
  | cons x xs ih =>
    intro it h
    simp only [tbl, List.map_cons, tget]
    by_cases hx : x = it
    · simp [hx]
    · simp only [hx, if_false]
      rcases List.mem_cons.mp h with e | e
      · exact absurd e.symm hx
      · exact ih it e

def AllNum (h : Array Item) : Prop := ∀ (k : Nat) (x : Item), h[k]? = some x → Numeric x

theorem itemLess_num {a b : Item} (ha : Numeric a) (hb : Numeric b) : itemLess a b = decide (num a < num b) := by
  unfold Numeric at ha hb
  unfold itemLess num
  cases hva : valNum a.2 with
  | none => simp [hva] at ha
  | some x =>
    cases hvb : valNum b.2 with
    | none => simp [hvb] at hb
    | some y => simp

theorem mem_of_getElem? {h : Array Item} {k : Nat} {x : Item} (hk : h[k]? = some x) : x ∈ h.toList := by
  obtain ⟨hlt, he⟩ := Array.getElem?_eq_some_iff.mp hk
  rw [← he]; simp

theorem allIn_tbl {h : Array Item} {l : List Item} (hsub : ∀ x ∈ h.toList, x ∈ l) : AllIn (tbl l) h := by
  intro k p hk
  exact tget_tbl_mem l p (hsub p (mem_of_getElem? hk))

/-! ### the two ports compute the same arrays -/

theorem less_inv {t : T} {h : Array Item} {i j : Nat} {lt : Bool} (hg : GoodTbl t)
    (hl : Heap.less t h i j = some lt) :
    ∃ a b, h[i]? = some a ∧ h[j]? = some b ∧ lt = decide (num a < num b) := by
  unfold Heap.less at hl
  cases ha : h[i]? with
  | none => simp [ha] at hl
  | some a =>
    cases hb : h[j]? with
    | none => simp [ha, hb] at hl
    | some b =>
      cases hea : tget t a with
      | none => simp [ha, hb, hea] at hl
      | some ea =>
        cases heb : tget t b with
        | none => simp [ha, hb, hea, heb] at hl
        | some eb =>
          simp [ha, hb, hea, heb] at hl
          refine ⟨a, b, rfl, rfl, ?_⟩
          rw [← hl, hg a ea hea, hg b eb heb]

theorem swap_eq_aswap {h : Array Item} {i j : Nat} {h' : Array Item} (hs : Heap.swap h i j = some h') :
    aswap h i j = h' := by
  unfold Heap.swap at hs
  unfold aswap
  cases ha : h[i]? with
  | none => simp [ha] at hs
  | some a =>
    cases hb : h[j]? with
    | none => simp [ha, hb] at hs
    | some b => simp [ha, hb] at hs; simp [hs]

theorem allNum_swap {h h' : Array Item} {i j : Nat} (hs : Heap.swap h i j = some h') (hn : AllNum h) :
    AllNum h' := by
  cases ha : h[i]? with
  | none => simp [Heap.swap, ha] at hs
  | some a =>
    cases hb : h[j]? with
    | none => simp [Heap.swap, ha, hb] at hs
    | some b =>
      obtain ⟨h2, e2, _, hk⟩ := swap_spec ha hb
      have : h2 = h' := by rw [hs] at e2; exact (Option.some.inj e2).symm
      subst this
      intro k x hx
      rw [hk k] at hx
      exact hn _ x hx

theorem aless_of {h : Array Item} {i j : Nat} {a b : Item} (ha : h[i]? = some a) (hb : h[j]? = some b)
    (hn : AllNum h) : aless h i j = decide (num a < num b) := by
  unfold aless
  simp only [ha, hb]
  exact itemLess_num (hn i a ha) (hn j b hb)

theorem up_eq {t : T} (hg : GoodTbl t) : ∀ (fuel : Nat) (h : Array Item) (j : Nat) (h' : Array Item),
    AllNum h → Heap.up t fuel h j = some h' → heapUp fuel h j = h' := by
  intro fuel
  induction fuel with
  | zero => intro h j h' _ hu; simp [Heap.up] at hu
  | succ fuel ih =>
    intro h j h' hn hu
    simp only [Heap.up] at hu
    by_cases hj : j = 0
    · subst hj
      simp only [if_true, Option.some.injEq] at hu
      simp [heapUp, hu]
    · simp only [hj, if_false] at hu
      have hij : ¬ (j - 1) / 2 = j := by omega
      cases hl : Heap.less t h j ((j - 1) / 2) with
      | none => simp [hl] at hu
      | some lt =>
        obtain ⟨a, b, ha, hb, hlt⟩ := less_inv hg hl
        have hal := aless_of ha hb hn
        simp only [hl, Option.bind_eq_bind, Option.bind_some] at hu
        cases lt with
        | false =>
          simp at hu
          have : aless h j ((j - 1) / 2) = false := by rw [hal, ← hlt]
          subst hu
          simp [heapUp, hij, this]
        | true =>
          simp at hu
          have hat : aless h j ((j - 1) / 2) = true := by rw [hal, ← hlt]
          cases hs : Heap.swap h ((j - 1) / 2) j with
          | none => simp [hs] at hu
          | some h2 =>
            simp only [hs, Option.bind_some] at hu
            have := ih h2 ((j - 1) / 2) h' (allNum_swap hs hn) hu
            simp only [heapUp, hij, hat, Bool.not_true, Bool.or_false, decide_false, Bool.false_eq_true,
              if_false, swap_eq_aswap hs]
            exact this

theorem down_eq {t : T} (hg : GoodTbl t) : ∀ (fuel : Nat) (h : Array Item) (i n : Nat)
    (r : Array Item × Nat), AllNum h → Heap.down t fuel h i n = some r → heapDown fuel h i n = r.1 := by
  intro fuel
  induction fuel with
  | zero => intro h i n r _ hd; simp [Heap.down] at hd
  | succ fuel ih =>
    intro h i n r hn hd
    simp only [Heap.down] at hd
    by_cases hge : 2 * i + 1 ≥ n
    · simp only [hge, if_true, Option.some.injEq] at hd
      simp [heapDown, hge, ← hd]
    · simp only [hge, if_false] at hd
      -- the child picked
      have hpick : ∀ j, Heap.pickChild t h (2 * i + 1) n = some j →
          j = (if 2 * i + 1 + 1 < n && aless h (2 * i + 1 + 1) (2 * i + 1) then 2 * i + 1 + 1 else 2 * i + 1) := by
        intro j hp
        unfold Heap.pickChild at hp
        by_cases h2 : 2 * i + 1 + 1 < n
        · simp only [h2, if_true] at hp
          cases hl : Heap.less t h (2 * i + 1 + 1) (2 * i + 1) with
          | none => simp [hl] at hp
          | some p2 =>
            obtain ⟨a, b, ha, hb, hlt⟩ := less_inv hg hl
            have hal := aless_of ha hb hn
            simp only [hl, Option.some.injEq] at hp
            rw [hal, ← hlt, ← hp]
            cases p2 <;> simp [h2]
        · simp only [h2, if_false, Option.some.injEq] at hp
          simp [h2, ← hp]
      cases hp : Heap.pickChild t h (2 * i + 1) n with
      | none => simp [hp] at hd
      | some j =>
        have hj := hpick j hp
        simp only [hp] at hd
        cases hl : Heap.less t h j i with
        | none => simp [hl] at hd
        | some lt =>
          obtain ⟨a, b, ha, hb, hlt⟩ := less_inv hg hl
          have hal := aless_of ha hb hn
          simp only [hl] at hd
          cases lt with
          | false =>
            simp at hd
            have : aless h j i = false := by rw [hal, ← hlt]
            rw [hj] at this
            simp only [heapDown, hge, if_false, this]
            simp [← hd]
          | true =>
            simp at hd
            have hat : aless h j i = true := by rw [hal, ← hlt]
            cases hs : Heap.swap h i j with
            | none => simp [hs] at hd
            | some h2 =>
              simp only [hs] at hd
              have := ih h2 j n r (allNum_swap hs hn) hd
              have hat' := hat
              rw [hj] at hat'
              simp only [heapDown, hge, if_false, hat', Bool.not_true, Bool.false_eq_true]
              rw [← hj, swap_eq_aswap hs]
              exact this

/-! ### multiset preservation (directly, from `Array.swap_perm`) -/

theorem aswap_perm (h : Array Item) (i j : Nat) : (aswap h i j).toList.Perm h.toList := by
  unfold aswap
  cases ha : h[i]? with
  | none => exact List.Perm.refl _
  | some a =>
    cases hb : h[j]? with
    | none => exact List.Perm.refl _
    | some b =>
      obtain ⟨hi, ea⟩ := Array.getElem?_eq_some_iff.mp ha
      obtain ⟨hj, eb⟩ := Array.getElem?_eq_some_iff.mp hb
      have e : (h.setIfInBounds i b).setIfInBounds j a = h.swap i j hi hj := by
        simp [Array.swap_def, Array.setIfInBounds, hi, hj, ea, eb]
      simp only [e]
      exact Array.perm_iff_toList_perm.mp (Array.swap_perm hi hj)

theorem heapUp_perm : ∀ (fuel : Nat) (h : Array Item) (j : Nat), (heapUp fuel h j).toList.Perm h.toList := by
  intro fuel
  induction fuel with
  | zero => intro h j; exact List.Perm.refl _
  | succ fuel ih =>
    intro h j
    simp only [heapUp]
    split
    · exact List.Perm.refl _
    · exact (ih _ _).trans (aswap_perm h _ _)

theorem heapDown_perm : ∀ (fuel : Nat) (h : Array Item) (i n : Nat),
    (heapDown fuel h i n).toList.Perm h.toList := by
  intro fuel
  induction fuel with
  | zero => intro h i n; exact List.Perm.refl _
  | succ fuel ih =>
    intro h i n
    simp only [heapDown]
    repeat' split
    all_goals first | exact List.Perm.refl _ | exact (ih _ _ _).trans (aswap_perm h _ _)

/-! ### heap order, table-free -/

/-- no entry is `Less` than its parent -/
def HeapOrd (h : Array Item) : Prop :=
  ∀ (k : Nat) (pa pb : Item), 0 < k → h[par k]? = some pa → h[k]? = some pb → ¬ num pb < num pa

theorem ord_of_heapOrd {t : T} (hg : GoodTbl t) {h : Array Item} (ho : HeapOrd h) (n : Nat) : Ord t h n := by
  intro k hk _ pa pb ha hb ep eq hep heq
  rw [hg pa ep hep, hg pb eq heq]
  exact ho k pa pb hk ha hb

theorem heapOrd_of_ord {t : T} (hg : GoodTbl t) {h h2 : Array Item} {n : Nat} (hall : AllIn t h)
    (ho : Ord t h n) (hsz : h2.size = n) (hpre : ∀ k, k < n → h2[k]? = h[k]?) : HeapOrd h2 := by
  intro k pa pb hk ha hb
  have hkn : k < n := by rw [← hsz]; exact lt_size_of_some hb
  have hpn : par k < n := by unfold par; omega
  rw [hpre k hkn] at hb
  rw [hpre (par k) hpn] at ha
  obtain ⟨ea, hea⟩ := hall _ _ ha
  obtain ⟨eb, heb⟩ := hall _ _ hb
  have := ho k hk hkn pa pb ha hb ea eb hea heb
  rw [hg pa ea hea, hg pb eb heb] at this
  exact this

theorem allNum_of_list {h : Array Item} (hn : ∀ y ∈ h.toList, Numeric y) : AllNum h :=
  fun k x hk => hn x (mem_of_getElem? hk)

/-! ### the law -/

theorem heapPush_spec (q : Array Item) (x : Item) (hq : HeapOrd q) (hx : Numeric x)
    (hn : ∀ y ∈ q.toList, Numeric y) :
    HeapOrd (heapPush q x) ∧ (heapPush q x).toList.Perm (x :: q.toList) := by
  have hperm : (heapPush q x).toList.Perm (x :: q.toList) := by
    unfold heapPush
    refine (heapUp_perm _ _ _).trans ?_
    simp only [Array.toList_push]
    simpa using (List.perm_append_comm (l₁ := q.toList) (l₂ := [x]))
  refine ⟨?_, hperm⟩
  let h1 := q.push x
  let t : T := tbl h1.toList
  have hg : GoodTbl t := goodTbl_tbl _
  have hall : AllIn t h1 := allIn_tbl (fun y hy => hy)
  have hn1 : AllNum h1 := by
    intro k y hk
    have : y ∈ h1.toList := mem_of_getElem? hk
    simp only [h1, Array.toList_push, List.mem_append, List.mem_singleton] at this
    rcases this with e | e
    · exact hn y e
    · rw [e]; exact hx
  have hsz : h1.size = q.size + 1 := by simp [h1]
  have hget : ∀ k, k < q.size → h1[k]? = q[k]? := by
    intro k hk; simp [h1, Array.getElem?_push, hk]; omega
  have hou : OrdUp t h1 h1.size (h1.size - 1) := by
    constructor
    · intro k hk hkn hne pa pb ha hb ep eq hep heq
      have hkq : k < q.size := by omega
      have hpq : par k < q.size := by unfold par; omega
      rw [hget k hkq] at hb
      rw [hget (par k) hpq] at ha
      rw [hg pa ep hep, hg pb eq heq]
      exact hq k pa pb hk ha hb
    · intro k hk hkn hpar _
      exfalso; unfold par at hpar; omega
  obtain ⟨h2, hup, hsz2, hord, hsh⟩ := up_spec (h1.size + 1) h1 (h1.size - 1) hall hou (by omega) (by omega)
  have heq : heapPush q x = h2 := by
    unfold heapPush
    exact up_eq hg _ _ _ _ hn1 hup
  rw [heq]
  exact heapOrd_of_ord hg (hsh.allIn hall) hord rfl (fun _ _ => rfl)

theorem heapPop_spec (q : Array Item) (x : Item) (q' : Array Item) (hq : HeapOrd q)
    (hn : ∀ y ∈ q.toList, Numeric y) (hp : heapPop q = some (x, q')) :
    HeapOrd q' ∧ q.toList.Perm (x :: q'.toList) ∧ ∀ y ∈ q'.toList, ¬ itemLess y x = true := by
  unfold heapPop at hp
  by_cases h0 : q.size = 0
  · simp [h0] at hp
  simp only [h0, if_false] at hp
  obtain ⟨n, hnd⟩ : ∃ n, n = q.size - 1 := ⟨_, rfl⟩
  rw [← hnd] at hp
  let t : T := tbl q.toList
  have hg : GoodTbl t := goodTbl_tbl _
  have hall : AllIn t q := allIn_tbl (fun y hy => hy)
  have hnq : AllNum q := allNum_of_list hn
  obtain ⟨root, hroot⟩ := getElem?_lt (show 0 < q.size by omega)
  obtain ⟨lastv, hlast⟩ := getElem?_lt (show n < q.size by omega)
  obtain ⟨h1, hsw, hsz1, hk1⟩ := swap_spec hroot hlast
  have hasw : aswap q 0 n = h1 := swap_eq_aswap hsw
  have hall1 : AllIn t h1 := by
    intro k p hk; rw [hk1 k] at hk; exact hall _ _ hk
  have hn1 : AllNum h1 := allNum_swap hsw hnq
  have hod : OrdDown t h1 n 0 := by
    constructor
    · intro k hk hkn hpar pa pb ha hb ep eq hep heq
      have hpk : par k < k := by unfold par; omega
      have e1 : tr 0 n k = k := tr_ne (by omega) (by omega)
      have e2 : tr 0 n (par k) = par k := tr_ne hpar (by omega)
      rw [hk1 k, e1] at hb
      rw [hk1 (par k), e2] at ha
      rw [hg pa ep hep, hg pb eq heq]
      exact hq k pa pb hk ha hb
    · intro k _ _ _ h; omega
  obtain ⟨r, hdown, hszr, hordr, hshr, hkeep⟩ :=
    down_spec (q.size + 1) h1 0 n hall1 (by omega) hod (by omega)
  have hdeq : heapDown (q.size + 1) h1 0 n = r.1 := down_eq hg _ _ _ _ _ hn1 hdown
  have hrn : r.1[n]? = some root := by
    rw [hkeep n (Nat.le_refl _), hk1 n, tr_right]; exact hroot
  simp only [hasw, hdeq, hrn, Option.some.injEq, Prod.mk.injEq] at hp
  obtain ⟨hx, hq'⟩ := hp
  subst hx; subst hq'
  have hperm : q.toList.Perm (root :: r.1.pop.toList) := by
    have p1 : r.1.toList.Perm q.toList := by
      rw [← hdeq, ← hasw]
      exact (heapDown_perm _ _ _ _).trans (aswap_perm _ _ _)
    have hrsz : r.1.size = n + 1 := by rw [hszr, hsz1]; omega
    have hsplit : r.1.toList = r.1.pop.toList ++ [root] := by
      have hne : r.1.toList ≠ [] := by
        intro e; have := congrArg List.length e; simp [hrsz] at this
      rw [Array.toList_pop]
      have hl : r.1.toList.getLast? = some root := by
        rw [List.getLast?_eq_getElem?]
        simp only [Array.length_toList, hrsz, Nat.add_sub_cancel]
        rw [← Array.getElem?_toList] at hrn; exact hrn
      rw [List.getLast?_eq_some_getLast hne] at hl
      have := List.dropLast_concat_getLast hne
      rw [← Option.some.inj hl]; exact this.symm
    rw [hsplit] at p1
    exact p1.symm.trans (by simpa using (List.perm_append_comm (l₁ := r.1.pop.toList) (l₂ := [root])))
  refine ⟨?_, hperm, ?_⟩
  · refine heapOrd_of_ord hg (hshr.allIn hall1) hordr (by simp [hszr, hsz1]; omega) ?_
    intro k hk
    simp [Array.getElem?_pop, hszr, hsz1]
    intro hk'; omega
  · intro y hy
    have hyq : y ∈ q.toList := hperm.mem_iff.mpr (List.mem_cons_of_mem _ hy)
    obtain ⟨m, hm, hmy⟩ := List.getElem_of_mem hyq
    have hmq : m < q.size := by simpa using hm
    have hqm : q[m]? = some y := by
      rw [← Array.getElem?_toList, List.getElem?_eq_getElem hm, hmy]
    have hmin := root_min hall (Nat.le_refl _) (ord_of_heapOrd hg hq q.size) m hmq root y hroot hqm
    obtain ⟨er, her⟩ := hall _ _ hroot
    obtain ⟨ey, hey⟩ := hall _ _ hqm
    have := hmin er ey her hey
    rw [hg root er her, hg y ey hey] at this
    rw [itemLess_num (hn y hyq) (hnq 0 root hroot)]
    simpa using this

theorem heapPop_none (q : Array Item) (h : heapPop q = none) : q.toList = [] := by
  unfold heapPop at h
  by_cases h0 : q.size = 0
  · exact List.eq_nil_of_length_eq_zero (by simpa using h0)
  · exfalso
    simp only [h0, if_false] at h
    have hlen : (heapDown (q.size + 1) (aswap q 0 (q.size - 1)) 0 (q.size - 1)).size = q.size := by
      have := ((heapDown_perm (q.size + 1) (aswap q 0 (q.size - 1)) 0 (q.size - 1)).trans
        (aswap_perm q 0 (q.size - 1))).length_eq
      simpa using this
    obtain ⟨v, hv⟩ := getElem?_lt (h := heapDown (q.size + 1) (aswap q 0 (q.size - 1)) 0 (q.size - 1))
      (k := q.size - 1) (by omega)
    simp [hv] at h

/-- **The exact port of container/heap satisfies the priority-queue law** (invariant: heap order). -/
def goHeapLaw : PQLaw goHeap where
  elems := fun q => q.toList
  inv := HeapOrd
  inv_empty := by intro k pa pb _ ha _; simp [goHeap] at ha
  empty := rfl
  size := fun (q : Array Item) => (Array.length_toList (xs := q)).symm
  push := fun q x hq hx hn => heapPush_spec q x hq hx hn
  pop_none := heapPop_none
  pop_some := fun q x q' hq hn hp => heapPop_spec q x q' hq hn hp

end B6.Lemmas.CollectionsHeap
