import B6.Model.Varint
/-!
# Lemmas about the L0 varint layer (kernel-only: propext, Classical.choice, Quot.sound)

* `uvarint_putUvarint_append` — the prefix-code lemma every codec proof rests on:
  `uvarint (putUvarint v ++ rest) = some (v, (putUvarint v).length)` for all `v < 2^64`.
* `uvarintRaw_putUvarint_append` — same for the raw Go result.
* `putUvarint_length_pos`, `putUvarint_length_le` — 1 ≤ length ≤ 10.
* `uvarint_lt` — every successfully decoded value is `< 2^64`; `uvarint_le_length` — bytes read ≤ length.
* `varint_putVarint_append` — signed round trip for every `x : BitVec 64`.
* `unmarshal_marshalUint64_append` — fixed width round trip for `uint64Length v ≤ l`.
* `zigzagDecode_zigzagEncode`, `zigzagEncode_zigzagDecode` — zigzag is a bijection on `BitVec 64`.
-/
namespace B6.Model.Varint

/-! ## putUvarint -/

theorem putUvarintFuel_length_pos (f v : Nat) : 1 ≤ (putUvarintFuel f v).length := by
  cases f with
  | zero => simp [putUvarintFuel]
  | succ f => unfold putUvarintFuel; split <;> simp

theorem putUvarintFuel_length_le (f v : Nat) : (putUvarintFuel f v).length ≤ f + 1 := by
  induction f generalizing v with
  | zero => simp [putUvarintFuel]
  | succ f ih =>
    unfold putUvarintFuel; split
    · simp
    · simp only [List.length_cons]; have := ih (v / 128); omega

theorem putUvarint_length_pos (v : Nat) : 1 ≤ (putUvarint v).length := putUvarintFuel_length_pos 9 v

theorem putUvarint_length_le (v : Nat) : (putUvarint v).length ≤ 10 := putUvarintFuel_length_le 9 v

theorem putUvarint_ne_nil (v : Nat) : putUvarint v ≠ [] := by
  intro h; have := putUvarint_length_pos v; simp [h] at this

private theorem toUInt8_toNat_of_lt (n : Nat) (h : n < 256) : (n.toUInt8).toNat = n := by
  simp [Nat.toUInt8, UInt8.toNat_ofNat']; omega

/-- generalised prefix lemma: decoding resumes in the middle of the loop (`i` bytes already consumed). -/
theorem uvarintRawAux_putUvarintFuel (f : Nat) : ∀ (v s x i : Nat) (rest : Bytes),
    v < 2 ^ (7 * f + 1) → i + f = 9 →
    uvarintRawAux (putUvarintFuel f v ++ rest) s x i
      = (x + v * 2 ^ s, (i : Int) + (putUvarintFuel f v).length) := by
  induction f with
  | zero =>
    intro v s x i rest h1 hi
    have hv : v ≤ 1 := by simp at h1; omega
    have hb : (v.toUInt8).toNat = v := toUInt8_toNat_of_lt v (by omega)
    have hi10 : i ≠ 10 := by omega
    have h9 : ¬ (i = 9 ∧ v > 1) := by omega
    simp only [putUvarintFuel, List.cons_append, List.nil_append, uvarintRawAux, hb, hi10, if_false, h9]
    have : v < 128 := by omega
    simp [this]
  | succ f ih =>
    intro v s x i rest hv hi
    unfold putUvarintFuel
    have hi10 : i ≠ 10 := by omega
    split
    · rename_i hlt
      have hb : (v.toUInt8).toNat = v := toUInt8_toNat_of_lt v (by omega)
      have h9 : ¬ (i = 9 ∧ v > 1) := by omega
      simp [uvarintRawAux, hb, hi10, hlt, h9]
    · rename_i hge
      have hb : ((v % 128 + 128).toUInt8).toNat = v % 128 + 128 := toUInt8_toNat_of_lt _ (by omega)
      have hnlt : ¬ (v % 128 + 128 < 128) := by omega
      simp only [List.cons_append, uvarintRawAux, hi10, if_false, hb, hnlt]
      have hpow : v / 128 < 2 ^ (7 * f + 1) := by
        have e : 2 ^ (7 * (f + 1) + 1) = 2 ^ (7 * f + 1) * 128 := by
          have : 7 * (f + 1) + 1 = (7 * f + 1) + 7 := by omega
          rw [this, Nat.pow_add]
        rw [e] at hv
        exact Nat.div_lt_of_lt_mul (by rw [Nat.mul_comm]; exact hv)
      rw [ih (v / 128) (s + 7) _ (i + 1) rest hpow (by omega)]
      have e2 : x + (v % 128 + 128 - 128) * 2 ^ s + v / 128 * 2 ^ (s + 7) = x + v * 2 ^ s := by
        have hp : 2 ^ (s + 7) = 2 ^ s * 128 := by rw [Nat.pow_add]
        rw [hp]
        have hv' : v = v % 128 + 128 * (v / 128) := (Nat.mod_add_div v 128).symm
        generalize v / 128 = q at *
        generalize v % 128 = r at *
        generalize 2 ^ s = p at *
        subst hv'
        have e2 : q * (p * 128) = 128 * (q * p) := by
          rw [Nat.mul_comm p 128, ← Nat.mul_assoc, Nat.mul_comm q 128, Nat.mul_assoc]
        have e3 : (r + 128 * q) * p = r * p + 128 * (q * p) := by
          rw [Nat.add_mul, Nat.mul_assoc]
        have e4 : r + 128 - 128 = r := by omega
        rw [e2, e3, e4]; omega
      rw [e2]
      simp only [List.length_cons]
      congr 1
      push_cast
      omega

/-- **prefix-code lemma, raw form**: `binary.Uvarint(PutUvarint(v) ++ rest) = (v, len)` for every `v < 2^64`. -/
theorem uvarintRaw_putUvarint_append (v : Nat) (hv : v < 2 ^ 64) (rest : Bytes) :
    uvarintRaw (putUvarint v ++ rest) = (v, ((putUvarint v).length : Int)) := by
  have h := uvarintRawAux_putUvarintFuel 9 v 0 0 0 rest (by omega) (by omega)
  simpa [uvarintRaw, putUvarint] using h

/-- **prefix-code lemma**: `uvarint (putUvarint v ++ rest) = some (v, length)` for every `v < 2^64`. -/
theorem uvarint_putUvarint_append (v : Nat) (hv : v < 2 ^ 64) (rest : Bytes) :
    uvarint (putUvarint v ++ rest) = some (v, (putUvarint v).length) := by
  have hpos := putUvarint_length_pos v
  simp only [uvarint, uvarintRaw_putUvarint_append v hv rest]
  simp [putUvarint_ne_nil]

theorem uvarint_putUvarint (v : Nat) (hv : v < 2 ^ 64) :
    uvarint (putUvarint v) = some (v, (putUvarint v).length) := by
  simpa using uvarint_putUvarint_append v hv []

/-! ## what a successful decode guarantees -/

theorem uvarintRawAux_bound : ∀ (bs : Bytes) (s x i : Nat) (v : Nat) (n : Int),
    uvarintRawAux bs s x i = (v, n) → n > 0 → s = 7 * i → x < 2 ^ s → i ≤ 10 →
    v < 2 ^ 64 ∧ n ≤ (i : Int) + bs.length ∧ n > i ∧ n ≤ 10 := by
  intro bs
  induction bs with
  | nil => intro s x i v n h hn; simp [uvarintRawAux] at h; omega
  | cons b bs ih =>
    intro s x i v n h hn hs hx hi
    unfold uvarintRawAux at h
    split at h
    · simp at h; omega
    · rename_i hi10
      split at h
      · rename_i hb
        split at h
        · simp at h; omega
        · rename_i h9
          simp only [Prod.mk.injEq] at h
          obtain ⟨hv, hn'⟩ := h
          subst hv
          refine ⟨?_, by simp; omega, by omega, by omega⟩
          by_cases hi9 : i = 9
          · subst hi9
            have hb1 : b.toNat ≤ 1 := by omega
            subst hs
            have : b.toNat * 2 ^ (7 * 9) ≤ 1 * 2 ^ (7 * 9) := Nat.mul_le_mul_right _ hb1
            omega
          · have hi8 : i ≤ 8 := by omega
            subst hs
            have h1 : b.toNat * 2 ^ (7 * i) < 128 * 2 ^ (7 * i) := Nat.mul_lt_mul_of_pos_right hb (Nat.two_pow_pos _)
            have h2 : 128 * 2 ^ (7 * i) = 2 ^ (7 * i + 7) := by rw [Nat.pow_add]; omega
            have h3 : 2 ^ (7 * i + 7) ≤ 2 ^ 63 := Nat.pow_le_pow_right (by omega) (by omega)
            omega
      · rename_i hb
        have hb' : b.toNat < 256 := b.toNat_lt
        have := ih (s + 7) (x + (b.toNat - 128) * 2 ^ s) (i + 1) v n h hn (by omega) (by
          have h1 : (b.toNat - 128) * 2 ^ s ≤ 127 * 2 ^ s := Nat.mul_le_mul_right _ (by omega)
          have h2 : 2 ^ (s + 7) = 2 ^ s * 128 := by rw [Nat.pow_add]
          omega) (by omega)
        simp only [List.length_cons]
        push_cast at this ⊢
        omega

theorem uvarint_spec (bs : Bytes) (v n : Nat) (h : uvarint bs = some (v, n)) :
    v < 2 ^ 64 ∧ 1 ≤ n ∧ n ≤ bs.length ∧ n ≤ 10 ∧ uvarintRaw bs = (v, (n : Int)) := by
  unfold uvarint at h
  simp only at h
  split at h
  · rename_i hpos
    simp only [Option.some.injEq, Prod.mk.injEq] at h
    obtain ⟨hv, hn⟩ := h
    have hb := uvarintRawAux_bound bs 0 0 0 (uvarintRaw bs).1 (uvarintRaw bs).2 rfl hpos rfl (by simp) (by omega)
    have e : uvarintRaw bs = (v, (n : Int)) := by
      apply Prod.ext
      · exact hv
      · simp only; omega
    refine ⟨hv ▸ hb.1, by omega, by omega, ?_, e⟩
    -- n ≤ 10: the loop stops at byte index 10
    have := hb.2.2.2
    omega
  · simp at h

/-! ## zigzag and signed varints (bit level, kernel-only) -/

theorem allOnes64 : (18446744073709551615#64) = BitVec.allOnes 64 := by decide

theorem sshiftRight63 (x : BitVec 64) :
    x.sshiftRight 63 = if x.msb then BitVec.allOnes 64 else 0#64 := by
  ext i hi
  cases h : x.msb
  · simp [BitVec.getElem_sshiftRight, h]
    intro h2
    have : i = 0 := by omega
    subst this
    simpa [BitVec.msb_eq_getLsbD_last] using h
  · simp only [BitVec.getElem_sshiftRight, h, if_true, BitVec.getElem_allOnes]
    split
    · rename_i h2
      have : i = 0 := by omega
      subst this
      simpa [BitVec.msb_eq_getLsbD_last] using h
    · rfl

/-- Go's `uint64(v<<1) ^ uint64(v>>63)` is the branchy form used by `binary.PutVarint`. -/
theorem zigzagEncode_eq_varintZig (x : BitVec 64) : zigzagEncode x = varintZig x := by
  unfold zigzagEncode varintZig
  rw [sshiftRight63]
  cases x.msb
  · simp
  · simp only [if_true]; exact BitVec.xor_allOnes

theorem and_one_cases (v : BitVec 64) : v &&& 1#64 = 0#64 ∨ v &&& 1#64 = 1#64 := by
  have : (v &&& 1#64).toNat = v.toNat % 2 := by simp [BitVec.toNat_and]
  rcases Nat.mod_two_eq_zero_or_one v.toNat with h | h
  · left; apply BitVec.eq_of_toNat_eq; simp [this, h]
  · right; apply BitVec.eq_of_toNat_eq; simp [this, h]

theorem neg_and_one (v : BitVec 64) :
    -(v &&& 1#64) = if v &&& 1#64 ≠ 0#64 then BitVec.allOnes 64 else 0#64 := by
  rcases and_one_cases v with h | h <;> rw [h] <;> decide

theorem zigzagDecode_eq_varintZag (v : BitVec 64) : zigzagDecode v = varintZag v := by
  unfold zigzagDecode varintZag
  rw [neg_and_one]
  split
  · exact BitVec.xor_allOnes
  · simp

theorem and_one_ne_zero_iff (v : BitVec 64) : v &&& 1#64 ≠ 0#64 ↔ v.toNat % 2 = 1 := by
  have e : (v &&& 1#64).toNat = v.toNat % 2 := by simp [BitVec.toNat_and]
  constructor
  · intro h
    rcases and_one_cases v with h0 | h1
    · exact absurd h0 h
    · rw [← e, h1]; rfl
  · intro h hz
    rw [hz] at e; simp at e; omega

theorem msb_iff (x : BitVec 64) : x.msb = true ↔ 2 ^ 63 ≤ x.toNat := by
  rw [BitVec.msb_eq_decide]; simp

theorem varintZig_toNat (x : BitVec 64) :
    (varintZig x).toNat = if 2 ^ 63 ≤ x.toNat then 2 ^ 64 - 1 - (2 * x.toNat) % 2 ^ 64 else (2 * x.toNat) % 2 ^ 64 := by
  unfold varintZig
  by_cases h : x.msb = true
  · have h' := (msb_iff x).1 h
    simp only [h, if_true, h', BitVec.toNat_not, BitVec.toNat_shiftLeft, Nat.shiftLeft_eq]
    omega
  · have h' : ¬ 2 ^ 63 ≤ x.toNat := fun hh => h ((msb_iff x).2 hh)
    rw [if_neg h, if_neg h']
    simp only [BitVec.toNat_shiftLeft, Nat.shiftLeft_eq]
    omega

theorem varintZag_toNat (u : BitVec 64) :
    (varintZag u).toNat = if u.toNat % 2 = 1 then 2 ^ 64 - 1 - u.toNat / 2 else u.toNat / 2 := by
  unfold varintZag
  by_cases h : u &&& 1#64 ≠ 0#64
  · have h' := (and_one_ne_zero_iff u).1 h
    rw [if_pos h, if_pos h']
    simp only [BitVec.toNat_not, BitVec.toNat_ushiftRight, Nat.shiftRight_eq_div_pow]
  · have h' : ¬ u.toNat % 2 = 1 := fun hh => h ((and_one_ne_zero_iff u).2 hh)
    rw [if_neg h, if_neg h']
    simp only [BitVec.toNat_ushiftRight, Nat.shiftRight_eq_div_pow]

/-- `binary.Varint`'s un-zigzag inverts `binary.PutVarint`'s zigzag — every 64-bit value. -/
theorem varintZag_varintZig (x : BitVec 64) : varintZag (varintZig x) = x := by
  apply BitVec.eq_of_toNat_eq
  rw [varintZag_toNat, varintZig_toNat]
  have := x.isLt
  split <;> split <;> omega

/-- and the other way round: every `uint64` is the zigzag of exactly one `int64`. -/
theorem varintZig_varintZag (u : BitVec 64) : varintZig (varintZag u) = u := by
  apply BitVec.eq_of_toNat_eq
  rw [varintZig_toNat, varintZag_toNat]
  have := u.isLt
  split <;> split <;> omega

/-- **zigzag round trip** (`ZigzagDecode(ZigzagEncode(x)) = x`, all 64-bit values). -/
theorem zigzagDecode_zigzagEncode (x : BitVec 64) : zigzagDecode (zigzagEncode x) = x := by
  rw [zigzagDecode_eq_varintZag, zigzagEncode_eq_varintZig, varintZag_varintZig]

/-- zigzag is onto: `ZigzagEncode(ZigzagDecode(v)) = v`. -/
theorem zigzagEncode_zigzagDecode (v : BitVec 64) : zigzagEncode (zigzagDecode v) = v := by
  rw [zigzagDecode_eq_varintZag, zigzagEncode_eq_varintZig, varintZig_varintZag]

/-- the code before the repair (arithmetic shift in `ZigzagDecode`) lost `x = 2^62`. -/
theorem zigzagDecodeArith_counterexample :
    zigzagDecodeArith (zigzagEncode 0x4000000000000000#64) ≠ 0x4000000000000000#64 := by decide

/-- **signed varint prefix-code lemma**: `binary.Varint(PutVarint(x) ++ rest) = (x, len)`. -/
theorem varint_putVarint_append (x : BitVec 64) (rest : Bytes) :
    varint (putVarint x ++ rest) = some (x, (putVarint x).length) := by
  unfold varint putVarint
  rw [uvarint_putUvarint_append _ (varintZig x).isLt rest]
  simp [varintZag_varintZig]

theorem putVarint_length_pos (x : BitVec 64) : 1 ≤ (putVarint x).length := putUvarint_length_pos _
theorem putVarint_length_le (x : BitVec 64) : (putVarint x).length ≤ 10 := putUvarint_length_le _

/-- `BitVec 64` form of the unsigned prefix-code lemma. -/
theorem uvarint64_putUvarint64_append (v : BitVec 64) (rest : Bytes) :
    uvarint64 (putUvarint64 v ++ rest) = some (v, (putUvarint64 v).length) := by
  unfold uvarint64 putUvarint64
  rw [uvarint_putUvarint_append _ v.isLt rest]
  simp

/-! ## fixed-width integers -/

theorem marshalUint64_length (v l : Nat) : (marshalUint64 v l).length = l := by
  induction l generalizing v with
  | zero => rfl
  | succ l ih => simp [marshalUint64, ih]

theorem leValue_marshalUint64 (l : Nat) : ∀ v, leValue (marshalUint64 v l) = v % 256 ^ l := by
  induction l with
  | zero => intro v; simp [marshalUint64, leValue, Nat.mod_one]
  | succ l ih =>
    intro v
    have hb : ((v % 256).toUInt8).toNat = v % 256 := toUInt8_toNat_of_lt _ (Nat.mod_lt _ (by omega))
    simp only [marshalUint64, leValue, hb, ih]
    rw [Nat.pow_succ, Nat.mul_comm (256 ^ l) 256, Nat.mod_mul]

theorem uint64Length_spec (v : Nat) (hv : v < 2 ^ 64) : 1 ≤ uint64Length v ∧ uint64Length v ≤ 8 ∧ v < 256 ^ uint64Length v := by
  unfold uint64Length
  repeat' split
  all_goals omega

/-- **fixed-width round trip**: `UnmarshalUint64(l, MarshalUint64(v, l) ++ rest) = v` whenever `l` is at
least `Uint64Length(v)` (any `l`, also `l > 8`). -/
theorem unmarshal_marshalUint64_append (v l : Nat) (hv : v < 2 ^ 64) (hl : uint64Length v ≤ l) (rest : Bytes) :
    unmarshalUint64 l (marshalUint64 v l ++ rest) = some v := by
  have hs := uint64Length_spec v hv
  have hl0 : ¬ (l = 0 ∨ (marshalUint64 v l ++ rest).length < l) := by
    simp [marshalUint64_length]; omega
  have ht : (marshalUint64 v l ++ rest).take l = marshalUint64 v l := by
    have := marshalUint64_length v l
    simp [this]
  simp only [unmarshalUint64, hl0, if_false, ht, leValue_marshalUint64]
  have hpow : 256 ^ uint64Length v ≤ 256 ^ l := Nat.pow_le_pow_right (by omega) hl
  have : v < 256 ^ l := by omega
  rw [Nat.mod_eq_of_lt this, Nat.mod_eq_of_lt hv]

end B6.Model.Varint
